import EoNVerif.Proofs.EventSIRStep
/-!
Helper lemmas for C11, part 3: the state invariant of the event loop of `fast_nonMarkov_SIR` (Dijkstra's
invariant under arbitrary tie-breaking), its preservation by each kind of step, and the termination measure.
-/
namespace ERat
theorem lt_of_le_of_lt {a b c : ERat} (h1 : ERat.le a b = true) (h2 : ERat.lt b c = true) : ERat.lt a c = true := by
  cases a <;> cases b <;> cases c <;> simp_all
  linarith
end ERat

namespace EventSIR

abbrev TEv := Rat × Option Node × Node

theorem fset_same {α β : Type} [DecidableEq α] (f : α → β) (x : α) (v : β) : fset f x v x = v := by simp [fset]
theorem fset_other {α β : Type} [DecidableEq α] (f : α → β) (x y : α) (v : β) (h : y ≠ x) : fset f x v y = f y := by
  simp [fset, h]

theorem mem_mid {α : Type} {l1 l2 : List α} {x y : α} (h : y ∈ l1 ++ l2) : y ∈ l1 ++ x :: l2 := by
  simp only [List.mem_append, List.mem_cons] at h ⊢; tauto
theorem mem_mid' {α : Type} {l1 l2 : List α} {x y : α} (h : y ∈ l1 ++ x :: l2) (hne : y ≠ x) : y ∈ l1 ++ l2 := by
  simp only [List.mem_append, List.mem_cons] at h ⊢; tauto
theorem count_mid (l1 l2 : List QItem) (x a : QItem) :
    (l1 ++ x :: l2).count a = (l1 ++ l2).count a + if x = a then 1 else 0 := by
  simp only [List.count_append, List.count_cons, beq_iff_eq]; omega

section Inv
variable (nodes : List Node) (nbrs : Node → List Node) (delay : Node → Node → ERat) (dur : Node → ERat)
  (tmin : Rat) (tmax : ERat) (infs recs : List Node)

/-- where a (queued or reported) transmission comes from -/
def SrcOK (tr : List TEv) (t : Rat) (src : Option Node) (v : Node) : Prop :=
  match src with
  | none => v ∈ infs ∧ t = tmin
  | some u => keeps nbrs delay dur u v = true ∧
      ∃ eu ∈ tr, eu.2.2 = u ∧ ERat.add (some eu.1) (delay u v) = some t

/-- the loop invariant, on the components of the state -/
structure InvC (st : Node → St) (rt pr : Node → ERat) (q : List QItem) (tr : List TEv) : Prop where
  st_S : ∀ v, st v = St.S ↔ (v ∉ recs ∧ ∀ e ∈ tr, e.2.2 ≠ v)
  tr_nodup : (tr.map (·.2.2)).Nodup
  tr_lt : ∀ e ∈ tr, ERat.lt (some e.1) tmax = true
  tr_src : ∀ e ∈ tr, SrcOK nbrs delay dur tmin infs tr e.1 e.2.1 e.2.2
  tr_walk : ∀ e ∈ tr, ∃ p, TW nbrs delay dur tmin infs recs e.2.2 p e.1
  tr_opt : ∀ e ∈ tr, ∀ p L, TW nbrs delay dur tmin infs recs e.2.2 p L → e.1 ≤ L
  q_lt : ∀ x ∈ q, ERat.lt (some x.time) tmax = true
  q_tr : ∀ x ∈ q, ∀ src v, x.ev = QEv.trans src v → v ∈ nodes ∧ SrcOK nbrs delay dur tmin infs tr x.time src v
  pred_edge : ∀ e ∈ tr, ∀ v d, keeps nbrs delay dur e.2.2 v = true → st v = St.S → delay e.2.2 v = some d →
      ERat.lt (some (e.1 + d)) tmax = true → ERat.le (pr v) (some (e.1 + d)) = true
  pred_init : ∀ v ∈ infs, st v = St.S → ERat.le (pr v) (some tmin) = true
  pred_q : QJ tmax (fun v => st v = St.S) pr q
  rec_time : ∀ e ∈ tr, rt e.2.2 = ERat.add (some e.1) (dur e.2.2)
  rec_R : ∀ v, st v = St.R → v ∉ recs → ∃ r, rt v = some r ∧ ERat.lt (some r) tmax = true
  rec_I : ∀ v r, st v = St.I → rt v = some r → ERat.lt (some r) tmax = true → (⟨r, QEv.recov v⟩ : QItem) ∈ q
  rec_q : ∀ x ∈ q, ∀ u, x.ev = QEv.recov u → st u = St.I ∧ rt u = some x.time
  rec_cnt : ∀ t u, q.count (⟨t, QEv.recov u⟩ : QItem) ≤ 1

variable {nodes nbrs delay dur tmin tmax infs recs}

theorem SrcOK.mono {tr tr' : List TEv} {t : Rat} {src : Option Node} {v : Node}
    (h : SrcOK nbrs delay dur tmin infs tr t src v) (hsub : ∀ e ∈ tr, e ∈ tr') :
    SrcOK nbrs delay dur tmin infs tr' t src v := by
  cases src with
  | none => exact h
  | some u =>
    obtain ⟨h1, eu, h2, h3⟩ := h
    exact ⟨h1, eu, hsub eu h2, h3⟩

variable {st : Node → St} {rt pr : Node → ERat} {q : List QItem} {tr : List TEv}

theorem InvC.mem_of_not_S (hI : InvC nodes nbrs delay dur tmin tmax infs recs st rt pr q tr) {y : Node}
    (hs : st y ≠ St.S) (hr : y ∉ recs) : ∃ e ∈ tr, e.2.2 = y := by
  by_contra hne
  apply hs
  rw [hI.st_S]
  refine ⟨hr, fun e he heq => hne ⟨e, he, heq⟩⟩

/-- Dijkstra's key step: every walk ending strictly before all queued events ends in a reported node -/
theorem InvC.claim (h : WF nodes nbrs delay dur infs recs)
    (hI : InvC nodes nbrs delay dur tmin tmax infs recs st rt pr q tr) (b : Rat) (hb : ∀ x ∈ q, b ≤ x.time)
    {y : Node} {p : List Node} {L : Rat} (hw : TW nbrs delay dur tmin infs recs y p L)
    (hLb : L < b) (hLt : ERat.lt (some L) tmax = true) : ∃ e ∈ tr, e.2.2 = y ∧ e.1 ≤ L := by
  induction hw with
  | init y hy =>
    have hns : st y ≠ St.S := by
      intro hs
      obtain ⟨p0, hp0, hle⟩ := ERat.le_some_iff.1 (hI.pred_init y hy.1 hs)
      have hlt : ERat.lt (some p0) tmax = true := ERat.lt_of_le_of_lt (by simpa using hle) hLt
      obtain ⟨x, hx, hxt, _⟩ := hI.pred_q y p0 hs hp0 hlt
      have := hb x hx
      linarith
    obtain ⟨e, he, hey⟩ := hI.mem_of_not_S hns hy.2
    refine ⟨e, he, hey, hI.tr_opt e he [] tmin ?_⟩
    rw [hey]; exact GW.init _ hy
  | step u y p t d hw he ih =>
    have hd : 0 ≤ d := Et_nonneg h _ _ _ he
    have htL : ERat.lt (some t) tmax = true :=
      ERat.lt_of_le_of_lt (a := some t) (b := some (t + d)) (by simp; linarith) hLt
    obtain ⟨eu, heu, hu, hle⟩ := ih (by linarith) htL
    have hns : st y ≠ St.S := by
      intro hs
      have hlt2 : ERat.lt (some (eu.1 + d)) tmax = true :=
        ERat.lt_of_le_of_lt (a := some (eu.1 + d)) (b := some (t + d)) (by simp; linarith) hLt
      have h1 := hI.pred_edge eu heu y d (by rw [hu]; exact he.1) hs (by rw [hu]; exact he.2.2) hlt2
      obtain ⟨p0, hp0, hle0⟩ := ERat.le_some_iff.1 h1
      have hlt : ERat.lt (some p0) tmax = true := ERat.lt_of_le_of_lt (by simpa using hle0) hlt2
      obtain ⟨x, hx, hxt, _⟩ := hI.pred_q y p0 hs hp0 hlt
      have := hb x hx
      linarith
    obtain ⟨e, he', hey⟩ := hI.mem_of_not_S hns he.2.1
    refine ⟨e, he', hey, hI.tr_opt e he' (u :: p) (t + d) ?_⟩
    rw [hey]; exact GW.step _ _ _ _ _ hw he

/-! #### popping an event whose target is no longer susceptible -/

theorem InvC.dequeue_notS {l1 l2 : List QItem} {x : QItem} {src : Option Node} {tgt : Node}
    (hI : InvC nodes nbrs delay dur tmin tmax infs recs st rt pr (l1 ++ x :: l2) tr)
    (hev : x.ev = QEv.trans src tgt) (hs : st tgt ≠ St.S) :
    InvC nodes nbrs delay dur tmin tmax infs recs st rt pr (l1 ++ l2) tr where
  st_S := hI.st_S
  tr_nodup := hI.tr_nodup
  tr_lt := hI.tr_lt
  tr_src := hI.tr_src
  tr_walk := hI.tr_walk
  tr_opt := hI.tr_opt
  q_lt := fun y hy => hI.q_lt y (mem_mid hy)
  q_tr := fun y hy => hI.q_tr y (mem_mid hy)
  pred_edge := hI.pred_edge
  pred_init := hI.pred_init
  pred_q := by
    intro v p hv hp hlt
    obtain ⟨y, hy, hyt, src', hev'⟩ := hI.pred_q v p hv hp hlt
    refine ⟨y, mem_mid' hy ?_, hyt, src', hev'⟩
    rintro rfl
    rw [hev] at hev'; injection hev' with _ h2
    subst h2; exact hs hv
  rec_time := hI.rec_time
  rec_R := hI.rec_R
  rec_I := by
    intro v r h1 h2 h3
    refine mem_mid' (hI.rec_I v r h1 h2 h3) ?_
    intro heq
    rw [← heq] at hev; cases hev
  rec_q := fun y hy => hI.rec_q y (mem_mid hy)
  rec_cnt := by
    intro t u
    have := hI.rec_cnt t u
    rw [count_mid] at this; omega

/-! #### a recovery -/

theorem InvC.recover {l1 l2 : List QItem} {x : QItem} {u : Node}
    (hI : InvC nodes nbrs delay dur tmin tmax infs recs st rt pr (l1 ++ x :: l2) tr)
    (hev : x.ev = QEv.recov u) :
    InvC nodes nbrs delay dur tmin tmax infs recs (fset st u St.R) rt pr (l1 ++ l2) tr := by
  have hx : x ∈ l1 ++ x :: l2 := by simp
  obtain ⟨hsu, hru⟩ := hI.rec_q x hx u hev
  have hS : ∀ v, fset st u St.R v = St.S → st v = St.S := by
    intro v hv
    by_cases hvu : v = u
    · subst hvu; rw [fset_same] at hv; cases hv
    · rwa [fset_other _ _ _ _ hvu] at hv
  have hxq : x ∉ l1 ++ l2 := by
    intro hin
    have := hI.rec_cnt x.time u
    rw [count_mid] at this
    have hxe : x = ⟨x.time, QEv.recov u⟩ := by cases x; simp_all
    rw [if_pos hxe] at this
    have : 0 < (l1 ++ l2).count ⟨x.time, QEv.recov u⟩ := by
      rw [← hxe]; exact List.count_pos_iff.2 hin
    omega
  exact {
    st_S := by
      intro v
      by_cases hvu : v = u
      · subst hvu
        rw [fset_same, ← hI.st_S, hsu]; simp
      · rw [fset_other _ _ _ _ hvu]; exact hI.st_S v
    tr_nodup := hI.tr_nodup
    tr_lt := hI.tr_lt
    tr_src := hI.tr_src
    tr_walk := hI.tr_walk
    tr_opt := hI.tr_opt
    q_lt := fun y hy => hI.q_lt y (mem_mid hy)
    q_tr := fun y hy => hI.q_tr y (mem_mid hy)
    pred_edge := fun e he v d h1 h2 => hI.pred_edge e he v d h1 (hS v h2)
    pred_init := fun v hv h2 => hI.pred_init v hv (hS v h2)
    pred_q := by
      intro v p hv hp hlt
      obtain ⟨y, hy, hyt, src', hev'⟩ := hI.pred_q v p (hS v hv) hp hlt
      refine ⟨y, mem_mid' hy ?_, hyt, src', hev'⟩
      rintro rfl
      rw [hev] at hev'; cases hev'
    rec_time := hI.rec_time
    rec_R := by
      intro v hv hr
      by_cases hvu : v = u
      · subst hvu; exact ⟨x.time, hru, hI.q_lt x hx⟩
      · rw [fset_other _ _ _ _ hvu] at hv; exact hI.rec_R v hv hr
    rec_I := by
      intro v r h1 h2 h3
      have hvu : v ≠ u := by
        rintro rfl; rw [fset_same] at h1; cases h1
      rw [fset_other _ _ _ _ hvu] at h1
      refine mem_mid' (hI.rec_I v r h1 h2 h3) ?_
      intro heq
      rw [← heq] at hev; simp only [QEv.recov.injEq] at hev; exact hvu hev
    rec_q := by
      intro y hy u' hev'
      obtain ⟨g1, g2⟩ := hI.rec_q y (mem_mid hy) u' hev'
      have hne : u' ≠ u := by
        rintro rfl
        apply hxq
        have : y = x := by
          cases y; cases x; simp_all
        rwa [this] at hy
      rw [fset_other _ _ _ _ hne]; exact ⟨g1, g2⟩
    rec_cnt := by
      intro t u'
      have := hI.rec_cnt t u'
      rw [count_mid] at this; omega }

/-! #### an infection -/

theorem mem_susB {st : Node → St} {tgt v : Node} :
    v ∈ susB nbrs st tgt ↔ v ∈ nbrs tgt ∧ v ≠ tgt ∧ st v = St.S := by
  unfold susB
  simp only [List.mem_filter, decide_eq_true_eq]
  by_cases hv : v = tgt
  · subst hv; simp [fset_same]
  · simp [fset_other _ _ _ _ hv, hv]

theorem InvC.infect (h : WF nodes nbrs delay dur infs recs) {l1 l2 : List QItem} {x : QItem}
    {src : Option Node} {tgt : Node}
    (hI : InvC nodes nbrs delay dur tmin tmax infs recs st rt pr (l1 ++ x :: l2) tr)
    (hmin : ∀ y ∈ l1 ++ x :: l2, x.time ≤ y.time)
    (hev : x.ev = QEv.trans src tgt) (hs : st tgt = St.S) :
    InvC nodes nbrs delay dur tmin tmax infs recs (fset st tgt St.I)
      (fset rt tgt (ERat.add (some x.time) (dur tgt)))
      (schB nbrs delay dur tmax st pr (l1 ++ l2) x.time tgt).1
      (schB nbrs delay dur tmax st pr (l1 ++ l2) x.time tgt).2
      ((x.time, src, tgt) :: tr) := by
  have hx : x ∈ l1 ++ x :: l2 := by simp
  have htlt : ERat.lt (some x.time) tmax = true := hI.q_lt x hx
  obtain ⟨htn, hsrc⟩ := hI.q_tr x hx src tgt hev
  obtain ⟨htr, hno⟩ := (hI.st_S tgt).1 hs
  have hS : ∀ v, fset st tgt St.I v = St.S → v ≠ tgt ∧ st v = St.S := by
    intro v hv
    by_cases hvt : v = tgt
    · subst hvt; rw [fset_same] at hv; cases hv
    · rw [fset_other _ _ _ _ hvt] at hv; exact ⟨hvt, hv⟩
  -- the new node is reached by a walk
  have hwalk : ∃ p, TW nbrs delay dur tmin infs recs tgt p x.time := by
    cases src with
    | none =>
      obtain ⟨h1, h2⟩ := hsrc
      rw [h2]; exact ⟨[], GW.init _ ⟨h1, htr⟩⟩
    | some u =>
      obtain ⟨h1, eu, heu, hu, hadd⟩ := hsrc
      obtain ⟨p, hp⟩ := hI.tr_walk eu heu
      obtain ⟨a, b, ha, hb, hab⟩ := ERat.add_eq_some.1 hadd
      injection ha with ha
      rw [hu] at hp
      rw [← hab, ← ha]
      exact ⟨u :: p, GW.step _ _ _ _ _ hp ⟨h1, htr, hb⟩⟩
  -- and no walk is shorter
  have hopt : ∀ p L, TW nbrs delay dur tmin infs recs tgt p L → x.time ≤ L := by
    intro p L hw
    by_contra hlt
    have hlt : L < x.time := not_le.1 hlt
    have hLt : ERat.lt (some L) tmax = true :=
      ERat.lt_of_le_of_lt (a := some L) (b := some x.time) (by simp; linarith) htlt
    obtain ⟨e, he, hey, _⟩ := hI.claim h x.time hmin hw hlt hLt
    exact hno e he hey
  -- structure of the new queue
  obtain ⟨r, hq1, hrlen, hr1, hr2⟩ := q1B_spec dur tmax (l1 ++ l2) x.time tgt
  obtain ⟨ex, hq2, _, hex⟩ := schedule_struct tmax x.time tgt (ERat.add (some x.time) (dur tgt))
    ((susB nbrs st tgt).map fun v => (v, delay tgt v)) pr (q1B dur tmax (l1 ++ l2) x.time tgt)
  have hq : (schB nbrs delay dur tmax st pr (l1 ++ l2) x.time tgt).2 = l1 ++ l2 ++ r ++ ex := by
    unfold schB; rw [hq2, hq1]
  have hmono : ∀ w, ERat.le ((schB nbrs delay dur tmax st pr (l1 ++ l2) x.time tgt).1 w) (pr w) = true := by
    intro w; unfold schB; exact schedule_mono ..
  have hmemq : ∀ y, y ∈ (schB nbrs delay dur tmax st pr (l1 ++ l2) x.time tgt).2 ↔
      y ∈ l1 ++ l2 ∨ y ∈ r ∨ y ∈ ex := by
    intro y; rw [hq]; simp only [List.mem_append]; tauto
  have hexev : ∀ y ∈ ex, ∃ v t, y = ⟨t, QEv.trans (some tgt) v⟩ ∧ v ∈ susB nbrs st tgt ∧
      ERat.add (some x.time) (delay tgt v) = some t ∧ ERat.lt (some t) tmax = true ∧
      ERat.le (some t) (ERat.add (some x.time) (dur tgt)) = true := by
    intro y hy
    obtain ⟨v, d, t, hvd, g1, g2, g3, g4⟩ := hex y hy
    simp only [List.mem_map, Prod.mk.injEq] at hvd
    obtain ⟨v', hv', rfl, rfl⟩ := hvd
    exact ⟨v', t, g1, hv', g2, g3, g4⟩
  have hsub : ∀ e ∈ tr, e ∈ (x.time, src, tgt) :: tr := fun e he => List.mem_cons_of_mem _ he
  exact {
    st_S := by
      intro v
      by_cases hvt : v = tgt
      · subst hvt
        rw [fset_same]
        simp
      · rw [fset_other _ _ _ _ hvt, hI.st_S v]
        simp only [List.forall_mem_cons]
        have : tgt ≠ v := fun e => hvt e.symm
        tauto
    tr_nodup := by
      rw [List.map_cons, List.nodup_cons]
      refine ⟨?_, hI.tr_nodup⟩
      simp only [List.mem_map, not_exists, not_and]
      exact fun e he => hno e he
    tr_lt := by
      intro e he
      rcases List.mem_cons.1 he with rfl | he
      · exact htlt
      · exact hI.tr_lt e he
    tr_src := by
      intro e he
      rcases List.mem_cons.1 he with rfl | he
      · exact hsrc.mono hsub
      · exact (hI.tr_src e he).mono hsub
    tr_walk := by
      intro e he
      rcases List.mem_cons.1 he with rfl | he
      · exact hwalk
      · exact hI.tr_walk e he
    tr_opt := by
      intro e he
      rcases List.mem_cons.1 he with rfl | he
      · exact hopt
      · exact hI.tr_opt e he
    q_lt := by
      intro y hy
      rcases (hmemq y).1 hy with hy | hy | hy
      · exact hI.q_lt y (mem_mid hy)
      · obtain ⟨t, rfl, _, g⟩ := hr1 y hy; exact g
      · obtain ⟨v, t, rfl, _, _, g, _⟩ := hexev y hy; exact g
    q_tr := by
      intro y hy src' v' hev'
      rcases (hmemq y).1 hy with hy | hy | hy
      · obtain ⟨g1, g2⟩ := hI.q_tr y (mem_mid hy) src' v' hev'
        exact ⟨g1, g2.mono hsub⟩
      · obtain ⟨t, rfl, _, g⟩ := hr1 y hy; cases hev'
      · obtain ⟨v, t, rfl, hv, g1, g2, g3⟩ := hexev y hy
        simp only [QEv.trans.injEq] at hev'
        obtain ⟨rfl, rfl⟩ := hev'
        obtain ⟨hvn, _, _⟩ := mem_susB.1 hv
        refine ⟨h.nbr_mem tgt htn v hvn, ?_, (x.time, src, tgt), List.mem_cons_self .., rfl, g1⟩
        unfold keeps
        rw [Bool.and_eq_true, List.contains_iff_mem]
        refine ⟨hvn, ?_⟩
        rw [← g1, ERat.add_le_add_left_iff] at g3
        exact g3
    pred_edge := by
      intro e he v d hk hv hd hlt
      obtain ⟨hvt, hsv⟩ := hS v hv
      rcases List.mem_cons.1 he with rfl | he
      · simp only at hk hd hlt ⊢
        have hvn : v ∈ nbrs tgt := by
          unfold keeps at hk
          rw [Bool.and_eq_true, List.contains_iff_mem] at hk; exact hk.1
        have hkl : ERat.le (delay tgt v) (dur tgt) = true := by
          unfold keeps at hk
          rw [Bool.and_eq_true] at hk; exact hk.2
        unfold schB
        refine schedule_le tmax x.time tgt _ _ pr _ v (delay tgt v) (x.time + d) ?_ ?_ ?_ ?_
        · simp only [List.mem_map, Prod.mk.injEq]
          exact ⟨v, mem_susB.2 ⟨hvn, hvt, hsv⟩, rfl, rfl⟩
        · rw [hd]; rfl
        · have : ERat.add (some x.time) (delay tgt v) = some (x.time + d) := by rw [hd]; rfl
          rw [← this, ERat.add_le_add_left_iff]; exact hkl
        · exact ERat.le_of_lt hlt
      · exact ERat.le_trans (hmono v) (hI.pred_edge e he v d hk hsv hd hlt)
    pred_init := by
      intro v hv hsv
      exact ERat.le_trans (hmono v) (hI.pred_init v hv (hS v hsv).2)
    pred_q := by
      unfold schB
      apply schedule_QJ
      intro v p hv hp hlt
      obtain ⟨hvt, hsv⟩ := hS v hv
      obtain ⟨y, hy, hyt, src', hev'⟩ := hI.pred_q v p hsv hp hlt
      refine ⟨y, ?_, hyt, src', hev'⟩
      rw [hq1]
      refine List.mem_append_left _ (mem_mid' hy ?_)
      rintro rfl
      rw [hev] at hev'; injection hev' with _ h2
      exact hvt h2.symm
    rec_time := by
      intro e he
      rcases List.mem_cons.1 he with rfl | he
      · simp only [fset_same]
      · rw [fset_other _ _ _ _ (hno e he)]; exact hI.rec_time e he
    rec_R := by
      intro v hv hr
      have hvt : v ≠ tgt := by rintro rfl; rw [fset_same] at hv; cases hv
      rw [fset_other _ _ _ _ hvt] at hv ⊢
      exact hI.rec_R v hv hr
    rec_I := by
      intro v r0 h1 h2 h3
      rw [hmemq]
      by_cases hvt : v = tgt
      · subst hvt
        rw [fset_same] at h2
        exact Or.inr (Or.inl (hr2 r0 h2 h3))
      · rw [fset_other _ _ _ _ hvt] at h1 h2
        refine Or.inl (mem_mid' (hI.rec_I v r0 h1 h2 h3) ?_)
        intro heq
        rw [← heq] at hev; cases hev
    rec_q := by
      intro y hy u hev'
      rcases (hmemq y).1 hy with hy | hy | hy
      · obtain ⟨g1, g2⟩ := hI.rec_q y (mem_mid hy) u hev'
        have hut : u ≠ tgt := by rintro rfl; rw [hs] at g1; cases g1
        rw [fset_other _ _ _ _ hut, fset_other _ _ _ _ hut]; exact ⟨g1, g2⟩
      · obtain ⟨t, rfl, g1, _⟩ := hr1 y hy
        simp only [QEv.recov.injEq] at hev'
        subst hev'
        rw [fset_same, fset_same]; exact ⟨rfl, g1⟩
      · obtain ⟨v, t, rfl, _⟩ := hexev y hy; cases hev'
    rec_cnt := by
      intro t u
      rw [hq, List.count_append, List.count_append]
      have h3 : ex.count (⟨t, QEv.recov u⟩ : QItem) = 0 := by
        apply List.count_eq_zero_of_not_mem
        intro hin
        obtain ⟨v, t', g, _⟩ := hexev _ hin
        cases g
      by_cases hut : u = tgt
      · subst hut
        have h1 : (l1 ++ l2).count (⟨t, QEv.recov u⟩ : QItem) = 0 := by
          apply List.count_eq_zero_of_not_mem
          intro hin
          have := (hI.rec_q _ (mem_mid hin) u rfl).1
          rw [hs] at this; cases this
        have h2 := List.count_le_length (a := (⟨t, QEv.recov u⟩ : QItem)) (l := r)
        omega
      · have h2 : r.count (⟨t, QEv.recov u⟩ : QItem) = 0 := by
          apply List.count_eq_zero_of_not_mem
          intro hin
          obtain ⟨t', g, _⟩ := hr1 _ hin
          simp only [QItem.mk.injEq, QEv.recov.injEq] at g
          exact hut g.2
        have h1 := hI.rec_cnt t u
        rw [count_mid] at h1
        omega }

end Inv

end EventSIR
