import EoNVerif.Basic
/-!
Scripted randomness.  The simulators of `EoN.simulation` use five primitives of the module-level `random`
and `numpy.random` (`random`, `expovariate`, `choice`, `sample`, `binomial`).  The harness replaces those module
attributes by a proxy that serves a *tape* of draws and logs each call with its arguments; the model consumes the
same tape and produces the same log (`Call`s), so trace equality compares the clock rate and the candidate list
at every step.
-/

inductive Draw
  | unif (r : Rat)          -- value returned by random.random()
  | expo (d : Rat)          -- value returned by random.expovariate(rate)
  | choice (i : Nat)        -- index into the sequence given to random.choice
  | sample (idx : List Nat) -- indices into the population given to random.sample
  | binom (k : Nat)         -- value returned by numpy.random.binomial
deriving Repr, DecidableEq

inductive Call
  | unif
  | expo (rate : Rat)
  | choice (seq : List (List Nat))   -- the sequence the code passed (items encoded as lists of node ids)
  | sample (n k : Nat)
  | binom (n : Nat) (p : Rat)
deriving Repr, DecidableEq

structure TapeSt where
  tape : List Draw
  trace : Array Call := #[]

abbrev TM := StateT TapeSt (Except String)

namespace TM
def fail {α : Type} (msg : String) : TM α := fun _ => .error msg

def popUnif : TM Rat := fun s =>
  match s.tape with
  | .unif r :: t => .ok (r, { tape := t, trace := s.trace.push .unif })
  | [] => .error "tape-exhausted"
  | _ => .error "tape-kind-mismatch:unif"

/-- `random.expovariate(rate)`; rate 0 raises ZeroDivisionError in CPython. -/
def popExpo (rate : Rat) : TM Rat := fun s =>
  if rate = 0 then .error "ZeroDivisionError" else
  match s.tape with
  | .expo d :: t => .ok (d, { tape := t, trace := s.trace.push (.expo rate) })
  | [] => .error "tape-exhausted"
  | _ => .error "tape-kind-mismatch:expo"

/-- `random.choice(seq)`; empty seq raises IndexError. -/
def popChoice (seq : List (List Nat)) : TM Nat := fun s =>
  if seq.isEmpty then .error "IndexError" else
  match s.tape with
  | .choice i :: t =>
    if i < seq.length then .ok (i, { tape := t, trace := s.trace.push (.choice seq) })
    else .error "tape-bad-index"
  | [] => .error "tape-exhausted"
  | _ => .error "tape-kind-mismatch:choice"

/-- `random.sample(population, k)`; k > n raises ValueError. -/
def popSample (n k : Nat) : TM (List Nat) := fun s =>
  if k > n then .error "ValueError" else
  match s.tape with
  | .sample idx :: t =>
    if idx.length = k ∧ idx.all (· < n) ∧ idx.Nodup then
      .ok (idx, { tape := t, trace := s.trace.push (.sample n k) })
    else .error "tape-bad-sample"
  | [] => .error "tape-exhausted"
  | _ => .error "tape-kind-mismatch:sample"

def popBinom (n : Nat) (p : Rat) : TM Nat := fun s =>
  match s.tape with
  | .binom k :: t =>
    if k ≤ n then .ok (k, { tape := t, trace := s.trace.push (.binom n p) })
    else .error "tape-bad-binom"
  | [] => .error "tape-exhausted"
  | _ => .error "tape-kind-mismatch:binom"
end TM
