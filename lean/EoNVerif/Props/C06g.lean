import EoNVerif.Proofs.GenWrap2
import EoNVerif.Props.C06e
import EoNVerif.Props.C08c
/-!
C06g — continuation of C06e: "the initial state handed to the base function is the requested state of the graph and
sums to N", for the `*_from_graph` wrappers of `EoN/analytic.py` GENERATED into `Gen/WrapGen.lean` that C06e does not
cover.  Lemmas: `Proofs/GenWrap2.lean`.  Hypotheses and vocabulary as in C06e (`GraphOK A.toIArgs adj`,
`SetsOK adj infs recs`, `N = adj.length`, `2|E| = twoM adj = Σ_u deg u`).
-/
namespace GenWrapProps2
open GenInit InitCond GenInitProofs GenWrap GenWrapProofs GenWrapProofs2 GenGlueProofs GenWrapProps
open Gen PyGlue

theorem nodes_ne_nil (A : WArgs) (adj : List (List Nat)) (hG : GraphOK A.toIArgs adj) (hN : adj.length ≠ 0) :
    A.nodes ≠ [] := by
  intro e
  have := nodes_length A.toIArgs adj hG
  rw [e] at this; exact hN this.symm

theorem nodes_eq_nil (A : WArgs) (adj : List (List Nat)) (hG : GraphOK A.toIArgs adj) (hN : adj.length = 0) :
    A.nodes = [] := List.length_eq_zero_iff.mp (by rw [nodes_length A.toIArgs adj hG]; exact hN)

/-! ## 1. `SIS_compact_pairwise_from_graph` without `initial_infecteds` (and the SIS end-to-end theorems) -/

/-- (A) `rho` (default `1/N`): `Sk0[k] = (1-rho)·N_k`, `Ik0[k] = rho·N_k`, and — through the three `vecGet` loops
`Σ_k Nk[k]·k·…` — `SS0 = (1-rho)²·2|E|`, `SI0 = (1-rho)·rho·2|E|`, `II0 = rho²·2|E|`, because `Σ_k k·N_k = Σ_u deg u` -/
theorem SIS_compact_pairwise_args_rho (A : WArgs) (adj : List (List Nat)) (hG : GraphOK A.toIArgs adj)
    (tau gamma : Rat) (rho : Option Rat) (hN : adj.length ≠ 0) (tmin tmax : Rat) (tcount : Int) (full : Bool) :
    SIS_compact_pairwise_from_graph_args A tau gamma none rho tmin tmax tcount full =
      .ok { Sk0 := vec (maxDeg adj) (fun k => rhoSk adj (rho.getD (1 / (adj.length : Rat))) k),
            Ik0 := vec (maxDeg adj) (fun k => rhoIk adj (rho.getD (1 / (adj.length : Rat))) k),
            SI0 := rhoSI adj (rho.getD (1 / (adj.length : Rat))),
            SS0 := rhoSS adj (rho.getD (1 / (adj.length : Rat))),
            II0 := rhoII adj (rho.getD (1 / (adj.length : Rat))),
            tau := tau, gamma := gamma, tmin := tmin, tmax := tmax, tcount := tcount, return_full_data := full } := by
  have hne := nodes_ne_nil A adj hG hN
  have hN' : A.nodes.length ≠ 0 := by rw [nodes_length A.toIArgs adj hG]; exact hN
  cases rho with
  | none =>
    rw [SIS_cp_none, if_neg hN', SIS_cp_some, if_neg hne, C06c.gen_rho_eq_vec A.toIArgs adj hG,
      degSum_graph A.toIArgs adj hG, nodes_length A.toIArgs adj hG]
    rfl
  | some r =>
    rw [SIS_cp_some, if_neg hne, C06c.gen_rho_eq_vec A.toIArgs adj hG, degSum_graph A.toIArgs adj hG]
    rfl

/-- (B) ALL inputs, the precedence of the generated code: `EoNError` when both are given; with neither given
ZeroDivisionError (the default `rho = 1/N` is computed first) on a graph without nodes; with `rho` alone — or a set
alone — ValueError (`max` of no degrees) on a graph without nodes; a set with a node outside the graph: `EoNError` -/
theorem SIS_compact_pairwise_args_error (A : WArgs) (tau gamma : Rat) (tmin tmax : Rat) (tcount : Int) (full : Bool) :
    (∀ infs r, SIS_compact_pairwise_from_graph_args A tau gamma (some infs) (some r) tmin tmax tcount full
      = .error "EoNError") ∧
    (A.nodes.length = 0 → SIS_compact_pairwise_from_graph_args A tau gamma none none tmin tmax tcount full
      = .error "ZeroDivisionError") ∧
    (∀ r, A.nodes = [] → SIS_compact_pairwise_from_graph_args A tau gamma none (some r) tmin tmax tcount full
      = .error "ValueError") ∧
    (∀ infs, A.nodes = [] → SIS_compact_pairwise_from_graph_args A tau gamma (some infs) none tmin tmax tcount full
      = .error "ValueError") ∧
    (∀ infs e, A.nodes ≠ [] → initialize_node_status A.toIArgs infs [] = .error e →
      SIS_compact_pairwise_from_graph_args A tau gamma (some infs) none tmin tmax tcount full = .error e) ∧
    (∀ rho, A.nodes ≠ [] → ∃ a, SIS_compact_pairwise_from_graph_args A tau gamma none rho tmin tmax tcount full
      = .ok a) := by
  refine ⟨fun infs r => rfl, fun hN => by rw [SIS_cp_none, if_pos hN], fun r hN => by rw [SIS_cp_some, if_pos hN],
    fun infs hN => by rw [SIS_cp_sets, if_pos hN], fun infs e hN he => ?_, fun rho hN => ?_⟩
  · rw [SIS_cp_sets, if_neg hN, C06c.gen_sets_error _ _ _ e he]; rfl
  · have hN' : A.nodes.length ≠ 0 := fun e => hN (List.length_eq_zero_iff.mp e)
    cases rho with
    | none => rw [SIS_cp_none, if_neg hN', SIS_cp_some, if_neg hN]; exact ⟨_, rfl⟩
    | some r => rw [SIS_cp_some, if_neg hN]; exact ⟨_, rfl⟩

/-- (C) every non-error case: `Σ_k Sk0[k] + Σ_k Ik0[k] = N`, both arrays have `maxdeg + 1` entries, and the ordered
pairs are all accounted for: `SS0 + 2·SI0 + II0 = 2|E|` -/
theorem SIS_compact_pairwise_args_total (A : WArgs) (adj : List (List Nat)) (hG : GraphOK A.toIArgs adj)
    (tau gamma : Rat) (infs : Option (List Node)) (rho : Option Rat) (tmin tmax : Rat) (tcount : Int) (full : Bool)
    (a : SIS_compact_pairwise_Args)
    (h : SIS_compact_pairwise_from_graph_args A tau gamma infs rho tmin tmax tcount full = .ok a) :
    a.Sk0.sum + a.Ik0.sum = (adj.length : Rat) ∧ a.Sk0.length = maxDeg adj + 1 ∧ a.Ik0.length = maxDeg adj + 1 ∧
    a.SS0 + 2 * a.SI0 + a.II0 = (twoM adj : Rat) ∧ a.return_full_data = full := by
  have hN : adj.length ≠ 0 := by
    intro e
    have hne := nodes_eq_nil A adj hG e
    have hl : A.nodes.length = 0 := by rw [hne]; rfl
    obtain ⟨e1, e2, e3, e4, -⟩ := SIS_compact_pairwise_args_error A tau gamma tmin tmax tcount full
    cases infs <;> cases rho
    · rw [e2 hl] at h; cases h
    · rw [e3 _ hne] at h; cases h
    · rw [e4 _ hne] at h; cases h
    · rw [e1] at h; cases h
  cases infs with
  | none =>
    rw [SIS_compact_pairwise_args_rho A adj hG tau gamma rho hN] at h
    injection h with h; subst h
    have := C06c.gen_rho_total A.toIArgs adj hG (rho.getD (1 / (adj.length : Rat)))
    rw [C06c.gen_rho_eq_vec A.toIArgs adj hG] at this
    refine ⟨this.1, vec_length _ _, vec_length _ _, ?_, rfl⟩
    simp only [rhoSS, rhoSI, rhoII]; ring
  | some l =>
    cases rho with
    | some r => cases h
    | none =>
      cases hst : initialize_node_status A.toIArgs l [] with
      | error e =>
        rw [(SIS_compact_pairwise_args_error A tau gamma tmin tmax tcount full).2.2.2.2.1 l e
          (nodes_ne_nil A adj hG hN) hst] at h
        cases h
      | ok st =>
        obtain ⟨-, hi, -⟩ := (C06c.gen_status_ok_iff A.toIArgs adj hG.hasNode l []).mp ⟨st, hst⟩
        rw [SIS_compact_pairwise_args_spec A adj hG tau gamma l hi hN] at h
        injection h with h; subst h
        have hS := SetsOK.nil_recs (adj := adj) hi
        obtain ⟨t1, -, -, -, t4⟩ := C06c.gen_sets_total A.toIArgs adj hG l [] hS.disj hS.infIn hS.recIn _ _ _ _
          (C06c.gen_sets_eq_vec A.toIArgs adj hG l [] hS.disj hS.infIn hS.recIn)
        have hR : (vec (maxDeg adj) fun k => (classCount adj (statusOf l []) St.R k : Rat)).sum = 0 := by
          rw [t4]
          have : count adj (statusOf l []) St.R = 0 := by
            unfold count
            rw [List.length_eq_zero_iff, List.filter_eq_nil_iff]
            intro u _
            simpa using statusOf_nil_ne_R l u
          rw [this]; rfl
        rw [hR, add_zero] at t1
        refine ⟨t1, vec_length _ _, vec_length _ _, ?_, rfl⟩
        have hp := pairCount_total adj (statusOf l [])
        have hs := pairCount_symm A.toIArgs adj hG (statusOf l []) St.S St.I
        have z : ∀ x y, (x = St.R ∨ y = St.R) → pairCount adj (statusOf l []) x y = 0 := by
          intro x y hxy
          unfold pairCount
          apply List.sum_eq_zero
          intro n hn
          obtain ⟨u, -, rfl⟩ := List.mem_map.mp hn
          split
          · rename_i hu
            rcases hxy with rfl | rfl
            · exact absurd hu (statusOf_nil_ne_R l u)
            · rw [List.length_eq_zero_iff, List.filter_eq_nil_iff]
              intro v _
              simpa using statusOf_nil_ne_R l v
          · rfl
        rw [z St.S St.R (Or.inr rfl), z St.I St.R (Or.inr rfl), z St.R St.S (Or.inl rfl), z St.R St.I (Or.inl rfl),
          z St.R St.R (Or.inl rfl)] at hp
        simp only []
        have : (pairCount adj (statusOf l []) St.S St.S + 2 * pairCount adj (statusOf l []) St.S St.I
          + pairCount adj (statusOf l []) St.I St.I : Nat) = twoM adj := by omega
        exact_mod_cast this

theorem SIS_compact_pairwise_from_graph_inv (odeint : Solver) (A : WArgs) (tau gamma : Rat)
    (infs : Option (List Node)) (rho : Option Rat) (tmin tmax : Rat) (tcount : Int) (full : Bool) (l : List Ser)
    (h : SIS_compact_pairwise_from_graph odeint A tau gamma infs rho tmin tmax tcount full = .ok l) :
    ∃ a, SIS_compact_pairwise_from_graph_args A tau gamma infs rho tmin tmax tcount full = .ok a ∧
      GenGlue.SIS_compact_pairwise odeint (V.ofList a.Sk0) (V.ofList a.Ik0) a.SI0 a.SS0 a.II0 a.tau a.gamma
        a.tmin a.tmax a.tcount.toNat a.return_full_data = .ok l := by
  unfold SIS_compact_pairwise_from_graph at h
  cases ha : SIS_compact_pairwise_from_graph_args A tau gamma infs rho tmin tmax tcount full with
  | error e => rw [ha] at h; cases h
  | ok a => rw [ha] at h; exact ⟨a, rfl, h⟩

theorem sumTo_ofList' (l l' : List Rat) (h : l.length = l'.length) :
    ODE.sumTo (V.ofList l).n (V.ofList l').f = l'.sum := by
  have : (V.ofList l).n = (V.ofList l').n := h
  rw [this, sumTo_ofList]

/-- (D) end to end, EVERY solver, EVERY time index, ANY request (sets, `rho`, default), with or without full data:
`S + I = N` -/
theorem SIS_compact_pairwise_from_graph_conserve (odeint : Solver) (A : WArgs) (adj : List (List Nat))
    (hG : GraphOK A.toIArgs adj) (tau gamma : Rat) (infs : Option (List Node)) (rho : Option Rat) (tmin tmax : Rat)
    (tcount : Int) (full : Bool) (l : List Ser)
    (h : SIS_compact_pairwise_from_graph odeint A tau gamma infs rho tmin tmax tcount full = .ok l) (i : Nat) :
    get l 1 i + get l 2 i = (adj.length : Rat) := by
  obtain ⟨a, ha, hl⟩ := SIS_compact_pairwise_from_graph_inv odeint A tau gamma infs rho tmin tmax tcount full l h
  obtain ⟨t1, t2, t3, -⟩ := SIS_compact_pairwise_args_total A adj hG tau gamma infs rho tmin tmax tcount full a ha
  rw [C06d.SIS_compact_pairwise_conserve odeint _ _ _ _ _ _ _ _ _ _ _ l hl i, sumTo_ofList,
    sumTo_ofList' _ _ (t2.trans t3.symm)]
  exact t1

/-- (D) end to end with `odeint rhs X0 0 = X0`: the series start from the requested state — explicit set: the
numbers of susceptible / infected nodes; `rho` (default `1/N`): `(1-rho)N`, `rho·N` -/
theorem SIS_compact_pairwise_from_graph_init (odeint : Solver) (h0 : RowZero odeint) (A : WArgs)
    (adj : List (List Nat)) (hG : GraphOK A.toIArgs adj) (tau gamma : Rat) (tmin tmax : Rat) (tcount : Int)
    (full : Bool) (l : List Ser) :
    (∀ infs, SIS_compact_pairwise_from_graph odeint A tau gamma (some infs) none tmin tmax tcount full = .ok l →
      get l 1 0 = (count adj (statusOf infs []) St.S : Rat) ∧ get l 2 0 = (count adj (statusOf infs []) St.I : Rat) ∧
      (infs.Nodup → get l 2 0 = (infs.length : Rat))) ∧
    (∀ rho, SIS_compact_pairwise_from_graph odeint A tau gamma none rho tmin tmax tcount full = .ok l →
      get l 1 0 = rhoS adj (rho.getD (1 / (adj.length : Rat))) ∧
      get l 2 0 = rhoI adj (rho.getD (1 / (adj.length : Rat)))) := by
  constructor
  · intro infs h
    obtain ⟨a, ha, hl⟩ := SIS_compact_pairwise_from_graph_inv odeint A tau gamma _ _ tmin tmax tcount full l h
    obtain ⟨-, t2, t3, -⟩ := SIS_compact_pairwise_args_total A adj hG tau gamma _ _ tmin tmax tcount full a ha
    obtain ⟨i1, i2⟩ := C06d.SIS_compact_pairwise_init odeint h0 _ _ _ _ _ _ _ _ _ _ _ l hl
    rw [sumTo_ofList] at i1
    rw [sumTo_ofList' _ _ (t2.trans t3.symm)] at i2
    have hN : adj.length ≠ 0 := by
      intro e
      rw [(SIS_compact_pairwise_args_error A tau gamma tmin tmax tcount full).2.2.2.1 infs
        (nodes_eq_nil A adj hG e)] at ha
      cases ha
    have hi : ∀ u ∈ infs, u < adj.length := by
      cases hst : initialize_node_status A.toIArgs infs [] with
      | error e =>
        rw [(SIS_compact_pairwise_args_error A tau gamma tmin tmax tcount full).2.2.2.2.1 infs e
          (nodes_ne_nil A adj hG hN) hst] at ha
        cases ha
      | ok st => exact ((C06c.gen_status_ok_iff A.toIArgs adj hG.hasNode infs []).mp ⟨st, hst⟩).2.1
    rw [SIS_compact_pairwise_args_spec A adj hG tau gamma infs hi hN] at ha
    injection ha with ha; subst ha
    have hS := SetsOK.nil_recs (adj := adj) hi
    obtain ⟨-, -, s2, s3, -⟩ := C06c.gen_sets_total A.toIArgs adj hG infs [] hS.disj hS.infIn hS.recIn _ _ _ _
      (C06c.gen_sets_eq_vec A.toIArgs adj hG infs [] hS.disj hS.infIn hS.recIn)
    refine ⟨i1.trans s2, i2.trans s3, fun hnd => ?_⟩
    rw [i2, s3, count_I adj infs [] hnd hS]
  · intro rho h
    obtain ⟨a, ha, hl⟩ := SIS_compact_pairwise_from_graph_inv odeint A tau gamma _ _ tmin tmax tcount full l h
    obtain ⟨-, t2, t3, -⟩ := SIS_compact_pairwise_args_total A adj hG tau gamma _ _ tmin tmax tcount full a ha
    obtain ⟨i1, i2⟩ := C06d.SIS_compact_pairwise_init odeint h0 _ _ _ _ _ _ _ _ _ _ _ l hl
    rw [sumTo_ofList] at i1
    rw [sumTo_ofList' _ _ (t2.trans t3.symm)] at i2
    have hN : adj.length ≠ 0 := by
      intro e
      have hne := nodes_eq_nil A adj hG e
      cases rho with
      | none =>
        rw [(SIS_compact_pairwise_args_error A tau gamma tmin tmax tcount full).2.1 (by rw [hne]; rfl)] at ha
        cases ha
      | some r =>
        rw [(SIS_compact_pairwise_args_error A tau gamma tmin tmax tcount full).2.2.1 r hne] at ha
        cases ha
    rw [SIS_compact_pairwise_args_rho A adj hG tau gamma rho hN] at ha
    injection ha with ha; subst ha
    have := C06c.gen_rho_total A.toIArgs adj hG (rho.getD (1 / (adj.length : Rat)))
    rw [C06c.gen_rho_eq_vec A.toIArgs adj hG] at this
    exact ⟨i1.trans this.2.1, i2.trans this.2.2.1⟩

/-! ## 2. `SIS_compact_effective_degree_from_graph`: a forwarder -/

/-- the wrapper passes its arguments unchanged to `SIS_compact_pairwise_from_graph` (the SIS compact effective-degree
model IS the compact pairwise model) — so every statement of section 1 (and of C06e §6) holds verbatim -/
theorem SIS_compact_effective_degree_args_eq (A : WArgs) (tau gamma : Rat) (infs : Option (List Node))
    (rho : Option Rat) (tmin tmax : Rat) (tcount : Int) (full : Bool) :
    SIS_compact_effective_degree_from_graph_args A tau gamma infs rho tmin tmax tcount full =
      SIS_compact_pairwise_from_graph_args A tau gamma infs rho tmin tmax tcount full := rfl

theorem SIS_compact_effective_degree_from_graph_eq (odeint : Solver) (A : WArgs) (tau gamma : Rat)
    (infs : Option (List Node)) (rho : Option Rat) (tmin tmax : Rat) (tcount : Int) (full : Bool) :
    SIS_compact_effective_degree_from_graph odeint A tau gamma infs rho tmin tmax tcount full =
      SIS_compact_pairwise_from_graph odeint A tau gamma infs rho tmin tmax tcount full := rfl

/-- (D) end to end for the forwarder -/
theorem SIS_compact_effective_degree_from_graph_conserve (odeint : Solver) (A : WArgs) (adj : List (List Nat))
    (hG : GraphOK A.toIArgs adj) (tau gamma : Rat) (infs : Option (List Node)) (rho : Option Rat) (tmin tmax : Rat)
    (tcount : Int) (full : Bool) (l : List Ser)
    (h : SIS_compact_effective_degree_from_graph odeint A tau gamma infs rho tmin tmax tcount full = .ok l) (i : Nat) :
    get l 1 i + get l 2 i = (adj.length : Rat) :=
  SIS_compact_pairwise_from_graph_conserve odeint A adj hG tau gamma infs rho tmin tmax tcount full l h i

/-! ## 3. `SIR_compact_pairwise_from_graph` without `initial_infecteds` -/

/-- (A) `rho` (default `1/N`): `Sk0[k] = (1-rho)·N_k`, `I0 = Σ_k rho·N_k = rho·N`, `R0 = 0`, and through
`SX0 = np.dot(Sk0, arange(len(Nk))) = (1-rho)·2|E|`: `SS0 = (1-rho)²·2|E|`, `SI0 = rho(1-rho)·2|E|` -/
theorem SIR_compact_pairwise_args_rho (A : WArgs) (adj : List (List Nat)) (hG : GraphOK A.toIArgs adj)
    (tau gamma : Rat) (rho : Option Rat) (hN : adj.length ≠ 0) (tmin tmax : Rat) (tcount : Int) (full : Bool) :
    ∃ a, SIR_compact_pairwise_from_graph_args A tau gamma none none rho tmin tmax tcount full = .ok a ∧
      a.Sk0 = vec (maxDeg adj) (fun k => rhoSk adj (rho.getD (1 / (adj.length : Rat))) k) ∧
      a.Sk0.sum = rhoS adj (rho.getD (1 / (adj.length : Rat))) ∧
      a.I0 = rhoI adj (rho.getD (1 / (adj.length : Rat))) ∧ a.R0 = 0 ∧
      a.SS0 = rhoSS adj (rho.getD (1 / (adj.length : Rat))) ∧
      a.SI0 = rhoSI adj (rho.getD (1 / (adj.length : Rat))) ∧
      a.Sk0.sum + a.I0 + a.R0 = (adj.length : Rat) ∧
      a.tau = tau ∧ a.gamma = gamma ∧ a.tmin = tmin ∧ a.tmax = tmax ∧ a.tcount = tcount ∧
      a.return_full_data = full := by
  have hne := nodes_ne_nil A adj hG hN
  have hN' : A.nodes.length ≠ 0 := by rw [nodes_length A.toIArgs adj hG]; exact hN
  have key : ∀ r : Rat, ∃ a, SIR_compact_pairwise_from_graph_args A tau gamma none none (some r) tmin tmax tcount full
        = .ok a ∧
      a.Sk0 = vec (maxDeg adj) (fun k => rhoSk adj r k) ∧ a.Sk0.sum = rhoS adj r ∧
      a.I0 = rhoI adj r ∧ a.R0 = 0 ∧ a.SS0 = rhoSS adj r ∧ a.SI0 = rhoSI adj r ∧
      a.Sk0.sum + a.I0 + a.R0 = (adj.length : Rat) ∧
      a.tau = tau ∧ a.gamma = gamma ∧ a.tmin = tmin ∧ a.tmax = tmax ∧ a.tcount = tcount ∧
      a.return_full_data = full := by
    intro r
    have ht := C06c.gen_rho_total A.toIArgs adj hG r
    rw [C06c.gen_rho_eq_vec A.toIArgs adj hG] at ht
    obtain ⟨t1, t2, t3, t4⟩ := ht
    rw [SIR_cp_some, if_neg (by simp), if_neg hne, C06c.gen_rho_eq_vec A.toIArgs adj hG,
      degSum_graph A.toIArgs adj hG]
    refine ⟨_, rfl, rfl, t2, ?_, ?_, ?_, ?_, ?_, rfl, rfl, rfl, rfl, rfl, rfl⟩
    · simp only [sumRat_eq_sum]; exact t3
    · simp only [sumRat_eq_sum]; exact t4
    · simp only [rhoSS]; ring
    · simp only [rhoSI]; ring
    · simp only [sumRat_eq_sum]; rw [t4, add_zero]; exact t1
  cases rho with
  | none =>
    rw [SIR_cp_none, if_neg hN', nodes_length A.toIArgs adj hG]
    exact key _
  | some r => exact key r

/-- (B) without `initial_infecteds`, ALL inputs: neither `rho` nor a set on a graph without nodes: ZeroDivisionError;
otherwise an `initial_recovereds` is an `EoNError` — EVEN WHEN `rho` WAS NOT GIVEN (the wrapper has replaced the
missing `rho` by `1/N` before calling `_get_Nk_and_IC_as_arrays_`, which then sees "both `rho` and
`initial_recovereds`"); otherwise ValueError on a graph without nodes -/
theorem SIR_compact_pairwise_args_error (A : WArgs) (tau gamma : Rat) (tmin tmax : Rat) (tcount : Int) (full : Bool) :
    (∀ recs, A.nodes.length = 0 →
      SIR_compact_pairwise_from_graph_args A tau gamma none recs none tmin tmax tcount full
        = .error "ZeroDivisionError") ∧
    (∀ recs, A.nodes.length ≠ 0 →
      SIR_compact_pairwise_from_graph_args A tau gamma none (some recs) none tmin tmax tcount full
        = .error "EoNError") ∧
    (∀ recs r, SIR_compact_pairwise_from_graph_args A tau gamma none (some recs) (some r) tmin tmax tcount full
        = .error "EoNError") ∧
    (∀ r, A.nodes = [] → SIR_compact_pairwise_from_graph_args A tau gamma none none (some r) tmin tmax tcount full
        = .error "ValueError") := by
  refine ⟨fun recs hN => by rw [SIR_cp_none, if_pos hN], fun recs hN => ?_, fun recs r => ?_, fun r hN => ?_⟩
  · rw [SIR_cp_none, if_neg hN, SIR_cp_some]; rfl
  · rw [SIR_cp_some]; rfl
  · rw [SIR_cp_some, if_neg (by simp), if_pos hN]

/-- (D) end to end (`return_full_data=False`), `rho` / default request, EVERY solver: `S + I + R = N` at every time
index; with `odeint rhs X0 0 = X0` the series start from `(1-rho)N`, `rho·N`, `0` -/
theorem SIR_compact_pairwise_from_graph_rho (odeint : Solver) (A : WArgs)
    (adj : List (List Nat)) (hG : GraphOK A.toIArgs adj) (tau gamma : Rat) (rho : Option Rat) (hN : adj.length ≠ 0)
    (tmin tmax : Rat) (tcount : Int) (l : List Ser)
    (h : SIR_compact_pairwise_from_graph odeint A tau gamma none none rho tmin tmax tcount false = .ok l) :
    (∀ i, get l 1 i + get l 2 i + get l 3 i = (adj.length : Rat)) ∧
    (RowZero odeint →
      get l 1 0 = rhoS adj (rho.getD (1 / (adj.length : Rat))) ∧
      get l 2 0 = rhoI adj (rho.getD (1 / (adj.length : Rat))) ∧ get l 3 0 = 0) := by
  obtain ⟨a, ha, hl⟩ := SIR_compact_pairwise_from_graph_inv odeint A tau gamma _ _ _ tmin tmax tcount false l h
  obtain ⟨a', ha', -, e2, e3, e4, -, -, e7, -, -, -, -, -, e9⟩ :=
    SIR_compact_pairwise_args_rho A adj hG tau gamma rho hN tmin tmax tcount false
  rw [ha] at ha'; injection ha' with ha'; subst ha'
  rw [e9] at hl
  refine ⟨fun i => ?_, fun h0 => ?_⟩
  · rw [C06d.SIR_compact_pairwise_conserve odeint _ _ _ _ _ _ _ _ _ _ l hl i, sumTo_ofList]
    exact e7
  · obtain ⟨i1, i2, i3⟩ := C06d.SIR_compact_pairwise_init odeint h0 _ _ _ _ _ _ _ _ _ _ l hl
    rw [sumTo_ofList] at i1
    exact ⟨i1.trans e2, i2.trans e3, i3.trans e4⟩

/-! ## 4. `EBCM_from_graph`

Additional hypothesis `GraphOKW A adj` (Proofs/GenWrap2.lean) = `GraphOK` plus "`G.neighbors(u)` is the adjacency list
of `u`" — the wrapper counts the S–S / S–R pairs through `G.neighbors`, which `GraphOK` does not mention.
`Sk0G adj st` = `[cS(k)/N_k]_{k=0..maxdeg}` (fraction of the degree-`k` nodes that are susceptible),
`psiHatV Pk v x = Σ_{k∈Pk} Pk[k]·v[k]·x^k`, `psiHatPV` its derivative, `degS` = Σ of the degrees of the susceptible
nodes (`SX`), `gI n = if n = 0 then 1 else n` (the `SX == 0 → 1` guard), `psiK Pk x = Σ_k Pk[k] x^k`. -/

/-- (A) explicit disjoint sets of graph nodes: `N`, `R0` = number of recovered nodes, `phiS0 = SS/SX`,
`phiR0 = SR/SX` with `SS`, `SR` the numbers of ordered neighbour pairs (S,S), (S,R) and `SX` the degree sum of the
susceptible nodes (1 when that is 0), `psihat(x) = Σ_k Pk[k]·Sk0[k]·x^k` for ALL `x`, `psihatPrime(x)` its derivative
for `x ≠ 0` or a graph without isolated nodes — and `psihatPrime(0)` RAISES ZeroDivisionError (`0.0**(-1)`) when the
graph has an isolated node; `N·psihat(1)` = number of susceptible nodes -/
theorem EBCM_args_spec (A : WArgs) (adj : List (List Nat)) (hW : GraphOKW A adj)
    (tau gamma : Rat) (infs : List Node) (recs : Option (List Node)) (hS : SetsOK adj infs (recs.getD []))
    (hN : adj.length ≠ 0) (tmin tmax : Rat) (tcount : Int) (full : Bool) :
    ∃ a, EBCM_from_graph_args A tau gamma (some infs) recs none tmin tmax tcount full = .ok a ∧
      a.N = (adj.length : Rat) ∧
      a.R0 = (count adj (statusOf infs (recs.getD [])) St.R : Rat) ∧
      a.phiS0 = (pairCount adj (statusOf infs (recs.getD [])) St.S St.S : Rat)
        / (gI (degS adj (statusOf infs (recs.getD []))) : Rat) ∧
      a.phiR0 = (pairCount adj (statusOf infs (recs.getD [])) St.S St.R : Rat)
        / (gI (degS adj (statusOf infs (recs.getD []))) : Rat) ∧
      (∀ x, a.psihat x = .ok (psiHatV (GenHelpProofs.PkAL (adj.map (·.length)))
        (Sk0G adj (statusOf infs (recs.getD []))) x)) ∧
      (∀ x, x ≠ 0 ∨ 0 ∉ adj.map (·.length) → a.psihatPrime x = .ok (psiHatPV (GenHelpProofs.PkAL (adj.map (·.length)))
        (Sk0G adj (statusOf infs (recs.getD []))) x)) ∧
      (0 ∈ adj.map (·.length) → a.psihatPrime 0 = .error "ZeroDivisionError") ∧
      a.N * psiHatV (GenHelpProofs.PkAL (adj.map (·.length))) (Sk0G adj (statusOf infs (recs.getD []))) 1
        = (count adj (statusOf infs (recs.getD [])) St.S : Rat) ∧
      a.tau = tau ∧ a.gamma = gamma ∧ a.tmin = tmin ∧ a.tmax = tmax ∧ a.tcount = tcount ∧
      a.return_full_data = full := by
  have hG := hW.toGraphOK
  have hst := C06c.gen_status_eq A.toIArgs adj hG.hasNode infs (recs.getD []) hS.disj hS.infIn hS.recIn
  obtain ⟨a, ha, h1, h2, h3, h4, h5, h6, h7, h8⟩ :=
    EBCM_sets A tau gamma infs recs tmin tmax tcount full _ hst (nodes_ne_nil A adj hG hN)
  rw [sumS_nb A adj hW, sumS_deg A adj hG] at h3
  rw [sumS_nb A adj hW, sumS_deg A adj hG] at h4
  rw [Sk0fin_graph A adj hG, degs_eq A.toIArgs adj hG] at h5 h6
  rw [degs_eq A.toIArgs adj hG] at h7
  rw [nodes_length A.toIArgs adj hG] at h1
  rw [filterR_graph A adj hG] at h2
  refine ⟨a, ha, h1, h2, h3, h4, h5, h6, h7, ?_, h8⟩
  rw [h1]; exact psiHat_one adj _ hN

/-- (A) without `initial_infecteds`: `rho` (default `1/N`): `psihat = (1-rho)·ψ` with `ψ(x) = Σ_k Pk[k]x^k`,
`phiS0 = 1-rho`, `phiR0 = 0`, `R0 = 0`, and `N·psihat(1) = (1-rho)N` (an `initial_recovereds` given without `rho` is
ignored) -/
theorem EBCM_args_rho (A : WArgs) (adj : List (List Nat)) (hG : GraphOK A.toIArgs adj)
    (tau gamma : Rat) (recs : Option (List Node)) (rho : Option Rat) (hrr : ¬ (rho.isSome ∧ recs.isSome))
    (hN : adj.length ≠ 0) (tmin tmax : Rat) (tcount : Int) (full : Bool) :
    ∃ a, EBCM_from_graph_args A tau gamma none recs rho tmin tmax tcount full = .ok a ∧
      a.N = (adj.length : Rat) ∧ a.R0 = 0 ∧ a.phiS0 = 1 - rho.getD (1 / (adj.length : Rat)) ∧ a.phiR0 = 0 ∧
      (∀ x, a.psihat x = .ok ((1 - rho.getD (1 / (adj.length : Rat)))
        * psiK (GenHelpProofs.PkAL (adj.map (·.length))) x)) ∧
      a.N * ((1 - rho.getD (1 / (adj.length : Rat))) * psiK (GenHelpProofs.PkAL (adj.map (·.length))) 1)
        = rhoS adj (rho.getD (1 / (adj.length : Rat))) ∧
      a.tau = tau ∧ a.gamma = gamma ∧ a.tmin = tmin ∧ a.tmax = tmax ∧ a.tcount = tcount ∧
      a.return_full_data = full := by
  have hr : rhoOr A rho = .ok (rho.getD (1 / (adj.length : Rat))) := by
    cases rho with
    | some r => rfl
    | none => simp [rhoOr, nodes_length A.toIArgs adj hG, hN]
  obtain ⟨a, ha, h1, h2, h3, h4, h5, h6⟩ :=
    (EBCM_rho A tau gamma recs rho hrr tmin tmax tcount full).2 _ hr
  rw [degs_eq A.toIArgs adj hG] at h5
  rw [nodes_length A.toIArgs adj hG] at h1
  refine ⟨a, ha, h1, h2, h3, h4, h5, ?_, h6⟩
  have hd : adj.map (·.length) ≠ [] := by
    intro e; exact hN (by simpa using congrArg List.length e)
  rw [h1, psiK_one _ hd, rhoS]; ring

/-- (B) the exceptions with the precedence of the generated code: `EoNError` for `rho` with a set; then the `EoNError`
of the status builder (overlap / node outside the graph); then ValueError (`max` of no degrees) on a graph without
nodes; without sets and without `rho`: ZeroDivisionError (`1/N`) on a graph without nodes — but with `rho` alone the
EMPTY graph is accepted (`psihat = 0`) -/
theorem EBCM_args_error (A : WArgs) (tau gamma : Rat) (tmin tmax : Rat) (tcount : Int) (full : Bool) :
    (∀ infs recs r, infs.isSome ∨ recs.isSome →
      EBCM_from_graph_args A tau gamma infs recs (some r) tmin tmax tcount full = .error "EoNError") ∧
    (∀ infs recs e, initialize_node_status A.toIArgs infs (recs.getD []) = .error e →
      EBCM_from_graph_args A tau gamma (some infs) recs none tmin tmax tcount full = .error e) ∧
    (∀ infs recs st, initialize_node_status A.toIArgs infs (recs.getD []) = .ok st → A.nodes = [] →
      EBCM_from_graph_args A tau gamma (some infs) recs none tmin tmax tcount full = .error "ValueError") ∧
    (∀ recs, A.nodes.length = 0 →
      EBCM_from_graph_args A tau gamma none recs none tmin tmax tcount full = .error "ZeroDivisionError") ∧
    (∀ r, ∃ a, EBCM_from_graph_args A tau gamma none none (some r) tmin tmax tcount full = .ok a) := by
  refine ⟨fun infs recs r h => EBCM_both A tau gamma infs recs r tmin tmax tcount full h,
    fun infs recs e he => (EBCM_sets_error A tau gamma infs recs tmin tmax tcount full).1 e he,
    fun infs recs st hst hN => (EBCM_sets_error A tau gamma infs recs tmin tmax tcount full).2 st hst hN,
    fun recs hN => ?_, fun r => ?_⟩
  · exact (EBCM_rho A tau gamma recs none (by simp) tmin tmax tcount full).1 _ (by simp [rhoOr, hN])
  · obtain ⟨a, ha, -⟩ := (EBCM_rho A tau gamma none (some r) (by simp) tmin tmax tcount full).2 r rfl
    exact ⟨a, ha⟩

/-- (C) in EVERY non-error case the `N` handed to `EBCM` is `G.order()` -/
theorem EBCM_args_total (A : WArgs) (tau gamma : Rat) (infs recs : Option (List Node)) (rho : Option Rat)
    (tmin tmax : Rat) (tcount : Int) (full : Bool) (a : EBCM_Args)
    (h : EBCM_from_graph_args A tau gamma infs recs rho tmin tmax tcount full = .ok a) :
    a.N = (A.nodes.length : Rat) := by
  by_cases hb : rho.isSome ∧ (infs.isSome ∨ recs.isSome)
  · obtain ⟨r, rfl⟩ := Option.isSome_iff_exists.mp hb.1
    rw [EBCM_both A tau gamma infs recs r tmin tmax tcount full hb.2] at h; cases h
  · cases infs with
    | some l =>
      have : rho = none := by
        cases rho with
        | none => rfl
        | some r => exact absurd ⟨rfl, Or.inl rfl⟩ hb
      subst this
      cases hst : initialize_node_status A.toIArgs l (recs.getD []) with
      | error e => rw [(EBCM_sets_error A tau gamma l recs tmin tmax tcount full).1 e hst] at h; cases h
      | ok st =>
        by_cases hN : A.nodes = []
        · rw [(EBCM_sets_error A tau gamma l recs tmin tmax tcount full).2 st hst hN] at h; cases h
        · obtain ⟨a', ha', h1, -⟩ := EBCM_sets A tau gamma l recs tmin tmax tcount full st hst hN
          rw [h] at ha'; injection ha' with ha'; subst ha'; exact h1
    | none =>
      have hrr : ¬ (rho.isSome ∧ recs.isSome) := fun hh => hb ⟨hh.1, Or.inr hh.2⟩
      cases hr : rhoOr A rho with
      | error e => rw [(EBCM_rho A tau gamma recs rho hrr tmin tmax tcount full).1 e hr] at h; cases h
      | ok r =>
        obtain ⟨a', ha', h1, -⟩ := (EBCM_rho A tau gamma recs rho hrr tmin tmax tcount full).2 r hr
        rw [h] at ha'; injection ha' with ha'; subst ha'; exact h1

theorem EBCM_from_graph_inv (odeint : Solver) (A : WArgs) (tau gamma : Rat)
    (infs recs : Option (List Node)) (rho : Option Rat) (tmin tmax : Rat) (tcount : Int) (full : Bool) (l : List Ser)
    (h : EBCM_from_graph odeint A tau gamma infs recs rho tmin tmax tcount full = .ok l) :
    ∃ a, EBCM_from_graph_args A tau gamma infs recs rho tmin tmax tcount full = .ok a ∧
      GenGlue.EBCM odeint a.N (PyWrap.total a.psihat) (PyWrap.total a.psihatPrime) a.tau a.gamma a.phiS0 a.phiR0 a.R0
        a.tmin a.tmax a.tcount.toNat a.return_full_data = .ok l := by
  unfold EBCM_from_graph at h
  cases ha : EBCM_from_graph_args A tau gamma infs recs rho tmin tmax tcount full with
  | error e => rw [ha] at h; cases h
  | ok a => rw [ha] at h; exact ⟨a, rfl, h⟩

/-- (D) end to end, EVERY solver, EVERY time index, ANY request: `S + I + R = G.order()` -/
theorem EBCM_from_graph_conserve (odeint : Solver) (A : WArgs) (tau gamma : Rat)
    (infs recs : Option (List Node)) (rho : Option Rat) (tmin tmax : Rat) (tcount : Int) (full : Bool) (l : List Ser)
    (h : EBCM_from_graph odeint A tau gamma infs recs rho tmin tmax tcount full = .ok l) (i : Nat) :
    get l 1 i + get l 2 i + get l 3 i = (A.nodes.length : Rat) := by
  obtain ⟨a, ha, hl⟩ := EBCM_from_graph_inv odeint A tau gamma infs recs rho tmin tmax tcount full l h
  rw [C06d.EBCM_conserve odeint _ _ _ _ _ _ _ _ _ _ _ _ l hl i]
  exact EBCM_args_total A tau gamma infs recs rho tmin tmax tcount full a ha

theorem total_ok (f : Rat → Except String Rat) (x v : Rat) (h : f x = .ok v) : PyWrap.total f x = v := by
  simp [PyWrap.total, h]

/-- (D) end to end with `odeint rhs X0 0 = X0`, explicit disjoint sets of graph nodes: the returned `S`, `I`, `R` start
from the NUMBERS OF SUSCEPTIBLE / INFECTED / RECOVERED NODES of the graph (`S(0) = N·ψ̂(1)`) -/
theorem EBCM_from_graph_init (odeint : Solver) (h0 : RowZero odeint) (A : WArgs) (adj : List (List Nat))
    (hW : GraphOKW A adj) (tau gamma : Rat) (infs : List Node) (recs : Option (List Node))
    (hS : SetsOK adj infs (recs.getD [])) (hN : adj.length ≠ 0) (tmin tmax : Rat) (tcount : Int) (full : Bool)
    (l : List Ser)
    (h : EBCM_from_graph odeint A tau gamma (some infs) recs none tmin tmax tcount full = .ok l) :
    get l 1 0 = (count adj (statusOf infs (recs.getD [])) St.S : Rat) ∧
    get l 2 0 = (count adj (statusOf infs (recs.getD [])) St.I : Rat) ∧
    get l 3 0 = (count adj (statusOf infs (recs.getD [])) St.R : Rat) ∧
    (infs.Nodup → (recs.getD []).Nodup →
      get l 2 0 = (infs.length : Rat) ∧ get l 3 0 = ((recs.getD []).length : Rat)) := by
  obtain ⟨a, ha, hl⟩ := EBCM_from_graph_inv odeint A tau gamma _ _ _ tmin tmax tcount full l h
  obtain ⟨a', ha', e1, e2, -, -, e5, -, -, e8, -⟩ :=
    EBCM_args_spec A adj hW tau gamma infs recs hS hN tmin tmax tcount full
  rw [ha] at ha'; injection ha' with ha'; subst ha'
  obtain ⟨i1, i2, i3⟩ := C06d.EBCM_init odeint h0 _ _ _ _ _ _ _ _ _ _ _ _ l hl
  rw [total_ok _ _ _ (e5 1)] at i1 i2
  have ht := count_total adj (statusOf infs (recs.getD []))
  have hI : get l 2 0 = (count adj (statusOf infs (recs.getD [])) St.I : Rat) := by
    rw [i2, e8, e2, e1, ← ht]; push_cast; ring
  refine ⟨i1.trans e8, hI, i3.trans e2, fun hi hr => ?_⟩
  obtain ⟨cI, cR, -⟩ := request_counts adj infs (recs.getD []) hS hi hr
  exact ⟨hI.trans cI, (i3.trans e2).trans cR⟩

/-- (D) end to end, `rho` / default request: `S(0) = (1-rho)N`, `I(0) = rho·N`, `R(0) = 0` -/
theorem EBCM_from_graph_init_rho (odeint : Solver) (h0 : RowZero odeint) (A : WArgs) (adj : List (List Nat))
    (hG : GraphOK A.toIArgs adj) (tau gamma : Rat) (recs : Option (List Node)) (rho : Option Rat)
    (hrr : ¬ (rho.isSome ∧ recs.isSome)) (hN : adj.length ≠ 0) (tmin tmax : Rat) (tcount : Int) (full : Bool)
    (l : List Ser)
    (h : EBCM_from_graph odeint A tau gamma none recs rho tmin tmax tcount full = .ok l) :
    get l 1 0 = rhoS adj (rho.getD (1 / (adj.length : Rat))) ∧
    get l 2 0 = rhoI adj (rho.getD (1 / (adj.length : Rat))) ∧ get l 3 0 = 0 := by
  obtain ⟨a, ha, hl⟩ := EBCM_from_graph_inv odeint A tau gamma _ _ _ tmin tmax tcount full l h
  obtain ⟨a', ha', e1, e2, -, -, e5, e6, -⟩ :=
    EBCM_args_rho A adj hG tau gamma recs rho hrr hN tmin tmax tcount full
  rw [ha] at ha'; injection ha' with ha'; subst ha'
  obtain ⟨i1, i2, i3⟩ := C06d.EBCM_init odeint h0 _ _ _ _ _ _ _ _ _ _ _ _ l hl
  rw [total_ok _ _ _ (e5 1)] at i1 i2
  refine ⟨i1.trans e6, ?_, i3.trans e2⟩
  rw [i2, e6, e2, e1, rhoS, rhoI]; ring

/-! ## 5. non-vacuity: the triangle 0–1–2 with the pendant node 3 (`exW` of C06e) -/

/-- the extra hypothesis is satisfiable -/
theorem exW_okW : GraphOKW exW C06c.exAdj := ⟨exW_ok, fun _ _ => rfl⟩

/-- `Σ_k k·N_k = 2|E|` on the example: degree histogram `[0,1,2,1]`, `0·0+1·1+2·2+3·1 = 8` -/
example : degSum exW.toIArgs = 8 ∧ twoM C06c.exAdj = 8 := by constructor <;> decide +kernel
/-- default request of the SIS compact pairwise wrapper (`rho = 1/4`): `Sk0 Ik0 SI0 SS0 II0` -/
example : ((SIS_compact_pairwise_from_graph_args exW 1 1 none none 0 10 11 false).toOption.map
    fun a => (a.Sk0, a.Ik0, a.SI0, a.SS0, a.II0)) =
    some ([0, 3 / 4, 3 / 2, 3 / 4], [0, 1 / 4, 1 / 2, 1 / 4], 3 / 2, 9 / 2, 1 / 2) := by decide +kernel
example : ((SIS_compact_effective_degree_from_graph_args exW 1 1 none (some (1 / 2)) 0 10 11 false).toOption.map
    fun a => (a.SI0, a.SS0, a.II0)) = some (2, 2, 2) := by decide +kernel
example : ((SIR_compact_pairwise_from_graph_args exW 1 1 none none (some (1 / 2)) 0 10 11 false).toOption.map
    fun a => (a.Sk0, a.I0, a.R0, a.SS0, a.SI0)) = some ([0, 1 / 2, 1, 1 / 2], 2, 0, 2, 2) := by decide +kernel
/-- SURPRISE: `initial_recovereds` alone (no `rho`, no `initial_infecteds`) makes `SIR_compact_pairwise_from_graph`
raise `EoNError` ("both rho and initial_recovereds"), although the homogeneous pairwise wrapper ignores it (C06e) and
`EBCM_from_graph` ignores it as well -/
example : (match SIR_compact_pairwise_from_graph_args exW 1 1 none (some [3]) none 0 10 11 false with
    | .error e => e == "EoNError" | .ok _ => false) = true := by decide +kernel
example : ((EBCM_from_graph_args exW 1 1 none (some [3]) none 0 10 11 false).toOption.map
    fun a => (a.N, a.R0, a.phiS0, a.phiR0)) = some (4, 0, 3 / 4, 0) := by decide +kernel
/-- `EBCM_from_graph`, node 0 infected, node 3 recovered: susceptible nodes 1 (degree 2) and 2 (degree 3); `SS = 2`
(1→2, 2→1), `SR = 1` (2→3), `SX = 5`; `ψ̂(1) = 1/4·0 + 1/2·1/2 + 1/4·1 = 1/2`, `N·ψ̂(1) = 2` susceptible nodes;
`ψ̂'(1) = 2·(1/2)(1/2) + 3·(1/4) = 5/4` -/
example : ((EBCM_from_graph_args exW 1 1 (some [0]) (some [3]) none 0 10 11 false).toOption.map
    fun a => (a.N, a.R0, a.phiS0, a.phiR0)) = some (4, 1, 2 / 5, 1 / 5) := by decide +kernel
example : ((EBCM_from_graph_args exW 1 1 (some [0]) (some [3]) none 0 10 11 false).toOption.bind
    fun a => (a.psihat 1).toOption) = some (1 / 2) := by decide +kernel
example : ((EBCM_from_graph_args exW 1 1 (some [0]) (some [3]) none 0 10 11 false).toOption.bind
    fun a => (a.psihatPrime 1).toOption) = some (5 / 4) := by decide +kernel
example : ((EBCM_from_graph_args exW 1 1 (some [0]) (some [3]) none 0 10 11 false).toOption.bind
    fun a => (a.psihat (1 / 2)).toOption) = some (3 / 32) := by decide +kernel
example : Sk0G C06c.exAdj (statusOf [0] [3]) = [0, 0, 1 / 2, 1] ∧ degS C06c.exAdj (statusOf [0] [3]) = 5 ∧
    count C06c.exAdj (statusOf [0] [3]) St.S = 2 := by
  refine ⟨by decide +kernel, by decide +kernel, by decide +kernel⟩
/-- the `SX == 0 → 1` guard: every node infected, `phiS0 = 0/1` -/
example : ((EBCM_from_graph_args exW 1 1 (some [0, 1, 2, 3]) none none 0 10 11 false).toOption.map
    fun a => (a.phiS0, a.phiR0)) = some (0, 0) := by decide +kernel
/-- error cases: `rho` with a set; node 1 in both sets; a foreign node; the empty graph -/
example : (match EBCM_from_graph_args exW 1 1 (some [0]) none (some (1 / 4)) 0 10 11 false with
    | .error e => e == "EoNError" | .ok _ => false) = true := by decide +kernel
example : (match EBCM_from_graph_args exW 1 1 (some [0, 1]) (some [1]) none 0 10 11 false with
    | .error e => e == "EoNError" | .ok _ => false) = true := by decide +kernel
example : (match EBCM_from_graph_args exW 1 1 (some [7]) none none 0 10 11 false with
    | .error e => e == "EoNError" | .ok _ => false) = true := by decide +kernel
example : (match EBCM_from_graph_args emptyW 1 1 (some []) none none 0 10 11 false with
    | .error e => e == "ValueError" | .ok _ => false) = true := by decide +kernel
example : (match EBCM_from_graph_args emptyW 1 1 none none none 0 10 11 false with
    | .error e => e == "ZeroDivisionError" | .ok _ => false) = true := by decide +kernel
example : (match SIS_compact_pairwise_from_graph_args emptyW 1 1 none (some (1 / 2)) 0 10 11 false with
    | .error e => e == "ValueError" | .ok _ => false) = true := by decide +kernel
/-- a graph with an isolated node (edge 0–1, node 2 alone): `psihatPrime(0)` raises, `psihatPrime(1/2)` does not — the
hypothesis `x ≠ 0 ∨ no isolated node` of `EBCM_args_spec` cannot be dropped -/
def isoW : WArgs := { nodes := [0, 1, 2], edges := [(0, 1)], degree := fun u => [1, 1, 0].getD u 0,
                      hasNode := fun u => decide (u < 3), neighbors := fun u => [[1], [0], []].getD u [] }
example : ((EBCM_from_graph_args isoW 1 1 (some [0]) none none 0 10 11 false).toOption.map
    fun a => (match a.psihatPrime 0 with | .error e => e == "ZeroDivisionError" | .ok _ => false)) = some true := by
  decide +kernel
example : ((EBCM_from_graph_args isoW 1 1 (some [0]) none none 0 10 11 false).toOption.bind
    fun a => (a.psihatPrime (1 / 2)).toOption) = some (1 / 3) := by decide +kernel
/-- the hypothesis on `G.neighbors` is needed: with a wrong neighbour function the record is not that of the graph -/
example : ((EBCM_from_graph_args { exW with neighbors := fun _ => [] } 1 1 (some [0]) (some [3]) none 0 10 11
    false).toOption.map fun a => (a.phiS0, a.phiR0)) = some (0, 0) := by decide +kernel
/-- the theorems instantiated; end to end with the toy solver of C06d -/
example : ∃ a, EBCM_from_graph_args exW 1 1 (some [0]) (some [3]) none 0 10 11 false = .ok a ∧
    a.phiS0 = (pairCount C06c.exAdj (statusOf [0] [3]) St.S St.S : Rat) / (gI (degS C06c.exAdj (statusOf [0] [3])) : Rat) := by
  obtain ⟨a, h, -, -, h3, -⟩ := EBCM_args_spec exW C06c.exAdj exW_okW 1 1 [0] (some [3])
    ⟨by decide, by decide, by decide⟩ (by decide) 0 10 11 false
  exact ⟨a, h, h3⟩
example : ∃ l, EBCM_from_graph toyOdeint exW 1 1 (some [0]) (some [3]) none 0 10 11 false = .ok l ∧
    (∀ i, get l 1 i + get l 2 i + get l 3 i = 4) ∧ get l 1 0 = 2 ∧ get l 2 0 = 1 ∧ get l 3 0 = 1 := by
  obtain ⟨a, ha, -⟩ := EBCM_args_spec exW C06c.exAdj exW_okW 1 1 [0] (some [3])
    ⟨by decide, by decide, by decide⟩ (by decide) 0 10 11 false
  have hex : ∃ l, EBCM_from_graph toyOdeint exW 1 1 (some [0]) (some [3]) none 0 10 11 false = .ok l := by
    unfold EBCM_from_graph
    rw [ha]
    obtain ⟨l, hl, -⟩ := C06d.EBCM_shape toyOdeint a.N (PyWrap.total a.psihat) (PyWrap.total a.psihatPrime) a.tau
      a.gamma a.phiS0 a.phiR0 a.R0 a.tmin a.tmax a.tcount.toNat a.return_full_data
    exact ⟨l, hl⟩
  obtain ⟨l, h⟩ := hex
  have hc := EBCM_from_graph_conserve toyOdeint exW 1 1 _ _ _ 0 10 11 false l h
  obtain ⟨i1, i2, i3, -⟩ := EBCM_from_graph_init toyOdeint toyOdeint_zero exW C06c.exAdj exW_okW 1 1 [0] (some [3])
    ⟨by decide, by decide, by decide⟩ (by decide) 0 10 11 false l h
  have h4 : ((exW.nodes.length : Nat) : Rat) = 4 := by decide +kernel
  have c1 : count C06c.exAdj (statusOf [0] [3]) St.S = 2 := by decide +kernel
  have c2 : count C06c.exAdj (statusOf [0] [3]) St.I = 1 := by decide +kernel
  have c3 : count C06c.exAdj (statusOf [0] [3]) St.R = 1 := by decide +kernel
  rw [h4] at hc
  simp only [Option.getD_some] at i1 i2 i3
  refine ⟨l, h, hc, ?_, ?_, ?_⟩
  · rw [i1, c1]; norm_num
  · rw [i2, c2]; norm_num
  · rw [i3, c3]; norm_num
example : ∃ l, SIS_compact_pairwise_from_graph toyOdeint exW 1 1 none none 0 10 11 false = .ok l ∧
    (∀ i, get l 1 i + get l 2 i = 4) ∧ get l 1 0 = 3 ∧ get l 2 0 = 1 := by
  have hex : ∃ l, SIS_compact_pairwise_from_graph toyOdeint exW 1 1 none none 0 10 11 false = .ok l := by
    obtain ⟨a, ha⟩ : ∃ a, SIS_compact_pairwise_from_graph_args exW 1 1 none none 0 10 11 false = .ok a :=
      ⟨_, SIS_compact_pairwise_args_rho exW C06c.exAdj exW_ok 1 1 none (by decide) 0 10 11 false⟩
    unfold SIS_compact_pairwise_from_graph
    rw [ha]
    obtain ⟨l, hl, -⟩ := C06d.SIS_compact_pairwise_shape toyOdeint (V.ofList a.Sk0) (V.ofList a.Ik0) a.SI0 a.SS0 a.II0
      a.tau a.gamma a.tmin a.tmax a.tcount.toNat a.return_full_data
    exact ⟨l, hl⟩
  obtain ⟨l, h⟩ := hex
  have hc := SIS_compact_pairwise_from_graph_conserve toyOdeint exW C06c.exAdj exW_ok 1 1 _ _ 0 10 11 false l h
  obtain ⟨i1, i2⟩ := (SIS_compact_pairwise_from_graph_init toyOdeint toyOdeint_zero exW C06c.exAdj exW_ok 1 1 0 10 11
    false l).2 none h
  have h4 : ((C06c.exAdj.length : Nat) : Rat) = 4 := by decide +kernel
  rw [h4] at hc
  refine ⟨l, h, hc, ?_, ?_⟩
  · rw [i1]; simp [rhoS, h4]; norm_num
  · rw [i2]; simp [rhoI, h4]

end GenWrapProps2
