import EoNVerif.Model.Simple
import EoNVerif.Model.ListDictLaw
import EoNVerif.Proofs.ListDict
import EoNVerif.Proofs.Gillespie
import Mathlib.Tactic.Ring
import Mathlib.Tactic.Linarith
import Mathlib.Algebra.Order.Field.Rat
import Mathlib.Data.List.Nodup
/-!
Helper lemmas for C03 (`Gillespie_simple_contagion`), part 1: generic tools.

* `LD.applyOps_spec2`: the batch specification of `Proofs/Gillespie.lean` generalised to batches in which a key may
  be removed and later re-inserted (needed because the interpreter removes and re-adds the same actor when a
  transition has equal from- and to-status);
* `Simple.mapPT_spec`: position-wise specification of `mapPT`;
* `Simple.pickIdx_interval'`: the cumulative-share interval of `pickIdx`.
-/

set_option linter.unusedSectionVars false

namespace LD
variable {α : Type} [DecidableEq α]

def Op.isRem : Op α → Prop
  | .rem _ => True
  | _ => False

def Op.isUpd : Op α → Prop
  | .upd _ _ => True
  | _ => False

theorem applyOps_append (s : LD α) (a b : List (Op α)) :
    s.applyOps (a ++ b) = (s.applyOps a).bind fun s' => s'.applyOps b := by
  induction a generalizing s with
  | nil => rfl
  | cons o os ih =>
    simp only [List.cons_append, applyOps]
    cases s.applyOp o with
    | none => rfl
    | some s1 => exact ih s1

/-- admissible batch: earlier and later operations have different keys, except that a `remove` may be followed by
an `update` of the same key -/
def Compat (a b : Op α) : Prop := a.key ≠ b.key ∨ (a.isRem ∧ b.isUpd)

/-- **batch specification, remove-then-update allowed** -/
theorem applyOps_spec2 (ops : List (Op α)) (s : LD α) (h : Inv s)
    (hk : ops.Pairwise Compat)
    (hins : ∀ x w, Op.ins x w ∉ ops)
    (hrem : ∀ x, Op.rem x ∈ ops → x ∈ s.items)
    (hupd : ∀ x w, Op.upd x w ∈ ops → (x ∉ s.items ∨ Op.rem x ∈ ops) ∧ w.isSome = s.weighted ∧
      ∀ v, w = some v → 0 ≤ v) :
    ∃ s', s.applyOps ops = some s' ∧ Inv s' ∧ s'.weighted = s.weighted ∧
      (∀ y, y ∈ s'.items ↔ ((y ∈ s.items ∧ Op.rem y ∉ ops) ∨ ∃ w, Op.upd y w ∈ ops)) ∧
      (∀ y w, Op.upd y (some w) ∈ ops → s'.getW y = w) ∧
      (∀ y, (∀ o ∈ ops, o.key ≠ y) → s'.getW y = s.getW y) := by
  induction ops generalizing s with
  | nil => exact ⟨s, rfl, h, rfl, by simp, by simp, fun _ _ => rfl⟩
  | cons o os ih =>
    rw [List.pairwise_cons] at hk
    obtain ⟨hk1, hk2⟩ := hk
    have hins' : ∀ x w, Op.ins x w ∉ os := fun x w hc => hins x w (List.mem_cons_of_mem _ hc)
    cases o with
    | ins x w => exact absurd List.mem_cons_self (hins x w)
    | upd x w =>
      -- no later operation has key `x`
      have hkx : ∀ o' ∈ os, x ≠ o'.key := by
        intro o' ho'
        rcases hk1 o' ho' with h1 | ⟨h1, -⟩
        · exact h1
        · exact absurd h1 (by simp [Op.isRem])
      obtain ⟨hx0, hw, hnn⟩ := hupd x w List.mem_cons_self
      have hx : x ∉ s.items := by
        rcases hx0 with h1 | h1
        · exact h1
        · rcases List.mem_cons.1 h1 with h1 | h1
          · cases h1
          · exact absurd rfl (hkx _ h1)
      obtain ⟨s1, hs1⟩ := update_exists s x w hw
      obtain ⟨hwd1, hmem1, hget1⟩ := update_any s s1 x w hs1
      have hinv1 : Inv s1 := inv_update s s1 x w h hnn hs1
      have hrem1 : ∀ x', Op.rem x' ∈ os → x' ∈ s1.items := by
        intro x' hx'
        exact (hmem1 x').2 (Or.inl (hrem x' (List.mem_cons_of_mem _ hx')))
      have hupd1 : ∀ x' w', Op.upd x' w' ∈ os → (x' ∉ s1.items ∨ Op.rem x' ∈ os) ∧
          w'.isSome = s1.weighted ∧ ∀ v, w' = some v → 0 ≤ v := by
        intro x' w' hx'
        obtain ⟨h1, h2, h3⟩ := hupd x' w' (List.mem_cons_of_mem _ hx')
        refine ⟨?_, by rw [hwd1]; exact h2, h3⟩
        rcases h1 with h1 | h1
        · left
          rw [hmem1]; rintro (h4 | h4)
          · exact h1 h4
          · exact hkx _ hx' h4.symm
        · rcases List.mem_cons.1 h1 with h1 | h1
          · cases h1
          · exact Or.inr h1
      obtain ⟨s', hs', hinv', hwd', hmem', hgw', hgo'⟩ := ih s1 hinv1 hk2 hins' hrem1 hupd1
      refine ⟨s', ?_, hinv', hwd'.trans hwd1, ?_, ?_, ?_⟩
      · simp only [applyOps, applyOp, hs1]; exact hs'
      · intro y
        rw [hmem', hmem1]
        constructor
        · rintro (⟨h1 | h1, h2⟩ | ⟨w', h1⟩)
          · exact Or.inl ⟨h1, by simp [h2]⟩
          · exact Or.inr ⟨w, by simp [h1]⟩
          · exact Or.inr ⟨w', by simp [h1]⟩
        · rintro (⟨h1, h2⟩ | ⟨w', h1⟩)
          · exact Or.inl ⟨Or.inl h1, fun hc => h2 (by simp [hc])⟩
          · rcases List.mem_cons.1 h1 with h1 | h1
            · injection h1 with h1 h1'
              by_cases hr : Op.rem y ∈ os
              · exact absurd h1.symm (hkx _ hr)
              · exact Or.inl ⟨Or.inr h1, hr⟩
            · exact Or.inr ⟨w', h1⟩
      · intro y v hy
        rcases List.mem_cons.1 hy with hy | hy
        · injection hy with hy1 hy2
          subst hy1; subst hy2
          rw [hgo' y (fun o' ho' => (hkx o' ho').symm)]
          have hwt : s.weighted = true := by simpa using hw.symm
          rw [update_getW_self s s1 y v hs1, getW_of_not_mem s h hwt y hx]; ring
        · exact hgw' y v hy
      · intro y hy
        rw [hgo' y (fun o' ho' => hy o' (by simp [ho'])), hget1 y]
        exact fun hc => hy (Op.upd x w) List.mem_cons_self hc.symm
    | rem x =>
      have hx : x ∈ s.items := hrem x List.mem_cons_self
      obtain ⟨s1, hs1, hinv1, hwd1, hmem1, hget1⟩ := remove_any s x h hx
      have hrem1 : ∀ x', Op.rem x' ∈ os → x' ∈ s1.items := by
        intro x' hx'
        refine (hmem1 x').2 ⟨hrem x' (List.mem_cons_of_mem _ hx'), ?_⟩
        rcases hk1 _ hx' with h1 | ⟨-, h1⟩
        · exact fun hc => h1 hc.symm
        · exact absurd h1 (by simp [Op.isUpd])
      have hupd1 : ∀ x' w', Op.upd x' w' ∈ os → (x' ∉ s1.items ∨ Op.rem x' ∈ os) ∧
          w'.isSome = s1.weighted ∧ ∀ v, w' = some v → 0 ≤ v := by
        intro x' w' hx'
        obtain ⟨h1, h2, h3⟩ := hupd x' w' (List.mem_cons_of_mem _ hx')
        refine ⟨?_, by rw [hwd1]; exact h2, h3⟩
        rcases h1 with h1 | h1
        · left; rw [hmem1]; exact fun h4 => h1 h4.1
        · rcases List.mem_cons.1 h1 with h1 | h1
          · injection h1 with h1
            left; rw [hmem1]; exact fun h4 => h4.2 h1
          · exact Or.inr h1
      obtain ⟨s', hs', hinv', hwd', hmem', hgw', hgo'⟩ := ih s1 hinv1 hk2 hins' hrem1 hupd1
      refine ⟨s', ?_, hinv', hwd'.trans hwd1, ?_, ?_, ?_⟩
      · simp only [applyOps, applyOp, hs1]; exact hs'
      · intro y
        rw [hmem', hmem1]
        constructor
        · rintro (⟨⟨h1, h2⟩, h3⟩ | ⟨w', h1⟩)
          · refine Or.inl ⟨h1, ?_⟩
            intro hc
            rcases List.mem_cons.1 hc with hc | hc
            · injection hc with hc; exact h2 hc
            · exact h3 hc
          · exact Or.inr ⟨w', by simp [h1]⟩
        · rintro (⟨h1, h2⟩ | ⟨w', h1⟩)
          · exact Or.inl ⟨⟨h1, fun hc => h2 (by simp [hc])⟩, fun hc => h2 (by simp [hc])⟩
          · rcases List.mem_cons.1 h1 with h1 | h1
            · cases h1
            · exact Or.inr ⟨w', h1⟩
      · intro y v hy
        rcases List.mem_cons.1 hy with hy | hy
        · cases hy
        · exact hgw' y v hy
      · intro y hy
        rw [hgo' y (fun o' ho' => hy o' (by simp [ho'])), hget1 y]
        exact fun hc => hy (Op.rem x) List.mem_cons_self hc.symm

/-- `applyOps_spec2` with the "unchanged weight" clause stated for surviving candidates -/
theorem applyOps_spec2' (ops : List (Op α)) (s : LD α) (h : Inv s)
    (hk : ops.Pairwise Compat)
    (hins : ∀ x w, Op.ins x w ∉ ops)
    (hrem : ∀ x, Op.rem x ∈ ops → x ∈ s.items)
    (hupd : ∀ x w, Op.upd x w ∈ ops → (x ∉ s.items ∨ Op.rem x ∈ ops) ∧ w.isSome = s.weighted ∧
      ∀ v, w = some v → 0 ≤ v) :
    ∃ s', s.applyOps ops = some s' ∧ Inv s' ∧ s'.weighted = s.weighted ∧
      (∀ y, y ∈ s'.items ↔ ((y ∈ s.items ∧ Op.rem y ∉ ops) ∨ ∃ w, Op.upd y w ∈ ops)) ∧
      (∀ y w, Op.upd y (some w) ∈ ops → s'.getW y = w) ∧
      (∀ y ∈ s'.items, (¬ ∃ w, Op.upd y w ∈ ops) → y ∈ s.items ∧ s'.getW y = s.getW y) := by
  obtain ⟨s', hs', hinv', hwd', hmem', hgw', hgo'⟩ := applyOps_spec2 ops s h hk hins hrem hupd
  refine ⟨s', hs', hinv', hwd', hmem', hgw', ?_⟩
  intro y hy hnu
  rcases (hmem' y).1 hy with ⟨h1, h2⟩ | h1
  · refine ⟨h1, hgo' y ?_⟩
    intro o ho hkey
    cases o with
    | ins x w => exact hins x w ho
    | upd x w => exact hnu ⟨w, by rw [← show x = y from hkey]; exact ho⟩
    | rem x => exact h2 (by rw [← show x = y from hkey]; exact ho)
  · exact absurd h1 hnu

end LD

namespace Simple
variable {σ : Type} [DecidableEq σ]

/-! ### `mapPT` position-wise -/

theorem mapPT_spec {τ : Type} (trs : List τ) (pts : List (LD Actor)) (f : τ → LD Actor → Option (LD Actor))
    (Q Q' : τ → LD Actor → Prop) (hlen : pts.length = trs.length)
    (hpre : ∀ (i : Nat) tr ld, trs[i]? = some tr → pts[i]? = some ld → Q tr ld)
    (hstep : ∀ tr ld, tr ∈ trs → Q tr ld → ∃ ld', f tr ld = some ld' ∧ Q' tr ld') :
    ∃ pts', mapPT trs pts f = some pts' ∧ pts'.length = trs.length ∧
      ∀ (i : Nat) tr ld', trs[i]? = some tr → pts'[i]? = some ld' → Q' tr ld' := by
  induction trs generalizing pts with
  | nil =>
    cases pts with
    | nil => exact ⟨[], rfl, rfl, by simp⟩
    | cons _ _ => simp at hlen
  | cons tr trs ih =>
    cases pts with
    | nil => simp at hlen
    | cons ld pts =>
      have hlen' : pts.length = trs.length := by simpa using hlen
      obtain ⟨ld', hld', hq'⟩ := hstep tr ld (by simp) (hpre 0 tr ld rfl rfl)
      obtain ⟨rest, hrest, hrl, hrq⟩ := ih pts hlen'
        (fun i tr' ld' h1 h2 => hpre (i + 1) tr' ld' (by simpa using h1) (by simpa using h2))
        (fun tr' ld' h1 h2 => hstep tr' ld' (by simp [h1]) h2)
      refine ⟨ld' :: rest, ?_, by simp [hrl], ?_⟩
      · simp only [mapPT, hld', hrest]
      · intro i tr' ld'' h1 h2
        cases i with
        | zero =>
          simp only [List.getElem?_cons_zero, Option.some.injEq] at h1 h2
          subst h1; subst h2; exact hq'
        | succ i => exact hrq i tr' ld'' (by simpa using h1) (by simpa using h2)

/-! ### `pickIdx` -/

theorem pickIdx_go_spec (l : List Rat) (hn : ∀ x ∈ l, 0 ≤ x) (r : Rat) (h0 : 0 ≤ r) (hr : r < sumRat l) (i : Nat) :
    ∃ j, pickIdx.go l r i = i + j ∧ j < l.length ∧ sumRat (l.take j) ≤ r ∧ r < sumRat (l.take (j + 1)) := by
  induction l generalizing r i with
  | nil => simp at hr; exact absurd hr (not_lt.2 h0)
  | cons x xs ih =>
    unfold pickIdx.go
    by_cases hx : r - x < 0
    · rw [if_pos hx]
      refine ⟨0, rfl, by simp, by simpa using h0, ?_⟩
      simp; linarith
    · rw [if_neg hx]
      have hx' : 0 ≤ r - x := not_lt.1 hx
      obtain ⟨j, hj1, hj2, hj3, hj4⟩ := ih (fun y hy => hn y (by simp [hy])) (r - x) hx'
        (by simp at hr; linarith) (i + 1)
      refine ⟨j + 1, by rw [hj1]; omega, by simpa using hj2, ?_, ?_⟩
      · simp; linarith
      · simp only [List.take_succ_cons, sumRat_cons]; linarith

theorem pickIdx_interval' (shares : List Rat) (hn : ∀ x ∈ shares, 0 ≤ x) (r : Rat) (h0 : 0 ≤ r)
    (hr : r < sumRat shares) :
    pickIdx shares r < shares.length ∧ sumRat (shares.take (pickIdx shares r)) ≤ r ∧
      r < sumRat (shares.take (pickIdx shares r + 1)) := by
  obtain ⟨j, hj1, hj2, hj3, hj4⟩ := pickIdx_go_spec shares hn r h0 hr 0
  have : pickIdx shares r = j := by unfold pickIdx; rw [hj1]; omega
  rw [this]; exact ⟨hj2, hj3, hj4⟩

end Simple

/-! ### the C03 vocabulary (moved here unchanged from the statement file) -/
namespace Simple
variable {σ : Type} [DecidableEq σ]

structure WF (P : SCParams σ) : Prop where
  nodup : P.nodes.Nodup
  succ_nodup : ∀ u ∈ P.nodes, (P.succ u).Nodup
  succ_mem : ∀ u ∈ P.nodes, ∀ v ∈ P.succ u, v ∈ P.nodes
  succ_out : ∀ u, u ∉ P.nodes → P.succ u = []
  pred_nodup : ∀ u ∈ P.nodes, (P.pred u).Nodup
  pred_iff : ∀ u v, u ∈ P.pred v ↔ v ∈ P.succ u
  undirected_symm : P.directed = false → ∀ u v, v ∈ P.succ u → u ∈ P.succ v
  noloop : ∀ u, u ∉ P.succ u
  wS_nonneg : ∀ tr ∈ P.spont, ∀ f, tr.w = some f → ∀ u, 0 ≤ f u
  wI_nonneg : ∀ tr ∈ P.ind, ∀ f, tr.w = some f → ∀ u v, 0 ≤ f u v
  rate_nonneg : (∀ tr ∈ P.spont, 0 ≤ tr.rate) ∧ (∀ tr ∈ P.ind, 0 ≤ tr.rate)

/-- `potential_transitions[tr]` equals the set implied by the statuses, for every spec edge -/
structure Inv (P : SCParams σ) (s : SCState σ) : Prop where
  lenS : s.ptS.length = P.spont.length
  lenI : s.ptI.length = P.ind.length
  spont : ∀ (i : Nat) (tr : SpontTr σ) (ld : LD Actor), P.spont[i]? = some tr → s.ptS[i]? = some ld →
    LD.Inv ld ∧ ld.weighted = tr.w.isSome ∧
    (∀ a, a ∈ ld.items ↔ ∃ u, a = [u] ∧ u ∈ P.nodes ∧ s.status u = tr.src) ∧
    (∀ f, tr.w = some f → ∀ u, [u] ∈ ld.items → ld.getW [u] = f u)
  ind : ∀ (i : Nat) (tr : IndTr σ) (ld : LD Actor), P.ind[i]? = some tr → s.ptI[i]? = some ld →
    LD.Inv ld ∧ ld.weighted = tr.w.isSome ∧
    (∀ a, a ∈ ld.items ↔ ∃ u v, a = [u, v] ∧ u ∈ P.nodes ∧ v ∈ P.succ u ∧ s.status u = tr.a ∧ s.status v = tr.b) ∧
    (∀ f, tr.w = some f → ∀ u v, [u, v] ∈ ld.items → ld.getW [u, v] = f u v)
  counts : s.data.length = P.ret.length ∧
    ∀ (i : Nat), i < P.ret.length → (s.data.getD i []).headD 0 = countSt P s.status (P.ret.getD i (s.status 0))

/-- an event is *enabled*: its actor is a current candidate of its transition -/
def Enabled (s : SCState σ) (e : SCEvent) : Prop :=
  ∃ ld, (s.ptS ++ s.ptI)[e.idx]? = some ld ∧ e.actor ∈ ld.items

/-! ### per-transition invariants, relative to a set `D` of already processed nodes -/

def SpontOK (D : Node → Prop) (st : Node → σ) (tr : SpontTr σ) (ld : LD Actor) : Prop :=
  LD.Inv ld ∧ ld.weighted = tr.w.isSome ∧
  (∀ a, a ∈ ld.items ↔ ∃ u, a = [u] ∧ D u ∧ st u = tr.src) ∧
  (∀ f, tr.w = some f → ∀ u, [u] ∈ ld.items → ld.getW [u] = f u)

def IndOK (P : SCParams σ) (D : Node → Prop) (st : Node → σ) (tr : IndTr σ) (ld : LD Actor) : Prop :=
  LD.Inv ld ∧ ld.weighted = tr.w.isSome ∧
  (∀ a, a ∈ ld.items ↔ ∃ u v, a = [u, v] ∧ D u ∧ v ∈ P.succ u ∧ st u = tr.a ∧ st v = tr.b) ∧
  (∀ f, tr.w = some f → ∀ u v, [u, v] ∈ ld.items → ld.getW [u, v] = f u v)

theorem wS_isSome (tr : SpontTr σ) (u : Node) : (wS tr u).isSome = tr.w.isSome := by
  unfold wS; cases tr.w <;> rfl

theorem wI_isSome (tr : IndTr σ) (u v : Node) : (wI tr u v).isSome = tr.w.isSome := by
  unfold wI; cases tr.w <;> rfl

theorem wS_some (tr : SpontTr σ) (f : Node → Rat) (hf : tr.w = some f) (u : Node) : wS tr u = some (f u) := by
  unfold wS; rw [hf]; rfl

theorem wI_some (tr : IndTr σ) (f : Node → Node → Rat) (hf : tr.w = some f) (u v : Node) :
    wI tr u v = some (f u v) := by
  unfold wI; rw [hf]; rfl

theorem wS_nonneg (P : SCParams σ) (h : WF P) (tr : SpontTr σ) (htr : tr ∈ P.spont) (u : Node) (x : Rat)
    (hx : wS tr u = some x) : 0 ≤ x := by
  cases hf : tr.w with
  | none => simp [wS, hf] at hx
  | some f =>
    rw [wS_some tr f hf] at hx
    obtain rfl := Option.some.inj hx
    exact h.wS_nonneg tr htr f hf u

theorem wI_nonneg (P : SCParams σ) (h : WF P) (tr : IndTr σ) (htr : tr ∈ P.ind) (u v : Node) (x : Rat)
    (hx : wI tr u v = some x) : 0 ≤ x := by
  cases hf : tr.w with
  | none => simp [wI, hf] at hx
  | some f =>
    rw [wI_some tr f hf] at hx
    obtain rfl := Option.some.inj hx
    exact h.wI_nonneg tr htr f hf u v

/-! ### one-key batches -/

abbrev AOp := LD.Op Actor

/-- "remove `k` if `r`, then add `k` with weight `w` if `u`" -/
def B1 (k : Actor) (r u : Prop) [Decidable r] [Decidable u] (w : Option Rat) : List AOp :=
  (if r then [LD.Op.rem k] else []) ++ (if u then [LD.Op.upd k w] else [])

section B1
variable (k : Actor) (r u : Prop) [Decidable r] [Decidable u] (w : Option Rat)

theorem mem_B1_rem (y : Actor) : LD.Op.rem y ∈ B1 k r u w ↔ (y = k ∧ r) := by
  unfold B1; by_cases hr : r <;> by_cases hu : u <;> simp [hr, hu]

theorem mem_B1_upd (y : Actor) (w' : Option Rat) : LD.Op.upd y w' ∈ B1 k r u w ↔ (y = k ∧ u ∧ w' = w) := by
  unfold B1; by_cases hr : r <;> by_cases hu : u <;> simp [hr, hu]

theorem mem_B1_ins (y : Actor) (w' : Option Rat) : LD.Op.ins y w' ∉ B1 k r u w := by
  unfold B1; by_cases hr : r <;> by_cases hu : u <;> simp [hr, hu]

theorem key_of_mem_B1 (o : AOp) (ho : o ∈ B1 k r u w) : o.key = k := by
  cases o with
  | ins y w' => exact absurd ho (mem_B1_ins k r u w y w')
  | upd y w' => exact ((mem_B1_upd k r u w y w').1 ho).1
  | rem y => exact ((mem_B1_rem k r u w y).1 ho).1

theorem B1_pairwise : (B1 k r u w).Pairwise LD.Compat := by
  unfold B1; by_cases hr : r <;> by_cases hu : u <;> simp [hr, hu, LD.Compat, LD.Op.isRem, LD.Op.isUpd]

theorem applyOps_B1 (ld : LD Actor) :
    ld.applyOps (B1 k r u w) =
      (if r then ld.remove k else some ld).bind fun ld1 => if u then ld1.update k w else some ld1 := by
  unfold B1
  by_cases hr : r <;> by_cases hu : u <;> simp only [hr, hu, if_true, if_false, List.append_nil, List.nil_append,
    List.cons_append, LD.applyOps, LD.applyOp, Option.bind_some]
  · cases ld.remove k with
    | none => rfl
    | some ld1 => simp only [Option.bind_some]; cases ld1.update k w <;> rfl
  · cases ld.remove k <;> rfl
  · cases ld.update k w <;> rfl

end B1

end Simple

/-! ### the update loops as batches -/
namespace Simple
variable {σ : Type} [DecidableEq σ]

theorem ite_bind_jp {α β : Type} (c : Prop) [Decidable c] (x : Option α) (y : α) (f : α → Option β) :
    (if c then x >>= f else some y >>= f) = (if c then x else some y).bind f := by
  split <;> rfl

theorem updSpontOne_eq (old new : σ) (m : Node) (tr : SpontTr σ) (ld : LD Actor) :
    updSpontOne old new m tr ld = ld.applyOps (B1 [m] (tr.src = old) (tr.src = new) (wS tr m)) := by
  rw [applyOps_B1]; unfold updSpontOne
  simp only [ite_bind_jp]

def succOps (st : Node → σ) (old new : σ) (m : Node) (tr : IndTr σ) (l : List Node) : List AOp :=
  l.flatMap fun v => B1 [m, v] (tr.a = old ∧ tr.b = st v) (tr.a = new ∧ tr.b = st v) (wI tr m v)

def predOps (st : Node → σ) (old new : σ) (m : Node) (tr : IndTr σ) (l : List Node) : List AOp :=
  l.flatMap fun p => B1 [p, m] (tr.a = st p ∧ tr.b = old) (tr.a = st p ∧ tr.b = new) (wI tr p m)

/-- the four operations of one iteration of the undirected loop, in the code's order -/
def B2 (st : Node → σ) (old new : σ) (m : Node) (tr : IndTr σ) (v : Node) : List AOp :=
  (if tr.a = st v ∧ tr.b = old then [LD.Op.rem [v, m]] else []) ++
  ((if tr.a = old ∧ tr.b = st v then [LD.Op.rem [m, v]] else []) ++
  ((if tr.a = st v ∧ tr.b = new then [LD.Op.upd [v, m] (wI tr v m)] else []) ++
  (if tr.a = new ∧ tr.b = st v then [LD.Op.upd [m, v] (wI tr m v)] else [])))

def undirOps (st : Node → σ) (old new : σ) (m : Node) (tr : IndTr σ) (l : List Node) : List AOp :=
  l.flatMap (B2 st old new m tr)

theorem applyOps_ite_rem (c : Prop) [Decidable c] (k : Actor) (ld : LD Actor) (rest : List AOp) :
    ld.applyOps ((if c then [LD.Op.rem k] else []) ++ rest) =
      (if c then ld.remove k else some ld).bind fun ld1 => ld1.applyOps rest := by
  by_cases hc : c <;> simp only [hc, if_true, if_false, List.cons_append, List.nil_append, LD.applyOps, LD.applyOp,
    Option.bind_some]
  cases ld.remove k <;> rfl

theorem applyOps_ite_upd (c : Prop) [Decidable c] (k : Actor) (w : Option Rat) (ld : LD Actor) (rest : List AOp) :
    ld.applyOps ((if c then [LD.Op.upd k w] else []) ++ rest) =
      (if c then ld.update k w else some ld).bind fun ld1 => ld1.applyOps rest := by
  by_cases hc : c <;> simp only [hc, if_true, if_false, List.cons_append, List.nil_append, LD.applyOps, LD.applyOp,
    Option.bind_some]
  cases ld.update k w <;> rfl

theorem updIndSucc_eq (st : Node → σ) (old new : σ) (m : Node) (tr : IndTr σ) (l : List Node) (ld : LD Actor) :
    updIndSucc st old new m tr l ld = ld.applyOps (succOps st old new m tr l) := by
  induction l generalizing ld with
  | nil => rfl
  | cons v rest ih =>
    unfold succOps at ih ⊢
    rw [List.flatMap_cons, updIndSucc]
    simp only [ih]
    unfold B1
    simp only [List.append_assoc, applyOps_ite_rem, applyOps_ite_upd, ite_bind_jp]

theorem updIndPred_eq (st : Node → σ) (old new : σ) (m : Node) (tr : IndTr σ) (l : List Node) (ld : LD Actor) :
    updIndPred st old new m tr l ld = ld.applyOps (predOps st old new m tr l) := by
  induction l generalizing ld with
  | nil => rfl
  | cons v rest ih =>
    unfold predOps at ih ⊢
    rw [List.flatMap_cons, updIndPred]
    simp only [ih]
    unfold B1
    simp only [List.append_assoc, applyOps_ite_rem, applyOps_ite_upd, ite_bind_jp]

theorem updIndUndir_eq (st : Node → σ) (old new : σ) (m : Node) (tr : IndTr σ) (l : List Node) (ld : LD Actor) :
    updIndUndir st old new m tr l ld = ld.applyOps (undirOps st old new m tr l) := by
  induction l generalizing ld with
  | nil => rfl
  | cons v rest ih =>
    unfold undirOps at ih ⊢
    rw [List.flatMap_cons, updIndUndir]
    simp only [ih]
    unfold B2
    simp only [List.append_assoc, applyOps_ite_rem, applyOps_ite_upd, ite_bind_jp]

end Simple

/-! ### the spontaneous candidate sets after a status change -/
namespace Simple
variable {σ : Type} [DecidableEq σ]

theorem updSpontOne_spec (P : SCParams σ) (h : WF P) (st : Node → σ) (m : Node) (hm : m ∈ P.nodes) (new : σ)
    (tr : SpontTr σ) (htr : tr ∈ P.spont) (ld : LD Actor) (hok : SpontOK (· ∈ P.nodes) st tr ld) :
    ∃ ld', updSpontOne (st m) new m tr ld = some ld' ∧ SpontOK (· ∈ P.nodes) (fset st m new) tr ld' := by
  obtain ⟨hinv, hwd, hmem, hgw⟩ := hok
  have hm_in : [m] ∈ ld.items ↔ st m = tr.src := by
    rw [hmem]
    constructor
    · rintro ⟨u, hu, -, h2⟩
      obtain rfl : m = u := by simpa using hu
      exact h2
    · intro h1; exact ⟨m, rfl, hm, h1⟩
  obtain ⟨ld', hl, hinv', hwd', hmem', hgw', hgo'⟩ :=
    LD.applyOps_spec2' (B1 [m] (tr.src = st m) (tr.src = new) (wS tr m)) ld hinv (B1_pairwise _ _ _ _)
      (fun x w => mem_B1_ins _ _ _ _ x w)
      (by
        intro x hx
        obtain ⟨rfl, h1⟩ := (mem_B1_rem _ _ _ _ x).1 hx
        exact hm_in.2 h1.symm)
      (by
        intro x w hx
        obtain ⟨rfl, h1, rfl⟩ := (mem_B1_upd _ _ _ _ x w).1 hx
        refine ⟨?_, by rw [wS_isSome, hwd], wS_nonneg P h tr htr m⟩
        by_cases h2 : tr.src = st m
        · exact Or.inr ((mem_B1_rem _ _ _ _ _).2 ⟨rfl, h2⟩)
        · exact Or.inl (fun hc => h2 (hm_in.1 hc).symm))
  simp only [mem_B1_rem, mem_B1_upd] at hmem' hgw' hgo'
  refine ⟨ld', by rw [updSpontOne_eq]; exact hl, hinv', hwd'.trans hwd, ?_, ?_⟩
  · intro a
    rw [hmem' a, hmem a]
    constructor
    · rintro (⟨⟨u, rfl, hu, hsu⟩, h2⟩ | ⟨w, rfl, h1, -⟩)
      · have hum : u ≠ m := by
          rintro rfl
          exact h2 ⟨rfl, hsu.symm⟩
        exact ⟨u, rfl, hu, by rw [Gillespie.fset_ne _ _ _ _ hum]; exact hsu⟩
      · exact ⟨m, rfl, hm, by rw [Gillespie.fset_self]; exact h1.symm⟩
    · rintro ⟨u, rfl, hu, hsu⟩
      by_cases hum : u = m
      · subst hum
        rw [Gillespie.fset_self] at hsu
        exact Or.inr ⟨_, rfl, hsu.symm, rfl⟩
      · rw [Gillespie.fset_ne _ _ _ _ hum] at hsu
        exact Or.inl ⟨⟨u, rfl, hu, hsu⟩, fun hc => hum (by simpa using hc.1)⟩
  · intro f hf u hu
    by_cases hup : ∃ w, [u] = [m] ∧ tr.src = new ∧ w = wS tr m
    · obtain ⟨w, h1, h2, h3⟩ := hup
      obtain rfl : u = m := by simpa using h1
      exact hgw' [u] (f u) ⟨rfl, h2, (wS_some tr f hf u).symm⟩
    · obtain ⟨h1, h2⟩ := hgo' [u] hu hup
      rw [h2]; exact hgw f hf u h1

/-! ### the induced candidate sets after a status change: one semantic lemma for all loop shapes -/

theorem succ_ne (P : SCParams σ) (h : WF P) (u v : Node) (hv : v ∈ P.succ u) : v ≠ u := by
  rintro rfl; exact h.noloop _ hv

theorem mem_nodes_of_succ (P : SCParams σ) (h : WF P) (u v : Node) (hv : v ∈ P.succ u) : u ∈ P.nodes := by
  by_contra hu
  rw [h.succ_out u hu] at hv
  cases hv

/-- a batch consisting, membership-wise, of the "out-pairs" `[m, v]` (`v` successor of `m`) and the "in-pairs"
`[p, m]` (`p` predecessor of `m`) turns the candidate set for status map `st` into that for `fset st m new` -/
theorem ind_batch_spec (P : SCParams σ) (h : WF P) (st : Node → σ) (m : Node) (hm : m ∈ P.nodes) (new : σ)
    (tr : IndTr σ) (htr : tr ∈ P.ind) (ld : LD Actor) (hok : IndOK P (· ∈ P.nodes) st tr ld) (ops : List AOp)
    (hk : ops.Pairwise LD.Compat)
    (hops : ∀ o, o ∈ ops ↔
      (∃ v, v ∈ P.succ m ∧ o ∈ B1 [m, v] (tr.a = st m ∧ tr.b = st v) (tr.a = new ∧ tr.b = st v) (wI tr m v)) ∨
      (∃ p, m ∈ P.succ p ∧ o ∈ B1 [p, m] (tr.a = st p ∧ tr.b = st m) (tr.a = st p ∧ tr.b = new) (wI tr p m))) :
    ∃ ld', ld.applyOps ops = some ld' ∧ IndOK P (· ∈ P.nodes) (fset st m new) tr ld' := by
  obtain ⟨hinv, hwd, hmem, hgw⟩ := hok
  have hR : ∀ y, LD.Op.rem y ∈ ops ↔
      (∃ v, v ∈ P.succ m ∧ y = [m, v] ∧ tr.a = st m ∧ tr.b = st v) ∨
      (∃ p, m ∈ P.succ p ∧ y = [p, m] ∧ tr.a = st p ∧ tr.b = st m) := by
    intro y; rw [hops]; simp only [mem_B1_rem]
  have hU : ∀ y w, LD.Op.upd y w ∈ ops ↔
      (∃ v, v ∈ P.succ m ∧ y = [m, v] ∧ (tr.a = new ∧ tr.b = st v) ∧ w = wI tr m v) ∨
      (∃ p, m ∈ P.succ p ∧ y = [p, m] ∧ (tr.a = st p ∧ tr.b = new) ∧ w = wI tr p m) := by
    intro y w; rw [hops]; simp only [mem_B1_upd]
  have hI : ∀ y w, LD.Op.ins y w ∉ ops := by
    intro y w; rw [hops]; simp only [mem_B1_ins, and_false, exists_false, or_self, not_false_eq_true]
  have hpair : ∀ u v, [u, v] ∈ ld.items ↔ (u ∈ P.nodes ∧ v ∈ P.succ u ∧ st u = tr.a ∧ st v = tr.b) := by
    intro u v
    rw [hmem]
    constructor
    · rintro ⟨u', v', he, h1⟩
      obtain ⟨rfl, rfl⟩ : u = u' ∧ v = v' := by simpa using he
      exact h1
    · intro h1; exact ⟨u, v, rfl, h1⟩
  obtain ⟨ld', hl, hinv', hwd', hmem', hgw', hgo'⟩ :=
    LD.applyOps_spec2' ops ld hinv hk hI
      (by
        intro x hx
        rcases (hR x).1 hx with ⟨v, hv, rfl, h1, h2⟩ | ⟨p, hp, rfl, h1, h2⟩
        · exact (hpair m v).2 ⟨hm, hv, h1.symm, h2.symm⟩
        · exact (hpair p m).2 ⟨mem_nodes_of_succ P h p m hp, hp, h1.symm, h2.symm⟩)
      (by
        intro x w hx
        rcases (hU x w).1 hx with ⟨v, hv, rfl, ⟨h1, h2⟩, rfl⟩ | ⟨p, hp, rfl, ⟨h1, h2⟩, rfl⟩
        · refine ⟨?_, by rw [wI_isSome, hwd], wI_nonneg P h tr htr m v⟩
          by_cases h3 : tr.a = st m
          · exact Or.inr ((hR _).2 (Or.inl ⟨v, hv, rfl, h3, h2⟩))
          · exact Or.inl (fun hc => h3 ((hpair m v).1 hc).2.2.1.symm)
        · refine ⟨?_, by rw [wI_isSome, hwd], wI_nonneg P h tr htr p m⟩
          by_cases h3 : tr.b = st m
          · exact Or.inr ((hR _).2 (Or.inr ⟨p, hp, rfl, h1, h3⟩))
          · exact Or.inl (fun hc => h3 ((hpair p m).1 hc).2.2.2.symm))
  refine ⟨ld', hl, hinv', hwd'.trans hwd, ?_, ?_⟩
  · intro a
    rw [hmem' a]
    constructor
    · rintro (⟨h1, h2⟩ | ⟨w, h1⟩)
      · obtain ⟨u, v, rfl, hu, hv, hsu, hsv⟩ := (hmem a).1 h1
        have hum : u ≠ m := by
          rintro rfl
          exact h2 ((hR _).2 (Or.inl ⟨v, hv, rfl, hsu.symm, hsv.symm⟩))
        have hvm : v ≠ m := by
          rintro rfl
          exact h2 ((hR _).2 (Or.inr ⟨u, hv, rfl, hsu.symm, hsv.symm⟩))
        exact ⟨u, v, rfl, hu, hv, by rw [Gillespie.fset_ne _ _ _ _ hum]; exact hsu,
          by rw [Gillespie.fset_ne _ _ _ _ hvm]; exact hsv⟩
      · rcases (hU a w).1 h1 with ⟨v, hv, rfl, ⟨h2, h3⟩, -⟩ | ⟨p, hp, rfl, ⟨h2, h3⟩, -⟩
        · exact ⟨m, v, rfl, hm, hv, by rw [Gillespie.fset_self]; exact h2.symm,
            by rw [Gillespie.fset_ne _ _ _ _ (succ_ne P h m v hv)]; exact h3.symm⟩
        · have hpm : p ≠ m := fun hc => succ_ne P h p m hp hc.symm
          exact ⟨p, m, rfl, mem_nodes_of_succ P h p m hp, hp,
            by rw [Gillespie.fset_ne _ _ _ _ hpm]; exact h2.symm, by rw [Gillespie.fset_self]; exact h3.symm⟩
    · rintro ⟨u, v, rfl, hu, hv, hsu, hsv⟩
      by_cases hum : u = m
      · subst hum
        rw [Gillespie.fset_self] at hsu
        rw [Gillespie.fset_ne _ _ _ _ (succ_ne P h u v hv)] at hsv
        exact Or.inr ⟨_, (hU _ _).2 (Or.inl ⟨v, hv, rfl, ⟨hsu.symm, hsv.symm⟩, rfl⟩)⟩
      · rw [Gillespie.fset_ne _ _ _ _ hum] at hsu
        by_cases hvm : v = m
        · subst hvm
          rw [Gillespie.fset_self] at hsv
          exact Or.inr ⟨_, (hU _ _).2 (Or.inr ⟨u, hv, rfl, ⟨hsu.symm, hsv.symm⟩, rfl⟩)⟩
        · rw [Gillespie.fset_ne _ _ _ _ hvm] at hsv
          refine Or.inl ⟨(hpair u v).2 ⟨hu, hv, hsu, hsv⟩, ?_⟩
          intro hc
          rcases (hR _).1 hc with ⟨v', -, he, -⟩ | ⟨p, -, he, -⟩
          · have he' : u = m ∧ v = v' := by simpa using he
            exact hum he'.1
          · have he' : u = p ∧ v = m := by simpa using he
            exact hvm he'.2
  · intro f hf u v huv
    by_cases hup : ∃ w, LD.Op.upd [u, v] w ∈ ops
    · obtain ⟨w, hw⟩ := hup
      rcases (hU _ _).1 hw with ⟨v', hv', he, -, rfl⟩ | ⟨p, hp, he, -, rfl⟩
      · obtain ⟨rfl, rfl⟩ : u = m ∧ v = v' := by simpa using he
        rw [wI_some tr f hf] at hw
        exact hgw' _ _ hw
      · obtain ⟨rfl, rfl⟩ : u = p ∧ v = m := by simpa using he
        rw [wI_some tr f hf] at hw
        exact hgw' _ _ hw
    · obtain ⟨h1, h2⟩ := hgo' [u, v] huv hup
      rw [h2]; exact hgw f hf u v h1

end Simple

/-! ### instantiation for the directed (successor + predecessor loops) and the undirected loop -/
namespace Simple
variable {σ : Type} [DecidableEq σ]

theorem mem_ite_single {β : Type} (c : Prop) [Decidable c] (x o : β) : (o ∈ if c then [x] else []) ↔ (c ∧ o = x) := by
  by_cases hc : c <;> simp [hc]

theorem flatMap_pairwise (l : List Node) (hl : l.Nodup) (F : Node → List AOp)
    (hF : ∀ v ∈ l, (F v).Pairwise LD.Compat)
    (hkeys : ∀ v ∈ l, ∀ v' ∈ l, v ≠ v' → ∀ x ∈ F v, ∀ y ∈ F v', x.key ≠ y.key) :
    (l.flatMap F).Pairwise LD.Compat := by
  rw [List.pairwise_flatMap]
  refine ⟨hF, hl.pairwise_of_forall_ne ?_⟩
  intro v hv v' hv' hne x hx y hy
  exact Or.inl (hkeys v hv v' hv' hne x hx y hy)

theorem mem_B2 (st : Node → σ) (old new : σ) (m : Node) (tr : IndTr σ) (v : Node) (o : AOp) :
    o ∈ B2 st old new m tr v ↔
      (o ∈ B1 [v, m] (tr.a = st v ∧ tr.b = old) (tr.a = st v ∧ tr.b = new) (wI tr v m) ∨
       o ∈ B1 [m, v] (tr.a = old ∧ tr.b = st v) (tr.a = new ∧ tr.b = st v) (wI tr m v)) := by
  simp only [B2, B1, List.mem_append, mem_ite_single]
  constructor
  · rintro (h1 | h1 | h1 | h1)
    · exact Or.inl (Or.inl h1)
    · exact Or.inr (Or.inl h1)
    · exact Or.inl (Or.inr h1)
    · exact Or.inr (Or.inr h1)
  · rintro ((h1 | h1) | (h1 | h1))
    · exact Or.inl h1
    · exact Or.inr (Or.inr (Or.inl h1))
    · exact Or.inr (Or.inl h1)
    · exact Or.inr (Or.inr (Or.inr h1))

theorem four_pairwise (c1 c2 c3 c4 : Prop) [Decidable c1] [Decidable c2] [Decidable c3] [Decidable c4]
    (k1 k2 : Actor) (w1 w2 : Option Rat) (hk : k1 ≠ k2) :
    ((if c1 then [LD.Op.rem k1] else []) ++ ((if c2 then [LD.Op.rem k2] else []) ++
      ((if c3 then [LD.Op.upd k1 w1] else []) ++ (if c4 then [LD.Op.upd k2 w2] else [])))).Pairwise
      (LD.Compat (α := Actor)) := by
  have hk' : k2 ≠ k1 := fun hc => hk hc.symm
  by_cases h1 : c1 <;> by_cases h2 : c2 <;> by_cases h3 : c3 <;> by_cases h4 : c4 <;>
    simp [h1, h2, h3, h4, LD.Compat, LD.Op.isRem, LD.Op.isUpd, LD.Op.key, hk, hk']

theorem B2_pairwise (st : Node → σ) (old new : σ) (m : Node) (tr : IndTr σ) (v : Node) (hvm : v ≠ m) :
    (B2 st old new m tr v).Pairwise LD.Compat := by
  unfold B2
  apply four_pairwise
  intro hc
  have hc' : v = m ∧ m = v := by simpa using hc
  exact hvm hc'.1

theorem updIndOne_spec (P : SCParams σ) (h : WF P) (st : Node → σ) (m : Node) (hm : m ∈ P.nodes) (new : σ)
    (tr : IndTr σ) (htr : tr ∈ P.ind) (ld : LD Actor) (hok : IndOK P (· ∈ P.nodes) st tr ld) :
    ∃ ld', updIndOne P (fset st m new) (st m) new m tr ld = some ld' ∧
      IndOK P (· ∈ P.nodes) (fset st m new) tr ld' := by
  have hst : ∀ v, v ∈ P.succ m → fset st m new v = st v :=
    fun v hv => Gillespie.fset_ne _ _ _ _ (succ_ne P h m v hv)
  have hst' : ∀ p, m ∈ P.succ p → fset st m new p = st p :=
    fun p hp => Gillespie.fset_ne _ _ _ _ (fun hc => succ_ne P h p m hp hc.symm)
  cases hd : P.directed with
  | true =>
    have e : updIndOne P (fset st m new) (st m) new m tr ld =
        ld.applyOps (succOps (fset st m new) (st m) new m tr (P.succ m) ++
          predOps (fset st m new) (st m) new m tr (P.pred m)) := by
      unfold updIndOne
      rw [if_pos hd, LD.applyOps_append, ← updIndSucc_eq]
      cases updIndSucc (fset st m new) (st m) new m tr (P.succ m) ld with
      | none => rfl
      | some ld1 => exact updIndPred_eq _ _ _ _ _ _ _
    rw [e]
    apply ind_batch_spec P h st m hm new tr htr ld hok
    · rw [List.pairwise_append]
      refine ⟨?_, ?_, ?_⟩
      · apply flatMap_pairwise _ (h.succ_nodup m hm)
        · intro v _; exact B1_pairwise _ _ _ _
        · intro v _ v' _ hne x hx y hy
          rw [key_of_mem_B1 _ _ _ _ x hx, key_of_mem_B1 _ _ _ _ y hy]
          simpa using hne
      · apply flatMap_pairwise _ (h.pred_nodup m hm)
        · intro v _; exact B1_pairwise _ _ _ _
        · intro v _ v' _ hne x hx y hy
          rw [key_of_mem_B1 _ _ _ _ x hx, key_of_mem_B1 _ _ _ _ y hy]
          simpa using hne
      · intro x hx y hy
        obtain ⟨v, hv, hx⟩ := List.mem_flatMap.1 hx
        obtain ⟨p, hp, hy⟩ := List.mem_flatMap.1 hy
        left
        rw [key_of_mem_B1 _ _ _ _ x hx, key_of_mem_B1 _ _ _ _ y hy]
        have : v ≠ m := succ_ne P h m v hv
        intro hc
        have hc' : m = p ∧ v = m := by simpa using hc
        exact this hc'.2
    · intro o
      rw [List.mem_append]
      unfold succOps predOps
      simp only [List.mem_flatMap]
      constructor
      · rintro (⟨v, hv, ho⟩ | ⟨p, hp, ho⟩)
        · rw [hst v hv] at ho
          exact Or.inl ⟨v, hv, ho⟩
        · have hp' := (h.pred_iff p m).1 hp
          rw [hst' p hp'] at ho
          exact Or.inr ⟨p, hp', ho⟩
      · rintro (⟨v, hv, ho⟩ | ⟨p, hp, ho⟩)
        · refine Or.inl ⟨v, hv, ?_⟩
          rw [hst v hv]; exact ho
        · refine Or.inr ⟨p, (h.pred_iff p m).2 hp, ?_⟩
          rw [hst' p hp]; exact ho
  | false =>
    have e : updIndOne P (fset st m new) (st m) new m tr ld =
        ld.applyOps (undirOps (fset st m new) (st m) new m tr (P.succ m)) := by
      unfold updIndOne
      rw [if_neg (by simp [hd]), updIndUndir_eq]
    rw [e]
    apply ind_batch_spec P h st m hm new tr htr ld hok
    · apply flatMap_pairwise _ (h.succ_nodup m hm)
      · intro v hv; exact B2_pairwise _ _ _ _ _ _ (succ_ne P h m v hv)
      · intro v hv v' hv' hne x hx y hy
        have hvm : v ≠ m := succ_ne P h m v hv
        have hvm' : v' ≠ m := succ_ne P h m v' hv'
        have hx' : x.key = [v, m] ∨ x.key = [m, v] := by
          rcases (mem_B2 _ _ _ _ _ _ _).1 hx with h1 | h1
          · exact Or.inl (key_of_mem_B1 _ _ _ _ x h1)
          · exact Or.inr (key_of_mem_B1 _ _ _ _ x h1)
        have hy' : y.key = [v', m] ∨ y.key = [m, v'] := by
          rcases (mem_B2 _ _ _ _ _ _ _).1 hy with h1 | h1
          · exact Or.inl (key_of_mem_B1 _ _ _ _ y h1)
          · exact Or.inr (key_of_mem_B1 _ _ _ _ y h1)
        rcases hx' with hx' | hx' <;> rcases hy' with hy' | hy' <;> rw [hx', hy'] <;> intro hc
        · have hc' : v = v' := by simpa using hc
          exact hne hc'
        · have hc' : v = m ∧ m = v' := by simpa using hc
          exact hvm hc'.1
        · have hc' : m = v' ∧ v = m := by simpa using hc
          exact hvm hc'.2
        · have hc' : v = v' := by simpa using hc
          exact hne hc'
    · intro o
      unfold undirOps
      simp only [List.mem_flatMap, mem_B2]
      constructor
      · rintro ⟨v, hv, ho | ho⟩
        · have hv' := h.undirected_symm hd m v hv
          rw [hst v hv] at ho
          exact Or.inr ⟨v, hv', ho⟩
        · rw [hst v hv] at ho
          exact Or.inl ⟨v, hv, ho⟩
      · rintro (⟨v, hv, ho⟩ | ⟨p, hp, ho⟩)
        · refine ⟨v, hv, Or.inr ?_⟩
          rw [hst v hv]; exact ho
        · refine ⟨p, h.undirected_symm hd p m hp, Or.inl ?_⟩
          rw [hst' p hp]; exact ho

end Simple
