import Driver
import EoNVerif.Gen.PercGen
import EoNVerif.Model.Perc
open Lean Drv

/-! JSON-lines driver for the code GENERATED from the percolation builders / estimators (Gen/PercGen.lean).
The networkx routines are instantiated with the reachability model `Model/Perc.lean`; the generator order of
`nx.strongly_connected_components` (which decides ties between equally large components) is passed in by the harness
when it matters (`sccs`, read off the real networkx on the same graph). -/
namespace DrvGenPerc
open PyDM PyPM GenPerc

def pred (H : DiG) (u : Node) : List Node := (H.edges.filter (fun e => e.1.2 == u)).map (·.1.1)

def mkNX (sccs? : Option (List (List Node))) : NX :=
  { descendants := fun H u =>
      if H.hasNode u then pure ((Perc.reachFrom H.nodeList H.succ [u]).filter (· != u)) else throw "NetworkXError",
    ancestors := fun H u =>
      if H.hasNode u then pure ((Perc.reachFrom H.nodeList (pred H) [u]).filter (· != u)) else throw "NetworkXError",
    sccs := fun H => match sccs? with
      | some l => l
      | none => (H.nodeList.foldl (fun (acc : List (List Node)) u =>
          if acc.any (·.contains u) then acc else acc ++ [Perc.scc H.nodeList H.succ u]) []),
    ccs := fun nodes edges =>
      let succ := fun u => (edges.filterMap fun e => if e.1 = u then some e.2 else if e.2 = u then some e.1 else none)
      nodes.foldl (fun (acc : List (List Node)) u =>
        if acc.any (·.contains u) then acc else acc ++ [Perc.reachFrom nodes succ [u]]) [],
    iter := fun s => s }

def getEdges (j : Json) : Except String (List (Node × Node)) :=
  getList (fun e => do match ← getArr e with
    | [a, b] => pure ((← getNat a), (← getNat b))
    | _ => .error "bad edge") j

def getContact (j : Json) : Except String Contact := do
  let adj ← getList (getList getNat) (← fld j "adj")
  let nodes ← match fldOpt j "nodes" with | some x => getList getNat x | none => pure (List.range adj.length)
  let edges ← match fldOpt j "edges" with | some x => getEdges x | none => pure []
  pure { nodes := nodes, nbrs := fun u => adj.getD u [], edges := edges }

def getSccs (j : Json) : Except String (Option (List (List Node))) :=
  match fldOpt j "sccs" with
  | some .null => pure none
  | some x => (getList (getList getNat) x).map some
  | none => pure none

def getSrc (j : Json) (k : String) : Except String (Option Src) :=
  match fldOpt j k with
  | some .null => pure none
  | none => pure none
  | some (Json.arr a) => do let l ← a.toList.mapM getNat; pure (some (Sum.inr l))
  | some x => do pure (some (Sum.inl (← getNat x)))

def jDiG (H : DiG) : Json :=
  Json.mkObj [("nodes", jArr (fun p => Json.arr #[jNat p.1, (match p.2 with | some d => jERat d | none => Json.null)]) H.nodes),
    ("edges", jArr (fun e => Json.arr #[jNat e.1.1, jNat e.1.2, (match e.2 with | some d => jERat d | none => Json.null)]) H.edges)]

def jPair (p : Rat × Rat) : Json := Json.arr #[jRat p.1, jRat p.2]

def finish {α : Type} (r : Except String ((α × PSt) × TapeSt)) (f : α → List (String × Json)) : Json :=
  match r with
  | .error e => errObj e
  | .ok ((a, ps), ts) =>
    Json.mkObj ([("ok", Json.bool true), ("calls", Json.arr (ps.calls.map (jArr jNat))), ("vals_left", jNat ps.vals.length),
      ("trace", Json.arr (ts.trace.map jCall)), ("unused", jNat ts.tape.length)] ++ f a)

def run (j : Json) : Except String Json := do
  let tape ← match fldOpt j "tape" with | some x => getList getDraw x | none => pure []
  let vals ← match fldOpt j "vals" with | some x => getList getERat x | none => pure []
  let X := mkNX (← getSccs j)
  let st : PSt := { vals := vals }
  let cb1 : Node → PM ERat := fun u => askVal [1, u]
  let cb2 : Node → Node → PM ERat := fun u v => askVal [0, u, v]
  match ← getStr (← fld j "op") with
  | "dirperc" =>
    let succ ← getList (getList getNat) (← fld j "succ")
    let nodes ← match fldOpt j "nodes" with | some x => getList getNat x | none => pure (List.range succ.length)
    let H : DiG := { nodes := nodes.map (fun u => (u, none)),
                     edges := (nodes.flatMap fun u => (succ.getD u []).map fun v => ((u, v), none)) }
    pure (finish ((estimate_from_dir_perc X H) st { tape := tape }) fun p => [("pair", jPair p)])
  | "timing" =>
    let C ← getContact j
    let weights ← getBool (← fld j "weights")
    pure (finish ((with_timing X C cb2 cb1 weights) st { tape := tape }) fun H => [("H", jDiG H)])
  | "timing_est" =>
    let C ← getContact j
    pure (finish ((estimate_with_timing X C cb2 cb1) st { tape := tape }) fun p => [("pair", jPair p)])
  | "xizeta" =>
    let C ← getContact j
    let xi ← getList getRat (← fld j "xi")
    let zeta ← getList getRat (← fld j "zeta")
    let thr ← getRat (← fld j "thr")
    let rule : Rat → Rat → Bool := fun x z => decide (x + z ≥ thr)
    if (← getBool (← fld j "estimate")) then
      pure (finish ((estimate_xi_zeta X C (fun u => xi.getD u 0) (fun u => zeta.getD u 0) rule) st { tape := tape }) fun p => [("pair", jPair p)])
    else
      pure (finish ((xi_zeta_network X C (fun u => xi.getD u 0) (fun u => zeta.getD u 0) rule) st { tape := tape }) fun H => [("H", jDiG H)])
  | "directed" =>
    let C ← getContact j
    let tau ← getRat (← fld j "tau")
    let gamma ← getRat (← fld j "gamma")
    if (← getBool (← fld j "estimate")) then
      pure (finish ((estimate_directed_SIR_prob_size X C tau gamma) st { tape := tape }) fun p => [("pair", jPair p)])
    else
      let weights ← getBool (← fld j "weights")
      pure (finish ((directed_percolate_network X C tau gamma weights) st { tape := tape }) fun H => [("H", jDiG H)])
  | "bond" =>
    let C ← getContact j
    let p ← getRat (← fld j "p")
    pure (finish ((estimate_SIR_prob_size X C p) st { tape := tape }) fun q => [("pair", jPair q)])
  | "infected" =>
    let C ← getContact j
    let tau ← getRat (← fld j "tau")
    let gamma ← getRat (← fld j "gamma")
    let infs ← getSrc j "infs"
    let recs ← getSrc j "recs"
    pure (finish ((get_infected_nodes X C tau gamma infs recs) st { tape := tape }) fun s => [("nodes", jArr jNat s)])
  | o => .error ("op " ++ o)

def handle (line : String) : String :=
  match Json.parse line with
  | .ok j => match run j with
    | .ok r => r.compress
    | .error e => (errObj ("driverperc:" ++ e)).compress
  | .error e => (errObj ("parse:" ++ e)).compress
end DrvGenPerc
