import EoNVerif.Props.C16
