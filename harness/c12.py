"""C12 — discrete-time simulators: generation-by-generation Reed–Frost dynamics.
* discrete_SIR under table rules (transmission + optional recovery): arrays vs the Lean model, `Discrete.isBFS`
  (Lean BFS) on the implementation's infection steps, recorded infector ∈ the set of successful infectious contacts.
* basic_discrete_SIR / basic_discrete_SIS: exact one-step law of the real code (symbolic-uniform enumeration) vs the
  Reed–Frost product law from the Lean spec (`infProb`); wrapper == discrete_SIR with the default rule on equal draws.
* percolate_network edge law; percolation_based_discrete_SIR == discrete_SIR on the captured percolated graph.
"""
import itertools
from fractions import Fraction as F
import networkx as nx
import common, allsims, gen, sims, symu, rng as rngmod
from common import rs, fr
from predchecks import strip


def dsir_req(c, G, idx, li, infs, recs, impl_inftime=None):
    rq = dict(op="dsir", n=c["n"], adj=gen.adj_lists(G, idx), tmin=c["tmin"], tmax=c["tmax"], infs=infs, recs=recs,
              contacts=[[li[u], li[v]] for u, v in c["contacts"]],
              sched=[[li[u], li[v], bs] for u, v, bs in c.get("sched") or []])
    if c.get("recsteps") is not None:
        r = [1] * c["n"]
        for i, k in enumerate(c["recsteps"]):
            r[li[i]] = k
        rq["recsteps"] = r
    if impl_inftime is not None:
        rq["impl_inftime"] = impl_inftime
    return rq


def generation_rule(c, full, G, idx):
    """the pathwise generation rule (Lean `Discrete.step_newInf`) read off the implementation's own node histories:
    a node susceptible at step t is infected at t+1 iff some neighbour that is infectious at step t makes a successful
    contact at that step (for a stateful rule: at its current ask)."""
    li = full["lab_index"]
    tmin = F(c["tmin"])
    tmax = None if c["tmax"] == "inf" else F(c["tmax"])
    n = c["n"]
    tI, tR = [None] * n, [None] * n
    for v, h in enumerate(full["history"]):
        for t, s in h:
            if s == "I" and tI[v] is None:
                tI[v] = F(t)
            if s == "R" and tR[v] is None:
                tR[v] = F(t)
    sched = {(li[u], li[v]): bs for u, v, bs in c.get("sched") or []}
    contacts = {(li[u], li[v]) for u, v in c["contacts"]}
    nodes = list(G)
    succ = {idx[u]: [idx[v] for v in (G.successors(u) if G.is_directed() else G.neighbors(u))] for u in nodes}

    def rule(a, u, v):
        if (u, v) in sched:
            bs = sched[(u, v)]
            return bs[min(a, len(bs) - 1)]
        return (u, v) in contacts
    last = max([F(t) for h in full["history"] for t, _ in h])
    bad = []
    t = tmin
    while t < last + 1 and (tmax is None or t + 1 <= tmax):
        inf = [u for u in range(n) if tI[u] is not None and tI[u] <= t and (tR[u] is None or tR[u] > t)]
        if not inf:
            break
        for v in range(n):
            if (tI[v] is not None and tI[v] <= t) or (tR[v] is not None and tR[v] <= t):
                continue            # not susceptible at step t
            want = any(v in succ[u] and rule(int(t - tI[u]), u, v) for u in inf)
            got = tI[v] == t + 1
            if want != got:
                bad.append("node %d at step %s: %s by an infectious neighbour, but %s at %s" %
                           (v, t, "successfully contacted" if want else "not successfully contacted",
                            "infected" if got else "not infected", t + 1))
        t += 1
    return bad


def deterministic(ctx, drv):
    reqs, metas = [], []
    for _ in range(ctx.scale(800, 5000)):
        c = allsims.gen_case(ctx.rng, "discrete_SIR")
        if c["init"]["kind"] not in ("list", "single"):
            c["init"] = dict(kind="list", nodes=[0])
        if c["tmax"] != "inf" and (F(c["tmax"]) - F(c["tmin"])).denominator != 1 and ctx.rng.random() < 0.7:
            c["tmax"] = str(F(c["tmin"]) + ctx.rng.choice([1, 2, 3, 6]))
        full, G, idx = allsims.run_impl(c, rng=ctx.rng, full=True)
        plain, _, _ = allsims.run_impl(c, rng=ctx.rng, full=False)
        rep = dict(entry="discrete_SIR", case=strip(c))
        if not (full["ok"] and plain["ok"]):
            ctx.case(rep, nontrivial=False)
            ctx.violation("discrete_SIR raised %s" % (full.get("err") or plain.get("err")), dict(rep, tb=full.get("tb") or plain.get("tb")))
            continue
        li = full["lab_index"]
        infs, recs = allsims.requested_init(c, full)
        # infection steps from the transmission list: contact at step t => 'I' at t+1
        inft = [[v, str(F(t) + 1)] for t, u, v in full["transmissions"] if u is not None]
        reqs.append(dsir_req(c, G, idx, li, infs, recs, inft))
        metas.append((rep, full, plain, c, G, idx))
        ctx.count("discrete_SIR:%s%s" % ("recovery-rule" if c["recsteps"] else "default-recovery", "+stateful-transmission" if c.get("sched") else ""))
    for (rep, full, plain, c, G, idx), m in zip(metas, drv.batch(reqs)):
        ctx.traces += 1
        ctx.case(rep, nontrivial=len(plain["times"]) > 1, sample=dict(rep, arrays=plain["times"][:5]))
        if not m.get("ok"):
            ctx.disagreement("dsir-driver", dict(rep, model=m))
            continue
        bad = generation_rule(c, full, G, idx)
        if bad:
            ctx.violation("discrete_SIR: " + bad[0], dict(rep, history=full["history"], problems=bad[:5]))
            continue
        # infection steps agree with the model's (for stateful rules this is the whole check; BFS distance is only
        # defined for stateless ones)
        if sorted([v, str(F(t))] for v, t in m["inftime"]) != sorted([v, str(F(t))] for v, t in
                                                                      ([v, F(t) + 1] for t, u, v in full["transmissions"] if u is not None)):
            ctx.disagreement("dsir-inftime", dict(rep, transmissions=full["transmissions"], model=m["inftime"]))
            continue
        if not c.get("sched") and m["isBFS"] is not True:
            ctx.violation("discrete_SIR infection steps are not tmin + BFS distance in the successful-contact digraph",
                          dict(rep, transmissions=full["transmissions"], bfs=m["bfs"]))
            continue
        # S+I+R conserved, one-step infectious period under the default rule (from histories, whole-step horizons)
        N = c["n"]
        if any(sum(col[i] for col in plain["cols"]) != N for i in range(len(plain["times"]))):
            ctx.violation("discrete_SIR: S+I+R != N", dict(rep, arrays=plain))
            continue
        if c["recsteps"] is None:
            for v, h in enumerate(full["history"]):
                ti = [F(t) for t, s in h if s == "I"]
                tr = [F(t) for t, s in h if s == "R" and F(t) > F(c["tmin"])]
                if ti and tr and tr[0] - ti[0] != 1:
                    ctx.violation("discrete_SIR: infectious period is not one step", dict(rep, node=v, history=h))
        # recorded infector must be one of the infectious neighbours whose contact succeeded at that step
        allowed = {(v, t): set(us) for v, t, us in m["infectors"]}
        for t, u, v in full["transmissions"]:
            if u is not None and u not in allowed.get((v, t), set()):
                ctx.violation("discrete_SIR: recorded infector is not an infectious neighbour with a successful contact",
                              dict(rep, entry_=[t, u, v], allowed=sorted(allowed.get((v, t), []))))
        if plain["times"] != m["times"] or plain["cols"] != [m["S"], m["I"], m["R"]]:
            ctx.disagreement("dsir-arrays", dict(rep, impl=plain, model=dict(times=m["times"], cols=[m["S"], m["I"], m["R"]])))


class LogRules(allsims.Rules):
    """the table rules of a case, logging every callback call with its arguments and its answer"""
    def __init__(self, case, lab, idx):
        super().__init__(case, lab, idx)
        self.asked, self.answers = [], []

    def test_transmission(self, u, v):
        b = bool(super().test_transmission(u, v))
        self.asked.append([0, self.idx[u], self.idx[v]])
        self.answers.append(b)
        return b

    def test_recovery(self, u):
        b = bool(super().test_recovery(u))
        self.asked.append([1, self.idx[u]])
        self.answers.append(b)
        return b


def generated_model(ctx):
    """the Lean code GENERATED from the source of discrete_SIR, basic_discrete_SIS, _simple_test_transmission_,
    percolate_network and the two forwarding wrappers (harness/pydisc2lean.py -> Gen/DiscreteGen.lean), run by its own
    driver on the same scripted draws / callback answers as the implementation; the iteration order of the Python sets
    is reproduced by a model of CPython's set table fed with the real hashes.  Compared: RNG-call trace, sequence of
    callback calls with arguments, arrays, transmission list, every node history."""
    import fcntl, subprocess, os, json, pydisc2lean
    lean = common.LEAN
    os.makedirs(os.path.join(lean, ".audit"), exist_ok=True)
    with open(os.path.join(lean, ".audit", "gengill.lock"), "w") as lock:
        fcntl.flock(lock, fcntl.LOCK_EX)
        try:
            _, errors = pydisc2lean.regenerate()
        except Exception as e:
            errors = {"translator": "crashed: %r" % e}
        if errors:
            ctx.disagreement("generated-discrete:translation", dict(entry="discrete_SIR", errors=errors))
            return
        p = common.lake(["build", "driverdisc"])
    if p.returncode != 0:
        ctx.disagreement("generated-discrete:build", dict(entry="discrete_SIR", log="\n".join(
            l for l in (p.stdout + p.stderr).splitlines() if "error" in l)[:1500]))
        return
    reqs, metas = [], []
    plan = [("discrete_SIR", ctx.scale(500, 3000)), ("basic_discrete_SIR", ctx.scale(300, 2000)),
            ("basic_discrete_SIS", ctx.scale(300, 2000)), ("percolation_based_discrete_SIR", ctx.scale(200, 1500))]
    for sim, count in plan:
        for k in range(count):
            c = allsims.gen_case(ctx.rng, sim)
            if c["init"]["kind"] not in ("list", "single"):
                c["init"] = dict(kind="list", nodes=sorted(ctx.rng.sample(range(c["n"]), ctx.rng.randint(1, min(3, c["n"])))))
            c["container"] = ctx.rng.choice(["list", "tuple"])
            c["prewarm"] = False
            r = ctx.rng.random()
            if r < 0.25:          # string labels: the set order then depends on this process's hash seed
                names = ["n%s%s" % (chr(97 + (7 * i) % 26), i) for i in range(c["n"])]
                ctx.rng.shuffle(names)
                c["labels"] = names
            elif r < 0.4:         # large / negative integer labels: collisions in the set table
                c["labels"] = ctx.rng.sample(range(-40, 200), c["n"])
            if sim == "basic_discrete_SIS" and c["tmax"] == "inf":
                c["tmax"] = str(F(c["tmin"]) + ctx.rng.choice([2, 5, F(7, 2)]))
            full = ctx.rng.random() < 0.6
            G, lab = sims.build_graph(c)
            idx = gen.index_of(G)
            tr = rngmod.TapeRandom(rng=ctx.rng, idx=idx)
            rules = LogRules(c, lab, idx)
            rep = dict(entry=sim, stream="generated-model", case=strip(c), full=full)
            out = {}
            try:
                res = allsims.call_sim(c, G, lab, tr, full, rules)
                if full:
                    out = allsims.dump_full(res, G, idx, c)
                    out["times"], out["cols"] = out["accessors"]["t"], None
                else:
                    out = dict(times=sims.arr(res[0]), cols=[sims.iarr(x) for x in res[1:]])
            except Exception as e:
                import traceback
                ctx.case(rep, nontrivial=False)
                ctx.violation("%s raised %s" % (sim, allsims.err_enum(e)), dict(rep, tb=traceback.format_exc()[-600:]))
                continue
            li = {i: idx[lab(i)] for i in range(c["n"])}
            infs = [li[i] for i in c["init"]["nodes"]] if c["init"]["kind"] == "list" else [li[c["init"]["node"]]]
            recs = [li[i] for i in c.get("recs", [])] if sim in allsims.HAS_RECS and c.get("recs") else None
            rq = dict(op="dsis" if sim == "basic_discrete_SIS" else "dsir", n=c["n"], adj=gen.adj_lists(G, idx),
                      hashes=[str(hash(u) % 2 ** 64) for u in G], tmin=c["tmin"], tmax=c["tmax"], full=full, infs=infs,
                      recs=recs, tape=tr.log, p=c.get("p", "0"))
            if sim == "discrete_SIR":
                rq.update(mode="cb", recrule=c["recsteps"] is not None, answers=rules.answers)
            elif sim == "basic_discrete_SIR":
                rq["mode"] = "basic"
            elif sim == "percolation_based_discrete_SIR":
                rq.update(mode="perc", edges=[[idx[u], idx[v]] for u, v in G.edges()])
            if c.get("labels"):
                rep["hashes"] = rq["hashes"]
            reqs.append(rq)
            metas.append((rep, out, rules, sims.enc_trace(tr.trace, idx), c, full))
            ctx.case(rep, nontrivial=len(out["times"]) > 1)
            ctx.count("generated-model:%s:%s" % (sim, "full" if full else "arrays"))
    exe = os.path.join(lean, ".lake", "build", "bin", "driverdisc")
    data = "\n".join(json.dumps(r, separators=(",", ":")) for r in reqs) + "\n"
    q = subprocess.run([exe], input=data, capture_output=True, text=True)
    lines = q.stdout.splitlines()
    if q.returncode != 0 or len(lines) != len(reqs):
        raise RuntimeError("driverdisc crashed: " + q.stderr[-1000:])
    for (rep, out, rules, trace, c, full), line in zip(metas, lines):
        g = json.loads(line)
        ctx.traces += 1
        if not g.get("ok"):
            ctx.disagreement("generated-discrete-error", dict(rep, generated=g))
            continue
        d = []
        if g["trace"] != trace:
            i = next((i for i in range(min(len(g["trace"]), len(trace))) if g["trace"][i] != trace[i]), -1)
            d.append("RNG trace at call %d: impl %s generated %s" % (i, trace[i] if 0 <= i < len(trace) else None,
                                                                   g["trace"][i] if 0 <= i < len(g["trace"]) else None))
        if g["unused"]:
            d.append("%d draws not consumed" % g["unused"])
        if rep["entry"] == "discrete_SIR" and (g["calls"] != rules.asked or g["answers_left"]):
            d.append("callback calls")
        cols = [g["S"], g["I"]] + ([g["R"]] if "R" in g else [])
        if not full and g["t"] != out["times"]:
            d.append("times")
        if full:
            # the full-data object reports no row after tmax (the loop does compute one): arrays are compared in the
            # plain runs, here the transmission list and the node histories
            if out.get("transmissions") != g["trans"]:
                d.append("transmissions")
            hist = {h[0]: [[t, s_] for t, s_ in zip(h[1], h[2])] for h in g["history"]}
            if [hist.get(i, [[str(F(c["tmin"])), "S"]]) for i in range(c["n"])] != out.get("history"):
                d.append("node histories")
        elif out["cols"] != cols:
            d.append("count columns")
        if d:
            ctx.disagreement("generated-discrete-tape:" + ";".join(d)[:300], dict(rep, diffs=d, generated={k: g[k] for k in ("t", "S", "I")},
                                                                                 impl=dict(times=out["times"], cols=out.get("cols"))))


def law_cases(ctx, nmax, sis):
    ps = [F(1, 4), F(1, 2), F(3, 4), F(1), F(0)]
    for n in range(1, nmax + 1):
        for G in gen.all_graphs(n):
            for code in itertools.product("SIR" if not sis else "SI", repeat=n):
                if "I" not in code:
                    continue
                yield G, code, ctx.rng.choice(ps)
    # directed contact graphs (a contact u -> v exists iff v is a successor of u): every digraph on up to 3 nodes,
    # every state, so also the states in which most nodes are infectious
    for n in range(2, min(nmax, 3) + 1):
        arcs = [(u, v) for u in range(n) for v in range(n) if u != v]
        for mask in range(1, 2 ** len(arcs)):
            D = nx.DiGraph()
            D.add_nodes_from(range(n))
            D.add_edges_from(a for i, a in enumerate(arcs) if mask >> i & 1)
            for code in itertools.product("SIR" if not sis else "SI", repeat=n):
                if "I" not in code or "S" not in code:
                    continue
                yield D, code, ctx.rng.choice(ps)


def one_step_law(ctx, drv, sis, nmax, limit):
    import EoN, EoN.simulation as sim
    name = "basic_discrete_SIS" if sis else "basic_discrete_SIR"
    cases = list(law_cases(ctx, nmax, sis))
    if len(cases) > limit:
        cases = ctx.rng.sample(cases, limit)
    reqs, metas = [], []
    for G, code, p in cases:
        n = G.order()
        infs = [i for i in range(n) if code[i] == "I"]
        recs = [i for i in range(n) if code[i] == "R"]

        def fn(ex):
            old = sim.random
            sim.random = symu.SymRandom(ex)
            try:
                if sis:
                    r = EoN.basic_discrete_SIS(G, float(p), initial_infecteds=infs, tmin=0, tmax=1, return_full_data=True)
                else:
                    r = EoN.basic_discrete_SIR(G, float(p), initial_infecteds=infs, initial_recovereds=recs, tmin=0, tmax=1,
                                               return_full_data=True)
                st = r.get_statuses(time=1)
                return "".join(st[i] for i in range(n))
            finally:
                sim.random = old
        rep = dict(entry=name, stream="one-step-law", n=n, edges=[list(e) for e in G.edges()], state="".join(code), p=str(p))
        try:
            agg = symu.Explorer(40, maxleaves=100000).run(fn)
        except symu.Budget:
            ctx.count("law:enumeration-budget-exceeded")
            ctx.case(rep, nontrivial=False)
            continue
        except Exception as e:
            ctx.violation("%s raised %s during one-step law enumeration" % (name, type(e).__name__), dict(rep, error=type(e).__name__))
            continue
        reqs.append(dict(op="reedfrost", n=n, adj=[list(G.neighbors(u)) for u in range(n)], inf=infs, p=str(p)))
        # the model's own sequential-draw program (ReedFrost.stepDist, the object of the joint_law theorems)
        reqs.append(dict(op="reedfrostJoint", adj=[list(G.neighbors(u)) for u in range(n)], inf=infs,
                         sus=[code[i] == "S" for i in range(n)], p=str(p), redraw=True))
        metas.append((rep, agg, code))
    outs = drv.batch(reqs)
    for (rep, agg, code), m, mj in zip(metas, outs[0::2], outs[1::2]):
        ctx.count("%s:law-states" % rep["entry"])
        n = rep["n"]
        # (i) the real code's exact one-step law vs the law of the Lean program
        specj = {}
        for new, mass in mj["dist"]:
            st = list(code)
            for i in range(n):
                if code[i] == "I":
                    st[i] = "S" if rep["entry"].endswith("SIS") else "R"
            for v in new:
                st[v] = "I"
            if F(mass) > 0:
                specj["".join(st)] = specj.get("".join(st), F(0)) + F(mass)
        badj = symu.interval_ok(agg, specj)
        if badj:
            ctx.violation("%s: one-step transition law differs from the law of the sequential-draw model (ReedFrost.stepDist)" % rep["entry"],
                          dict(rep, law=[[k, str(a), str(b)] for k, a, b, _ in badj[:6]]))
            continue
        probs = [F(x) for x in m["prob"]]
        spec = {}
        sus = [i for i in range(n) if code[i] == "S"]
        for pick in itertools.product([0, 1], repeat=len(sus)):
            st = list(code)
            pr = F(1)
            for i in range(n):
                if code[i] == "I":
                    st[i] = "S" if rep["entry"].endswith("SIS") else "R"
            for b, v in zip(pick, sus):
                pr *= probs[v] if b else 1 - probs[v]
                if b:
                    st[v] = "I"
            if pr > 0:
                spec["".join(st)] = spec.get("".join(st), F(0)) + pr
        ctx.case(rep, nontrivial=len(spec) > 1)
        bad = symu.interval_ok(agg, spec)
        if bad:
            ctx.violation("%s: one-step transition law differs from the Reed-Frost product law" % rep["entry"],
                          dict(rep, law=[[k, str(a), str(b)] for k, a, b, _ in bad[:6]]))


def wrappers(ctx, drv):
    """basic_discrete_SIR == discrete_SIR with the default rule on the same draws; percolation_based == discrete_SIR on H"""
    import EoN, EoN.simulation as sim
    for _ in range(ctx.scale(250, 2000)):
        c = allsims.gen_case(ctx.rng, "basic_discrete_SIR")
        if c["init"]["kind"] not in ("list", "single"):
            c["init"] = dict(kind="list", nodes=[0])
        c["positional"] = False
        out, G, idx = allsims.run_impl(c, rng=ctx.rng, full=False)
        rep = dict(entry="basic_discrete_SIR", stream="wrapper", case=strip(c), tape=out["tape"])
        ctx.case(rep, nontrivial=out["ok"] and len(out.get("times", [])) > 1)
        ctx.count("wrapper:basic")
        if not out["ok"]:
            ctx.violation("basic_discrete_SIR raised %s" % out["err"], dict(rep, tb=out.get("tb")))
            continue
        G2, lab = sims.build_graph(c)
        tr = rngmod.TapeRandom(tape=out["tape"], idx=idx)
        kw = dict(tmin=allsims.fl(c["tmin"]), tmax=allsims.fl(c["tmax"]))
        ii = [lab(i) for i in c["init"]["nodes"]] if c["init"]["kind"] == "list" else lab(c["init"]["node"])
        if c["init"]["kind"] == "list":
            ii = sims._container(c.get("container", "list"), ii)
        try:
            with rngmod.scripted(tr):
                ref = EoN.discrete_SIR(G2, args=(float(F(c["p"])),), initial_infecteds=ii,
                                       initial_recovereds=[lab(i) for i in c["recs"]] or None, **kw)
            refo = dict(times=sims.arr(ref[0]), cols=[sims.iarr(x) for x in ref[1:]])
        except Exception as e:
            refo = dict(err=type(e).__name__)
        if refo != dict(times=out["times"], cols=out["cols"]):
            ctx.violation("basic_discrete_SIR(G,p,...) does not start/run the same epidemic as discrete_SIR with the default rule on the same draws",
                          dict(rep, wrapper=dict(times=out["times"], cols=out["cols"]), direct=refo))
    reqs, metas = [], []
    for _ in range(ctx.scale(250, 2000)):
        c = allsims.gen_case(ctx.rng, "percolation_based_discrete_SIR")
        if c["init"]["kind"] not in ("list", "single"):
            c["init"] = dict(kind="list", nodes=[0])
        captured = {}
        orig = sim.percolate_network

        def wrap(G_, p_):
            H = orig(G_, p_)
            captured["H"] = H
            return H
        sim.percolate_network = wrap
        try:
            out, G, idx = allsims.run_impl(c, rng=ctx.rng, full=False)
        finally:
            sim.percolate_network = orig
        rep = dict(entry="percolation_based_discrete_SIR", case=strip(c), tape=out["tape"])
        ctx.count("wrapper:percolation")
        if not out["ok"]:
            ctx.case(rep, nontrivial=False)
            ctx.violation("percolation_based_discrete_SIR raised %s" % out["err"], dict(rep, tb=out.get("tb")))
            continue
        H = captured["H"]
        # percolate_network: same node set, kept edges are exactly those whose draw was < p (draws in G.edges() order)
        p = F(c["p"])
        draws = [F(d[1]) for d in out["tape"] if d[0] == "u"]
        kept = [e for e, r in zip(G.edges(), draws) if r < p]
        if set(H.nodes()) != set(G.nodes()) or sorted(map(sorted, H.edges())) != sorted(map(sorted, kept)) or len(draws) != G.number_of_edges():
            ctx.violation("percolate_network: node set / kept edges differ from one Bernoulli(p) draw per edge", dict(rep, kept=[list(map(str, e)) for e in H.edges()]))
            continue
        li = out["lab_index"]
        infs, recs = allsims.requested_init(c, out)
        c2 = dict(c, contacts=[])
        inv = {v: k for k, v in li.items()}
        c2["contacts"] = [[inv[idx[u]], inv[idx[v]]] for u, v in H.edges()] + [[inv[idx[v]], inv[idx[u]]] for u, v in H.edges()]
        reqs.append(dsir_req(c2, G, idx, li, infs, recs))
        metas.append((rep, out))
    for (rep, out), m in zip(metas, drv.batch(reqs)):
        ctx.traces += 1
        ctx.case(rep, nontrivial=len(out["times"]) > 1)
        if not m.get("ok"):
            ctx.disagreement("dsir-driver", dict(rep, model=m))
        elif out["times"] != m["times"] or out["cols"] != [m["S"], m["I"], m["R"]]:
            ctx.violation("percolation_based_discrete_SIR is not discrete_SIR on the percolated graph",
                          dict(rep, impl=dict(times=out["times"], cols=out["cols"]), spec=dict(times=m["times"], cols=[m["S"], m["I"], m["R"]])))


def percolate_law(ctx):
    import EoN, EoN.simulation as sim
    for _ in range(ctx.scale(20, 200)):
        G = gen.random_graph(ctx.rng, 1, 5)
        if G.number_of_edges() > 6:
            continue
        p = ctx.rng.choice([F(1, 4), F(1, 2), F(3, 4), F(1), F(0)])
        edges = [tuple(sorted(e)) for e in G.edges()]

        def fn(ex):
            old = sim.random
            sim.random = symu.SymRandom(ex)
            try:
                H = EoN.percolate_network(G, float(p))
                if set(H.nodes()) != set(G.nodes()):
                    return "NODES"
                return tuple(sorted(tuple(sorted(e)) for e in H.edges()))
            finally:
                sim.random = old
        agg = symu.Explorer(30).run(fn)
        spec = {}
        for pick in itertools.product([0, 1], repeat=len(edges)):
            pr = F(1)
            for b in pick:
                pr *= p if b else 1 - p
            if pr > 0:
                spec[tuple(sorted(e for b, e in zip(pick, edges) if b))] = pr
        rep = dict(entry="percolate_network", n=G.order(), edges=[list(e) for e in edges], p=str(p))
        ctx.case(rep, nontrivial=len(edges) > 0)
        ctx.count("percolate_network:law")
        if symu.interval_ok(agg, spec):
            ctx.violation("percolate_network: edges are not kept independently with probability p", rep)


def run(ctx):
    drv = common.LeanDriver()
    deterministic(ctx, drv)
    one_step_law(ctx, drv, False, ctx.scale(3, 4), ctx.scale(120, 3000))
    one_step_law(ctx, drv, True, ctx.scale(3, 4), ctx.scale(120, 3000))
    wrappers(ctx, drv)
    percolate_law(ctx)
    large_networks(ctx)
    generated_model(ctx)


def large_networks(ctx):
    """networks with thousands of edges and a small transmission probability — where a size-triggered code path (bulk
    sampling, skip-ahead) would switch on.  Real seeded generators; only events of probability < 1e-30 under the stated law
    are reported, so no statistics are involved: over R runs of `percolate_network(G, p)` every edge of G must be kept at
    least once ((1-p)^R < 1e-30) and dropped at least once (p^R < 1e-30), the kept graph is a spanning subgraph, and in the
    percolation-based and the direct discrete SIR on a long path from its end node the epidemic must leave the end node in
    at least one of R runs."""
    import random, math
    import networkx as nx, numpy as np, EoN
    for k in range(ctx.scale(2, 6)):
        r = ctx.rng
        p = r.choice([0.1, 0.2])
        R = int(math.ceil(70.0 / -math.log10(1 - p) / 2.0))          # (1-p)^R <= 1e-35
        kind = ["gnm", "path"][k % 2]
        seed = r.randrange(10 ** 6)
        G = nx.gnm_random_graph(3000, 6000, seed=seed) if kind == "gnm" else nx.path_graph(5400)
        rep = dict(entry="percolate_network", stream="large-networks", kind=kind, edges=G.number_of_edges(), p=p, runs=R, seed=seed)
        ctx.case(rep, nontrivial=True)
        ctx.count("large-networks:" + kind)
        random.seed(seed); np.random.seed(seed)
        kept = {}
        bad = None
        for _ in range(R):
            H = EoN.percolate_network(G, p)
            if set(H) != set(G) or any(not G.has_edge(u, v) for u, v in H.edges()):
                bad = "the percolated network is not a spanning subgraph of G"
                break
            for u, v in H.edges():
                e = (u, v) if u <= v else (v, u)
                kept[e] = kept.get(e, 0) + 1
        if bad is None:
            never = [e for e in ((min(u, v), max(u, v)) for u, v in G.edges()) if e not in kept]
            always = [e for e, c in kept.items() if c == R]
            if never:
                bad = "%d edge(s) never kept in %d runs with p=%s (probability (1-p)^R < 1e-30 each), e.g. %s" % (len(never), R, p, never[:3])
            elif always and p ** R < 1e-30:
                bad = "%d edge(s) kept in every one of %d runs with p=%s, e.g. %s" % (len(always), R, p, always[:3])
        if bad:
            ctx.violation("percolate_network on a large network: " + bad, rep)
        if kind == "path":
            for sim in ("percolation_based_discrete_SIR", "basic_discrete_SIR"):
                sizes = []
                for _ in range(R):
                    t, S, I, Rr = getattr(EoN, sim)(G, p, initial_infecteds=0)
                    sizes.append(int(Rr[-1]))
                ctx.count("large-networks:" + sim)
                if max(sizes) == 1:
                    ctx.violation("%s on a path of %d nodes from its end node with p=%s: the neighbour was never infected in %d runs "
                                  "(probability (1-p)^R < 1e-30 under the Reed-Frost law)" % (sim, G.order(), p, R), dict(rep, entry=sim))
