import EoNVerif.Gen.PyHelp
/-!
Runtime of the code generated from the `*_from_graph` wrappers of EoN/analytic.py (`harness/pywrap2lean.py` →
`Gen/WrapGen.lean`).  A Python int is `Int`, a float an exact `Rat`, a flat NumPy array a `List Rat`, a 2-d array a list
of rows, `Counter(...)` a `List (Nat × Nat)`, a dict of floats keyed by degree a `List (Nat × Rat)`; a raised exception
is `throw "<ExceptionName>"`.
-/
namespace PyWrap

/-- a value passed to a base function (what the driver prints) -/
inductive Val
  | rat (x : Rat)
  | int (i : Int)
  | bool (b : Bool)
  | nil
  | vec (l : List Rat)
  | mat (m : List (List Rat))
  | dict (d : List (Nat × Rat))
  | ddict (d : List (Nat × List (Nat × Rat)))
  | fn (f : Rat → Except String Rat)

def Val.orat (o : Option Rat) : Val := match o with | some x => .rat x | none => .nil
def Val.ovec (o : Option (List Rat)) : Val := match o with | some x => .vec x | none => .nil

/-- the keyword arguments a wrapper may take (every wrapper reads the subset it declares) -/
structure Params where
  tau : Rat := 0
  gamma : Rat := 0
  p : Rat := 0
  initial_infecteds : Option (List Node) := none
  initial_recovereds : Option (List Node) := none
  rho : Option Rat := none
  tmin : Rat := 0
  tmax : Rat := 0
  tcount : Int := 0
  number_its : Int := 0
  return_full_data : Bool := false

/-- arithmetic on a value that may be `None` -/
def num (o : Option Rat) : Except String Rat :=
  match o with | some x => pure x | none => throw "TypeError"

/-- `len(x)` where `x` may be `None`; the list is counted as given (duplicates included) -/
def lenOpt {α : Type} (o : Option (List α)) : Except String Int :=
  match o with | some l => pure (l.length : Int) | none => throw "TypeError"

/-- an argument that must be iterable (`set(None)` raises TypeError) -/
def iter {α : Type} (o : Option (List α)) : Except String (List α) :=
  match o with | some l => pure l | none => throw "TypeError"

/-- `x ** e` for a float `x` and an int `e`: `0.0 ** negative` raises ZeroDivisionError -/
def powI (x : Rat) (e : Int) : Except String Rat :=
  if e ≥ 0 then pure (x ^ e.toNat)
  else if x = 0 then throw "ZeroDivisionError" else pure ((1 / x) ^ (-e).toNat)

/-- `range(n)` -/
def range (n : Int) : List Int := (List.range n.toNat).map (fun (i : Nat) => (i : Int))

/-- `range(a, b)` -/
def range2 (a b : Int) : List Int := (List.range (b - a).toNat).map (fun (i : Nat) => a + (i : Int))

/-- `np.zeros(n)` -/
def zeros (n : Int) : Except String (List Rat) :=
  if n < 0 then throw "ValueError" else pure (List.replicate n.toNat 0)

/-- `np.zeros((n, m))` -/
def zeros2 (n m : Int) : Except String (List (List Rat)) :=
  if n < 0 ∨ m < 0 then throw "ValueError" else pure (List.replicate n.toNat (List.replicate m.toNat 0))

/-- index normalisation of a sequence of length `len`: negative indices count from the end -/
def idx (len : Nat) (i : Int) : Except String Nat :=
  let j : Int := if i < 0 then i + (len : Int) else i
  if j < 0 ∨ j ≥ (len : Int) then throw "IndexError" else pure j.toNat

/-- `v[i]` -/
def vecGet (v : List Rat) (i : Int) : Except String Rat := do
  let j ← idx v.length i
  pure (v.getD j 0)

/-- `v[i] = c` -/
def vecSet (v : List Rat) (i : Int) (c : Rat) : Except String (List Rat) := do
  let j ← idx v.length i
  pure (v.set j c)

/-- `v[i] += c` -/
def vecAdd (v : List Rat) (i : Int) (c : Rat) : Except String (List Rat) := do
  let j ← idx v.length i
  pure (v.set j (v.getD j 0 + c))

/-- `m[i][j]` / `m[i, j]` -/
def matGet (m : List (List Rat)) (i j : Int) : Except String Rat := do
  let a ← idx m.length i
  vecGet (m.getD a []) j

/-- `m[i][j] = c` / `m[i, j] = c` -/
def matSet (m : List (List Rat)) (i j : Int) (c : Rat) : Except String (List (List Rat)) := do
  let a ← idx m.length i
  let row ← vecSet (m.getD a []) j c
  pure (m.set a row)

/-- `m[i][j] += c` -/
def matAdd (m : List (List Rat)) (i j : Int) (c : Rat) : Except String (List (List Rat)) := do
  let a ← idx m.length i
  let row ← vecAdd (m.getD a []) j c
  pure (m.set a row)

/-- `d[k]` on a plain dict keyed by degree -/
def dictGet (d : List (Nat × Rat)) (k : Int) : Except String Rat :=
  if k < 0 then throw "KeyError" else PyRT.dictGet d k.toNat

/-- `d.get(k, dflt)` where the key is a number (an element of a NumPy array): equal numbers are the same key -/
def dictGetD (d : List (Nat × Rat)) (k : Rat) (dflt : Rat) : Rat :=
  match d.find? (fun kv => decide (((kv.1 : Nat) : Rat) = k)) with
  | some kv => kv.2
  | none => dflt

/-- `c[k]` on a `Counter`: a missing key counts 0 -/
def counterGet (c : List (Nat × Nat)) (k : Int) : Int :=
  if k < 0 then 0 else ((alGet c 0 k.toNat : Nat) : Int)

/-- `max(d.keys())` -/
def maxKey {ν : Type} (d : List (Nat × ν)) : Except String Int := do
  let m ← PyHelp.maxKey d
  pure (m : Int)

/-- `max(values)` of a list of degrees -/
def maxNat (l : List Nat) : Except String Int :=
  match l with
  | [] => throw "ValueError"
  | x :: xs => pure ((xs.foldl max x : Nat) : Int)

/-- `np.dot(a, b)` for flat arrays (ValueError: shapes not aligned) -/
def dot (a b : List Rat) : Except String Rat :=
  if a.length ≠ b.length then throw "ValueError" else pure (sumRat (List.zipWith (· * ·) a b))

/-- elementwise `a * b` for flat arrays of equal length -/
def vmul (a b : List Rat) : Except String (List Rat) :=
  if a.length ≠ b.length then throw "ValueError" else pure (List.zipWith (· * ·) a b)

/-- `c * v` -/
def smul (c : Rat) (v : List Rat) : List Rat := v.map (fun x => c * x)

/-- `scipy.special.binom(n, k)` for integers `0 ≤ k ≤ n` (exact while the floats are) -/
def binom : Nat → Nat → Nat
  | _, 0 => 1
  | 0, _ + 1 => 0
  | n + 1, k + 1 => binom n k + binom n (k + 1)

def binomI (n k : Int) : Except String Rat :=
  if n < 0 ∨ k < 0 then throw "Unmodelled" else pure ((binom n.toNat k.toNat : Nat) : Rat)

/-- an array indexed by degree read as a dict (what `Sk0[k] for k in Pk` sees) -/
def vecToDict (v : List Rat) : List (Nat × Rat) := (List.range v.length).zip v

/-- a closure handed to the ODE solver: inside `odeint` an exception of the closure aborts the integration; the
composed functions use the value 0 there -/
def total (f : Rat → Except String Rat) : Rat → Rat := fun x =>
  match f x with | .ok v => v | .error _ => 0

end PyWrap
