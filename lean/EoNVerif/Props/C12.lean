import EoNVerif.Proofs.Discrete
/-!
C12 — properties of the discrete-time simulators (`discrete_SIR`, `basic_discrete_*`, `percolate_network`).
Helper lemmas and the well-formedness predicate `Discrete.WF` live in `EoNVerif.Proofs.Discrete`.
-/
namespace Discrete

/-- **pathwise generation rule**: for every outcome table of the contacts, the next generation is exactly the set of
susceptible nodes with at least one successful contact from a currently infectious neighbour -/
theorem step_newInf (P : DParams) (s : DState) (v : Node) (hv : v ∈ P.nodes) (hnot : v ∉ s.inf) :
    v ∈ (step P s).inf ↔ (s.sus v = true ∧ ∃ u ∈ s.inf, v ∈ P.nbrs u ∧ P.rule u v = true) :=
  step_newInf' P s v hv hnot

/-- default recovery rule: every infectious node is infectious for exactly one step -/
theorem one_step_infectious (P : DParams) (h : P.recSteps = none) (s : DState)
    (hs : ∀ u ∈ s.inf, s.sus u = false) (u : Node) (hu : u ∈ s.inf) : u ∉ (step P s).inf :=
  one_step_infectious' P h s hs u hu

/-- **conservation**: every row has S + I + R = N -/
theorem conserve (P : DParams) (infs recs : List Node) (h : WF P infs recs) (fuel : Nat) :
    let s := run P infs recs fuel
    ∀ i, i < s.t.length → s.S.getD i 0 + s.I.getD i 0 + s.R.getD i 0 = (P.nodes.length : Int) :=
  (consInv_run P infs recs h fuel).rows

/-- rows are equally long and times advance by exactly one step from `tmin` -/
theorem rows_shape (P : DParams) (infs recs : List Node) (fuel : Nat) :
    let s := run P infs recs fuel
    s.S.length = s.t.length ∧ s.I.length = s.t.length ∧ s.R.length = s.t.length ∧
    ∀ i, i < s.t.length → s.t.reverse.getD i 0 = P.tmin + (i : Rat) :=
  rows_shape' P infs recs fuel

/-- **BFS**: when the loop has stopped (no infecteds left or horizon reached), a node is infected exactly at
`tmin +` its breadth-first distance from the initial set in the digraph of successful contacts (initially recovered
nodes removed), if that step was simulated; holds for the default rule and for every recovery rule -/
theorem bfs_correct (P : DParams) (infs recs : List Node) (h : WF P infs recs) (fuel : Nat)
    (hstop : let s := run P infs recs fuel
             s.inf.isEmpty = true ∨ ERat.lt (some (s.t.headD P.tmin)) P.tmax = false) :
    isBFS P infs recs (run P infs recs fuel).infTime = true :=
  bfs_correct' P infs recs h fuel hstop

/-- the iteration order of the infectious set does not matter -/
theorem step_perm (P : DParams) (s s' : DState) (hp : s.inf.Perm s'.inf)
    (hsus : s.sus = s'.sus) (hage : s.age = s'.age) (ht : s.t = s'.t) (hn : s.nS = s'.nS) (hr : s.totR = s'.totR) :
    (step P s).inf = (step P s').inf ∧ (step P s).nS = (step P s').nS ∧ (step P s).totR = (step P s').totR ∧
    (step P s).infTime.drop s.infTime.length = (step P s').infTime.drop s'.infTime.length :=
  step_perm' P s s' hp hsus hage ht hn hr

/-- **per-node marginal of the basic simulators**: with `k` infectious neighbours, each contact an independent
Bernoulli(p), a susceptible node is infected with probability `1 - (1-p)^k` -/
theorem basic_marginal (p : Rat) (k : Nat) :
    Dist.mass (anyContact p k) (fun b => b) = infProb p k :=
  basic_marginal' p k

/-- **percolate_network**: a given set of kept edges (as the sublist selected by `keep`) has probability
`p^|A| (1-p)^(m-|A|)` -/
theorem percolate_edge_law {ε : Type} [DecidableEq ε] (p : Rat) (edges : List ε) (hn : edges.Nodup) (keep : ε → Bool) :
    Dist.mass (percolateDist p edges) (fun kept => kept == edges.filter keep) =
      p ^ (edges.filter keep).length * (1 - p) ^ (edges.length - (edges.filter keep).length) :=
  percolate_edge_law' p edges hn keep

/-- the percolated graph only ever contains edges of the original one -/
theorem percolate_support {ε : Type} [DecidableEq ε] (p : Rat) (edges : List ε) (kept : List ε)
    (hk : ∃ q, (kept, q) ∈ percolateDist p edges) : kept.Sublist edges :=
  percolate_support' p edges kept hk

end Discrete

/-! non-vacuity: path 0-1-2-3 with one failed contact -/
def exDn (u : Node) : List Node := match u with | 0 => [1] | 1 => [0, 2] | 2 => [1, 3] | 3 => [2] | _ => []
def exD : DParams :=
  { nodes := [0, 1, 2, 3], nbrs := exDn, rule := fun u v => !(u == 2 && v == 3), recSteps := none, tmin := 0, tmax := none }
example : (Discrete.run exD [0] [] 10).infTime = [(1, 1), (2, 2)] := by decide +kernel
example : Discrete.isBFS exD [0] [] (Discrete.run exD [0] [] 10).infTime = true := by decide +kernel
