import EoNVerif.Model.Gillespie
import EoNVerif.Model.GillespieLaw
import EoNVerif.Spec.Chain
import EoNVerif.Proofs.ListDict
/-!
C01 / C02 — target statements for the model of `Gillespie_SIR` / `Gillespie_SIS`
(`P.sis` selects the variant; every theorem is for both).
-/
namespace Gillespie

/-- well-formed undirected simple contact network with non-negative symmetric weights -/
structure WF (P : GParams) : Prop where
  nodup : P.nodes.Nodup
  nbr_nodup : ∀ u ∈ P.nodes, (P.nbrs u).Nodup
  nbr_mem : ∀ u ∈ P.nodes, ∀ v ∈ P.nbrs u, v ∈ P.nodes
  nbr_out : ∀ u, u ∉ P.nodes → P.nbrs u = []
  symm : ∀ u v, v ∈ P.nbrs u → u ∈ P.nbrs v
  noloop : ∀ u, u ∉ P.nbrs u
  ew_nonneg : ∀ f, P.ew = some f → ∀ u v, 0 ≤ f u v
  ew_symm : ∀ f, P.ew = some f → ∀ u v, f u v = f v u
  nw_nonneg : ∀ f, P.nw = some f → ∀ u, 0 ≤ f u
  tau_nonneg : 0 ≤ P.tau
  gamma_nonneg : 0 ≤ P.gamma

/-- The bookkeeping invariant: the two candidate structures equal the sets implied by the statuses. -/
structure Inv (P : GParams) (s : GState) : Prop where
  infInv : LD.Inv s.inf
  linkInv : LD.Inv s.links
  infW : s.inf.weighted = P.nw.isSome
  linkW : s.links.weighted = P.ew.isSome
  inf_items : ∀ u, u ∈ s.inf.items ↔ (u ∈ P.nodes ∧ s.status u = St.I)
  link_items : ∀ u v, (u, v) ∈ s.links.items ↔ (u ∈ P.nodes ∧ s.status u = St.I ∧ v ∈ P.nbrs u ∧ s.status v = St.S)
  inf_w : ∀ f, P.nw = some f → ∀ u ∈ s.inf.items, s.inf.getW u = f u
  link_w : ∀ f, P.ew = some f → ∀ p ∈ s.links.items, s.links.getW p = f p.1 p.2
  sis_noR : P.sis = true → ∀ u, s.status u ≠ St.R

/-- the initial state is built without KeyError and satisfies the invariant -/
theorem init_inv (P : GParams) (h : WF P) (infs recs : List Node) (tmin : Rat)
    (hi : infs.Nodup) (him : ∀ u ∈ infs, u ∈ P.nodes) (hr : ∀ u ∈ recs, u ∈ P.nodes)
    (hd : ∀ u ∈ infs, u ∉ recs) (hsis : P.sis = true → recs = []) :
    ∃ s, init P infs recs tmin = some s ∧ Inv P s ∧ s.status = initStatus infs recs := sorry

/-- recovery of an enabled node: no KeyError, invariant preserved, status changes as in the chain -/
theorem applyRec_inv (P : GParams) (h : WF P) (s : GState) (hs : Inv P s) (u : Node) (t : Rat)
    (hu : u ∈ s.inf.items) :
    ∃ s', applyRec P s u t = some s' ∧ Inv P s' ∧ s'.status = Chain.apply P s.status (.recover u) := sorry

/-- transmission along an enabled I–S link -/
theorem applyTrans_inv (P : GParams) (h : WF P) (s : GState) (hs : Inv P s) (u v : Node) (t : Rat)
    (huv : (u, v) ∈ s.links.items) :
    ∃ s', applyTrans P s u v t = some s' ∧ Inv P s' ∧ s'.status = Chain.apply P s.status (.transmit u v) := sorry

/-- the selection step only ever returns enabled events, for every tape -/
theorem pick_enabled (P : GParams) (s : GState) (fuel : Nat) (ts ts' : TapeSt) (e : GEvent)
    (hp : pick P s fuel ts = .ok (e, ts')) :
    match e with
    | .recover u => u ∈ s.inf.items
    | .transmit u v => (u, v) ∈ s.links.items := sorry

/-- **invariant for every tape prefix**: whatever the draws, every state the loop reaches satisfies `Inv`
(in particular the model's KeyError state is unreachable from an `Inv` state) -/
theorem loop_inv (P : GParams) (h : WF P) (tmax : ERat) (cfuel fuel : Nat) (s s' : GState) (t : ERat)
    (ts ts' : TapeSt) (hs : Inv P s) (hl : loop P tmax cfuel fuel s t ts = .ok (s', ts')) : Inv P s' := sorry

theorem loop_no_keyerror (P : GParams) (h : WF P) (tmax : ERat) (cfuel fuel : Nat) (s : GState) (t : ERat)
    (ts : TapeSt) (hs : Inv P s) : loop P tmax cfuel fuel s t ts ≠ .error "KeyError" := sorry

theorem run_inv (P : GParams) (h : WF P) (infs recs : List Node) (tmin : Rat) (tmax : ERat) (fuel cfuel : Nat)
    (hi : infs.Nodup) (him : ∀ u ∈ infs, u ∈ P.nodes) (hr : ∀ u ∈ recs, u ∈ P.nodes)
    (hd : ∀ u ∈ infs, u ∉ recs) (hsis : P.sis = true → recs = []) (ts ts' : TapeSt) (s' : GState)
    (hrun : run P infs recs tmin tmax fuel cfuel ts = .ok (s', ts')) : Inv P s' := sorry

/-- **clock**: the rate handed to `expovariate` is the total rate of the chain in the current status -/
theorem clock_eq (P : GParams) (h : WF P) (s : GState) (hs : Inv P s) :
    totalRate P s = Chain.totalRate P s.status := sorry

/-- **jump law (recovery)**: an infectious node `u` is the next to recover with probability
`γ w_u / total · (1-ρ^k)` where `ρ^k` is the probability that the rejection sampler is still running after `k`
rounds (`ρ < 1`, C16) -/
theorem jump_law_rec (P : GParams) (h : WF P) (s : GState) (hs : Inv P s) (hpos : 0 < totalRate P s)
    (u : Node) (hu : u ∈ s.inf.items) (k : Nat) (hk : 0 < k) :
    Dist.mass (pickDist P s k) (fun o => o == some (GEvent.recover u)) =
      Chain.nodeRate P u / Chain.totalRate P s.status *
        (if s.inf.weighted then 1 - s.inf.rejProb ^ k else 1) := sorry

/-- **jump law (transmission)** -/
theorem jump_law_trans (P : GParams) (h : WF P) (s : GState) (hs : Inv P s) (hpos : 0 < totalRate P s)
    (u v : Node) (huv : (u, v) ∈ s.links.items) (k : Nat) (hk : 0 < k) :
    Dist.mass (pickDist P s k) (fun o => o == some (GEvent.transmit u v)) =
      Chain.edgeRate P u v / Chain.totalRate P s.status *
        (if s.links.weighted then 1 - s.links.rejProb ^ k else 1) := sorry

/-- nothing but enabled events has positive probability -/
theorem jump_law_support (P : GParams) (h : WF P) (s : GState) (hs : Inv P s) (k : Nat) (e : GEvent)
    (he : match e with
          | .recover u => u ∉ s.inf.items
          | .transmit u v => (u, v) ∉ s.links.items) :
    Dist.mass (pickDist P s k) (fun o => o == some e) = 0 := sorry

/-- the enabled sets of the chain are exactly the candidate lists -/
theorem enabled_iff (P : GParams) (h : WF P) (s : GState) (hs : Inv P s) :
    (∀ u, u ∈ Chain.enabledRec P s.status ↔ u ∈ s.inf.items) ∧
    (∀ p, p ∈ Chain.enabledTrans P s.status ↔ p ∈ s.links.items) := sorry

end Gillespie

/-! non-vacuity: a weighted 4-node path, two initial infecteds, one recovered; `init` succeeds -/
def exNbrs (u : Node) : List Node :=
  match u with
  | 0 => [1] | 1 => [0, 2] | 2 => [1, 3] | 3 => [2] | _ => []
def exP : GParams :=
  { nodes := [0, 1, 2, 3], nbrs := exNbrs, tau := 2, gamma := 1,
    ew := some (fun u v => if u + v = 3 then 1/2 else 2), nw := some (fun u => (u : Rat) + 1), sis := false }
#eval (Gillespie.init exP [1, 3] [0] 0).map (fun s => (s.inf.items, s.links.items, s.links.total))
