import EoNVerif.Basic
/-!
Model of `EoN.simulation._ListDict_` (simulation.py 205–361), statement by statement, including its quirks:
* `weight` is a `defaultdict(int)`: reading a missing key yields 0 (and creates it);
* `update` with a non-positive increment on an element whose weight equals `max_weight` decrements
  `max_weight_count` twice and never recomputes the maximum (`self._update_max_weight` without call parentheses);
* `remove` recomputes the maximum only when `max_weight_count` reaches 0 and the list is non-empty, and resets
  `max_weight`/`max_weight_count` to 0 when the list becomes empty.

`items` is the Python list; `item_to_position` is the index in `items` (recovered through `idxOf`, which is what
the dictionary stores as long as `items` has no duplicates — an invariant proved in `Proofs/ListDict`).
-/

structure LD (α : Type) where
  weighted : Bool
  items : List α
  weight : List (α × Rat)
  maxW : Rat
  maxCnt : Int
  total : Rat
deriving Repr

namespace LD
variable {α : Type} [DecidableEq α]

def empty (weighted : Bool) : LD α := ⟨weighted, [], [], 0, 0, 0⟩

def getW (s : LD α) (x : α) : Rat := alGet s.weight 0 x

/-- `items.pop()`; `if position != len(items): items[position] = last_item`. -/
def swapRemove (l : List α) (x : α) : List α :=
  let i := l.idxOf x
  let l' := l.dropLast
  if i = l'.length then l' else
    match l.getLast? with
    | some y => l'.set i y
    | none => l'

/-- `_update_max_weight()` : `Counter(self.weight.values())`, `max`, count. -/
def recomputeMax (s : LD α) : LD α :=
  let ws := s.weight.map (·.2)
  let m := ws.foldl max (ws.headD 0)
  { s with maxW := m, maxCnt := ((ws.filter (· == m)).length : Int) }

/-- the closing statement of `remove`: `if len(self.items) == 0: self.max_weight = 0; self.max_weight_count = 0`
(an emptied collection forgets its maximum) -/
def forgetMax (s : LD α) : LD α :=
  if s.items.length = 0 then { s with maxW := 0, maxCnt := 0 } else s

/-- `remove(choice)`; `none` models `KeyError`.  The two repairs of the running total (`= 0` when the list becomes
empty, recomputed from the weight table when it is `<= 0` with items left) are identities in exact arithmetic under
`LD.Inv` and are not part of this model; they are part of the code generated from the class source
(`Gen/ListDictGen.lean`), and `Proofs/GenLD.lean` proves the two agree. -/
def remove (s : LD α) (x : α) : Option (LD α) :=
  if x ∈ s.items then
    let items := swapRemove s.items x
    if s.weighted then
      let w := s.getW x
      let s1 : LD α := { s with items := items, weight := alDel s.weight x, total := s.total - w }
      if w = s.maxW then
        let s2 : LD α := { s1 with maxCnt := s1.maxCnt - 1 }
        if s2.maxCnt = 0 ∧ items.length > 0 then some (forgetMax (recomputeMax s2)) else some (forgetMax s2)
      else some (forgetMax s1)
    else some { s with items := items }
  else none

/-- `update(item, weight_increment)`.  `inc = none` is the unweighted call. `none` result models the
`Exception('if weighted, must assign weight_increment')`.  (Passing a weight to an unweighted structure raises
AttributeError in Python; the simulators never do it; modelled as `none` too.) -/
def update (s : LD α) (x : α) (inc : Option Rat) : Option (LD α) :=
  match inc with
  | some inc =>
    if !s.weighted then none else
    let w0 := s.getW x
    let s' : LD α :=
      if inc > 0 ∨ w0 ≠ s.maxW then
        let w1 := w0 + inc
        let s1 : LD α := { s with weight := alSet s.weight x w1, total := s.total + inc }
        if w1 > s.maxW then { s1 with maxCnt := 1, maxW := w1 }
        else if w1 = s.maxW then { s1 with maxCnt := s1.maxCnt + 1 }
        else s1
      else
        { s with weight := alSet s.weight x (w0 + inc), total := s.total + inc, maxCnt := s.maxCnt - 2 }
    if x ∈ s'.items then some s' else some { s' with items := s'.items ++ [x] }
  | none =>
    if s.weighted then none else
    if x ∈ s.items then some s else some { s with items := s.items ++ [x] }

/-- `insert(item, weight)`: replace; weight 0 removes. -/
def insert (s : LD α) (x : α) (w : Option Rat) : Option (LD α) := do
  let s1 ← if x ∈ s.items then s.remove x else some s
  if w ≠ some 0 then s1.update x w else some s1

/-- `total_weight()` -/
def totalWeight (s : LD α) : Rat := if s.weighted then s.total else (s.items.length : Rat)

/-- acceptance threshold of the rejection step: `self.weight[choice]/self.max_weight` -/
def acceptThr (s : LD α) (x : α) : Rat := s.getW x / s.maxW

/-- `choose_random()` driven by scripted draws.  Each round consumes a `random.choice` index and, when
weighted, a `random.random()` value.  Returns the chosen element and the number of rounds used.
`none`: draws exhausted / index out of range (the harness never produces these). -/
def chooseRandom (s : LD α) : List (Nat × Rat) → Option (α × Nat)
  | [] => none
  | (i, r) :: rest =>
    match s.items[i]? with
    | none => none
    | some c =>
      if !s.weighted then some (c, 1)
      else if r < s.acceptThr c then some (c, 1)
      else (chooseRandom s rest).map fun (c', k) => (c', k + 1)

end LD

/-! ### Operation histories and the law of `choose_random` -/
namespace LD
variable {α : Type} [DecidableEq α]

/-- the operations the simulators perform on a candidate set -/
inductive Op (α : Type)
  | ins (x : α) (w : Option Rat)   -- insert(item, weight)
  | upd (x : α) (w : Option Rat)   -- update(item, weight_increment)
  | rem (x : α)                    -- remove(item)

def applyOp (s : LD α) : Op α → Option (LD α)
  | .ins x w => s.insert x w
  | .upd x w => s.update x w
  | .rem x => s.remove x

def applyOps (s : LD α) : List (Op α) → Option (LD α)
  | [] => some s
  | o :: os => match s.applyOp o with
    | some s' => applyOps s' os
    | none => none

/-- weights of an op are non-negative (the property's hypothesis) -/
def Op.nonneg : Op α → Prop
  | .ins _ (some w) => 0 ≤ w
  | .upd _ (some w) => 0 ≤ w
  | _ => True

/-- sum of the current weights of the listed candidates -/
def weightSum (s : LD α) : Rat := sumRat (s.items.map s.getW)

end LD
