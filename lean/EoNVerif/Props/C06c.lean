import EoNVerif.Proofs.GenInitCond
/-!
C06c — the code GENERATED from the initial-condition builders of `EoN/analytic.py` (`Gen/InitCondGen.lean`:
`_initialize_node_status_`, `_count_edge_types_`, `_get_Nk_and_IC_as_arrays_`) computes the closed forms of the
hand-written model (`Model/InitCond.lean`) against which the real ODE wrappers are compared in C06.

`GraphOK A adj` (Proofs/GenInitCond.lean) ties the graph as read by the generated code (node list, edge list with every
undirected edge once, `degree`, `has_node`) to the adjacency lists of the model.  `vec M f = [f 0, …, f M]`.
-/
namespace C06c
open GenInit InitCond GenInitProofs

/-! ## 1. `_initialize_node_status_` -/

/-- disjoint initial sets inside the graph: the generated status map is `statusOf` (as functions) -/
theorem gen_status_eq (A : IArgs) (adj : List (List Nat)) (hN : ∀ u, A.hasNode u = true ↔ u < adj.length)
    (infs recs : List Node) (hd : ∀ u ∈ infs, u ∉ recs)
    (hi : ∀ u ∈ infs, u < adj.length) (hr : ∀ u ∈ recs, u < adj.length) :
    initialize_node_status A infs recs = .ok (statusOf infs recs) :=
  init_ok A infs recs hd (fun u hu => (hN u).mpr (hi u hu)) (fun u hu => (hN u).mpr (hr u hu))

/-- a node listed as both infected and recovered: `EoNError` -/
theorem gen_status_error_overlap (A : IArgs) (infs recs : List Node) (u : Node) (hu : u ∈ infs) (hu' : u ∈ recs) :
    initialize_node_status A infs recs = .error "EoNError" :=
  init_error_overlap A infs recs u hu hu'

/-- disjoint lists, but some listed node is not in the graph: `EoNError` -/
theorem gen_status_error_foreign (A : IArgs) (adj : List (List Nat)) (hN : ∀ u, A.hasNode u = true ↔ u < adj.length)
    (infs recs : List Node) (hd : ∀ u ∈ infs, u ∉ recs) (u : Node) (hu : u ∈ infs ∨ u ∈ recs) (hf : adj.length ≤ u) :
    initialize_node_status A infs recs = .error "EoNError" := by
  apply init_error_foreign A infs recs hd u hu
  cases h : A.hasNode u
  · rfl
  · exact absurd ((hN u).mp h) (Nat.not_lt.mpr hf)

/-- so the builder succeeds exactly on disjoint lists of graph nodes -/
theorem gen_status_ok_iff (A : IArgs) (adj : List (List Nat)) (hN : ∀ u, A.hasNode u = true ↔ u < adj.length)
    (infs recs : List Node) :
    (∃ st, initialize_node_status A infs recs = .ok st) ↔
      (∀ u ∈ infs, u ∉ recs) ∧ (∀ u ∈ infs, u < adj.length) ∧ (∀ u ∈ recs, u < adj.length) := by
  constructor
  · rintro ⟨st, hst⟩
    by_cases hd : ∀ u ∈ infs, u ∉ recs
    · refine ⟨hd, ?_, ?_⟩
      · intro u hu
        by_contra hlt
        rw [gen_status_error_foreign A adj hN infs recs hd u (Or.inl hu) (Nat.le_of_not_lt hlt)] at hst
        cases hst
      · intro u hu
        by_contra hlt
        rw [gen_status_error_foreign A adj hN infs recs hd u (Or.inr hu) (Nat.le_of_not_lt hlt)] at hst
        cases hst
    · exfalso
      have : ∃ u, u ∈ infs ∧ u ∈ recs := by
        by_contra hne
        apply hd
        intro u hu hu'
        exact hne ⟨u, hu, hu'⟩
      obtain ⟨u, hu, hu'⟩ := this
      rw [gen_status_error_overlap A infs recs u hu hu'] at hst
      cases hst
  · rintro ⟨hd, hi, hr⟩
    exact ⟨_, gen_status_eq A adj hN infs recs hd hi hr⟩

/-! ## 2. `_count_edge_types_` -/

/-- (SS0, SI0, II0) are the ordered-neighbour-pair counts of the closed-form model -/
theorem gen_count_edges_eq (A : IArgs) (adj : List (List Nat)) (hG : GraphOK A adj)
    (infs recs : List Node) (hd : ∀ u ∈ infs, u ∉ recs)
    (hi : ∀ u ∈ infs, u < adj.length) (hr : ∀ u ∈ recs, u < adj.length) :
    count_edge_types A infs recs =
      .ok ((pairCount adj (statusOf infs recs) St.S St.S : Int),
           (pairCount adj (statusOf infs recs) St.S St.I : Int),
           (pairCount adj (statusOf infs recs) St.I St.I : Int)) :=
  count_ok A adj hG infs recs _ (gen_status_eq A adj hG.hasNode infs recs hd hi hr)

/-- the combinatorial bridge used for 2 (proved, not assumed): ordered-pair counts are edge-list counts in both
orientations -/
theorem gen_pairs_from_edges (A : IArgs) (adj : List (List Nat)) (hG : GraphOK A adj) (st : Nat → St) (x y : St) :
    pairCount adj st x y =
      (A.edges.filter (fun e => st e.1 = x ∧ st e.2 = y)).length +
      (A.edges.filter (fun e => st e.1 = y ∧ st e.2 = x)).length :=
  pairCount_eq_edges A adj hG st x y

/-- the error of the status builder propagates -/
theorem gen_count_edges_error (A : IArgs) (infs recs : List Node) (e : String)
    (h : initialize_node_status A infs recs = .error e) : count_edge_types A infs recs = .error e := by
  rw [count_unfold, h]; rfl

/-! ## 3. `_get_Nk_and_IC_as_arrays_` -/

theorem gen_Nk_eq (A : IArgs) (adj : List (List Nat)) (hG : GraphOK A adj) :
    (degree_hist A).length = maxDeg adj + 1 ∧
    ∀ k, k ≤ maxDeg adj → (degree_hist A)[k]? = some (Nk adj k : Rat) := by
  rw [degree_hist_eq A adj hG]
  refine ⟨vec_length _ _, ?_⟩
  intro k hk
  rw [vec_getElem?, if_pos hk]

/-- explicit form of the result -/
theorem gen_sets_eq_vec (A : IArgs) (adj : List (List Nat)) (hG : GraphOK A adj)
    (infs recs : List Node) (hd : ∀ u ∈ infs, u ∉ recs)
    (hi : ∀ u ∈ infs, u < adj.length) (hr : ∀ u ∈ recs, u < adj.length) :
    get_Nk_and_IC_sets A infs recs =
      .ok (vec (maxDeg adj) (fun k => (Nk adj k : Rat)),
           vec (maxDeg adj) (fun k => (classCount adj (statusOf infs recs) St.S k : Rat)),
           vec (maxDeg adj) (fun k => (classCount adj (statusOf infs recs) St.I k : Rat)),
           vec (maxDeg adj) (fun k => (classCount adj (statusOf infs recs) St.R k : Rat))) :=
  sets_ok A adj hG infs recs _ (gen_status_eq A adj hG.hasNode infs recs hd hi hr)

/-- no `IndexError` from `vecAdd`; all four arrays have length `maxDeg + 1`; entries are the degree-class counts -/
theorem gen_sets_eq (A : IArgs) (adj : List (List Nat)) (hG : GraphOK A adj)
    (infs recs : List Node) (hd : ∀ u ∈ infs, u ∉ recs)
    (hi : ∀ u ∈ infs, u < adj.length) (hr : ∀ u ∈ recs, u < adj.length) :
    ∃ Nk' Sk0 Ik0 Rk0, get_Nk_and_IC_sets A infs recs = .ok (Nk', Sk0, Ik0, Rk0) ∧
      Nk'.length = maxDeg adj + 1 ∧ Sk0.length = maxDeg adj + 1 ∧
      Ik0.length = maxDeg adj + 1 ∧ Rk0.length = maxDeg adj + 1 ∧
      ∀ k, k ≤ maxDeg adj →
        Nk'[k]? = some (Nk adj k : Rat) ∧
        Sk0[k]? = some (classCount adj (statusOf infs recs) St.S k : Rat) ∧
        Ik0[k]? = some (classCount adj (statusOf infs recs) St.I k : Rat) ∧
        Rk0[k]? = some (classCount adj (statusOf infs recs) St.R k : Rat) := by
  refine ⟨_, _, _, _, gen_sets_eq_vec A adj hG infs recs hd hi hr, vec_length _ _, vec_length _ _, vec_length _ _,
    vec_length _ _, ?_⟩
  intro k hk
  simp only [vec_getElem?, if_pos hk, and_self]

theorem gen_sets_error (A : IArgs) (infs recs : List Node) (e : String)
    (h : initialize_node_status A infs recs = .error e) : get_Nk_and_IC_sets A infs recs = .error e := by
  rw [sets_unfold, h]; rfl

theorem gen_rho_eq_vec (A : IArgs) (adj : List (List Nat)) (hG : GraphOK A adj) (rho : Rat) :
    get_Nk_and_IC_rho A rho =
      (vec (maxDeg adj) (fun k => (Nk adj k : Rat)), vec (maxDeg adj) (fun k => rhoSk adj rho k),
       vec (maxDeg adj) (fun k => rhoIk adj rho k), vec (maxDeg adj) (fun _ => 0)) :=
  rho_ok A adj hG rho

theorem gen_rho_eq (A : IArgs) (adj : List (List Nat)) (hG : GraphOK A adj) (rho : Rat) :
    ∃ Nk' Sk0 Ik0 Rk0, get_Nk_and_IC_rho A rho = (Nk', Sk0, Ik0, Rk0) ∧
      Nk'.length = maxDeg adj + 1 ∧ Sk0.length = maxDeg adj + 1 ∧
      Ik0.length = maxDeg adj + 1 ∧ Rk0.length = maxDeg adj + 1 ∧
      ∀ k, k ≤ maxDeg adj →
        Nk'[k]? = some (Nk adj k : Rat) ∧ Sk0[k]? = some (rhoSk adj rho k) ∧
        Ik0[k]? = some (rhoIk adj rho k) ∧ Rk0[k]? = some 0 := by
  refine ⟨_, _, _, _, gen_rho_eq_vec A adj hG rho, vec_length _ _, vec_length _ _, vec_length _ _,
    vec_length _ _, ?_⟩
  intro k hk
  simp only [vec_getElem?, if_pos hk, and_self]

/-! ## 4. totals -/

/-- every node is in exactly one class: Σ_k Sk0[k] + Ik0[k] + Rk0[k] = N, and Σ_k Nk[k] = N -/
theorem gen_sets_total (A : IArgs) (adj : List (List Nat)) (hG : GraphOK A adj)
    (infs recs : List Node) (hd : ∀ u ∈ infs, u ∉ recs)
    (hi : ∀ u ∈ infs, u < adj.length) (hr : ∀ u ∈ recs, u < adj.length)
    (Nk' Sk0 Ik0 Rk0 : List Rat) (h : get_Nk_and_IC_sets A infs recs = .ok (Nk', Sk0, Ik0, Rk0)) :
    Sk0.sum + Ik0.sum + Rk0.sum = (adj.length : Rat) ∧ Nk'.sum = (adj.length : Rat) ∧
    Sk0.sum = (count adj (statusOf infs recs) St.S : Rat) ∧
    Ik0.sum = (count adj (statusOf infs recs) St.I : Rat) ∧
    Rk0.sum = (count adj (statusOf infs recs) St.R : Rat) := by
  rw [gen_sets_eq_vec A adj hG infs recs hd hi hr] at h
  injection h with h
  simp only [Prod.mk.injEq] at h
  obtain ⟨rfl, rfl, rfl, rfl⟩ := h
  simp only [vec_sum_cast, sum_classCount, sum_Nk, and_true]
  rw [← count_total adj (statusOf infs recs)]
  push_cast; ring

/-- the pair counts returned by `_count_edge_types_` are bounded by the number of ordered neighbour pairs
`Σ_k k·N_k` (S–I pairs occur in both orders); the exact nine-term identity is `pairCount_total` -/
theorem gen_count_edges_le (A : IArgs) (adj : List (List Nat)) (hG : GraphOK A adj)
    (infs recs : List Node) (hd : ∀ u ∈ infs, u ∉ recs)
    (hi : ∀ u ∈ infs, u < adj.length) (hr : ∀ u ∈ recs, u < adj.length)
    (SS SI II : Int) (h : count_edge_types A infs recs = .ok (SS, SI, II)) :
    0 ≤ SS ∧ 0 ≤ SI ∧ 0 ≤ II ∧ SS + 2 * SI + II ≤ (twoM adj : Int) := by
  rw [gen_count_edges_eq A adj hG infs recs hd hi hr] at h
  injection h with h
  simp only [Prod.mk.injEq] at h
  obtain ⟨rfl, rfl, rfl⟩ := h
  have := pairs_le_twoM A adj hG (statusOf infs recs)
  refine ⟨by positivity, by positivity, by positivity, ?_⟩
  exact_mod_cast this

/-- rho branch: Σ_k (Sk0 + Ik0)[k] = N and Rk0 = 0 -/
theorem gen_rho_total (A : IArgs) (adj : List (List Nat)) (hG : GraphOK A adj) (rho : Rat) :
    (get_Nk_and_IC_rho A rho).2.1.sum + (get_Nk_and_IC_rho A rho).2.2.1.sum = (adj.length : Rat) ∧
    (get_Nk_and_IC_rho A rho).2.1.sum = rhoS adj rho ∧ (get_Nk_and_IC_rho A rho).2.2.1.sum = rhoI adj rho ∧
    (get_Nk_and_IC_rho A rho).2.2.2.sum = 0 := by
  rw [gen_rho_eq_vec A adj hG rho]
  have hN : (vec (maxDeg adj) (fun k => (Nk adj k : Rat))).sum = (adj.length : Rat) := by
    rw [vec_sum_cast, sum_Nk]
  have hS : (vec (maxDeg adj) (fun k => rhoSk adj rho k)).sum = rhoS adj rho := by
    unfold rhoSk rhoS vec
    rw [List.sum_map_mul_left]
    unfold vec at hN; rw [hN]
  have hI : (vec (maxDeg adj) (fun k => rhoIk adj rho k)).sum = rhoI adj rho := by
    unfold rhoIk rhoI vec
    rw [List.sum_map_mul_left]
    unfold vec at hN; rw [hN]
  refine ⟨?_, hS, hI, ?_⟩
  · simp only [hS, hI, rhoS, rhoI]; ring
  · simp [vec]

/-! ## non-vacuity: a triangle 0–1–2 with a pendant node 3 attached to 2 -/

def exAdj : List (List Nat) := [[1, 2], [0, 2], [0, 1, 3], [2]]
/-- the same graph as networkx hands it to the builders -/
def exA : IArgs :=
  { nodes := [0, 1, 2, 3], edges := [(0, 1), (0, 2), (1, 2), (2, 3)],
    degree := fun u => [2, 2, 3, 1].getD u 0, hasNode := fun u => decide (u < 4) }

theorem exOK : GraphOK exA exAdj :=
  GraphOK.of_check exA exAdj (by intro u; simp [exA, exAdj]) (by decide +kernel)

/-- an edge list that lists an edge in both orientations is rejected by `GraphOK` -/
example : ¬ GraphOK { exA with edges := [(0, 1), (1, 0), (0, 2), (1, 2), (2, 3)] } exAdj := by
  intro h; exact h.edgesAsym 0 1 (by decide) (by decide)

/-- node 0 infected, node 3 recovered: statuses I S S R (and S outside the graph) -/
example : ((initialize_node_status exA [0] [3]).toOption.map fun f => (List.range 5).map f) =
    some [St.I, St.S, St.S, St.R, St.S] := by decide +kernel
/-- edges 0–1, 0–2 are I–S (1 each), 1–2 is S–S (2), 2–3 is S–R (not counted) -/
example : (count_edge_types exA [0] [3]).toOption = some (2, 2, 0) := by decide +kernel
example : (pairCount exAdj (statusOf [0] [3]) St.S St.S, pairCount exAdj (statusOf [0] [3]) St.S St.I,
    pairCount exAdj (statusOf [0] [3]) St.I St.I, twoM exAdj) = (2, 2, 0, 8) := by decide +kernel
/-- duplicates inside a list are harmless; the I–I edge 0–1 gives II0 = 2, the S–S edge 2–3 gives SS0 = 2 -/
example : (count_edge_types exA [0, 1, 0] []).toOption = some (2, 2, 2) := by decide +kernel
/-- degree classes: N_k = [0,1,2,1]; S: nodes 1 (k=2), 2 (k=3); I: node 0 (k=2); R: node 3 (k=1) -/
example : (get_Nk_and_IC_sets exA [0] [3]).toOption =
    some ([0, 1, 2, 1], [0, 0, 1, 1], [0, 0, 1, 0], [0, 1, 0, 0]) := by decide +kernel
example : get_Nk_and_IC_rho exA (1 / 4) =
    ([0, 1, 2, 1], [0, 3 / 4, 3 / 2, 3 / 4], [0, 1 / 4, 1 / 2, 1 / 4], [0, 0, 0, 0]) := by decide +kernel
/-- node 1 both infected and recovered: `EoNError` (in all three builders) -/
example : (match initialize_node_status exA [0, 1] [1] with | .error e => e == "EoNError" | .ok _ => false) = true := by
  decide +kernel
example : (match count_edge_types exA [0, 1] [1] with | .error e => e == "EoNError" | .ok _ => false) = true := by
  decide +kernel
/-- node 7 is not in the graph: `EoNError` -/
example : (match get_Nk_and_IC_sets exA [0] [7] with | .error e => e == "EoNError" | .ok _ => false) = true := by
  decide +kernel

/-- the theorems instantiated -/
example : initialize_node_status exA [0] [3] = .ok (statusOf [0] [3]) :=
  gen_status_eq exA exAdj exOK.hasNode [0] [3] (by decide) (by decide) (by decide)
example : initialize_node_status exA [0, 1] [1] = .error "EoNError" :=
  gen_status_error_overlap exA [0, 1] [1] 1 (by decide) (by decide)
example : initialize_node_status exA [0] [7] = .error "EoNError" :=
  gen_status_error_foreign exA exAdj exOK.hasNode [0] [7] (by decide) 7 (Or.inr (by decide)) (by decide)
example : count_edge_types exA [0] [3] = .ok (2, 2, 0) := by
  rw [gen_count_edges_eq exA exAdj exOK [0] [3] (by decide) (by decide) (by decide)]
  decide +kernel
example : (degree_hist exA)[2]? = some 2 := by
  rw [(gen_Nk_eq exA exAdj exOK).2 2 (by decide +kernel)]; decide +kernel

end C06c

section
open C06c
#print axioms gen_status_eq
#print axioms gen_status_error_overlap
#print axioms gen_status_error_foreign
#print axioms gen_status_ok_iff
#print axioms gen_count_edges_eq
#print axioms gen_pairs_from_edges
#print axioms gen_count_edges_error
#print axioms gen_Nk_eq
#print axioms gen_sets_eq_vec
#print axioms gen_sets_eq
#print axioms gen_sets_error
#print axioms gen_rho_eq_vec
#print axioms gen_rho_eq
#print axioms gen_sets_total
#print axioms gen_count_edges_le
#print axioms gen_rho_total
#print axioms exOK
#print axioms GenInitProofs.pairCount_total
#print axioms GenInitProofs.GraphOK.of_check
end
