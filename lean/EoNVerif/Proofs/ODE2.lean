import EoNVerif.Model.ODE2
import EoNVerif.Proofs.ODE
import EoNVerif.Proofs.ODESemi
/-!
Helper lemmas for C06 / C07 / C08 on the array-valued right-hand sides (`Model/ODE2.lean`): linearity and interchange
of the double sum `sum2`, the diagonal-shift (telescoping) lemmas of the effective-degree models, sums over a
duplicate-free degree list versus `sumTo`, and the length of a filtered neighbour list.
-/
namespace ODE

/-! ## double sums -/

theorem sum2_congr (A B : Nat) (f g : Nat → Nat → Rat) (h : ∀ s i, s < A → i < B → f s i = g s i) :
    sum2 A B f = sum2 A B g := by
  unfold sum2
  apply ODE.sumTo_congr; intro s hs
  apply ODE.sumTo_congr; intro i hi
  exact h s i hs hi

theorem sum2_add (A B : Nat) (f g : Nat → Nat → Rat) :
    sum2 A B (fun s i => f s i + g s i) = sum2 A B f + sum2 A B g := by
  unfold sum2
  rw [← sumTo_add]
  apply ODE.sumTo_congr; intro s _
  exact sumTo_add B (f s) (g s)

theorem sum2_mul_left (A B : Nat) (f : Nat → Nat → Rat) (c : Rat) :
    sum2 A B (fun s i => c * f s i) = c * sum2 A B f := by
  unfold sum2
  rw [← ODE.sumTo_mul_left]
  apply ODE.sumTo_congr; intro s _
  exact ODE.sumTo_mul_left B (f s) c

theorem sum2_zero (A B : Nat) : sum2 A B (fun _ _ => 0) = 0 := by
  unfold sum2
  rw [ODE.sumTo_congr A _ (fun _ => 0) (fun s _ => sumTo_const_zero B)]
  exact sumTo_const_zero A

theorem sum2_sub (A B : Nat) (f g : Nat → Nat → Rat) :
    sum2 A B (fun s i => f s i - g s i) = sum2 A B f - sum2 A B g := by
  have h := sum2_add A B (fun s i => f s i - g s i) g
  rw [sum2_congr A B (fun s i => f s i - g s i + g s i) f (fun s i _ _ => by ring)] at h
  linarith

/-- interchange of the two summations -/
theorem sum2_swap (A B : Nat) (f : Nat → Nat → Rat) : sum2 A B f = sum2 B A (fun i s => f s i) := by
  induction A with
  | zero =>
    unfold sum2
    rw [sumTo_zero_left]
    rw [ODE.sumTo_congr B _ (fun _ => 0) (fun i _ => sumTo_zero_left _)]
    exact (sumTo_const_zero B).symm
  | succ A ih =>
    have e1 : sum2 (A + 1) B f = sum2 A B f + sumTo B (f A) := by
      unfold sum2; rw [sumTo_succ]
    have e2 : sum2 B (A + 1) (fun i s => f s i) = sum2 B A (fun i s => f s i) + sumTo B (f A) := by
      unfold sum2
      rw [← sumTo_add]
      apply ODE.sumTo_congr; intro i _
      rw [sumTo_succ]
    rw [e1, e2, ih]

/-- split off the first term -/
theorem sumTo_succ' (K : Nat) (F : Nat → Rat) : sumTo (K + 1) F = sumTo K (fun s => F (s + 1)) + F 0 := by
  rw [sumTo_shift]; ring

theorem kf_succ (k : Nat) : kf (k + 1) = kf k + 1 := by simp [kf]

/-! ## effective degree: shifted sums -/

/-- `Σ (i+1) X[s,i+1] = Σ i X[s,i]` (no support hypothesis needed) -/
theorem sum2_ip1 (A B : Nat) (X : Nat → Nat → Rat) :
    sum2 A B (fun s i => (kf i + 1) * (if i + 1 = B then 0 else X s (i + 1))) = sum2 A B (fun s i => kf i * X s i) := by
  unfold sum2
  apply ODE.sumTo_congr; intro s _
  cases B with
  | zero => simp [sumTo_zero_left]
  | succ B =>
    rw [sumTo_succ, sumTo_succ' B (fun i => kf i * X s i), kf_zero]
    dsimp only
    rw [if_pos rfl]
    simp only [mul_zero, zero_mul, add_zero]
    apply ODE.sumTo_congr; intro i hi
    have : ¬ (i + 1 = B + 1) := by omega
    rw [if_neg this, kf_succ]

/-- `Σ (i+1) X[s-1,i+1] = Σ i X[s,i]` on the feasible support -/
theorem sum2_up (A : Nat) (X : Nat → Nat → Rat) (hX : ∀ s i, A ≤ s + i → X s i = 0) :
    sum2 A A (fun s i => (kf i + 1) * (if s = 0 ∨ i + 1 = A then 0 else X (s - 1) (i + 1)))
      = sum2 A A (fun s i => kf i * X s i) := by
  cases A with
  | zero => simp [sum2, sumTo_zero_left]
  | succ A =>
    unfold sum2
    rw [sumTo_succ' A, sumTo_succ A (fun s => sumTo (A + 1) fun i => kf i * X s i)]
    have z1 : sumTo (A + 1) (fun i => (kf i + 1) * (if (0 : Nat) = 0 ∨ i + 1 = A + 1 then 0 else X (0 - 1) (i + 1))) = 0 := by
      rw [ODE.sumTo_congr (A + 1) _ (fun _ => 0) (fun i _ => by simp)]
      exact sumTo_const_zero _
    have z2 : sumTo (A + 1) (fun i => kf i * X A i) = 0 := by
      rw [ODE.sumTo_congr (A + 1) _ (fun _ => 0)]
      · exact sumTo_const_zero _
      · intro i _
        cases i with
        | zero => simp [kf_zero]
        | succ i => rw [hX A (i + 1) (by omega)]; ring
    rw [z1, z2, add_zero, add_zero]
    apply ODE.sumTo_congr; intro s _
    rw [sumTo_succ, sumTo_succ' A (fun i => kf i * X s i), kf_zero]
    have : (s + 1 = 0 ∨ A + 1 = A + 1) := Or.inr rfl
    dsimp only
    rw [if_pos this]
    simp only [mul_zero, zero_mul, add_zero]
    apply ODE.sumTo_congr; intro i hi
    have : ¬ (s + 1 = 0 ∨ i + 1 = A + 1) := by omega
    rw [if_neg this, kf_succ, Nat.add_sub_cancel]

/-- `Σ (s+1) X[s+1,i-1] = Σ s X[s,i]` on the feasible support -/
theorem sum2_dn (A : Nat) (X : Nat → Nat → Rat) (hX : ∀ s i, A ≤ s + i → X s i = 0) :
    sum2 A A (fun s i => (kf s + 1) * (if i = 0 ∨ s + 1 = A then 0 else X (s + 1) (i - 1)))
      = sum2 A A (fun s i => kf s * X s i) := by
  rw [sum2_swap, sum2_swap A A (fun s i => kf s * X s i)]
  exact sum2_up A (fun s i => X i s) (fun s i h => hX i s (by omega))

/-- the effective-degree SIS right-hand sides sum to zero (arbitrary closure ratios `r1`, `r2`) -/
theorem effDeg_conserve_aux (A : Nat) (tau gamma r1 r2 : Rat) (X Y : Nat → Nat → Rat)
    (hX : ∀ s i, A ≤ s + i → X s i = 0) (hY : ∀ s i, A ≤ s + i → Y s i = 0) :
    sum2 A A (fun s i =>
      (-tau * kf i * X s i + gamma * Y s i
        + gamma * ((kf i + 1) * (if s = 0 ∨ i + 1 = A then 0 else X (s - 1) (i + 1)) - kf i * X s i)
        + tau * r1 * ((kf s + 1) * (if i = 0 ∨ s + 1 = A then 0 else X (s + 1) (i - 1)) - kf s * X s i))
      + (tau * kf i * X s i - gamma * Y s i
        + gamma * ((kf i + 1) * (if s = 0 ∨ i + 1 = A then 0 else Y (s - 1) (i + 1)) - kf i * Y s i)
        + tau * (r2 + 1) * ((kf s + 1) * (if i = 0 ∨ s + 1 = A then 0 else Y (s + 1) (i - 1)) - kf s * Y s i))) = 0 := by
  have e := sum2_congr A A
    (fun s i =>
      (-tau * kf i * X s i + gamma * Y s i
        + gamma * ((kf i + 1) * (if s = 0 ∨ i + 1 = A then 0 else X (s - 1) (i + 1)) - kf i * X s i)
        + tau * r1 * ((kf s + 1) * (if i = 0 ∨ s + 1 = A then 0 else X (s + 1) (i - 1)) - kf s * X s i))
      + (tau * kf i * X s i - gamma * Y s i
        + gamma * ((kf i + 1) * (if s = 0 ∨ i + 1 = A then 0 else Y (s - 1) (i + 1)) - kf i * Y s i)
        + tau * (r2 + 1) * ((kf s + 1) * (if i = 0 ∨ s + 1 = A then 0 else Y (s + 1) (i - 1)) - kf s * Y s i)))
    (fun s i =>
      (gamma * ((kf i + 1) * (if s = 0 ∨ i + 1 = A then 0 else X (s - 1) (i + 1)) - kf i * X s i)
        + (tau * r1) * ((kf s + 1) * (if i = 0 ∨ s + 1 = A then 0 else X (s + 1) (i - 1)) - kf s * X s i))
      + (gamma * ((kf i + 1) * (if s = 0 ∨ i + 1 = A then 0 else Y (s - 1) (i + 1)) - kf i * Y s i)
        + (tau * (r2 + 1)) * ((kf s + 1) * (if i = 0 ∨ s + 1 = A then 0 else Y (s + 1) (i - 1)) - kf s * Y s i)))
    (fun s i _ _ => by ring)
  rw [e, sum2_add, sum2_add, sum2_add, sum2_mul_left, sum2_mul_left, sum2_mul_left, sum2_mul_left,
    sum2_sub, sum2_sub, sum2_sub, sum2_sub, sum2_up A X hX, sum2_up A Y hY, sum2_dn A X hX, sum2_dn A Y hY]
  ring

/-! ## sums over a duplicate-free list of indices below `K` -/

/-- a function supported on the duplicate-free list `ks ⊆ [0, K)` -/
theorem sumTo_eq_sumRat_of_support (K : Nat) (ks : List Nat) (hks : ks.Nodup) (hK : ∀ d ∈ ks, d < K)
    (g : Nat → Rat) (h0 : ∀ d, d ∉ ks → g d = 0) : sumTo K g = sumRat (ks.map g) := by
  induction ks generalizing g with
  | nil =>
    rw [ODE.sumTo_congr K g (fun _ => 0) (fun k _ => h0 k (by simp))]
    simpa using sumTo_const_zero K
  | cons a t ih =>
    rw [List.nodup_cons] at hks
    have ha : a < K := hK a (by simp)
    have e : sumTo K g = sumTo K (fun k => if k = a then 0 else g k) + sumTo K (fun k => if k = a then g a else 0) := by
      rw [← sumTo_add]
      apply ODE.sumTo_congr; intro k _
      by_cases hk : k = a
      · simp [hk]
      · simp [hk]
    rw [e, sumTo_single K a ha (fun k => if k = a then g a else 0) (fun k hk => by simp [hk]),
      ih hks.2 (fun d hd => hK d (by simp [hd])) (fun k => if k = a then 0 else g k)]
    · simp only [List.map_cons, sumRat_cons, if_true]
      rw [sumRat_map_congr t (fun k => if k = a then 0 else g k) g]
      · ring
      · intro c hc
        have : c ≠ a := fun h => hks.1 (h ▸ hc)
        simp [this]
    · intro d hd
      by_cases hda : d = a
      · simp [hda]
      · simp only [hda, if_false]
        exact h0 d (by simp [hda, hd])

theorem psiH_smul (K : Nat) (c : Nat → Rat) (a x : Rat) : psiH K (fun k => a * c k) x = a * psiH K c x := by
  unfold psiH
  rw [← ODE.sumTo_mul_left]
  apply ODE.sumTo_congr; intro k _; ring

theorem psiHP_smul (K : Nat) (c : Nat → Rat) (a x : Rat) : psiHP K (fun k => a * c k) x = a * psiHP K c x := by
  unfold psiHP
  rw [← ODE.sumTo_mul_left]
  apply ODE.sumTo_congr; intro k _; ring

/-- `Σ_{d ∈ ks} P_d θ^d = ψ(θ)` -/
theorem sumRat_ks_psiH (K : Nat) (ks : List Nat) (hks : ks.Nodup) (hK : ∀ d ∈ ks, d < K)
    (Pk : Nat → Rat) (hP0 : ∀ d, d ∉ ks → Pk d = 0) (theta : Rat) :
    sumRat (ks.map fun d => Pk d * theta ^ d) = psiH K Pk theta := by
  unfold psiH
  rw [sumTo_eq_sumRat_of_support K ks hks hK (fun k => Pk k * theta ^ k) (fun d hd => by simp [hP0 d hd])]

/-- `Σ_{d ∈ ks} d P_d / ⟨k⟩ θ^(d-1) = ψ'(θ) / ⟨k⟩` -/
theorem sumRat_ks_psiHP (K : Nat) (ks : List Nat) (hks : ks.Nodup) (hK : ∀ d ∈ ks, d < K)
    (Pk : Nat → Rat) (hP0 : ∀ d, d ∉ ks → Pk d = 0) (kave theta : Rat) :
    sumRat (ks.map fun d' : Nat => (d' : Rat) * Pk d' / kave * theta ^ (d' - 1)) = psiHP K Pk theta / kave := by
  unfold psiHP
  rw [div_eq_mul_inv, ← sumTo_mul_right,
    sumTo_eq_sumRat_of_support K ks hks hK (fun k => kf k * Pk k * theta ^ (k - 1) * kave⁻¹)
      (fun d hd => by simp [hP0 d hd])]
  apply sumRat_map_congr; intro d _
  simp only [kf]; ring

/-! ## neighbour lists -/

theorem filter_ne_length (l : List Nat) (a : Nat) (hn : l.Nodup) (ha : a ∈ l) :
    (l.filter fun w => w ≠ a).length = l.length - 1 := by
  induction l with
  | nil => simp at ha
  | cons b t ih =>
    rw [List.nodup_cons] at hn
    by_cases hb : b = a
    · subst hb
      have : (t.filter fun w => w ≠ b) = t := by
        rw [List.filter_eq_self]
        intro c hc
        have : c ≠ b := fun h => hn.1 (h ▸ hc)
        simpa using this
      simp only [List.filter_cons, ne_eq, not_true_eq_false, decide_false, Bool.false_eq_true, if_false,
        List.length_cons, Nat.add_sub_cancel]
      exact congrArg List.length this
    · have ha' : a ∈ t := by
        rcases List.mem_cons.1 ha with h | h
        · exact absurd h.symm hb
        · exact h
      have hpos : 0 < t.length := List.length_pos_of_mem ha'
      simp only [List.filter_cons, hb, ne_eq, not_false_eq_true, decide_true, if_true, List.length_cons]
      rw [ih hn.2 ha']; omega

theorem filter_ne_length_cast (l : List Nat) (a n : Nat) (hn : l.Nodup) (ha : a ∈ l) (hl : l.length = n) :
    (((l.filter fun w => w ≠ a).length : Nat) : Rat) = (n : Rat) - 1 := by
  rw [filter_ne_length l a hn ha, hl]
  have : 1 ≤ n := by rw [← hl]; exact List.length_pos_of_mem ha
  rw [Nat.cast_sub this]; simp

end ODE
