import DriverGlue2
partial def loopGlue2 (h : IO.FS.Stream) (out : IO.FS.Stream) : IO Unit := do
  let line ← h.getLine
  if line.isEmpty then return ()
  out.putStrLn (DrvGenGlue2.handle line)
  loopGlue2 h out
def main : IO Unit := do loopGlue2 (← IO.getStdin) (← IO.getStdout)
