import EoNVerif.Gen.HelpersGen
import EoNVerif.Proofs.Helpers
import EoNVerif.Proofs.ODE
import Mathlib.Tactic.Ring
import Mathlib.Tactic.Linarith
import Mathlib.Tactic.FieldSimp
import Mathlib.Algebra.Order.Field.Rat
import Mathlib.Logic.Function.Iterate
/-!
C20c / C08c — lemmas: the Lean code GENERATED from the degree-distribution helpers and the final-size / discrete-time
EBCM functions of `EoN/analytic.py` (Gen/HelpersGen.lean, namespace `GenHelp`) against the hand-written models
`Model/Helpers.lean` and `Model/ODE.lean`.
-/

namespace GenHelpProofs
open PyRT PyTM PyHelp

/-! ### the exception monad -/

@[simp] theorem ok_bind {α β : Type} (a : α) (f : α → Except String β) : (Except.ok a >>= f) = f a := rfl
@[simp] theorem err_bind {α β : Type} (e : String) (f : α → Except String β) :
    ((Except.error e : Except String α) >>= f) = .error e := rfl
@[simp] theorem pure_eq_ok {α : Type} (a : α) : (pure a : Except String α) = .ok a := rfl
@[simp] theorem throw_eq_err {α : Type} (e : String) : (throw e : Except String α) = .error e := rfl

theorem fdiv_ok (a b : Rat) (h : b ≠ 0) : fdiv a b = .ok (a / b) := by simp [fdiv, h]
theorem fdiv_err (a b : Rat) (h : b = 0) : fdiv a b = .error "ZeroDivisionError" := by simp [fdiv, h]
@[simp] theorem fdiv_zero (a : Rat) : fdiv a 0 = .error "ZeroDivisionError" := fdiv_err a 0 rfl

/-- a loop whose body is total -/
theorem foldlM_pure {σ ι : Type} (h : σ → ι → σ) (l : List ι) (a : σ) :
    l.foldlM (fun s i => (Except.ok (h s i) : Except String σ)) a = .ok (l.foldl h a) := by
  induction l generalizing a with
  | nil => rfl
  | cons x t ih => simp only [List.foldlM_cons, ok_bind, List.foldl_cons]; exact ih _

/-- a loop that ignores its counter iterates its body -/
theorem foldl_range_iterate {σ : Type} (h : σ → σ) (n : Nat) (a : σ) :
    (List.range n).foldl (fun s _ => h s) a = h^[n] a := by
  induction n generalizing a with
  | zero => rfl
  | succ n ih =>
    rw [List.range_succ, List.foldl_append, ih]
    simp only [List.foldl_cons, List.foldl_nil]
    rw [← Function.iterate_succ_apply' h n a]

theorem foldlM_range_iterate {σ : Type} (h : σ → σ) (n : Nat) (a : σ) :
    (List.range n).foldlM (fun s (_ : Nat) => (Except.ok (h s) : Except String σ)) a = .ok (h^[n] a) := by
  rw [foldlM_pure (fun s _ => h s), foldl_range_iterate]

/-- a loop whose body always raises `e` raises `e` as soon as it is entered -/
theorem foldlM_range_error {σ : Type} (e : String) (n : Nat) (hn : 0 < n) (a : σ)
    (body : σ → Nat → Except String σ) (hb : ∀ s i, body s i = .error e) :
    (List.range n).foldlM body a = .error e := by
  obtain ⟨m, rfl⟩ := Nat.exists_eq_succ_of_ne_zero hn.ne'
  rw [List.range_succ_eq_map]
  simp [List.foldlM_cons, hb]

/-- summation loop: `s = 0; for k in l: s += g(k)` -/
theorem foldl_add_sum {ι : Type} (g : ι → Rat) (l : List ι) (a : Rat) :
    l.foldl (fun acc k => acc + g k) a = a + sumRat (l.map g) := by
  induction l generalizing a with
  | nil => simp
  | cons x t ih => simp [ih]; ring

/-! ### association lists -/
section AL
variable {κ ν : Type} [DecidableEq κ]

theorem alFind_of_has (d : List (κ × ν)) (k : κ) (dflt : ν) (h : alHas d k = true) :
    alFind? d k = some (alGet d dflt k) := by
  induction d with
  | nil => simp [alHas] at h
  | cons p t ih =>
    obtain ⟨k', v⟩ := p
    by_cases hk : k' = k
    · simp [alFind?, alGet, hk]
    · simp only [alHas, hk, if_false] at h
      simp [alFind?, alGet, hk, ih h]

theorem alFind_of_not_has (d : List (κ × ν)) (k : κ) (h : alHas d k = false) : alFind? d k = none := by
  induction d with
  | nil => rfl
  | cons p t ih =>
    obtain ⟨k', v⟩ := p
    by_cases hk : k' = k
    · simp [alHas, hk] at h
    · simp only [alHas, hk, if_false] at h
      simp [alFind?, hk, ih h]

theorem dictGet_of_has (d : List (κ × ν)) (k : κ) (dflt : ν) (h : alHas d k = true) :
    dictGet d k = .ok (alGet d dflt k) := by
  simp [dictGet, alFind_of_has d k dflt h]

theorem dictGet_of_not_has (d : List (κ × ν)) (k : κ) (h : alHas d k = false) :
    dictGet d k = .error "KeyError" := by
  simp [dictGet, alFind_of_not_has d k h]

theorem alHas_of_mem_keys (d : List (κ × ν)) (k : κ) (h : k ∈ d.map (·.1)) : alHas d k = true :=
  (mem_alKeys_iff d k).1 h

theorem alGet_map_val {μ : Type} (l : List (κ × ν)) (g : ν → μ) (d : ν) (k : κ) :
    alGet (l.map fun kv => (kv.1, g kv.2)) (g d) k = g (alGet l d k) := by
  induction l with
  | nil => rfl
  | cons p t ih =>
    obtain ⟨k', v⟩ := p
    by_cases hk : k' = k
    · simp [alGet, hk]
    · simp [alGet, hk, ih]

theorem alHas_map_val {μ : Type} (l : List (κ × ν)) (g : κ × ν → μ) (k : κ) :
    alHas (l.map fun kv => (kv.1, g kv)) k = alHas l k := by
  induction l with
  | nil => rfl
  | cons p t ih =>
    obtain ⟨k', v⟩ := p
    by_cases hk : k' = k
    · simp [alHas, hk]
    · simp [alHas, hk, ih]

theorem keys_alSet (l : List (κ × ν)) (x : κ) (v : ν) :
    (alSet l x v).map (·.1) = if x ∈ l.map (·.1) then l.map (·.1) else l.map (·.1) ++ [x] := by
  induction l with
  | nil => simp [alSet]
  | cons p t ih =>
    obtain ⟨k, w⟩ := p
    by_cases hk : k = x
    · simp [alSet, hk]
    · have hk' : ¬ x = k := fun h => hk h.symm
      simp only [alSet, hk, if_false, List.map_cons, ih, List.mem_cons, hk', false_or]
      split <;> simp

end AL

/-! ### `Counter` -/

theorem counter_fold_get (l : List Nat) (acc : List (Nat × Nat)) (k : Nat) :
    alGet (l.foldl (fun acc k => alSet acc k (alGet acc 0 k + 1)) acc) 0 k = alGet acc 0 k + Helpers.countEq l k := by
  induction l generalizing acc with
  | nil => simp [Helpers.countEq]
  | cons a t ih =>
    rw [List.foldl_cons, ih]
    by_cases h : a = k
    · subst h
      simp [alGet_alSet_self, Helpers.countEq]
      omega
    · have h' : k ≠ a := fun e => h e.symm
      simp [alGet_alSet_ne _ _ _ _ _ h', Helpers.countEq, h]

/-- `Counter(l)[k]` is the multiplicity of `k` -/
theorem counter_get (l : List Nat) (k : Nat) : alGet (counter l) 0 k = Helpers.countEq l k := by
  simp [counter, counter_fold_get, alGet]

theorem counter_fold_keys (l : List Nat) (acc : List (Nat × Nat)) :
    (l.foldl (fun acc k => alSet acc k (alGet acc 0 k + 1)) acc).map (·.1)
      = acc.map (·.1) ++ (l.filter fun k => !(acc.map (·.1)).contains k).eraseDups := by
  induction l generalizing acc with
  | nil => simp
  | cons a t ih =>
    rw [List.foldl_cons, ih, keys_alSet]
    by_cases h : a ∈ acc.map (·.1)
    · simp only [h, if_true]
      rw [List.filter_cons_of_neg (by simpa using h)]
    · simp only [h, if_false]
      rw [List.filter_cons_of_pos (by simpa using h)]
      simp only [List.eraseDups_cons, List.append_assoc, List.singleton_append]
      congr 3
      rw [List.filter_filter]
      apply List.filter_congr
      intro x _
      by_cases hx : x = a
      · simp [hx]
      · by_cases hx' : x ∈ acc.map (·.1)
        · simp [hx, hx']
        · simp [hx, hx']

/-- the keys of `Counter(l)`: the distinct values in order of first occurrence -/
theorem counter_keys (l : List Nat) : (counter l).map (·.1) = l.eraseDups := by
  have := counter_fold_keys l []
  simpa [counter] using this

theorem nodup_eraseDups_aux (n : Nat) : ∀ l : List Nat, l.length ≤ n → l.eraseDups.Nodup := by
  induction n with
  | zero =>
    intro l hl
    have : l = [] := List.length_eq_zero_iff.1 (by omega)
    subst this
    simp
  | succ n ih =>
    intro l hl
    cases l with
    | nil => simp
    | cons a t =>
      rw [List.eraseDups_cons, List.nodup_cons]
      refine ⟨?_, ih _ ?_⟩
      · rw [List.mem_eraseDups, List.mem_filter]
        simp
      · have := List.length_filter_le (fun b => !b == a) t
        simp only [List.length_cons] at hl
        omega

theorem nodup_eraseDups (l : List Nat) : l.eraseDups.Nodup := nodup_eraseDups_aux l.length l (le_refl _)

/-! ### `max(d.keys())` -/

theorem foldl_max_le_iff (l : List Nat) (init m : Nat) : l.foldl max init ≤ m ↔ init ≤ m ∧ ∀ d ∈ l, d ≤ m := by
  induction l generalizing init with
  | nil => simp
  | cons a t ih =>
    simp only [List.foldl_cons, ih, List.mem_cons, forall_eq_or_imp, Nat.max_le]
    tauto

theorem maxDeg_congr (l l' : List Nat) (h : ∀ x, x ∈ l ↔ x ∈ l') : Helpers.maxDeg l = Helpers.maxDeg l' := by
  apply le_antisymm
  · rw [Helpers.maxDeg, foldl_max_le_iff]
    exact ⟨Nat.zero_le _, fun d hd => Helpers.le_maxDeg l' d ((h d).1 hd)⟩
  · rw [Helpers.maxDeg, foldl_max_le_iff]
    exact ⟨Nat.zero_le _, fun d hd => Helpers.le_maxDeg l d ((h d).2 hd)⟩

/-- largest key of an association list (0 for the empty one) -/
def maxKeyVal {ν : Type} (d : List (Nat × ν)) : Nat := Helpers.maxDeg (d.map (·.1))

theorem foldl_max_keys {ν : Type} (xs : List (Nat × ν)) (init : Nat) :
    xs.foldl (fun m kv => max m kv.1) init = (xs.map (·.1)).foldl max init := by
  induction xs generalizing init with
  | nil => rfl
  | cons a t ih => simp [ih]

theorem maxKey_ok {ν : Type} (d : List (Nat × ν)) (h : d ≠ []) : maxKey d = .ok (maxKeyVal d) := by
  cases d with
  | nil => exact absurd rfl h
  | cons x xs =>
    simp only [maxKey, pure_eq_ok, maxKeyVal, Helpers.maxDeg, List.map_cons, List.foldl_cons, foldl_max_keys]
    simp

theorem maxKey_nil {ν : Type} : maxKey ([] : List (Nat × ν)) = .error "ValueError" := rfl

/-! ### `get_Pk` -/

theorem mapM_fdiv (Nk : List (Nat × Nat)) (n : Rat) (h : Nk = [] ∨ n ≠ 0) :
    Nk.mapM (fun kv => do
      let q ← fdiv ((kv.2 : Nat) : Rat) n
      (pure (kv.1, q) : Except String (Nat × Rat)))
      = .ok (Nk.map fun kv => (kv.1, ((kv.2 : Nat) : Rat) / n)) := by
  rcases h with rfl | hn
  · rfl
  · have hf : (fun kv : Nat × Nat => do
        let q ← fdiv ((kv.2 : Nat) : Rat) n
        (pure (kv.1, q) : Except String (Nat × Rat)))
        = fun kv => Except.ok (kv.1, ((kv.2 : Nat) : Rat) / n) := by
      funext kv
      simp [fdiv_ok _ _ hn]
    rw [hf]
    induction Nk with
    | nil => rfl
    | cons a t ih => simp [List.mapM_cons, ih]

/-- the dict returned by `get_Pk` -/
def PkAL (degs : List Nat) : List (Nat × Rat) :=
  (counter degs).map fun kv => (kv.1, ((kv.2 : Nat) : Rat) / ((degs.length : Nat) : Rat))

theorem get_Pk_eq (degs : List Nat) : GenHelp.get_Pk degs = .ok (PkAL degs) := by
  simp only [GenHelp.get_Pk, PkAL]
  apply mapM_fdiv
  cases degs with
  | nil => left; rfl
  | cons a t => right; exact Helpers.length_ne_zero (by simp)

theorem PkAL_keys (degs : List Nat) : (PkAL degs).map (·.1) = degs.eraseDups := by
  simp only [PkAL, List.map_map]
  exact counter_keys degs

theorem PkAL_get (degs : List Nat) (k : Nat) : alGet (PkAL degs) 0 k = Helpers.Pk degs k := by
  have h0 : (0 : Rat) = (fun c : Nat => (c : Rat) / ((degs.length : Nat) : Rat)) 0 := by simp
  rw [PkAL, h0, alGet_map_val (counter degs) (fun c : Nat => (c : Rat) / ((degs.length : Nat) : Rat)) 0 k,
    counter_get]
  rfl

theorem PkAL_ne_nil (degs : List Nat) (h : degs ≠ []) : PkAL degs ≠ [] := by
  intro e
  have := PkAL_keys degs
  rw [e] at this
  cases degs with
  | nil => exact h rfl
  | cons a t => simp [List.eraseDups_cons] at this

theorem PkAL_nil : PkAL [] = [] := rfl

theorem PkAL_maxKey (degs : List Nat) : maxKeyVal (PkAL degs) = Helpers.maxDeg degs := by
  rw [maxKeyVal, PkAL_keys]
  exact maxDeg_congr _ _ (fun x => List.mem_eraseDups)

/-! ### the probability generating functions -/

theorem get_PGF_ok (Pk : List (Nat × Rat)) (h : Pk ≠ []) :
    GenHelp.get_PGF Pk = .ok (fun x => sumRat ((List.range (maxKeyVal Pk + 1)).map fun k => alGet Pk 0 k * x ^ k)) := by
  simp [GenHelp.get_PGF, maxKey_ok Pk h]

theorem get_PGFPrime_ok (Pk : List (Nat × Rat)) (h : Pk ≠ []) :
    GenHelp.get_PGFPrime Pk = .ok (fun x => sumRat ((List.range (maxKeyVal Pk + 1)).map fun k =>
      alGet Pk 0 k * (((k : Nat) : Rat) * x ^ (k - 1)))) := by
  simp [GenHelp.get_PGFPrime, maxKey_ok Pk h]

theorem get_PGFDPrime_ok (Pk : List (Nat × Rat)) (h : Pk ≠ []) :
    GenHelp.get_PGFDPrime Pk = .ok (fun x => sumRat ((List.range (maxKeyVal Pk + 1)).map fun k =>
      alGet Pk 0 k * ((((k : Nat) : Rat) * (((k : Nat) : Rat) - 1)) * x ^ (k - 2)))) := by
  simp [GenHelp.get_PGFDPrime, maxKey_ok Pk h]

theorem get_PGF_PkAL (degs : List Nat) (h : degs ≠ []) : GenHelp.get_PGF (PkAL degs) = .ok (Helpers.psi degs) := by
  rw [get_PGF_ok _ (PkAL_ne_nil degs h), PkAL_maxKey]
  congr 1
  funext x
  simp only [PkAL_get, Helpers.psi]

theorem get_PGFPrime_PkAL (degs : List Nat) (h : degs ≠ []) :
    GenHelp.get_PGFPrime (PkAL degs) = .ok (Helpers.psiP degs) := by
  rw [get_PGFPrime_ok _ (PkAL_ne_nil degs h), PkAL_maxKey]
  congr 1
  funext x
  simp only [PkAL_get, Helpers.psiP]

theorem get_PGFDPrime_PkAL (degs : List Nat) (h : degs ≠ []) :
    GenHelp.get_PGFDPrime (PkAL degs) = .ok (Helpers.psiDP degs) := by
  rw [get_PGFDPrime_ok _ (PkAL_ne_nil degs h), PkAL_maxKey]
  congr 1
  funext x
  simp only [PkAL_get, Helpers.psiDP]

/-! ### `estimate_R0` -/

/-- the transmissibility used by `estimate_R0` -/
def resolveT (tau gamma transmissibility : Option Rat) : Except String Rat :=
  match transmissibility with
  | some t => .ok t
  | none => match tau, gamma with
    | some tau, some gamma => if tau + gamma = 0 then .error "ZeroDivisionError" else .ok (tau / (tau + gamma))
    | _, _ => .error "EoNError"

theorem sumRat_nonneg_eq_zero {γ : Type} (l : List γ) (f : γ → Rat) (h : ∀ c ∈ l, 0 ≤ f c) :
    sumRat (l.map f) = 0 ↔ ∀ c ∈ l, f c = 0 := by
  induction l with
  | nil => simp
  | cons a t ih =>
    have h1 := h a (by simp)
    have h2 := sumRat_map_nonneg t f (fun c hc => h c (by simp [hc]))
    have ih' := ih (fun c hc => h c (by simp [hc]))
    simp only [List.map_cons, sumRat_cons, List.mem_cons, forall_eq_or_imp]
    constructor
    · intro e
      have : f a = 0 := by linarith
      exact ⟨this, ih'.1 (by linarith)⟩
    · rintro ⟨e1, e2⟩
      rw [e1, ih'.2 e2]; ring

/-- `ψ'(1) = 0` exactly when every degree is 0 -/
theorem psiP_one_eq_zero_iff (degs : List Nat) (h : degs ≠ []) :
    Helpers.psiP degs 1 = 0 ↔ ∀ d ∈ degs, d = 0 := by
  have h1 : Helpers.psiP degs 1 = Helpers.meanDeg degs (fun k => (k : Rat)) := by
    rw [← Helpers.sumRat_Pk_mul]
    simp [Helpers.psiP]
  rw [h1, Helpers.meanDeg, div_eq_zero_iff]
  have hl := Helpers.length_ne_zero h
  simp only [hl, or_false]
  rw [sumRat_nonneg_eq_zero _ _ (fun c _ => by positivity)]
  simp

theorem estimate_R0_eq (degs : List Nat) (tau gamma tr : Option Rat) :
    GenHelp.estimate_R0 degs tau gamma tr = resolveT tau gamma tr >>= fun T =>
      if degs = [] then .error "ValueError"
      else if Helpers.psiP degs 1 = 0 then .error "ZeroDivisionError"
      else .ok (Helpers.R0 degs T) := by
  have key : ∀ T : Rat, (do
        let Pk ← GenHelp.get_Pk degs
        let psiDPrime ← GenHelp.get_PGFDPrime Pk
        let psiPrime ← GenHelp.get_PGFPrime Pk
        fdiv (T * psiDPrime 1) (psiPrime 1))
      = (if degs = [] then .error "ValueError"
        else if Helpers.psiP degs 1 = 0 then .error "ZeroDivisionError"
        else .ok (Helpers.R0 degs T) : Except String Rat) := by
    intro T
    by_cases hd : degs = []
    · subst hd
      simp [get_Pk_eq, PkAL_nil, GenHelp.get_PGFDPrime, maxKey_nil]
    · simp only [get_Pk_eq, ok_bind, get_PGFDPrime_PkAL degs hd, get_PGFPrime_PkAL degs hd, hd, if_false]
      by_cases h0 : Helpers.psiP degs 1 = 0
      · simp [h0]
      · simp [fdiv_ok _ _ h0, h0, Helpers.R0]
  cases tr with
  | some t => simpa [GenHelp.estimate_R0, resolveT] using key t
  | none =>
    cases tau with
    | none => simp [GenHelp.estimate_R0, resolveT]
    | some a =>
      cases gamma with
      | none => simp [GenHelp.estimate_R0, resolveT]
      | some b =>
        by_cases hz : a + b = 0
        · simp [GenHelp.estimate_R0, resolveT, hz]
        · simpa [GenHelp.estimate_R0, resolveT, fdiv_ok _ _ hz, hz] using key (a / (a + b))

/-! ### `EBCM_discrete` -/

@[simp] theorem listLast_concat {α : Type} (l : List α) (a : α) : listLast (l ++ [a]) = .ok a := by
  simp [listLast]

/-- `psihatPrime1` after the guard `if psihatPrime1 == 0: psihatPrime1 = 1` -/
def guard (y : Rat) : Rat := if y = 0 then 1 else y

theorem guard_ne_zero (y : Rat) : guard y ≠ 0 := by
  unfold guard
  split <;> simp_all

theorem guard_of_ne (y : Rat) (h : y ≠ 0) : guard y = y := by simp [guard, h]

/-- the state of the discrete EBCM at one time: (θ, R, S, I) -/
abbrev EState := Rat × Rat × Rat × Rat

/-- the θ-iteration shared by `EBCM_discrete` and `Attack_rate_discrete` -/
def thetaMap (f' : Rat → Rat) (p phiS0 phiR0 th : Rat) : Rat :=
  (1 - p) + p * (phiR0 + phiS0 * f' th / guard (f' 1))

/-- one pass of the loop of `EBCM_discrete` -/
def ebcmNext (N : Rat) (f f' : Rat → Rat) (p phiS0 phiR0 : Rat) (x : EState) : EState :=
  let th' := thetaMap f' p phiS0 phiR0 x.1
  let R' := x.2.1 + x.2.2.2
  let S' := N * f th'
  (th', R', S', N - R' - S')

def ebcmInit (N : Rat) (f : Rat → Rat) (R0 : Rat) : EState := (1, R0, N * f 1, N - N * f 1 - R0)

/-- the state after `n` steps -/
def ebcmTraj (N : Rat) (f f' : Rat → Rat) (p phiS0 phiR0 R0 : Rat) (n : Nat) : EState :=
  (ebcmNext N f f' p phiS0 phiR0)^[n] (ebcmInit N f R0)

/-- the loop of `EBCM_discrete`, for any body that appends the next state -/
theorem ebcm_loop (next : EState → EState)
    (body : List Rat × List Rat × List Rat × List Rat × List Rat → Int →
      Except String (List Rat × List Rat × List Rat × List Rat × List Rat))
    (hb : ∀ (tm th R S I : List Rat) (x : EState) (t : Int),
      body (tm, th ++ [x.1], R ++ [x.2.1], S ++ [x.2.2.1], I ++ [x.2.2.2]) t
        = .ok (tm ++ [((t : Int) : Rat)], th ++ [x.1] ++ [(next x).1], R ++ [x.2.1] ++ [(next x).2.1],
            S ++ [x.2.2.1] ++ [(next x).2.2.1], I ++ [x.2.2.2] ++ [(next x).2.2.2]))
    (steps : List Int) (tm th R S I : List Rat) (x : EState) :
    steps.foldlM body (tm, th ++ [x.1], R ++ [x.2.1], S ++ [x.2.2.1], I ++ [x.2.2.2])
      = .ok (tm ++ steps.map (fun t => ((t : Int) : Rat)),
          th ++ [x.1] ++ (List.range steps.length).map (fun j => (next^[j + 1] x).1),
          R ++ [x.2.1] ++ (List.range steps.length).map (fun j => (next^[j + 1] x).2.1),
          S ++ [x.2.2.1] ++ (List.range steps.length).map (fun j => (next^[j + 1] x).2.2.1),
          I ++ [x.2.2.2] ++ (List.range steps.length).map (fun j => (next^[j + 1] x).2.2.2)) := by
  induction steps generalizing tm th R S I x with
  | nil => simp
  | cons t ts ih =>
    rw [List.foldlM_cons, hb, ok_bind, ih (tm ++ [((t : Int) : Rat)]) (th ++ [x.1]) (R ++ [x.2.1]) (S ++ [x.2.2.1])
      (I ++ [x.2.2.2]) (next x)]
    simp only [List.length_cons, List.range_succ_eq_map, List.map_cons, List.map_map, List.append_assoc,
      List.cons_append, List.nil_append, Function.iterate_succ, Function.comp_apply, Function.iterate_zero, id_eq]
    rfl

theorem range_succ_map_cons {α : Type} (F : Nat → α) (m : Nat) :
    F 0 :: (List.range m).map (fun j => F (j + 1)) = (List.range (m + 1)).map F := by
  rw [List.range_succ_eq_map, List.map_cons, List.map_map]
  rfl

/-- **`EBCM_discrete` with total callbacks**: never an error; the columns are the trajectory of `ebcmNext` -/
theorem EBCM_discrete_eq (N : Rat) (f f' : Rat → Rat) (p phiS0 phiR0 R0 : Rat) (tmin tmax : Int) (full : Bool) :
    GenHelp.EBCM_discrete N (fun x => pure (f x)) (fun x => pure (f' x)) p phiS0 phiR0 R0 tmin tmax full
      = .ok (
        let m := (tmax - tmin).toNat
        let tr := ebcmTraj N f f' p phiS0 phiR0 R0
        let times := (List.range (m + 1)).map (fun (j : Nat) => ((tmin + (j : Int) : Int) : Rat))
        let S := (List.range (m + 1)).map (fun j => (tr j).2.2.1)
        let I := (List.range (m + 1)).map (fun j => (tr j).2.2.2)
        let R := (List.range (m + 1)).map (fun j => (tr j).2.1)
        let theta := (List.range (m + 1)).map (fun j => (tr j).1)
        if full then [times, S, I, R, theta] else [times, S, I, R]) := by
  unfold GenHelp.EBCM_discrete
  simp only [pure_eq_ok, ok_bind]
  have key : ∀ body : List Rat × List Rat × List Rat × List Rat × List Rat → Int →
        Except String (List Rat × List Rat × List Rat × List Rat × List Rat),
      (∀ (tm th R S I : List Rat) (x : EState) (t : Int),
        body (tm, th ++ [x.1], R ++ [x.2.1], S ++ [x.2.2.1], I ++ [x.2.2.2]) t
          = .ok (tm ++ [((t : Int) : Rat)], th ++ [x.1] ++ [(ebcmNext N f f' p phiS0 phiR0 x).1],
              R ++ [x.2.1] ++ [(ebcmNext N f f' p phiS0 phiR0 x).2.1],
              S ++ [x.2.2.1] ++ [(ebcmNext N f f' p phiS0 phiR0 x).2.2.1],
              I ++ [x.2.2.2] ++ [(ebcmNext N f f' p phiS0 phiR0 x).2.2.2])) →
      ∀ steps : List Int,
      steps.foldlM body ([((tmin : Int) : Rat)], [1], [R0], [N * f 1], [N - N * f 1 - R0])
        = .ok ([((tmin : Int) : Rat)] ++ steps.map (fun t => ((t : Int) : Rat)),
          [1] ++ (List.range steps.length).map (fun j => ((ebcmNext N f f' p phiS0 phiR0)^[j + 1] (ebcmInit N f R0)).1),
          [R0] ++ (List.range steps.length).map (fun j => ((ebcmNext N f f' p phiS0 phiR0)^[j + 1] (ebcmInit N f R0)).2.1),
          [N * f 1] ++ (List.range steps.length).map
            (fun j => ((ebcmNext N f f' p phiS0 phiR0)^[j + 1] (ebcmInit N f R0)).2.2.1),
          [N - N * f 1 - R0] ++ (List.range steps.length).map
            (fun j => ((ebcmNext N f f' p phiS0 phiR0)^[j + 1] (ebcmInit N f R0)).2.2.2)) := by
    intro body hb steps
    exact ebcm_loop (ebcmNext N f f' p phiS0 phiR0) body hb steps [((tmin : Int) : Rat)] [] [] [] [] (ebcmInit N f R0)
  rw [key]
  · simp only [ok_bind, List.length_map, List.length_range, List.singleton_append, ← range_succ_map_cons, ebcmTraj,
      Function.iterate_zero, id_eq, ebcmInit, List.map_map]
    have ht : (List.map ((fun t : Int => (t : Rat)) ∘ fun j : Nat => tmin + 1 + (j : Int)) (List.range (tmax - tmin).toNat))
        = List.map (fun j : Nat => ((tmin + ((j + 1 : Nat) : Int) : Int) : Rat)) (List.range (tmax - tmin).toNat) := by
      apply List.map_congr_left
      intro j _
      simp only [Function.comp_apply]
      push_cast
      ring
    rw [ht]
    cases full <;> simp
  · intro tm th R S I x t
    have hg : (if decide (f' 1 = 0) = true then (1 : Rat) else f' 1) = guard (f' 1) := by simp [guard]
    simp only [listLast_concat, ok_bind, hg, fdiv_ok _ _ (guard_ne_zero _)]
    rfl

/-! ### the trajectory of `EBCM_discrete` -/

theorem ebcmTraj_zero (N : Rat) (f f' : Rat → Rat) (p phiS0 phiR0 R0 : Rat) :
    ebcmTraj N f f' p phiS0 phiR0 R0 0 = ebcmInit N f R0 := rfl

theorem ebcmTraj_succ (N : Rat) (f f' : Rat → Rat) (p phiS0 phiR0 R0 : Rat) (n : Nat) :
    ebcmTraj N f f' p phiS0 phiR0 R0 (n + 1) = ebcmNext N f f' p phiS0 phiR0 (ebcmTraj N f f' p phiS0 phiR0 R0 n) :=
  Function.iterate_succ_apply' _ _ _

theorem ebcmTraj_theta (N : Rat) (f f' : Rat → Rat) (p phiS0 phiR0 R0 : Rat) (n : Nat) :
    (ebcmTraj N f f' p phiS0 phiR0 R0 n).1 = (thetaMap f' p phiS0 phiR0)^[n] 1 := by
  induction n with
  | zero => rfl
  | succ n ih => rw [ebcmTraj_succ, Function.iterate_succ_apply', ← ih]; rfl

theorem ebcmTraj_S (N : Rat) (f f' : Rat → Rat) (p phiS0 phiR0 R0 : Rat) (n : Nat) :
    (ebcmTraj N f f' p phiS0 phiR0 R0 n).2.2.1 = N * f (ebcmTraj N f f' p phiS0 phiR0 R0 n).1 := by
  cases n with
  | zero => rfl
  | succ n => rw [ebcmTraj_succ]; rfl

theorem ebcmTraj_conserve (N : Rat) (f f' : Rat → Rat) (p phiS0 phiR0 R0 : Rat) (n : Nat) :
    (ebcmTraj N f f' p phiS0 phiR0 R0 n).2.2.1 + (ebcmTraj N f f' p phiS0 phiR0 R0 n).2.2.2
      + (ebcmTraj N f f' p phiS0 phiR0 R0 n).2.1 = N := by
  cases n with
  | zero => simp only [ebcmTraj_zero, ebcmInit]; ring
  | succ n => rw [ebcmTraj_succ]; simp only [ebcmNext]; ring

theorem ebcmTraj_R (N : Rat) (f f' : Rat → Rat) (p phiS0 phiR0 R0 : Rat) (n : Nat) :
    (ebcmTraj N f f' p phiS0 phiR0 R0 (n + 1)).2.1
      = (ebcmTraj N f f' p phiS0 phiR0 R0 n).2.1 + (ebcmTraj N f f' p phiS0 phiR0 R0 n).2.2.2 := by
  rw [ebcmTraj_succ]; rfl

/-! ### sums over `Pk.keys()` with dict reads -/

theorem fold_keys_ok (step : Rat → Nat → Except String Rat) (g : Nat → Rat) (l : List Nat) (a : Rat)
    (h : ∀ k ∈ l, ∀ acc, step acc k = .ok (acc + g k)) :
    l.foldlM step a = .ok (a + sumRat (l.map g)) := by
  induction l generalizing a with
  | nil => simp
  | cons x t ih =>
    rw [List.foldlM_cons, h x (by simp), ok_bind, ih _ (fun k hk => h k (by simp [hk]))]
    simp; ring

theorem fold_keys_err (step : Rat → Nat → Except String Rat) (g : Nat → Rat) (e : String) (l : List Nat) (a : Rat)
    (h : ∀ k ∈ l, (∀ acc, step acc k = .ok (acc + g k)) ∨ (∀ acc, step acc k = .error e))
    (hex : ∃ k ∈ l, ∀ acc, step acc k = .error e) :
    l.foldlM step a = .error e := by
  induction l generalizing a with
  | nil => simp at hex
  | cons x t ih =>
    rw [List.foldlM_cons]
    rcases h x (by simp) with hx | hx
    · rw [hx, ok_bind]
      apply ih _ (fun k hk => h k (by simp [hk]))
      obtain ⟨k, hk, hk'⟩ := hex
      rcases List.mem_cons.1 hk with rfl | hk
      · have := hx 0
        rw [hk' 0] at this
        cases this
      · exact ⟨k, hk, hk'⟩
    · rw [hx, err_bind]

/-- `psihat` of `Attack_rate_discrete` / `Attack_rate_cts_time` as generated -/
def genPsihat (Pk Sk0 : List (Nat × Rat)) : Rat → Except String Rat := fun x => do
  let s_1 ← (Pk.map (·.1)).foldlM (fun (acc : Rat) (k : Nat) => do
      if true then do
        let d_51 ← PyRT.dictGet Pk k
        let d_52 ← PyRT.dictGet Sk0 k
        pure (acc + ((d_51 * d_52) * (x ^ k)))
      else pure acc) 0
  pure s_1

/-- `psihatPrime` as generated -/
def genPsihatP (Pk Sk0 : List (Nat × Rat)) : Rat → Except String Rat := fun x => do
  let s_1 ← (Pk.map (·.1)).foldlM (fun (acc : Rat) (k : Nat) => do
      if decide (k > 0) then do
        let d_51 ← PyRT.dictGet Pk k
        let d_52 ← PyRT.dictGet Sk0 k
        pure (acc + (((((k : Nat) : Rat) * d_51) * d_52) * (x ^ (k - 1))))
      else pure acc) 0
  pure s_1

/-- the default of `phiS0` as generated -/
def genPhiS0 (Pk : List (Nat × Rat)) (psihatPrime : Rat → Except String Rat) (phiS0 : Option Rat) : Except String Rat :=
  match phiS0 with
  | some v_ => pure v_
  | none => do
    let y_1 ← psihatPrime (1 : Rat)
    let s_2 ← (Pk.map (·.1)).foldlM (fun (acc : Rat) (k : Nat) => do
        if true then do
          let d_52 ← PyRT.dictGet Pk k
          pure (acc + (((k : Nat) : Rat) * d_52))
        else pure acc) 0
    let q_3 ← PyTM.fdiv y_1 s_2
    pure q_3

/-- everything of `Attack_rate_discrete` after `psihat`, `psihatPrime` are defined -/
def attackDiscTail (Pk : List (Nat × Rat)) (psihat psihatPrime : Rat → Except String Rat) (p : Rat)
    (phiS0 phiR0 : Option Rat) (number_its : Nat) : Except String Rat := do
  let phiS0 ← genPhiS0 Pk psihatPrime phiS0
  let phiR0 ← (match phiR0 with
    | some v_ => pure v_
    | none => do
      pure (0 : Rat))
  let theta : Rat := (1 : Rat)
  let y_4 ← psihatPrime (1 : Rat)
  let psihatPrime1 : Rat := y_4
  let psihatPrime1 := if decide (psihatPrime1 = (0 : Rat)) then (1 : Rat) else psihatPrime1
  let theta ← (List.range number_its).foldlM (fun (theta : Rat) (_ : Nat) => do
    let y_5 ← psihatPrime theta
    let q_6 ← PyTM.fdiv (phiS0 * y_5) psihatPrime1
    pure (((1 : Rat) - p) + (p * (phiR0 + q_6)))) theta
  let y_7 ← psihat theta
  pure ((1 : Rat) - y_7)

set_option linter.unusedVariables false in
/-- everything of `Attack_rate_cts_time` after `psihat`, `psihatPrime` are defined -/
def attackCtsTail (Pk : List (Nat × Rat)) (psihat psihatPrime : Rat → Except String Rat) (tau gamma : Rat)
    (number_its : Nat) (phiS0 phiR0 : Option Rat) : Except String Rat := do
  let phiS0 ← genPhiS0 Pk psihatPrime phiS0
  let phiR0 ← (match phiR0 with
    | some v_ => pure v_
    | none => do
      pure (0 : Rat))
  let s_4 ← (Pk.map (·.1)).foldlM (fun (acc : Rat) (k : Nat) => do
      if true then do
        let d_54 ← PyRT.dictGet Pk k
        pure (acc + (d_54 * ((k : Nat) : Rat)))
      else pure acc) 0
  let kave : Rat := s_4
  let q_5 ← PyTM.fdiv gamma (gamma + tau)
  let omega : Rat := q_5
  let y_6 ← psihatPrime (1 : Rat)
  let psihatPrime1 : Rat := y_6
  let psihatPrime1 := if decide (psihatPrime1 = (0 : Rat)) then (1 : Rat) else psihatPrime1
  let omega ← (List.range number_its).foldlM (fun (omega : Rat) (_ : Nat) => do
    let q_7 ← PyTM.fdiv gamma (gamma + tau)
    let y_8 ← psihatPrime omega
    let q_9 ← PyTM.fdiv ((tau * phiS0) * y_8) (psihatPrime1 * (gamma + tau))
    let q_10 ← PyTM.fdiv (tau * phiR0) (gamma + tau)
    pure ((q_7 + q_9) + q_10)) omega
  let y_11 ← psihat omega
  pure ((1 : Rat) - y_11)

/-- the generated `Attack_rate_discrete`, split at the definition of `Sk0` -/
theorem Attack_rate_discrete_some (Pk : List (Nat × Rat)) (p : Rat) (d : List (Nat × Rat)) (phiS0 phiR0 : Option Rat)
    (n : Nat) : GenHelp.Attack_rate_discrete Pk p none (some d) phiS0 phiR0 n
      = attackDiscTail Pk (genPsihat Pk d) (genPsihatP Pk d) p phiS0 phiR0 n := rfl

theorem Attack_rate_discrete_both (Pk : List (Nat × Rat)) (p r : Rat) (d : List (Nat × Rat)) (phiS0 phiR0 : Option Rat)
    (n : Nat) : GenHelp.Attack_rate_discrete Pk p (some r) (some d) phiS0 phiR0 n = .error "EoNError" := rfl

theorem Attack_rate_discrete_none (Pk : List (Nat × Rat)) (p : Rat) (phiS0 phiR0 : Option Rat) (n : Nat) :
    GenHelp.Attack_rate_discrete Pk p none none phiS0 phiR0 n = GenHelp.Epi_Prob_discrete Pk p n := by
  cases h : GenHelp.Epi_Prob_discrete Pk p n <;> simp [GenHelp.Attack_rate_discrete, h]

theorem Attack_rate_discrete_rho_zero (Pk : List (Nat × Rat)) (p : Rat) (phiS0 phiR0 : Option Rat) (n : Nat) :
    GenHelp.Attack_rate_discrete Pk p (some 0) none phiS0 phiR0 n = GenHelp.Epi_Prob_discrete Pk p n := by
  cases h : GenHelp.Epi_Prob_discrete Pk p n <;> simp [GenHelp.Attack_rate_discrete, h]

theorem Attack_rate_discrete_rho (Pk : List (Nat × Rat)) (p r : Rat) (hr : r ≠ 0) (phiS0 phiR0 : Option Rat) (n : Nat) :
    GenHelp.Attack_rate_discrete Pk p (some r) none phiS0 phiR0 n
      = attackDiscTail Pk (genPsihat Pk (Pk.map fun kv => (kv.1, 1 - r)))
          (genPsihatP Pk (Pk.map fun kv => (kv.1, 1 - r))) p phiS0 phiR0 n := by
  simp only [GenHelp.Attack_rate_discrete, Option.isSome_some, Option.isSome_none, Bool.and_false, Option.isNone_some,
    Option.some.injEq, hr, decide_false, Bool.or_false]
  rfl

theorem Attack_rate_cts_both (Pk : List (Nat × Rat)) (tau gamma r : Rat) (d : List (Nat × Rat)) (phiS0 phiR0 : Option Rat)
    (n : Nat) : GenHelp.Attack_rate_cts_time Pk tau gamma n (some r) (some d) phiS0 phiR0 = .error "EoNError" := rfl

theorem Attack_rate_cts_some (Pk : List (Nat × Rat)) (tau gamma : Rat) (d : List (Nat × Rat)) (phiS0 phiR0 : Option Rat)
    (n : Nat) : GenHelp.Attack_rate_cts_time Pk tau gamma n none (some d) phiS0 phiR0
      = attackCtsTail Pk (genPsihat Pk d) (genPsihatP Pk d) tau gamma n phiS0 phiR0 := rfl

theorem Attack_rate_cts_none (Pk : List (Nat × Rat)) (tau gamma : Rat) (rho : Option Rat) (phiS0 phiR0 : Option Rat)
    (n : Nat) : GenHelp.Attack_rate_cts_time Pk tau gamma n rho none phiS0 phiR0
      = attackCtsTail Pk (genPsihat Pk (Pk.map fun kv => (kv.1, 1 - rho.getD 0)))
          (genPsihatP Pk (Pk.map fun kv => (kv.1, 1 - rho.getD 0))) tau gamma n phiS0 phiR0 := by
  cases rho <;> rfl

/-! ### the callbacks of the attack-rate functions as sums -/

/-- ψ̂(x) = Σ_{k ∈ Pk.keys()} Pk[k]·Sk0[k]·x^k -/
def psiHatAL (Pk Sk0 : List (Nat × Rat)) (x : Rat) : Rat :=
  sumRat ((Pk.map (·.1)).map fun k => (alGet Pk 0 k * alGet Sk0 0 k) * x ^ k)

/-- ψ̂'(x) = Σ_{k ∈ Pk.keys(), k > 0} k·Pk[k]·Sk0[k]·x^(k-1) -/
def psiHatPAL (Pk Sk0 : List (Nat × Rat)) (x : Rat) : Rat :=
  sumRat ((Pk.map (·.1)).map fun k =>
    if 0 < k then ((((k : Nat) : Rat) * alGet Pk 0 k) * alGet Sk0 0 k) * x ^ (k - 1) else 0)

/-- Σ_k k·Pk[k] -/
def kAveAL (Pk : List (Nat × Rat)) : Rat := sumRat ((Pk.map (·.1)).map fun k => ((k : Nat) : Rat) * alGet Pk 0 k)

theorem genPsihat_ok (Pk Sk0 : List (Nat × Rat)) (h : ∀ k ∈ Pk.map (·.1), alHas Sk0 k = true) :
    genPsihat Pk Sk0 = fun x => .ok (psiHatAL Pk Sk0 x) := by
  funext x
  unfold genPsihat
  rw [fold_keys_ok _ (fun k => (alGet Pk 0 k * alGet Sk0 0 k) * x ^ k)]
  · simp [psiHatAL]
  · intro k hk acc
    simp [dictGet_of_has Pk k 0 (alHas_of_mem_keys Pk k hk), dictGet_of_has Sk0 k 0 (h k hk)]

theorem genPsihat_err (Pk Sk0 : List (Nat × Rat)) (h : ∃ k ∈ Pk.map (·.1), alHas Sk0 k = false) (x : Rat) :
    genPsihat Pk Sk0 x = .error "KeyError" := by
  unfold genPsihat
  rw [fold_keys_err _ (fun k => (alGet Pk 0 k * alGet Sk0 0 k) * x ^ k) "KeyError"]
  · intro k hk
    cases hS : alHas Sk0 k with
    | true =>
      left; intro acc
      simp [dictGet_of_has Pk k 0 (alHas_of_mem_keys Pk k hk), dictGet_of_has Sk0 k 0 hS]
    | false =>
      right; intro acc
      simp [dictGet_of_has Pk k 0 (alHas_of_mem_keys Pk k hk), dictGet_of_not_has Sk0 k hS]
  · obtain ⟨k, hk, hS⟩ := h
    refine ⟨k, hk, fun acc => ?_⟩
    simp [dictGet_of_has Pk k 0 (alHas_of_mem_keys Pk k hk), dictGet_of_not_has Sk0 k hS]

theorem genPsihatP_ok (Pk Sk0 : List (Nat × Rat)) (h : ∀ k ∈ Pk.map (·.1), 0 < k → alHas Sk0 k = true) :
    genPsihatP Pk Sk0 = fun x => .ok (psiHatPAL Pk Sk0 x) := by
  funext x
  unfold genPsihatP
  rw [fold_keys_ok _ (fun k => if 0 < k then ((((k : Nat) : Rat) * alGet Pk 0 k) * alGet Sk0 0 k) * x ^ (k - 1) else 0)]
  · simp [psiHatPAL]
  · intro k hk acc
    by_cases hk0 : 0 < k
    · simp [hk0, dictGet_of_has Pk k 0 (alHas_of_mem_keys Pk k hk), dictGet_of_has Sk0 k 0 (h k hk hk0)]
    · simp [hk0]

theorem genPsihatP_err (Pk Sk0 : List (Nat × Rat)) (h : ∃ k ∈ Pk.map (·.1), 0 < k ∧ alHas Sk0 k = false) (x : Rat) :
    genPsihatP Pk Sk0 x = .error "KeyError" := by
  unfold genPsihatP
  rw [fold_keys_err _ (fun k => if 0 < k then ((((k : Nat) : Rat) * alGet Pk 0 k) * alGet Sk0 0 k) * x ^ (k - 1) else 0)
    "KeyError"]
  · intro k hk
    by_cases hk0 : 0 < k
    · cases hS : alHas Sk0 k with
      | true =>
        left; intro acc
        simp [hk0, dictGet_of_has Pk k 0 (alHas_of_mem_keys Pk k hk), dictGet_of_has Sk0 k 0 hS]
      | false =>
        right; intro acc
        simp [hk0, dictGet_of_has Pk k 0 (alHas_of_mem_keys Pk k hk), dictGet_of_not_has Sk0 k hS]
    · left; intro acc
      simp [hk0]
  · obtain ⟨k, hk, hk0, hS⟩ := h
    refine ⟨k, hk, fun acc => ?_⟩
    simp [hk0, dictGet_of_has Pk k 0 (alHas_of_mem_keys Pk k hk), dictGet_of_not_has Sk0 k hS]

/-- the default `phiS0 = psihatPrime(1) / Σ k Pk[k]` for a total `psihatPrime` -/
def resolvePhiS0 (Pk : List (Nat × Rat)) (f'1 : Rat) (phiS0 : Option Rat) : Except String Rat :=
  match phiS0 with
  | some v => .ok v
  | none => if kAveAL Pk = 0 then .error "ZeroDivisionError" else .ok (f'1 / kAveAL Pk)

theorem genPhiS0_total (Pk : List (Nat × Rat)) (f' : Rat → Rat) (phiS0 : Option Rat) :
    genPhiS0 Pk (fun x => .ok (f' x)) phiS0 = resolvePhiS0 Pk (f' 1) phiS0 := by
  cases phiS0 with
  | some v => rfl
  | none =>
    simp only [genPhiS0, resolvePhiS0, ok_bind]
    rw [fold_keys_ok _ (fun k => ((k : Nat) : Rat) * alGet Pk 0 k)]
    · simp only [ok_bind, zero_add]
      change fdiv (f' 1) (kAveAL Pk) = _
      by_cases hz : kAveAL Pk = 0
      · simp [hz]
      · simp [fdiv_ok _ _ hz, hz]
    · intro k hk acc
      simp [dictGet_of_has Pk k 0 (alHas_of_mem_keys Pk k hk)]

theorem genPhiS0_err (Pk : List (Nat × Rat)) (psihatPrime : Rat → Except String Rat) (e : String)
    (h : psihatPrime 1 = .error e) : genPhiS0 Pk psihatPrime none = .error e := by
  simp [genPhiS0, h]

/-- **the tail of `Attack_rate_discrete` for total callbacks** -/
theorem attackDiscTail_total (Pk : List (Nat × Rat)) (f f' : Rat → Rat) (p : Rat) (phiS0 phiR0 : Option Rat) (n : Nat) :
    attackDiscTail Pk (fun x => .ok (f x)) (fun x => .ok (f' x)) p phiS0 phiR0 n
      = resolvePhiS0 Pk (f' 1) phiS0 >>= fun S0 => .ok (1 - f ((thetaMap f' p S0 (phiR0.getD 0))^[n] 1)) := by
  unfold attackDiscTail
  rw [genPhiS0_total]
  cases hS : resolvePhiS0 Pk (f' 1) phiS0 with
  | error e => rfl
  | ok S0 =>
    have hg : (if decide (f' 1 = 0) = true then (1 : Rat) else f' 1) = guard (f' 1) := by simp [guard]
    cases phiR0 <;>
    · simp only [ok_bind, hg, fdiv_ok _ _ (guard_ne_zero _), pure_eq_ok, Option.getD]
      rw [foldlM_range_iterate (fun th => 1 - p + p * (_ + S0 * f' th / guard (f' 1)))]
      rfl

/-- the ω-iteration of `Attack_rate_cts_time` -/
def omegaMap (f' : Rat → Rat) (tau gamma phiS0 phiR0 om : Rat) : Rat :=
  (gamma / (gamma + tau) + (tau * phiS0) * f' om / (guard (f' 1) * (gamma + tau))) + (tau * phiR0) / (gamma + tau)

/-- **the tail of `Attack_rate_cts_time` for total callbacks** -/
theorem attackCtsTail_total (Pk : List (Nat × Rat)) (f f' : Rat → Rat) (tau gamma : Rat) (n : Nat)
    (phiS0 phiR0 : Option Rat) :
    attackCtsTail Pk (fun x => .ok (f x)) (fun x => .ok (f' x)) tau gamma n phiS0 phiR0
      = resolvePhiS0 Pk (f' 1) phiS0 >>= fun S0 =>
          if gamma + tau = 0 then .error "ZeroDivisionError"
          else .ok (1 - f ((omegaMap f' tau gamma S0 (phiR0.getD 0))^[n] (gamma / (gamma + tau)))) := by
  unfold attackCtsTail
  rw [genPhiS0_total]
  cases hS : resolvePhiS0 Pk (f' 1) phiS0 with
  | error e => rfl
  | ok S0 =>
    have hg : (if decide (f' 1 = 0) = true then (1 : Rat) else f' 1) = guard (f' 1) := by simp [guard]
    rw [fold_keys_ok _ (fun k => alGet Pk 0 k * ((k : Nat) : Rat))]
    · by_cases hz : gamma + tau = 0
      · cases phiR0 <;> simp [hz]
      · have hgz : guard (f' 1) * (gamma + tau) ≠ 0 := mul_ne_zero (guard_ne_zero _) hz
        cases phiR0 <;>
        · simp only [ok_bind, hg, fdiv_ok _ _ hz, fdiv_ok _ _ hgz, pure_eq_ok, hz, if_false, Option.getD]
          rw [foldlM_range_iterate (fun om => gamma / (gamma + tau) + tau * S0 * f' om / (guard (f' 1) * (gamma + tau))
            + tau * _ / (gamma + tau))]
          rfl
    · intro k hk acc
      simp [dictGet_of_has Pk k 0 (alHas_of_mem_keys Pk k hk)]

/-! ### `Epi_Prob_discrete` -/

/-- the polynomial returned by `get_PGF(Pk)` -/
def psiAL (Pk : List (Nat × Rat)) (x : Rat) : Rat :=
  sumRat ((List.range (maxKeyVal Pk + 1)).map fun k => alGet Pk 0 k * x ^ k)
/-- the polynomial returned by `get_PGFPrime(Pk)` -/
def psiPAL (Pk : List (Nat × Rat)) (x : Rat) : Rat :=
  sumRat ((List.range (maxKeyVal Pk + 1)).map fun k => alGet Pk 0 k * (((k : Nat) : Rat) * x ^ (k - 1)))
/-- the polynomial returned by `get_PGFDPrime(Pk)` -/
def psiDPAL (Pk : List (Nat × Rat)) (x : Rat) : Rat :=
  sumRat ((List.range (maxKeyVal Pk + 1)).map fun k =>
    alGet Pk 0 k * ((((k : Nat) : Rat) * (((k : Nat) : Rat) - 1)) * x ^ (k - 2)))

/-- the α-iteration of `Epi_Prob_discrete` -/
def alphaMap (f' : Rat → Rat) (p a : Rat) : Rat := (1 - p) + p * f' a / f' 1

theorem Epi_Prob_discrete_nil (p : Rat) (n : Nat) : GenHelp.Epi_Prob_discrete [] p n = .error "ValueError" := rfl

theorem Epi_Prob_discrete_eq (Pk : List (Nat × Rat)) (h : Pk ≠ []) (p : Rat) (n : Nat) :
    GenHelp.Epi_Prob_discrete Pk p n =
      if 0 < n ∧ psiPAL Pk 1 = 0 then .error "ZeroDivisionError"
      else .ok (1 - psiAL Pk ((alphaMap (psiPAL Pk) p)^[n] (1 - p))) := by
  unfold GenHelp.Epi_Prob_discrete
  rw [get_PGF_ok Pk h, get_PGFPrime_ok Pk h]
  simp only [ok_bind, pure_eq_ok]
  change (do
      let alpha ← (List.range n).foldlM (fun (alpha : Rat) (_ : Nat) => do
        let q_5 ← fdiv (p * psiPAL Pk alpha) (psiPAL Pk 1)
        (Except.ok (1 - p + q_5) : Except String Rat)) (1 - p)
      (Except.ok (1 - psiAL Pk alpha) : Except String Rat)) = _
  by_cases hz : psiPAL Pk 1 = 0
  · rcases Nat.eq_zero_or_pos n with rfl | hn
    · simp
    · rw [foldlM_range_error "ZeroDivisionError" n hn]
      · simp [hn, hz]
      · intro s i
        simp [hz]
  · simp only [fdiv_ok _ _ hz, ok_bind, hz, and_false, if_false]
    rw [foldlM_range_iterate (fun a => 1 - p + p * psiPAL Pk a / psiPAL Pk 1)]
    rfl

/-! ### the key sums as the coefficient sums of Model/ODE.lean -/

theorem filter_eq_length_nodup (l : List Nat) (hn : l.Nodup) (k : Nat) :
    (l.filter fun v => v = k).length = if k ∈ l then 1 else 0 := by
  induction l with
  | nil => simp
  | cons a t ih =>
    rw [List.nodup_cons] at hn
    by_cases h : a = k
    · subst h
      have h0 : (t.filter fun v => v = a).length = 0 := by rw [ih hn.2]; simp [hn.1]
      rw [List.filter_cons_of_pos (by simp), List.length_cons, h0]
      simp
    · have h' : ¬ k = a := fun e => h e.symm
      rw [List.filter_cons_of_neg (by simpa using h), ih hn.2]
      simp [h']

/-- a sum over a duplicate-free key list, all keys `< K`, of a function vanishing off the keys, is the sum over `0..K-1` -/
theorem sumRat_keys_eq_sumTo (l : List Nat) (hn : l.Nodup) (K : Nat) (hK : ∀ k ∈ l, k < K) (g : Nat → Rat)
    (h0 : ∀ k, k ∉ l → g k = 0) : sumRat (l.map g) = ODE.sumTo K g := by
  cases K with
  | zero =>
    cases l with
    | nil => rfl
    | cons a t => exact absurd (hK a (by simp)) (by omega)
  | succ n =>
    have := Helpers.sumRat_count_general l id g n (fun v hv => Nat.lt_succ_iff.1 (hK v hv))
    simp only [id_eq] at this
    rw [← this, ODE.sumTo]
    apply sumRat_map_congr
    intro k _
    rw [filter_eq_length_nodup l hn k]
    by_cases hk : k ∈ l
    · simp [hk]
    · simp [hk, h0 k hk]

theorem alGet_of_not_key {ν : Type} (d : List (Nat × ν)) (dflt : ν) (k : Nat) (h : k ∉ d.map (·.1)) :
    alGet d dflt k = dflt := by
  apply alGet_of_not_alHas
  cases hh : alHas d k with
  | false => rfl
  | true => exact absurd ((mem_alKeys_iff d k).2 hh) h

/-- for a dict `Pk` (distinct keys, all `< K`): ψ̂ and ψ̂' of the attack-rate functions are `ODE.psiH K c`, `ODE.psiHP K c`
with the coefficients `c k = Pk.get(k,0)·Sk0.get(k,0)` -/
theorem psiHatAL_eq_psiH (Pk Sk0 : List (Nat × Rat)) (hn : (Pk.map (·.1)).Nodup) (K : Nat)
    (hK : ∀ k ∈ Pk.map (·.1), k < K) (x : Rat) :
    psiHatAL Pk Sk0 x = ODE.psiH K (fun k => alGet Pk 0 k * alGet Sk0 0 k) x := by
  unfold psiHatAL ODE.psiH
  apply sumRat_keys_eq_sumTo _ hn K hK
  intro k hk
  simp [alGet_of_not_key Pk 0 k hk]

theorem psiHatPAL_eq_psiHP (Pk Sk0 : List (Nat × Rat)) (hn : (Pk.map (·.1)).Nodup) (K : Nat)
    (hK : ∀ k ∈ Pk.map (·.1), k < K) (x : Rat) :
    psiHatPAL Pk Sk0 x = ODE.psiHP K (fun k => alGet Pk 0 k * alGet Sk0 0 k) x := by
  unfold psiHatPAL ODE.psiHP
  rw [sumRat_keys_eq_sumTo _ hn K hK]
  · apply ODE.sumTo_congr
    intro k _
    by_cases hk : 0 < k
    · simp only [hk, if_true, ODE.kf]; ring
    · have : k = 0 := by omega
      subst this
      simp [ODE.kf]
  · intro k hk
    simp [alGet_of_not_key Pk 0 k hk]

/-! ### `get_Pnk` -/

/-- `Pnk[k1][k2]` read with the defaults of the two `defaultdict`s -/
def pnkVal (P : List (Nat × List (Nat × Rat))) (k1 k2 : Nat) : Rat := alGet (alGet P [] k1) 0 k2

theorem alGet_const {κ ν : Type} [DecidableEq κ] (l : List (κ × ν)) (d : ν) (k : κ) (h : ∀ p ∈ l, p.2 = d) :
    alGet l d k = d := by
  induction l with
  | nil => rfl
  | cons p t ih =>
    obtain ⟨k', v⟩ := p
    have hv : v = d := h (k', v) (by simp)
    have := ih (fun p hp => h p (by simp [hp]))
    by_cases hk : k' = k <;> simp [alGet, hk, hv, this]

theorem pnk_init_rows (degs : List Nat) (acc : List (Nat × List (Nat × Rat))) (h : ∀ p ∈ acc, p.2 = []) :
    ∀ p ∈ degs.foldl (fun acc k1 => if alHas acc k1 then acc else acc ++ [(k1, [])]) acc, p.2 = [] := by
  induction degs generalizing acc with
  | nil => simpa using h
  | cons a t ih =>
    rw [List.foldl_cons]
    apply ih
    split
    · exact h
    · intro p hp
      rcases List.mem_append.1 hp with hp | hp
      · exact h p hp
      · simp only [List.mem_singleton] at hp
        rw [hp]

theorem pnkVal_init (degs : List Nat) (k1 k2 : Nat) :
    pnkVal (degs.foldl (fun acc k1 => if alHas acc k1 then acc else acc ++ [(k1, [])]) []) k1 k2 = 0 := by
  unfold pnkVal
  rw [alGet_const _ [] k1 (pnk_init_rows degs [] (by simp))]
  rfl

theorem pnkVal_step (P : List (Nat × List (Nat × Rat))) (k1 k2 : Nat) (q : Rat) (a b : Nat) :
    pnkVal (alSet P k1 (alSet (alGet P [] k1) k2 (alGet (alGet P [] k1) 0 k2 + q))) a b
      = pnkVal P a b + (if a = k1 then (if k2 = b then q else 0) else 0) := by
  unfold pnkVal
  by_cases ha : a = k1
  · subst ha
    rw [alGet_alSet_self]
    by_cases hb : k2 = b
    · subst hb
      simp [alGet_alSet_self]
    · have hb' : b ≠ k2 := fun e => hb e.symm
      simp [alGet_alSet_ne _ _ _ _ _ hb', hb]
  · simp [alGet_alSet_ne _ _ _ _ _ ha, ha]

theorem countEq_cons (a : Nat) (t : List Nat) (k : Nat) :
    Helpers.countEq (a :: t) k = (if a = k then 1 else 0) + Helpers.countEq t k := by
  unfold Helpers.countEq
  by_cases h : a = k
  · simp [h]; omega
  · simp [h]

/-- the inner loop of `get_Pnk` over (the rest of) one node's neighbour degrees -/
theorem pnk_inner (Nk : List (Nat × Nat)) (k1 : Nat) (l : List Nat) (P : List (Nat × List (Nat × Rat)))
    (h : l = [] ∨ ((k1 : Nat) : Rat) * ((alGet Nk 0 k1 : Nat) : Rat) ≠ 0) :
    ∃ P', l.foldlM (fun Pnk k2 => do
        let q ← fdiv (1 : Rat) (((k1 : Nat) : Rat) * ((alGet Nk 0 k1 : Nat) : Rat))
        let row := alGet Pnk [] k1
        (pure (alSet Pnk k1 (alSet row k2 (alGet row 0 k2 + q))) : Except String _)) P = .ok P' ∧
      ∀ a b, pnkVal P' a b = pnkVal P a b +
        (if a = k1 then (Helpers.countEq l b : Rat) * (1 / (((k1 : Nat) : Rat) * ((alGet Nk 0 k1 : Nat) : Rat))) else 0) := by
  induction l generalizing P with
  | nil => exact ⟨P, rfl, fun a b => by simp [Helpers.countEq]⟩
  | cons k2 t ih =>
    have hD : ((k1 : Nat) : Rat) * ((alGet Nk 0 k1 : Nat) : Rat) ≠ 0 := by
      rcases h with h | h
      · cases h
      · exact h
    obtain ⟨P', h1, h2⟩ := ih
      (alSet P k1 (alSet (alGet P [] k1) k2 (alGet (alGet P [] k1) 0 k2 +
        1 / (((k1 : Nat) : Rat) * ((alGet Nk 0 k1 : Nat) : Rat))))) (Or.inr hD)
    refine ⟨P', ?_, ?_⟩
    · rw [List.foldlM_cons]
      simp only [fdiv_ok _ _ hD, ok_bind, pure_eq_ok] at h1 ⊢
      exact h1
    · intro a b
      rw [h2 a b, pnkVal_step, countEq_cons]
      by_cases ha : a = k1
      · by_cases hb : k2 = b
        · simp only [ha, hb, if_true]; push_cast; ring
        · simp only [ha, hb, if_true, if_false]; push_cast; ring
      · simp [ha]

/-- the outer loop of `get_Pnk` over (the rest of) the nodes -/
theorem pnk_outer (Nk : List (Nat × Nat)) (rows : List (List Nat)) (P : List (Nat × List (Nat × Rat)))
    (h : ∀ row ∈ rows, row = [] ∨ ((row.length : Nat) : Rat) * ((alGet Nk 0 row.length : Nat) : Rat) ≠ 0) :
    ∃ P', rows.foldlM (fun Pnk nbr_degrees => do
        let k1 := nbr_degrees.length
        nbr_degrees.foldlM (fun Pnk k2 => do
          let q ← fdiv (1 : Rat) (((k1 : Nat) : Rat) * ((alGet Nk 0 k1 : Nat) : Rat))
          let row := alGet Pnk [] k1
          (pure (alSet Pnk k1 (alSet row k2 (alGet row 0 k2 + q))) : Except String _)) Pnk) P = .ok P' ∧
      ∀ a b, pnkVal P' a b = pnkVal P a b + sumRat (rows.map fun row =>
        if row.length = a then
          (Helpers.countEq row b : Rat) * (1 / (((a : Nat) : Rat) * ((alGet Nk 0 a : Nat) : Rat))) else 0) := by
  induction rows generalizing P with
  | nil => exact ⟨P, rfl, fun a b => by simp⟩
  | cons row t ih =>
    obtain ⟨P1, h1, h2⟩ := pnk_inner Nk row.length row P (h row (by simp))
    obtain ⟨P', h3, h4⟩ := ih P1 (fun r hr => h r (by simp [hr]))
    refine ⟨P', ?_, ?_⟩
    · rw [List.foldlM_cons]
      simp only [] at h1 ⊢
      rw [h1, ok_bind]
      exact h3
    · intro a b
      rw [h4 a b, h2 a b, List.map_cons, sumRat_cons]
      by_cases ha : a = row.length
      · subst ha; simp; ring
      · have ha' : ¬ row.length = a := fun e => ha e.symm
        simp [ha, ha']

/-- **`get_Pnk` on an arbitrary list of neighbour-degree lists**: never an error (the division is only reached for a
node of degree `k1 ≥ 1`, and that node is itself counted in `N_{k1}`), and
`Pnk[k1][k2] = Σ_{rows of length k1} #{entries = k2} / (k1 · N_{k1})` -/
theorem get_Pnk_eq (nbrdegs : List (List Nat)) :
    ∃ P, GenHelp.get_Pnk nbrdegs = .ok P ∧ ∀ k1 k2, pnkVal P k1 k2 = sumRat (nbrdegs.map fun row =>
      if row.length = k1 then (Helpers.countEq row k2 : Rat) *
        (1 / (((k1 : Nat) : Rat) * ((Helpers.countEq (nbrdegs.map (·.length)) k1 : Nat) : Rat))) else 0) := by
  have hD : ∀ row ∈ nbrdegs, row = [] ∨
      ((row.length : Nat) : Rat) * ((alGet (counter (nbrdegs.map (·.length))) 0 row.length : Nat) : Rat) ≠ 0 := by
    intro row hrow
    cases row with
    | nil => left; rfl
    | cons x t =>
      right
      rw [counter_get]
      have h1 : 0 < Helpers.countEq (nbrdegs.map (·.length)) (x :: t).length := by
        unfold Helpers.countEq
        apply List.length_pos_of_mem (a := (x :: t).length)
        rw [List.mem_filter]
        exact ⟨List.mem_map.2 ⟨x :: t, hrow, rfl⟩, by simp⟩
      have h2 : 0 < (x :: t).length := by simp
      apply mul_ne_zero
      · exact_mod_cast h2.ne'
      · exact_mod_cast h1.ne'
  obtain ⟨P', h1, h2⟩ := pnk_outer (counter (nbrdegs.map (·.length))) nbrdegs
    ((nbrdegs.map (·.length)).foldl (fun acc k1 => if alHas acc k1 then acc else acc ++ [(k1, [])]) []) hD
  refine ⟨P', h1, ?_⟩
  intro k1 k2
  rw [h2 k1 k2, pnkVal_init, zero_add, counter_get]

theorem countEq_map_deg (deg : Nat → Nat) (nb : List Nat) (k : Nat) :
    Helpers.countEq (nb.map deg) k = (nb.filter fun v => deg v = k).length := by
  unfold Helpers.countEq
  rw [List.filter_map, List.length_map]
  rfl

theorem map_getD_range {α : Type} (l : List α) (d : α) : (List.range l.length).map (fun u => l.getD u d) = l := by
  apply List.ext_getElem
  · simp
  · intro i h1 h2
    simp at h1
    simp [h1]

/-- the neighbour-degree lists of a graph given by adjacency lists -/
def nbrDegs (adj : List (List Nat)) : List (List Nat) :=
  adj.map fun nb => nb.map fun v => (adj.getD v []).length

/-- **`get_Pnk` on a graph = the model `Helpers.Pnk`** (any adjacency lists: neither symmetry, nor absence of
duplicates / loops, nor indices in range is needed — an out-of-range index has degree 0 on both sides) -/
theorem get_Pnk_adj (adj : List (List Nat)) :
    ∃ P, GenHelp.get_Pnk (nbrDegs adj) = .ok P ∧ ∀ k1 k2, pnkVal P k1 k2 = Helpers.Pnk adj k1 k2 := by
  obtain ⟨P, h1, h2⟩ := get_Pnk_eq (nbrDegs adj)
  refine ⟨P, h1, ?_⟩
  intro k1 k2
  rw [h2 k1 k2]
  have hdegs : (nbrDegs adj).map (·.length) = adj.map (·.length) := by
    simp [nbrDegs, List.map_map, Function.comp_def]
  rw [hdegs]
  have hR : ∀ G : List Nat → Rat,
      sumRat ((List.range adj.length).map fun u => G (adj.getD u [])) = sumRat (adj.map G) := by
    intro G
    conv_rhs => rw [← map_getD_range adj []]
    rw [List.map_map]
    rfl
  rw [nbrDegs, List.map_map]
  refine Eq.trans ?_ (hR (fun nb => if nb.length = k1 then
    ((nb.filter fun v => (adj.getD v []).length = k2).length : Rat) *
      (1 / ((k1 : Rat) * (Helpers.countEq (adj.map (·.length)) k1 : Rat))) else 0)).symm
  apply sumRat_map_congr
  intro nb _
  simp only [Function.comp_apply, List.length_map, countEq_map_deg]

end GenHelpProofs
