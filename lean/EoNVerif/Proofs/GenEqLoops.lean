import EoNVerif.Gen.AnalyticLoops
import EoNVerif.Proofs.GenEq
import EoNVerif.Proofs.ODE2
import Mathlib.Tactic.Ring
/-!
The loop-style functions generated from `EoN/analytic.py` by `harness/py2lean_loops.py` (`Gen/AnalyticLoops.lean`)
compute exactly the hand-written right-hand sides of `Model/ODE.lean` / `Model/ODE2.lean`.

Part 0: generic lemmas about `List.foldl` over `List.range` with `Gen.upd1` / `Gen.upd2` updates (Python `for` loops
that write one array cell per iteration).  Part 1: `_dSIS_individual_based_`, `_dSIR_individual_based_`.
Part 2: `_dSIS_effective_degree_`, `_dSIR_effective_degree_`.  The final statements are in `Props/GenLoops.lean`.

The proofs never spell out the generated terms: the fold is captured with `generalize`, the loop bodies are matched
by unification against the generic lemmas, reads of the packed state are rewritten by `simp` (under `sumTo` binders
through the local congruence rule `sumTo_congr_simp`, index side conditions by `omega`), and the remaining
"generated expression = model expression" goals are closed by `gen_finish` (syntactic equality, else ring/AC
normalisation).  A change of an index, bound, guard, sign or term in the Python source breaks them; re-association or
commutation of products and sums does not.
-/
set_option linter.unusedTactic false
set_option linter.unreachableTactic false
set_option linter.unusedSimpArgs false
set_option linter.unusedVariables false
set_option linter.unnecessarySeqFocus false
namespace GenEqLoops
open Gen ODE

/-- closes `generated expression = model expression` goals: syntactic equality, else equality up to commutative-ring
normalisation (also inside sums and `if` conditions) -/
macro "gen_finish" : tactic =>
  `(tactic| first | rfl | ring1 |
    (simp only [mul_comm, mul_left_comm, mul_assoc, add_comm, add_left_comm, add_assoc]; first | done | rfl | ring1))

/-! ## Part 0: generic fold lemmas -/

/-- loop invariant rule for `for n in range(N)`: an invariant that holds before the loop and is preserved by every
iteration `n < N` holds (with counter `N`) after the loop. -/
theorem foldl_range_inv {σ : Type} (P : Nat → σ → Prop) (F : σ → Nat → σ) (s0 : σ) (N : Nat)
    (h0 : P 0 s0) (hstep : ∀ n st, n < N → P n st → P (n + 1) (F st n)) :
    P N ((List.range N).foldl F s0) := by
  induction N with
  | zero => simpa using h0
  | succ N ih =>
    rw [List.range_succ, List.foldl_append]
    simp only [List.foldl_cons, List.foldl_nil]
    exact hstep N _ (Nat.lt_succ_self N) (ih (fun n st hn hP => hstep n st (Nat.lt_succ_of_lt hn) hP))

theorem upd1_apply (a : Nat → Rat) (i : Nat) (v : Rat) (k : Nat) : upd1 a i v k = if k = i then v else a k := rfl
theorem upd2_apply (a : Nat → Nat → Rat) (i j : Nat) (v : Rat) (k l : Nat) :
    upd2 a i j v k l = if k = i ∧ l = j then v else a k l := rfl

/-- `for i in range(N): a[i] = g(i)` (the value does not read `a`): afterwards `a[k] = g(k)` for `k < N`, other
cells are unchanged. -/
theorem foldl_upd1_range (g : Nat → Rat) (N : Nat) (a0 : Nat → Rat) (k : Nat) :
    (List.range N).foldl (fun a i => upd1 a i (g i)) a0 k = if k < N then g k else a0 k := by
  refine foldl_range_inv (fun n a => a k = if k < n then g k else a0 k) _ a0 N (by simp) ?_
  intro n st hn hP
  simp only [upd1_apply, hP]
  by_cases h : k = n
  · subst h; simp
  · have : (k < n + 1) = (k < n) := by apply propext; omega
    simp only [h, if_false, this]

/-- two arrays written in the same loop, the second value may read the cell of the first array written in the same
iteration (`dY[index] = h(index, dX[index])` as in `_dSIR_individual_based_`).  The loop body `F` is arbitrary code
that acts on a pair of arrays as stated in `hF`. -/
theorem foldl_upd1_pair_dep (F : (Nat → Rat) × (Nat → Rat) → Nat → (Nat → Rat) × (Nat → Rat))
    (g : Nat → Rat) (h : Nat → Rat → Rat) (N : Nat)
    (hF : ∀ a b i, i < N → F (a, b) i = (upd1 a i (g i), upd1 b i (h i (upd1 a i (g i) i))))
    (a0 b0 : Nat → Rat) :
    (∀ k, ((List.range N).foldl F (a0, b0)).1 k = if k < N then g k else a0 k) ∧
    (∀ k, ((List.range N).foldl F (a0, b0)).2 k = if k < N then h k (g k) else b0 k) := by
  refine foldl_range_inv (fun n st => (∀ k, st.1 k = if k < n then g k else a0 k) ∧
      (∀ k, st.2 k = if k < n then h k (g k) else b0 k)) F (a0, b0) N (by simp) ?_
  rintro n ⟨a, b⟩ hn ⟨h1, h2⟩
  rw [hF a b n hn]
  simp only [upd1_same]
  constructor <;> intro k <;> simp only [upd1_apply] <;> by_cases hk : k = n
  · subst hk; simp
  · have : (k < n + 1) = (k < n) := by apply propext; omega
    simp only [hk, if_false, this]; exact h1 k
  · subst hk; simp
  · have : (k < n + 1) = (k < n) := by apply propext; omega
    simp only [hk, if_false, this]; exact h2 k

/-- `for i in range(B): a[s,i] = g(i)` for a fixed row `s` -/
theorem foldl_upd2_row (g : Nat → Rat) (s B : Nat) (a0 : Nat → Nat → Rat) (k l : Nat) :
    (List.range B).foldl (fun a i => upd2 a s i (g i)) a0 k l = if k = s ∧ l < B then g l else a0 k l := by
  refine foldl_range_inv (fun n a => a k l = if k = s ∧ l < n then g l else a0 k l) _ a0 B (by simp) ?_
  intro n st hn hP
  simp only [upd2_apply, hP]
  by_cases h : k = s ∧ l = n
  · obtain ⟨h1, h2⟩ := h; subst h1; subst h2; simp
  · have : (k = s ∧ l < n + 1) = (k = s ∧ l < n) := by apply propext; omega
    simp only [h, if_false, this]

/-- the nested loop `for s in range(A): for i in range(B): a[s,i] = g(s,i)` writes every cell of the `A × B` block
exactly once with `g(s,i)` (which does not read `a`) and leaves all other cells unchanged. -/
theorem foldl_upd2_block (g : Nat → Nat → Rat) (A B : Nat) (a0 : Nat → Nat → Rat) (k l : Nat) :
    (List.range A).foldl (fun a s => (List.range B).foldl (fun a i => upd2 a s i (g s i)) a) a0 k l
      = if k < A ∧ l < B then g k l else a0 k l := by
  refine foldl_range_inv (fun n a => a k l = if k < n ∧ l < B then g k l else a0 k l) _ a0 A (by simp) ?_
  intro n st hn hP
  rw [foldl_upd2_row (g n) n B st k l, hP]
  by_cases h : k = n
  · subst h
    by_cases hl : l < B
    · simp [hl]
    · simp [hl]
  · have : (k < n + 1 ∧ l < B) = (k < n ∧ l < B) := by apply propext; omega
    simp only [h, false_and, if_false, this]

/-- `foldl_upd2_block` for arbitrary loop-body code `F` (outer), `G s` (inner) acting as stated in `hF`, `hG`
(only iterations inside the block are constrained). -/
theorem foldl_upd2_block_gen (F : (Nat → Nat → Rat) → Nat → (Nat → Nat → Rat))
    (G : Nat → (Nat → Nat → Rat) → Nat → (Nat → Nat → Rat)) (g : Nat → Nat → Rat) (A B : Nat)
    (hF : ∀ st s, s < A → F st s = (List.range B).foldl (G s) st)
    (hG : ∀ a s i, s < A → i < B → G s a i = upd2 a s i (g s i))
    (a0 : Nat → Nat → Rat) (k l : Nat) :
    (List.range A).foldl F a0 k l = if k < A ∧ l < B then g k l else a0 k l := by
  refine foldl_range_inv (fun n a => a k l = if k < n ∧ l < B then g k l else a0 k l) F a0 A (by simp) ?_
  intro n st hn hP
  rw [hF st n hn]
  have inner := foldl_range_inv (fun j a => a k l = if k = n ∧ l < j then g k l else st k l) (G n) st B (by simp) (by
    intro j a hj hPa
    rw [hG a n j hn hj]
    simp only [upd2_apply]
    by_cases hkl : k = n ∧ l = j
    · obtain ⟨e1, e2⟩ := hkl; subst e1; subst e2; simp
    · have : (k = n ∧ l < j + 1) = (k = n ∧ l < j) := by apply propext; omega
      simp only [hkl, if_false, this]; exact hPa)
  rw [inner, hP]
  by_cases hk : k = n
  · subst hk
    by_cases hl : l < B
    · simp [hl]
    · simp [hl]
  · have : (k < n + 1 ∧ l < B) = (k < n ∧ l < B) := by apply propext; omega
    simp only [hk, false_and, if_false, this]

/-- two matrices written cell by cell in the same nested loop (`dSsi[s,i] = g(s,i); dIsi[s,i] = h(s,i)` as in
`_dSIS_effective_degree_`); the loop bodies `F` (outer) and `G s` (inner) are arbitrary code acting as stated in
`hF`, `hG`.  Every cell of the `A × B` block is written exactly once, nothing else is touched. -/
theorem foldl_upd2_block_pair (F : (Nat → Nat → Rat) × (Nat → Nat → Rat) → Nat → (Nat → Nat → Rat) × (Nat → Nat → Rat))
    (G : Nat → (Nat → Nat → Rat) × (Nat → Nat → Rat) → Nat → (Nat → Nat → Rat) × (Nat → Nat → Rat))
    (g h : Nat → Nat → Rat) (A B : Nat)
    (hF : ∀ st s, s < A → F st s = (List.range B).foldl (G s) st)
    (hG : ∀ a b s i, s < A → i < B → G s (a, b) i = (upd2 a s i (g s i), upd2 b s i (h s i)))
    (a0 b0 : Nat → Nat → Rat) :
    (∀ k l, ((List.range A).foldl F (a0, b0)).1 k l = if k < A ∧ l < B then g k l else a0 k l) ∧
    (∀ k l, ((List.range A).foldl F (a0, b0)).2 k l = if k < A ∧ l < B then h k l else b0 k l) := by
  refine foldl_range_inv (fun n st => (∀ k l, st.1 k l = if k < n ∧ l < B then g k l else a0 k l) ∧
      (∀ k l, st.2 k l = if k < n ∧ l < B then h k l else b0 k l)) F (a0, b0) A (by simp) ?_
  rintro n ⟨a, b⟩ hn ⟨h1, h2⟩
  rw [hF _ n hn]
  have inner := foldl_range_inv (fun j st => (∀ k l, st.1 k l = if k = n ∧ l < j then g k l else a k l) ∧
      (∀ k l, st.2 k l = if k = n ∧ l < j then h k l else b k l)) (G n) (a, b) B (by simp) (by
    rintro j ⟨a', b'⟩ hj ⟨i1, i2⟩
    rw [hG a' b' n j hn hj]
    constructor <;> intro k l <;> simp only [upd2_apply] <;> by_cases hkl : k = n ∧ l = j
    · obtain ⟨e1, e2⟩ := hkl; subst e1; subst e2; simp
    · have : (k = n ∧ l < j + 1) = (k = n ∧ l < j) := by apply propext; omega
      simp only [hkl, if_false, this]; exact i1 k l
    · obtain ⟨e1, e2⟩ := hkl; subst e1; subst e2; simp
    · have : (k = n ∧ l < j + 1) = (k = n ∧ l < j) := by apply propext; omega
      simp only [hkl, if_false, this]; exact i2 k l)
  obtain ⟨j1, j2⟩ := inner
  constructor <;> intro k l
  · rw [j1 k l]
    by_cases hk : k = n
    · subst hk
      by_cases hl : l < B
      · simp [hl]
      · simpa [hl] using h1 k l
    · have : (k < n + 1 ∧ l < B) = (k < n ∧ l < B) := by apply propext; omega
      simp only [hk, false_and, if_false, this]; exact h1 k l
  · rw [j2 k l]
    by_cases hk : k = n
    · subst hk
      by_cases hl : l < B
      · simp [hl]
      · simpa [hl] using h2 k l
    · have : (k < n + 1 ∧ l < B) = (k < n ∧ l < B) := by apply propext; omega
      simp only [hk, false_and, if_false, this]; exact h2 k l

/-! ## Part 1: individual-based models -/

theorem gen_sisIndividual_aux (N : Nat) (nbrs : Nat → List Nat) (tr : Nat → Nat → Rat) (rr : Nat → Rat) (Y : Nat → Rat) :
    let r := dSIS_individual_based ⟨N, Y⟩ N nbrs tr rr
    r.n = N ∧ ∀ i, i < N → r.f i = sisIndividual nbrs tr rr Y i := by
  intro r
  refine ⟨rfl, ?_⟩
  intro i hi
  simp only [r, dSIS_individual_based]
  rw [foldl_upd1_range]
  simp only [hi, if_true, sisIndividual] <;> gen_finish

theorem gen_sirIndividual_aux (N : Nat) (nbrs : Nat → List Nat) (tr : Nat → Nat → Rat) (rr : Nat → Rat) (X Y : Nat → Rat) :
    let r := dSIR_individual_based (V.append ⟨N, X⟩ ⟨N, Y⟩) N nbrs tr rr
    let m := sirIndividual nbrs tr rr X Y
    r.n = N + N ∧ ∀ i, i < N → r.f i = m.1 i ∧ r.f (N + i) = m.2 i := by
  intro r m
  have hX : ∀ j, j < N → (V.append ⟨N, X⟩ ⟨N, Y⟩).f j = X j := fun j hj => V.append_f_lt _ _ j hj
  have hY : ∀ j, (V.append ⟨N, X⟩ ⟨N, Y⟩).f (N + j) = Y j := fun j => V.append_f_ge ⟨N, X⟩ ⟨N, Y⟩ j
  simp only [r, dSIR_individual_based]
  generalize hres : List.foldl _ (_ : (Nat → Rat) × (Nat → Rat)) (List.range N) = res
  have key : (∀ k, res.1 k = if k < N then m.1 k else 0) ∧ (∀ k, res.2 k = if k < N then m.2 k else 0) := by
    rw [← hres]
    exact foldl_upd1_pair_dep _ (fun i => m.1 i) (fun i d => -d - rr i * Y i) N
      (fun a b i hi => by simp only [hX i hi, hY, m, sirIndividual] <;> gen_finish) _ _
  obtain ⟨k1, k2⟩ := key
  refine ⟨rfl, fun i hi => ⟨?_, ?_⟩⟩
  · rw [V.append_f_lt _ _ i hi]
    simp only [k1 i, hi, if_true]
  · rw [V.append_f_ge ⟨N, res.1⟩ ⟨N, res.2⟩ i]
    simp only [k2 i, hi, if_true]

/-! ## Part 2: effective-degree models -/

/-- the `A × B` matrix `M` flattened row-major, as `M.shape = (A*B)` / `np.reshape` do -/
def flat (A B : Nat) (M : Nat → Nat → Rat) : V := ⟨A * B, fun k => M (k / B) (k % B)⟩

@[simp] theorem flat_n (A B : Nat) (M : Nat → Nat → Rat) : (flat A B M).n = A * B := rfl

theorem idx_lt {A B s i : Nat} (hs : s < A) (hi : i < B) : s * B + i < A * B := by
  calc s * B + i < s * B + B := by omega
    _ = (s + 1) * B := by rw [Nat.add_mul, Nat.one_mul]
    _ ≤ A * B := Nat.mul_le_mul_right B hs

theorem idx_div {B s i : Nat} (hi : i < B) : (s * B + i) / B = s := by
  have hB : 0 < B := by omega
  rw [Nat.mul_comm, Nat.mul_add_div hB, Nat.div_eq_of_lt hi, Nat.add_zero]

theorem idx_mod {B s i : Nat} (hi : i < B) : (s * B + i) % B = i := by
  rw [Nat.mul_comm, Nat.mul_add_mod, Nat.mod_eq_of_lt hi]

theorem flat_f (A B : Nat) (M : Nat → Nat → Rat) {s i : Nat} (hi : i < B) : (flat A B M).f (s * B + i) = M s i := by
  simp only [flat, idx_div hi, idx_mod hi]

/-- congruence rule that lets `simp` rewrite under `sumTo K` using the bound `k < K` -/
@[local congr] theorem sumTo_congr_simp {K K' : Nat} {f g : Nat → Rat} (hK : K = K') (h : ∀ k, k < K' → f k = g k) :
    sumTo K f = sumTo K' g := by
  subst hK; exact sumTo_congr _ _ _ h

theorem gen_sisEffDeg_aux (A B : Nat) (tau gamma : Rat) (Ssi Isi : Nat → Nat → Rat) :
    let r := dSIS_effective_degree (V.append (flat A B Ssi) (flat A B Isi)) A B tau gamma
    let m := sisEffDeg A B tau gamma Ssi Isi
    r.n = A * B + A * B ∧
      ∀ s i, s < A → i < B → r.f (s * B + i) = m.1 s i ∧ r.f (A * B + (s * B + i)) = m.2 s i := by
  intro r m
  have hS : ∀ s i, s < A → i < B → (V.append (flat A B Ssi) (flat A B Isi)).f (s * B + i) = Ssi s i :=
    fun s i hs hi => by rw [V.append_f_lt _ _ _ (idx_lt hs hi), flat_f A B Ssi hi]
  have hI : ∀ s i, s < A → i < B → (V.append (flat A B Ssi) (flat A B Isi)).f (A * B + (s * B + i)) = Isi s i :=
    fun s i hs hi => by rw [GenEq.append_f_ge' _ _ (A * B) _ rfl, flat_f A B Isi hi]
  simp only [r, dSIS_effective_degree]
  generalize hres : List.foldl _ (_ : (Nat → Nat → Rat) × (Nat → Nat → Rat)) (List.range A) = res
  have key : (∀ k l, res.1 k l = if k < A ∧ l < B then m.1 k l else 0) ∧
      (∀ k l, res.2 k l = if k < A ∧ l < B then m.2 k l else 0) := by
    rw [← hres]
    refine foldl_upd2_block_pair _ _ m.1 m.2 A B (fun st s _ => rfl) ?_ _ _
    clear hres
    intro a b s i hs hi
    refine Prod.ext (congrArg (upd2 a s i) ?_) (congrArg (upd2 b s i) ?_)
    · simp (disch := omega) only [hS, hI]
      dsimp +instances only [m, sisEffDeg, sum2, kf] <;> gen_finish
    · simp (disch := omega) only [hS, hI]
      dsimp +instances only [m, sisEffDeg, sum2, kf] <;> gen_finish
  obtain ⟨k1, k2⟩ := key
  refine ⟨rfl, fun s i hs hi => ⟨?_, ?_⟩⟩
  · rw [V.append_f_lt _ _ _ (idx_lt hs hi)]
    simp only [idx_div hi, idx_mod hi, k1 s i, hs, hi, and_self, if_true]
  · rw [GenEq.append_f_ge' _ _ (A * B) _ rfl]
    simp only [idx_div hi, idx_mod hi, k2 s i, hs, hi, and_self, if_true]

theorem gen_sirEffDeg_aux (A B : Nat) (tau gamma N : Rat) (Ssi : Nat → Nat → Rat) (R : Rat) :
    let r := dSIR_effective_degree (V.append (flat A B Ssi) (V.ofList [R])) N A B tau gamma
    let m := sirEffDeg A B tau gamma N Ssi R
    r.n = A * B + 1 ∧ (∀ s i, s < A → i < B → r.f (s * B + i) = m.1 s i) ∧ r.f (A * B + 0) = m.2 := by
  intro r m
  have hS : ∀ s i, s < A → i < B → (V.append (flat A B Ssi) (V.ofList [R])).f (s * B + i) = Ssi s i :=
    fun s i hs hi => by rw [V.append_f_lt _ _ _ (idx_lt hs hi), flat_f A B Ssi hi]
  have hn : (V.append (flat A B Ssi) (V.ofList [R])).n - 1 = A * B := by simp
  have hR : (V.append (flat A B Ssi) (V.ofList [R])).f (A * B) = R := by
    have := GenEq.append_f_ge' (flat A B Ssi) (V.ofList [R]) (A * B) 0 rfl
    rw [Nat.add_zero] at this
    rw [this]; rfl
  simp only [r, dSIR_effective_degree, hn, hR]
  generalize hres : List.foldl _ (_ : Nat → Nat → Rat) (List.range A) = res
  have key : ∀ k l, res k l = if k < A ∧ l < B then m.1 k l else 0 := by
    rw [← hres]
    refine foldl_upd2_block_gen _ _ m.1 A B (fun st s _ => rfl) ?_ _
    clear hres
    intro a s i hs hi
    refine congrArg (upd2 a s i) ?_
    simp (disch := omega) only [hS]
    dsimp +instances only [m, sirEffDeg, sum2, kf] <;> gen_finish
  refine ⟨rfl, fun s i hs hi => ?_, ?_⟩
  · rw [V.append_f_lt _ _ _ (idx_lt hs hi)]
    simp only [idx_div hi, idx_mod hi, key s i, hs, hi, and_self, if_true]
  · rw [GenEq.append_f_ge' _ _ (A * B) _ rfl]
    simp (disch := omega) only [sum2, hS, GenEq.ofList_f0]
    dsimp +instances only [m, sirEffDeg, sum2] <;> gen_finish

end GenEqLoops
