import EoNVerif.Model.ListDict
import EoNVerif.Rand.Dist
/-! Law of `choose_random` (weighted): `k` rounds of "uniform index, accept with probability weight/max_weight". -/
namespace LD
variable {α : Type} [DecidableEq α]

/-- distribution of the result of at most `k` rejection rounds; `none` = still rejecting after `k` rounds -/
def chooseDist (s : LD α) : Nat → Dist (Option α)
  | 0 => Dist.pure none
  | k + 1 =>
    Dist.bind (Dist.uniformIdx s.items.length) fun i =>
      match s.items[i]? with
      | none => Dist.pure none
      | some c =>
        if !s.weighted then Dist.pure (some c)
        else Dist.bind (Dist.bern (s.acceptThr c)) fun acc =>
          if acc then Dist.pure (some c) else chooseDist s k

/-- one-round rejection probability `ρ = 1 - Σw/(n·max_weight)` -/
def rejProb (s : LD α) : Rat := 1 - s.weightSum / ((s.items.length : Rat) * s.maxW)

end LD
