import EoNVerif.Proofs.EventSIRFinal
/-!
C11 — target statements: the event-queue algorithm of `fast_nonMarkov_SIR` computes first-passage percolation,
for every delay/duration table (ties, 0 and ∞ included) and every order in which simultaneous events are popped.
-/
namespace EventSIR

/-! `WF`, `tableParams`, `recoveriesOf`, `Reach` are defined (unchanged) in `EoNVerif/Proofs/EventSIR.lean`. -/

/-- **soundness (every fuel, every tie order)**: each reported transmission goes along a kept edge from a node
reported infected `delay` earlier, or is a source-less entry of an initial node at `tmin`; all times are `< tmax`. -/
theorem fpp_sound (nodes : List Node) (nbrs : Node → List Node) (delay : Node → Node → ERat) (dur : Node → ERat)
    (tmin : Rat) (tmax : ERat) (infs recs : List Node) (h : WF nodes nbrs delay dur infs recs)
    (sel : Nat → Nat) (fuel : Nat) :
    let s := run (tableParams nodes nbrs delay dur tmin tmax) sel infs recs fuel
    ∀ e ∈ s.trans, ERat.lt (some e.1) tmax = true ∧
      match e.2.1 with
      | none => e.2.2 ∈ infs ∧ e.1 = tmin
      | some u => keeps nbrs delay dur u e.2.2 = true ∧ u ∉ recs ∧
          ∃ eu ∈ s.trans, eu.2.2 = u ∧ ERat.add (some eu.1) (delay u e.2.2) = some e.1 := by
  intro s e he
  have hI : Inv nodes nbrs delay dur tmin tmax infs recs s := Inv.run h sel fuel
  refine ⟨hI.tr_lt e he, ?_⟩
  have hsrc := hI.tr_src e he
  obtain ⟨t, src, v⟩ := e
  cases src with
  | none => exact hsrc
  | some u =>
    obtain ⟨h1, eu, heu, hu, hadd⟩ := hsrc
    obtain ⟨p, hp⟩ := hI.tr_walk eu heu
    exact ⟨h1, hu ▸ TW.not_recs hp, eu, heu, hu, hadd⟩

/-- each node is reported infected at most once -/
theorem fpp_once (nodes : List Node) (nbrs : Node → List Node) (delay : Node → Node → ERat) (dur : Node → ERat)
    (tmin : Rat) (tmax : ERat) (infs recs : List Node) (h : WF nodes nbrs delay dur infs recs)
    (sel : Nat → Nat) (fuel : Nat) (v : Node) :
    ((run (tableParams nodes nbrs delay dur tmin tmax) sel infs recs fuel).trans.filter fun e => e.2.2 == v).length ≤ 1 := by
  have hI : Inv nodes nbrs delay dur tmin tmax infs recs _ := Inv.run h sel fuel
  apply nodup_filter_le_one (List.Nodup.of_map _ hI.tr_nodup)
  intro x hx y hy hxv hyv
  simp only [beq_iff_eq] at hxv hyv
  exact List.inj_on_of_nodup_map hI.tr_nodup hx hy (by rw [hxv, hyv])

/-- **termination**: the queue is empty after at most `(N+1)² + N + 1` pops -/
theorem fpp_terminates (nodes : List Node) (nbrs : Node → List Node) (delay : Node → Node → ERat) (dur : Node → ERat)
    (tmin : Rat) (tmax : ERat) (infs recs : List Node) (h : WF nodes nbrs delay dur infs recs)
    (sel : Nat → Nat) (fuel : Nat) (hf : (nodes.length + 1) * (nodes.length + 1) + nodes.length + 1 ≤ fuel) :
    (run (tableParams nodes nbrs delay dur tmin tmax) sel infs recs fuel).queue = [] := by
  apply loop_queue_empty h sel fuel 0 _ (Inv.init h)
  have := mu_init (tmin := tmin) (tmax := tmax) h
  omega

/-- **first-passage percolation (full statement)**: once the queue is empty the reported infection times are the
shortest-path times of the kept-edge digraph, infectors are shortest-path predecessors, recoveries are `dur` later,
nothing at or after `tmax` is reported — whatever the tie-breaking order. -/
theorem fpp (nodes : List Node) (nbrs : Node → List Node) (delay : Node → Node → ERat) (dur : Node → ERat)
    (tmin : Rat) (tmax : ERat) (infs recs : List Node) (h : WF nodes nbrs delay dur infs recs)
    (sel : Nat → Nat) (fuel : Nat)
    (hq : (run (tableParams nodes nbrs delay dur tmin tmax) sel infs recs fuel).queue = []) :
    let s := run (tableParams nodes nbrs delay dur tmin tmax) sel infs recs fuel
    isFPP nodes nbrs delay dur tmin tmax infs recs s.trans (recoveriesOf nodes recs s) = true :=
  (Inv.run h sel fuel).isFPP h hq

/-- `outComp` (`get_infected_nodes`) is the out-component of the initial set in the kept-edge digraph -/
theorem outComp_spec (nodes : List Node) (nbrs : Node → List Node) (delay : Node → Node → ERat) (dur : Node → ERat)
    (infs recs : List Node) (h : WF nodes nbrs delay dur infs recs) (v : Node) :
    v ∈ outComp nodes nbrs delay dur infs recs ↔ Reach nbrs delay dur infs recs v :=
  outComp_iff h v

end EventSIR

/-! non-vacuity: a triangle with a tie, a zero delay and an infinite duration -/
def exNb (u : Node) : List Node := match u with | 0 => [1, 2] | 1 => [0, 2] | 2 => [0, 1] | _ => []
def exDelay (u v : Node) : ERat := if u = 0 ∧ v = 1 then some 1 else if u = 0 ∧ v = 2 then some 1 else if u = 1 ∧ v = 2 then some 0 else some 5
def exDur (u : Node) : ERat := if u = 0 then none else some 2
#eval (EventSIR.run (EventSIR.tableParams [0,1,2] exNb exDelay exDur 0 none) (fun _ => 0) [0] [] 50).trans.reverse
#eval EventSIR.isFPP [0,1,2] exNb exDelay exDur 0 none [0] []
  (EventSIR.run (EventSIR.tableParams [0,1,2] exNb exDelay exDur 0 none) (fun _ => 1) [0] [] 50).trans
  (EventSIR.recoveriesOf [0,1,2] [] (EventSIR.run (EventSIR.tableParams [0,1,2] exNb exDelay exDur 0 none) (fun _ => 1) [0] [] 50))
