import DriverFSIR
partial def loopFSIR (h : IO.FS.Stream) (out : IO.FS.Stream) : IO Unit := do
  let line ← h.getLine
  if line.isEmpty then return ()
  out.putStrLn (DrvGenFSIR.handle line)
  loopFSIR h out
def main : IO Unit := do loopFSIR (← IO.getStdin) (← IO.getStdout)
