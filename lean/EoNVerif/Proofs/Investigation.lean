import EoNVerif.Model.Investigation
import Mathlib.Algebra.Order.Ring.Rat
import Mathlib.Tactic.Linarith
/-!
Helper lemmas for C10 (`Simulation_Investigation`: node histories, `summary()`, `node_status`) — event log versus
arrays.
-/

namespace Invest
open Pred

/-- number of log events with time ≤ T (a prefix, because times are nondecreasing) -/
def upTo (log : Log) (T : Rat) : Nat := (log.filter fun e => e.1 ≤ T).length

/-! ### sorted lists: filtering by `≤ T` is taking a prefix -/

theorem filter_le_eq_take {α : Type} (f : α → Rat) (T : Rat) :
    ∀ (l : List α), (l.map f).Pairwise (· ≤ ·) →
      l.filter (fun e => f e ≤ T) = l.take (l.filter (fun e => f e ≤ T)).length
  | [], _ => by simp
  | a :: l, h => by
    rw [List.map_cons, List.pairwise_cons] at h
    by_cases ha : f a ≤ T
    · have ih := filter_le_eq_take f T l h.2
      simp only [List.filter_cons, ha, decide_true, if_true, List.length_cons, List.take_succ_cons]
      rw [← ih]
    · have : l.filter (fun e => f e ≤ T) = [] := by
        rw [List.filter_eq_nil_iff]
        intro b hb
        have := h.1 (f b) (List.mem_map_of_mem hb)
        simp only [decide_eq_true_eq, not_le]
        exact lt_of_lt_of_le (not_le.mp ha) this
      simp [ha, this]

/-- counting the entries `≤ T` when the first `j` are and the others are not -/
theorem filter_length_eq {α : Type} (p : α → Bool) (l : List α) (j : Nat) (hj : j ≤ l.length)
    (h1 : ∀ i (hi : i < l.length), i < j → p l[i] = true)
    (h2 : ∀ i (hi : i < l.length), j ≤ i → p l[i] = false) :
    (l.filter p).length = j := by
  conv_lhs => rw [← List.take_append_drop j l]
  rw [List.filter_append]
  have e1 : (l.take j).filter p = l.take j := by
    rw [List.filter_eq_self]
    intro a ha
    obtain ⟨i, hi, rfl⟩ := List.mem_take_iff_getElem.mp ha
    exact h1 i (by omega) (by omega)
  have e2 : (l.drop j).filter p = [] := by
    rw [List.filter_eq_nil_iff]
    intro a ha
    obtain ⟨i, hi, rfl⟩ := List.mem_drop_iff_getElem.mp ha
    simp [h2 (j + i) (by omega) (by omega)]
  rw [e1, e2]
  simp [hj]

theorem nondecreasing_of_pairwise : ∀ (l : List Rat), l.Pairwise (· ≤ ·) → nondecreasing l = true
  | [], _ => rfl
  | [_], _ => rfl
  | a :: b :: t, h => by
    rw [List.pairwise_cons] at h
    simp only [nondecreasing, Bool.and_eq_true, decide_eq_true_eq]
    exact ⟨h.1 b (by simp), nondecreasing_of_pairwise (b :: t) h.2⟩

/-! ### `histOf` -/

theorem log_times_pairwise {tmin : Rat} {nodes : List Node} {log : Log} (h : ValidLog tmin nodes log) :
    (log.map (·.1)).Pairwise (· ≤ ·) := (List.pairwise_cons.mp h.1).2

theorem histOf_times_pairwise {tmin : Rat} {nodes : List Node} {log : Log} (h : ValidLog tmin nodes log)
    (init : Node → String) (v : Node) : ((histOf tmin init log v).map (·.1)).Pairwise (· ≤ ·) := by
  have h1 := h.1
  rw [List.pairwise_cons] at h1
  simp only [histOf, List.map_cons, List.map_map, List.pairwise_cons]
  constructor
  · intro a ha
    obtain ⟨e, he, rfl⟩ := List.mem_map.mp ha
    exact h1.1 _ (List.mem_map_of_mem (List.mem_filter.mp he).1)
  · have hs : (List.map (·.1) (List.filter (fun e : Rat × Node × String => e.2.1 == v) log)).Sublist
        (log.map (·.1)) := List.Sublist.map _ List.filter_sublist
    exact List.Pairwise.sublist hs h1.2

theorem take_upTo {tmin : Rat} {nodes : List Node} {log : Log} (h : ValidLog tmin nodes log) (T : Rat) :
    log.take (upTo log T) = log.filter fun e => e.1 ≤ T :=
  (filter_le_eq_take (fun e : Rat × Node × String => e.1) T log (log_times_pairwise h)).symm

theorem statusAt_histOf' (tmin : Rat) (init : Node → String) (nodes : List Node) (log : Log)
    (h : ValidLog tmin nodes log) (v : Node) (T : Rat) (hT : tmin ≤ T) :
    statusAt (histOf tmin init log v) T = some (statusAfter init log (upTo log T) v) := by
  unfold statusAt statusAfter
  rw [take_upTo h]
  simp only [histOf, List.filter_cons, hT, decide_true, if_true, List.getLast?_cons, Option.map_some,
    List.filter_map, List.filter_filter]
  congr 1
  rw [List.getLast?_map]
  have e : (List.filter (fun a : Rat × Node × String =>
      ((fun e : Rat × String => decide (e.1 ≤ T)) ∘ fun e : Rat × Node × String => (e.1, e.2.2)) a && a.2.1 == v) log)
      = List.filter (fun a => a.2.1 == v && decide (a.1 ≤ T)) log := by
    apply List.filter_congr
    intro a _
    simp [Bool.and_comm]
  rw [e]
  cases (List.filter (fun a : Rat × Node × String => a.2.1 == v && decide (a.1 ≤ T)) log).getLast? <;> rfl

theorem nodeStatusImpl_eq_statusAt' (tmin : Rat) (init : Node → String) (nodes : List Node) (log : Log)
    (h : ValidLog tmin nodes log) (v : Node) (T : Rat) (hT : tmin ≤ T) :
    nodeStatusImpl (histOf tmin init log v) T = statusAt (histOf tmin init log v) T := by
  have hs := histOf_times_pairwise h init v
  have ht := filter_le_eq_take (fun e : Rat × String => e.1) T _ hs
  generalize hH : histOf tmin init log v = H at *
  have hpos : 0 < (H.filter fun e => e.1 ≤ T).length := by
    rw [← hH]; simp [histOf, hT]
  have hle : (H.filter fun e => e.1 ≤ T).length ≤ H.length := List.length_filter_le _ _
  unfold nodeStatusImpl statusAt
  generalize hk : (H.filter fun e => e.1 ≤ T).length = k at *
  simp only [Nat.ne_of_gt hpos, if_false]
  rw [ht, List.getLast?_eq_getElem?, List.length_take, Nat.min_eq_left hle, List.getElem?_take]
  simp [hpos]

/-! ### legal moves along a history -/

theorem statusAfter_zero (init : Node → String) (log : Log) (v : Node) : statusAfter init log 0 v = init v := by
  simp [statusAfter]

theorem statusAfter_cons_succ (init : Node → String) (e : Rat × Node × String) (l : Log) (k : Nat) (v : Node) :
    statusAfter init (e :: l) (k + 1) v =
      statusAfter (fun w => if e.2.1 == w then e.2.2 else init w) l k v := by
  unfold statusAfter
  by_cases hv : e.2.1 = v
  · simp only [List.take_succ_cons, List.filter_cons, hv, beq_self_eq_true, if_true, List.getLast?_cons]
    cases (List.filter (fun e => e.2.1 == v) (List.take k l)).getLast? <;> rfl
  · have : (e.2.1 == v) = false := by simpa using hv
    simp only [List.take_succ_cons, List.filter_cons, this, Bool.false_eq_true, if_false]

theorem pairwise_histOf (legal : String → String → Bool) (v : Node) :
    ∀ (log : Log) (init : Node → String),
      (∀ k e, log[k]? = some e → e.2.1 = v → legal (statusAfter init log k v) e.2.2 = true) →
      pairwise legal (init v :: (log.filter fun e => e.2.1 == v).map (·.2.2)) = true
  | [], _, _ => rfl
  | e :: l, init, hl => by
    have ih := pairwise_histOf legal v l (fun w => if e.2.1 == w then e.2.2 else init w)
      (fun k e' hk hv => by
        have := hl (k + 1) e' (by simpa using hk) hv
        rwa [statusAfter_cons_succ] at this)
    by_cases hv : e.2.1 = v
    · simp only [List.filter_cons, hv, beq_self_eq_true, if_true, List.map_cons, pairwise, Bool.and_eq_true]
      refine ⟨?_, ?_⟩
      · have := hl 0 e (by simp) hv
        rwa [statusAfter_zero] at this
      · simpa [hv] using ih
    · have hb : (e.2.1 == v) = false := by simpa using hv
      simp only [List.filter_cons, hb, Bool.false_eq_true, if_false]
      simpa [hb] using ih

theorem histWF_histOf' (tmin : Rat) (init : Node → String) (nodes : List Node) (log : Log)
    (h : ValidLog tmin nodes log) (legal : List (String × String))
    (hl : ∀ k, k < log.length → ∀ e, log[k]? = some e → (statusAfter init log k e.2.1, e.2.2) ∈ legal)
    (v : Node) : histWFg legal tmin (histOf tmin init log v) = true := by
  unfold histWFg histTimesOrdered
  rw [nondecreasing_of_pairwise _ (histOf_times_pairwise h init v)]
  have hp := pairwise_histOf (fun a b => legal.contains (a, b)) v log init (fun k e hk hv => by
    have hlt : k < log.length := by
      by_contra hc
      rw [List.getElem?_eq_none (by omega)] at hk
      cases hk
    have := hl k hlt e hk
    rw [hv] at this
    simpa using this)
  have e2 : (histOf tmin init log v).map (·.2) = init v :: (log.filter fun e => e.2.1 == v).map (·.2.2) := by
    simp [histOf]
  rw [e2, hp]
  simp [histOf]

/-! ### `allTimes`: the strictly increasing list of the distinct times -/

theorem mem_insertSorted (x y : Rat) : ∀ l : List Rat, y ∈ insertSorted x l ↔ y = x ∨ y ∈ l
  | [] => by simp [insertSorted]
  | z :: t => by
    unfold insertSorted
    split
    · simp
    · split
      · rename_i _ hxz; subst hxz; simp
      · rw [List.mem_cons, mem_insertSorted x y t, List.mem_cons]
        tauto

theorem insertSorted_strict (x : Rat) : ∀ l : List Rat, l.Pairwise (· < ·) → (insertSorted x l).Pairwise (· < ·)
  | [], _ => by simp [insertSorted]
  | z :: t, h => by
    unfold insertSorted
    rw [List.pairwise_cons] at h
    split
    · rename_i hxz
      rw [List.pairwise_cons]
      refine ⟨?_, List.pairwise_cons.mpr h⟩
      intro a ha
      rcases List.mem_cons.mp ha with rfl | ha
      · exact hxz
      · exact lt_trans hxz (h.1 a ha)
    · split
      · exact List.pairwise_cons.mpr h
      · rename_i h1 h2
        rw [List.pairwise_cons]
        refine ⟨?_, insertSorted_strict x t h.2⟩
        intro a ha
        rcases (mem_insertSorted x a t).mp ha with rfl | ha
        · exact lt_of_le_of_ne (not_lt.mp h1) (Ne.symm h2)
        · exact h.1 a ha

theorem foldl_insertSorted_strict : ∀ (l acc : List Rat), acc.Pairwise (· < ·) →
    (l.foldl (fun acc x => insertSorted x acc) acc).Pairwise (· < ·)
  | [], _, h => h
  | x :: l, acc, h => foldl_insertSorted_strict l _ (insertSorted_strict x acc h)

theorem mem_foldl_insertSorted (y : Rat) : ∀ (l acc : List Rat),
    y ∈ l.foldl (fun acc x => insertSorted x acc) acc ↔ y ∈ l ∨ y ∈ acc
  | [], _ => by simp
  | x :: l, acc => by
    rw [List.foldl_cons, mem_foldl_insertSorted y l, mem_insertSorted, List.mem_cons]
    tauto

/-- two strictly increasing lists with the same elements are equal -/
theorem strict_ext : ∀ (l1 l2 : List Rat), l1.Pairwise (· < ·) → l2.Pairwise (· < ·) →
    (∀ x, x ∈ l1 ↔ x ∈ l2) → l1 = l2
  | [], [], _, _, _ => rfl
  | [], b :: _, _, _, h => by simpa using (h b).mpr (by simp)
  | a :: _, [], _, _, h => by simpa using (h a).mp (by simp)
  | a :: l1, b :: l2, h1, h2, h => by
    rw [List.pairwise_cons] at h1 h2
    have hab : a = b := by
      rcases List.mem_cons.mp ((h a).mp (by simp)) with e | ha
      · exact e
      · rcases List.mem_cons.mp ((h b).mpr (by simp)) with e | hb
        · exact e.symm
        · exact absurd (lt_trans (h2.1 a ha) (h1.1 b hb)) (lt_irrefl _)
    subst hab
    congr 1
    apply strict_ext l1 l2 h1.2 h2.2
    intro x
    constructor
    · intro hx
      rcases List.mem_cons.mp ((h x).mp (List.mem_cons_of_mem _ hx)) with e | hx2
      · exact absurd (e ▸ h1.1 x hx) (lt_irrefl _)
      · exact hx2
    · intro hx
      rcases List.mem_cons.mp ((h x).mpr (List.mem_cons_of_mem _ hx)) with e | hx2
      · exact absurd (e ▸ h2.1 x hx) (lt_irrefl _)
      · exact hx2

theorem allTimes_strict (hs : List Hist) : (allTimes hs).Pairwise (· < ·) :=
  foldl_insertSorted_strict _ [] List.Pairwise.nil

theorem mem_allTimes (hs : List Hist) (t : Rat) : t ∈ allTimes hs ↔ ∃ h ∈ hs, ∃ e ∈ h, e.1 = t := by
  unfold allTimes
  rw [mem_foldl_insertSorted]
  simp [List.mem_flatMap]

theorem mem_allTimes_histories (tmin : Rat) (init : Node → String) (nodes : List Node) (log : Log)
    (h : ValidLog tmin nodes log) (hne : nodes ≠ []) (t : Rat) :
    t ∈ allTimes (histories tmin init log nodes) ↔ t ∈ tmin :: log.map (·.1) := by
  rw [mem_allTimes]
  constructor
  · rintro ⟨H, hH, e, he, rfl⟩
    obtain ⟨v, _, rfl⟩ := List.mem_map.mp hH
    rcases List.mem_cons.mp he with rfl | he
    · simp
    · obtain ⟨e', he', rfl⟩ := List.mem_map.mp he
      exact List.mem_cons_of_mem _ (List.mem_map_of_mem (List.mem_filter.mp he').1)
  · intro ht
    rcases List.mem_cons.mp ht with rfl | ht
    · obtain ⟨v, hv⟩ := List.exists_mem_of_ne_nil nodes hne
      exact ⟨_, List.mem_map_of_mem hv, (t, init v), by simp [histOf], rfl⟩
    · obtain ⟨e, he, rfl⟩ := List.mem_map.mp ht
      refine ⟨_, List.mem_map_of_mem (h.2 e he), (e.1, e.2.2), ?_, rfl⟩
      simp only [histOf]
      exact List.mem_cons_of_mem _ (List.mem_map.mpr ⟨e, List.mem_filter.mpr ⟨he, by simp⟩, rfl⟩)

/-! ### `collapse`: the kept indices -/

theorem getD_eq' {β : Type} (l : List β) (d : β) {i : Nat} (h : i < l.length) : l.getD i d = l[i] :=
  (List.getElem_eq_getD d).symm

/-- the indices kept by `collapse`: the last one of each run of equal times -/
def keepIdx (ts : List Rat) : List Nat := (List.range ts.length).filter fun i => ts[i + 1]? != ts[i]?

theorem mem_keepIdx (ts : List Rat) (i : Nat) : i ∈ keepIdx ts ↔ i < ts.length ∧ ts[i + 1]? ≠ ts[i]? := by
  simp [keepIdx]

theorem sorted_getElem {ts : List Rat} (h : ts.Pairwise (· ≤ ·)) {i j : Nat} (hij : i ≤ j) (hj : j < ts.length) :
    ts[i] ≤ ts[j] := by
  rcases Nat.lt_or_eq_of_le hij with hlt | rfl
  · exact List.pairwise_iff_getElem.mp h i j (by omega) hj hlt
  · exact le_refl _

theorem keep_lt {ts : List Rat} (h : ts.Pairwise (· ≤ ·)) {i j : Nat} (hi : i ∈ keepIdx ts) (hij : i < j)
    (hj : j < ts.length) : ts[i]'(by omega) < ts[j] := by
  obtain ⟨hil, hne⟩ := (mem_keepIdx ts i).mp hi
  have h1 : i + 1 < ts.length := by omega
  rw [List.getElem?_eq_getElem h1, List.getElem?_eq_getElem hil] at hne
  have hne' : ts[i] ≠ ts[i + 1] := fun e => hne (by rw [e])
  exact lt_of_lt_of_le (lt_of_le_of_ne (sorted_getElem h (Nat.le_succ i) h1) hne')
    (sorted_getElem h (by omega) hj)

theorem keep_times_strict {ts : List Rat} (h : ts.Pairwise (· ≤ ·)) :
    ((keepIdx ts).map fun i => ts.getD i 0).Pairwise (· < ·) := by
  rw [List.pairwise_map]
  have hp : (keepIdx ts).Pairwise (· < ·) := List.Pairwise.sublist List.filter_sublist List.pairwise_lt_range
  refine List.Pairwise.imp_of_mem ?_ hp
  intro i j hi hj hij
  have hjl := ((mem_keepIdx ts j).mp hj).1
  have hil := ((mem_keepIdx ts i).mp hi).1
  rw [getD_eq' _ _ hil, getD_eq' _ _ hjl]
  exact keep_lt h hi hij hjl

theorem exists_keep_ge (ts : List Rat) : ∀ (d j : Nat) (hj : j < ts.length), ts.length - j ≤ d →
    ∃ i, i ∈ keepIdx ts ∧ ∃ hi : i < ts.length, ts[i] = ts[j]
  | 0, j, hj, hd => by omega
  | d + 1, j, hj, hd => by
    by_cases hk : j ∈ keepIdx ts
    · exact ⟨j, hk, hj, rfl⟩
    · rw [mem_keepIdx] at hk
      have hk' : ts[j + 1]? = ts[j]? := by
        by_contra hc; exact hk ⟨hj, hc⟩
      rw [List.getElem?_eq_getElem hj] at hk'
      have hj1 : j + 1 < ts.length := by
        by_contra hc
        rw [List.getElem?_eq_none (by omega)] at hk'
        cases hk'
      rw [List.getElem?_eq_getElem hj1] at hk'
      obtain ⟨i, hi, hil, e⟩ := exists_keep_ge ts d (j + 1) hj1 (by omega)
      exact ⟨i, hi, hil, e.trans (Option.some.inj hk')⟩

theorem keep_times_mem (ts : List Rat) (t : Rat) :
    t ∈ ((keepIdx ts).map fun i => ts.getD i 0) ↔ t ∈ ts := by
  constructor
  · intro h
    obtain ⟨i, hi, rfl⟩ := List.mem_map.mp h
    have hil := ((mem_keepIdx ts i).mp hi).1
    rw [getD_eq' _ _ hil]
    exact List.getElem_mem hil
  · intro h
    obtain ⟨j, hj, rfl⟩ := List.getElem_of_mem h
    obtain ⟨i, hi, hil, e⟩ := exists_keep_ge ts _ j hj (le_refl _)
    exact List.mem_map.mpr ⟨i, hi, by rw [getD_eq' _ _ hil, e]⟩

/-- **(A)** the times kept by `collapse` are exactly `allTimes` of the histories -/
theorem keep_times_eq_allTimes (tmin : Rat) (init : Node → String) (nodes : List Node) (log : Log)
    (h : ValidLog tmin nodes log) (hne : nodes ≠ []) :
    ((keepIdx (tmin :: log.map (·.1))).map fun i => (tmin :: log.map (·.1)).getD i 0) =
      allTimes (histories tmin init log nodes) := by
  apply strict_ext _ _ (keep_times_strict h.1) (allTimes_strict _)
  intro x
  rw [keep_times_mem, mem_allTimes_histories tmin init nodes log h hne]

/-- **(B)** at a kept index `j`, the events with time ≤ the `j`-th time are exactly the first `j` events -/
theorem upTo_keep (tmin : Rat) (nodes : List Node) (log : Log) (h : ValidLog tmin nodes log) (j : Nat)
    (hj : j ∈ keepIdx (tmin :: log.map (·.1))) :
    upTo log ((tmin :: log.map (·.1)).getD j 0) = j ∧ tmin ≤ (tmin :: log.map (·.1)).getD j 0 := by
  have hjl := ((mem_keepIdx _ j).mp hj).1
  rw [getD_eq' _ _ hjl]
  have hlen : (tmin :: log.map (·.1)).length = log.length + 1 := by simp
  constructor
  · unfold upTo
    apply filter_length_eq _ _ _ (by omega)
    · intro i hi hij
      have := sorted_getElem h.1 (show i + 1 ≤ j by omega) hjl
      simpa using this
    · intro i hi hji
      have := keep_lt h.1 hj (show j < i + 1 by omega) (by omega)
      simpa using this
  · have := sorted_getElem h.1 (Nat.zero_le j) hjl
    simpa using this

/-! ### assembling -/

theorem countAt_histories (tmin : Rat) (init : Node → String) (log : Log) (sub : List Node) (s : String) (T : Rat) :
    countAt (histories tmin init log sub) T s =
      ((sub.filter fun v => statusAt (histOf tmin init log v) T == some s).length : Int) := by
  unfold countAt histories
  rw [List.filter_map, List.length_map]
  rfl

theorem collapse_arrays_times (tmin : Rat) (init : Node → String) (nodes : List Node) (log : Log)
    (statuses : List String) :
    (collapse (arraysOf tmin init log nodes statuses)).times =
      (keepIdx (tmin :: log.map (·.1))).map fun i => (tmin :: log.map (·.1)).getD i 0 := rfl

/-- **(C)** each kept row is the vector of status counts of the histories at the row's time -/
theorem collapse_arrays_cols (tmin : Rat) (init : Node → String) (nodes : List Node) (log : Log)
    (h : ValidLog tmin nodes log) (statuses : List String) :
    (collapse (arraysOf tmin init log nodes statuses)).cols =
      statuses.map fun s => (keepIdx (tmin :: log.map (·.1))).map fun j =>
        countAt (histories tmin init log nodes) ((tmin :: log.map (·.1)).getD j 0) s := by
  show List.map _ (List.map _ statuses) = _
  rw [List.map_map]
  apply List.map_congr_left
  intro s _
  show List.map _ (keepIdx (tmin :: log.map (·.1))) = _
  apply List.map_congr_left
  intro j hj
  have hjl := ((mem_keepIdx _ j).mp hj).1
  have hjl' : j < (List.range (log.length + 1)).length := by simpa using hjl
  obtain ⟨hu, hT⟩ := upTo_keep tmin nodes log h j hj
  rw [getD_eq' _ _ (by simpa using hjl'), List.getElem_map, List.getElem_range, countAt_histories]
  congr 2
  apply List.filter_congr
  intro v _
  rw [statusAt_histOf' tmin init nodes log h v _ hT, hu]
  by_cases e : statusAfter init log j v = s <;> simp [e]

theorem summarySpec_eq_collapse' (tmin : Rat) (init : Node → String) (nodes : List Node) (log : Log)
    (h : ValidLog tmin nodes log) (hne : nodes ≠ []) (statuses : List String) :
    trajEq (summarySpec (histories tmin init log nodes) statuses)
           (collapse (arraysOf tmin init log nodes statuses)) = true := by
  unfold trajEq
  rw [collapse_arrays_cols tmin init nodes log h, collapse_arrays_times,
    keep_times_eq_allTimes tmin init nodes log h hne]
  simp only [summarySpec, Bool.and_eq_true, beq_iff_eq, true_and]
  rw [← keep_times_eq_allTimes tmin init nodes log h hne]
  simp only [List.map_map]
  rfl

theorem summary_eq_arrays' (tmin : Rat) (init : Node → String) (nodes : List Node) (log : Log)
    (h : ValidLog tmin nodes log) (hne : nodes ≠ []) (statuses : List String) :
    arraysMatch true (arraysOf tmin init log nodes statuses) (histories tmin init log nodes) statuses = true := by
  unfold arraysMatch
  have ht := keep_times_eq_allTimes tmin init nodes log h hne
  simp only [collapse_arrays_cols tmin init nodes log h, collapse_arrays_times, ht, Bool.and_eq_true,
    Bool.not_true, Bool.false_or, beq_iff_eq, List.length_map, List.all_eq_true, and_true, allIdx,
    List.mem_range]
  refine ⟨fun t ht => by simpa using ht, ?_⟩
  intro i hi
  unfold row
  rw [List.map_map]
  apply List.map_congr_left
  intro s _
  rw [← ht]
  rw [← ht, List.length_map] at hi
  simp only [Function.comp, getD_eq' _ _ (show i < (List.map _ (keepIdx (tmin :: log.map (·.1)))).length by
    simpa using hi), List.getElem_map]

end Invest
