import EoNVerif.Gen.PyTM
/-!
Runtime of the code generated from the discrete-time simulators (`harness/pydisc2lean.py`).

Besides the scripted random tape (`TM`) the generated code needs two more things:
* the iteration order of a Python `set`.  In CPython it is a deterministic function of the hashes and of the sequence
  of insertions.  A `set` is kept as a duplicate-free `List Node` in insertion order, and `for x in <set>` iterates
  over `P.iter s` — a parameter.  The refinement theorems quantify over every permutation-valued `iter`; the driver
  instantiates it with a model of CPython's open-addressing table (`cpyOrder`, below), fed with the real hashes.
* the answers of the user callbacks `test_transmission(u, v, *args)` / `test_recovery(u)`: each call is logged with
  its arguments and answered from a script (`ask`), like the random primitives.
-/
namespace PyDM

structure DSt where
  answers : List Bool
  calls : Array (List Nat) := #[]

abbrev DM := StateT DSt TM

def liftT {α : Type} (x : TM α) : DM α := fun s => do let a ← x; pure (a, s)
def liftE {α : Type} (x : Except String α) : DM α := liftT (PyTM.liftE x)
def fail {α : Type} (msg : String) : DM α := liftT (TM.fail msg)

/-- a call of a user callback: logged with its arguments, answered from the script -/
def ask (call : List Nat) : DM Bool := fun st =>
  match st.answers with
  | [] => TM.fail "answers-exhausted"
  | b :: r => pure (b, { st with answers := r, calls := st.calls.push call })

/-- `set(l)` -/
def setOf (l : List Node) : List Node := l.foldl (fun acc x => if acc.contains x then acc else acc ++ [x]) []

/-- `s.add(x)` -/
def setAdd (s : List Node) (x : Node) : List Node := if s.contains x then s else s ++ [x]

/-- `d[k] = v` for a `defaultdict(lambda: True)` kept as a function -/
def fset (f : Node → Bool) (k : Node) (v : Bool) : Node → Bool := fun x => if x = k then v else f x

abbrev Hist := List (Node × (List Rat × List St))

/-- `node_history[u][0].append(x)` on `defaultdict(lambda: ([tmin], ['S']))` (a read of a missing key stores the default) -/
def nhApp0 (tmin : Rat) (d : Hist) (u : Node) (x : Rat) : Hist :=
  let e := alGet d ([tmin], [St.S]) u
  alSet d u (e.1 ++ [x], e.2)

/-- `node_history[u][1].append(s)` -/
def nhApp1 (tmin : Rat) (d : Hist) (u : Node) (s : St) : Hist :=
  let e := alGet d ([tmin], [St.S]) u
  alSet d u (e.1, e.2 ++ [s])

/-- `d[k].append(x)` on a plain dict: KeyError when `k` is missing -/
def dictAppend (d : List (Node × List Node)) (k : Node) (x : Node) : Except String (List (Node × List Node)) := do
  let l ← PyRT.dictGet d k
  pure (alSet d k (l ++ [x]))

/-- `random.choice(seq)` for a list of nodes -/
def choiceNode (seq : List Node) : DM Node := do
  let i ← liftT (TM.popChoice (seq.map PyTM.encNode))
  liftE (PyRT.listChoice seq i)

/-! ### CPython's `set` layout (setobject.c, 3.12): open addressing, 9 linear probes, then the perturbed jump;
minimal table 8, grown to the first power of two > 4·used when fill·5 ≥ mask·3; no deletions occur in the translated
code.  Only the driver uses this (to feed `DArgs.iter`); no theorem depends on it. -/

structure CSet where
  mask : Nat
  table : Array (Option Node)
  fill : Nat

def CSet.empty : CSet := { mask := 7, table := Array.replicate 8 none, fill := 0 }

/-- first free slot among `i, i+1, …, i+k` -/
def freeIn (tbl : Array (Option Node)) (i : Nat) : Nat → Option Nat
  | 0 => if (tbl.getD i none).isNone then some i else none
  | k + 1 => if (tbl.getD i none).isNone then some i else freeIn tbl (i + 1) k

/-- `set_insert_clean` / the unused-slot search of `set_add_entry` (the key is known to be absent) -/
def findSlot (tbl : Array (Option Node)) (mask : Nat) : Nat → Nat → Nat → Option Nat
  | 0, _, _ => none
  | fuel + 1, i, perturb =>
    match freeIn tbl i (if i + 9 ≤ mask then 9 else 0) with
    | some j => some j
    | none =>
      let perturb := perturb / 32
      findSlot tbl mask fuel ((i * 5 + 1 + perturb) % (mask + 1)) perturb

def insertClean (hash : Node → Nat) (tbl : Array (Option Node)) (mask : Nat) (key : Node) : Array (Option Node) :=
  match findSlot tbl mask (64 + 2 * (mask + 1)) (hash key % (mask + 1)) (hash key) with
  | some j => tbl.setIfInBounds j (some key)
  | none => tbl

def CSet.add (hash : Node → Nat) (s : CSet) (key : Node) : CSet :=
  if s.table.contains (some key) then s else
  let tbl := insertClean hash s.table s.mask key
  let fill := s.fill + 1
  if fill * 5 < s.mask * 3 then { s with table := tbl, fill := fill } else
  let minused := fill * 4
  let rec grow (fuel size : Nat) : Nat := match fuel with
    | 0 => size
    | f + 1 => if size ≤ minused then grow f (size * 2) else size
  let size := grow 64 8
  let fresh : Array (Option Node) := Array.replicate size none
  let tbl' := tbl.foldl (fun acc e => match e with | some k => insertClean hash acc (size - 1) k | none => acc) fresh
  { mask := size - 1, table := tbl', fill := fill }

/-- iteration order of the `set` built by adding the elements of `ins` one by one (`hash` = `hash(label) mod 2^64`) -/
def cpyOrder (hash : Node → Nat) (ins : List Node) : List Node :=
  ((ins.foldl (CSet.add hash) CSet.empty).table.toList.filterMap id)

/-- what the translated slices read from their arguments -/
structure DArgs where
  order : Int                                   -- G.order()
  nbrs : Node → List Node                       -- G.neighbors(u)
  iter : List Node → List Node                  -- iteration order of a `set` with the given insertion history
  tmin : Rat
  tmax : ERat
  full : Bool                                   -- return_full_data
  p : Rat                                       -- basic_discrete_SIS
  testTrans : Node → Node → DM Bool             -- test_transmission(u, v, *args)
  testRec : Option (Node → DM Bool)             -- test_recovery
  initial_infecteds : List Node                 -- after normalisation
  initial_recovereds : Option (List Node)

end PyDM
