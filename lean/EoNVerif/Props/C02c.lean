import EoNVerif.Proofs.GenGillespie
/-!
C02c — the Lean code GENERATED statement by statement from the Python function `Gillespie_SIS`
(`EoNVerif/Gen/GillespieGen.lean`, namespace `GenGSIS`, over the generated `_ListDict_` code) REFINES the hand-written
model `Gillespie.run` (`EoNVerif/Model/Gillespie.lean`) with `P.sis = true` and no recovered nodes, in both directions
and on every tape.  Hence every C02 theorem about the model (`Props/C01.lean`, `Props/C02.lean`) holds for the code
generated from the source.

* `GenGillespie.Agree A P tmin tmax cfuel` — the arguments read by the generated code describe the model's parameters;
* `GenGSIS.Rel σ s` — the simulation relation (statuses equal, both `_ListDict_`s related by `GenLD.R`, output rows
  `times`, `S`, `I` equal up to the model's newest-first order; the SIS function has no `R` row);
* `gen_run_refines` / `gen_run_refines_back` — forward / backward simulation with the SAME final tape state;
* `gen_run_inv`, `gen_run_clock`, `gen_clock`, `gen_run_counts`, `gen_run_no_R`, `gen_run_no_keyerror`,
  `gen_run_fails_iff`, `gen_run_transmissions` — the C02 facts transferred.
-/
namespace GenGSIS
open Gillespie GenGillespie

variable {A : PyTM.GArgs} {P : GParams} {tmin : Rat} {tmax : ERat} {cfuel : Nat}

/-- **simulation, both directions at once**, with the full loop invariant `LRel` -/
theorem gen_run_sim (hag : Agree A P tmin tmax cfuel) (hwf : WF P) (hsis : P.sis = true) (infs : List Node)
    (fuel : Nat) (hi : infs.Nodup) (him : ∀ u ∈ infs, u ∈ P.nodes) :
    TM.Sim (run A infs fuel) (Gillespie.run P infs [] tmin tmax fuel cfuel) (fun σ s => ∃ t, LRel A P σ s t) :=
  run_sim hag hwf hsis infs fuel hi him

/-- **forward simulation**: every normal return of the model is a normal return of the generated code, in a related
state, with the same final tape state — the same draws were consumed and the same RNG calls with the same arguments
(clock rates, candidate lists) were logged -/
theorem gen_run_refines (hag : Agree A P tmin tmax cfuel) (hwf : WF P) (hsis : P.sis = true) (infs : List Node)
    (fuel : Nat) (hi : infs.Nodup) (him : ∀ u ∈ infs, u ∈ P.nodes) (ts ts' : TapeSt) (s : GState)
    (h : Gillespie.run P infs [] tmin tmax fuel cfuel ts = .ok (s, ts')) :
    ∃ σ, run A infs fuel ts = .ok (σ, ts') ∧ Rel σ s := by
  obtain ⟨σ, h1, t, h2⟩ := (run_sim hag hwf hsis infs fuel hi him ts).1 s ts' h
  exact ⟨σ, h1, h2.rel⟩

/-- **backward simulation**: every normal return of the generated code is a run of the model -/
theorem gen_run_refines_back (hag : Agree A P tmin tmax cfuel) (hwf : WF P) (hsis : P.sis = true)
    (infs : List Node) (fuel : Nat) (hi : infs.Nodup) (him : ∀ u ∈ infs, u ∈ P.nodes) (ts ts' : TapeSt) (σ : Loc)
    (h : run A infs fuel ts = .ok (σ, ts')) :
    ∃ s, Gillespie.run P infs [] tmin tmax fuel cfuel ts = .ok (s, ts') ∧ Rel σ s := by
  obtain ⟨s, h1, t, h2⟩ := (run_sim hag hwf hsis infs fuel hi him ts).2 σ ts' h
  exact ⟨s, h1, h2.rel⟩

/-- the two `while` loops simulate each other from related states (any fuel, any tape) -/
theorem gen_loop_refines (hag : Agree A P tmin tmax cfuel) (hwf : WF P) (hsis : P.sis = true) (fuel : Nat)
    (σ : Loc) (s : GState) (t : ERat) (h : LRel A P σ s t) :
    TM.Sim (loop A fuel σ) (Gillespie.loop P tmax cfuel fuel s t) (fun σ' s' => ∃ t', LRel A P σ' s' t') :=
  loop_sim hag hwf hsis fuel σ s t h

/-- **C02 invariant, transferred**: after every normally returning run of the generated code the two candidate
structures list exactly the events enabled in the final statuses, without duplicates -/
theorem gen_run_inv (hag : Agree A P tmin tmax cfuel) (hwf : WF P) (hsis : P.sis = true)
    (infs : List Node) (fuel : Nat) (hi : infs.Nodup) (him : ∀ u ∈ infs, u ∈ P.nodes) (ts ts' : TapeSt) (σ : Loc)
    (h : run A infs fuel ts = .ok (σ, ts')) :
    (∀ u, u ∈ σ.infecteds.items ↔ u ∈ Chain.enabledRec P σ.status) ∧
    (∀ p, p ∈ σ.IS_links.items ↔ p ∈ Chain.enabledTrans P σ.status) ∧
    σ.infecteds.items.Nodup ∧ σ.IS_links.items.Nodup := by
  obtain ⟨s, -, t, h2⟩ := (run_sim hag hwf hsis infs fuel hi him ts).2 σ ts' h
  obtain ⟨e1, e2⟩ := enabled_iff' P s h2.inv
  rw [h2.rel.status, h2.rel.inf.items, h2.rel.links.items]
  exact ⟨fun u => (e1 u).symm, fun p => (e2 p).symm, h2.inv.infInv.nodup, h2.inv.linkInv.nodup⟩

/-- **SIS never produces a recovered node**, transferred: in the final statuses of the generated code nobody is `R` -/
theorem gen_run_no_R (hag : Agree A P tmin tmax cfuel) (hwf : WF P) (hsis : P.sis = true)
    (infs : List Node) (fuel : Nat) (hi : infs.Nodup) (him : ∀ u ∈ infs, u ∈ P.nodes) (ts ts' : TapeSt) (σ : Loc)
    (h : run A infs fuel ts = .ok (σ, ts')) (u : Node) : σ.status u ≠ St.R := by
  obtain ⟨s, -, t, h2⟩ := (run_sim hag hwf hsis infs fuel hi him ts).2 σ ts' h
  rw [h2.rel.status]
  exact h2.inv.sis_noR hsis u

/-- **C02 clock, transferred (final state)** -/
theorem gen_run_clock (hag : Agree A P tmin tmax cfuel) (hwf : WF P) (hsis : P.sis = true)
    (infs : List Node) (fuel : Nat) (hi : infs.Nodup) (him : ∀ u ∈ infs, u ∈ P.nodes) (ts ts' : TapeSt) (σ : Loc)
    (h : run A infs fuel ts = .ok (σ, ts')) :
    σ.total_rate = Chain.totalRate P σ.status ∧
      σ.total_rate = σ.total_recovery_rate + σ.total_transmission_rate := by
  obtain ⟨s, -, t, h2⟩ := (run_sim hag hwf hsis infs fuel hi him ts).2 σ ts' h
  refine ⟨?_, ?_⟩
  · rw [h2.tot, clock_eq' P hwf s h2.inv, h2.rel.status]
  · rw [h2.tot, h2.rr, h2.tr]; rfl

/-- **C02 clock, transferred (every step)**: in a state related to a model state `s` with `Inv P s`, the clock
statements of the generated code call `expovariate` with exactly the chain's total rate in the current statuses (the
logged call), and move the time by the drawn amount -/
theorem gen_clock (hag : Agree A P tmin tmax cfuel) (hwf : WF P) (σ : Loc) (s : GState) (tv : Rat)
    (hrel : Rel σ s) (hinv : Gillespie.Inv P s) (ht : σ.t = some tv) (k : Loc → TM Loc) (ts : TapeSt) (d : Rat)
    (rest : List Draw) (htape : ts.tape = .expo d :: rest) (hpos : 0 < Chain.totalRate P σ.status) :
    ∃ σ', tail A k σ ts = k σ' { tape := rest, trace := ts.trace.push (.expo (Chain.totalRate P σ.status)) } ∧
      σ'.t = some (tv + d) ∧ σ'.total_rate = Chain.totalRate P σ.status ∧ Rel σ' s :=
  tail_clock hag hwf σ s tv hrel hinv ht k ts d rest htape hpos

/-- **output rows**: the last entries of the returned `S`, `I` lists are the model's current counts, and the lists are
the model's lists reversed -/
theorem gen_run_counts (hag : Agree A P tmin tmax cfuel) (hwf : WF P) (hsis : P.sis = true)
    (infs : List Node) (fuel : Nat) (hi : infs.Nodup) (him : ∀ u ∈ infs, u ∈ P.nodes) (ts ts' : TapeSt) (σ : Loc)
    (h : run A infs fuel ts = .ok (σ, ts')) :
    ∃ s, Gillespie.run P infs [] tmin tmax fuel cfuel ts = .ok (s, ts') ∧
      σ.S.getLast? = some (Gillespie.hd s.S) ∧ σ.I.getLast? = some (Gillespie.hd s.I) ∧
      σ.S = s.S.reverse ∧ σ.I = s.I.reverse ∧ σ.times = s.times.reverse.map some := by
  obtain ⟨s, h1, t, h2⟩ := (run_sim hag hwf hsis infs fuel hi him ts).2 σ ts' h
  refine ⟨s, h1, ?_, ?_, h2.rel.S, h2.rel.I, h2.rel.times⟩
  · obtain ⟨a, r, e⟩ := List.exists_cons_of_ne_nil h2.hS
    rw [h2.rel.S, e]; simp [Gillespie.hd]
  · obtain ⟨a, r, e⟩ := List.exists_cons_of_ne_nil h2.hI
    rw [h2.rel.I, e]; simp [Gillespie.hd]

/-- **C02 no-KeyError, transferred**: the generated `Gillespie_SIS` never raises `KeyError`, whatever the draws -/
theorem gen_run_no_keyerror (hag : Agree A P tmin tmax cfuel) (hwf : WF P) (hsis : P.sis = true)
    (infs : List Node) (fuel : Nat) (hi : infs.Nodup) (him : ∀ u ∈ infs, u ∈ P.nodes) (ts : TapeSt) :
    run A infs fuel ts ≠ .error "KeyError" :=
  fun h => run_noKE hag hwf hsis infs fuel hi him ts _ h rfl

/-- the generated loop never raises `KeyError` from a state related to a model state with the invariant -/
theorem gen_loop_no_keyerror (hag : Agree A P tmin tmax cfuel) (hwf : WF P) (hsis : P.sis = true) (fuel : Nat)
    (σ : Loc) (s : GState) (t : ERat) (h : LRel A P σ s t) (ts : TapeSt) : loop A fuel σ ts ≠ .error "KeyError" :=
  fun he => loop_noKE hag hwf hsis fuel σ s t h ts _ he rfl

/-- the generated code raises an exception (or runs out of draws / fuel) exactly when the model does -/
theorem gen_run_fails_iff (hag : Agree A P tmin tmax cfuel) (hwf : WF P) (hsis : P.sis = true)
    (infs : List Node) (fuel : Nat) (hi : infs.Nodup) (him : ∀ u ∈ infs, u ∈ P.nodes) (ts : TapeSt) :
    (∃ e, run A infs fuel ts = .error e) ↔
      (∃ e, Gillespie.run P infs [] tmin tmax fuel cfuel ts = .error e) := by
  have hs := run_sim hag hwf hsis infs fuel hi him ts
  constructor
  · rintro ⟨e, he⟩
    cases hm : Gillespie.run P infs [] tmin tmax fuel cfuel ts with
    | error e' => exact ⟨e', rfl⟩
    | ok r =>
      obtain ⟨s, ts'⟩ := r
      obtain ⟨σ, hσ, -⟩ := hs.1 s ts' hm
      rw [he] at hσ; cases hσ
  · rintro ⟨e, he⟩
    cases hm : run A infs fuel ts with
    | error e' => exact ⟨e', rfl⟩
    | ok r =>
      obtain ⟨σ, ts'⟩ := r
      obtain ⟨s, hs', -⟩ := hs.2 σ ts' hm
      rw [he] at hs'; cases hs'

/-- **full-data bookkeeping**: with `return_full_data` set, the `transmissions` list of the generated code is the
entries `(tmin, None, node)` of the initial infecteds followed by one entry `(t, u, v)` per transmission event logged
by the model, oldest first -/
theorem gen_run_transmissions (hag : Agree A P tmin tmax cfuel) (hwf : WF P) (hsis : P.sis = true)
    (infs : List Node) (fuel : Nat) (hi : infs.Nodup) (him : ∀ u ∈ infs, u ∈ P.nodes)
    (hfull : A.full = true) (ts ts' : TapeSt) (σ : Loc)
    (h : run A infs fuel ts = .ok (σ, ts')) :
    ∃ s, Gillespie.run P infs [] tmin tmax fuel cfuel ts = .ok (s, ts') ∧
      σ.transmissions = initTrans tmin infs ++ transLog s.log := by
  obtain ⟨s, h1, -, h2⟩ := (run_sim_full hag hwf hsis infs fuel hi him ts).2 σ ts' h
  exact ⟨s, h1, h2 hfull⟩

end GenGSIS

/-! ### non-vacuity: the 4-node path with weighted edges, unweighted recovery, SIS -/
namespace C02c
open Gillespie GenGillespie

def exNbrs (u : Node) : List Node :=
  match u with
  | 0 => [1] | 1 => [0, 2] | 2 => [1, 3] | 3 => [2] | _ => []
def exP : GParams :=
  { nodes := [0, 1, 2, 3], nbrs := exNbrs, tau := 2, gamma := 1,
    ew := some (fun u v => if u + v = 3 then 1/2 else 2), nw := none, sis := true }
/-- what the generated code reads from its arguments for the same network (no recovery weights, no full data) -/
def exA : PyTM.GArgs :=
  { nbrs := exNbrs, order := 4, tau := 2, gamma := 1, tmin := 0, tmax := some 10, hasTW := true, hasRW := false,
    adjw := fun u v => if u + v = 3 then 1/2 else 2, nodew := fun _ => 0, full := false, cfuel := 5 }

/-- the hypothesis `Agree` of every theorem above is satisfiable -/
theorem exAgree : Agree exA exP 0 (some 10) 5 where
  nbrs := rfl
  order := rfl
  tau := rfl
  gamma := rfl
  tmin := rfl
  tmax := rfl
  cfuel := rfl
  hasTW := rfl
  hasRW := rfl
  adjw := by intro f hf; exact Option.some.inj hf
  nodew := by intro f hf; cases hf

/-- ... and so is `WF` -/
theorem exWF : Gillespie.WF exP where
  nodup := by decide
  nbr_nodup := by decide
  nbr_mem := by decide
  nbr_out := by
    intro u hu
    simp only [exP, List.mem_cons, List.not_mem_nil, or_false, not_or] at hu
    obtain ⟨h0, h1, h2, h3⟩ := hu
    show exNbrs u = []
    unfold exNbrs
    split <;> first | rfl | contradiction
  symm := by
    intro u v
    show v ∈ exNbrs u → u ∈ exNbrs v
    unfold exNbrs
    split <;> simp <;> (try rintro (rfl | rfl)) <;> simp
  noloop := by
    intro u
    show u ∉ exNbrs u
    unfold exNbrs
    split <;> simp
  ew_nonneg := by
    intro f hf u v
    obtain rfl : (fun u v => if u + v = 3 then (1/2 : Rat) else 2) = f := Option.some.inj hf
    dsimp only; split <;> decide +kernel
  ew_symm := by
    intro f hf u v
    obtain rfl : (fun u v => if u + v = 3 then (1/2 : Rat) else 2) = f := Option.some.inj hf
    dsimp only; rw [Nat.add_comm]
  nw_nonneg := by intro f hf; cases hf
  tau_nonneg := by decide +kernel
  gamma_nonneg := by decide +kernel

/-- scripted draws: clock, transmission 1→0, clock, recovery of 1 (unweighted: no rejection draw), clock,
transmission 0→1 (reinfection of the recovered node), clock (beyond `tmax`) -/
def exTape : List Draw :=
  [.expo (1/2), .unif (9/10), .choice 0, .unif 0, .expo 1, .unif 0, .choice 0, .expo 3,
   .unif (99/100), .choice 0, .unif 0, .expo 20]

def viewA (r : Except String (GenGSIS.Loc × TapeSt)) :=
  r.toOption.map fun (σ, _) => (σ.infecteds.items, σ.IS_links.items, σ.times)
def viewB (r : Except String (GenGSIS.Loc × TapeSt)) :=
  r.toOption.map fun (σ, _) => (σ.S, σ.I)
def viewT {α : Type} (r : Except String (α × TapeSt)) :=
  r.toOption.map fun (_, ts) => (ts.trace.toList, ts.tape)
def viewMA (r : Except String (GState × TapeSt)) :=
  r.toOption.map fun (s, _) => (s.inf.items, s.links.items, s.times)
def viewMB (r : Except String (GState × TapeSt)) :=
  r.toOption.map fun (s, _) => (s.S, s.I)

/-- the generated code runs three events on this tape (node 1 infects 0, recovers, and is reinfected by 0) ... -/
example : viewA (GenGSIS.run exA [1] 10 ⟨exTape, #[]⟩) =
    some ([0, 1], [(1, 2)], [some 0, some (1/2), some (3/2), some (9/2)]) := by decide +kernel
example : viewB (GenGSIS.run exA [1] 10 ⟨exTape, #[]⟩) = some ([3, 2, 3, 2], [1, 2, 1, 2]) := by decide +kernel
/-- ... the log shows the clock rates 6, 3, 5, 3 and the candidate lists handed to `random.choice` -/
example : viewT (GenGSIS.run exA [1] 10 ⟨exTape, #[]⟩) =
    some ([.expo 6, .unif, .choice [[1, 0], [1, 2]], .unif, .expo 3, .unif, .choice [[1], [0]], .expo 5, .unif,
      .choice [[0, 1]], .unif, .expo 3], []) := by decide +kernel

/-- the model on the same tape: same log, same (reversed) rows -/
example : viewMA (Gillespie.run exP [1] [] 0 (some 10) 10 5 ⟨exTape, #[]⟩) =
    some ([0, 1], [(1, 2)], [9/2, 3/2, 1/2, 0]) := by decide +kernel
example : viewMB (Gillespie.run exP [1] [] 0 (some 10) 10 5 ⟨exTape, #[]⟩) =
    some ([2, 3, 2, 3], [2, 1, 2, 1]) := by decide +kernel
example : viewT (Gillespie.run exP [1] [] 0 (some 10) 10 5 ⟨exTape, #[]⟩) =
    some ([.expo 6, .unif, .choice [[1, 0], [1, 2]], .unif, .expo 3, .unif, .choice [[1], [0]], .expo 5, .unif,
      .choice [[0, 1]], .unif, .expo 3], []) := by decide +kernel

/-- the refinement theorem applies to this run: the generated code's result is a result of the model (same final
tape state), the C02 invariant holds in the generated code's final state, and nobody is recovered -/
example (σ : GenGSIS.Loc) (ts' : TapeSt) (h : GenGSIS.run exA [1] 10 ⟨exTape, #[]⟩ = .ok (σ, ts')) :
    (∃ s, Gillespie.run exP [1] [] 0 (some 10) 10 5 ⟨exTape, #[]⟩ = .ok (s, ts') ∧ GenGSIS.Rel σ s) ∧
    (∀ u, u ∈ σ.infecteds.items ↔ u ∈ Chain.enabledRec exP σ.status) ∧ (∀ u, σ.status u ≠ St.R) :=
  ⟨GenGSIS.gen_run_refines_back exAgree exWF rfl [1] 10 (by decide) (by decide) _ ts' σ h,
   (GenGSIS.gen_run_inv exAgree exWF rfl [1] 10 (by decide) (by decide) _ ts' σ h).1,
   GenGSIS.gen_run_no_R exAgree exWF rfl [1] 10 (by decide) (by decide) _ ts' σ h⟩

/-- ... and the run does return normally -/
example : (GenGSIS.run exA [1] 10 ⟨exTape, #[]⟩).toOption.isSome = true := by decide +kernel

end C02c
