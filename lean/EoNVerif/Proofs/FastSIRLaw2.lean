import Mathlib.Analysis.SpecialFunctions.Log.Basic
import Mathlib.Analysis.SpecificLimits.Basic
import Mathlib.MeasureTheory.Measure.Lebesgue.Basic
import Mathlib.Tactic.Ring
import Mathlib.Tactic.Linarith
import Mathlib.Tactic.FieldSimp
/-!
Helper lemmas for C01c: the law of the transmission delays drawn by `_truncated_exponential_`
(`/repo/EoN/simulation.py` l.17-22).

**The source is**
```
def _truncated_exponential_(rate, T):
    t = random.expovariate(rate)
    L = int(t/T)
    return t - L*T
```
i.e. an Exp(`rate`) variable reduced modulo `T` — *not* the inverse-CDF formula
`-log(1 - u*(1 - exp(-rate*T)))/rate`.  Both are analysed here (`truncExp` = the source, `invCdfTruncExp` = the
inverse-CDF sampler) and shown to have the same distribution function
`s ↦ (1 - exp(-rate*s)) / (1 - exp(-rate*T))` on `[0,T]`, the Exp(`rate`) law conditioned on `[0,T)`.

`random.expovariate(lambd)` is `-log(1.0 - random.random())/lambd` (CPython `random.py`), with
`random.random()` in `[0,1)`.  Real numbers model the floats (this file is about the mathematics of the sampler,
not about rounding).
-/
namespace FastSIRLaw
open Real

/-- `random.expovariate(r)` as a function of the underlying uniform draw `u ∈ [0,1)` -/
noncomputable def expovariate (r u : ℝ) : ℝ := -Real.log (1 - u) / r

/-- Python's `int(x)` on a float: truncation toward zero -/
noncomputable def pyInt (x : ℝ) : ℤ := if 0 ≤ x then ⌊x⌋ else ⌈x⌉

/-- body of `_truncated_exponential_` after `t` has been drawn: `t - int(t/T)*T` -/
noncomputable def reduceMod (T t : ℝ) : ℝ := t - (pyInt (t / T) : ℝ) * T

/-- `_truncated_exponential_(r, T)` as a function of the uniform draw -/
noncomputable def truncExp (r T u : ℝ) : ℝ := reduceMod T (expovariate r u)

/-- the inverse-CDF sampler for the same law -/
noncomputable def invCdfTruncExp (r T u : ℝ) : ℝ := -Real.log (1 - u * (1 - Real.exp (-r * T))) / r

/-- the distribution function of Exp(`r`) conditioned on `[0,T)` -/
noncomputable def truncCdf (r T s : ℝ) : ℝ := (1 - Real.exp (-r * s)) / (1 - Real.exp (-r * T))

/-! ### `expovariate` -/

theorem expovariate_nonneg {r u : ℝ} (hr : 0 < r) (h0 : 0 ≤ u) (h1 : u < 1) : 0 ≤ expovariate r u := by
  have : Real.log (1 - u) ≤ 0 := Real.log_nonpos (by linarith) (by linarith)
  unfold expovariate
  exact div_nonneg (by linarith) hr.le

/-- `a ≤ expovariate r u ↔ 1 - exp(-r a) ≤ u` : the Exp(r) survival function -/
theorem le_expovariate_iff {r u : ℝ} (hr : 0 < r) (h1 : u < 1) (a : ℝ) :
    a ≤ expovariate r u ↔ 1 - Real.exp (-r * a) ≤ u := by
  have hpos : 0 < 1 - u := by linarith
  unfold expovariate
  rw [le_div_iff₀ hr]
  constructor
  · intro h
    have : Real.log (1 - u) ≤ -r * a := by linarith
    have := (Real.log_le_iff_le_exp hpos).mp this
    linarith
  · intro h
    have : 1 - u ≤ Real.exp (-r * a) := by linarith
    have := (Real.log_le_iff_le_exp hpos).mpr this
    linarith

theorem expovariate_le_iff {r u : ℝ} (hr : 0 < r) (h1 : u < 1) (b : ℝ) :
    expovariate r u ≤ b ↔ u ≤ 1 - Real.exp (-r * b) := by
  have hpos : 0 < 1 - u := by linarith
  unfold expovariate
  rw [div_le_iff₀ hr]
  constructor
  · intro h
    have : -r * b ≤ Real.log (1 - u) := by linarith
    have := (Real.le_log_iff_exp_le hpos).mp this
    linarith
  · intro h
    have : Real.exp (-r * b) ≤ 1 - u := by linarith
    have := (Real.le_log_iff_exp_le hpos).mpr this
    linarith

/-! ### reduction modulo `T` -/

theorem pyInt_of_nonneg {x : ℝ} (h : 0 ≤ x) : pyInt x = ⌊x⌋ := by simp [pyInt, h]

theorem reduceMod_range {T t : ℝ} (hT : 0 < T) (ht : 0 ≤ t) : 0 ≤ reduceMod T t ∧ reduceMod T t < T := by
  have hq : 0 ≤ t / T := div_nonneg ht hT.le
  unfold reduceMod
  rw [pyInt_of_nonneg hq]
  have h1 : (⌊t / T⌋ : ℝ) ≤ t / T := Int.floor_le _
  have h2 : t / T < (⌊t / T⌋ : ℝ) + 1 := Int.lt_floor_add_one _
  rw [le_div_iff₀ hT] at h1
  rw [div_lt_iff₀ hT] at h2
  constructor <;> nlinarith

/-- the event `{reduced value ≤ s}` is the union over `k` of `{kT ≤ t ≤ kT + s}` -/
theorem reduceMod_le_iff {T t : ℝ} (hT : 0 < T) (ht : 0 ≤ t) (s : ℝ) :
    reduceMod T t ≤ s ↔ ∃ k : ℕ, (k : ℝ) * T ≤ t ∧ t ≤ (k : ℝ) * T + s := by
  have hq : 0 ≤ t / T := div_nonneg ht hT.le
  have h1 : (⌊t / T⌋ : ℝ) ≤ t / T := Int.floor_le _
  rw [le_div_iff₀ hT] at h1
  have hfl : 0 ≤ ⌊t / T⌋ := Int.floor_nonneg.mpr hq
  unfold reduceMod
  rw [pyInt_of_nonneg hq]
  constructor
  · intro h
    refine ⟨⌊t / T⌋.toNat, ?_, ?_⟩
    · have : ((⌊t / T⌋.toNat : ℤ) : ℝ) = (⌊t / T⌋ : ℝ) := by rw [Int.toNat_of_nonneg hfl]
      rw [Int.cast_natCast] at this
      rw [this]; exact h1
    · have : ((⌊t / T⌋.toNat : ℤ) : ℝ) = (⌊t / T⌋ : ℝ) := by rw [Int.toNat_of_nonneg hfl]
      rw [Int.cast_natCast] at this
      rw [this]; linarith
  · rintro ⟨k, hk1, hk2⟩
    have : (k : ℝ) ≤ t / T := by rw [le_div_iff₀ hT]; exact hk1
    have hkf : (k : ℤ) ≤ ⌊t / T⌋ := Int.le_floor.mpr (by exact_mod_cast this)
    have : (k : ℝ) ≤ (⌊t / T⌋ : ℝ) := by exact_mod_cast hkf
    nlinarith

/-! ### `_truncated_exponential_` as a function of the uniform draw -/

/-- left / right end of the `k`-th interval of uniform draws that give a delay `≤ s` -/
noncomputable def lo (r T : ℝ) (k : ℕ) : ℝ := 1 - Real.exp (-r * ((k : ℝ) * T))
noncomputable def hi (r T s : ℝ) (k : ℕ) : ℝ := 1 - Real.exp (-r * ((k : ℝ) * T + s))

theorem truncExp_range' {r T u : ℝ} (hr : 0 < r) (hT : 0 < T) (h0 : 0 ≤ u) (h1 : u < 1) :
    0 ≤ truncExp r T u ∧ truncExp r T u < T :=
  reduceMod_range hT (expovariate_nonneg hr h0 h1)

theorem truncExp_le_iff' {r T u : ℝ} (hr : 0 < r) (hT : 0 < T) (h0 : 0 ≤ u) (h1 : u < 1) (s : ℝ) :
    truncExp r T u ≤ s ↔ ∃ k : ℕ, lo r T k ≤ u ∧ u ≤ hi r T s k := by
  unfold truncExp
  rw [reduceMod_le_iff hT (expovariate_nonneg hr h0 h1)]
  simp only [le_expovariate_iff hr h1, expovariate_le_iff hr h1, lo, hi]

/-- the intervals are non-degenerate, increasing and stay inside `[0,1)` -/
theorem lo_le_hi {r T s : ℝ} (hr : 0 < r) (hs : 0 ≤ s) (k : ℕ) : lo r T k ≤ hi r T s k := by
  unfold lo hi
  have : Real.exp (-r * ((k : ℝ) * T + s)) ≤ Real.exp (-r * ((k : ℝ) * T)) :=
    Real.exp_le_exp.mpr (by nlinarith)
  linarith

theorem hi_lt_lo_succ {r T s : ℝ} (hr : 0 < r) (hs : s < T) (k : ℕ) : hi r T s k < lo r T (k + 1) := by
  unfold lo hi
  have : Real.exp (-r * (((k + 1 : ℕ) : ℝ) * T)) < Real.exp (-r * ((k : ℝ) * T + s)) := by
    apply Real.exp_lt_exp.mpr
    push_cast
    nlinarith
  linarith

theorem lo_nonneg {r T : ℝ} (hr : 0 < r) (hT : 0 < T) (k : ℕ) : 0 ≤ lo r T k := by
  unfold lo
  have : Real.exp (-r * ((k : ℝ) * T)) ≤ 1 := by
    rw [Real.exp_le_one_iff]
    have : 0 ≤ (k : ℝ) * T := by positivity
    nlinarith
  linarith

theorem hi_lt_one (r T s : ℝ) (k : ℕ) : hi r T s k < 1 := by
  unfold hi
  have := Real.exp_pos (-r * ((k : ℝ) * T + s))
  linarith

theorem lo_mono {r T : ℝ} (hr : 0 < r) (hT : 0 < T) {j k : ℕ} (h : j ≤ k) : lo r T j ≤ lo r T k := by
  unfold lo
  have : Real.exp (-r * ((k : ℝ) * T)) ≤ Real.exp (-r * ((j : ℝ) * T)) := by
    apply Real.exp_le_exp.mpr
    have h1 : (j : ℝ) ≤ (k : ℝ) := by exact_mod_cast h
    have h2 : (j : ℝ) * T ≤ (k : ℝ) * T := mul_le_mul_of_nonneg_right h1 hT.le
    nlinarith [mul_le_mul_of_nonneg_left h2 hr.le]
  linarith

/-- the interval index is unique: the union is disjoint -/
theorem interval_unique {r T s u : ℝ} (hr : 0 < r) (hT : 0 < T) (hs : s < T) {j k : ℕ}
    (hj : lo r T j ≤ u ∧ u ≤ hi r T s j) (hk : lo r T k ≤ u ∧ u ≤ hi r T s k) : j = k := by
  by_contra hne
  rcases Nat.lt_or_gt_of_ne hne with h | h
  · have := hi_lt_lo_succ hr hs j
    have := lo_mono hr hT (Nat.succ_le_of_lt h)
    linarith [hj.2, hk.1]
  · have := hi_lt_lo_succ hr hs k
    have := lo_mono hr hT (Nat.succ_le_of_lt h)
    linarith [hj.1, hk.2]

theorem exp_neg_lt_one {r T : ℝ} (hr : 0 < r) (hT : 0 < T) : Real.exp (-r * T) < 1 := by
  rw [Real.exp_lt_one_iff]; nlinarith

/-- the lengths of the intervals add up to the truncated-exponential distribution function -/
theorem hasSum_lengths {r T : ℝ} (hr : 0 < r) (hT : 0 < T) (s : ℝ) :
    HasSum (fun k : ℕ => hi r T s k - lo r T k) (truncCdf r T s) := by
  have hlt := exp_neg_lt_one hr hT
  have h := (hasSum_geometric_of_lt_one (Real.exp_pos (-r * T)).le hlt).mul_left (1 - Real.exp (-r * s))
  have e1 : truncCdf r T s = (1 - Real.exp (-r * s)) * (1 - Real.exp (-r * T))⁻¹ := by
    rw [truncCdf, div_eq_mul_inv]
  rw [e1]
  have heq : (fun k : ℕ => hi r T s k - lo r T k)
      = fun k : ℕ => (1 - Real.exp (-r * s)) * Real.exp (-r * T) ^ k := by
    funext k
    unfold hi lo
    rw [← Real.exp_nat_mul, show -r * ((k : ℝ) * T + s) = (k : ℝ) * (-r * T) + -r * s by ring,
      show -r * ((k : ℝ) * T) = (k : ℝ) * (-r * T) by ring, Real.exp_add]
    ring
  rw [heq]
  exact h

/-! ### the inverse-CDF sampler -/

theorem invCdf_arg_pos {r T u : ℝ} (hr : 0 < r) (hT : 0 < T) (h0 : 0 ≤ u) (h1 : u < 1) :
    Real.exp (-r * T) < 1 - u * (1 - Real.exp (-r * T)) ∧ 1 - u * (1 - Real.exp (-r * T)) ≤ 1 := by
  have hlt := exp_neg_lt_one hr hT
  constructor <;> nlinarith

theorem invCdf_range' {r T u : ℝ} (hr : 0 < r) (hT : 0 < T) (h0 : 0 ≤ u) (h1 : u < 1) :
    0 ≤ invCdfTruncExp r T u ∧ invCdfTruncExp r T u < T := by
  obtain ⟨ha, hb⟩ := invCdf_arg_pos hr hT h0 h1
  have hpos : 0 < 1 - u * (1 - Real.exp (-r * T)) := lt_trans (Real.exp_pos _) ha
  unfold invCdfTruncExp
  constructor
  · have : Real.log (1 - u * (1 - Real.exp (-r * T))) ≤ 0 := Real.log_nonpos hpos.le hb
    exact div_nonneg (by linarith) hr.le
  · rw [div_lt_iff₀ hr]
    have : -r * T < Real.log (1 - u * (1 - Real.exp (-r * T))) := (Real.lt_log_iff_exp_lt hpos).mpr ha
    linarith

theorem invCdf_le_iff' {r T u : ℝ} (hr : 0 < r) (hT : 0 < T) (h0 : 0 ≤ u) (h1 : u < 1) (s : ℝ) :
    invCdfTruncExp r T u ≤ s ↔ u ≤ truncCdf r T s := by
  obtain ⟨ha, _⟩ := invCdf_arg_pos hr hT h0 h1
  have hpos : 0 < 1 - u * (1 - Real.exp (-r * T)) := lt_trans (Real.exp_pos _) ha
  have hden : 0 < 1 - Real.exp (-r * T) := by linarith [exp_neg_lt_one hr hT]
  unfold invCdfTruncExp truncCdf
  rw [div_le_iff₀ hr, le_div_iff₀ hden]
  constructor
  · intro h
    have : -r * s ≤ Real.log (1 - u * (1 - Real.exp (-r * T))) := by linarith
    have := (Real.le_log_iff_exp_le hpos).mp this
    linarith
  · intro h
    have : Real.exp (-r * s) ≤ 1 - u * (1 - Real.exp (-r * T)) := by linarith
    have := (Real.le_log_iff_exp_le hpos).mpr this
    linarith

theorem truncCdf_zero (r T : ℝ) : truncCdf r T 0 = 0 := by simp [truncCdf]

theorem truncCdf_self {r T : ℝ} (hr : 0 < r) (hT : 0 < T) : truncCdf r T T = 1 := by
  have hden : 0 < 1 - Real.exp (-r * T) := by linarith [exp_neg_lt_one hr hT]
  exact div_self hden.ne'

theorem truncCdf_mono {r T : ℝ} (hr : 0 < r) (hT : 0 < T) {s t : ℝ} (h : s ≤ t) :
    truncCdf r T s ≤ truncCdf r T t := by
  have hden : 0 < 1 - Real.exp (-r * T) := by linarith [exp_neg_lt_one hr hT]
  unfold truncCdf
  apply div_le_div_of_nonneg_right _ hden.le
  have : Real.exp (-r * t) ≤ Real.exp (-r * s) := Real.exp_le_exp.mpr (by nlinarith)
  linarith

/-! ### the law, as Lebesgue measure of the set of uniform draws -/
open MeasureTheory

theorem truncExp_event_eq {r T : ℝ} (hr : 0 < r) (hT : 0 < T) (s : ℝ) :
    {u : ℝ | u ∈ Set.Ico (0 : ℝ) 1 ∧ truncExp r T u ≤ s} = ⋃ k : ℕ, Set.Icc (lo r T k) (hi r T s k) := by
  ext u
  simp only [Set.mem_ofPred_eq, Set.mem_Ico, Set.mem_iUnion, Set.mem_Icc]
  constructor
  · rintro ⟨⟨h0, h1⟩, h⟩
    exact (truncExp_le_iff' hr hT h0 h1 s).mp h
  · rintro ⟨k, hk1, hk2⟩
    have h0 : 0 ≤ u := le_trans (lo_nonneg hr hT k) hk1
    have h1 : u < 1 := lt_of_le_of_lt hk2 (hi_lt_one r T s k)
    exact ⟨⟨h0, h1⟩, (truncExp_le_iff' hr hT h0 h1 s).mpr ⟨k, hk1, hk2⟩⟩

theorem truncExp_volume' {r T : ℝ} (hr : 0 < r) (hT : 0 < T) {s : ℝ} (hs0 : 0 ≤ s) (hsT : s < T) :
    volume {u : ℝ | u ∈ Set.Ico (0 : ℝ) 1 ∧ truncExp r T u ≤ s} = ENNReal.ofReal (truncCdf r T s) := by
  rw [truncExp_event_eq hr hT s, measure_iUnion]
  · simp only [Real.volume_Icc]
    have hsum := hasSum_lengths hr hT s
    rw [← hsum.tsum_eq, ENNReal.ofReal_tsum_of_nonneg _ hsum.summable]
    intro k
    linarith [lo_le_hi (T := T) hr hs0 k]
  · intro j k hjk
    rw [Function.onFun, Set.disjoint_left]
    intro u hj hk
    exact hjk (interval_unique hr hT hsT (Set.mem_Icc.mp hj) (Set.mem_Icc.mp hk))
  · intro k
    exact measurableSet_Icc

theorem truncCdf_nonneg {r T : ℝ} (hr : 0 < r) (hT : 0 < T) {s : ℝ} (hs : 0 ≤ s) : 0 ≤ truncCdf r T s := by
  rw [← truncCdf_zero r T]; exact truncCdf_mono hr hT hs

theorem truncCdf_le_one {r T : ℝ} (hr : 0 < r) (hT : 0 < T) {s : ℝ} (hs : s ≤ T) : truncCdf r T s ≤ 1 := by
  rw [← truncCdf_self hr hT]; exact truncCdf_mono hr hT hs

theorem invCdf_volume' {r T : ℝ} (hr : 0 < r) (hT : 0 < T) {s : ℝ} (hs0 : 0 ≤ s) (hsT : s ≤ T) :
    volume {u : ℝ | u ∈ Set.Ico (0 : ℝ) 1 ∧ invCdfTruncExp r T u ≤ s} = ENNReal.ofReal (truncCdf r T s) := by
  have hc0 := truncCdf_nonneg hr hT hs0
  have hc1 := truncCdf_le_one hr hT hsT
  rcases lt_or_eq_of_le hc1 with hlt | heq
  · have : {u : ℝ | u ∈ Set.Ico (0 : ℝ) 1 ∧ invCdfTruncExp r T u ≤ s} = Set.Icc 0 (truncCdf r T s) := by
      ext u
      simp only [Set.mem_ofPred_eq, Set.mem_Ico, Set.mem_Icc]
      constructor
      · rintro ⟨⟨h0, h1⟩, h⟩
        exact ⟨h0, (invCdf_le_iff' hr hT h0 h1 s).mp h⟩
      · rintro ⟨h0, h⟩
        have h1 : u < 1 := lt_of_le_of_lt h hlt
        exact ⟨⟨h0, h1⟩, (invCdf_le_iff' hr hT h0 h1 s).mpr h⟩
    rw [this, Real.volume_Icc, sub_zero]
  · have : {u : ℝ | u ∈ Set.Ico (0 : ℝ) 1 ∧ invCdfTruncExp r T u ≤ s} = Set.Ico 0 1 := by
      ext u
      simp only [Set.mem_ofPred_eq, Set.mem_Ico]
      constructor
      · rintro ⟨h, _⟩; exact h
      · rintro ⟨h0, h1⟩
        exact ⟨⟨h0, h1⟩, (invCdf_le_iff' hr hT h0 h1 s).mpr (by rw [heq]; exact h1.le)⟩
    rw [this, Real.volume_Ico, heq, sub_zero]

/-- `random.expovariate(r)` has the Exp(`r`) distribution function -/
theorem expovariate_volume' {r : ℝ} (hr : 0 < r) (s : ℝ) :
    volume {u : ℝ | u ∈ Set.Ico (0 : ℝ) 1 ∧ expovariate r u ≤ s} = ENNReal.ofReal (1 - Real.exp (-r * s)) := by
  have hlt : 1 - Real.exp (-r * s) < 1 := by linarith [Real.exp_pos (-r * s)]
  have : {u : ℝ | u ∈ Set.Ico (0 : ℝ) 1 ∧ expovariate r u ≤ s} = Set.Icc 0 (1 - Real.exp (-r * s)) := by
    ext u
    simp only [Set.mem_ofPred_eq, Set.mem_Ico, Set.mem_Icc]
    constructor
    · rintro ⟨⟨h0, h1⟩, h⟩
      exact ⟨h0, (expovariate_le_iff hr h1 s).mp h⟩
    · rintro ⟨h0, h⟩
      have h1 : u < 1 := lt_of_le_of_lt h hlt
      exact ⟨⟨h0, h1⟩, (expovariate_le_iff hr h1 s).mpr h⟩
  rw [this, Real.volume_Icc, sub_zero]

end FastSIRLaw
