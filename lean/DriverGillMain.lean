import DriverGill
partial def loopGill (h : IO.FS.Stream) (out : IO.FS.Stream) : IO Unit := do
  let line ← h.getLine
  if line.isEmpty then return ()
  out.putStrLn (DrvGenGill.handle line)
  loopGill h out
def main : IO Unit := do loopGill (← IO.getStdin) (← IO.getStdout)
