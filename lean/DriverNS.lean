import Driver
import EoNVerif.Gen.EventSISGen
open Lean Drv

/-! JSON-lines driver for the code GENERATED from `fast_nonMarkov_SIS`, its event handlers and `myQueue`
(Gen/EventSISGen.lean): the same request as op "esis" of Driver.lean (`DrvSS.run`), run on the generated functions with
the harness's per-infection duration / delay tables as the user rule. -/
namespace DrvGenNS
open GenNMSIS

def run (j : Json) : Except String Json := do
  let n ← getNat (← fld j "n")
  let adj ← getList (getList getNat) (← fld j "adj")
  let tmin ← getRat (← fld j "tmin")
  let tmax ← getERat (← fld j "tmax")
  let infs ← getList getNat (← fld j "infs")
  let durl ← getList (getList getRat) (← fld j "dur")
  let dl ← getList (fun e => do
    match ← getArr e with
    | [u, v, per] => pure ((← getNat u), (← getNat v), (← getList (getList getRat) per))
    | _ => .error "bad delay entry") (← fld j "delay")
  let dur : Node → Nat → Rat := fun u k => let l := durl.getD u []; l.getD (k % l.length) 0
  let delays : Node → Node → Nat → List Rat := fun u v k =>
    match dl.find? (fun e => e.1 = u ∧ e.2.1 = v) with
    | some e => e.2.2.getD (k % e.2.2.length) []
    | none => []
  let fuel ← getNat (← fld j "fuel")
  let A : NArgs := { nbrs := listFn adj [], order := n, tmin := tmin, tmax := tmax,
                     transRec := fun k u nbrs => pure (nbrs.map (fun v => (v, (delays u v k).map some)), some (dur u k)) }
  match (GenNMSIS.run A infs fuel) { tape := [] } with
  | .error e => pure (errObj e)
  | .ok (s, _) =>
    pure (Json.mkObj [("ok", Json.bool true),
      ("times", jArr jERat s.times), ("S", jArr jInt s.S), ("I", jArr jInt s.I),
      ("trans", jArr (fun e => Json.arr #[jERat e.1, (match e.2.1 with | some u => jNat u | none => Json.null), jNat e.2.2]) s.transmissions),
      ("infection_times", jArr (fun p => Json.arr #[jNat p.1, jArr jERat p.2]) s.infection_times),
      ("recovery_times", jArr (fun p => Json.arr #[jNat p.1, jArr jERat p.2]) s.recovery_times),
      ("queue_left", jNat s.Q.q.length)])

def handle (line : String) : String :=
  match Json.parse line with
  | .ok j => match run j with
    | .ok r => r.compress
    | .error e => (errObj ("driverns:" ++ e)).compress
  | .error e => (errObj ("parse:" ++ e)).compress
end DrvGenNS
