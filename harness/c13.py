"""C13 — fast_nonMarkov_SIS follows the plain reference semantics.
The real simulator is run with table rules (durations and ascending delay lists per (node, k-th infection)); its
status-change log (from node histories) and transmissions are compared with (a) the Lean *reference* agenda semantics
evaluated on the same tables — the property; cases with simultaneous events are skipped as the property excludes
them — and (b) the Lean model of the lazy chained-attempt queue (correspondence)."""
from fractions import Fraction as F
import json
import common, allsims, gen
from predchecks import strip


def changes_from_history(hist, tmin):
    """[(t, node, becomes_infected)] sorted by time; the initial 'I' entries count as infections at tmin"""
    ch = []
    for v, h in enumerate(hist):
        for i, (t, s) in enumerate(h):
            if i == 0 and s == "S":
                continue
            ch.append([t, v, s == "I"])
    ch.sort(key=lambda e: (F(e[0]),))
    return ch


def canon(log, tmin):
    """time-ordered; simultaneous entries in a canonical order (the histories do not record their relative order)"""
    return sorted(log, key=lambda e: (F(e[0]), json.dumps(e[1:])))


def run(ctx):
    drv = common.LeanDriver()
    reqs, metas = [], []
    for k in range(ctx.scale(1000, 6000)):
        c = allsims.gen_case(ctx.rng, "fast_nonMarkov_SIS", nmax=ctx.scale(7, 8))
        if c["init"]["kind"] not in ("list", "single"):
            c["init"] = dict(kind="list", nodes=[0])
        if k % 5 == 0:
            # contract-violating but allowed by the reference semantics: delays beyond the duration
            c["delay"] = [[u, v, [[str(F(x) * 3) for x in l] for l in per]] for u, v, per in c["delay"]]
        if k % 4 == 1:
            # SELF-LOOPS (what configuration-model networks contain): u is one of its own neighbours, so the rule is asked
            # for delays from u to u; an attempt that arrives while u is infectious does nothing, one that arrives after u
            # has recovered re-infects it (the reference semantics makes every listed attempt)
            for u in ctx.rng.sample(range(c["n"]), ctx.rng.randint(1, min(2, c["n"]))):
                if [u, u] in c["edges"]:
                    continue
                c["edges"].append([u, u])
                per = []
                for occ in range(len(c["dur"][u])):
                    d = F(c["dur"][u][occ])
                    per.append([str(x) for x in sorted({d * F(ctx.rng.choice([16, 24, 40, 48, 72, 100]), 32) for _ in range(ctx.rng.choice([0, 1, 1, 2]))})])
                c["delay"].append([u, u, per])
            ctx.count("self-loops")
        full, G, idx = allsims.run_impl(c, rng=ctx.rng, full=True)
        plain, _, _ = allsims.run_impl(c, rng=ctx.rng, full=False)
        rep = dict(entry="fast_nonMarkov_SIS", case=strip(c))
        if not (full["ok"] and plain["ok"]):
            ctx.case(rep, nontrivial=False)
            ctx.violation("fast_nonMarkov_SIS raised %s" % (full.get("err") or plain.get("err")), dict(rep, tb=full.get("tb") or plain.get("tb")))
            continue
        li = full["lab_index"]
        infs, _ = allsims.requested_init(c, full)
        dur = [None] * c["n"]
        for i, d in enumerate(c["dur"]):
            dur[li[i]] = d
        reqs.append(dict(op="esis", n=c["n"], adj=gen.adj_lists(G, idx), tmin=c["tmin"], tmax=c["tmax"], infs=infs, dur=dur,
                         delay=[[li[u], li[v], per] for u, v, per in c["delay"]], fuel=20000))
        metas.append((rep, full, plain, c))
        ctx.count("joint" if c["joint"] else "separate")
    for (rep, full, plain, c), m in zip(metas, drv.batch(reqs)):
        ctx.traces += 1
        if not m.get("ok"):
            ctx.disagreement("esis-driver", dict(rep, model=m))
            continue
        impl_log = changes_from_history(full["history"], c["tmin"])
        nontriv = len(impl_log) > len(full["transmissions"]) and len(full["transmissions"]) > 1
        ctx.case(rep, nontrivial=nontriv and m["distinct"], sample=dict(rep, log=impl_log[:6]))
        ctx.count("events", len(impl_log))
        ctx.count("reinfections", sum(1 for v, h in enumerate(full["history"]) if sum(1 for t, s in h if s == "I") > 1))
        if m["ref_left"] != 0 or m["queue_left"] != 0:
            ctx.disagreement("esis-fuel", rep)
            continue
        if not m["distinct"]:
            ctx.count("skipped:simultaneous-events")
        else:
            if canon(impl_log, c["tmin"]) != canon(m["ref_log"], c["tmin"]) or \
               canon(full["transmissions"], c["tmin"]) != canon(m["ref_trans"], c["tmin"]):
                ctx.violation("fast_nonMarkov_SIS history differs from the reference semantics (every listed attempt is made; it infects iff the target is susceptible)",
                              dict(rep, impl_log=impl_log, ref_log=m["ref_log"], impl_trans=full["transmissions"], ref_trans=m["ref_trans"]))
                continue
            # arrays: one row per change after the initial row
            S0 = c["n"] - len([e for e in impl_log if F(e[0]) == F(c["tmin"])])
        if canon(impl_log, c["tmin"]) != canon(m["log"], c["tmin"]) or canon(full["transmissions"], c["tmin"]) != canon(m["trans"], c["tmin"]):
            ctx.disagreement("esis-lazy-queue-model", dict(rep, impl_log=impl_log[:30], model_log=m["log"][:30]))
        # arrays vs log (C10-style, cheap here): I column follows the log
        I = [col for col in plain["cols"]][1]
        if len(plain["times"]) != len(I):
            ctx.violation("fast_nonMarkov_SIS arrays of different lengths", dict(rep, arrays=plain))
    generated_model(ctx, reqs, metas)


def generated_model(ctx, reqs, metas):
    """the Lean code GENERATED from fast_nonMarkov_SIS, _process_trans_SIS_nonMarkov_, _process_rec_SIS_ and myQueue
    (harness/pyevent2lean.py -> Gen/EventSISGen.lean), run by its own driver with the same per-infection duration / delay
    tables as the implementation.  Compared: times / S / I (array mode), the transmission list and every node's
    infection and recovery times (full-data mode) — in the order the code produced them, simultaneous events included."""
    import fcntl, subprocess, os, pyevent2lean
    lean = common.LEAN
    os.makedirs(os.path.join(lean, ".audit"), exist_ok=True)
    with open(os.path.join(lean, ".audit", "genes.lock"), "w") as lock:
        fcntl.flock(lock, fcntl.LOCK_EX)
        try:
            _, errors = pyevent2lean.regenerate(which=("nmsis",))
        except Exception as e:
            errors = {"translator": "crashed: %r" % e}
        if errors:
            ctx.disagreement("generated-nmsis:translation", dict(entry="fast_nonMarkov_SIS", errors=errors))
            return
        p = common.lake(["build", "driverns"])
    if p.returncode != 0:
        ctx.disagreement("generated-nmsis:build", dict(entry="fast_nonMarkov_SIS", log="\n".join(
            l for l in (p.stdout + p.stderr).splitlines() if "error" in l)[:1500]))
        return
    exe = os.path.join(lean, ".lake", "build", "bin", "driverns")
    data = "\n".join(json.dumps(r, separators=(",", ":")) for r in reqs) + "\n"
    q = subprocess.run([exe], input=data, capture_output=True, text=True)
    lines = q.stdout.splitlines()
    if q.returncode != 0 or len(lines) != len(reqs):
        raise RuntimeError("driverns crashed: " + q.stderr[-1000:])
    for (rep, full, plain, c), line in zip(metas, lines):
        g = json.loads(line)
        ctx.count("generated-model-runs")
        if not g.get("ok"):
            ctx.disagreement("generated-nmsis-error", dict(rep, generated=g))
            continue
        d = []
        if plain["times"] != g["times"] or plain["cols"] != [g["S"], g["I"]]:
            d.append("arrays")
        if full["transmissions"] != g["trans"]:
            d.append("transmissions")
        inf = {u: ts for u, ts in g["infection_times"]}
        rec = {u: ts for u, ts in g["recovery_times"]}
        for u, h in enumerate(full["history"]):
            ti = [t for t, s_ in h if s_ == "I"]
            tr_ = [t for t, s_ in h[1:] if s_ == "S"]
            if ti != inf.get(u, []) or tr_ != rec.get(u, []):
                d.append("node %d infection/recovery times" % u)
                break
        if d:
            ctx.disagreement("generated-nmsis:" + ";".join(d), dict(rep, diffs=d, impl=dict(times=plain["times"][:20]), generated=dict(times=g["times"][:20])))
