import EoNVerif.Model.Gillespie
import EoNVerif.Model.GillespieLaw
import EoNVerif.Spec.Chain
import EoNVerif.Proofs.ListDict
import Mathlib.Tactic.Ring
import Mathlib.Tactic.FieldSimp
import Mathlib.Tactic.Linarith
import Mathlib.Algebra.Order.Field.Rat
/-!
Helper lemmas for C01 / C02 (`Gillespie_SIR` / `Gillespie_SIS`): the definitions of `Gillespie.WF` and
`Gillespie.Inv`, a generic specification of a batch of `_ListDict_` operations with pairwise distinct keys,
the five neighbour loops written as such batches, invariant preservation of the event applications, inversion
lemmas for the tape monad, and the algebra of the one-step law.
-/

/-! ### a batch of `update`/`remove` operations with distinct keys -/
namespace LD
variable {α : Type} [DecidableEq α]

def Op.key : Op α → α
  | .ins x _ => x
  | .upd x _ => x
  | .rem x => x

/-- admissible operation in state `s`: an `update` of an absent candidate with a weight argument matching the
weighted flag and a non-negative increment, or a `remove` of a present candidate -/
def Op.ok (s : LD α) : Op α → Prop
  | .ins _ _ => False
  | .upd x w => x ∉ s.items ∧ w.isSome = s.weighted ∧ ∀ v, w = some v → 0 ≤ v
  | .rem x => x ∈ s.items

theorem update_some_exists (s : LD α) (x : α) (w : Rat) (hwt : s.weighted = true) :
    ∃ s', s.update x (some w) = some s' := by
  unfold update
  simp only [hwt, Bool.not_true, Bool.false_eq_true, if_false]
  split <;> exact ⟨_, rfl⟩

theorem update_none_shape (s : LD α) (x : α) (hwt : s.weighted = false) :
    ∃ s', s.update x none = some s' ∧ s'.weighted = false ∧ s'.weight = s.weight ∧
      s'.items = (if x ∈ s.items then s.items else s.items ++ [x]) := by
  unfold update
  simp only [hwt, Bool.false_eq_true, if_false]
  by_cases hx : x ∈ s.items
  · simp only [hx, if_true]; exact ⟨_, rfl, hwt, rfl, rfl⟩
  · simp only [hx, if_false]; exact ⟨_, rfl, hwt, rfl, rfl⟩

/-- shape of a successful `update` with any argument -/
theorem update_any (s s' : LD α) (x : α) (w : Option Rat) (hs : s.update x w = some s') :
    s'.weighted = s.weighted ∧ (∀ y, y ∈ s'.items ↔ (y ∈ s.items ∨ y = x)) ∧
      (∀ y, y ≠ x → s'.getW y = s.getW y) := by
  cases w with
  | some v =>
    obtain ⟨h1, h2, -⟩ := update_shape s s' x v hs
    exact ⟨h2.trans h1.symm, update_mem s s' x v hs, fun y hy => update_getW_ne s s' x y v hs hy⟩
  | none =>
    have hwt : s.weighted = false := by
      cases hw : s.weighted with
      | false => rfl
      | true => simp [update, hw] at hs
    obtain ⟨s'', hs'', h1, h2, h3⟩ := update_none_shape s x hwt
    rw [hs] at hs''
    obtain rfl := Option.some.inj hs''
    refine ⟨h1.trans hwt.symm, ?_, ?_⟩
    · intro y; rw [h3]; split <;> simp_all
    · intro y _; unfold getW; rw [h2]

theorem update_exists (s : LD α) (x : α) (w : Option Rat) (hw : w.isSome = s.weighted) :
    ∃ s', s.update x w = some s' := by
  cases w with
  | some v => exact update_some_exists s x v (by simpa using hw.symm)
  | none =>
    obtain ⟨s', h, -⟩ := update_none_shape s x (by simpa using hw.symm)
    exact ⟨s', h⟩

theorem remove_getW_ne (s s' : LD α) (x y : α) (hs : s.remove x = some s') (hy : y ≠ x) :
    s'.getW y = s.getW y := by
  have hx : x ∈ s.items := by
    by_contra hx
    unfold remove at hs
    rw [if_neg hx] at hs; simp at hs
  cases hwt : s.weighted with
  | true =>
    obtain ⟨s'', hs'', -, -, hrest⟩ := remove_shape s x hx
    rw [hs] at hs''
    obtain rfl := Option.some.inj hs''
    unfold getW
    rw [(hrest hwt).1]
    exact alGet_alDel_ne _ _ _ _ hy
  | false =>
    unfold remove at hs
    simp only [hx, hwt, if_true, Bool.false_eq_true, if_false] at hs
    obtain rfl := Option.some.inj hs
    rfl

theorem remove_any (s : LD α) (x : α) (h : Inv s) (hx : x ∈ s.items) :
    ∃ s', s.remove x = some s' ∧ Inv s' ∧ s'.weighted = s.weighted ∧
      (∀ y, y ∈ s'.items ↔ (y ∈ s.items ∧ y ≠ x)) ∧ (∀ y, y ≠ x → s'.getW y = s.getW y) := by
  obtain ⟨s', hs', hit, hwd, -⟩ := remove_shape s x hx
  refine ⟨s', hs', inv_remove s s' x h hx hs', hwd, ?_, fun y hy => remove_getW_ne s s' x y hs' hy⟩
  intro y; rw [hit]; exact mem_swapRemove _ _ _ h.nodup hx

/-- **batch specification**: a list of admissible operations with pairwise distinct keys never fails
(no KeyError), preserves the invariant, and changes membership and weights exactly as listed. -/
theorem applyOps_spec (ops : List (Op α)) (s : LD α) (h : Inv s)
    (hk : ops.Pairwise fun a b => a.key ≠ b.key) (hop : ∀ o ∈ ops, o.ok s) :
    ∃ s', s.applyOps ops = some s' ∧ Inv s' ∧ s'.weighted = s.weighted ∧
      (∀ y, y ∈ s'.items ↔ ((y ∈ s.items ∧ Op.rem y ∉ ops) ∨ ∃ w, Op.upd y w ∈ ops)) ∧
      (∀ y w, Op.upd y (some w) ∈ ops → s'.getW y = w) ∧
      (∀ y, (∀ o ∈ ops, o.key ≠ y) → s'.getW y = s.getW y) := by
  induction ops generalizing s with
  | nil => exact ⟨s, rfl, h, rfl, by simp, by simp, fun _ _ => rfl⟩
  | cons o os ih =>
    rw [List.pairwise_cons] at hk
    obtain ⟨hk1, hk2⟩ := hk
    have ho := hop o (by simp)
    cases o with
    | ins x w => exact absurd ho (by simp [Op.ok])
    | upd x w =>
      obtain ⟨hx, hw, hnn⟩ := ho
      obtain ⟨s1, hs1⟩ := update_exists s x w hw
      obtain ⟨hwd1, hmem1, hget1⟩ := update_any s s1 x w hs1
      have hinv1 : Inv s1 := inv_update s s1 x w h hnn hs1
      have hop1 : ∀ o ∈ os, o.ok s1 := by
        intro o' ho'
        have hne : x ≠ o'.key := hk1 o' ho'
        have := hop o' (by simp [ho'])
        cases o' with
        | ins _ _ => exact this
        | upd x' w' =>
          refine ⟨?_, by rw [hwd1]; exact this.2.1, this.2.2⟩
          rw [hmem1]; rintro (h1 | h1)
          · exact this.1 h1
          · exact hne h1.symm
        | rem x' => exact (hmem1 x').2 (Or.inl this)
      obtain ⟨s', hs', hinv', hwd', hmem', hgw', hgo'⟩ := ih s1 hinv1 hk2 hop1
      refine ⟨s', ?_, hinv', hwd'.trans hwd1, ?_, ?_, ?_⟩
      · simp only [applyOps, applyOp, hs1]; exact hs'
      · intro y
        rw [hmem', hmem1]
        constructor
        · rintro (⟨h1 | h1, h2⟩ | ⟨w', h1⟩)
          · exact Or.inl ⟨h1, by simp [h2]⟩
          · exact Or.inr ⟨w, by simp [h1]⟩
          · exact Or.inr ⟨w', by simp [h1]⟩
        · rintro (⟨h1, h2⟩ | ⟨w', h1⟩)
          · exact Or.inl ⟨Or.inl h1, fun hc => h2 (by simp [hc])⟩
          · rcases List.mem_cons.1 h1 with h1 | h1
            · injection h1 with h1 h1'
              by_cases hr : Op.rem y ∈ os
              · exact absurd h1.symm (hk1 _ hr)
              · exact Or.inl ⟨Or.inr h1, hr⟩
            · exact Or.inr ⟨w', h1⟩
      · intro y v hy
        rcases List.mem_cons.1 hy with hy | hy
        · injection hy with hy1 hy2
          subst hy1; subst hy2
          rw [hgo' y (fun o' ho' => (hk1 o' ho').symm)]
          have hwt : s.weighted = true := by simpa using hw.symm
          rw [update_getW_self s s1 y v hs1, getW_of_not_mem s h hwt y hx]; ring
        · exact hgw' y v hy
      · intro y hy
        rw [hgo' y (fun o' ho' => hy o' (by simp [ho'])), hget1 y]
        exact fun hc => hy _ (by simp) hc.symm
    | rem x =>
      have hx : x ∈ s.items := ho
      obtain ⟨s1, hs1, hinv1, hwd1, hmem1, hget1⟩ := remove_any s x h hx
      have hop1 : ∀ o ∈ os, o.ok s1 := by
        intro o' ho'
        have hne : x ≠ o'.key := hk1 o' ho'
        have := hop o' (by simp [ho'])
        cases o' with
        | ins _ _ => exact this
        | upd x' w' =>
          refine ⟨?_, by rw [hwd1]; exact this.2.1, this.2.2⟩
          rw [hmem1]; exact fun h1 => this.1 h1.1
        | rem x' => exact (hmem1 x').2 ⟨this, fun hc => hne hc.symm⟩
      obtain ⟨s', hs', hinv', hwd', hmem', hgw', hgo'⟩ := ih s1 hinv1 hk2 hop1
      refine ⟨s', ?_, hinv', hwd'.trans hwd1, ?_, ?_, ?_⟩
      · simp only [applyOps, applyOp, hs1]; exact hs'
      · intro y
        rw [hmem', hmem1]
        constructor
        · rintro (⟨⟨h1, h2⟩, h3⟩ | ⟨w', h1⟩)
          · refine Or.inl ⟨h1, ?_⟩
            intro hc
            rcases List.mem_cons.1 hc with hc | hc
            · injection hc with hc; exact h2 hc
            · exact h3 hc
          · exact Or.inr ⟨w', by simp [h1]⟩
        · rintro (⟨h1, h2⟩ | ⟨w', h1⟩)
          · exact Or.inl ⟨⟨h1, fun hc => h2 (by simp [hc])⟩, fun hc => h2 (by simp [hc])⟩
          · rcases List.mem_cons.1 h1 with h1 | h1
            · cases h1
            · exact Or.inr ⟨w', h1⟩
      · intro y v hy
        rcases List.mem_cons.1 hy with hy | hy
        · cases hy
        · exact hgw' y v hy
      · intro y hy
        rw [hgo' y (fun o' ho' => hy o' (by simp [ho'])), hget1 y]
        exact fun hc => hy _ (by simp) hc.symm

end LD
