import EoNVerif.Rand.Dist
import EoNVerif.Model.DiscreteLaw
/-!
Law side of `_trans_and_rec_time_Markovian_const_trans_` (`/repo/EoN/simulation.py` l.1927-1943), the sampler
used by `fast_SIR` when the transmission rate is a constant `tau` (unweighted path):

```
duration   = random.expovariate(rec_rate_fxn(node))
trans_prob = 1-np.exp(-tau*duration)
number_to_infect = np.random.binomial(len(sus_neighbors),trans_prob)
transmission_recipients = random.sample(sus_neighbors,number_to_infect)
for v in transmission_recipients: trans_delay[v] = _truncated_exponential_(tau, duration)
```

Finite / rational part: given the value `q` of `trans_prob`, the *set* of recipients.

* `binomialDist n q`      — law of `np.random.binomial(n, q)` : mass `C(n,k) q^k (1-q)^(n-k)` on `k`.
* `sampleDist l k`        — law of `random.sample(l, k)` *viewed as a set*.  `random.sample` returns an ordered
  sample (a uniformly random `k`-permutation of `l`); the caller only iterates over it to fill the dictionary
  `trans_delay`, whose keys are the recipients and whose values are i.i.d. draws, so only the set of recipients
  matters.  A set of elements of the duplicate-free list `l` is represented canonically by the sublist of `l`
  it selects, and `sampleDist l k` is the uniform distribution on the `C(|l|,k)` sublists of length `k`.
  (`orderedSampleDist` below is the ordered law; `Proofs/FastSIRLaw.lean` proves that its image under
  "forget the order" is `sampleDist`, pointwise.)
* `recipientsDist l q`    — binomial, then sample: what the code does.
* `indepDist l q`         — each neighbour kept independently with probability `q`: what the code claims to
  be equal to (this is `Discrete.percolateDist`).

Everything here is core Lean (no Mathlib) and executable.
-/
namespace FastSIRLaw

/-- binomial coefficient by Pascal's rule -/
def choose : Nat → Nat → Nat
  | _, 0 => 1
  | 0, _ + 1 => 0
  | n + 1, k + 1 => choose n k + choose n (k + 1)

/-- `x ^ n` on core rationals (kept explicit so that the model does not depend on an instance) -/
def rpow (x : Rat) : Nat → Rat
  | 0 => 1
  | n + 1 => rpow x n * x

/-- binomial point mass `C(n,k) q^k (1-q)^(n-k)` -/
def binomialPmf (n : Nat) (q : Rat) (k : Nat) : Rat :=
  (choose n k : Rat) * rpow q k * rpow (1 - q) (n - k)

/-- law of `np.random.binomial(n, q)` -/
def binomialDist (n : Nat) (q : Rat) : Dist Nat :=
  (List.range (n + 1)).map fun k => (k, binomialPmf n q k)

/-- all sublists of `l` of length `k` (each `k`-subset of a duplicate-free `l` exactly once) -/
def sublistsLen {α : Type} : List α → Nat → List (List α)
  | _, 0 => [[]]
  | [], _ + 1 => []
  | a :: l, k + 1 => (sublistsLen l k).map (a :: ·) ++ sublistsLen l (k + 1)

/-- law of the *set* `random.sample(l, k)`: uniform on the `k`-element sublists of `l` -/
def sampleDist {α : Type} (l : List α) (k : Nat) : Dist (List α) :=
  (sublistsLen l k).map fun s => (s, 1 / (choose l.length k : Rat))

/-- what the code does: draw the number of recipients, then sample that many neighbours -/
def recipientsDist {α : Type} (l : List α) (q : Rat) : Dist (List α) :=
  Dist.bind (binomialDist l.length q) fun k => sampleDist l k

/-- the reference law: each neighbour independently with probability `q` -/
def indepDist {α : Type} (l : List α) (q : Rat) : Dist (List α) :=
  Discrete.percolateDist q l

/-- number of successes among `n` independent `random.random() < q` draws (reference for `binomialDist`) -/
def successCount (q : Rat) : Nat → Dist Nat
  | 0 => Dist.pure 0
  | n + 1 => Dist.bind (Dist.bern q) fun b =>
      Dist.push (fun c => if b then c + 1 else c) (successCount q n)

/-- the *ordered* law of `random.sample(l, k)` (CPython `random.sample`, pool branch: `k` times pick a uniform
index `j` of the remaining pool, output `pool[j]`, remove it — the order in which the remaining pool is kept
does not influence the law of the output; here the pool is kept in its original order).
For `k > |l|` Python raises `ValueError`; the model then has no outcome (empty support). -/
def orderedSampleDist {α : Type} : List α → Nat → Dist (List α)
  | _, 0 => Dist.pure []
  | l, k + 1 => Dist.bind (Dist.uniformIdx l.length) fun j =>
      match l[j]? with
      | none => []
      | some x => Dist.push (x :: ·) (orderedSampleDist (l.eraseIdx j) k)

/-- "forget the order": the sublist of `l` selected by the sample `s` -/
def asSublist {α : Type} [DecidableEq α] (l s : List α) : List α := l.filter fun x => s.contains x

/-- what the code does, with the ordered `random.sample` and the order forgotten afterwards -/
def recipientsOrdDist {α : Type} [DecidableEq α] (l : List α) (q : Rat) : Dist (List α) :=
  Dist.bind (binomialDist l.length q) fun k => Dist.push (asSublist l) (orderedSampleDist l k)

end FastSIRLaw
