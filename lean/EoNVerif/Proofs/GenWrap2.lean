import EoNVerif.Proofs.GenWrap
/-!
Lemmas for C06g (`Props/C06g.lean`): the `*_from_graph` wrappers of `Gen/WrapGen.lean` not covered by C06e — the
`rho` / default branches of the compact pairwise wrappers (`Σ_k k·N_k = Σ_u deg u` through the `vecGet` / `np.dot`
folds), the node loops of `EBCM_from_graph`, `EBCM_discrete_from_graph`, `Attack_rate_*_from_graph`,
`SIR_compact_effective_degree_from_graph`.
-/
namespace GenWrapProofs2
open GenInit InitCond GenInitProofs GenWrap GenWrapProofs
open GenHelpProofs (ok_bind err_bind pure_eq_ok throw_eq_err PkAL kAveAL fold_keys_ok)

/-! ## runtime: indices, ranges, `max` -/

theorem idx_nat (len k : Nat) (h : k < len) : PyWrap.idx len ((k : Nat) : Int) = .ok k := by
  unfold PyWrap.idx
  have h1 : ¬ ((k : Int) < 0) := by omega
  have h2 : ¬ ((k : Int) ≥ (len : Int)) := by omega
  simp only [h1, if_false, h2, false_or, Int.toNat_natCast]
  rfl

theorem idx_nat_ge (len k : Nat) (h : len ≤ k) : PyWrap.idx len ((k : Nat) : Int) = .error "IndexError" := by
  unfold PyWrap.idx
  have h1 : ¬ ((k : Int) < 0) := by omega
  have h2 : ((k : Int) ≥ (len : Int)) := by omega
  simp only [h1, if_false, h2, or_true, if_true]
  rfl

theorem vecGet_nat (v : List Rat) (k : Nat) (h : k < v.length) :
    PyWrap.vecGet v ((k : Nat) : Int) = .ok (v.getD k 0) := by
  unfold PyWrap.vecGet
  rw [idx_nat _ _ h]; rfl

theorem vecAdd_nat (v : List Rat) (k : Nat) (c : Rat) (h : k < v.length) :
    PyWrap.vecAdd v ((k : Nat) : Int) c = .ok (v.set k (v.getD k 0 + c)) := by
  unfold PyWrap.vecAdd
  rw [idx_nat _ _ h]; rfl

theorem range_succ_nat (m : Nat) :
    PyWrap.range (((m : Nat) : Int) + 1) = (List.range (m + 1)).map (fun (i : Nat) => (i : Int)) := by
  unfold PyWrap.range
  have : (((m : Nat) : Int) + 1).toNat = m + 1 := by omega
  rw [this]

theorem range_nat (m : Nat) : PyWrap.range ((m : Nat) : Int) = (List.range m).map (fun (i : Nat) => (i : Int)) := by
  unfold PyWrap.range
  rw [Int.toNat_natCast]

/-- `max(degrees)` as the wrappers compute it -/
abbrev maxk (A : IArgs) : Nat := (A.nodes.map A.degree).foldl max 0

theorem maxNat_eq (l : List Nat) :
    PyWrap.maxNat l = if l = [] then .error "ValueError" else .ok ((l.foldl max 0 : Nat) : Int) := by
  cases l with
  | nil => rfl
  | cons x xs => simp [PyWrap.maxNat]

theorem degree_hist_length (A : IArgs) : (degree_hist A).length = maxk A + 1 := by
  simp [degree_hist, maxk]

theorem degree_hist_getD (A : IArgs) (k : Nat) (h : k ≤ maxk A) :
    (degree_hist A).getD k 0 = (((A.nodes.filter (fun u => A.degree u = k)).length : Nat) : Rat) := by
  have hk : k < maxk A + 1 := by omega
  simp [degree_hist, List.getD_eq_getElem?_getD, maxk] at hk ⊢
  simp [hk]

/-! ## `Σ_k k·N_k = Σ_u deg u` -/

theorem sum_ite_eq_self (N d : Nat) :
    ((List.range N).map (fun k => if d = k then k else 0)).sum = if d < N then d else 0 := by
  induction N with
  | zero => simp
  | succ N ih =>
    rw [List.range_succ, List.map_append, List.sum_append, ih]
    by_cases h1 : d < N
    · have : d ≠ N := by omega
      have h2 : d < N + 1 := by omega
      simp [h1, h2, this]
    · by_cases h3 : d = N
      · subst h3; simp
      · have h2 : ¬ d < N + 1 := by omega
        simp [h1, h2, h3]

theorem sum_classes_weighted (d : Node → Nat) (M : Nat) (l : List Node) (hl : ∀ u ∈ l, d u ≤ M) :
    ((List.range (M + 1)).map (fun k => (l.filter (fun u => d u = k)).length * k)).sum = (l.map d).sum := by
  induction l with
  | nil => simp
  | cons a t ih =>
    have h1 : ∀ k, ((a :: t).filter (fun u => d u = k)).length * k =
        (if d a = k then k else 0) + (t.filter (fun u => d u = k)).length * k := by
      intro k
      rw [List.filter_cons]
      by_cases h : d a = k
      · simp only [h, decide_true, if_true, List.length_cons]; ring
      · simp [h]
    simp only [h1]
    rw [List.sum_map_add, ih (fun u hu => hl u (by simp [hu])), sum_ite_eq_self]
    have := hl a (by simp)
    have h2 : d a < M + 1 := by omega
    simp [h2]

/-- the sum of the degrees as the wrappers see it -/
def degSum (A : IArgs) : Nat := (A.nodes.map A.degree).sum

theorem le_maxk (A : IArgs) (u : Node) (hu : u ∈ A.nodes) : A.degree u ≤ maxk A :=
  (le_foldl_max _ 0).2 _ (List.mem_map.mpr ⟨u, hu, rfl⟩)

theorem hist_weighted (A : IArgs) :
    sumRat ((List.range (maxk A + 1)).map fun k => (degree_hist A).getD k 0 * ((k : Nat) : Rat))
      = ((degSum A : Nat) : Rat) := by
  have h1 : ((List.range (maxk A + 1)).map fun k => (degree_hist A).getD k 0 * ((k : Nat) : Rat))
      = (List.range (maxk A + 1)).map fun k =>
          (((A.nodes.filter (fun u => A.degree u = k)).length * k : Nat) : Rat) := by
    apply List.map_congr_left
    intro k hk
    rw [degree_hist_getD A k (by have := List.mem_range.mp hk; omega)]
    push_cast; rfl
  rw [h1]
  have h2 := sum_classes_weighted A.degree (maxk A) A.nodes (fun u hu => le_maxk A u hu)
  rw [show (List.range (maxk A + 1)).map (fun k =>
      (((A.nodes.filter (fun u => A.degree u = k)).length * k : Nat) : Rat))
      = ((List.range (maxk A + 1)).map (fun k => (A.nodes.filter (fun u => A.degree u = k)).length * k)).map
          (fun (n : Nat) => (n : Rat)) by simp [Function.comp_def]]
  rw [sumRat_cast_nat, h2]; rfl

theorem degSum_graph (A : IArgs) (adj : List (List Nat)) (hG : GraphOK A adj) : degSum A = twoM adj := by
  unfold degSum twoM
  rw [degs_eq A adj hG]

theorem sumRat_mul_left (c : Rat) (l : List Nat) (g : Nat → Rat) :
    sumRat (l.map fun k => c * g k) = c * sumRat (l.map g) := by
  induction l with
  | nil => simp
  | cons a t ih => simp [ih]; ring

/-- a summation loop over `range(maxk+1)` whose body adds `c · N_k · k` -/
theorem fold_hist_weighted (A : IArgs) (c : Rat) (step : Rat → Int → Except String Rat)
    (h : ∀ (k : Nat), k ≤ maxk A → ∀ acc,
      step acc ((k : Nat) : Int) = .ok (acc + c * ((degree_hist A).getD k 0 * ((k : Nat) : Rat)))) :
    (PyWrap.range (((maxk A : Nat) : Int) + 1)).foldlM step 0 = .ok (c * ((degSum A : Nat) : Rat)) := by
  rw [range_succ_nat, List.foldlM_map,
    fold_keys_ok _ (fun k => c * ((degree_hist A).getD k 0 * ((k : Nat) : Rat)))]
  · rw [sumRat_mul_left, hist_weighted]; simp
  · intro k hk acc
    exact h k (by have := List.mem_range.mp hk; omega) acc

/-! ## compact pairwise wrappers without `initial_infecteds` -/

theorem map_degree_eq_nil (A : WArgs) : (A.nodes.map A.degree = []) ↔ A.nodes = [] := List.map_eq_nil_iff

theorem SIS_cp_none (A : WArgs) (tau gamma : Rat) (tmin tmax : Rat) (tcount : Int) (full : Bool) :
    SIS_compact_pairwise_from_graph_args A tau gamma none none tmin tmax tcount full =
      if A.nodes.length = 0 then .error "ZeroDivisionError" else
      SIS_compact_pairwise_from_graph_args A tau gamma none (some (1 / (A.nodes.length : Rat))) tmin tmax tcount full := by
  unfold SIS_compact_pairwise_from_graph_args
  by_cases hN : A.nodes.length = 0
  · simp [hN]
  · simp only [Option.isSome_none, Bool.false_and, Bool.false_eq_true, if_false, Option.isNone_none, Bool.and_self,
      if_true, Int.cast_natCast, fdiv_N, hN, ok_bind, pure_eq_ok, Option.isSome_some, Bool.and_false,
      Option.isNone_some, Bool.false_and]

theorem SIS_cp_some (A : WArgs) (tau gamma : Rat) (r : Rat) (tmin tmax : Rat) (tcount : Int) (full : Bool) :
    SIS_compact_pairwise_from_graph_args A tau gamma none (some r) tmin tmax tcount full =
        if A.nodes = [] then .error "ValueError" else
        .ok { Sk0 := (get_Nk_and_IC_rho A.toIArgs r).2.1, Ik0 := (get_Nk_and_IC_rho A.toIArgs r).2.2.1,
              SI0 := (1 - r) * r * ((degSum A.toIArgs : Nat) : Rat),
              SS0 := (1 - r) * (1 - r) * ((degSum A.toIArgs : Nat) : Rat),
              II0 := r * r * ((degSum A.toIArgs : Nat) : Rat),
              tau := tau, gamma := gamma, tmin := tmin, tmax := tmax, tcount := tcount,
              return_full_data := full } := by
  unfold SIS_compact_pairwise_from_graph_args
  by_cases hne : A.nodes = []
  · simp [hne, arrays_closed]
  · simp only [Option.isSome_none, Bool.false_and, Bool.false_eq_true, if_false, Option.isNone_none, Bool.and_self,
        Bool.and_false, Option.isNone_some, ok_bind, pure_eq_ok, arrays_closed, Option.isSome_some, and_false, and_self,
        hne, Option.getD_some, maxNat_eq, map_degree_eq_nil, PyWrap.num]
    have hv : ∀ (k : Nat), k ≤ maxk A.toIArgs →
        PyWrap.vecGet (get_Nk_and_IC_rho A.toIArgs r).1 ((k : Nat) : Int)
          = .ok ((degree_hist A.toIArgs).getD k 0) := fun k hk =>
      vecGet_nat (degree_hist A.toIArgs) k (by rw [degree_hist_length]; omega)
    rw [fold_hist_weighted A.toIArgs ((1 - r) * (1 - r)), fold_hist_weighted A.toIArgs ((1 - r) * r),
      fold_hist_weighted A.toIArgs (r * r)]
    · simp only [ok_bind]
    all_goals
      intro k hk acc
      rw [hv k hk]
      simp only [ok_bind, Int.cast_one, Int.cast_natCast]
      congr 1; ring

theorem dot_range (n : Nat) (F : Nat → Rat) :
    PyWrap.dot ((List.range n).map F) ((PyWrap.range ((n : Nat) : Int)).map (fun (i : Int) => ((i : Int) : Rat)))
      = .ok (sumRat ((List.range n).map fun k => F k * ((k : Nat) : Rat))) := by
  unfold PyWrap.dot
  rw [range_nat]
  simp [List.zipWith_map, List.zipWith_self]

theorem degree_hist_as_map (A : IArgs) :
    degree_hist A = (List.range (maxk A + 1)).map (fun k => (degree_hist A).getD k 0) := by
  rw [← degree_hist_length A]; exact (GenHelpProofs.map_getD_range _ _).symm

theorem rho_Sk0_as_map (A : IArgs) (r : Rat) :
    (get_Nk_and_IC_rho A r).2.1 = (List.range (maxk A + 1)).map (fun k => (1 - r) * (degree_hist A).getD k 0) := by
  show (degree_hist A).map (fun x => (1 - r) * x) = _
  conv_lhs => rw [degree_hist_as_map A]
  simp [Function.comp_def]

/-- `np.dot(Sk0, arange(len(Nk)))` in the `rho` branch: `(1-rho)·Σ_u deg u` -/
theorem dot_rho_Sk0 (A : IArgs) (r : Rat) :
    PyWrap.dot (get_Nk_and_IC_rho A r).2.1
        ((PyWrap.range (((get_Nk_and_IC_rho A r).1.length : Nat) : Int)).map (fun (i : Int) => ((i : Int) : Rat)))
      = .ok ((1 - r) * ((degSum A : Nat) : Rat)) := by
  have hL : (get_Nk_and_IC_rho A r).1.length = maxk A + 1 := degree_hist_length A
  rw [hL, rho_Sk0_as_map, dot_range]
  have : (List.range (maxk A + 1)).map (fun k => (1 - r) * (degree_hist A).getD k 0 * ((k : Nat) : Rat))
      = (List.range (maxk A + 1)).map (fun k => (1 - r) * ((degree_hist A).getD k 0 * ((k : Nat) : Rat))) := by
    apply List.map_congr_left; intro k _; ring
  rw [this, sumRat_mul_left, hist_weighted]

theorem SIR_cp_none (A : WArgs) (tau gamma : Rat) (recs : Option (List Node)) (tmin tmax : Rat) (tcount : Int)
    (full : Bool) :
    SIR_compact_pairwise_from_graph_args A tau gamma none recs none tmin tmax tcount full =
      if A.nodes.length = 0 then .error "ZeroDivisionError" else
      SIR_compact_pairwise_from_graph_args A tau gamma none recs (some (1 / (A.nodes.length : Rat))) tmin tmax tcount
        full := by
  unfold SIR_compact_pairwise_from_graph_args
  by_cases hN : A.nodes.length = 0
  · simp [hN]
  · simp only [Option.isSome_none, Bool.false_and, Bool.false_eq_true, if_false, Option.isNone_none, Bool.and_self,
      if_true, Int.cast_natCast, fdiv_N, hN, ok_bind, pure_eq_ok, Option.isSome_some, Bool.and_false,
      Option.isNone_some, Bool.false_and]

/-- `SIR_compact_pairwise_from_graph` with `rho`, without `initial_infecteds`: an `initial_recovereds` is an `EoNError`
(raised by `_get_Nk_and_IC_as_arrays_`) -/
theorem SIR_cp_some (A : WArgs) (tau gamma : Rat) (recs : Option (List Node)) (r : Rat) (tmin tmax : Rat)
    (tcount : Int) (full : Bool) :
    SIR_compact_pairwise_from_graph_args A tau gamma none recs (some r) tmin tmax tcount full =
        if recs.isSome then .error "EoNError" else
        if A.nodes = [] then .error "ValueError" else
        .ok { Sk0 := (get_Nk_and_IC_rho A.toIArgs r).2.1, I0 := sumRat (get_Nk_and_IC_rho A.toIArgs r).2.2.1,
              R0 := sumRat (get_Nk_and_IC_rho A.toIArgs r).2.2.2,
              SS0 := (1 - r) * ((1 - r) * ((degSum A.toIArgs : Nat) : Rat)),
              SI0 := r * ((1 - r) * ((degSum A.toIArgs : Nat) : Rat)),
              tau := tau, gamma := gamma, tmin := tmin, tmax := tmax, tcount := tcount,
              return_full_data := full } := by
  unfold SIR_compact_pairwise_from_graph_args
  cases recs with
  | some l => simp [arrays_closed]
  | none =>
    by_cases hne : A.nodes = []
    · simp [hne, arrays_closed]
    · simp only [Option.isSome_none, Bool.false_and, Bool.false_eq_true, if_false, Option.isNone_none,
        Bool.and_false, Option.isNone_some, ok_bind, pure_eq_ok, arrays_closed, Option.isSome_some, and_false,
        hne, Option.getD_some, PyWrap.num, dot_rho_Sk0, Bool.true_eq_false, false_and, Int.cast_one]

/-! ## the node loops of the EBCM / attack-rate wrappers -/

theorem mapM_pure' {α β : Type} (l : List α) (g : α → β) :
    l.mapM (fun x => (pure (g x) : Except String β)) = .ok (l.map g) := by
  induction l with
  | nil => rfl
  | cons a t ih => rw [List.mapM_cons, ih]; rfl

/-- number of neighbours (as `G.neighbors` lists them) with status `x` -/
def nbCount (st : Node → St) (nb : Node → List Node) (u : Node) (x : St) : Nat :=
  ((nb u).filter fun v => st v = x).length

theorem nbFold (st : Node → St) (l : List Node) (x : St) : ∀ (a : Int),
    l.foldlM (fun (acc_ : Int) (nbr : Node) =>
      if decide (st nbr = x) then (pure (acc_ + (1 : Int)) : Except String Int) else pure acc_) a
      = .ok (a + ((l.filter fun v => st v = x).length : Nat)) := by
  induction l with
  | nil => intro a; simp
  | cons b t ih =>
    intro a
    rw [List.foldlM_cons]
    by_cases h : st b = x
    · rw [if_pos (by simpa using h)]
      show List.foldlM _ (a + 1) t = _
      rw [ih]; simp [h]; ring
    · rw [if_neg (by simpa using h)]
      show List.foldlM _ a t = _
      rw [ih]; simp [h]

/-- the array of degree counts the wrappers build from the `Counter` -/
def NkL (degs : List Nat) : List Rat := vec (Helpers.maxDeg degs) (fun k => ((Helpers.countEq degs k : Nat) : Rat))

theorem mapM_counter (degs : List Nat) :
    (PyWrap.range (((Helpers.maxDeg degs : Nat) : Int) + 1)).mapM (fun (k : Int) =>
      (pure (((PyWrap.counterGet (PyHelp.counter degs) k) : Int) : Rat) : Except String Rat)) = .ok (NkL degs) := by
  rw [mapM_pure', range_succ_nat, List.map_map]
  congr 1
  apply List.map_congr_left
  intro k _
  simp only [Function.comp, PyWrap.counterGet]
  rw [if_neg (by omega), Int.toNat_natCast, GenHelpProofs.counter_get]
  simp

theorem zeros_eq (M : Nat) : PyWrap.zeros (((M : Nat) : Int) + 1) = .ok (vec M (fun _ => 0)) := by
  unfold PyWrap.zeros
  have h1 : ¬ (((M : Nat) : Int) + 1 < 0) := by omega
  have h2 : (((M : Nat) : Int) + 1).toNat = M + 1 := by omega
  rw [if_neg h1, h2]
  show Except.ok _ = Except.ok _
  congr 1
  apply List.ext_getElem <;> simp [vec]

theorem vec_getD (M : Nat) (f : Nat → Rat) (k : Nat) (h : k ≤ M) : (vec M f).getD k 0 = f k := by
  rw [List.getD_eq_getElem?_getD, vec_getElem?, if_pos h]; rfl

theorem vec_set (M : Nat) (f : Nat → Rat) (d : Nat) (c : Rat) (hd : d ≤ M) :
    (vec M f).set d ((vec M f).getD d 0 + c) = vec M (fun k => f k + if d = k then c else 0) := by
  rw [vec_getD M f d hd]
  apply List.ext_getElem?
  intro k
  rw [List.getElem?_set, vec_getElem?, vec_getElem?]
  by_cases hk : d = k
  · subst hk; simp [hd]
  · simp [hk]

/-- one pass of the node loop of `EBCM_from_graph` on `(Sk0, SS, SR, SX, R0)`; `w k` is what a susceptible node of
degree `k` adds to `Sk0[k]` -/
def ebStep (d : Node → Nat) (st : Node → St) (nb : Node → List Node) (w : Nat → Rat)
    (acc : List Rat × Int × Int × Int × Int) (u : Node) : List Rat × Int × Int × Int × Int :=
  if st u = St.S then
    (acc.1.set (d u) (acc.1.getD (d u) 0 + w (d u)), acc.2.1 + (nbCount st nb u St.S : Nat),
      acc.2.2.1 + (nbCount st nb u St.R : Nat), acc.2.2.2.1 + (d u : Nat), acc.2.2.2.2)
  else if st u = St.R then (acc.1, acc.2.1, acc.2.2.1, acc.2.2.2.1, acc.2.2.2.2 + 1)
  else acc

/-- `Σ_{u ∈ l, u susceptible} g u` -/
def sumS (st : Node → St) (g : Node → Nat) (l : List Node) : Nat := (l.map fun u => if st u = St.S then g u else 0).sum

theorem foldl_ebStep (d : Node → Nat) (st : Node → St) (nb : Node → List Node) (w : Nat → Rat) (M : Nat)
    (l : List Node) (hl : ∀ u ∈ l, d u ≤ M) : ∀ (F : Nat → Rat) (SS SR SX R0 : Int),
    l.foldl (ebStep d st nb w) (vec M F, SS, SR, SX, R0) =
      (vec M (fun k => F k + (cnt d st l St.S k : Rat) * w k),
       SS + (sumS st (fun u => nbCount st nb u St.S) l : Nat), SR + (sumS st (fun u => nbCount st nb u St.R) l : Nat),
       SX + (sumS st d l : Nat), R0 + ((l.filter fun u => st u = St.R).length : Nat)) := by
  induction l with
  | nil => intro F SS SR SX R0; simp [cnt, sumS]
  | cons a t ih =>
    intro F SS SR SX R0
    have ha := hl a (by simp)
    rw [List.foldl_cons]
    cases h : st a
    · rw [show ebStep d st nb w (vec M F, SS, SR, SX, R0) a =
          ((vec M F).set (d a) ((vec M F).getD (d a) 0 + w (d a)), SS + (nbCount st nb a St.S : Nat),
            SR + (nbCount st nb a St.R : Nat), SX + (d a : Nat), R0) from by simp [ebStep, h],
        vec_set M F (d a) (w (d a)) ha, ih (fun u hu => hl u (by simp [hu]))]
      refine Prod.ext ?_ (Prod.ext ?_ (Prod.ext ?_ (Prod.ext ?_ ?_)))
      · apply vec_congr; intro k
        simp only [cnt_cons, ind, h]
        by_cases hk : d a = k
        · subst hk; simp; ring
        · simp [hk]
      · simp [sumS, h]; ring
      · simp [sumS, h]; ring
      · simp [sumS, h]; ring
      · simp [h]
    · rw [show ebStep d st nb w (vec M F, SS, SR, SX, R0) a = (vec M F, SS, SR, SX, R0) from by simp [ebStep, h],
        ih (fun u hu => hl u (by simp [hu]))]
      refine Prod.ext ?_ (Prod.ext ?_ (Prod.ext ?_ (Prod.ext ?_ ?_)))
      · apply vec_congr; intro k
        simp [cnt_cons, ind, h]
      · simp [sumS, h]
      · simp [sumS, h]
      · simp [sumS, h]
      · simp [h]
    · rw [show ebStep d st nb w (vec M F, SS, SR, SX, R0) a = (vec M F, SS, SR, SX, R0 + 1) from by
          simp [ebStep, h],
        ih (fun u hu => hl u (by simp [hu]))]
      refine Prod.ext ?_ (Prod.ext ?_ (Prod.ext ?_ (Prod.ext ?_ ?_)))
      · apply vec_congr; intro k
        simp [cnt_cons, ind, h]
      · simp [sumS, h]
      · simp [sumS, h]
      · simp [sumS, h]
      · simp [h]; ring

theorem foldlM_of_pure_on {σ ι : Type} (f : σ → ι → Except String σ) (g : σ → ι → σ) (P : σ → Prop) (l : List ι)
    (h : ∀ a x, x ∈ l → P a → f a x = .ok (g a x) ∧ P (g a x)) : ∀ a, P a →
    l.foldlM f a = .ok (l.foldl g a) := by
  induction l with
  | nil => intro a _; rfl
  | cons x t ih =>
    intro a ha
    obtain ⟨h1, h2⟩ := h a x (by simp) ha
    rw [List.foldlM_cons, h1, ok_bind, List.foldl_cons]
    exact ih (fun a' x' hx' hP => h a' x' (by simp [hx']) hP) _ h2

theorem ebStep_length (d : Node → Nat) (st : Node → St) (nb : Node → List Node) (w : Nat → Rat)
    (acc : List Rat × Int × Int × Int × Int) (u : Node) : (ebStep d st nb w acc u).1.length = acc.1.length := by
  unfold ebStep
  split
  · simp
  · split <;> rfl

/-- a node loop whose body is `ebStep` whenever the array has `M + 1` entries -/
theorem loop5 (d : Node → Nat) (st : Node → St) (nb : Node → List Node) (w : Nat → Rat) (M : Nat)
    (l : List Node) (hl : ∀ u ∈ l, d u ≤ M)
    (step : List Rat × Int × Int × Int × Int → Node → Except String (List Rat × Int × Int × Int × Int))
    (hstep : ∀ acc u, u ∈ l → acc.1.length = M + 1 → step acc u = .ok (ebStep d st nb w acc u))
    (F : Nat → Rat) (SS SR SX R0 : Int) :
    l.foldlM step (vec M F, SS, SR, SX, R0) =
      .ok (vec M (fun k => F k + (cnt d st l St.S k : Rat) * w k),
       SS + (sumS st (fun u => nbCount st nb u St.S) l : Nat), SR + (sumS st (fun u => nbCount st nb u St.R) l : Nat),
       SX + (sumS st d l : Nat), R0 + ((l.filter fun u => st u = St.R).length : Nat)) := by
  rw [foldlM_of_pure_on step (ebStep d st nb w) (fun acc => acc.1.length = M + 1) l _ _ (vec_length _ _),
    foldl_ebStep d st nb w M l hl]
  intro a x hx hP
  exact ⟨hstep a x hx hP, by rw [ebStep_length]; exact hP⟩

/-! ## `EBCM_from_graph` -/

/-- what a susceptible node of degree `k` adds to `Sk0[k]`: `1/Nk[k]` -/
def wInv (degs : List Nat) (k : Nat) : Rat := 1 / (NkL degs).getD k 0

theorem NkL_getD (degs : List Nat) (k : Nat) (hk : k ∈ degs) :
    (NkL degs).getD k 0 = ((Helpers.countEq degs k : Nat) : Rat) ∧ (NkL degs).getD k 0 ≠ 0 := by
  have h1 : (NkL degs).getD k 0 = ((Helpers.countEq degs k : Nat) : Rat) :=
    vec_getD _ _ k (Helpers.le_maxDeg degs k hk)
  refine ⟨h1, ?_⟩
  rw [h1]
  have : 0 < Helpers.countEq degs k := by
    unfold Helpers.countEq
    apply List.length_pos_of_mem (a := k)
    simp [hk]
  exact_mod_cast this.ne'

theorem powI_nat (x : Rat) (k : Nat) : PyWrap.powI x ((k : Nat) : Int) = .ok (x ^ k) := by
  unfold PyWrap.powI
  rw [if_pos (by omega), Int.toNat_natCast]; rfl

theorem powI_pred (x : Rat) (k : Nat) (hk : 0 < k) : PyWrap.powI x (((k : Nat) : Int) - 1) = .ok (x ^ (k - 1)) := by
  unfold PyWrap.powI
  have : (((k : Nat) : Int) - 1).toNat = k - 1 := by omega
  rw [if_pos (by omega), this]; rfl

theorem powI_neg (x : Rat) (hx : x ≠ 0) : ∃ y, PyWrap.powI x (((0 : Nat) : Int) - 1) = .ok y := by
  unfold PyWrap.powI
  rw [if_neg (by omega), if_neg hx]; exact ⟨_, rfl⟩

theorem powI_neg_zero : PyWrap.powI 0 (((0 : Nat) : Int) - 1) = .error "ZeroDivisionError" := by
  unfold PyWrap.powI
  rw [if_neg (by omega), if_pos rfl]; rfl

/-- `Σ_{k ∈ Pk} Pk[k]·v[k]·x^k` for an ARRAY `v` indexed by degree -/
def psiHatV (Pk : List (Nat × Rat)) (v : List Rat) (x : Rat) : Rat :=
  sumRat ((Pk.map (·.1)).map fun k => (alGet Pk 0 k * v.getD k 0) * x ^ k)

/-- `Σ_{k ∈ Pk} k·Pk[k]·v[k]·x^(k-1)` -/
def psiHatPV (Pk : List (Nat × Rat)) (v : List Rat) (x : Rat) : Rat :=
  sumRat ((Pk.map (·.1)).map fun k =>
    if 0 < k then ((((k : Nat) : Rat) * alGet Pk 0 k) * v.getD k 0) * x ^ (k - 1) else 0)

/-- the divisor `SX`, replaced by 1 when it is 0 -/
def gI (n : Nat) : Nat := if n = 0 then 1 else n

theorem gI_ne_zero (n : Nat) : gI n ≠ 0 := by unfold gI; split <;> omega

theorem guard_int (X : Int) :
    (if decide (X = (0 : Int)) = true then (pure (1 : Int) : Except String Int) else pure X)
      = .ok (if X = 0 then 1 else X) := by
  by_cases h : X = 0 <;> simp [h]

theorem keys_PkAL_mem (degs : List Nat) (k : Nat) (hk : k ∈ (PkAL degs).map (·.1)) : k ∈ degs := by
  rw [GenHelpProofs.PkAL_keys] at hk
  exact List.mem_eraseDups.mp hk

/-- the generated `psihat` closure of the explicit-sets branch, for an array `v` of `maxdeg + 1` entries -/
theorem psihat_closure (degs : List Nat) (v : List Rat) (hv : v.length = Helpers.maxDeg degs + 1) (x : Rat) :
    ((PkAL degs).map (·.1)).foldlM (fun (acc_ : Rat) (k_ : Nat) => do
        let d_10 ← PyWrap.dictGet (PkAL degs) ((k_ : Nat) : Int)
        let d_11 ← PyWrap.vecGet v ((k_ : Nat) : Int)
        let p_12 ← PyWrap.powI x ((k_ : Nat) : Int)
        (pure (acc_ + ((d_10 * d_11) * p_12)) : Except String Rat)) 0 = .ok (psiHatV (PkAL degs) v x) := by
  rw [fold_keys_ok _ (fun k => (alGet (PkAL degs) 0 k * v.getD k 0) * x ^ k)]
  · simp [psiHatV]
  · intro k hk acc
    have hk' := Helpers.le_maxDeg degs k (keys_PkAL_mem degs k hk)
    rw [wdictGet_key _ k hk, vecGet_nat v k (by omega), powI_nat]
    rfl

theorem psihatPrime_closure (degs : List Nat) (v : List Rat) (hv : v.length = Helpers.maxDeg degs + 1) (x : Rat)
    (hx : x ≠ 0 ∨ 0 ∉ degs) :
    ((PkAL degs).map (·.1)).foldlM (fun (acc_ : Rat) (k_ : Nat) => do
        let d_14 ← PyWrap.dictGet (PkAL degs) ((k_ : Nat) : Int)
        let d_15 ← PyWrap.vecGet v ((k_ : Nat) : Int)
        let p_16 ← PyWrap.powI x (((k_ : Nat) : Int) - (1 : Int))
        (pure (acc_ + ((((((k_ : Nat) : Int) : Rat) * d_14) * d_15) * p_16)) : Except String Rat)) 0
      = .ok (psiHatPV (PkAL degs) v x) := by
  rw [fold_keys_ok _ (fun k => if 0 < k then ((((k : Nat) : Rat) * alGet (PkAL degs) 0 k) * v.getD k 0) * x ^ (k - 1)
    else 0)]
  · simp [psiHatPV]
  · intro k hk acc
    have hkd := keys_PkAL_mem degs k hk
    have hk' := Helpers.le_maxDeg degs k hkd
    rw [wdictGet_key _ k hk, vecGet_nat v k (by omega)]
    by_cases hk0 : 0 < k
    · rw [powI_pred x k hk0]
      simp [hk0]
    · have : k = 0 := by omega
      subst this
      have hx' : x ≠ 0 := by
        rcases hx with h | h
        · exact h
        · exact absurd hkd h
      obtain ⟨y, hy⟩ := powI_neg x hx'
      rw [hy]
      simp

/-- … and at `x = 0` on a graph with an isolated node: `0.0 ** (-1)` raises -/
theorem psihatPrime_closure_zero (degs : List Nat) (v : List Rat) (hv : v.length = Helpers.maxDeg degs + 1)
    (h0 : 0 ∈ degs) :
    ((PkAL degs).map (·.1)).foldlM (fun (acc_ : Rat) (k_ : Nat) => do
        let d_14 ← PyWrap.dictGet (PkAL degs) ((k_ : Nat) : Int)
        let d_15 ← PyWrap.vecGet v ((k_ : Nat) : Int)
        let p_16 ← PyWrap.powI (0 : Rat) (((k_ : Nat) : Int) - (1 : Int))
        (pure (acc_ + ((((((k_ : Nat) : Int) : Rat) * d_14) * d_15) * p_16)) : Except String Rat)) 0
      = .error "ZeroDivisionError" := by
  apply GenHelpProofs.fold_keys_err _ (fun k => if 0 < k then
      ((((k : Nat) : Rat) * alGet (PkAL degs) 0 k) * v.getD k 0) * (0 : Rat) ^ (k - 1) else 0)
  · intro k hk
    have hkd := keys_PkAL_mem degs k hk
    have hk' := Helpers.le_maxDeg degs k hkd
    by_cases hk0 : 0 < k
    · left; intro acc
      rw [wdictGet_key _ k hk, vecGet_nat v k (by omega), powI_pred 0 k hk0]
      simp [hk0]
    · right; intro acc
      have : k = 0 := by omega
      subst this
      rw [wdictGet_key _ 0 hk, vecGet_nat v 0 (by omega), powI_neg_zero]
      rfl
  · refine ⟨0, ?_, fun acc => ?_⟩
    · rw [GenHelpProofs.PkAL_keys]; exact List.mem_eraseDups.mpr h0
    · have hk : 0 ∈ (PkAL degs).map (·.1) := by
        rw [GenHelpProofs.PkAL_keys]; exact List.mem_eraseDups.mpr h0
      rw [wdictGet_key _ 0 hk, vecGet_nat v 0 (by omega), powI_neg_zero]
      rfl

/-- the final `Sk0` array of the explicit-sets branch: `Sk0[k]` = (number of susceptible nodes of degree `k`)/`N_k` -/
def Sk0fin (A : WArgs) (st : Node → St) : List Rat :=
  vec (Helpers.maxDeg (A.nodes.map A.degree))
    (fun k => (cnt A.degree st A.nodes St.S k : Rat) * wInv (A.nodes.map A.degree) k)

theorem EBCM_sets (A : WArgs) (tau gamma : Rat) (infs : List Node) (recs : Option (List Node)) (tmin tmax : Rat)
    (tcount : Int) (full : Bool) (st : Node → St)
    (hst : initialize_node_status A.toIArgs infs (recs.getD []) = .ok st) (hne : A.nodes ≠ []) :
    ∃ a, EBCM_from_graph_args A tau gamma (some infs) recs none tmin tmax tcount full = .ok a ∧
      a.N = (A.nodes.length : Rat) ∧
      a.R0 = (((A.nodes.filter fun u => st u = St.R).length : Nat) : Rat) ∧
      a.phiS0 = ((sumS st (fun u => nbCount st A.neighbors u St.S) A.nodes : Nat) : Rat)
        / ((gI (sumS st A.degree A.nodes) : Nat) : Rat) ∧
      a.phiR0 = ((sumS st (fun u => nbCount st A.neighbors u St.R) A.nodes : Nat) : Rat)
        / ((gI (sumS st A.degree A.nodes) : Nat) : Rat) ∧
      (∀ x, a.psihat x = .ok (psiHatV (PkAL (A.nodes.map A.degree)) (Sk0fin A st) x)) ∧
      (∀ x, x ≠ 0 ∨ 0 ∉ A.nodes.map A.degree →
        a.psihatPrime x = .ok (psiHatPV (PkAL (A.nodes.map A.degree)) (Sk0fin A st) x)) ∧
      (0 ∈ A.nodes.map A.degree → a.psihatPrime 0 = .error "ZeroDivisionError") ∧
      a.tau = tau ∧ a.gamma = gamma ∧ a.tmin = tmin ∧ a.tmax = tmax ∧ a.tcount = tcount ∧
      a.return_full_data = full := by
  unfold EBCM_from_graph_args
  have hne' : A.nodes.map A.degree ≠ [] := fun e => hne (List.map_eq_nil_iff.mp e)
  simp only [Option.isSome_none, Bool.false_and, Bool.false_eq_true, if_false, GenHelpProofs.get_Pk_eq, ok_bind,
    hst, maxKey_counter, hne', mapM_counter, zeros_eq]
  rw [loop5 A.degree st A.neighbors (wInv (A.nodes.map A.degree)) (Helpers.maxDeg (A.nodes.map A.degree)) A.nodes
    (fun u hu => Helpers.le_maxDeg _ _ (List.mem_map.mpr ⟨u, hu, rfl⟩))]
  swap
  · intro acc u hu hlen
    have hd : A.degree u ∈ A.nodes.map A.degree := List.mem_map.mpr ⟨u, hu, rfl⟩
    have hle := Helpers.le_maxDeg _ _ hd
    obtain ⟨a, b, c, d, e⟩ := acc
    simp only at hlen
    have e1 := vecGet_nat a (A.degree u) (by omega)
    have e2 := vecGet_nat (NkL (A.nodes.map A.degree)) (A.degree u) (by simp [NkL]; omega)
    have e3 := GenHelpProofs.fdiv_ok 1 _ (NkL_getD _ _ hd).2
    have e4 := vecAdd_nat a (A.degree u) (1 / (NkL (A.nodes.map A.degree)).getD (A.degree u) 0) (by omega)
    cases h : st u
    · simp only [decide_true, if_true, e1, e2, e3, e4, ok_bind, nbFold]
      simp [ebStep, h, nbCount, wInv]
    · simp [ebStep, h]
    · simp [ebStep, h]
  simp only [ok_bind, guard_int, zero_add]
  have hg : ((if ((sumS st A.degree A.nodes : Nat) : Int) = 0 then (1 : Int) else ((sumS st A.degree A.nodes : Nat) : Int))
      : Int) = ((gI (sumS st A.degree A.nodes) : Nat) : Int) := by
    unfold gI; split <;> simp_all
  have hg0 : (((gI (sumS st A.degree A.nodes) : Nat) : Int) : Rat) ≠ 0 := by
    exact_mod_cast gI_ne_zero _
  rw [hg, GenHelpProofs.fdiv_ok _ _ hg0, GenHelpProofs.fdiv_ok _ _ hg0]
  refine ⟨_, rfl, ?_, ?_, ?_, ?_, ?_, ?_, ?_, rfl, rfl, rfl, rfl, rfl, rfl⟩
  · simp
  · simp
  · simp
  · simp
  · intro x
    exact psihat_closure _ _ (vec_length _ _) x
  · intro x hx
    exact psihatPrime_closure _ _ (vec_length _ _) x hx
  · intro h0
    exact psihatPrime_closure_zero _ _ (vec_length _ _) h0

theorem EBCM_sets_error (A : WArgs) (tau gamma : Rat) (infs : List Node) (recs : Option (List Node)) (tmin tmax : Rat)
    (tcount : Int) (full : Bool) :
    (∀ e, initialize_node_status A.toIArgs infs (recs.getD []) = .error e →
      EBCM_from_graph_args A tau gamma (some infs) recs none tmin tmax tcount full = .error e) ∧
    (∀ st, initialize_node_status A.toIArgs infs (recs.getD []) = .ok st → A.nodes = [] →
      EBCM_from_graph_args A tau gamma (some infs) recs none tmin tmax tcount full = .error "ValueError") := by
  constructor
  · intro e he
    unfold EBCM_from_graph_args
    simp only [Option.isSome_none, Bool.false_and, Bool.false_eq_true, if_false, GenHelpProofs.get_Pk_eq, ok_bind,
      he, err_bind]
  · intro st hst hN
    unfold EBCM_from_graph_args
    simp only [Option.isSome_none, Bool.false_and, Bool.false_eq_true, if_false, GenHelpProofs.get_Pk_eq, ok_bind,
      hst, maxKey_counter, hN, List.map_nil, if_true, err_bind]

theorem EBCM_both (A : WArgs) (tau gamma : Rat) (infs recs : Option (List Node)) (r : Rat) (tmin tmax : Rat)
    (tcount : Int) (full : Bool) (h : infs.isSome ∨ recs.isSome) :
    EBCM_from_graph_args A tau gamma infs recs (some r) tmin tmax tcount full = .error "EoNError" := by
  unfold EBCM_from_graph_args
  cases infs <;> cases recs <;> simp at h ⊢

/-- `Σ_{k ∈ Pk} Pk[k]·x^k` -/
def psiK (Pk : List (Nat × Rat)) (x : Rat) : Rat := sumRat ((Pk.map (·.1)).map fun k => alGet Pk 0 k * x ^ k)

theorem psiK_closure (Pk : List (Nat × Rat)) (x : Rat) :
    (Pk.map (·.1)).foldlM (fun (acc_ : Rat) (k_ : Nat) => do
        let d_21 ← PyWrap.dictGet Pk ((k_ : Nat) : Int)
        let p_22 ← PyWrap.powI x ((k_ : Nat) : Int)
        (pure (acc_ + (d_21 * p_22)) : Except String Rat)) 0 = .ok (psiK Pk x) := by
  rw [fold_keys_ok _ (fun k => alGet Pk 0 k * x ^ k)]
  · simp [psiK]
  · intro k hk acc
    rw [wdictGet_key _ k hk, powI_nat]; rfl

/-- `EBCM_from_graph` without `initial_infecteds` (an `initial_recovereds` given without `rho` is ignored) -/
theorem EBCM_rho (A : WArgs) (tau gamma : Rat) (recs : Option (List Node)) (rho : Option Rat)
    (hrr : ¬ (rho.isSome ∧ recs.isSome)) (tmin tmax : Rat) (tcount : Int) (full : Bool) :
    (∀ e, rhoOr A rho = .error e →
      EBCM_from_graph_args A tau gamma none recs rho tmin tmax tcount full = .error e) ∧
    (∀ r, rhoOr A rho = .ok r →
      ∃ a, EBCM_from_graph_args A tau gamma none recs rho tmin tmax tcount full = .ok a ∧
        a.N = (A.nodes.length : Rat) ∧ a.R0 = 0 ∧ a.phiS0 = 1 - r ∧ a.phiR0 = 0 ∧
        (∀ x, a.psihat x = .ok ((1 - r) * psiK (PkAL (A.nodes.map A.degree)) x)) ∧
        a.tau = tau ∧ a.gamma = gamma ∧ a.tmin = tmin ∧ a.tmax = tmax ∧ a.tcount = tcount ∧
        a.return_full_data = full) := by
  have h2 : (rho.isSome && recs.isSome) = false := by
    cases rho <;> cases recs <;> simp at hrr ⊢
  unfold EBCM_from_graph_args
  simp only [Option.isSome_none, Bool.and_false, Bool.false_eq_true, if_false, h2, GenHelpProofs.get_Pk_eq, ok_bind]
  cases rho with
  | some r0 =>
    refine ⟨fun e he => by simp [rhoOr] at he, fun r hr => ?_⟩
    have : r0 = r := by simpa [rhoOr] using hr
    subst this
    refine ⟨_, rfl, by simp, by simp, by simp, by simp, ?_, rfl, rfl, rfl, rfl, rfl, rfl⟩
    intro x
    show (List.foldlM _ _ _ >>= _) = _
    rw [psiK_closure]; simp
  | none =>
    by_cases hN : A.nodes.length = 0
    · refine ⟨fun e he => ?_, fun r hr => by simp [rhoOr, hN] at hr⟩
      have : e = "ZeroDivisionError" := by simpa [rhoOr, hN] using he.symm
      subst this
      simp [hN]
    · refine ⟨fun e he => by simp [rhoOr, hN] at he, fun r hr => ?_⟩
      have : 1 / (A.nodes.length : Rat) = r := by simpa [rhoOr, hN] using hr
      subst this
      simp only [Int.cast_natCast, fdiv_N, hN, if_false, ok_bind]
      refine ⟨_, rfl, by simp, by simp, by simp, by simp, ?_, rfl, rfl, rfl, rfl, rfl, rfl⟩
      intro x
      show (List.foldlM _ _ _ >>= _) = _
      rw [psiK_closure]; simp

/-! ## the graph as adjacency lists, with `G.neighbors` -/

/-- `GraphOK` plus: `G.neighbors(u)` lists the adjacency list of `u` -/
structure GraphOKW (A : WArgs) (adj : List (List Nat)) : Prop extends GraphOK A.toIArgs adj where
  nbrs : ∀ u, u < adj.length → A.neighbors u = adj.getD u []

/-- `Σ_{u susceptible} deg u` (the `SX` of the wrappers) -/
def degS (adj : List (List Nat)) (st : Nat → St) : Nat :=
  ((List.range adj.length).map fun u => if st u = St.S then deg adj u else 0).sum

/-- `Sk0[k]` = fraction of the degree-`k` nodes that are susceptible, `k = 0..maxdeg` -/
def Sk0G (adj : List (List Nat)) (st : Nat → St) : List Rat :=
  vec (maxDeg adj) (fun k => (classCount adj st St.S k : Rat) / (Nk adj k : Rat))

theorem sumS_nb (A : WArgs) (adj : List (List Nat)) (hW : GraphOKW A adj) (st : Node → St) (x : St) :
    sumS st (fun u => nbCount st A.neighbors u x) A.nodes = pairCount adj st St.S x := by
  unfold sumS pairCount nbCount
  rw [hW.nodes]
  congr 1
  apply List.map_congr_left
  intro u hu
  simp only [hW.nbrs u (List.mem_range.mp hu)]

theorem sumS_deg (A : WArgs) (adj : List (List Nat)) (hG : GraphOK A.toIArgs adj) (st : Node → St) :
    sumS st A.degree A.nodes = degS adj st := by
  unfold sumS degS
  rw [hG.nodes]
  congr 1
  apply List.map_congr_left
  intro u hu
  rw [hG.degree u (List.mem_range.mp hu)]

theorem filterR_graph (A : WArgs) (adj : List (List Nat)) (hG : GraphOK A.toIArgs adj) (st : Node → St) :
    (A.nodes.filter fun u => st u = St.R).length = count adj st St.R := by
  rw [hG.nodes]; rfl

theorem countEq_degs (adj : List (List Nat)) (k : Nat) : Helpers.countEq (adj.map (·.length)) k = Nk adj k := by
  unfold Helpers.countEq Nk
  rw [← map_range_deg, List.filter_map, List.length_map]
  rfl

theorem Sk0fin_graph (A : WArgs) (adj : List (List Nat)) (hG : GraphOK A.toIArgs adj) (st : Node → St) :
    Sk0fin A st = Sk0G adj st := by
  unfold Sk0fin Sk0G vec
  rw [degs_eq A.toIArgs adj hG]
  show List.map _ (List.range (maxDeg adj + 1)) = _
  apply List.map_congr_left
  intro k hk
  have hk' : k ≤ maxDeg adj := by have := List.mem_range.mp hk; omega
  have h1 : (NkL (adj.map (·.length))).getD k 0 = ((Nk adj k : Nat) : Rat) := by
    rw [← countEq_degs]; exact vec_getD _ _ k hk'
  rw [hG.nodes, cnt_range_eq A.toIArgs adj hG, wInv, h1]
  ring

theorem classCount_zero (adj : List (List Nat)) (st : Nat → St) (x : St) (k : Nat) (hk : k ∉ adj.map (·.length)) :
    classCount adj st x k = 0 := by
  unfold classCount
  rw [List.length_eq_zero_iff, List.filter_eq_nil_iff]
  intro u hu
  have : deg adj u ≠ k := by
    intro e
    apply hk
    rw [← map_range_deg]
    exact List.mem_map.mpr ⟨u, hu, e⟩
  simp [this]

/-- **`N·ψ̂(1)` is the number of susceptible nodes** -/
theorem psiHat_one (adj : List (List Nat)) (st : Nat → St) (hN : adj.length ≠ 0) :
    (adj.length : Rat) * psiHatV (PkAL (adj.map (·.length))) (Sk0G adj st) 1 = (count adj st St.S : Rat) := by
  have hNr : (adj.length : Rat) ≠ 0 := by exact_mod_cast hN
  unfold psiHatV
  rw [GenHelpProofs.PkAL_keys]
  have step1 : sumRat ((adj.map (·.length)).eraseDups.map fun k =>
        (alGet (PkAL (adj.map (·.length))) 0 k * (Sk0G adj st).getD k 0) * (1 : Rat) ^ k)
      = sumRat ((adj.map (·.length)).eraseDups.map fun k => (1 / (adj.length : Rat)) * ((classCount adj st St.S k : Nat) : Rat)) := by
    apply sumRat_map_congr
    intro k hk
    have hkd : k ∈ adj.map (·.length) := List.mem_eraseDups.mp hk
    have hle : k ≤ maxDeg adj := Helpers.le_maxDeg _ k hkd
    have hnk : ((Nk adj k : Nat) : Rat) ≠ 0 := by
      have := (NkL_getD _ k hkd).2
      rw [(NkL_getD _ k hkd).1, countEq_degs] at this
      exact this
    rw [GenHelpProofs.PkAL_get, Sk0G, vec_getD _ _ k hle]
    unfold Helpers.Pk
    rw [countEq_degs, List.length_map, one_pow, mul_one]
    field_simp
  rw [step1, GenHelpProofs.sumRat_keys_eq_sumTo _ (GenHelpProofs.nodup_eraseDups _) (maxDeg adj + 1)]
  · unfold ODE.sumTo
    rw [sumRat_mul_left]
    have h2 : sumRat ((List.range (maxDeg adj + 1)).map fun k => ((classCount adj st St.S k : Nat) : Rat))
        = ((count adj st St.S : Nat) : Rat) := by
      rw [show ((List.range (maxDeg adj + 1)).map fun k => ((classCount adj st St.S k : Nat) : Rat))
          = ((List.range (maxDeg adj + 1)).map (fun k => classCount adj st St.S k)).map (fun (n : Nat) => (n : Rat))
          by simp [Function.comp_def], sumRat_cast_nat, sum_classCount]
    rw [h2]; field_simp
  · intro k hk
    have := Helpers.le_maxDeg _ k (List.mem_eraseDups.mp hk)
    show k < maxDeg adj + 1
    unfold maxDeg; unfold Helpers.maxDeg at this; omega
  · intro k hk
    have hk' : k ∉ adj.map (·.length) := fun h => hk (List.mem_eraseDups.mpr h)
    rw [classCount_zero adj st St.S k hk']; simp

/-- `Σ_{k ∈ Pk} Pk[k] = 1` on a graph with nodes -/
theorem psiK_one (degs : List Nat) (h : degs ≠ []) : psiK (PkAL degs) 1 = 1 := by
  unfold psiK
  rw [GenHelpProofs.PkAL_keys]
  have h1 : sumRat (degs.eraseDups.map fun k => alGet (PkAL degs) 0 k * (1 : Rat) ^ k)
      = ODE.sumTo (Helpers.maxDeg degs + 1) (fun k => Helpers.Pk degs k * (fun _ => (1 : Rat)) k) := by
    rw [← GenHelpProofs.sumRat_keys_eq_sumTo degs.eraseDups (GenHelpProofs.nodup_eraseDups degs)]
    · apply sumRat_map_congr
      intro k _
      rw [GenHelpProofs.PkAL_get]; simp
    · intro k hk
      have := Helpers.le_maxDeg degs k (List.mem_eraseDups.mp hk)
      omega
    · intro k hk
      have hk' : k ∉ degs := fun h => hk (List.mem_eraseDups.mpr h)
      have : Helpers.countEq degs k = 0 := by
        unfold Helpers.countEq
        rw [List.length_eq_zero_iff, List.filter_eq_nil_iff]
        intro a ha
        have : a ≠ k := fun e => hk' (e ▸ ha)
        simpa using this
      simp [Helpers.Pk, this]
  rw [h1, ODE.sumTo, Helpers.sumRat_Pk_mul, Helpers.meanDeg]
  have hl : ((degs.length : Nat) : Rat) ≠ 0 := by
    have : degs.length ≠ 0 := fun e => h (List.length_eq_zero_iff.mp e)
    exact_mod_cast this
  have : sumRat (degs.map fun _ => (1 : Rat)) = (degs.length : Rat) := by
    induction degs with
    | nil => simp
    | cons a t ih => simp [sumRat_eq_sum]; ring
  rw [this]; field_simp

end GenWrapProofs2
