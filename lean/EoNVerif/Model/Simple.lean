import EoNVerif.Model.ListDict
import EoNVerif.Model.Tape
import EoNVerif.Model.Gillespie
/-!
Model of `Gillespie_simple_contagion` (simulation.py 4062–4305).

Statuses are an arbitrary type `σ` with decidable equality.  A *spontaneous* transition is `(a, b)`; an *induced*
transition is `(a, b, c)`: an ordered neighbour pair with statuses `(a, b)` (along edge direction) turns its second
node into `c`.  Both lists are given in the order the code iterates them (`sorted(...edges())`).
Candidates ("actors") are encoded as lists of node ids: `[u]` for a spontaneous actor, `[u, v]` for a pair.
Weights: `none` = unweighted transition (plain `_ListDict_`), `some f` = tabulated `get_weight`.
Not modelled: the small-total recomputation hack (`total_weight() < 1e-7`), which is a float repair.
-/

abbrev Actor := List Nat

structure SpontTr (σ : Type) where
  src : σ
  dst : σ
  rate : Rat
  w : Option (Node → Rat)

structure IndTr (σ : Type) where
  a : σ        -- status of the inducing (first) node
  b : σ        -- status of the second node before
  c : σ        -- status of the second node after
  rate : Rat
  w : Option (Node → Node → Rat)

structure SCParams (σ : Type) where
  nodes : List Node
  succ : Node → List Node            -- G.neighbors (successors for DiGraph)
  pred : Node → List Node            -- G.predecessors (= neighbours for undirected graphs; used only if directed)
  directed : Bool
  spont : List (SpontTr σ)
  ind : List (IndTr σ)
  ret : List σ

structure SCState (σ : Type) where
  status : Node → σ
  ptS : List (LD Actor)              -- potential_transitions of the spontaneous transitions, same order
  ptI : List (LD Actor)              -- … of the induced transitions
  times : List Rat
  data : List (List Int)
  log : List (Rat × Option Node × Node × σ)   -- (time, source if induced, modified node, new status), reversed

/-- an event: which transition (index into spont ++ ind) and which actor -/
structure SCEvent where
  idx : Nat
  actor : Actor
deriving DecidableEq, Repr

namespace Simple
variable {σ : Type} [DecidableEq σ]

def wS (tr : SpontTr σ) (u : Node) : Option Rat := tr.w.map fun f => f u
def wI (tr : IndTr σ) (u v : Node) : Option Rat := tr.w.map fun f => f u v

/-- modify the `i`-th list entry with a partial function -/
def modifyAt {α : Type} (l : List α) (i : Nat) (f : α → Option α) : Option (List α) :=
  match l, i with
  | [], _ => some []
  | x :: xs, 0 => (f x).map (· :: xs)
  | x :: xs, i + 1 => (modifyAt xs i f).map (x :: ·)

/-- apply `f k tr ld` to every (transition, list) pair -/
def mapPT {τ : Type} (trs : List τ) (pts : List (LD Actor)) (f : τ → LD Actor → Option (LD Actor)) : Option (List (LD Actor)) :=
  match trs, pts with
  | tr :: trs', ld :: pts' =>
    match f tr ld, mapPT trs' pts' f with
    | some ld', some rest => some (ld' :: rest)
    | _, _ => none
  | _, _ => some []

/-! initial population (4147–4158) -/

def initSpontOne (st : Node → σ) (u : Node) (tr : SpontTr σ) (ld : LD Actor) : Option (LD Actor) :=
  if st u = tr.src then ld.update [u] (wS tr u) else some ld

def initIndNbrs (st : Node → σ) (u : Node) (tr : IndTr σ) : List Node → LD Actor → Option (LD Actor)
  | [], ld => some ld
  | v :: rest, ld =>
    if st u = tr.a ∧ st v = tr.b then
      match ld.update [u, v] (wI tr u v) with
      | some ld' => initIndNbrs st u tr rest ld'
      | none => none
    else initIndNbrs st u tr rest ld

def initNodes (P : SCParams σ) (st : Node → σ) : List Node → List (LD Actor) → List (LD Actor) →
    Option (List (LD Actor) × List (LD Actor))
  | [], ps, pi => some (ps, pi)
  | u :: rest, ps, pi =>
    match mapPT P.spont ps (initSpontOne st u), mapPT P.ind pi (fun tr ld => initIndNbrs st u tr (P.succ u) ld) with
    | some ps', some pi' => initNodes P st rest ps' pi'
    | _, _ => none

def countSt (P : SCParams σ) (st : Node → σ) (x : σ) : Int := ((P.nodes.filter fun u => st u = x).length : Int)

def init (P : SCParams σ) (ic : Node → σ) (tmin : Rat) : Option (SCState σ) :=
  match initNodes P ic P.nodes (P.spont.map fun tr => LD.empty tr.w.isSome) (P.ind.map fun tr => LD.empty tr.w.isSome) with
  | none => none
  | some (ps, pi) => some { status := ic, ptS := ps, ptI := pi, times := [tmin],
                            data := P.ret.map fun x => [countSt P ic x], log := [] }

/-- `rate[tr] * potential_transitions[tr].total_weight()` for all transitions, spontaneous first -/
def rateList (P : SCParams σ) (s : SCState σ) : List Rat :=
  (List.zipWith (fun (tr : SpontTr σ) ld => tr.rate * ld.totalWeight) P.spont s.ptS) ++
  (List.zipWith (fun (tr : IndTr σ) ld => tr.rate * ld.totalWeight) P.ind s.ptI)

def totalRate (P : SCParams σ) (s : SCState σ) : Rat := sumRat (rateList P s)

/-- `r = random(); for tr: r -= share; if r < 0: break` — index of the chosen transition (the last one if the
running difference never becomes negative) -/
def pickIdx (shares : List Rat) (r : Rat) : Nat :=
  let rec go (l : List Rat) (r : Rat) (i : Nat) : Nat :=
    match l with
    | [] => i - 1
    | x :: xs => if r - x < 0 then i else go xs (r - x) (i + 1)
  go shares r 0

/-! updates after `modified` changed from `old` to `new` (4220–4284) -/

def updSpontOne (old new : σ) (m : Node) (tr : SpontTr σ) (ld : LD Actor) : Option (LD Actor) := do
  let ld1 ← if tr.src = old then ld.remove [m] else some ld
  if tr.src = new then ld1.update [m] (wS tr m) else some ld1

/-- directed graphs: successors loop -/
def updIndSucc (st : Node → σ) (old new : σ) (m : Node) (tr : IndTr σ) : List Node → LD Actor → Option (LD Actor)
  | [], ld => some ld
  | v :: rest, ld => do
    let ld1 ← if tr.a = old ∧ tr.b = st v then ld.remove [m, v] else some ld
    let ld2 ← if tr.a = new ∧ tr.b = st v then ld1.update [m, v] (wI tr m v) else some ld1
    updIndSucc st old new m tr rest ld2

/-- directed graphs: predecessors loop -/
def updIndPred (st : Node → σ) (old new : σ) (m : Node) (tr : IndTr σ) : List Node → LD Actor → Option (LD Actor)
  | [], ld => some ld
  | p :: rest, ld => do
    let ld1 ← if tr.a = st p ∧ tr.b = old then ld.remove [p, m] else some ld
    let ld2 ← if tr.a = st p ∧ tr.b = new then ld1.update [p, m] (wI tr p m) else some ld1
    updIndPred st old new m tr rest ld2

/-- undirected graphs: one loop over the neighbours, four tests in the code's order -/
def updIndUndir (st : Node → σ) (old new : σ) (m : Node) (tr : IndTr σ) : List Node → LD Actor → Option (LD Actor)
  | [], ld => some ld
  | v :: rest, ld => do
    let ld1 ← if tr.a = st v ∧ tr.b = old then ld.remove [v, m] else some ld
    let ld2 ← if tr.a = old ∧ tr.b = st v then ld1.remove [m, v] else some ld1
    let ld3 ← if tr.a = st v ∧ tr.b = new then ld2.update [v, m] (wI tr v m) else some ld2
    let ld4 ← if tr.a = new ∧ tr.b = st v then ld3.update [m, v] (wI tr m v) else some ld3
    updIndUndir st old new m tr rest ld4

def updIndOne (P : SCParams σ) (st : Node → σ) (old new : σ) (m : Node) (tr : IndTr σ) (ld : LD Actor) : Option (LD Actor) :=
  if P.directed then do
    let ld1 ← updIndSucc st old new m tr (P.succ m) ld
    updIndPred st old new m tr (P.pred m) ld1
  else updIndUndir st old new m tr (P.succ m) ld

/-- decode the event into (source, modified node, old status, new status) -/
def decode (P : SCParams σ) (e : SCEvent) : Option (Option Node × Node × σ × σ) :=
  if e.idx < P.spont.length then
    match P.spont[e.idx]?, e.actor with
    | some tr, [u] => some (none, u, tr.src, tr.dst)
    | _, _ => none
  else
    match P.ind[e.idx - P.spont.length]?, e.actor with
    | some tr, [u, v] => some (some u, v, tr.b, tr.c)
    | _, _ => none

def applyEvent (P : SCParams σ) (s : SCState σ) (e : SCEvent) (t : Rat) : Option (SCState σ) := do
  let (src, m, old, new) ← decode P e
  let st := fset s.status m new
  let data := (List.zip P.ret s.data).map fun (x, col) =>
    let v := col.headD 0
    let v := if old = x then v - 1 else v
    let v := if new = x then v + 1 else v
    v :: col
  let ps ← mapPT P.spont s.ptS (updSpontOne old new m)
  let pi ← mapPT P.ind s.ptI (updIndOne P st old new m)
  pure { status := st, ptS := ps, ptI := pi, times := t :: s.times, data := data, log := (t, src, m, new) :: s.log }

def encActor (a : Actor) : List Nat := a

/-- the selection part of one loop iteration -/
def pick (P : SCParams σ) (s : SCState σ) (cfuel : Nat) : TM SCEvent := do
  let tot := totalRate P s
  let r ← TM.popUnif
  let i := pickIdx ((rateList P s).map fun x => x / tot) r
  match (s.ptS ++ s.ptI)[i]? with
  | none => TM.fail "IndexError"
  | some ld =>
    let a ← Gillespie.chooseTM encActor ld cfuel
    pure { idx := i, actor := a }

def loop (P : SCParams σ) (tmax : ERat) (cfuel : Nat) : Nat → SCState σ → ERat → TM (SCState σ)
  | 0, _, _ => TM.fail "fuel"
  | fuel + 1, s, t =>
    match t with
    | none => pure s
    | some tv =>
      if !(totalRate P s > 0) ∨ !(ERat.lt (some tv) tmax) then pure s
      else do
        let e ← pick P s cfuel
        match applyEvent P s e tv with
        | none => TM.fail "KeyError"
        | some s' =>
          let tot := totalRate P s'
          if tot > 0 then do
            let d ← TM.popExpo tot
            loop P tmax cfuel fuel s' (some (tv + d))
          else loop P tmax cfuel fuel s' none

def run (P : SCParams σ) (ic : Node → σ) (tmin : Rat) (tmax : ERat) (fuel cfuel : Nat) : TM (SCState σ) := do
  match init P ic tmin with
  | none => TM.fail "KeyError"
  | some s0 =>
    let tot := totalRate P s0
    if tot > 0 then do
      let d ← TM.popExpo tot
      loop P tmax cfuel fuel s0 (some (tmin + d))
    else loop P tmax cfuel fuel s0 none

/-! ### specification: the continuous-time Markov chain described by the user's two transition graphs -/

/-- enabled spontaneous events of transition `tr`: nodes of status `tr.src`, rate `r·nodeweight` -/
def enabledS (P : SCParams σ) (st : Node → σ) (tr : SpontTr σ) : List (Node × Rat) :=
  (P.nodes.filter fun u => st u = tr.src).map fun u => (u, tr.rate * ((wS tr u).getD 1))

/-- enabled induced events of `tr`: ordered pairs `(u, v)`, `v ∈ succ u`, statuses `(a, b)`, rate `r·edgeweight` -/
def enabledI (P : SCParams σ) (st : Node → σ) (tr : IndTr σ) : List ((Node × Node) × Rat) :=
  P.nodes.flatMap fun u =>
    if st u = tr.a then ((P.succ u).filter fun v => st v = tr.b).map fun v => ((u, v), tr.rate * ((wI tr u v).getD 1))
    else []

def specTotal (P : SCParams σ) (st : Node → σ) : Rat :=
  sumRat (P.spont.map fun tr => sumRat ((enabledS P st tr).map (·.2))) +
  sumRat (P.ind.map fun tr => sumRat ((enabledI P st tr).map (·.2)))

end Simple
