import EoNVerif.Spec.Predicates
