import EoNVerif.Gen.ListDictGen
import EoNVerif.Model.GenLDOps
import EoNVerif.Proofs.GenLD
import EoNVerif.Props.C16
/-!
C16b — refinement: the Lean code GENERATED statement by statement from the Python class `_ListDict_`
(`/repo/EoN/simulation.py` 205-361; generated file `EoNVerif/Gen/ListDictGen.lean`, namespace `GenLD`, re-generated
from the Python source on every verification run) is simulated by the hand-written model `LD`
(`EoNVerif/Model/ListDict.lean`), so the C16 theorems proved about `LD` hold for the generated code.

* `GenLD.R p l` (defined in `EoNVerif/Proofs/GenLD.lean`): every modelled attribute of the generated state `p` equals
  the corresponding field of `l` (items, weighted, weight as association lists, max_weight, max_weight_count,
  _total_weight) and `item_to_position` — which the hand model abstracts away — is exactly the position map of `items`.
  Equivalently (`gen_R_iff`): `l = GenLD.toLD p` and `item_to_position` is the position map.
* Part 1: simulation, operation by operation, for histories, for `choose_random` and `total_weight`.
* Part 2: the C16 facts transported to the generated code.
Helper lemmas are in `EoNVerif/Proofs/GenLD.lean`; executable glue (`applyOps`, `toLD`, `opTyped`) in
`EoNVerif/Model/GenLDOps.lean`.
-/
namespace GenLD
variable {α : Type} [DecidableEq α]

/-! ## Part 1 — simulation -/

/-- `__init__` (simulation.py 241-250): a freshly constructed `_ListDict_` is related to the empty hand model. -/
theorem gen_init_R (b : Bool) : R (init b : PyLD α) (LD.empty b) := init_R b

/-- the relation is functional: `l` is the abstraction of `p` (all attributes except `item_to_position`), and
`item_to_position[x]` is the index of `x` in `items` for exactly the listed `x`. -/
theorem gen_R_iff (p : PyLD α) (l : LD α) :
    R p l ↔ (l = toLD p ∧ (∀ x, alHas p.item_to_position x = true ↔ x ∈ p.items) ∧
      (∀ x ∈ p.items, PyRT.alFind? p.item_to_position x = some (p.items.idxOf x))) :=
  R_iff p l

/-- `remove` (simulation.py 311-332), forward: whenever the hand model removes `x` (i.e. `x` is listed), the generated
code returns normally — no `KeyError` from either `pop`, no `IndexError` from `items[position] = last_item`, no
`ValueError` from `max` in `_update_max_weight` — and the resulting states are related.  In particular the explicit
`self._total_weight = 0` on an emptied list (lines 320-323) agrees with the hand model's exact `total - w`. -/
theorem gen_remove_refines (p : PyLD α) (l l' : LD α) (x : α) (hR : R p l) (hI : LD.Inv l)
    (h : l.remove x = some l') : ∃ p', remove p x = .ok p' ∧ R p' l' :=
  remove_sim p l l' x hR hI h

/-- `remove` of an item that is not listed raises `KeyError` (`self.item_to_position.pop(choice)`, line 312); this is
the case in which the hand model returns `none`. -/
theorem gen_remove_keyError (p : PyLD α) (l : LD α) (x : α) (hR : R p l) (hx : x ∉ l.items) :
    remove p x = .error "KeyError" ∧ l.remove x = none :=
  remove_keyError p l x hR hx

/-- `remove`, backward: every normal return of the generated code is a step of the hand model. -/
theorem gen_remove_refines_back (p p' : PyLD α) (l : LD α) (x : α) (hR : R p l) (hI : LD.Inv l)
    (h : remove p x = .ok p') : ∃ l', l.remove x = some l' ∧ R p' l' :=
  remove_sim_back p p' l x hR hI h

/-- `update` (simulation.py 279-309), forward: whenever the hand model performs the update the generated code returns
normally with a related state.  The reads `self.weight[item]` of the `defaultdict` (which insert a 0 entry — not
modelled by hand) never change the result, and `len(self.items)-1` is the index of the appended item.
(The converse fails only for a weight passed to an unweighted structure, where Python raises `AttributeError`; see
`gen_update_refines_back`.) -/
theorem gen_update_refines (p : PyLD α) (l l' : LD α) (x : α) (w : Option Rat) (hR : R p l)
    (h : l.update x w = some l') : ∃ p', update p x w = .ok p' ∧ R p' l' :=
  update_sim p l l' x w hR h

/-- `update`, backward, for the calls the simulators make (a weight increment is passed iff the structure is
weighted). -/
theorem gen_update_refines_back (p p' : PyLD α) (l : LD α) (x : α) (w : Option Rat) (hR : R p l)
    (hw : w.isSome = l.weighted) (h : update p x w = .ok p') : ∃ l', l.update x w = some l' ∧ R p' l' :=
  update_sim_back p p' l x w hR hw h

/-- `insert` (simulation.py 261-277), forward. -/
theorem gen_insert_refines (p : PyLD α) (l l' : LD α) (x : α) (w : Option Rat) (hR : R p l) (hI : LD.Inv l)
    (h : l.insert x w = some l') : ∃ p', insert p x w = .ok p' ∧ R p' l' :=
  insert_sim p l l' x w hR hI h

/-- `insert`, backward, for the calls the simulators make. -/
theorem gen_insert_refines_back (p p' : PyLD α) (l : LD α) (x : α) (w : Option Rat) (hR : R p l) (hI : LD.Inv l)
    (hw : w.isSome = l.weighted) (h : insert p x w = .ok p') : ∃ l', l.insert x w = some l' ∧ R p' l' :=
  insert_sim_back p p' l x w hR hI hw h

/-- histories, forward: every run of the hand model on a history of insert / update / remove with non-negative weights,
started from the empty structure, is matched step by step by the generated code started from `__init__`. -/
theorem gen_history_refines (b : Bool) (ops : List (LD.Op α)) (l' : LD α) (hw : ∀ o ∈ ops, o.nonneg)
    (h : (LD.empty b : LD α).applyOps ops = some l') :
    ∃ p', applyOps (init b : PyLD α) ops = .ok p' ∧ R p' l' :=
  applyOps_sim b ops l' hw h

/-- histories, backward: every normally terminating run of the generated code on a non-negative history in which a
weight is passed iff the structure is weighted is a run of the hand model. -/
theorem gen_history_refines_back (b : Bool) (ops : List (LD.Op α)) (p' : PyLD α) (hw : ∀ o ∈ ops, o.nonneg)
    (ht : ∀ o ∈ ops, opTyped b o = true) (h : applyOps (init b : PyLD α) ops = .ok p') :
    ∃ l', (LD.empty b : LD α).applyOps ops = some l' ∧ R p' l' :=
  applyOps_sim_back b ops p' hw ht h

/-- `choose_random` (simulation.py 334-351) on a tape of scripted draws: the generated code returns the item the hand
model selects; its only possible state change (the `defaultdict` read `self.weight[choice]`) is void because every
listed item has a weight entry, so the state stays related (indeed unchanged, `choose_random_sim`). -/
theorem gen_choose_refines (p : PyLD α) (l : LD α) (draws : List (Nat × Rat)) (c : α) (k : Nat)
    (hR : R p l) (hI : LD.Inv l) (h : l.chooseRandom draws = some (c, k)) :
    ∃ p', choose_random p draws = .ok (p', c) ∧ R p' l :=
  ⟨p, choose_random_sim p l draws c k hR hI h, hR⟩

/-- `choose_random`: generated code and hand model select the same item on every tape, and fail together. -/
theorem gen_choose_iff (p : PyLD α) (l : LD α) (draws : List (Nat × Rat)) (c : α) (hR : R p l) (hI : LD.Inv l) :
    choose_random p draws = .ok (p, c) ↔ ∃ k, l.chooseRandom draws = some (c, k) :=
  choose_random_iff p l draws c hR hI

/-- `total_weight()` (simulation.py 359-363) returns the hand model's `totalWeight` and does not change the state. -/
theorem gen_total_weight_refines (p : PyLD α) (l : LD α) (hR : R p l) :
    total_weight p = .ok (p, l.totalWeight) :=
  total_weight_sim p l hR

/-! ## Part 2 — the C16 facts, for the generated code

Setting: `p` is the state reached by the generated code from `__init__(weighted = b)` after a history `ops` of
`insert` / `update` / `remove` calls that returned normally, all weights non-negative (`LD.Op.nonneg`), a weight being
passed iff `b` (`opTyped`). -/

/-- the reached state is the abstraction of a hand-model run and satisfies the C16 invariant `LD.Inv` -/
theorem gen_history_inv (b : Bool) (ops : List (LD.Op α)) (p : PyLD α) (hw : ∀ o ∈ ops, o.nonneg)
    (ht : ∀ o ∈ ops, opTyped b o = true) (h : applyOps (init b : PyLD α) ops = .ok p) :
    (LD.empty b : LD α).applyOps ops = some (toLD p) ∧ R p (toLD p) ∧ LD.Inv (toLD p) := by
  obtain ⟨l, hl, hR⟩ := applyOps_sim_back b ops p hw ht h
  obtain rfl := R_toLD hR
  exact ⟨hl, hR, LD.ld_inv b ops _ hw hl⟩

/-- (a) **the clock**: `total_weight()` returns the sum of the current weights of the listed items (weighted) or the
number of items (unweighted): the incrementally maintained `_total_weight` never drifts from the true sum. -/
theorem gen_total (b : Bool) (ops : List (LD.Op α)) (p : PyLD α) (hw : ∀ o ∈ ops, o.nonneg)
    (ht : ∀ o ∈ ops, opTyped b o = true) (h : applyOps (init b : PyLD α) ops = .ok p) :
    total_weight p = .ok (p, if p.weighted then sumRat (p.items.map fun x => alGet p.weight 0 x)
                             else (p.items.length : Rat)) := by
  obtain ⟨hl, hR, -⟩ := gen_history_inv b ops p hw ht h
  rw [total_weight_sim p _ hR, LD.ld_total b ops _ hw hl]
  rfl

/-- (b) **positions**: `items` has no duplicates, `item_to_position` has exactly the listed items as keys, and
`item_to_position[items[i]] = i` for every index `i` — so `remove` always swaps the right slot. -/
theorem gen_positions (b : Bool) (ops : List (LD.Op α)) (p : PyLD α) (hw : ∀ o ∈ ops, o.nonneg)
    (ht : ∀ o ∈ ops, opTyped b o = true) (h : applyOps (init b : PyLD α) ops = .ok p) :
    p.items.Nodup ∧ (∀ x, contains__ p x = true ↔ x ∈ p.items) ∧
      (∀ x ∈ p.items, PyRT.alFind? p.item_to_position x = some (p.items.idxOf x)) ∧
      (∀ i (hi : i < p.items.length), PyRT.alFind? p.item_to_position p.items[i] = some i) := by
  obtain ⟨-, hR, hI⟩ := gen_history_inv b ops p hw ht h
  have hn : p.items.Nodup := hI.nodup
  refine ⟨hn, hR.pos_keys, hR.pos_val, ?_⟩
  intro i hi
  rw [hR.pos_val _ (List.getElem_mem hi), hn.idxOf_getElem]

/-- (c1) **weights**: every listed item has a weight entry with `0 ≤ weight ≤ max_weight`, so the acceptance
threshold `weight[c]/max_weight` of the rejection step is a probability. -/
theorem gen_weight_bounds (b : Bool) (ops : List (LD.Op α)) (p : PyLD α) (hw : ∀ o ∈ ops, o.nonneg)
    (ht : ∀ o ∈ ops, opTyped b o = true) (h : applyOps (init b : PyLD α) ops = .ok p)
    (hwt : p.weighted = true) (x : α) (hx : x ∈ p.items) :
    alHas p.weight x = true ∧ 0 ≤ alGet p.weight 0 x ∧ alGet p.weight 0 x ≤ p.max_weight := by
  obtain ⟨-, -, hI⟩ := gen_history_inv b ops p hw ht h
  exact ⟨(hI.keys hwt x).2 hx, hI.nonneg hwt x hx, hI.le_max hwt x hx⟩

/-- (c2) **one round of `choose_random`**: the item `c` at the drawn index is accepted exactly when the drawn number
`r` is below `weight[c]/max_weight` (so, given `c`, with probability proportional to its weight); otherwise the next
round runs on the unchanged state. -/
theorem gen_choose_round (b : Bool) (ops : List (LD.Op α)) (p : PyLD α) (hw : ∀ o ∈ ops, o.nonneg)
    (ht : ∀ o ∈ ops, opTyped b o = true) (h : applyOps (init b : PyLD α) ops = .ok p)
    (hwt : p.weighted = true) (i : Nat) (r : Rat) (rest : List (Nat × Rat)) (c : α) (hi : p.items[i]? = some c) :
    choose_random p ((i, r) :: rest) =
      if r < alGet p.weight 0 c / p.max_weight then .ok (p, c) else choose_random p rest := by
  obtain ⟨-, hR, hI⟩ := gen_history_inv b ops p hw ht h
  exact choose_random_round p _ hR hI hwt i r rest c hi

/-- (c3) **pathwise**: on every tape of draws with `random.random()` values `≥ 0`, the selected element is a listed
item, has positive weight (zero-weight items are never selected), and the state is unchanged. -/
theorem gen_choose_tape (b : Bool) (ops : List (LD.Op α)) (p : PyLD α) (hw : ∀ o ∈ ops, o.nonneg)
    (ht : ∀ o ∈ ops, opTyped b o = true) (h : applyOps (init b : PyLD α) ops = .ok p)
    (draws : List (Nat × Rat)) (hd : ∀ d ∈ draws, 0 ≤ d.2) (p' : PyLD α) (c : α)
    (hc : choose_random p draws = .ok (p', c)) :
    p' = p ∧ c ∈ p.items ∧ (p.weighted = true → 0 < alGet p.weight 0 c) := by
  obtain ⟨-, hR, hI⟩ := gen_history_inv b ops p hw ht h
  obtain ⟨hp, k, hk⟩ := choose_random_sim_back p p' _ draws c hR hI hc
  exact ⟨hp, LD.ld_choose_tape _ hI draws hd c k hk⟩

/-- (c4) **selection law**: the tape run of the generated `choose_random` is the tape run of `(toLD p).chooseRandom`
(first conjunct), whose law `chooseDist` — uniform index, then Bernoulli with the same threshold expression — selects
`x` within `k` rounds with probability `w_x/Σw · (1-ρ^k)`, where `ρ ∈ [0,1)` is the one-round rejection probability. -/
theorem gen_choose_law (b : Bool) (ops : List (LD.Op α)) (p : PyLD α) (hw : ∀ o ∈ ops, o.nonneg)
    (ht : ∀ o ∈ ops, opTyped b o = true) (h : applyOps (init b : PyLD α) ops = .ok p)
    (hwt : p.weighted = true) (hpos : 0 < sumRat (p.items.map fun x => alGet p.weight 0 x))
    (x : α) (hx : x ∈ p.items) (k : Nat) :
    (∀ draws c, choose_random p draws = .ok (p, c) ↔ ∃ n, (toLD p).chooseRandom draws = some (c, n)) ∧
    Dist.mass ((toLD p).chooseDist k) (fun o => o == some x)
      = alGet p.weight 0 x / sumRat (p.items.map fun x => alGet p.weight 0 x) * (1 - (toLD p).rejProb ^ k) ∧
    0 ≤ (toLD p).rejProb ∧ (toLD p).rejProb < 1 := by
  obtain ⟨-, hR, hI⟩ := gen_history_inv b ops p hw ht h
  exact ⟨fun draws c => choose_random_iff p _ draws c hR hI,
    LD.ld_choose_law (toLD p) hI hwt hpos x hx k, LD.ld_rej_lt_one (toLD p) hI hwt hpos⟩

end GenLD

/-! ## non-vacuity: a concrete 5-operation weighted history (with a change of the heaviest element, which exercises
`_update_max_weight`, and a swap-remove of an inner element) -/
namespace GenLD.Example

def ops : List (LD.Op Nat) := [.ins 1 (some 3), .ins 2 (some 1), .upd 2 (some (1/2)), .rem 1, .ins 3 (some 2)]

def final : PyLD Nat :=
  { item_to_position := [(2, 0), (3, 1)], items := [2, 3], weighted := true, weight := [(2, 3/2), (3, 2)],
    max_weight := 2, total_weight_ := 7/2, max_weight_count := 1 }

/-- observable attributes of a run result (for `decide`), in two halves -/
def obs1 (r : Except String (PyLD Nat)) : Option (List (Nat × Nat) × List Nat × Bool) :=
  match r with
  | .ok s => some (s.item_to_position, s.items, s.weighted)
  | .error _ => none

def obs2 (r : Except String (PyLD Nat)) : Option (List (Nat × Rat) × Rat × Rat × Int) :=
  match r with
  | .ok s => some (s.weight, s.max_weight, s.total_weight_, s.max_weight_count)
  | .error _ => none

/-- the generated code runs on the history and reaches `final` -/
theorem run_obs : obs1 (applyOps (init true) ops) = obs1 (.ok final) ∧
    obs2 (applyOps (init true) ops) = obs2 (.ok final) := by decide +kernel

theorem run : applyOps (init true : PyLD Nat) ops = .ok final := by
  obtain ⟨h1, h2⟩ := run_obs
  cases hr : applyOps (init true : PyLD Nat) ops with
  | error e => rw [hr] at h1; simp [obs1] at h1
  | ok s =>
    rw [hr] at h1 h2
    obtain ⟨itp, items, wd, wt, mw, tw, mc⟩ := s
    simp only [obs1, obs2, final, Option.some.injEq, Prod.mk.injEq] at h1 h2
    obtain ⟨rfl, rfl, rfl⟩ := h1
    obtain ⟨rfl, rfl, rfl, rfl⟩ := h2
    rfl

theorem ops_nonneg : ∀ o ∈ ops, o.nonneg := by
  intro o ho
  simp only [ops, List.mem_cons, List.not_mem_nil, or_false] at ho
  rcases ho with rfl | rfl | rfl | rfl | rfl <;> simp [LD.Op.nonneg]

theorem ops_typed : ∀ o ∈ ops, opTyped true o = true := by decide

/-- the hand model runs on the same history (hypothesis of the forward theorems) -/
example : ((LD.empty true : LD Nat).applyOps ops).map (fun s => (s.items, s.weight, s.maxW, s.maxCnt, s.total))
    = some ([2, 3], [(2, 3/2), (3, 2)], 2, 1, 7/2) := by decide +kernel

/-- `gen_history_refines` instantiated: some generated run is related to the hand-model run -/
example : ∃ l' p', (LD.empty true : LD Nat).applyOps ops = some l' ∧
    applyOps (init true : PyLD Nat) ops = .ok p' ∧ R p' l' := by
  obtain ⟨hl, hR, -⟩ := gen_history_inv true ops final ops_nonneg ops_typed run
  obtain ⟨p', hp', hR'⟩ := gen_history_refines true ops _ ops_nonneg hl
  exact ⟨_, p', hl, hp', hR'⟩

/-- `gen_total` instantiated: the clock of the reached state is 3/2 + 2 -/
example : total_weight final = .ok (final, 7/2) := by
  rw [gen_total true ops final ops_nonneg ops_typed run]
  have : (if final.weighted = true then sumRat (final.items.map fun x => alGet final.weight 0 x)
      else (final.items.length : Rat)) = 7/2 := by decide +kernel
  rw [this]

/-- `gen_positions` instantiated -/
example : final.items.Nodup ∧ PyRT.alFind? final.item_to_position 3 = some 1 := by
  obtain ⟨h1, -, h3, -⟩ := gen_positions true ops final ops_nonneg ops_typed run
  exact ⟨h1, h3 3 (by decide)⟩

/-- `gen_remove_keyError` instantiated: removing the already removed item 1 raises KeyError -/
example : remove final 1 = .error "KeyError" :=
  (gen_remove_keyError final _ 1 (gen_history_inv true ops final ops_nonneg ops_typed run).2.1 (by decide)).1

/-- `gen_choose_round` / `gen_choose_tape` instantiated: item 2 (weight 3/2, threshold 3/4) is rejected by the draw
9/10, then item 3 (threshold 1) is accepted by the draw 1/2 -/
theorem choose_run : choose_random final [(0, 9/10), (1, 1/2)] = .ok (final, 3) := by
  rw [gen_choose_round true ops final ops_nonneg ops_typed run rfl 0 (9/10) _ 2 rfl,
    if_neg (by decide +kernel),
    gen_choose_round true ops final ops_nonneg ops_typed run rfl 1 (1/2) _ 3 rfl,
    if_pos (by decide +kernel)]

example : (3 : Nat) ∈ final.items ∧ 0 < alGet final.weight 0 3 :=
  have h := gen_choose_tape true ops final ops_nonneg ops_typed run [(0, 9/10), (1, 1/2)]
    (by decide +kernel) final 3 choose_run
  ⟨h.2.1, h.2.2 rfl⟩

/-- `gen_choose_law` instantiated: item 3 is selected within 2 rounds with probability (2 / (7/2)) (1 - (1/8)^2) -/
example : Dist.mass ((toLD final).chooseDist 2) (fun o => o == some 3) = 4/7 * (1 - (1/8)^2) := by
  have h := (gen_choose_law true ops final ops_nonneg ops_typed run rfl (by decide +kernel) 3 (by decide) 2).2.1
  rw [h]
  norm_num [toLD, final, LD.rejProb, LD.weightSum, LD.getW, alGet]

/-- single steps from the reached state: `gen_remove_refines` (swap-remove of the inner item 2),
`gen_update_refines` (a zero increment on the heaviest item 3: the double decrement of `max_weight_count`),
`gen_insert_refines` (replacement of the present item 2 = `remove` then `update`) -/
theorem final_R : R final (toLD final) ∧ LD.Inv (toLD final) :=
  (gen_history_inv true ops final ops_nonneg ops_typed run).2

example : ∃ l' p', (toLD final).remove 2 = some l' ∧ remove final 2 = .ok p' ∧ R p' l' := by
  obtain ⟨l', hl', -⟩ := LD.remove_shape (toLD final) 2 (by decide)
  obtain ⟨p', hp', hR'⟩ := gen_remove_refines final _ l' 2 final_R.1 final_R.2 hl'
  exact ⟨l', p', hl', hp', hR'⟩

example : obs1 (remove final 2) = some ([(3, 0)], [3], true) ∧
    obs2 (remove final 2) = some ([(3, 2)], 2, 2, 1) := by decide +kernel

example : ∃ l' p', (toLD final).update 3 (some 0) = some l' ∧ update final 3 (some 0) = .ok p' ∧ R p' l' := by
  obtain ⟨l', hl'⟩ := update_isSome (toLD final) 3 (some 0) rfl
  obtain ⟨p', hp', hR'⟩ := gen_update_refines final _ l' 3 (some 0) final_R.1 hl'
  exact ⟨l', p', hl', hp', hR'⟩

example : obs2 (update final 3 (some 0)) = some ([(2, 3/2), (3, 2)], 2, 7/2, -1) := by decide +kernel

example : ∃ l' p', (toLD final).insert 2 (some 5) = some l' ∧ insert final 2 (some 5) = .ok p' ∧ R p' l' := by
  obtain ⟨l', hl'⟩ := insert_isSome (toLD final) 2 (some 5) rfl
  obtain ⟨p', hp', hR'⟩ := gen_insert_refines final _ l' 2 (some 5) final_R.1 final_R.2 hl'
  exact ⟨l', p', hl', hp', hR'⟩

example : obs1 (insert final 2 (some 5)) = some ([(3, 0), (2, 1)], [3, 2], true) ∧
    obs2 (insert final 2 (some 5)) = some ([(3, 2), (2, 5)], 5, 7, 1) := by decide +kernel

/-- backward theorems instantiated on the same steps -/
example : ∃ l', (toLD final).remove 2 = some l' := by
  cases hr : remove final 2 with
  | error e => exact absurd (show obs1 (remove final 2) = none by rw [hr]; rfl) (by decide +kernel)
  | ok p' =>
    obtain ⟨l', hl', -⟩ := gen_remove_refines_back final p' _ 2 final_R.1 final_R.2 hr
    exact ⟨l', hl'⟩

/-- `gen_weight_bounds` instantiated -/
example : 0 ≤ alGet final.weight 0 2 ∧ alGet final.weight 0 2 ≤ final.max_weight :=
  (gen_weight_bounds true ops final ops_nonneg ops_typed run rfl 2 (by decide)).2

/-- `gen_total_weight_refines`, `gen_choose_refines` instantiated -/
example : total_weight final = .ok (final, (toLD final).totalWeight) :=
  gen_total_weight_refines final _ final_R.1

example : ∃ p', choose_random final [(0, 9/10), (1, 1/2)] = .ok (p', 3) ∧ R p' (toLD final) :=
  gen_choose_refines final _ _ 3 2 final_R.1 final_R.2 (by decide +kernel)

end GenLD.Example
