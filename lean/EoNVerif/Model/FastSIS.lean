import EoNVerif.Basic
import EoNVerif.Model.Tape
/-!
Model of `fast_SIS` (simulation.py 2744–2795) with `_process_trans_SIS_Markov` (2451–2488),
`_find_next_trans_SIS_Markov` (2622–2638) and `_process_rec_SIS_` (2646–2650), driven by a tape of `expovariate`
values.  The queue is a list in insertion order; `pop` takes the first event of minimal time (heapq's
(time, counter) order).
-/

inductive FEv
  | trans (src : Option Node) (tgt : Node)
  | recov (u : Node)
deriving DecidableEq, Repr

structure FItem where
  time : Rat
  ev : FEv
deriving DecidableEq, Repr

structure FSParams where
  nodes : List Node
  nbrs : Node → List Node
  transRate : Node → Node → Rat     -- trans_rate_fxn(u, v)
  recRate : Node → Rat              -- rec_rate_fxn(u)
  tmin : Rat
  tmax : Rat

structure FSState where
  inf : Node → Bool
  recTime : Node → ERat
  queue : List FItem
  log : List (Rat × Node × Bool)                 -- reversed status changes
  trans : List (Rat × Option Node × Node)        -- reversed

namespace FastSIS

def qadd (tmax : Rat) (q : List FItem) (t : Rat) (e : FEv) : List FItem := if t < tmax then q ++ [⟨t, e⟩] else q

def minTime : List FItem → Option Rat
  | [] => none
  | x :: xs => match minTime xs with
    | none => some x.time
    | some m => some (if x.time ≤ m then x.time else m)

def pop (q : List FItem) : Option (FItem × List FItem) :=
  match minTime q with
  | none => none
  | some m => match q.findIdx? (fun x => x.time == m) with
    | none => none
    | some i => match q[i]? with
      | some x => some (x, q.eraseIdx i)
      | none => none

/-- `_find_next_trans_SIS_Markov(Q, time, tau, source, target, status, rec_time, …)` -/
def findNext (P : FSParams) (s : FSState) (time : Rat) (rate : Rat) (src tgt : Node) : TM FSState := do
  if ERat.lt (s.recTime tgt) (s.recTime src) then
    if rate < 0 then TM.fail "EoNError" else
    let t1 : ERat ← (if rate > 0 then do let d ← TM.popExpo rate; pure (some (time + d)) else pure none)
    let t2 : ERat ← (if ERat.lt t1 (s.recTime tgt) then do
        let d ← TM.popExpo rate
        pure (ERat.add (s.recTime tgt) (some d))
      else pure t1)
    match t2 with
    | some tt =>
      if ERat.lt (some tt) (s.recTime src) ∧ tt < P.tmax then
        pure { s with queue := qadd P.tmax s.queue tt (FEv.trans (some src) tgt) }
      else pure s
    | none => pure s
  else pure s

def nbrLoop (P : FSParams) (time : Rat) (tgt : Node) : List Node → FSState → TM FSState
  | [], s => pure s
  | v :: rest, s => do
    let s' ← findNext P s time (P.transRate tgt v) tgt v
    nbrLoop P time tgt rest s'

def processTrans (P : FSParams) (s : FSState) (time : Rat) (src : Option Node) (tgt : Node) : TM FSState := do
  let s1 ← (if !s.inf tgt then do
      let rr := P.recRate tgt
      if rr < 0 then TM.fail "EoNError" else
      let recT : ERat ← (if rr > 0 then do let d ← TM.popExpo rr; pure (some (time + d)) else pure none)
      let sI : FSState := { s with inf := fset s.inf tgt true, recTime := fset s.recTime tgt recT,
                                   log := (time, tgt, true) :: s.log, trans := (time, src, tgt) :: s.trans }
      let sQ : FSState := match recT with
        | some rt => { sI with queue := qadd P.tmax sI.queue rt (FEv.recov tgt) }
        | none => sI
      nbrLoop P time tgt (P.nbrs tgt) sQ
    else pure s)
  match src with
  | none => pure s1
  | some u => findNext P s1 time (P.transRate u tgt) u tgt

def processRec (s : FSState) (time : Rat) (u : Node) : FSState :=
  { s with inf := fset s.inf u false, log := (time, u, false) :: s.log }

def loop (P : FSParams) : Nat → FSState → TM FSState
  | 0, _ => TM.fail "fuel"
  | fuel + 1, s =>
    match pop s.queue with
    | none => pure s
    | some (x, q) => do
      let s0 := { s with queue := q }
      let s1 ← (match x.ev with
        | .trans src tgt => processTrans P s0 x.time src tgt
        | .recov u => pure (processRec s0 x.time u))
      loop P fuel s1

def init (P : FSParams) (infs : List Node) : FSState :=
  { inf := fun _ => false, recTime := fun _ => some (P.tmin - 1),
    queue := infs.foldl (fun q u => qadd P.tmax q P.tmin (FEv.trans none u)) [],
    log := [], trans := [] }

def run (P : FSParams) (infs : List Node) (fuel : Nat) : TM FSState := loop P fuel (init P infs)

end FastSIS
