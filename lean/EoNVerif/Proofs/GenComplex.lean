import EoNVerif.Gen.ComplexGen
import EoNVerif.Proofs.GenLD
import EoNVerif.Proofs.Complex
/-!
Refinement (C15b): the Lean code GENERATED statement by statement from `Gillespie_complex_contagion`
(`EoNVerif/Gen/ComplexGen.lean`, namespace `GenCC`) and the hand-written model (`EoNVerif/Model/Complex.lean`)
compute related results on EVERY tape state: both fail, or both return, with the same final tape state (same
scripted draws consumed, same calls logged) and related states (`GenCC.Rel`).
-/

/-! ### evaluation lemmas for the tape monad -/
namespace TM
variable {α β : Type}

theorem bind_of_ok {m : TM α} {f : α → TM β} {ts ts1 : TapeSt} {a : α} (h : m ts = .ok (a, ts1)) :
    (m >>= f) ts = f a ts1 := by
  simp only [bind, StateT.bind, h]; rfl

theorem bind_of_err {m : TM α} {f : α → TM β} {ts : TapeSt} {e : String} (h : m ts = .error e) :
    (m >>= f) ts = .error e := by
  simp only [bind, StateT.bind, h]; rfl

theorem pure_apply (a : α) (ts : TapeSt) : (pure a : TM α) ts = .ok (a, ts) := rfl

theorem fail_apply (msg : String) (ts : TapeSt) : (TM.fail msg : TM α) ts = .error msg := rfl

end TM

namespace PyTM
variable {α β : Type}

theorem liftE_ok (a : α) : liftE (Except.ok a : Except String α) = (pure a : TM α) := rfl

theorem liftE_err_apply (e : String) (ts : TapeSt) : liftE (Except.error e : Except String α) ts = .error e := rfl

theorem liftE_err_bind (e : String) (f : α → TM β) (ts : TapeSt) :
    (liftE (Except.error e : Except String α) >>= f) ts = .error e :=
  TM.bind_of_err (liftE_err_apply e ts)

end PyTM

/-! ### `choose_random`: generated tape version against the model's `chooseTM` -/
namespace GenLD
variable {α : Type} [DecidableEq α]

/-- on every tape state the generated `choose_random_tm` and the model's `chooseTM` fail together or return the same
item, the same tape state, and the generated state unchanged.  (When `max_weight = 0` the generated code pops the
uniform draw before the division raises, the model raises first: both fail.) -/
theorem choose_bisim (enc : α → List Nat) (p : PyLD α) (l : LD α) (hR : R p l) (hI : LD.Inv l) (fuel : Nat)
    (ts : TapeSt) :
    (∃ e1 e2, choose_random_tm enc p fuel ts = .error e1 ∧ Gillespie.chooseTM enc l fuel ts = .error e2 ∧
      e1 ≠ "KeyError") ∨
    (∃ c ts1, choose_random_tm enc p fuel ts = .ok ((p, c), ts1) ∧ Gillespie.chooseTM enc l fuel ts = .ok (c, ts1)) := by
  obtain ⟨itp, items, wd, wt, mw, tw, mc⟩ := p
  obtain ⟨lwd, litems, lwt, lmw, lmc, ltw⟩ := l
  obtain ⟨h1, h2, h3, h4, h5, h6, h7, h8⟩ := hR
  simp only at h1 h2 h3 h4 h5 h6 h7 h8
  subst h1 h2 h3 h4 h5 h6
  induction fuel generalizing ts with
  | zero => exact Or.inl ⟨_, _, rfl, rfl, by decide⟩
  | succ fuel ih =>
    rw [choose_random_tm, Gillespie.chooseTM]
    cases hpc : TM.popChoice (items.map enc) ts with
    | error e =>
      refine Or.inl ⟨e, e, ?_, TM.bind_of_err hpc, TM.popChoice_err _ _ _ hpc⟩
      cases wd
      · simp only [Bool.false_eq_true, if_false]; exact TM.bind_of_err hpc
      · simp only [if_true]; exact TM.bind_of_err hpc
    | ok q =>
      obtain ⟨i, ts1⟩ := q
      rw [TM.bind_of_ok hpc]
      cases hi : items[i]? with
      | none =>
        refine Or.inl ⟨"IndexError", _, ?_, rfl, by decide⟩
        cases wd
        · simp only [Bool.false_eq_true, if_false]
          rw [TM.bind_of_ok hpc]
          simp only [PyRT.listChoice, hi]
          exact PyTM.liftE_err_bind _ _ _
        · simp only [if_true]
          rw [TM.bind_of_ok hpc]
          simp only [PyRT.listChoice, hi]
          exact PyTM.liftE_err_bind _ _ _
      | some c =>
        have hmem : c ∈ items := List.mem_of_getElem? hi
        have hlc : PyRT.listChoice items i = .ok c := by simp only [PyRT.listChoice, hi]; rfl
        cases wd with
        | false =>
          refine Or.inr ⟨c, ts1, ?_, rfl⟩
          simp only [Bool.false_eq_true, if_false]
          rw [TM.bind_of_ok hpc, hlc, PyTM.liftE_ok, pure_bind]
          rfl
        | true =>
          have htouch : PyRT.ddTouch wt c = wt := ddTouch_of_alHas _ _ ((hI.keys rfl c).2 hmem)
          simp only [if_true, Bool.not_true, Bool.false_eq_true, if_false]
          rw [TM.bind_of_ok hpc, hlc, PyTM.liftE_ok, pure_bind]
          by_cases hm : mw = 0
          · subst hm
            simp only [if_true]
            cases hpu : TM.popUnif ts1 with
            | error e => exact Or.inl ⟨e, _, TM.bind_of_err hpu, rfl, TM.popUnif_err _ _ hpu⟩
            | ok q2 =>
              obtain ⟨r, ts2⟩ := q2
              refine Or.inl ⟨"ZeroDivisionError", _, ?_, rfl, by decide⟩
              rw [TM.bind_of_ok hpu]
              simp only [PyTM.fdiv, if_true]
              exact PyTM.liftE_err_bind _ _ _
          · simp only [hm, if_false]
            cases hpu : TM.popUnif ts1 with
            | error e => exact Or.inl ⟨e, e, TM.bind_of_err hpu, TM.bind_of_err hpu, TM.popUnif_err _ _ hpu⟩
            | ok q2 =>
              obtain ⟨r, ts2⟩ := q2
              rw [TM.bind_of_ok hpu, TM.bind_of_ok hpu]
              have hdiv : PyTM.fdiv (alGet wt 0 c) mw = .ok (alGet wt 0 c / mw) := by
                simp only [PyTM.fdiv, hm, if_false]; rfl
              simp only [htouch, hdiv, PyTM.liftE_ok, pure_bind]
              have hthr : LD.acceptThr ⟨true, items, wt, mw, mc, tw⟩ c = alGet wt 0 c / mw := rfl
              rw [hthr]
              by_cases hacc : r < alGet wt 0 c / mw
              · simp only [hacc, if_true]
                exact Or.inr ⟨c, ts2, rfl, rfl⟩
              · simp only [hacc, if_false]
                exact ih ts2

end GenLD

/-! ### association lists: keys, extensionality of reads -/
section ALmore
variable {κ ν : Type} [DecidableEq κ]

theorem alKeys_alSet_of_has (d : List (κ × ν)) (x : κ) (v : ν) (h : alHas d x = true) :
    alKeys (alSet d x v) = alKeys d := by
  induction d with
  | nil => simp [alHas] at h
  | cons p t ih =>
    obtain ⟨k, w⟩ := p
    by_cases hk : k = x
    · simp [alSet, hk, alKeys]
    · simp only [alHas, hk, if_false] at h
      have := ih h
      simp only [alKeys] at this
      simp [alSet, hk, alKeys, this]

theorem alSet_of_not_has (d : List (κ × ν)) (x : κ) (v : ν) (h : alHas d x = false) :
    alSet d x v = d ++ [(x, v)] := by
  induction d with
  | nil => rfl
  | cons p t ih =>
    obtain ⟨k, w⟩ := p
    by_cases hk : k = x
    · simp [alHas, hk] at h
    · simp only [alHas, hk, if_false] at h
      simp [alSet, hk, ih h]

theorem alHas_iff_mem_keys (d : List (κ × ν)) (x : κ) : alHas d x = true ↔ x ∈ alKeys d :=
  (mem_alKeys_iff d x).symm

theorem dictGet_of_has (d : List (κ × ν)) (x : κ) (dflt : ν) (h : alHas d x = true) :
    PyRT.dictGet d x = .ok (alGet d dflt x) := by
  simp only [PyRT.dictGet, GenLD.alFind?_of_alHas d x dflt h]; rfl

end ALmore

namespace GenCC
section Cols
variable {τ : Type} [DecidableEq τ]

/-- `col[-1]` of a count column -/
def lastI (c : List Int) : Int := c.getLastD 0

theorem listLast_of_ne (c : List Int) (h : c ≠ []) : PyTM.listLast c = .ok (lastI c) := by
  unfold PyTM.listLast lastI
  cases hh : c.getLast? with
  | none => exact absurd (List.getLast?_eq_none_iff.1 hh) h
  | some x => simp [List.getLastD_eq_getLast?, hh]; rfl

theorem lastI_concat (c : List Int) (a : Int) : lastI (c ++ [a]) = a := by
  simp [lastI, List.getLastD_eq_getLast?]

theorem lastI_reverse (c : List Int) : lastI c.reverse = c.headD 0 := by
  cases c with
  | nil => rfl
  | cons a t => simp [lastI, List.getLastD_eq_getLast?]

/-- `data[x].append(data[x][-1])` -/
def colDup (d : List (τ × List Int)) (x : τ) : List (τ × List Int) :=
  alSet d x (alGet d [] x ++ [lastI (alGet d [] x)])

/-- `data[x][-1] = f (data[x][-1])` -/
def colEdit (d : List (τ × List Int)) (x : τ) (f : Int → Int) : List (τ × List Int) :=
  alSet d x ((alGet d [] x).dropLast ++ [f (lastI (alGet d [] x))])

theorem alKeys_foldl_colDup (ks : List τ) (d : List (τ × List Int)) (h : ∀ k ∈ ks, k ∈ alKeys d) :
    alKeys (ks.foldl colDup d) = alKeys d := by
  induction ks generalizing d with
  | nil => rfl
  | cons k ks ih =>
    have hk : alKeys (colDup d k) = alKeys d :=
      alKeys_alSet_of_has _ _ _ ((alHas_iff_mem_keys d k).2 (h k (by simp)))
    rw [List.foldl_cons, ih _ (fun k' hk' => by rw [hk]; exact h k' (by simp [hk'])), hk]

theorem alGet_foldl_colDup (ks : List τ) (hnd : ks.Nodup) (d : List (τ × List Int)) (x : τ) :
    alGet (ks.foldl colDup d) [] x =
      if x ∈ ks then alGet d [] x ++ [lastI (alGet d [] x)] else alGet d [] x := by
  induction ks generalizing d with
  | nil => simp
  | cons k ks ih =>
    rw [List.nodup_cons] at hnd
    rw [List.foldl_cons, ih hnd.2]
    by_cases hxk : x = k
    · subst hxk
      simp only [hnd.1, if_false, List.mem_cons, true_or, if_true]
      exact alGet_alSet_self _ _ _ _
    · have : alGet (colDup d k) [] x = alGet d [] x := alGet_alSet_ne _ _ _ _ _ hxk
      simp only [this, List.mem_cons, hxk, false_or]

theorem alGet_colEdit_if (ret : List τ) (d : List (τ × List Int)) (k : τ) (f : Int → Int) (x : τ) (hx : x ∈ ret) :
    alGet (if k ∈ ret then colEdit d k f else d) [] x =
      if k = x then (alGet d [] x).dropLast ++ [f (lastI (alGet d [] x))] else alGet d [] x := by
  by_cases hk : k = x
  · subst hk
    simp only [hx, if_true]
    exact alGet_alSet_self _ _ _ _
  · simp only [hk, if_false]
    split
    · exact alGet_alSet_ne _ _ _ _ _ (Ne.symm hk)
    · rfl

theorem alKeys_colEdit_if (ret : List τ) (d : List (τ × List Int)) (k : τ) (f : Int → Int) (hk : alKeys d = ret) :
    alKeys (if k ∈ ret then colEdit d k f else d) = ret := by
  split
  · rename_i h
    rw [colEdit, alKeys_alSet_of_has _ _ _ ((alHas_iff_mem_keys d k).2 (hk ▸ h)), hk]
  · exact hk

/-- the generated code's count table `d` (dict status → column, in insertion order) against the model's list of
reversed columns `cs` (one per entry of `return_statuses`) -/
structure DRel (ret : List τ) (d : List (τ × List Int)) (cs : List (List Int)) : Prop where
  keys : alKeys d = ret
  len : cs.length = ret.length
  cols : ∀ i (h : i < ret.length), alGet d [] (ret[i]) = (cs.getD i []).reverse
  ne : ∀ c ∈ cs, c ≠ []

/-- the three statements of the generated loop on the count table: duplicate every last entry, then `-1` on the old
status and `+1` on the new status (when they are reported) -/
def evData (ret : List τ) (d : List (τ × List Int)) (old new : τ) : List (τ × List Int) :=
  let d1 := ret.foldl colDup d
  let d2 := if old ∈ ret then colEdit d1 old (· - 1) else d1
  if new ∈ ret then colEdit d2 new (· + 1) else d2

/-- **column lemma**: the fold-then-edit-in-place of the generated code builds the columns the model builds with one
`map` -/
theorem evData_rel (ret : List τ) (hnd : ret.Nodup) (d : List (τ × List Int)) (cs : List (List Int))
    (h : DRel ret d cs) (old new : τ) :
    DRel ret (evData ret d old new) ((List.zip ret cs).map fun (x, col) =>
      let v := col.headD 0
      let v := if old = x then v - 1 else v
      let v := if new = x then v + 1 else v
      v :: col) := by
  have hk1 : alKeys (ret.foldl colDup d) = ret := by
    rw [alKeys_foldl_colDup ret d (fun k hk => by rw [h.keys]; exact hk), h.keys]
  refine ⟨?_, by simp [h.len], ?_, ?_⟩
  · exact alKeys_colEdit_if ret _ new _ (alKeys_colEdit_if ret _ old _ hk1)
  · intro i hi
    have hi' : i < cs.length := h.len ▸ hi
    have hx : ret[i] ∈ ret := List.getElem_mem hi
    have hc := h.cols i hi
    have hdat : cs.getD i [] = cs[i] := by simp [List.getD_eq_getElem?_getD, hi']
    rw [hdat] at hc
    unfold evData
    dsimp only
    rw [alGet_colEdit_if ret _ new _ _ hx, alGet_colEdit_if ret _ old _ _ hx, alGet_foldl_colDup ret hnd, if_pos hx, hc]
    have hm : ((List.zip ret cs).map fun (x, col) =>
        let v := col.headD 0
        let v := if old = x then v - 1 else v
        let v := if new = x then v + 1 else v
        v :: col).getD i [] =
        (if new = ret[i] then (if old = ret[i] then cs[i].headD 0 - 1 else cs[i].headD 0) + 1
          else (if old = ret[i] then cs[i].headD 0 - 1 else cs[i].headD 0)) :: cs[i] := by
      simp [List.getD_eq_getElem?_getD, hi, hi']
    rw [hm]
    by_cases h1 : new = ret[i] <;> by_cases h2 : old = ret[i] <;>
      simp [h1, h2, lastI_concat, lastI_reverse]
  · intro c hc
    simp only [List.mem_map] at hc
    obtain ⟨⟨x, col⟩, -, rfl⟩ := hc
    simp

theorem DRel.get_ne {ret : List τ} {d : List (τ × List Int)} {cs : List (List Int)} (h : DRel ret d cs)
    (x : τ) (hx : x ∈ ret) : alGet d [] x ≠ [] := by
  obtain ⟨i, hi, rfl⟩ := List.getElem_of_mem hx
  have hi' : i < cs.length := h.len ▸ hi
  rw [h.cols i hi]
  have hdat : cs.getD i [] = cs[i] := by simp [List.getD_eq_getElem?_getD, hi']
  rw [hdat]
  have := h.ne cs[i] (List.getElem_mem hi')
  simpa using this

theorem evData_side1 {ret : List τ} {d : List (τ × List Int)} {cs : List (List Int)} (h : DRel ret d cs)
    (hnd : ret.Nodup) (x : τ) (hx : x ∈ ret) :
    x ∈ alKeys (ret.foldl colDup d) ∧ alGet (ret.foldl colDup d) [] x ≠ [] := by
  constructor
  · rw [alKeys_foldl_colDup ret d (fun k hk => by rw [h.keys]; exact hk), h.keys]; exact hx
  · rw [alGet_foldl_colDup ret hnd, if_pos hx]; simp

theorem evData_side2 {ret : List τ} {d : List (τ × List Int)} {cs : List (List Int)} (h : DRel ret d cs)
    (hnd : ret.Nodup) (old : τ) (f : Int → Int) (x : τ) (hx : x ∈ ret) :
    x ∈ alKeys (if old ∈ ret then colEdit (ret.foldl colDup d) old f else ret.foldl colDup d) ∧
      alGet (if old ∈ ret then colEdit (ret.foldl colDup d) old f else ret.foldl colDup d) [] x ≠ [] := by
  have hk1 : alKeys (ret.foldl colDup d) = ret := by
    rw [alKeys_foldl_colDup ret d (fun k hk => by rw [h.keys]; exact hk), h.keys]
  constructor
  · rw [alKeys_colEdit_if ret _ old f hk1]; exact hx
  · rw [alGet_colEdit_if ret _ old f x hx]
    split
    · simp
    · exact (evData_side1 h hnd x hx).2

end Cols
end GenCC
/-! ### folds in the tape monad -/
namespace TM

theorem foldlM_pure_of {β α : Type} (body : β → α → TM β) (g : β → α → β) (I : β → Prop) (l : List α) (b : β)
    (hb : I b) (h : ∀ b a, I b → a ∈ l → body b a = pure (g b a) ∧ I (g b a)) :
    l.foldlM body b = pure (l.foldl g b) ∧ I (l.foldl g b) := by
  induction l generalizing b with
  | nil => exact ⟨rfl, hb⟩
  | cons a t ih =>
    obtain ⟨h1, h2⟩ := h b a hb (by simp)
    rw [List.foldlM_cons, h1, pure_bind, List.foldl_cons]
    exact ih (g b a) h2 (fun b' a' hb' ha' => h b' a' hb' (by simp [ha']))

end TM

namespace GenCC
variable {τ : Type} [DecidableEq τ]

/-- the model parameters read off the arguments of the generated function -/
def toP (A : PyTM.CArgs τ) : CCParams τ :=
  { nodes := A.nodes, rate := A.rate, choose := A.choose, infl := A.infl, ret := A.ret }

/-- the generated function and the model are run on the same arguments -/
structure Agree (A : PyTM.CArgs τ) (P : CCParams τ) (ic : Node → τ) (tmin : Rat) (tmax : ERat) (cfuel : Nat) :
    Prop where
  nodes : A.nodes = P.nodes
  ic : A.ic = ic
  rate : A.rate = P.rate
  choose : A.choose = P.choose
  infl : A.infl = P.infl
  ret : A.ret = P.ret
  tmin : A.tmin = tmin
  tmax : A.tmax = tmax
  cfuel : A.cfuel = cfuel

omit [DecidableEq τ] in
theorem Agree.toP_eq {A : PyTM.CArgs τ} {P : CCParams τ} {ic : Node → τ} {tmin : Rat} {tmax : ERat} {cfuel : Nat}
    (h : Agree A P ic tmin tmax cfuel) : P = toP A := by
  obtain ⟨n, r, c, i, rt⟩ := P
  obtain ⟨h1, -, h3, h4, h5, h6, -, -, -⟩ := h
  simp only at h1 h3 h4 h5 h6
  subst h1 h3 h4 h5 h6
  rfl

/-- **simulation relation** between the locals of the generated function and the state of the model: same status map,
related `_ListDict_`s, the model's reversed time list is the generated list, and the model's reversed count columns
are the values of the generated dict `data`, whose keys are `return_statuses` in order -/
structure Rel (A : PyTM.CArgs τ) (σ : Loc τ) (s : CCState τ) : Prop where
  status : σ.status = s.status
  ld : GenLD.R σ.nodes_by_rate s.ld
  times : σ.times = s.times.reverse.map some
  data : DRel A.ret σ.data s.data

/-- results of the two programs on one tape state: both raise (neither raises `KeyError`), or both return with the same
tape state and related states -/
def ResRel (A : PyTM.CArgs τ) : Except String (Loc τ × TapeSt) → Except String (CCState τ × TapeSt) → Prop
  | .ok (σ, t1), .ok (s, t2) => t1 = t2 ∧ Rel A σ s
  | .error e1, .error e2 => e1 ≠ "KeyError" ∧ e2 ≠ "KeyError"
  | _, _ => False

theorem ResRel.of_err {A : PyTM.CArgs τ} {x : Except String (Loc τ × TapeSt)} {y : Except String (CCState τ × TapeSt)}
    {e1 e2 : String} (hx : x = .error e1) (hy : y = .error e2) (h1 : e1 ≠ "KeyError") (h2 : e2 ≠ "KeyError") :
    ResRel A x y := by
  subst hx hy; exact ⟨h1, h2⟩

theorem ResRel.fwd {A : PyTM.CArgs τ} {x : Except String (Loc τ × TapeSt)} {y : Except String (CCState τ × TapeSt)}
    (h : ResRel A x y) {s : CCState τ} {ts' : TapeSt} (hy : y = .ok (s, ts')) :
    ∃ σ, x = .ok (σ, ts') ∧ Rel A σ s := by
  subst hy
  cases x with
  | error e => exact absurd h (by simp [ResRel])
  | ok q =>
    obtain ⟨σ, t1⟩ := q
    obtain ⟨rfl, hr⟩ := h
    exact ⟨σ, rfl, hr⟩

theorem ResRel.bwd {A : PyTM.CArgs τ} {x : Except String (Loc τ × TapeSt)} {y : Except String (CCState τ × TapeSt)}
    (h : ResRel A x y) {σ : Loc τ} {ts' : TapeSt} (hx : x = .ok (σ, ts')) :
    ∃ s, y = .ok (s, ts') ∧ Rel A σ s := by
  subst hx
  cases y with
  | error e => exact absurd h (by simp [ResRel])
  | ok q =>
    obtain ⟨s, t1⟩ := q
    obtain ⟨rfl, hr⟩ := h
    exact ⟨s, rfl, hr⟩

/-! ### batches of inserts -/

/-- the generated `for … : nodes_by_rate.insert(u, weight = rate(u))` as a function (a raised exception stops it) -/
def insAll (rate : (Node → τ) → Node → Rat) (st : Node → τ) : List Node → GenLD.PyLD Node → GenLD.PyLD Node
  | [], p => p
  | u :: l, p =>
    match GenLD.insert p u (some (rate st u)) with
    | .ok p' => insAll rate st l p'
    | .error _ => p

omit [DecidableEq τ] in
theorem insAll_sim (A : PyTM.CArgs τ) (st : Node → τ) (hnn : ∀ u, 0 ≤ A.rate st u) (l : List Node)
    (p : GenLD.PyLD Node) (ld : LD Node) (hR : GenLD.R p ld) (hI : LD.Inv ld) (hw : ld.weighted = true) :
    ∃ ld', Complex.insertAll (toP A) st l ld = some ld' ∧ GenLD.R (insAll A.rate st l p) ld' ∧ LD.Inv ld' ∧
      ld'.weighted = true ∧ ∀ y ∈ ld'.items, y ∈ ld.items ∨ y ∈ l := by
  induction l generalizing p ld with
  | nil => exact ⟨ld, rfl, hR, hI, hw, fun y hy => Or.inl hy⟩
  | cons u l ih =>
    obtain ⟨ld1, hs1, hinv1, hwt1, hmem1, -⟩ := LD.insert_spec ld hI hw u (A.rate st u) (hnn u)
    obtain ⟨p1, hp1, hR1⟩ := GenLD.insert_sim p ld ld1 u _ hR hI hs1
    obtain ⟨ld', h1, h2, h3, h4, h5⟩ := ih p1 ld1 hR1 hinv1 hwt1
    refine ⟨ld', ?_, ?_, h3, h4, ?_⟩
    · simp only [Complex.insertAll, toP]
      have hs1' : ld.insert u (some (A.rate st u)) = some ld1 := hs1
      rw [hs1']; exact h1
    · simp only [insAll, hp1]; exact h2
    · intro y hy
      rcases h5 y hy with h6 | h6
      · rcases (hmem1 y).1 h6 with h7 | h7
        · exact Or.inl h7.2
        · exact Or.inr (by simp [h7.1])
      · exact Or.inr (by simp [h6])

omit [DecidableEq τ] in
theorem insFold_eq (A : PyTM.CArgs τ) (hnn : ∀ st u, 0 ≤ A.rate st u) (body : Loc τ → Node → TM (Loc τ))
    (hbody : ∀ σ u, body σ u =
      PyTM.liftE (GenLD.insert σ.nodes_by_rate u (some (A.rate σ.status u))) >>= fun l =>
        pure { σ with nodes_by_rate := l })
    (l : List Node) (σ : Loc τ) (ld : LD Node) (hR : GenLD.R σ.nodes_by_rate ld) (hI : LD.Inv ld)
    (hw : ld.weighted = true) :
    l.foldlM body σ = pure { σ with nodes_by_rate := insAll A.rate σ.status l σ.nodes_by_rate } := by
  induction l generalizing σ ld with
  | nil => rfl
  | cons u l ih =>
    obtain ⟨ld1, hs1, hinv1, hwt1, -⟩ := LD.insert_spec ld hI hw u (A.rate σ.status u) (hnn _ u)
    obtain ⟨p1, hp1, hR1⟩ := GenLD.insert_sim σ.nodes_by_rate ld ld1 u _ hR hI hs1
    rw [List.foldlM_cons, hbody, hp1, PyTM.liftE_ok, pure_bind, pure_bind,
      ih { σ with nodes_by_rate := p1 } ld1 hR1 hinv1 hwt1]
    simp only [insAll, hp1]

omit [DecidableEq τ] in
theorem initFold_eq (A : PyTM.CArgs τ) (hnn : ∀ st u, 0 ≤ A.rate st u) (body : Loc τ → Node → TM (Loc τ))
    (hbody : ∀ σ u, body σ u =
      (if decide (A.rate σ.status u > (0 : Rat)) = true then
          PyTM.liftE (GenLD.insert σ.nodes_by_rate u (some (A.rate σ.status u))) >>= fun l =>
            pure { σ with nodes_by_rate := l }
        else pure σ))
    (l : List Node) (σ : Loc τ) (ld : LD Node) (hR : GenLD.R σ.nodes_by_rate ld) (hI : LD.Inv ld)
    (hw : ld.weighted = true) :
    l.foldlM body σ = pure { σ with
      nodes_by_rate := insAll A.rate σ.status (l.filter fun u => decide (A.rate σ.status u > 0)) σ.nodes_by_rate } := by
  induction l generalizing σ ld with
  | nil => rfl
  | cons u l ih =>
    by_cases hu : A.rate σ.status u > 0
    · obtain ⟨ld1, hs1, hinv1, hwt1, -⟩ := LD.insert_spec ld hI hw u (A.rate σ.status u) (hnn _ u)
      obtain ⟨p1, hp1, hR1⟩ := GenLD.insert_sim σ.nodes_by_rate ld ld1 u _ hR hI hs1
      rw [List.foldlM_cons, hbody]
      simp only [hu, decide_true, if_true]
      rw [hp1, PyTM.liftE_ok, pure_bind, pure_bind,
        ih { σ with nodes_by_rate := p1 } ld1 hR1 hinv1 hwt1]
      simp only [List.filter_cons, hu, decide_true, if_true, insAll, hp1]
    · rw [List.foldlM_cons, hbody]
      simp only [hu, decide_false, Bool.false_eq_true, if_false]
      rw [pure_bind, ih σ ld hR hI hw]
      simp only [List.filter_cons, hu, decide_false, Bool.false_eq_true, if_false]

/-! ### the statements of one loop iteration -/

theorem dictGet_alSet_self {κ ν : Type} [DecidableEq κ] (d : List (κ × ν)) (x : κ) (v : ν) :
    PyRT.dictGet (alSet d x v) x = .ok v := by
  simp only [PyRT.dictGet, GenLD.alFind?_alSet, if_true]; rfl

/-- `for x in data: data[x].append(data[x][-1])` -/
theorem dataFold_eq (body : Loc τ → τ → TM (Loc τ))
    (hbody : ∀ σ x, body σ x =
      PyTM.liftE (PyRT.dictGet σ.data x) >>= fun col_11 => PyTM.liftE (PyTM.listLast col_11) >>= fun v_12 =>
        PyTM.liftE (PyRT.dictGet σ.data x) >>= fun col_13 =>
          pure { σ with data := alSet σ.data x (col_13 ++ [v_12]) })
    (ks : List τ) (σ : Loc τ) (hks : ∀ k ∈ ks, k ∈ alKeys σ.data)
    (hne : ∀ k ∈ alKeys σ.data, alGet σ.data [] k ≠ []) :
    ks.foldlM body σ = pure { σ with data := ks.foldl colDup σ.data } := by
  induction ks generalizing σ with
  | nil => rfl
  | cons k ks ih =>
    have hk : alHas σ.data k = true := (alHas_iff_mem_keys _ _).2 (hks k (by simp))
    have hkeys : alKeys (colDup σ.data k) = alKeys σ.data := alKeys_alSet_of_has _ _ _ hk
    rw [List.foldlM_cons, hbody, dictGet_of_has σ.data k [] hk]
    simp only [PyTM.liftE_ok, pure_bind, listLast_of_ne _ (hne k (hks k (by simp)))]
    have := ih { σ with data := colDup σ.data k }
      (fun k' hk' => by rw [hkeys]; exact hks k' (by simp [hk']))
      (fun k' hk' => by
        rw [hkeys] at hk'
        by_cases hkk : k' = k
        · subst hkk
          show alGet (colDup σ.data k') [] k' ≠ []
          rw [colDup, alGet_alSet_self]; simp
        · show alGet (colDup σ.data k) [] k' ≠ []
          rw [colDup, alGet_alSet_ne _ _ _ _ _ hkk]; exact hne k' hk')
    exact this

/-- `if x in return_statuses: data[x][-1] = f(data[x][-1])` -/
theorem edit_if_eval (c : Prop) [Decidable c] (a : Node → τ) (b : List ERat) (t e : ERat) (n : GenLD.PyLD Node)
    (h : List (Node × (List ERat × List τ))) (d : List (τ × List Int)) (x : τ) (f : Int → Int)
    (hx : c → x ∈ alKeys d ∧ alGet d [] x ≠ []) :
    (if c then
        PyTM.liftE (PyRT.dictGet d x) >>= fun col => PyTM.liftE (PyTM.listLast col) >>= fun v =>
          (pure (Loc.mk a b t e (alSet d x (col.dropLast ++ [f v])) n h) : TM (Loc τ))
      else pure (Loc.mk a b t e d n h)) =
    pure (Loc.mk a b t e (if c then colEdit d x f else d) n h) := by
  by_cases hc : c
  · obtain ⟨h1, h2⟩ := hx hc
    simp only [hc, if_true, dictGet_of_has d x [] ((alHas_iff_mem_keys _ _).2 h1), listLast_of_ne _ h2,
      PyTM.liftE_ok, pure_bind, colEdit]
  · simp only [hc, if_false]

omit [DecidableEq τ] in
/-- the two full-data statements `node_history[node][0].append(t)` / `node_history[node][1].append(new_status)` -/
theorem full_if_eval (c : Prop) [Decidable c] (a : Node → τ) (b : List ERat) (t e : ERat) (n : GenLD.PyLD Node)
    (d : List (τ × List Int)) (nh : List (Node × (List ERat × List τ))) (node : Node)
    (F G : (List ERat × List τ) → (List ERat × List τ)) (hx : c → alHas nh node = true) :
    (if c then
        PyTM.liftE (PyRT.dictGet nh node) >>= fun h18 =>
          PyTM.liftE (PyRT.dictGet (alSet nh node (F h18)) node) >>= fun h19 =>
            (pure (Loc.mk a b t e d n (alSet (alSet nh node (F h18)) node (G h19))) : TM (Loc τ))
      else pure (Loc.mk a b t e d n nh)) =
    pure (Loc.mk a b t e d n
      (if c then alSet (alSet nh node (F (alGet nh ([], []) node))) node (G (F (alGet nh ([], []) node))) else nh)) := by
  by_cases hc : c
  · simp only [hc, if_true, dictGet_of_has nh node ([], []) (hx hc), dictGet_alSet_self, PyTM.liftE_ok, pure_bind]
  · simp only [hc, if_false]

/-! ### the loop -/

/-- hypotheses on the user callbacks (part of `Complex.WF`) and on `return_statuses` -/
structure Hyp (A : PyTM.CArgs τ) : Prop where
  rate_nonneg : ∀ st u, 0 ≤ A.rate st u
  infl_mem : ∀ st u, ∀ x ∈ A.infl st u, x ∈ A.nodes
  ret_nodup : A.ret.Nodup

/-- loop invariant of the simulation -/
structure LInv (A : PyTM.CArgs τ) (σ : Loc τ) (s : CCState τ) : Prop where
  rel : Rel A σ s
  ldInv : LD.Inv s.ld
  weighted : s.ld.weighted = true
  items_mem : ∀ x ∈ s.ld.items, x ∈ A.nodes
  hist : A.full = true → ∀ u ∈ A.nodes, alHas σ.node_history u = true

/-- the invariant after one event (whatever the next clock value) -/
theorem LInv_event (A : PyTM.CArgs τ) (hA : Hyp A) (s : CCState τ) (node : Node) (tv : Rat) (tms : List ERat)
    (data : List (τ × List Int)) (htm : tms = List.map some s.times.reverse) (hdt : DRel A.ret data s.data)
    (p2 : GenLD.PyLD Node) (ld2 : LD Node) (hR2 : GenLD.R p2 ld2) (hinv2 : LD.Inv ld2) (hwt2 : ld2.weighted = true)
    (hit : ∀ y ∈ ld2.items, y ∈ A.nodes) (nh' : List (Node × (List ERat × List τ)))
    (hh : A.full = true → ∀ u ∈ A.nodes, alHas nh' u = true) (t' dl' : ERat)
    (lg : List (Rat × Node × τ)) :
    LInv A
      { status := fset s.status node (A.choose s.status node), times := tms ++ [some tv], t := t', delay := dl',
        data := evData A.ret data (s.status node) (A.choose s.status node), nodes_by_rate := p2,
        node_history := nh' }
      { status := fset s.status node (A.choose s.status node), ld := ld2, times := tv :: s.times,
        data := (List.zip A.ret s.data).map fun (x, col) =>
          let v := col.headD 0
          let v := if s.status node = x then v - 1 else v
          let v := if A.choose s.status node = x then v + 1 else v
          v :: col,
        log := lg } := by
  refine ⟨⟨rfl, hR2, ?_, evData_rel A.ret hA.ret_nodup data s.data hdt _ _⟩, hinv2, hwt2, hit, hh⟩
  simp [htm]

theorem loop_bisim (A : PyTM.CArgs τ) (hA : Hyp A) (fuel : Nat) (σ : Loc τ) (s : CCState τ) (ts : TapeSt)
    (hL : LInv A σ s) :
    ResRel A (loop A fuel σ ts) (Complex.loop (toP A) A.tmax A.cfuel fuel s σ.t ts) := by
  induction fuel generalizing σ s ts with
  | zero => exact ResRel.of_err rfl rfl (by decide) (by decide)
  | succ fuel ih =>
    obtain ⟨st, tms, t, dl, data, nbr, nh⟩ := σ
    obtain ⟨⟨hst, hld, htm, hdt⟩, hI, hw, him, hh⟩ := hL
    simp only at hst hld htm hdt hh
    subst hst
    rw [GenCC.loop, Complex.loop.eq_def]
    simp only [GenLD.total_weight_sim nbr s.ld hld, PyTM.liftE_ok, pure_bind]
    cases t with
    | none =>
      simp only [ERat.lt, Bool.and_false, Bool.false_eq_true, if_false]
      exact ⟨rfl, ⟨rfl, hld, htm, hdt⟩⟩
    | some tv =>
      simp only []
      by_cases hc : s.ld.totalWeight > 0 ∧ ERat.lt (some tv) A.tmax = true
      · have hc1 : (decide (s.ld.totalWeight > 0) && ERat.lt (some tv) A.tmax) = true := by simp [hc.1, hc.2]
        have hc2 : ¬ ((!decide (s.ld.totalWeight > 0)) = true ∨ (!ERat.lt (some tv) A.tmax) = true) := by
          simp [hc.1, hc.2]
        rw [if_pos hc1, if_neg hc2]
        rcases GenLD.choose_bisim PyTM.encNode nbr s.ld hld hI A.cfuel ts with
          ⟨e1, e2, h1, h2, h3⟩ | ⟨node, ts1, h1, h2⟩
        · exact ResRel.of_err (TM.bind_of_err h1) (TM.bind_of_err h2) h3 (Gillespie.chooseTM_err _ _ _ _ _ h2)
        · have hni : node ∈ s.ld.items := Gillespie.chooseTM_mem _ _ _ _ _ _ h2
          have hnode : node ∈ A.nodes := him node hni
          have h2' : Gillespie.chooseTM Gillespie.encNode s.ld A.cfuel ts = .ok (node, ts1) := h2
          rw [TM.bind_of_ok h1, TM.bind_of_ok h2']
          simp only []
          have hkeys : List.map (fun x : τ × List Int => x.1) data = A.ret := hdt.keys
          rw [hkeys, dataFold_eq _ ?_ _ _ ?_ ?_]
          rotate_left
          · intro σ x; rfl
          · intro k hk; rw [hdt.keys]; exact hk
          · intro k hk
            rw [hdt.keys] at hk; exact hdt.get_ne k hk
          simp only [pure_bind, decide_eq_true_eq]
          rw [edit_if_eval _ _ _ _ _ _ _ _ _ _ (evData_side1 hdt hA.ret_nodup _)]
          simp only [pure_bind]
          rw [edit_if_eval _ _ _ _ _ _ _ _ _ _ (evData_side2 hdt hA.ret_nodup _ _ _)]
          simp only [pure_bind]
          rw [full_if_eval _ _ _ _ _ _ _ _ _ _ _ (fun hf => hh hf node hnode)]
          simp only [pure_bind]
          -- `nodes_by_rate.insert(node, weight = rate)` and the influence set
          obtain ⟨ld1, hs1, hinv1, hwt1, hmem1, -⟩ := LD.insert_spec s.ld hI hw node
            (A.rate (fset s.status node (A.choose s.status node)) node) (hA.rate_nonneg _ _)
          obtain ⟨p1, hp1, hR1⟩ := GenLD.insert_sim nbr s.ld ld1 node _ hld hI hs1
          simp only [hp1, PyTM.liftE_ok, pure_bind]
          rw [insFold_eq A hA.rate_nonneg _ ?_ _ _ ld1 hR1 hinv1 hwt1]
          swap
          · intro σ u; rfl
          simp only [pure_bind]
          obtain ⟨ld2, hm2, hR2, hinv2, hwt2, hsub2⟩ := insAll_sim A (fset s.status node (A.choose s.status node))
            (hA.rate_nonneg _) (A.infl (fset s.status node (A.choose s.status node)) node) p1 ld1 hR1 hinv1 hwt1
          have hAE : Complex.applyEvent (toP A) s node tv = some
              { status := fset s.status node (A.choose s.status node), ld := ld2, times := tv :: s.times,
                data := (List.zip A.ret s.data).map fun (x, col) =>
                  let v := col.headD 0
                  let v := if s.status node = x then v - 1 else v
                  let v := if A.choose s.status node = x then v + 1 else v
                  v :: col,
                log := (tv, node, A.choose s.status node) :: s.log } := by
            have hs1' : s.ld.insert node (some (A.rate (fset s.status node (A.choose s.status node)) node)) = some ld1 :=
              hs1
            simp only [Complex.applyEvent, toP, hs1']
            have hm2' : Complex.insertAll (toP A) (fset s.status node (A.choose s.status node))
                (A.infl (fset s.status node (A.choose s.status node)) node) ld1 = some ld2 := hm2
            simp only [toP] at hm2'
            rw [hm2']
            rfl
          rw [hAE]
          simp only []
          simp only [GenLD.total_weight_sim _ ld2 hR2, PyTM.liftE_ok, pure_bind]
          have hit : ∀ y ∈ ld2.items, y ∈ A.nodes := by
            intro y hy
            rcases hsub2 y hy with h3 | h3
            · rcases (hmem1 y).1 h3 with h4 | h4
              · exact him y h4.2
              · rw [h4.1]; exact hnode
            · exact hA.infl_mem _ _ y h3
          have hh' : A.full = true → ∀ u ∈ A.nodes, alHas
              (if A.full = true then
                alSet (alSet nh node ((alGet nh ([], []) node).1 ++ [some tv], (alGet nh ([], []) node).2)) node
                  ((alGet nh ([], []) node).1 ++ [some tv], (alGet nh ([], []) node).2 ++ [A.choose s.status node])
              else nh) u = true := by
            intro hf u hu
            rw [if_pos hf, alHas_alSet, alHas_alSet]
            exact Or.inl (Or.inl (hh hf u hu))
          have hLI := fun t' dl' => LInv_event A hA s node tv tms data htm hdt _ ld2 hR2 hinv2 hwt2 hit _ hh' t' dl'
            ((tv, node, A.choose s.status node) :: s.log)
          by_cases hpos : ld2.totalWeight > 0
          · simp only [hpos, if_true, bind_assoc, pure_bind]
            cases hE : TM.popExpo ld2.totalWeight ts1 with
            | error e =>
              exact ResRel.of_err (TM.bind_of_err hE) (TM.bind_of_err hE) (TM.popExpo_err _ _ _ hE)
                (TM.popExpo_err _ _ _ hE)
            | ok q =>
              obtain ⟨d, ts2⟩ := q
              rw [TM.bind_of_ok hE, TM.bind_of_ok hE]
              exact ih _ _ ts2 (hLI _ _)
          · simp only [hpos, if_false, pure_bind]
            exact ih _ _ ts1 (hLI _ _)
      · have hc1 : ¬ (decide (s.ld.totalWeight > 0) && ERat.lt (some tv) A.tmax) = true := by
          intro h; apply hc; simpa using h
        have hc2 : (!decide (s.ld.totalWeight > 0)) = true ∨ (!ERat.lt (some tv) A.tmax) = true := by
          by_contra h; apply hc; simpa using h
        rw [if_neg hc1, if_pos hc2]
        exact ⟨rfl, ⟨rfl, hld, htm, hdt⟩⟩

/-! ### set-up and `run` -/

theorem retFold_eq (body : Loc τ → τ → TM (Loc τ)) (cnt : τ → Int)
    (hbody : ∀ σ x, body σ x = pure { σ with data := alSet σ.data x [cnt x] }) (l : List τ) (σ : Loc τ) :
    l.foldlM body σ = pure { σ with data := l.foldl (fun d x => alSet d x [cnt x]) σ.data } := by
  induction l generalizing σ with
  | nil => rfl
  | cons x l ih => rw [List.foldlM_cons, hbody, pure_bind, ih]; rfl

theorem foldl_alSet_fresh (cnt : τ → Int) (l : List τ) (hnd : l.Nodup) (d : List (τ × List Int))
    (hd : ∀ x ∈ l, alHas d x = false) :
    l.foldl (fun d x => alSet d x [cnt x]) d = d ++ l.map fun x => (x, [cnt x]) := by
  induction l generalizing d with
  | nil => simp
  | cons x l ih =>
    rw [List.nodup_cons] at hnd
    rw [List.foldl_cons, alSet_of_not_has d x _ (hd x (by simp)), ih hnd.2]
    · simp
    · intro y hy
      apply GenLD.alHas_eq_false_of_not
      rw [← alSet_of_not_has d x [cnt x] (hd x (by simp)), alHas_alSet]
      rintro (h | h)
      · rw [hd y (by simp [hy])] at h; exact absurd h (by simp)
      · subst h; exact hnd.1 hy

theorem alGet_map_mk (f : τ → List Int) (l : List τ) (x : τ) (hx : x ∈ l) :
    alGet (l.map fun x => (x, f x)) [] x = f x := by
  induction l with
  | nil => simp at hx
  | cons a l ih =>
    by_cases ha : a = x
    · simp [alGet, ha]
    · have hx' : x ∈ l := by
        rcases List.mem_cons.1 hx with h | h
        · exact absurd h.symm ha
        · exact h
      simp [alGet, ha, ih hx']

theorem alHas_map_mk {ν : Type} (f : Node → ν) (l : List Node) (x : Node) (hx : x ∈ l) :
    alHas (l.map fun u => (u, f u)) x = true := by
  rw [alHas_iff_mem_keys]
  simp only [alKeys, List.map_map, List.mem_map, Function.comp]
  exact ⟨x, hx, rfl⟩

theorem init_data_rel (A : PyTM.CArgs τ) (hnd : A.ret.Nodup) :
    DRel A.ret (List.foldl (fun d x => alSet d x [PyTM.countSt A.nodes A.ic x]) [] A.ret)
      (A.ret.map fun x => [Complex.countSt (toP A) A.ic x]) := by
  rw [foldl_alSet_fresh _ A.ret hnd [] (fun x _ => rfl), List.nil_append]
  refine ⟨?_, by simp, ?_, ?_⟩
  · simp [alKeys, Function.comp_def]
  · intro i hi
    rw [alGet_map_mk (fun x => [PyTM.countSt A.nodes A.ic x]) A.ret _ (List.getElem_mem hi)]
    simp [List.getD_eq_getElem?_getD, hi, PyTM.countSt, Complex.countSt, toP]
  · intro c hc
    simp only [List.mem_map] at hc
    obtain ⟨x, -, rfl⟩ := hc
    simp

omit [DecidableEq τ] in
theorem hist_ite_pure (c : Prop) [Decidable c] (a : Node → τ) (b : List ERat) (t e : ERat) (n : GenLD.PyLD Node)
    (d : List (τ × List Int)) (h1 h2 : List (Node × (List ERat × List τ))) :
    (if c then (pure (Loc.mk a b t e d n h1) : TM (Loc τ)) else pure (Loc.mk a b t e d n h2)) =
      pure (Loc.mk a b t e d n (if c then h1 else h2)) := by
  split <;> rfl

theorem run_bisim (A : PyTM.CArgs τ) (hA : Hyp A) (fuel : Nat) (ts : TapeSt) :
    ResRel A (run A fuel ts) (Complex.run (toP A) A.ic A.tmin A.tmax fuel A.cfuel ts) := by
  unfold run Complex.run
  simp only [Loc.init, hist_ite_pure, pure_bind]
  rw [retFold_eq _ (fun x => PyTM.countSt A.nodes A.ic x) (fun σ x => rfl)]
  simp only [pure_bind]
  rw [initFold_eq A hA.rate_nonneg _ ?_ _ _ (LD.empty true) (GenLD.init_R true) (LD.inv_empty true) rfl]
  swap
  · intro σ u; rfl
  simp only [pure_bind]
  obtain ⟨ld0, hm0, hR0, hinv0, hwt0, hsub0⟩ := insAll_sim A A.ic (hA.rate_nonneg _)
    (A.nodes.filter fun u => decide (A.rate A.ic u > 0)) (GenLD.init true) (LD.empty true) (GenLD.init_R true)
    (LD.inv_empty true) rfl
  have hinit : Complex.init (toP A) A.ic A.tmin = some
      { status := A.ic, ld := ld0, times := [A.tmin],
        data := A.ret.map fun x => [Complex.countSt (toP A) A.ic x], log := [] } := by
    have hm0' : Complex.insertAll (toP A) A.ic
        ((toP A).nodes.filter fun u => decide ((toP A).rate A.ic u > 0)) (LD.empty true) = some ld0 := hm0
    simp only [Complex.init, Complex.initLD_eq, hm0']
    rfl
  rw [hinit]
  simp only [GenLD.total_weight_sim _ ld0 hR0, PyTM.liftE_ok, pure_bind, decide_eq_true_eq]
  have hit : ∀ y ∈ ld0.items, y ∈ A.nodes := by
    intro y hy
    rcases hsub0 y hy with h3 | h3
    · simp [LD.empty] at h3
    · exact (List.mem_filter.1 h3).1
  have hLI : ∀ t' dl', LInv A
      { status := A.ic, times := [some A.tmin], t := t', delay := dl',
        data := List.foldl (fun d x => alSet d x [PyTM.countSt A.nodes A.ic x]) [] A.ret,
        nodes_by_rate := insAll A.rate A.ic (List.filter (fun u => decide (A.rate A.ic u > 0)) A.nodes) (GenLD.init true),
        node_history :=
          if A.full = true then List.map (fun node => (node, [some A.tmin], [A.ic node])) A.nodes else [] }
      { status := A.ic, ld := ld0, times := [A.tmin],
        data := A.ret.map fun x => [Complex.countSt (toP A) A.ic x], log := [] } := by
    intro t' dl'
    refine ⟨⟨rfl, hR0, rfl, init_data_rel A hA.ret_nodup⟩, hinv0, hwt0, hit, ?_⟩
    intro hf u hu
    simp only [hf, if_true]
    exact alHas_map_mk _ _ _ hu
  by_cases hpos : ld0.totalWeight > 0
  · simp only [hpos, if_true, bind_assoc, pure_bind]
    cases hE : TM.popExpo ld0.totalWeight ts with
    | error e =>
      exact ResRel.of_err (TM.bind_of_err hE) (TM.bind_of_err hE) (TM.popExpo_err _ _ _ hE) (TM.popExpo_err _ _ _ hE)
    | ok q =>
      obtain ⟨d, ts2⟩ := q
      rw [TM.bind_of_ok hE, TM.bind_of_ok hE]
      exact loop_bisim A hA fuel _ _ ts2 (hLI _ _)
  · simp only [hpos, if_false, pure_bind]
    exact loop_bisim A hA fuel _ _ ts (hLI _ _)

/-! ### consequences: both directions, and the C15 invariant on the generated state -/

omit [DecidableEq τ] in
theorem Hyp.of_wf {A : PyTM.CArgs τ} (h : Complex.WF (toP A)) (hnd : A.ret.Nodup) : Hyp A :=
  ⟨h.rate_nonneg, h.infl_mem, hnd⟩

theorem LInv.of_inv {A : PyTM.CArgs τ} {σ : Loc τ} {s : CCState τ} (hR : Rel A σ s) (hI : Complex.Inv (toP A) s)
    (hh : A.full = true → ∀ u ∈ A.nodes, alHas σ.node_history u = true) : LInv A σ s :=
  ⟨hR, hI.ldInv, hI.weighted, hI.items_mem, hh⟩

/-- the C15 invariant restated on the locals of the generated function: the generated state is related to a model
state satisfying `Complex.Inv` -/
def GInv (A : PyTM.CArgs τ) (σ : Loc τ) : Prop := ∃ s, Rel A σ s ∧ Complex.Inv (toP A) s

theorem run_ginv (A : PyTM.CArgs τ) (hwf : Complex.WF (toP A)) (hnd : A.ret.Nodup) (fuel : Nat) (ts ts' : TapeSt)
    (σ : Loc τ) (h : run A fuel ts = .ok (σ, ts')) : GInv A σ := by
  obtain ⟨s, hs, hR⟩ := (run_bisim A (Hyp.of_wf hwf hnd) fuel ts).bwd h
  exact ⟨s, hR, Complex.run_inv' (toP A) hwf A.ic A.tmin A.tmax fuel A.cfuel ts ts' s hs⟩

theorem loop_ginv (A : PyTM.CArgs τ) (hwf : Complex.WF (toP A)) (hnd : A.ret.Nodup) (fuel : Nat) (ts ts' : TapeSt)
    (σ σ' : Loc τ) (hG : GInv A σ) (hh : A.full = true → ∀ u ∈ A.nodes, alHas σ.node_history u = true)
    (h : loop A fuel σ ts = .ok (σ', ts')) : GInv A σ' := by
  obtain ⟨s, hR, hI⟩ := hG
  obtain ⟨s', hs', hR'⟩ := (loop_bisim A (Hyp.of_wf hwf hnd) fuel σ s ts (LInv.of_inv hR hI hh)).bwd h
  exact ⟨s', hR', Complex.loop_inv' (toP A) hwf A.tmax A.cfuel fuel s s' σ.t ts ts' hI hs'⟩

theorem ResRel.no_keyerror {A : PyTM.CArgs τ} {x : Except String (Loc τ × TapeSt)}
    {y : Except String (CCState τ × TapeSt)} (h : ResRel A x y) : x ≠ .error "KeyError" := by
  intro hx
  subst hx
  cases y with
  | error e => exact h.1 rfl
  | ok q => exact h

/-- what `GInv` says in terms of the generated state only -/
theorem GInv.facts {A : PyTM.CArgs τ} (hwf : Complex.WF (toP A)) {σ : Loc τ} (hG : GInv A σ) :
    (∀ x ∈ A.nodes, 0 < A.rate σ.status x →
      x ∈ σ.nodes_by_rate.items ∧ alGet σ.nodes_by_rate.weight 0 x = A.rate σ.status x) ∧
    (∀ x ∈ A.nodes, A.rate σ.status x = 0 → x ∉ σ.nodes_by_rate.items) ∧
    (∀ x ∈ σ.nodes_by_rate.items, x ∈ A.nodes ∧ 0 < A.rate σ.status x) ∧
    σ.nodes_by_rate.items.Nodup ∧
    GenLD.total_weight σ.nodes_by_rate =
      .ok (σ.nodes_by_rate, sumRat (A.nodes.map (A.rate σ.status))) ∧
    (∀ x ∈ A.ret, lastI (alGet σ.data [] x) = PyTM.countSt A.nodes σ.status x) := by
  obtain ⟨s, hR, hI⟩ := hG
  have hst := hR.status
  have hit := hR.ld.items
  have hwt := hR.ld.weight
  refine ⟨?_, ?_, ?_, ?_, ?_, ?_⟩
  · intro x hx hp
    rw [hst] at hp ⊢
    obtain ⟨h1, h2⟩ := hI.pos x hx hp
    exact ⟨by rw [hit]; exact h1, by rw [hwt]; exact h2⟩
  · intro x hx h0
    rw [hst] at h0
    rw [hit]; exact hI.zero x hx h0
  · intro x hx
    rw [hit] at hx; rw [hst]
    exact (Complex.mem_items_iff (toP A) hwf s hI x).1 hx
  · rw [hit]; exact hI.ldInv.nodup
  · rw [GenLD.total_weight_sim _ _ hR.ld, Complex.clock_eq' (toP A) hwf s hI, hst]; rfl
  · intro x hx
    obtain ⟨i, hi, rfl⟩ := List.getElem_of_mem hx
    have hc := hI.counts.2 i hi
    have hret : ∀ d, (toP A).ret.getD i d = A.ret[i] := by
      intro d; simp [List.getD_eq_getElem?_getD, hi, toP]
    rw [hret] at hc
    rw [hR.data.cols i hi, lastI_reverse, hc, hst]
    rfl

end GenCC
