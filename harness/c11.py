"""C11 — event-driven SIR == first-passage percolation.
* fast_nonMarkov_SIR with table rules (separate and joint callbacks): arrays / transmissions / recoveries vs the Lean
  model of the event queue; `EventSIR.isFPP` (Lean shortest paths) evaluated on the implementation's output.
* fast_SIR on both dispatch paths: the delays/durations it draws are logged by wrapping the callbacks it hands to
  fast_nonMarkov_SIR; same comparisons on the logged tables.
* percolation builders and get_infected_nodes vs the Lean `keeps` relation / out-component.
"""
from fractions import Fraction as F
import networkx as nx
import common, allsims, gen, rng as rngmod, sims
from allsims import fl
from common import rs, fr
from predchecks import strip

INF = float("inf")


def ers(x):
    return "inf" if x == INF else rs(x)


def recoveries(out, recs):
    rc = []
    for v, h in enumerate(out["history"]):
        for t, s in h:
            if s == "R" and v not in recs:
                rc.append([t, v])
    return rc


def esir_req(c, G, idx, li, infs, recs, impl=None, joint=None):
    adj = gen.adj_lists(G, idx)
    rq = dict(op="esir", n=c["n"], adj=adj, tmin=c["tmin"], tmax=c["tmax"], infs=infs, recs=recs)
    if joint is not None:
        rq["joint"] = joint
    else:
        rq["delay"] = [[li[u], li[v], d] for u, v, d in c["delay"]]
        dur = [None] * c["n"]
        for i, d in enumerate(c["dur"]):
            dur[li[i]] = d
        rq["dur"] = dur
    if impl is not None:
        rq["impl_trans"], rq["impl_rec"] = impl
    return rq


def nonmarkov(ctx, drv):
    reqs, metas = [], []
    for _ in range(ctx.scale(800, 5000)):
        c = allsims.gen_case(ctx.rng, "fast_nonMarkov_SIR", nmax=ctx.scale(8, 10))
        if c["init"]["kind"] not in ("list", "single"):
            c["init"] = dict(kind="list", nodes=[0])
        if ctx.rng.random() < 0.3:      # engineered ties: all delays from a tiny set
            c["delay"] = [[u, v, ctx.rng.choice(["0", "1", "1", "2", "inf"])] for u, v, d in c["delay"]]
            c["dur"] = [ctx.rng.choice(["0", "1", "2", "inf"]) for _ in c["dur"]]
        if ctx.rng.random() < 0.2:
            # SELF-LOOPS: u is one of its own neighbours, the rule is asked for a delay from u to u; nothing may change
            for u in ctx.rng.sample(range(c["n"]), ctx.rng.randint(1, min(2, c["n"]))):
                if [u, u] not in c["edges"]:
                    c["edges"].append([u, u])
                    c["delay"].append([u, u, ctx.rng.choice(["0", "1/4", "1", "2", "inf"])])
            ctx.count("nonMarkov:self-loops")
        if c.get("recs") and ctx.rng.random() < 0.3:
            # the recovered nodes arrive as a tuple / dict-keys view / one-shot iterator: whatever the function accepts it must
            # treat as "these nodes are recovered" (a TypeError for the iterator is a rejection, not a wrong answer: no verdict)
            c["recs_container"] = ctx.rng.choice(["generator", "generator", "dictkeys", "tuple"])
            ctx.count("nonMarkov:recovereds as " + c["recs_container"])
        full, G, idx = allsims.run_impl(c, rng=ctx.rng, full=True)
        plain, _, _ = allsims.run_impl(c, rng=ctx.rng, full=False)
        rep = dict(entry="fast_nonMarkov_SIR", case=strip(c))
        if c.get("recs_container") == "generator" and any((not o["ok"]) and o["err"] == "TypeError" for o in (full, plain)):
            ctx.count("nonMarkov:one-shot iterator rejected")
            ctx.case(rep, nontrivial=False)
            continue
        for o in (full, plain):
            if not o["ok"]:
                ctx.violation("fast_nonMarkov_SIR raised %s" % o["err"], dict(rep, error=o["err"], tb=o.get("tb")))
        if not (full["ok"] and plain["ok"]):
            ctx.case(rep, nontrivial=False)
            continue
        li = full["lab_index"]
        infs, recs = allsims.requested_init(c, full)
        reqs.append(esir_req(c, G, idx, li, infs, recs, impl=(full["transmissions"], recoveries(full, recs))))
        metas.append((rep, full, plain, infs))
        ctx.count("nonMarkov:%s" % ("joint" if c["joint"] else "separate"))
        ctx.count("nonMarkov:tmax=%s" % ("inf" if c["tmax"] == "inf" else "finite"))
    for (rep, full, plain, infs), m in zip(metas, drv.batch(reqs)):
        ctx.traces += 1
        nontriv = len(full["transmissions"]) > len(infs)
        ctx.case(rep, nontrivial=nontriv, sample=dict(rep, transmissions=full["transmissions"][:5]))
        if not m.get("ok"):
            ctx.disagreement("esir-driver", dict(rep, model=m))
            continue
        if m["isFPP"] is not True:
            ctx.violation("fast_nonMarkov_SIR output is not the first-passage-percolation outcome",
                          dict(rep, transmissions=full["transmissions"], history=full["history"], fpp=m["fpp"]))
            continue
        diffs = []
        if plain["times"] != m["times"] or plain["cols"] != [m["S"], m["I"], m["R"]]:
            diffs.append("arrays")
        if full["transmissions"] != m["trans"]:
            diffs.append("transmissions")
        if diffs:
            ctx.disagreement("esir:" + ",".join(diffs), dict(rep, impl=dict(times=plain["times"][:20], trans=full["transmissions"][:20]),
                                                              model=dict(times=m["times"][:20], trans=m["trans"][:20])))
    generated_model(ctx, reqs, metas)


def generated_model(ctx, reqs, metas):
    """the Lean code GENERATED from fast_nonMarkov_SIR, _process_trans_SIR_, _process_rec_SIR_ and myQueue
    (harness/pyevent2lean.py -> Gen/EventSIRGen.lean), run by its own driver with the same delay / duration tables as
    the implementation.  Compared: times, S, I, R (array mode), the transmission list (full-data mode)."""
    import fcntl, subprocess, os, json, pyevent2lean
    lean = common.LEAN
    os.makedirs(os.path.join(lean, ".audit"), exist_ok=True)
    with open(os.path.join(lean, ".audit", "genes.lock"), "w") as lock:
        fcntl.flock(lock, fcntl.LOCK_EX)
        try:
            _, errors = pyevent2lean.regenerate()
        except Exception as e:
            errors = {"translator": "crashed: %r" % e}
        if errors:
            ctx.disagreement("generated-esir:translation", dict(entry="fast_nonMarkov_SIR", errors=errors))
            return
        p = common.lake(["build", "driveres"])
    if p.returncode != 0:
        ctx.disagreement("generated-esir:build", dict(entry="fast_nonMarkov_SIR", log="\n".join(
            l for l in (p.stdout + p.stderr).splitlines() if "error" in l)[:1500]))
        return
    exe = os.path.join(lean, ".lake", "build", "bin", "driveres")
    data = "\n".join(json.dumps({k: v for k, v in r.items() if not k.startswith("impl_")}, separators=(",", ":")) for r in reqs) + "\n"
    q = subprocess.run([exe], input=data, capture_output=True, text=True)
    lines = q.stdout.splitlines()
    if q.returncode != 0 or len(lines) != len(reqs):
        raise RuntimeError("driveres crashed: " + q.stderr[-1000:])
    for (rep, full, plain, infs), line in zip(metas, lines):
        g = json.loads(line)
        ctx.count("nonMarkov:generated-model-runs")
        if not g.get("ok"):
            ctx.disagreement("generated-esir-error", dict(rep, generated=g))
            continue
        diffs = []
        if plain["times"] != g["times"] or plain["cols"] != [g["S"], g["I"], g["R"]]:
            diffs.append("arrays")
        if full["transmissions"] != g["trans"]:
            diffs.append("transmissions")
        if diffs:
            ctx.disagreement("generated-esir:" + ",".join(diffs), dict(rep, impl=dict(times=plain["times"][:20], trans=full["transmissions"][:20]),
                                                                        generated=dict(times=g["times"][:20], trans=g["trans"][:20])))


def fast_sir(ctx, drv):
    """both dispatch paths of fast_SIR with logged rules"""
    import EoN, EoN.simulation as sim
    reqs, metas = [], []
    greqs, gmetas = [], []
    for _ in range(ctx.scale(500, 3000)):
        c = allsims.gen_case(ctx.rng, "fast_SIR")
        c["prewarm"] = False            # this stream logs every callback / RNG call of the run: no warm-up call
        if c["init"]["kind"] not in ("list", "single"):
            c["init"] = dict(kind="list", nodes=[0])
        G, lab = sims.build_graph(c)
        idx = gen.index_of(G)
        log = {}
        edge_calls = []     # per-edge path: (node, neighbour | None, value returned, RNG calls made for it)
        calls = []          # Markov fast path: (node, #susceptible neighbours, #recipients, duration, RNG calls made for this node)
        orig = sim.fast_nonMarkov_SIR

        def wrapper(G_, trans_time_fxn=None, rec_time_fxn=None, trans_and_rec_time_fxn=None, trans_time_args=(),
                    rec_time_args=(), trans_and_rec_time_args=(), **kw):
            if trans_and_rec_time_fxn is None:
                def joint(node, sus, *a):
                    mark = len(tr.trace)
                    d = rec_time_fxn(node, *rec_time_args)
                    edge_calls.append((node, None, d, list(tr.trace[mark:])))
                    td = {}
                    for v in sus:
                        mark = len(tr.trace)
                        td[v] = trans_time_fxn(node, v, *trans_time_args)
                        edge_calls.append((node, v, td[v], list(tr.trace[mark:])))
                    log[idx[node]] = ([[idx[v], ers(x)] for v, x in td.items()], ers(d))
                    return td, d
                return orig(G_, trans_and_rec_time_fxn=joint, **kw)

            def joint2(node, sus, *a):
                mark = len(tr.trace)
                td, d = trans_and_rec_time_fxn(node, sus, *a)
                log[idx[node]] = ([[idx[v], ers(x)] for v, x in td.items()], ers(d))
                calls.append((idx[node], len(sus), len(td), d, list(tr.trace[mark:])))
                return td, d
            return orig(G_, trans_and_rec_time_fxn=joint2, trans_and_rec_time_args=trans_and_rec_time_args, **kw)

        tr = rngmod.TapeRandom(rng=ctx.rng, idx=idx)
        rep = dict(entry="fast_SIR", case=strip(c))
        if _ % 3 == 2:
            # hidden state across calls: the same graph object has been through fast_SIR with other weights / another
            # wiring before (restored in place); done before the logging wrapper is installed
            allsims.prewarm(dict(c, prewarm=False), G, lab, True, None)
            rep["prewarmed"] = True
            ctx.count("fast_SIR:prewarmed-same-object")
        sim.fast_nonMarkov_SIR = wrapper
        try:
            res = allsims.call_sim(c, G, lab, tr, True)
            full = allsims.dump_full(res, G, idx, c)
        except Exception as e:
            ctx.case(rep, nontrivial=False)
            ctx.violation("fast_SIR raised %s" % type(e).__name__, dict(rep, tape=tr.log, error=sims.err_enum(e)))
            continue
        finally:
            sim.fast_nonMarkov_SIR = orig
        # arrays mode on the same draws
        plain, _, _ = allsims.run_impl(c, tape=tr.log, full=False)
        li = {i: idx[lab(i)] for i in range(c["n"])}
        objs = [lab(i) for i in (c["init"].get("nodes") if c["init"]["kind"] == "list" else [c["init"]["node"]])]
        if c.get("container") == "set" and c["init"]["kind"] == "list":
            objs = list(set(objs))
        infs = [idx[x] for x in objs]
        recs = [li[i] for i in c["recs"]]
        joint = [list(log.get(u, ([], "inf"))) for u in range(c["n"])]
        markov_path = c.get("ew") is None and F(c["tau"]) * F(c["gamma"]) != 0
        ctx.count("fast_SIR:%s" % ("markov-path" if markov_path else "per-edge-path"))
        # per-edge path: every delay / duration is one draw from Exp(tau * w_uv) resp. Exp(gamma * w_u) with the weights
        # the graph has NOW (no draw and an infinite value when the rate is 0)
        if not markov_path:
            tau_, gam_ = F(c["tau"]), F(c["gamma"])
            for (u, v, val, seg) in edge_calls:
                if v is None:
                    w_ = F(float(G.nodes[u]["r"])) if c.get("nw") is not None else F(1)
                    rate, what = gam_ * w_, "infectious period of node %d" % idx[u]
                else:
                    w_ = F(float(G.adj[u][v]["w"])) if c.get("ew") is not None else F(1)
                    rate, what = tau_ * w_, "transmission delay %d -> %d" % (idx[u], idx[v])
                want = [["e", float(rate)]] if rate > 0 else []
                got = [[x[0], float(x[1])] for x in seg]
                if got != want or (rate == 0 and val != float("inf")):
                    ctx.violation("fast_SIR (per-edge path): %s drawn as %s, the chain's rate is %s" % (what, seg, rate),
                                  dict(rep, rng_calls=seg, rate=str(rate), tape=tr.log))
                    break
            ctx.count("fast_SIR:per-edge-draws-checked", len(edge_calls))
        # Markov fast path (`_trans_and_rec_time_Markovian_const_trans_`): the draws made for each newly infected node
        # must be the chain's: duration ~ Exp(gamma * w_u), #recipients ~ Binomial(#sus, 1-exp(-tau*duration)),
        # recipients = uniform sample, each delay from Exp(tau) folded into [0, duration)   (laws: Props/C01b, C01c)
        if markov_path:
            import math
            tau_, gam_ = float(F(c["tau"])), float(F(c["gamma"]))
            nw = c.get("nw")
            inv = {v: k for k, v in li.items()}
            for (u, nsus, nrec, dur, seg) in calls:
                want_rate = gam_ * (float(F(nw[inv[u]])) if nw is not None else 1.0)
                bad = None
                if not seg or seg[0][0] != "e" or float(seg[0][1]) != want_rate:
                    bad = "infectious period of node %d drawn as %s, the chain's recovery rate is gamma*w = %r" % (u, seg[:1], want_rate)
                elif len(seg) < 3 or seg[1][0] != "b" or seg[1][1] != nsus or abs(seg[1][2] - (1 - math.exp(-tau_ * dur))) > 1e-12:
                    bad = "number of recipients of node %d drawn as %s, expected Binomial(%d, 1-exp(-tau*duration)=%r)" % (
                        u, seg[1:2], nsus, 1 - math.exp(-tau_ * dur))
                elif seg[2][0] != "s" or seg[2][1] != nsus or seg[2][2] != nrec:
                    bad = "recipients of node %d chosen by %s, expected a uniform sample of %d out of %d" % (u, seg[2:3], nrec, nsus)
                elif [x[0] for x in seg[3:]] != ["e"] * nrec or any(float(x[1]) != tau_ for x in seg[3:]):
                    bad = "transmission delays of node %d drawn as %s, expected %d draws from Exp(tau=%r)" % (u, seg[3:], nrec, tau_)
                if bad:
                    ctx.violation("fast_SIR (constant-transmission-rate path): " + bad, dict(rep, node=u, rng_calls=seg, tape=tr.log))
                    break
            ctx.count("fast_SIR:markov-path-nodes-checked", len(calls))
            if nw is not None:
                ctx.count("fast_SIR:markov-path-with-recovery-weight")
        reqs.append(esir_req(c, G, idx, li, infs, recs, impl=(full["transmissions"], recoveries(full, recs)), joint=joint))
        metas.append((dict(rep, tape=tr.log), full, plain, infs))
        _, adj_, ew_, nw_ = sims.graph_req(G, lab, c)
        greqs.append(dict(n=c["n"], adj=adj_, tmin=c["tmin"], tmax=c["tmax"], infs=infs, recs=recs, tau=c["tau"], gamma=c["gamma"],
                          ew=ew_, nw=nw_, tape=tr.log, exps=[[rs(a), rs(b)] for a, b in getattr(tr, "exp_log", [])]))
        gmetas.append((dict(rep, tape=tr.log), full, plain, sims.enc_trace(tr.trace, idx)))
    for (rep, full, plain, infs), m in zip(metas, drv.batch(reqs)):
        ctx.traces += 1
        ctx.case(rep, nontrivial=len(full["transmissions"]) > len(infs))
        if not m.get("ok"):
            ctx.disagreement("esir-driver", dict(rep, model=m))
            continue
        if m["isFPP"] is not True:
            ctx.violation("fast_SIR output is not the first-passage-percolation outcome of the delays/durations it drew",
                          dict(rep, transmissions=full["transmissions"], history=full["history"], fpp=m["fpp"]))
            continue
        if not plain["ok"]:
            ctx.violation("fast_SIR array mode raised %s on the draws of the full-data run" % plain["err"], dict(rep, error=plain["err"]))
            continue
        if plain["times"] != m["times"] or plain["cols"] != [m["S"], m["I"], m["R"]] or full["transmissions"] != m["trans"]:
            ctx.disagreement("fast_SIR-esir", dict(rep, impl=dict(times=plain["times"][:20], trans=full["transmissions"][:20]),
                                                   model=dict(times=m["times"][:20], trans=m["trans"][:20])))
    fast_sir_generated(ctx, greqs, gmetas)


def fast_sir_generated(ctx, greqs, gmetas):
    """the Lean code GENERATED from fast_SIR's own part (harness/pyfsir2lean.py -> Gen/FastSIRGen.lean: the dispatch,
    _get_rate_functions_, the two nested time functions, _find_trans_and_rec_delays_SIR_,
    _trans_and_rec_time_Markovian_const_trans_, _truncated_exponential_) plugged into the code generated from
    fast_nonMarkov_SIR, run by its own driver on the same scripted draws; np.exp is a table of the implementation's own
    calls.  Compared: RNG-call trace (rates, Binomial(n, p) arguments, sample sizes), arrays, transmissions."""
    import fcntl, subprocess, os, json, pyfsir2lean, pyevent2lean
    lean = common.LEAN
    os.makedirs(os.path.join(lean, ".audit"), exist_ok=True)
    with open(os.path.join(lean, ".audit", "gengill.lock"), "w") as lock:
        fcntl.flock(lock, fcntl.LOCK_EX)
        try:
            _, e1 = pyevent2lean.regenerate(which=("sir",))
            _, e2 = pyfsir2lean.regenerate()
            errors = dict(e1, **e2)
        except Exception as e:
            errors = {"translator": "crashed: %r" % e}
        if errors:
            ctx.disagreement("generated-fast_SIR:translation", dict(entry="fast_SIR", errors=errors))
            return
        p = common.lake(["build", "driverfsir"])
    if p.returncode != 0:
        ctx.disagreement("generated-fast_SIR:build", dict(entry="fast_SIR", log="\n".join(
            l for l in (p.stdout + p.stderr).splitlines() if "error" in l)[:1500]))
        return
    exe = os.path.join(lean, ".lake", "build", "bin", "driverfsir")
    data = "\n".join(json.dumps(q, separators=(",", ":")) for q in greqs) + "\n"
    q = subprocess.run([exe], input=data, capture_output=True, text=True)
    lines = q.stdout.splitlines()
    if q.returncode != 0 or len(lines) != len(greqs):
        raise RuntimeError("driverfsir crashed: " + q.stderr[-1000:])

    def canon(tr_):
        out = []
        for c_ in tr_:
            if c_[0] == "b":
                out.append(["b", c_[1], float(F(c_[2])) if isinstance(c_[2], str) else float(c_[2])])
            elif c_[0] == "e":
                out.append(["e", str(F(c_[1]))])
            else:
                out.append(list(c_))
        return out
    for (rep, full, plain, trace), line in zip(gmetas, lines):
        g = json.loads(line)
        ctx.count("fast_SIR:generated-model-runs")
        if not g.get("ok"):
            ctx.disagreement("generated-fast_SIR-error", dict(rep, generated=g))
            continue
        d = []
        gt, it = canon(g["trace"]), canon(trace)
        if gt != it:
            i = next((i for i in range(min(len(gt), len(it))) if gt[i] != it[i]), -1)
            d.append("RNG trace at call %d: impl %s generated %s" % (i, it[i] if 0 <= i < len(it) else None, gt[i] if 0 <= i < len(gt) else None))
        if g["unused"]:
            d.append("draws not consumed")
        if plain["ok"] and (plain["times"] != g["times"] or plain["cols"] != [g["S"], g["I"], g["R"]]):
            d.append("arrays")
        if full["transmissions"] != g["trans"]:
            d.append("transmissions")
        if d:
            ctx.disagreement("generated-fast_SIR-tape:" + ";".join(d)[:300], dict(rep, diffs=d))


def builders(ctx, drv):
    import EoN, EoN.simulation as sim
    reqs, metas = [], []
    for _ in range(ctx.scale(300, 2000)):
        c = allsims.gen_case(ctx.rng, "fast_nonMarkov_SIR")
        c["init"] = dict(kind="list", nodes=ctx.rng.sample(range(c["n"]), ctx.rng.randint(1, min(2, c["n"]))))
        c["recs"] = [u for u in c["recs"] if u not in c["init"]["nodes"]]
        c["tmax"] = "inf"
        G, lab = sims.build_graph(c)
        idx = gen.index_of(G)
        li = {i: idx[lab(i)] for i in range(c["n"])}
        rules = allsims.Rules(c, lab, idx)
        weights = ctx.rng.random() < 0.5
        rep = dict(entry="nonMarkov_directed_percolate_network_with_timing", case=strip(c), weights=weights)
        try:
            H = EoN.nonMarkov_directed_percolate_network_with_timing(G, rules.trans_time, rules.rec_time, weights=weights)
        except Exception as e:
            ctx.violation("percolation builder raised %s" % type(e).__name__, dict(rep, error=sims.err_enum(e)))
            continue
        try:
            impl = dict(nodes=sorted(idx[u] for u in H.nodes()), directed=H.is_directed(),
                        edges=sorted([idx[u], idx[v], ers(d.get("delay_to_infection", INF)) if weights else None] for u, v, d in H.edges(data=True)),
                        durations=[ers(H.nodes[u]["duration"]) if weights else None for u in G])
            # out-component through the public helper on the real H (initially recovered removed as get_infected_nodes does)
            H2 = H.copy()
            for i in c["recs"]:
                H2.remove_node(lab(i))
            comp = sorted(idx[u] for u in sim._out_component_(H2, [lab(i) for i in c["init"]["nodes"]]))
        except Exception as e:
            # a node of G missing from H, or a stated attribute missing: "same nodes, stated attributes" fails
            ctx.case(rep)
            ctx.violation("percolation builder: the returned graph lacks a node of G or a stated attribute (%s: %s)"
                          % (type(e).__name__, e), dict(rep, nodes_G=len(G), nodes_H=H.number_of_nodes(), error=sims.err_enum(e)))
            continue
        impl["out"] = comp
        reqs.append(esir_req(c, G, idx, li, [li[i] for i in c["init"]["nodes"]], [li[i] for i in c["recs"]]))
        metas.append((rep, impl, c, li))
        ctx.count("builder:weights=%s" % weights)
    for (rep, impl, c, li), m in zip(metas, drv.batch(reqs)):
        ctx.traces += 1
        ctx.case(rep, nontrivial=len(impl["edges"]) > 0)
        if not m.get("ok"):
            ctx.disagreement("esir-driver", dict(rep, model=m))
            continue
        specE = sorted([u, v, d if rep["weights"] else None] for u, v, d in m["H"])
        dur = [None] * c["n"]
        for i, d in enumerate(c["dur"]):
            dur[li[i]] = d if rep["weights"] else None
        bad = []
        if impl["nodes"] != list(range(c["n"])):
            bad.append("node set")
        if not impl["directed"]:
            bad.append("not a DiGraph")
        if impl["edges"] != specE:
            bad.append("edges/attributes")
        if impl["durations"] != dur:
            bad.append("duration attribute")
        out_spec = sorted(m["out"])
        if impl["out"] != out_spec:
            bad.append("out-component")
        if bad:
            ctx.violation("percolation builder differs from 'keep u->v iff delay<=duration': %s" % bad,
                          dict(rep, impl=impl, spec=dict(edges=specE, out=out_spec)))
    # directed_percolate_network / get_infected_nodes under scripted exponentials
    for _ in range(ctx.scale(200, 1500)):
        c = sims.graph_case(ctx.rng, 1, 8, weighted_e=ctx.rng.random() < 0.5, weighted_n=ctx.rng.random() < 0.5)
        if ctx.rng.random() < 0.3:
            # node names that a library might be tempted to use as sentinels: 0, -1, -2, …
            off = ctx.rng.choice([0, 1])
            c["labels"] = [-(i + off) for i in range(c["n"])]
            ctx.count("get_infected_nodes:negative-int names")
        G, lab = sims.build_graph(c)
        idx = gen.index_of(G)
        tau, gamma = ctx.rng.choice(gen.RATES), ctx.rng.choice(gen.RATES)
        nodes = list(G)
        infs = ctx.rng.sample(nodes, ctx.rng.randint(1, min(2, len(nodes))))
        rest = [u for u in nodes if u not in infs]
        recs = ctx.rng.sample(rest, ctx.rng.randint(0, min(2, len(rest)))) if rest else []
        captured = {}
        orig = sim.directed_percolate_network

        def wrap(*a, **k):
            H = orig(*a, **k)
            captured["H"] = H.copy()
            return H
        tr = rngmod.TapeRandom(rng=ctx.rng, idx=idx)
        rep = dict(entry="get_infected_nodes", graph=c, tau=str(tau), gamma=str(gamma), infs=[idx[u] for u in infs], recs=[idx[u] for u in recs])
        sim.directed_percolate_network = wrap
        try:
            with rngmod.scripted(tr):
                res = EoN.get_infected_nodes(G, float(tau), float(gamma), initial_infecteds=infs, initial_recovereds=recs)
        except Exception as e:
            ctx.violation("get_infected_nodes raised %s" % type(e).__name__, dict(rep, error=sims.err_enum(e)))
            continue
        finally:
            sim.directed_percolate_network = orig
        H = captured["H"]
        ctx.case(rep, nontrivial=H.number_of_edges() > 0)
        ctx.count("get_infected_nodes")
        # H must keep u->v iff delay<=duration for the values it drew (attributes carry them)
        ok = set(H.nodes()) == set(G.nodes())
        for u, v, d in H.edges(data=True):
            ok = ok and G.has_edge(u, v) and d["delay_to_infection"] <= H.nodes[u]["duration"]
        # every expovariate call had the right rate (tau / gamma, unweighted builder) – from the trace
        rates = {c_[1] for c_ in tr.trace if c_[0] == "e"}
        if not rates <= {float(tau), float(gamma)}:
            ok = False
        Hr = H.copy()
        Hr.remove_nodes_from(recs)
        want = set(infs)
        for s in infs:
            want |= nx.descendants(Hr, s)
        if not ok or set(res) != want:
            ctx.violation("get_infected_nodes / directed_percolate_network differ from the out-component of the percolated graph",
                          dict(rep, tape=tr.log, result=sorted(idx[u] for u in res), expected=sorted(idx[u] for u in want)))


def run(ctx):
    drv = common.LeanDriver()
    nonmarkov(ctx, drv)
    fast_sir(ctx, drv)
    builders(ctx, drv)
