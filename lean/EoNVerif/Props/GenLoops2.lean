import EoNVerif.Proofs.GenEqLoops2
/-!
Tie by translation for the pair-based models (C08).  `Gen/AnalyticLoops.lean` is regenerated from `EoN/analytic.py`
on every run by `harness/py2lean_loops.py`; Python `for` loops are `List.foldl`s over the tuple of mutated arrays,
`a[i] += e` is `upd1 a i (a i + e)`, `a[i,j] += e` is `upd2 a i j (a i j + e)`, `continue` is "return the state
unchanged".  The theorems below (proved in `Proofs/GenEqLoops2.lean`) state that the generated triple-nested loops of
`_dSIS_pair_based_` (EoN/analytic.py:945-1035) and `_dSIR_pair_based_` (EoN/analytic.py:1037-1113) compute, cell by
cell, the closed-form sums of the hand-written models `ODE.sisPairBased` / `ODE.sirPairBased` (`Model/ODE2.lean`),
for every `N`, neighbour function, rate functions and state.

Hypotheses (both are facts about `networkx` graphs with `index_of_node` a bijection onto `0..N-1`):
* `(nbrs u).Nodup` for `u < N` — `G.neighbors(u)` lists every neighbour once.  NECESSARY: with a repeated neighbour
  the loops add the `(u, v)` terms twice and the model once (`nodup_needed` below).
* `v ∈ nbrs u → v < N` for `u < N` — needed only to read `XY[i, j]` out of the flat vector (`(i*N+j)/N = i`).
No hypothesis on self-loops, symmetry of the graph, signs or ranges of rates/state, or `X[i] ≠ 0`:
the code's `1/v if v != 0 else 0` and the model's `xinv` agree everywhere, and the code's `if w == u: continue`
is the model's `filter (· ≠ u)`.
-/
namespace GenEqLoops2
open Gen ODE

/-! ### accumulation lemmas (the loop idioms of the generated code) -/

/-- `for v in l: a[i] += f(v)` leaves `a0[i] + Σ_{v∈l} f(v)` in cell `i` and does not touch any other cell. -/
theorem loop_upd1 (l : List Nat) (i : Nat) (f : Nat → Rat) (a0 : A) (k : Nat) :
    (l.foldl (fun a v => upd1 a i (a i + f v)) a0) k = if k = i then a0 i + sumRat (l.map f) else a0 k :=
  foldl_upd1_acc l i f a0 k

/-- `for v in l: a[i,j] += f(v)` leaves `a0[i,j] + Σ_{v∈l} f(v)` in cell `(i,j)` and touches no other cell. -/
theorem loop_upd2 (l : List Nat) (i j : Nat) (f : Nat → Rat) (a0 : M) (k m : Nat) :
    (l.foldl (fun a v => upd2 a i j (a i j + f v)) a0) k m
      = if k = i ∧ m = j then a0 i j + sumRat (l.map f) else a0 k m :=
  foldl_upd2_acc l i j f a0 k m

/-- `for w in l: if w == s: continue; a[i,j] += f(w)` (analytic.py:1010-1021, 1095-1106) sums `f` over
`l.filter (· ≠ s)`. -/
theorem loop_upd2_continue (l : List Nat) (s i j : Nat) (f : Nat → Rat) (a0 : M) (k m : Nat) :
    (l.foldl (fun a w => if w = s then a else upd2 a i j (a i j + f w)) a0) k m
      = if k = i ∧ m = j then a0 i j + sumRat ((l.filter fun w => w ≠ s).map f) else a0 k m :=
  foldl_upd2_skip l s i j f a0 k m

/-- `for u in range(N): a[u] += g(u)`: cell `i` is touched only in iteration `u = i`. -/
theorem loop_outer1 (N : Nat) (g : Nat → Rat) (a0 : A) (i : Nat) :
    ((List.range N).foldl (fun a u => upd1 a u (a u + g u)) a0) i = a0 i + if i < N then g i else 0 :=
  foldl_outer1 N g a0 i

/-- `for u in range(N): for v in nbrs(u): a[u,v] += T(u,v)`: cell `(i,j)` is touched only in iteration `u = i`,
`v = j`, which happens exactly once when `j` is a neighbour of `i` (neighbour list without repetition). -/
theorem loop_outer2 (N : Nat) (nbrs : Nat → List Nat) (T : Nat → Nat → Rat) (a0 : M) (i j : Nat)
    (hn : (nbrs i).Nodup) :
    ((List.range N).foldl (fun a u => (nbrs u).foldl (fun a v => upd2 a u v (a u v + T u v)) a) a0) i j
      = a0 i j + if i < N ∧ j ∈ nbrs i then T i j else 0 :=
  foldl_outer2 N nbrs T a0 i j hn

/-! ### the generated functions equal the hand models -/

/-- `_dSIS_pair_based_` (EoN/analytic.py:945-1035), as generated from the source, applied to the packed state
`V = concatenate((Y, XY.flat, XX.flat))` returns `concatenate((dY, dXY.flat, dXX.flat))` where `dY`, `dXY`, `dXX`
are exactly the closed forms of the hand model `ODE.sisPairBased`: every `+=` of the three nested loops lands in the
right cell exactly once, the `continue`s are the `k ≠ i` / `k ≠ j` restrictions of the triple sums, and cells that are
not edges keep derivative 0. -/
theorem sis_pair_based_generated_eq_model (N : Nat) (nbrs : Nat → List Nat) (tr : Nat → Nat → Rat) (rr : Nat → Rat)
    (Y : Nat → Rat) (XY XX : Nat → Nat → Rat)
    (hn : ∀ u, u < N → (nbrs u).Nodup) (hb : ∀ u, u < N → ∀ v ∈ nbrs u, v < N) :
    let Vst := V.append ⟨N, Y⟩ (V.append (flat N N XY) (flat N N XX))
    let r := Gen.dSIS_pair_based Vst N nbrs tr rr
    let m := sisPairBased nbrs tr rr Y XY XX
    r.n = N + (N * N + N * N) ∧ (∀ i, i < N → r.f i = m.1 i) ∧
    (∀ i j, i < N → j < N → r.f (N + (i * N + j)) = m.2.1 i j ∧ r.f (N + (N * N + (i * N + j))) = m.2.2 i j) :=
  gen_sisPairBased N nbrs tr rr Y XY XX hn hb

/-- `_dSIR_pair_based_` (EoN/analytic.py:1037-1113), as generated from the source, applied to the packed state
`V = concatenate((X, Y, XY.flat, XX.flat))` returns the packed hand model `ODE.sirPairBased`
(`dX`, `dY`, `dXY`, `dXX` in this order). -/
theorem sir_pair_based_generated_eq_model (N : Nat) (nbrs : Nat → List Nat) (tr : Nat → Nat → Rat) (rr : Nat → Rat)
    (X Y : Nat → Rat) (XY XX : Nat → Nat → Rat)
    (hn : ∀ u, u < N → (nbrs u).Nodup) (hb : ∀ u, u < N → ∀ v ∈ nbrs u, v < N) :
    let Vst := V.append ⟨N, X⟩ (V.append ⟨N, Y⟩ (V.append (flat N N XY) (flat N N XX)))
    let r := Gen.dSIR_pair_based Vst N nbrs tr rr
    let m := sirPairBased nbrs tr rr X Y XY XX
    r.n = N + (N + (N * N + N * N)) ∧ (∀ i, i < N → r.f i = m.1 i ∧ r.f (N + i) = m.2.1 i) ∧
    (∀ i j, i < N → j < N → r.f (N + (N + (i * N + j))) = m.2.2.1 i j ∧
      r.f (N + (N + (N * N + (i * N + j)))) = m.2.2.2 i j) :=
  gen_sirPairBased N nbrs tr rr X Y XY XX hn hb

/-- Same statement for an ARBITRARY input vector (any length, any content): the output of the generated
`_dSIS_pair_based_` is the hand model evaluated on the slices `V[0:N]`, `V[N:N+N²]`, `V[N+N²:]` as the code indexes
them.  Only the absence of repeated neighbours is used. -/
theorem sis_pair_based_generated_cells (Vst : V) (N : Nat) (nbrs : Nat → List Nat) (tr : Nat → Nat → Rat)
    (rr : Nat → Rat) (hn : ∀ u, u < N → (nbrs u).Nodup) :
    let y : A := fun i => Vst.f (0 + i)
    let xy : M := fun a b => Vst.f (N + (a * N + b))
    let xx : M := fun a b => Vst.f ((N + N * N) + (a * N + b))
    let r := Gen.dSIS_pair_based Vst N nbrs tr rr
    let m := sisPairBased nbrs tr rr y xy xx
    r.n = N + (N * N + N * N) ∧ (∀ i, i < N → r.f i = m.1 i) ∧
    (∀ i j, i < N → j < N → r.f (N + (i * N + j)) = m.2.1 i j ∧ r.f (N + (N * N + (i * N + j))) = m.2.2 i j) :=
  gen_sis_cells Vst N nbrs tr rr hn

/-- The same for `_dSIR_pair_based_` and the slices `V[0:N]`, `V[N:2N]`, `V[2N:2N+N²]`, `V[2N+N²:]`. -/
theorem sir_pair_based_generated_cells (Vst : V) (N : Nat) (nbrs : Nat → List Nat) (tr : Nat → Nat → Rat)
    (rr : Nat → Rat) (hn : ∀ u, u < N → (nbrs u).Nodup) :
    let x : A := fun i => Vst.f (0 + i)
    let y : A := fun i => Vst.f (N + i)
    let xy : M := fun a b => Vst.f ((2 * N) + (a * N + b))
    let xx : M := fun a b => Vst.f (((2 * N) + N * N) + (a * N + b))
    let r := Gen.dSIR_pair_based Vst N nbrs tr rr
    let m := sirPairBased nbrs tr rr x y xy xx
    r.n = N + (N + (N * N + N * N)) ∧ (∀ i, i < N → r.f i = m.1 i ∧ r.f (N + i) = m.2.1 i) ∧
    (∀ i j, i < N → j < N → r.f (N + (N + (i * N + j))) = m.2.2.1 i j ∧
      r.f (N + (N + (N * N + (i * N + j)))) = m.2.2.2 i j) :=
  gen_sir_cells Vst N nbrs tr rr hn

/-! ### non-vacuity: path graph 0 - 1 - 2 -/

def pathNbrs : Nat → List Nat := fun u => match u with | 0 => [1] | 1 => [0, 2] | 2 => [1] | _ => []
def exTr : Nat → Nat → Rat := fun u v => ((u + 2 * v + 1 : Nat) : Rat) / 4
def exRr : Nat → Rat := fun u => ((u + 1 : Nat) : Rat) / 3
def exY : Nat → Rat := fun i => [1/2, 1/4, 0].getD i 0
def exX : Nat → Rat := fun i => [1/2, 1/2, 3/4].getD i 0
def exXY : Nat → Nat → Rat := fun i j => ((i + 2 * j + 1 : Nat) : Rat) / 10
def exXX : Nat → Nat → Rat := fun i j => ((3 * i + j + 2 : Nat) : Rat) / 20
def exVsis : V := V.append ⟨3, exY⟩ (V.append (flat 3 3 exXY) (flat 3 3 exXX))
def exVsir : V := V.append ⟨3, exX⟩ (V.append ⟨3, exY⟩ (V.append (flat 3 3 exXY) (flat 3 3 exXX)))

theorem path_nodup : ∀ u, u < 3 → (pathNbrs u).Nodup := by decide
theorem path_bound : ∀ u, u < 3 → ∀ v ∈ pathNbrs u, v < 3 := by decide

/-- the theorem applies to the path graph: `d[X_1 Y_2]/dt` of the generated SIS code is the model's -/
example : (Gen.dSIS_pair_based exVsis 3 pathNbrs exTr exRr).f (3 + (1 * 3 + 2))
    = (sisPairBased pathNbrs exTr exRr exY exXY exXX).2.1 1 2 :=
  ((sis_pair_based_generated_eq_model 3 pathNbrs exTr exRr exY exXY exXX path_nodup path_bound).2.2
    1 2 (by decide) (by decide)).1

/-- and the common value is non-trivial (computed by evaluating the generated loops) -/
example : (Gen.dSIS_pair_based exVsis 3 pathNbrs exTr exRr).f (3 + (1 * 3 + 2)) = -47 / 25 := by decide +kernel
example : (sisPairBased pathNbrs exTr exRr exY exXY exXX).2.1 1 2 = -47 / 25 := by decide +kernel

/-- SIR, `d[X_1 X_0]/dt` -/
example : (Gen.dSIR_pair_based exVsir 3 pathNbrs exTr exRr).f (3 + (3 + (3 * 3 + (1 * 3 + 0))))
    = (sirPairBased pathNbrs exTr exRr exX exY exXY exXX).2.2.2 1 0 :=
  ((sir_pair_based_generated_eq_model 3 pathNbrs exTr exRr exX exY exXY exXX path_nodup path_bound).2.2
    1 0 (by decide) (by decide)).2
example : (Gen.dSIR_pair_based exVsir 3 pathNbrs exTr exRr).f (3 + (3 + (3 * 3 + (1 * 3 + 0)))) = -9 / 20 := by
  decide +kernel

/-- accumulation lemma on a concrete loop: `for v in [1,5,1]: a[2] += v/2` from `a[2] = 1` gives `1 + 7/2` -/
example : (([1, 5, 1] : List Nat).foldl (fun a v => upd1 a 2 (a 2 + ((v : Nat) : Rat) / 2)) (fun _ => 1)) 2
    = 9 / 2 :=
  (loop_upd1 [1, 5, 1] 2 (fun v => ((v : Nat) : Rat) / 2) (fun _ => 1) 2).trans (by decide +kernel)

/-- `(nbrs u).Nodup` cannot be dropped: if node 0 lists neighbour 1 twice, the loops add the `(0,1)` terms twice
(`d[X_0 Y_1]/dt = -37/60`) while the closed-form model counts the edge once (`-37/120`). -/
def dupNbrs : Nat → List Nat := fun u => match u with | 0 => [1, 1] | 1 => [0] | _ => []
theorem nodup_needed :
    (Gen.dSIS_pair_based (V.append ⟨2, exY⟩ (V.append (flat 2 2 exXY) (flat 2 2 exXX))) 2 dupNbrs exTr exRr).f
        (2 + (0 * 2 + 1))
      ≠ (sisPairBased dupNbrs exTr exRr exY exXY exXX).2.1 0 1 := by decide +kernel

end GenEqLoops2
