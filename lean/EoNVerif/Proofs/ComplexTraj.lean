import EoNVerif.Proofs.Complex
import EoNVerif.Proofs.GillespieTraj
/-!
Induction over events for `Gillespie_complex_contagion`: the one-step selection law (`Proofs/Complex.lean`,
`Props/C15`) lifted to the law of finite histories.  Definitions (`Complex.Spec.jumpDist`, `Complex.trajDist`,
`Complex.accProd`, …) and lemmas; the property statements are in `Props/C15c.lean`.  The generic algebra of
`Dist.mass` is reused from `Proofs/GillespieTraj.lean`.
-/

/-! ### histories as lists: mass of a pushed `cons`, for any element type -/
namespace Dist
section
variable {γ : Type} [BEq (List γ)] [LawfulBEq (List γ)]

theorem mass_push_cons_eq [DecidableEq γ] (a a' : γ) (d : Dist (List γ)) (h' : List γ) :
    mass (Dist.push (fun h => a :: h) d) (fun x => x == a' :: h') =
      if a = a' then mass d (fun x => x == h') else 0 := by
  rw [mass_push]
  by_cases hc : a = a'
  · subst hc; rw [if_pos rfl]
    congr 1; funext x
    rw [Bool.eq_iff_iff]; simp
  · rw [if_neg hc]
    have : (fun x : List γ => (a :: x == a' :: h')) = fun _ => false := by
      funext x
      rw [beq_eq_false_iff_ne]
      intro h; exact hc (List.cons.inj h).1
    rw [this, mass_false]

theorem mass_push_cons_nil' (a : γ) (d : Dist (List γ)) :
    mass (Dist.push (fun h => a :: h) d) (fun x => x == []) = 0 := by
  rw [mass_push]
  have : (fun x : List γ => (a :: x == [])) = fun _ => false := by
    funext x
    rw [beq_eq_false_iff_ne]
    intro h; cases h
  rw [this, mass_false]

theorem mass_pure_nil' [DecidableEq γ] (h : List γ) :
    mass (Dist.pure ([] : List γ)) (fun x => x == h) = if h = [] then 1 else 0 := by
  rw [mass_pure]
  cases h with
  | nil => simp
  | cons a t =>
    have : (([] : List γ) == a :: t) = false := by
      rw [beq_eq_false_iff_ne]; intro h; cases h
    simp [this]

end
end Dist

/-! ### the jump chain of the specification -/
namespace Complex
variable {σ : Type} [DecidableEq σ]

namespace Spec
omit [DecidableEq σ]

/-- `Σ_x rate(status, x)` over the nodes of the network -/
def totalRate (P : CCParams σ) (st : Node → σ) : Rat := sumRat (P.nodes.map (P.rate st))

/-- the status after node `x` has made its transition: `x` moves to the status the transition choice answers -/
def apply (P : CCParams σ) (st : Node → σ) (x : Node) : Node → σ := fset st x (P.choose st x)

/-- **jump chain of the complex contagion**, first `n` jumps, as a law on histories of (node, total rate before
the event): if `Σ_x rate = 0` the history ends; otherwise node `x` is next with probability `rate x / Σ rates`,
`(x, Σ rates)` is recorded (the holding time before the event is `Exp(Σ rates)`), and the chain continues from the
status with `x` moved to `P.choose st x`. -/
def jumpDist (P : CCParams σ) : Nat → (Node → σ) → Dist (List (Node × Rat))
  | 0, _ => Dist.pure []
  | n + 1, st =>
    if totalRate P st = 0 then Dist.pure []
    else
      Dist.bind (P.nodes.map fun x => (x, P.rate st x / totalRate P st)) fun x =>
        Dist.push (fun h => (x, totalRate P st) :: h) (jumpDist P n (apply P st x))

/-- status after a history -/
def applyHist (P : CCParams σ) : (Node → σ) → List (Node × Rat) → (Node → σ)
  | st, [] => st
  | st, (x, _) :: h => applyHist P (apply P st x) h

/-- `h` is a legal path of the chain from `st`: every selected node is a node of the network with a positive rate
in the status reached by its predecessors, the recorded clock rate is the sum of the rates in that status (which is
therefore positive) -/
def Legal (P : CCParams σ) : (Node → σ) → List (Node × Rat) → Prop
  | _, [] => True
  | st, (x, r) :: h =>
    x ∈ P.nodes ∧ 0 < P.rate st x ∧ r = totalRate P st ∧ 0 < totalRate P st ∧ Legal P (apply P st x) h

end Spec

open Dist

/-- the `while` test of `Complex.loop` with no time horizon (`tmax = ∞`): the loop stops when
`nodes_by_rate.total_weight() > 0` fails (the next event time is `inf` exactly in that case, see `loop_halted`) -/
def halted (s : CCState σ) : Prop := ¬ (s.ld.totalWeight > 0)

instance (s : CCState σ) : Decidable (halted s) := inferInstanceAs (Decidable (¬ (s.ld.totalWeight > 0)))

/-- **law of the first `n` events of the model's loop** (histories of (node, rate handed to `expovariate` before
the event)).  Mirrors `Complex.loop`: stop test `halted`; node selection `s.ld.chooseDist k` (the `k`-round
rejection sampler of the weighted `_ListDict_`); `none` (= `chooseTM` out of fuel, an error of the tape model, not a
stop) contributes no history, so the law is a sub-distribution whose missing mass is the probability that some
sampler exhausted its `k` rounds; `applyEvent … = none` (KeyError) likewise contributes nothing (and is
unreachable, `traj_status`).  The event time passed to `applyEvent` is `0`: it is only recorded (`trajDistT_eq'`). -/
def trajDist (P : CCParams σ) (k : Nat) : Nat → CCState σ → Dist (List (Node × Rat))
  | 0, _ => Dist.pure []
  | n + 1, s =>
    if halted s then Dist.pure []
    else
      Dist.bind (s.ld.chooseDist k) fun o =>
        match o with
        | none => []
        | some x =>
          match applyEvent P s x 0 with
          | none => []
          | some s' => Dist.push (fun h => (x, s.ld.totalWeight) :: h) (trajDist P k n s')

/-- `Π_i (1 - ρ_i^k)`: product of the acceptance factors of `nodes_by_rate` along the model's path through `h`
(each factor in the state reached after the preceding events).  On histories that are not paths (node not a
candidate) the value is immaterial (both masses are 0) and set to 1. -/
def accProd (P : CCParams σ) (k : Nat) : CCState σ → List (Node × Rat) → Rat
  | _, [] => 1
  | s, (x, _) :: h =>
    if x ∈ s.ld.items then
      match applyEvent P s x 0 with
      | some s' => (1 - s.ld.rejProb ^ k) * accProd P k s' h
      | none => 1
    else 1

/-- `Σ_i ρ_i^k` along the model's path through `h` -/
def defectSum (P : CCParams σ) (k : Nat) : CCState σ → List (Node × Rat) → Rat
  | _, [] => 0
  | s, (x, _) :: h =>
    if x ∈ s.ld.items then
      match applyEvent P s x 0 with
      | some s' => s.ld.rejProb ^ k + defectSum P k s' h
      | none => 0
    else 0

/-- the model's state after a history (event times recorded as 0) -/
def applyHist (P : CCParams σ) : CCState σ → List (Node × Rat) → Option (CCState σ)
  | s, [] => some s
  | s, (x, _) :: h =>
    match applyEvent P s x 0 with
    | some s' => applyHist P s' h
    | none => none

/-! ### the stop test -/

omit [DecidableEq σ] in
theorem spec_totalRate_nonneg (P : CCParams σ) (h : WF P) (st : Node → σ) : 0 ≤ Spec.totalRate P st :=
  sumRat_map_nonneg _ _ (fun c _ => h.rate_nonneg st c)

theorem clock_spec (P : CCParams σ) (h : WF P) (s : CCState σ) (hs : Inv P s) :
    s.ld.totalWeight = Spec.totalRate P s.status := clock_eq' P h s hs

/-- under the invariant the loop's stop test is "the chain is in an absorbing status" -/
theorem halted_iff (P : CCParams σ) (h : WF P) (s : CCState σ) (hs : Inv P s) :
    halted s ↔ Spec.totalRate P s.status = 0 := by
  unfold halted
  rw [clock_spec P h s hs]
  have := spec_totalRate_nonneg P h s.status
  constructor
  · intro hn; exact le_antisymm (not_lt.1 hn) this
  · intro h0; rw [h0]; exact lt_irrefl 0

omit [DecidableEq σ] in
theorem pos_of_not_halted (s : CCState σ) (hh : ¬ halted s) : 0 < s.ld.totalWeight := by
  unfold halted at hh
  exact not_not.1 hh

/-! ### one step of the two laws -/

/-- mass of the continuation after `x` -/
def contMass (P : CCParams σ) (k n : Nat) (s : CCState σ) (x : Node) (h' : List (Node × Rat)) : Rat :=
  match applyEvent P s x 0 with
  | some s' => mass (trajDist P k n s') (fun y => y == h')
  | none => 0

theorem traj_zero (P : CCParams σ) (k : Nat) (s : CCState σ) : trajDist P k 0 s = Dist.pure [] := rfl

theorem traj_halted (P : CCParams σ) (k n : Nat) (s : CCState σ) (hh : halted s) :
    trajDist P k n s = Dist.pure [] := by
  cases n with
  | zero => rfl
  | succ n => rw [trajDist, if_pos hh]

theorem traj_nil (P : CCParams σ) (k n : Nat) (s : CCState σ) (hh : ¬ halted s) :
    mass (trajDist P k (n + 1) s) (fun y => y == []) = 0 := by
  rw [trajDist, if_neg hh]
  apply mass_bind_zero
  rintro ⟨o, p⟩ _
  cases o with
  | none => rfl
  | some e =>
    dsimp only
    cases applyEvent P s e 0 with
    | none => rfl
    | some s' => exact mass_push_cons_nil' _ _

theorem traj_step (P : CCParams σ) (k n : Nat) (s : CCState σ) (hh : ¬ halted s) (x : Node) (r : Rat)
    (h' : List (Node × Rat)) :
    mass (trajDist P k (n + 1) s) (fun y => y == (x, r) :: h') =
      if r = s.ld.totalWeight then
        mass (s.ld.chooseDist k) (fun o => o == some x) * contMass P k n s x h'
      else 0 := by
  rw [trajDist, if_neg hh]
  by_cases hr : r = s.ld.totalWeight
  · rw [if_pos hr]
    apply mass_bind_indicator
    rintro ⟨o, p⟩ _
    cases o with
    | none => simp [mass_nil]
    | some e2 =>
      dsimp only
      by_cases he : e2 = x
      · subst he
        simp only [beq_self_eq_true, if_true]
        unfold contMass
        cases applyEvent P s e2 0 with
        | none => rfl
        | some s' =>
          dsimp only
          rw [mass_push_cons_eq, if_pos (by rw [hr])]
      · have : (some e2 == some x) = false := by simp [he]
        rw [this]
        simp only [Bool.false_eq_true, if_false]
        cases applyEvent P s e2 0 with
        | none => rfl
        | some s' =>
          dsimp only
          rw [mass_push_cons_eq, if_neg (fun hc => he (Prod.mk.inj hc).1)]
  · rw [if_neg hr]
    apply mass_bind_zero
    rintro ⟨o, p⟩ _
    cases o with
    | none => rfl
    | some e2 =>
      dsimp only
      cases applyEvent P s e2 0 with
      | none => rfl
      | some s' =>
        dsimp only
        rw [mass_push_cons_eq, if_neg (fun hc => hr (Prod.mk.inj hc).2.symm)]

omit [DecidableEq σ] in
theorem chain_zero (P : CCParams σ) (st : Node → σ) : Spec.jumpDist P 0 st = Dist.pure [] := rfl

omit [DecidableEq σ] in
theorem chain_halted (P : CCParams σ) (n : Nat) (st : Node → σ) (h0 : Spec.totalRate P st = 0) :
    Spec.jumpDist P n st = Dist.pure [] := by
  cases n with
  | zero => rfl
  | succ n => rw [Spec.jumpDist, if_pos h0]

omit [DecidableEq σ] in
theorem chain_nil (P : CCParams σ) (n : Nat) (st : Node → σ) (h0 : Spec.totalRate P st ≠ 0) :
    mass (Spec.jumpDist P (n + 1) st) (fun y => y == []) = 0 := by
  rw [Spec.jumpDist, if_neg h0]
  apply mass_bind_zero
  rintro ⟨e, p⟩ _
  exact mass_push_cons_nil' _ _

omit [DecidableEq σ] in
theorem chain_step (P : CCParams σ) (hnd : P.nodes.Nodup) (n : Nat) (st : Node → σ)
    (h0 : Spec.totalRate P st ≠ 0) (x : Node) (r : Rat) (h' : List (Node × Rat)) :
    mass (Spec.jumpDist P (n + 1) st) (fun y => y == (x, r) :: h') =
      if r = Spec.totalRate P st then
        (if x ∈ P.nodes then P.rate st x / Spec.totalRate P st else 0) *
          mass (Spec.jumpDist P n (Spec.apply P st x)) (fun y => y == h')
      else 0 := by
  rw [Spec.jumpDist, if_neg h0]
  by_cases hr : r = Spec.totalRate P st
  · rw [if_pos hr, ← mass_map_point P.nodes (fun e => P.rate st e / Spec.totalRate P st) x hnd]
    apply mass_bind_indicator
    rintro ⟨e2, p⟩ _
    dsimp only
    rw [mass_push_cons_eq]
    by_cases he : e2 = x
    · subst he; simp [hr]
    · have : ¬ ((e2, Spec.totalRate P st) = (x, r)) := fun hc => he (Prod.mk.inj hc).1
      simp [he, this]
  · rw [if_neg hr]
    apply mass_bind_zero
    rintro ⟨e2, p⟩ _
    dsimp only
    rw [mass_push_cons_eq, if_neg (fun hc => hr (Prod.mk.inj hc).2.symm)]

/-! ### the induction over events -/

/-- a candidate can be applied whatever time is recorded: no KeyError, invariant preserved, status as in the
chain -/
theorem applyEvent_spec (P : CCParams σ) (h : WF P) (s : CCState σ) (hs : Inv P s) (x : Node) (t : Rat)
    (hx : x ∈ s.ld.items) :
    ∃ s', applyEvent P s x t = some s' ∧ Inv P s' ∧ s'.status = Spec.apply P s.status x :=
  applyEvent_inv' P h s hs x t hx

/-- the one-step selection law on candidates, with the chain's normalisation -/
theorem jump_law_node (P : CCParams σ) (h : WF P) (s : CCState σ) (hs : Inv P s) (x : Node)
    (hx : x ∈ s.ld.items) (k : Nat) :
    mass (s.ld.chooseDist k) (fun o => o == some x) =
      P.rate s.status x / Spec.totalRate P s.status * (1 - s.ld.rejProb ^ k) := by
  obtain ⟨h1, h2⟩ := (mem_items_iff P h s hs x).1 hx
  exact next_node_law' P h s hs x h1 h2 k

/-- **trajectory law**: mass of a history under the model's `n`-event law = its mass under the jump chain × the
product of the acceptance factors along it -/
theorem traj_law (P : CCParams σ) (h : WF P) (k n : Nat) (s : CCState σ) (hs : Inv P s)
    (hist : List (Node × Rat)) :
    mass (trajDist P k n s) (fun y => y == hist) =
      mass (Spec.jumpDist P n s.status) (fun y => y == hist) * accProd P k s hist := by
  induction n generalizing s hist with
  | zero =>
    rw [traj_zero, chain_zero, mass_pure_nil']
    cases hist with
    | nil => simp [accProd]
    | cons a t => simp
  | succ n ih =>
    by_cases hh : halted s
    · rw [traj_halted P k _ s hh, chain_halted P _ _ ((halted_iff P h s hs).1 hh), mass_pure_nil']
      cases hist with
      | nil => simp [accProd]
      | cons a t => simp
    · have h0 : Spec.totalRate P s.status ≠ 0 := fun hc => hh ((halted_iff P h s hs).2 hc)
      cases hist with
      | nil => rw [traj_nil P k n s hh, chain_nil P n _ h0]; ring
      | cons a h' =>
        obtain ⟨x, r⟩ := a
        rw [traj_step P k n s hh, chain_step P h.nodup n _ h0, clock_spec P h s hs]
        by_cases hr : r = Spec.totalRate P s.status
        · rw [if_pos hr, if_pos hr]
          by_cases hx : x ∈ s.ld.items
          · obtain ⟨s', h1, h2, h3⟩ := applyEvent_spec P h s hs x 0 hx
            rw [jump_law_node P h s hs x hx k, if_pos (hs.items_mem x hx)]
            unfold contMass
            rw [accProd, if_pos hx, h1]
            dsimp only
            rw [ih s' h2 h', h3]; ring
          · have e1 : mass (s.ld.chooseDist k) (fun o => o == some x) = 0 :=
              LD.chooseDist_not_mem s.ld x hx k
            rw [e1, accProd, if_neg hx]
            by_cases hxn : x ∈ P.nodes
            · have hle : ¬ 0 < P.rate s.status x := fun hp => hx (hs.pos x hxn hp).1
              have hz : P.rate s.status x = 0 := le_antisymm (not_lt.1 hle) (h.rate_nonneg _ _)
              rw [if_pos hxn, hz]; ring
            · rw [if_neg hxn]; ring
        · rw [if_neg hr, if_neg hr]; ring

/-! ### bounds on the acceptance factors -/

theorem defect_unit (P : CCParams σ) (s : CCState σ) (hs : Inv P s) (k : Nat) :
    0 ≤ s.ld.rejProb ^ k ∧ s.ld.rejProb ^ k ≤ 1 := by
  obtain ⟨h1, h2⟩ := Gillespie.rej_unit s.ld hs.ldInv hs.weighted
  exact ⟨pow_nonneg h1 k, pow_le_one₀ h1 h2⟩

/-- `0 ≤ Π c_i ≤ 1` and `Π (1-ρ_i^k) ≥ 1 - Σ ρ_i^k`, `Σ ρ_i^k ≥ 0` -/
theorem accProd_bounds (P : CCParams σ) (h : WF P) (k : Nat) (s : CCState σ) (hs : Inv P s)
    (hist : List (Node × Rat)) :
    0 ≤ accProd P k s hist ∧ accProd P k s hist ≤ 1 ∧ 1 - defectSum P k s hist ≤ accProd P k s hist ∧
      0 ≤ defectSum P k s hist := by
  induction hist generalizing s with
  | nil => simp [accProd, defectSum]
  | cons a t ih =>
    obtain ⟨x, r⟩ := a
    by_cases hx : x ∈ s.ld.items
    · obtain ⟨s', h1, h2, -⟩ := applyEvent_spec P h s hs x 0 hx
      rw [accProd, defectSum, if_pos hx, if_pos hx, h1]
      dsimp only
      obtain ⟨i1, i2, i3, i4⟩ := ih s' h2
      obtain ⟨d1, d2⟩ := defect_unit P s hs k
      refine ⟨mul_nonneg (by linarith) i1, ?_, ?_, by linarith⟩
      · nlinarith
      · nlinarith
    · rw [accProd, defectSum, if_neg hx, if_neg hx]
      simp

/-! ### the chain's law is a non-negative measure of total mass 1 -/

omit [DecidableEq σ] in
theorem jumpDist_nonneg (P : CCParams σ) (hnn : ∀ st u, 0 ≤ P.rate st u) (n : Nat) (st : Node → σ) :
    Dist.NonNeg (Spec.jumpDist P n st) := by
  induction n generalizing st with
  | zero => exact nonneg_pure _
  | succ n ih =>
    rw [Spec.jumpDist]
    split
    · exact nonneg_pure _
    · apply nonneg_bind
      · intro x hx
        simp only [List.mem_map] at hx
        obtain ⟨e, -, rfl⟩ := hx
        exact div_nonneg (hnn st e) (sumRat_map_nonneg _ _ (fun c _ => hnn st c))
      · intro x _
        exact nonneg_push _ _ (ih _)

omit [DecidableEq σ] in
theorem jumpDist_total (P : CCParams σ) (n : Nat) (st : Node → σ) :
    mass (Spec.jumpDist P n st) (fun _ => true) = 1 := by
  induction n generalizing st with
  | zero => simp [chain_zero, mass_pure]
  | succ n ih =>
    rw [Spec.jumpDist]
    split
    · simp [mass_pure]
    · rename_i h0
      rw [mass_bind, List.map_map,
        sumRat_map_congr _ _ (fun e => P.rate st e * (Spec.totalRate P st)⁻¹) (by
          intro e _
          simp only [Function.comp]
          rw [mass_push, ih]; ring),
        sumRat_map_mul_right]
      change Spec.totalRate P st * (Spec.totalRate P st)⁻¹ = 1
      field_simp

/-! ### support: positive-mass histories are legal paths -/

omit [DecidableEq σ] in
/-- support of the jump chain: legal path, at most `n` events, and fewer than `n` only if it ends absorbed -/
theorem chain_support (P : CCParams σ) (hnd : P.nodes.Nodup) (hnn : ∀ st u, 0 ≤ P.rate st u) (n : Nat)
    (st : Node → σ) (hist : List (Node × Rat))
    (hm : mass (Spec.jumpDist P n st) (fun y => y == hist) ≠ 0) :
    Spec.Legal P st hist ∧ hist.length ≤ n ∧
      (hist.length < n → Spec.totalRate P (Spec.applyHist P st hist) = 0) := by
  induction n generalizing st hist with
  | zero =>
    rw [chain_zero, mass_pure_nil'] at hm
    cases hist with
    | nil => simp [Spec.Legal]
    | cons a t => simp at hm
  | succ n ih =>
    by_cases h0 : Spec.totalRate P st = 0
    · rw [chain_halted P _ _ h0, mass_pure_nil'] at hm
      cases hist with
      | nil => simp [Spec.Legal, Spec.applyHist, h0]
      | cons a t => simp at hm
    · cases hist with
      | nil => exact absurd (chain_nil P n st h0) hm
      | cons a h' =>
        obtain ⟨x, r⟩ := a
        rw [chain_step P hnd n st h0] at hm
        by_cases hr : r = Spec.totalRate P st
        · rw [if_pos hr] at hm
          by_cases hx : x ∈ P.nodes
          · rw [if_pos hx] at hm
            obtain ⟨i1, i2, i3⟩ := ih (Spec.apply P st x) h' (right_ne_zero_of_mul hm)
            have hpos : 0 < Spec.totalRate P st :=
              lt_of_le_of_ne (sumRat_map_nonneg _ _ (fun c _ => hnn st c)) (Ne.symm h0)
            have hrx : P.rate st x ≠ 0 := by
              intro hc
              apply left_ne_zero_of_mul hm
              rw [hc]; simp
            have hrp : 0 < P.rate st x := lt_of_le_of_ne (hnn st x) (Ne.symm hrx)
            refine ⟨⟨hx, hrp, hr, hpos, i1⟩, ?_, ?_⟩
            · simp only [List.length_cons]; omega
            · intro hl
              simp only [List.length_cons] at hl
              exact i3 (by omega)
          · rw [if_neg hx] at hm; simp at hm
        · rw [if_neg hr] at hm; exact absurd rfl hm

omit [DecidableEq σ] in
theorem legal_prefix (P : CCParams σ) (st : Node → σ) (h1 h2 : List (Node × Rat))
    (hl : Spec.Legal P st (h1 ++ h2)) : Spec.Legal P st h1 := by
  induction h1 generalizing st with
  | nil => trivial
  | cons a t ih =>
    obtain ⟨x, r⟩ := a
    obtain ⟨a1, a2, a3, a4, a5⟩ := hl
    exact ⟨a1, a2, a3, a4, ih _ a5⟩

/-- along a legal path of the chain the model never raises KeyError, keeps its invariant, and its status is the
chain's -/
theorem legal_applyHist (P : CCParams σ) (h : WF P) (s : CCState σ) (hs : Inv P s) (hist : List (Node × Rat))
    (hl : Spec.Legal P s.status hist) :
    ∃ s', applyHist P s hist = some s' ∧ Inv P s' ∧ s'.status = Spec.applyHist P s.status hist := by
  induction hist generalizing s with
  | nil => exact ⟨s, rfl, hs, rfl⟩
  | cons a t ih =>
    obtain ⟨x, r⟩ := a
    obtain ⟨a1, a2, -, -, a5⟩ := hl
    have hx : x ∈ s.ld.items := (hs.pos x a1 a2).1
    obtain ⟨s', h1, h2, h3⟩ := applyEvent_spec P h s hs x 0 hx
    rw [← h3] at a5
    obtain ⟨s'', g1, g2, g3⟩ := ih s' h2 a5
    refine ⟨s'', ?_, g2, ?_⟩
    · rw [applyHist, h1]; exact g1
    · rw [g3, h3]; rfl

/-! ### the defect vanishes as the budget of rejection rounds grows -/

/-- when the loop has not stopped the weight sum of `nodes_by_rate` is positive, hence `ρ < 1` (C16) -/
theorem stepDefect_small (P : CCParams σ) (h : WF P) (s : CCState σ) (hs : Inv P s)
    (hpos : 0 < Spec.totalRate P s.status) (ε : Rat) (hε : 0 < ε) :
    ∃ K : Nat, ∀ k, K ≤ k → s.ld.rejProb ^ k ≤ ε := by
  have hW : 0 < s.ld.weightSum := by rw [weightSum_eq P h s hs]; exact hpos
  obtain ⟨b1, b2⟩ := LD.rej_bounds s.ld hs.ldInv hs.weighted hW
  exact Gillespie.pow_small _ ε b1 b2 hε

theorem defect_small (P : CCParams σ) (h : WF P) (s : CCState σ) (hs : Inv P s) (hist : List (Node × Rat))
    (hl : Spec.Legal P s.status hist) (ε : Rat) (hε : 0 < ε) :
    ∃ K : Nat, ∀ k, K ≤ k → defectSum P k s hist ≤ ε := by
  induction hist generalizing s ε with
  | nil => exact ⟨0, fun k _ => by simp only [defectSum]; exact le_of_lt hε⟩
  | cons a t ih =>
    obtain ⟨x, r⟩ := a
    obtain ⟨a1, a2, -, a4, a5⟩ := hl
    have hx : x ∈ s.ld.items := (hs.pos x a1 a2).1
    obtain ⟨s', h1, h2, h3⟩ := applyEvent_spec P h s hs x 0 hx
    rw [← h3] at a5
    have hε2 : 0 < ε / 2 := by linarith
    obtain ⟨K1, hK1⟩ := ih s' h2 a5 (ε / 2) hε2
    obtain ⟨K2, hK2⟩ := stepDefect_small P h s hs a4 (ε / 2) hε2
    refine ⟨max K1 K2, fun k hk => ?_⟩
    rw [defectSum, if_pos hx, h1]
    dsimp only
    have := hK1 k (le_trans (le_max_left _ _) hk)
    have := hK2 k (le_trans (le_max_right _ _) hk)
    linarith

/-! ### recorded times do not influence the law -/

/-- the part of the state that selection and bookkeeping read: everything except the recorded times and the log -/
def Core (a b : CCState σ) : Prop := a.status = b.status ∧ a.ld = b.ld ∧ a.data = b.data

omit [DecidableEq σ] in
theorem core_refl (a : CCState σ) : Core a a := ⟨rfl, rfl, rfl⟩

/-- `applyEvent` with two different event times: same outcome class, same core -/
theorem applyEvent_core (P : CCParams σ) (a b : CCState σ) (hc : Core a b) (x : Node) (t t' : Rat) :
    match applyEvent P a x t, applyEvent P b x t' with
    | some a', some b' => Core a' b'
    | none, none => True
    | _, _ => False := by
  rcases a with ⟨st, ld, tm, dt, lg⟩
  rcases b with ⟨st', ld', tm', dt', lg'⟩
  obtain ⟨h1, h2, h3⟩ := hc
  dsimp only at h1 h2 h3
  subst h1 h2 h3
  rw [applyEvent_eq, applyEvent_eq]
  dsimp only
  cases insertAll P (fset st x (P.choose st x)) (x :: P.infl (fset st x (P.choose st x)) x) ld with
  | none => trivial
  | some l1 => exact ⟨rfl, rfl, rfl⟩

/-- the `n`-event law with an arbitrary supply of recorded event times (one per event) -/
def trajDistT (P : CCParams σ) (k : Nat) : List Rat → CCState σ → Dist (List (Node × Rat))
  | [], _ => Dist.pure []
  | t :: ts, s =>
    if halted s then Dist.pure []
    else
      Dist.bind (s.ld.chooseDist k) fun o =>
        match o with
        | none => []
        | some x =>
          match applyEvent P s x t with
          | none => []
          | some s' => Dist.push (fun h => (x, s.ld.totalWeight) :: h) (trajDistT P k ts s')

theorem trajDistT_eq' (P : CCParams σ) (k : Nat) (ts : List Rat) (a b : CCState σ) (hc : Core a b) :
    trajDistT P k ts a = trajDist P k ts.length b := by
  induction ts generalizing a b with
  | nil => rfl
  | cons t ts ih =>
    obtain ⟨-, c2, -⟩ := id hc
    have e2 : halted a ↔ halted b := by unfold halted; rw [c2]
    rw [trajDistT, List.length_cons, trajDist]
    by_cases hh : halted a
    · rw [if_pos hh, if_pos (e2.1 hh)]
    · rw [if_neg hh, if_neg (fun hb => hh (e2.2 hb)), c2]
      congr 1
      funext o
      cases o with
      | none => rfl
      | some e =>
        dsimp only
        have := applyEvent_core P a b hc e t 0
        cases ha : applyEvent P a e t with
        | none =>
          cases hb : applyEvent P b e 0 with
          | none => rfl
          | some b' => rw [ha, hb] at this; exact absurd this id
        | some a' =>
          cases hb : applyEvent P b e 0 with
          | none => rw [ha, hb] at this; exact absurd this id
          | some b' =>
            rw [ha, hb] at this
            dsimp only at this ⊢
            rw [ih a' b' this]

/-! ### `halted` is the tape loop's stop test -/

/-- the tape loop (no time horizon) returns the current state exactly on `halted` … -/
theorem loop_halted (P : CCParams σ) (cfuel fuel : Nat) (s : CCState σ) (tv : Rat) (hh : halted s) :
    loop P none cfuel (fuel + 1) s (if s.ld.totalWeight > 0 then some tv else none) = (Pure.pure s : TM (CCState σ)) := by
  have hp : ¬ (s.ld.totalWeight > 0) := hh
  rw [if_neg hp, loop]

/-- … and otherwise selects a node with `chooseTM` on `nodes_by_rate` in `s`, applies the event, and draws the next
holding time with the total weight of the new state -/
theorem loop_running (P : CCParams σ) (cfuel fuel : Nat) (s : CCState σ) (tv : Rat) (hh : ¬ halted s) :
    loop P none cfuel (fuel + 1) s (if s.ld.totalWeight > 0 then some tv else none) =
      (do
        let node ← Gillespie.chooseTM Gillespie.encNode s.ld cfuel
        match applyEvent P s node tv with
        | none => TM.fail "KeyError"
        | some s' =>
          if s'.ld.totalWeight > 0 then do
            let d ← TM.popExpo s'.ld.totalWeight
            loop P none cfuel fuel s' (some (tv + d))
          else loop P none cfuel fuel s' none) := by
  have hp : s.ld.totalWeight > 0 := pos_of_not_halted s hh
  rw [if_pos hp, loop, if_neg (by simp [hp, ERat.lt])]
  rfl

end Complex
