"""Correspondence for two small shared pieces of EoN.simulation:
* `_transform_to_node_history_`  vs  Lean `History.sirHist` / `History.sisHist`   (driver op "hist")
* the initial-condition argument normalisation vs Lean `InitArgs.normInit`          (driver op "norminit")
"""
from collections import defaultdict
from fractions import Fraction as F
from common import rs


def _times(rng, tmin, k, ties=True):
    out = []
    for _ in range(k):
        if ties and rng.random() < 0.3:
            out.append(tmin)
        else:
            out.append(tmin + F(rng.randrange(0, 17), 4))
    return out


def hist_stream(ctx, drv, count):
    """random (also degenerate) infection/recovery time tables through the real `_transform_to_node_history_` and the model"""
    import EoN.simulation as sim
    reqs, metas = [], []
    for _ in range(count):
        tmin = ctx.rng.choice([F(0), F(1), F(-1, 2), F(3)])
        sir = ctx.rng.random() < 0.5
        n = ctx.rng.randint(1, 5)
        if sir:
            inf = {v: _times(ctx.rng, tmin, 1)[0] for v in range(n) if ctx.rng.random() < 0.7}
            rec = {}
            for v in range(n):
                if ctx.rng.random() < 0.5:
                    base = inf.get(v, tmin)
                    rec[v] = base + (0 if ctx.rng.random() < 0.3 else F(ctx.rng.randrange(0, 9), 4))
            impl = sim._transform_to_node_history_({v: float(t) for v, t in inf.items()}, {v: float(t) for v, t in rec.items()},
                                                   float(tmin), SIR=True)
            for v in range(n):
                if v not in inf and v not in rec:
                    continue
                reqs.append(dict(op="hist", sir=True, tmin=str(tmin), inf=(str(inf[v]) if v in inf else None),
                                 rec=(str(rec[v]) if v in rec else None)))
                metas.append((dict(entry="_transform_to_node_history_", stream="hist", sir=True, tmin=str(tmin),
                                   inf=(rs(inf[v]) if v in inf else None), rec=(rs(rec[v]) if v in rec else None)), impl[v]))
        else:
            infs, recs = {}, defaultdict(list)
            for v in range(n):
                k = ctx.rng.randint(0, 4)
                ts = sorted(_times(ctx.rng, tmin, 2 * k, ties=False))
                it, rt = ts[0::2], ts[1::2]
                if it and ctx.rng.random() < 0.5:
                    it[0] = tmin
                if rt and ctx.rng.random() < 0.4:
                    rt = rt[:-1]                    # still infected at the end
                if ctx.rng.random() < 0.15:
                    rt = rt + [tmin + 9]           # an unmatched extra entry (ignored by both)
                if it or ctx.rng.random() < 0.5:
                    infs[v] = it
                recs[v] = rt
            want = {v: (list(infs[v]), list(recs[v])) for v in infs}
            impl = sim._transform_to_node_history_({v: [float(t) for t in l] for v, l in infs.items()},
                                                   defaultdict(list, {v: [float(t) for t in l] for v, l in recs.items()}),
                                                   float(tmin), SIR=False)
            for v, (it, rt) in want.items():
                if not it:
                    continue            # no entry is materialised for a never-infected node
                reqs.append(dict(op="hist", sir=False, tmin=str(tmin), infs=[str(t) for t in it], recs=[str(t) for t in rt]))
                metas.append((dict(entry="_transform_to_node_history_", stream="hist", sir=False, tmin=str(tmin),
                                   infs=[str(t) for t in it], recs=[str(t) for t in rt]), impl[v]))
    generated_transform(ctx, reqs, metas)
    for (rep, h), r in zip(metas, drv.batch(reqs)):
        ctx.count("hist:%s" % ("SIR" if rep["sir"] else "SIS"))
        ctx.case(rep, nontrivial=True)
        mine = [[str(F(t).limit_denominator(1024)), s] for t, s in zip(h[0], h[1])]
        if not r.get("ok"):
            ctx.disagreement("hist-driver", dict(rep, resp=r))
        elif mine != [[t, s] for t, s in r["hist"]]:
            ctx.disagreement("hist", dict(rep, impl=mine, model=r["hist"]))


def generated_transform(ctx, reqs, metas):
    """the Lean code GENERATED from _transform_to_node_history_ (Gen/InvestGen.lean) on the same inputs"""
    import fcntl, subprocess, os, json, pyinvest2lean, common
    lean = common.LEAN
    os.makedirs(os.path.join(lean, ".audit"), exist_ok=True)
    with open(os.path.join(lean, ".audit", "geninv.lock"), "w") as lock:
        fcntl.flock(lock, fcntl.LOCK_EX)
        try:
            _, errors = pyinvest2lean.regenerate()
        except Exception as e:
            errors = {"translator": "crashed: %r" % e}
        if errors:
            ctx.disagreement("generated-transform:translation", dict(entry="_transform_to_node_history_", errors=errors))
            return
        p = common.lake(["build", "driverinv"])
    if p.returncode != 0:
        ctx.disagreement("generated-transform:build", dict(entry="_transform_to_node_history_", log=(p.stdout + p.stderr)[-800:]))
        return
    exe = os.path.join(lean, ".lake", "build", "bin", "driverinv")
    data = "\n".join(json.dumps(r, separators=(",", ":")) for r in reqs) + "\n"
    q = subprocess.run([exe], input=data, capture_output=True, text=True)
    lines = q.stdout.splitlines()
    if q.returncode != 0 or len(lines) != len(reqs):
        raise RuntimeError("driverinv crashed: " + q.stderr[-1000:])
    for (rep, h), line in zip(metas, lines):
        g = json.loads(line)
        ctx.count("hist:generated-model-runs")
        mine = [[str(F(t).limit_denominator(1024)), s] for t, s in zip(h[0], h[1])]
        if not g.get("ok") or mine != [[t, s] for t, s in g["hist"]]:
            ctx.disagreement("generated-transform", dict(rep, impl=mine, generated=g))


def norminit_requests(c, out):
    """the driver request reproducing the argument normalisation of one simulator call (tape = its sample draws)"""
    li = out["lab_index"]
    init = c["init"]
    if init["kind"] == "list":
        spec = dict(kind="list", nodes=out.get("init_order") or [li[i] for i in init["nodes"]])
    elif init["kind"] == "single":
        spec = dict(kind="single", node=li[init["node"]])
    elif init["kind"] == "rho":
        spec = dict(kind="rho", rho=init["rho"])
    else:
        spec = dict(kind="default")
    tape = [d for d in out["tape"] if d[0] == "s"][:1]
    return dict(op="norminit", n=c["n"], init=spec, tape=tape)
