import EoNVerif.Gen.Analytic
import EoNVerif.Proofs.ODESemi
import Mathlib.Tactic.Ring
import Mathlib.Tactic.FieldSimp
/-!
The functions generated from `EoN/analytic.py` by `harness/py2lean.py` (`Gen/Analytic.lean`) compute exactly the
hand-written right-hand sides of `Model/ODE.lean`, for every state and parameter.
State vectors are packed the way the solvers pack them (`np.concatenate` / `np.array`).
-/
set_option linter.unusedTactic false
set_option linter.unreachableTactic false
set_option linter.unusedSimpArgs false
namespace GenEq
open Gen ODE

/-- two-entry / n-entry vectors as lists -/
theorem toList_ofList (l : List Rat) : (V.ofList l).toList = l := by
  unfold V.toList V.ofList
  apply List.ext_getElem
  · simp
  · intro i h1 h2
    simp at h1
    simp [List.getD_eq_getElem?_getD, h1]

theorem gen_sisHomMF (nN tau gamma S I : Rat) :
    let r := dSIS_homogeneous_meanfield (V.ofList [S, I]) nN tau gamma
    let m := sisHomMF nN tau gamma S I
    r.n = 2 ∧ r.f 0 = m.1 ∧ r.f 1 = m.2 := by
  refine ⟨rfl, ?_, ?_⟩ <;> simp [dSIS_homogeneous_meanfield, sisHomMF, V.ofList] <;> ring

theorem gen_sirHomMF (nN tau gamma S I : Rat) :
    let r := dSIR_homogeneous_meanfield (V.ofList [S, I]) nN tau gamma
    let m := sirHomMF nN tau gamma S I
    r.n = 2 ∧ r.f 0 = m.1 ∧ r.f 1 = m.2 := by
  refine ⟨rfl, ?_, ?_⟩ <;> simp [dSIR_homogeneous_meanfield, sirHomMF, V.ofList] <;> ring

theorem gen_sisHomPW (N n tau gamma S SI SS : Rat) :
    let r := dSIS_homogeneous_pairwise (V.ofList [S, SI, SS]) N n tau gamma
    let m := sisHomPW N n tau gamma S SI SS
    r.n = 3 ∧ r.f 0 = m.1 ∧ r.f 1 = m.2.1 ∧ r.f 2 = m.2.2 := by
  refine ⟨rfl, ?_, ?_, ?_⟩ <;> simp [dSIS_homogeneous_pairwise, sisHomPW, V.ofList] <;> ring

theorem gen_sirHomPW (n tau gamma S I SI SS : Rat) :
    let r := dSIR_homogeneous_pairwise (V.ofList [S, I, SI, SS]) n tau gamma
    let m := sirHomPW n tau gamma S I SI SS
    r.n = 4 ∧ r.f 0 = m.1 ∧ r.f 1 = m.2.1 ∧ r.f 2 = m.2.2.1 ∧ r.f 3 = m.2.2.2 := by
  refine ⟨rfl, ?_, ?_, ?_, ?_⟩ <;> simp [dSIR_homogeneous_pairwise, sirHomPW, V.ofList] <;> ring

theorem gen_sisSuperCompactPW (tau gamma N k1 k2 k3 I SS SI II : Rat) :
    let r := dSIS_super_compact_pairwise (V.ofList [I, SS, SI, II]) tau gamma N k1 k2 k3
    let m := sisSuperCompactPW tau gamma N k1 k2 k3 I SS SI II
    r.n = 4 ∧ r.f 0 = m.1 ∧ r.f 1 = m.2.1 ∧ r.f 2 = m.2.2.1 ∧ r.f 3 = m.2.2.2 := by
  refine ⟨rfl, ?_, ?_, ?_, ?_⟩ <;> simp [dSIS_super_compact_pairwise, sisSuperCompactPW, V.ofList] <;> ring

theorem gen_sirSuperCompactPW (K : Nat) (c : Nat → Rat) (tau gamma N theta SS SI R : Rat) :
    let r := dSIR_super_compact_pairwise (V.ofList [theta, SS, SI, R]) tau gamma (psiH K c) (psiHP K c) (psiHDP K c) N
    let m := sirSuperCompactPW K c tau gamma N theta SS SI R
    r.n = 4 ∧ r.f 0 = m.1 ∧ r.f 1 = m.2.1 ∧ r.f 2 = m.2.2.1 ∧ r.f 3 = m.2.2.2 := by
  refine ⟨rfl, ?_, ?_, ?_, ?_⟩ <;> simp [dSIR_super_compact_pairwise, sirSuperCompactPW, V.ofList] <;> ring

/-- `_dEBCM_` guards the normalising constant ψ̂'(1) against 0 (no node with a neighbour); away from that case it is
the model's right-hand side. -/
theorem gen_ebcm (K : Nat) (c : Nat → Rat) (N tau gamma phiS0 phiR0 theta R : Rat) (h : psiHP K c 1 ≠ 0) :
    let r := dEBCM (V.ofList [theta, R]) N tau gamma (psiH K c) (psiHP K c) phiS0 phiR0
    let m := ebcm K c N tau gamma phiS0 phiR0 theta R
    r.n = 2 ∧ r.f 0 = m.1 ∧ r.f 1 = m.2 := by
  refine ⟨rfl, ?_, ?_⟩ <;> simp [dEBCM, ebcm, V.ofList, h] <;> ring

/-- in the guarded case the transmission term is computed with denominator 1 -/
theorem gen_ebcm_guard (K : Nat) (c : Nat → Rat) (N tau gamma phiS0 phiR0 theta R : Rat) (h : psiHP K c 1 = 0) :
    (dEBCM (V.ofList [theta, R]) N tau gamma (psiH K c) (psiHP K c) phiS0 phiR0).f 0
      = -tau * theta + tau * phiS0 * psiHP K c theta + gamma * (1 - theta) + tau * phiR0 := by
  simp [dEBCM, V.ofList, h]

/-! ### vector-valued right-hand sides -/

theorem append_f_ge' (a b : V) (m i : Nat) (h : a.n = m) : (V.append a b).f (m + i) = b.f i := by
  subst h; exact V.append_f_ge a b i

theorem gen_sisHetMF (K : Nat) (tau gamma : Rat) (S I : Nat → Rat) :
    let r := dSIS_heterogeneous_meanfield (V.append ⟨K, S⟩ ⟨K, I⟩) K tau gamma
    r.n = K + K ∧ ∀ k, k < K → r.f k = (sisHetMF K tau gamma S I).1 k ∧ r.f (K + k) = (sisHetMF K tau gamma S I).2 k := by
  intro r
  have hS : ∀ j, j < K → (V.append ⟨K, S⟩ ⟨K, I⟩).f j = S j := fun j hj => V.append_f_lt _ _ j hj
  have hI : ∀ j, (V.append ⟨K, S⟩ ⟨K, I⟩).f (K + j) = I j := fun j => V.append_f_ge ⟨K, S⟩ ⟨K, I⟩ j
  have hn : (V.append ⟨K, S⟩ ⟨K, I⟩).n - K = K := by simp
  have e1 : sumTo K (fun j => (j : Rat) * (V.append ⟨K, S⟩ ⟨K, I⟩).f (K + j)) = sumTo K (fun k => kf k * I k) :=
    sumTo_congr _ _ _ (fun j _ => by rw [hI]; rfl)
  have e2 : sumTo K (fun j => (j : Rat) * ((V.append ⟨K, S⟩ ⟨K, I⟩).f (K + j) + (V.append ⟨K, S⟩ ⟨K, I⟩).f j))
      = sumTo K (fun k => kf k * (I k + S k)) :=
    sumTo_congr _ _ _ (fun j hj => by rw [hI, hS j hj]; rfl)
  refine ⟨by simp [r, dSIS_heterogeneous_meanfield], ?_⟩
  intro k hk
  constructor
  · simp only [r, dSIS_heterogeneous_meanfield, V.arange_n]
    rw [V.append_f_lt _ _ k (by simpa [hn] using hk), e1, e2]
    dsimp only
    rw [hI, hS k hk]
    simp only [sisHetMF, piI, kf]
  · simp only [r, dSIS_heterogeneous_meanfield, V.arange_n]
    rw [append_f_ge' _ _ K k hn, e1, e2]
    dsimp only
    rw [hI, hS k hk]
    simp only [sisHetMF, piI, kf]


theorem gen_sirHetMF (K : Nat) (tau gamma : Rat) (S0 Nk : Nat → Rat) (theta : Rat) (R : Nat → Rat) :
    let r := dSIR_heterogeneous_meanfield (V.append (V.ofList [theta]) ⟨K, R⟩) ⟨K, S0⟩ ⟨K, Nk⟩ tau gamma
    r.n = 1 + K ∧ r.f 0 = (sirHetMF K tau gamma S0 Nk theta R).1
      ∧ ∀ k, k < K → r.f (1 + k) = (sirHetMF K tau gamma S0 Nk theta R).2 k := by
  intro r
  have h0 : (V.append (V.ofList [theta]) ⟨K, R⟩).f 0 = theta := by simp [V.append, V.ofList]
  have hR : ∀ j, (V.append (V.ofList [theta]) ⟨K, R⟩).f (1 + j) = R j :=
    fun j => append_f_ge' (V.ofList [theta]) ⟨K, R⟩ 1 j rfl
  have hn : (V.append (V.ofList [theta]) ⟨K, R⟩).n - 1 = K := by simp
  refine ⟨by simp [r, dSIR_heterogeneous_meanfield], ?_, ?_⟩
  · simp only [r, dSIR_heterogeneous_meanfield, V.arange_n, hn]
    rw [V.append_f_lt _ _ 0 (by simp)]
    simp only [h0, hR, sirHetMF, kf]
    rfl
  · intro k hk
    simp only [r, dSIR_heterogeneous_meanfield, V.arange_n, hn]
    rw [append_f_ge' _ _ 1 k rfl]
    simp only [h0, hR, sirHetMF]


theorem ofList_f0 (a : Rat) (l : List Rat) : (V.ofList (a :: l)).f 0 = a := rfl
theorem ofList_f1 (a b : Rat) (l : List Rat) : (V.ofList (a :: b :: l)).f 1 = b := rfl
theorem ofList_f2 (a b c : Rat) (l : List Rat) : (V.ofList (a :: b :: c :: l)).f 2 = c := rfl

theorem gen_sisCompactPW (K : Nat) (tau gamma twoM : Rat) (Nk S : Nat → Rat) (SI SS : Rat) :
    let r := dSIS_compact_pairwise (V.append ⟨K, S⟩ (V.ofList [SI, SS])) ⟨K, Nk⟩ twoM tau gamma
    let m := sisCompactPW K tau gamma twoM Nk S SI SS
    r.n = K + 2 ∧ (∀ k, k < K → r.f k = m.1 k) ∧ r.f (K + 0) = m.2.1 ∧ r.f (K + 1) = m.2.2 := by
  intro r m
  have hn : (V.append ⟨K, S⟩ (V.ofList [SI, SS])).n - 2 = K := by simp
  have hS : ∀ j, j < K → (V.append ⟨K, S⟩ (V.ofList [SI, SS])).f j = S j := fun j hj => V.append_f_lt _ _ j hj
  have hSI : (V.append ⟨K, S⟩ (V.ofList [SI, SS])).f (K + 0) = SI := V.append_f_ge ⟨K, S⟩ _ 0
  have hSS : (V.append ⟨K, S⟩ (V.ofList [SI, SS])).f (K + 1) = SS := V.append_f_ge ⟨K, S⟩ _ 1
  have e1 : sumTo K (fun j => (j : Rat) * (V.append ⟨K, S⟩ (V.ofList [SI, SS])).f j) = sumTo K (fun k => kf k * S k) :=
    sumTo_congr _ _ _ (fun j hj => by rw [hS j hj]; rfl)
  have e2 : sumTo K (fun j => (j : Rat) * ((j : Rat) - 1) * (V.append ⟨K, S⟩ (V.ofList [SI, SS])).f j)
      = sumTo K (fun k => kf k * (kf k - 1) * S k) :=
    sumTo_congr _ _ _ (fun j hj => by rw [hS j hj]; rfl)
  refine ⟨by simp [r, dSIS_compact_pairwise], ?_, ?_, ?_⟩
  · intro k hk
    simp only [r, dSIS_compact_pairwise, V.arange_n, hn]
    rw [V.append_f_lt _ _ k hk, e1]
    dsimp only
    rw [hS k hk, hSI]
    simp only [m, sisCompactPW, kf]
  · simp only [r, dSIS_compact_pairwise, V.arange_n, hn]
    rw [append_f_ge' _ _ K 0 rfl, e1, e2, hSI, hSS]
    simp only [m, sisCompactPW, ofList_f0]
  · simp only [r, dSIS_compact_pairwise, V.arange_n, hn]
    rw [append_f_ge' _ _ K 1 rfl, e1, e2, hSI, hSS]
    simp only [m, sisCompactPW, ofList_f1]

theorem gen_sirCompactPW (K : Nat) (tau gamma N : Rat) (S : Nat → Rat) (SS SI R : Rat) :
    let r := dSIR_compact_pairwise (V.append ⟨K, S⟩ (V.ofList [SS, SI, R])) N tau gamma
    let m := sirCompactPW K tau gamma N S SS SI R
    r.n = K + 3 ∧ (∀ k, k < K → r.f k = m.1 k) ∧ r.f (K + 0) = m.2.1 ∧ r.f (K + 1) = m.2.2.1 ∧ r.f (K + 2) = m.2.2.2 := by
  intro r m
  have hn : (V.append ⟨K, S⟩ (V.ofList [SS, SI, R])).n - 3 = K := by simp
  have hS : ∀ j, j < K → (V.append ⟨K, S⟩ (V.ofList [SS, SI, R])).f j = S j := fun j hj => V.append_f_lt _ _ j hj
  have hSS : (V.append ⟨K, S⟩ (V.ofList [SS, SI, R])).f (K + 0) = SS := V.append_f_ge ⟨K, S⟩ _ 0
  have hSI : (V.append ⟨K, S⟩ (V.ofList [SS, SI, R])).f (K + 1) = SI := V.append_f_ge ⟨K, S⟩ _ 1
  have hR : (V.append ⟨K, S⟩ (V.ofList [SS, SI, R])).f (K + 2) = R := V.append_f_ge ⟨K, S⟩ _ 2
  have e1 : sumTo K (fun j => (j : Rat) * (V.append ⟨K, S⟩ (V.ofList [SS, SI, R])).f j) = sumTo K (fun k => kf k * S k) :=
    sumTo_congr _ _ _ (fun j hj => by rw [hS j hj]; rfl)
  have e2 : sumTo K (fun j => (j : Rat) * ((j : Rat) - 1) * (V.append ⟨K, S⟩ (V.ofList [SS, SI, R])).f j)
      = sumTo K (fun k => kf k * (kf k - 1) * S k) :=
    sumTo_congr _ _ _ (fun j hj => by rw [hS j hj]; rfl)
  have e3 : sumTo K (fun j => (V.append ⟨K, S⟩ (V.ofList [SS, SI, R])).f j) = sumTo K S :=
    sumTo_congr _ _ _ (fun j hj => hS j hj)
  refine ⟨by simp [r, dSIR_compact_pairwise], ?_, ?_, ?_, ?_⟩
  · intro k hk
    simp only [r, dSIR_compact_pairwise, V.arange_n, hn]
    rw [V.append_f_lt _ _ k hk, e1]
    dsimp only
    rw [hS k hk, hSI]
    simp only [m, sirCompactPW, kf] <;> ring
  · simp only [r, dSIR_compact_pairwise, V.arange_n, hn]
    rw [append_f_ge' _ _ K 0 rfl, e1, e2, hSI, hSS]
    simp only [m, sirCompactPW, ofList_f0]
  · simp only [r, dSIR_compact_pairwise, V.arange_n, hn]
    rw [append_f_ge' _ _ K 1 rfl, e1, e2, hSI, hSS]
    simp only [m, sirCompactPW, ofList_f1]
  · simp only [r, dSIR_compact_pairwise, V.arange_n, hn]
    rw [append_f_ge' _ _ K 2 rfl, e3, hR]
    simp only [m, sirCompactPW, ofList_f2]


theorem guard_div (a b : Rat) : (if b = 0 then (0 : Rat) else a / b) = a / b := by
  split
  · next h => simp [h]
  · rfl

/-- the `SX == 0` guard of `_dSIR_compact_effective_degree_` agrees with Lean's `x / 0 = 0` -/
theorem gen_sirCompactED (K : Nat) (tau gamma N : Rat) (Sk : Nat → Rat) (R SI : Rat) :
    let r := dSIR_compact_effective_degree (V.append ⟨K, Sk⟩ (V.ofList [R, SI])) N tau gamma
    let m := sirCompactED K tau gamma N Sk R SI
    r.n = K + 2 ∧ (∀ k, k < K → r.f k = m.1 k) ∧ r.f (K + 0) = m.2.1 ∧ r.f (K + 1) = m.2.2 := by
  intro r m
  have hn : (V.append ⟨K, Sk⟩ (V.ofList [R, SI])).n - 2 = K := by simp
  have hS : ∀ j, j < K → (V.append ⟨K, Sk⟩ (V.ofList [R, SI])).f j = Sk j := fun j hj => V.append_f_lt _ _ j hj
  have hR : (V.append ⟨K, Sk⟩ (V.ofList [R, SI])).f (K + 0) = R := V.append_f_ge ⟨K, Sk⟩ _ 0
  have hSI : (V.append ⟨K, Sk⟩ (V.ofList [R, SI])).f (K + 1) = SI := V.append_f_ge ⟨K, Sk⟩ _ 1
  have e1 : sumTo K (fun j => (V.append ⟨K, Sk⟩ (V.ofList [R, SI])).f j * (j : Rat)) = sumTo K (fun k => Sk k * kf k) :=
    sumTo_congr _ _ _ (fun j hj => by rw [hS j hj]; rfl)
  have e2 : sumTo K (fun j => (j : Rat) * ((j : Rat) - 1) * (V.append ⟨K, Sk⟩ (V.ofList [R, SI])).f j)
      = sumTo K (fun k => kf k * (kf k - 1) * Sk k) :=
    sumTo_congr _ _ _ (fun j hj => by rw [hS j hj]; rfl)
  have e3 : sumTo K (fun j => (V.append ⟨K, Sk⟩ (V.ofList [R, SI])).f j) = sumTo K Sk :=
    sumTo_congr _ _ _ (fun j hj => hS j hj)
  refine ⟨by simp [r, dSIR_compact_effective_degree], ?_, ?_, ?_⟩
  · intro k hk
    simp only [r, dSIR_compact_effective_degree, V.arange_n, hn]
    rw [V.append_f_lt _ _ k hk, e1, guard_div]
    dsimp only
    rw [hS k hk, hSI]
    simp only [m, sirCompactED, kf]
    by_cases h : k + 1 < K
    · simp only [h, if_true, hS (k + 1) h]
    · simp only [h, if_false]
  · simp only [r, dSIR_compact_effective_degree, V.arange_n, hn]
    rw [append_f_ge' _ _ K 0 rfl, e3, hR]
    simp only [m, sirCompactED, ofList_f0]
  · simp only [r, dSIR_compact_effective_degree, V.arange_n, hn]
    rw [append_f_ge' _ _ K 1 rfl, e1, e2, guard_div, hSI]
    simp only [m, sirCompactED, ofList_f1]

end GenEq
