import EoNVerif.Model.Gillespie
import EoNVerif.Model.GillespieLaw
import EoNVerif.Spec.Chain
import EoNVerif.Proofs.ListDict
import Mathlib.Tactic.Ring
import Mathlib.Tactic.FieldSimp
import Mathlib.Tactic.Linarith
import Mathlib.Algebra.Order.Field.Rat
import Mathlib.Data.List.Nodup
/-!
Helper lemmas for C01 / C02 (`Gillespie_SIR` / `Gillespie_SIS`): the definitions of `Gillespie.WF` and
`Gillespie.Inv`, a generic specification of a batch of `_ListDict_` operations with pairwise distinct keys,
the five neighbour loops written as such batches, invariant preservation of the event applications, inversion
lemmas for the tape monad, and the algebra of the one-step law.
-/

/-! ### a batch of `update`/`remove` operations with distinct keys -/
namespace LD
variable {α : Type} [DecidableEq α]

def Op.key : Op α → α
  | .ins x _ => x
  | .upd x _ => x
  | .rem x => x

/-- admissible operation in state `s`: an `update` of an absent candidate with a weight argument matching the
weighted flag and a non-negative increment, or a `remove` of a present candidate -/
def Op.ok (s : LD α) : Op α → Prop
  | .ins _ _ => False
  | .upd x w => x ∉ s.items ∧ w.isSome = s.weighted ∧ ∀ v, w = some v → 0 ≤ v
  | .rem x => x ∈ s.items

theorem ite_some_exists {β : Type} (c : Prop) [Decidable c] (a b : β) :
    ∃ r, (if c then some a else some b) = some r := by
  split <;> exact ⟨_, rfl⟩

theorem update_some_exists (s : LD α) (x : α) (w : Rat) (hwt : s.weighted = true) :
    ∃ s', s.update x (some w) = some s' := by
  unfold update
  simp only [hwt, Bool.not_true, Bool.false_eq_true, if_false]
  exact ite_some_exists _ _ _

theorem update_none_shape (s : LD α) (x : α) (hwt : s.weighted = false) :
    ∃ s', s.update x none = some s' ∧ s'.weighted = false ∧ s'.weight = s.weight ∧
      s'.items = (if x ∈ s.items then s.items else s.items ++ [x]) := by
  unfold update
  simp only [hwt, Bool.false_eq_true, if_false]
  by_cases hx : x ∈ s.items
  · simp only [hx, if_true]; exact ⟨_, rfl, hwt, rfl, rfl⟩
  · simp only [hx, if_false]; exact ⟨_, rfl, rfl, rfl, rfl⟩

/-- shape of a successful `update` with any argument -/
theorem update_any (s s' : LD α) (x : α) (w : Option Rat) (hs : s.update x w = some s') :
    s'.weighted = s.weighted ∧ (∀ y, y ∈ s'.items ↔ (y ∈ s.items ∨ y = x)) ∧
      (∀ y, y ≠ x → s'.getW y = s.getW y) := by
  cases w with
  | some v =>
    obtain ⟨h1, h2, -⟩ := update_shape s s' x v hs
    exact ⟨h2.trans h1.symm, update_mem s s' x v hs, fun y hy => update_getW_ne s s' x y v hs hy⟩
  | none =>
    have hwt : s.weighted = false := by
      cases hw : s.weighted with
      | false => rfl
      | true => simp [update, hw] at hs
    obtain ⟨s'', hs'', h1, h2, h3⟩ := update_none_shape s x hwt
    rw [hs] at hs''
    obtain rfl := Option.some.inj hs''
    refine ⟨h1.trans hwt.symm, ?_, ?_⟩
    · intro y; rw [h3]; split <;> simp_all
    · intro y _; unfold getW; rw [h2]

theorem update_exists (s : LD α) (x : α) (w : Option Rat) (hw : w.isSome = s.weighted) :
    ∃ s', s.update x w = some s' := by
  cases w with
  | some v => exact update_some_exists s x v (by simpa using hw.symm)
  | none =>
    obtain ⟨s', h, -⟩ := update_none_shape s x (by simpa using hw.symm)
    exact ⟨s', h⟩

theorem remove_getW_ne (s s' : LD α) (x y : α) (hs : s.remove x = some s') (hy : y ≠ x) :
    s'.getW y = s.getW y := by
  have hx : x ∈ s.items := by
    by_contra hx
    unfold remove at hs
    rw [if_neg hx] at hs; simp at hs
  cases hwt : s.weighted with
  | true =>
    obtain ⟨s'', hs'', -, -, hrest⟩ := remove_shape s x hx
    rw [hs] at hs''
    obtain rfl := Option.some.inj hs''
    unfold getW
    rw [(hrest hwt).1]
    exact alGet_alDel_ne _ _ _ _ hy
  | false =>
    unfold remove at hs
    simp only [hx, hwt, if_true, Bool.false_eq_true, if_false] at hs
    obtain rfl := Option.some.inj hs
    rfl

theorem remove_any (s : LD α) (x : α) (h : Inv s) (hx : x ∈ s.items) :
    ∃ s', s.remove x = some s' ∧ Inv s' ∧ s'.weighted = s.weighted ∧
      (∀ y, y ∈ s'.items ↔ (y ∈ s.items ∧ y ≠ x)) ∧ (∀ y, y ≠ x → s'.getW y = s.getW y) := by
  obtain ⟨s', hs', hit, hwd, -⟩ := remove_shape s x hx
  refine ⟨s', hs', inv_remove s s' x h hx hs', hwd, ?_, fun y hy => remove_getW_ne s s' x y hs' hy⟩
  intro y; rw [hit]; exact mem_swapRemove _ _ _ h.nodup hx

/-- **batch specification**: a list of admissible operations with pairwise distinct keys never fails
(no KeyError), preserves the invariant, and changes membership and weights exactly as listed. -/
theorem applyOps_spec (ops : List (Op α)) (s : LD α) (h : Inv s)
    (hk : ops.Pairwise fun a b => a.key ≠ b.key) (hop : ∀ o ∈ ops, o.ok s) :
    ∃ s', s.applyOps ops = some s' ∧ Inv s' ∧ s'.weighted = s.weighted ∧
      (∀ y, y ∈ s'.items ↔ ((y ∈ s.items ∧ Op.rem y ∉ ops) ∨ ∃ w, Op.upd y w ∈ ops)) ∧
      (∀ y w, Op.upd y (some w) ∈ ops → s'.getW y = w) ∧
      (∀ y, (∀ o ∈ ops, o.key ≠ y) → s'.getW y = s.getW y) := by
  induction ops generalizing s with
  | nil => exact ⟨s, rfl, h, rfl, by simp, by simp, fun _ _ => rfl⟩
  | cons o os ih =>
    rw [List.pairwise_cons] at hk
    obtain ⟨hk1, hk2⟩ := hk
    have ho := hop o (by simp)
    cases o with
    | ins x w => exact absurd ho (by simp [Op.ok])
    | upd x w =>
      obtain ⟨hx, hw, hnn⟩ := ho
      obtain ⟨s1, hs1⟩ := update_exists s x w hw
      obtain ⟨hwd1, hmem1, hget1⟩ := update_any s s1 x w hs1
      have hinv1 : Inv s1 := inv_update s s1 x w h hnn hs1
      have hop1 : ∀ o ∈ os, o.ok s1 := by
        intro o' ho'
        have hne : x ≠ o'.key := hk1 o' ho'
        have := hop o' (by simp [ho'])
        cases o' with
        | ins _ _ => exact this
        | upd x' w' =>
          refine ⟨?_, by rw [hwd1]; exact this.2.1, this.2.2⟩
          rw [hmem1]; rintro (h1 | h1)
          · exact this.1 h1
          · exact hne h1.symm
        | rem x' => exact (hmem1 x').2 (Or.inl this)
      obtain ⟨s', hs', hinv', hwd', hmem', hgw', hgo'⟩ := ih s1 hinv1 hk2 hop1
      refine ⟨s', ?_, hinv', hwd'.trans hwd1, ?_, ?_, ?_⟩
      · simp only [applyOps, applyOp, hs1]; exact hs'
      · intro y
        rw [hmem', hmem1]
        constructor
        · rintro (⟨h1 | h1, h2⟩ | ⟨w', h1⟩)
          · exact Or.inl ⟨h1, by simp [h2]⟩
          · exact Or.inr ⟨w, by simp [h1]⟩
          · exact Or.inr ⟨w', by simp [h1]⟩
        · rintro (⟨h1, h2⟩ | ⟨w', h1⟩)
          · exact Or.inl ⟨Or.inl h1, fun hc => h2 (by simp [hc])⟩
          · rcases List.mem_cons.1 h1 with h1 | h1
            · injection h1 with h1 h1'
              by_cases hr : Op.rem y ∈ os
              · exact absurd h1.symm (hk1 _ hr)
              · exact Or.inl ⟨Or.inr h1, hr⟩
            · exact Or.inr ⟨w', h1⟩
      · intro y v hy
        rcases List.mem_cons.1 hy with hy | hy
        · injection hy with hy1 hy2
          subst hy1; subst hy2
          rw [hgo' y (fun o' ho' => (hk1 o' ho').symm)]
          have hwt : s.weighted = true := by simpa using hw.symm
          rw [update_getW_self s s1 y v hs1, getW_of_not_mem s h hwt y hx]; ring
        · exact hgw' y v hy
      · intro y hy
        rw [hgo' y (fun o' ho' => hy o' (by simp [ho'])), hget1 y]
        exact fun hc => hy (Op.upd x w) List.mem_cons_self hc.symm
    | rem x =>
      have hx : x ∈ s.items := ho
      obtain ⟨s1, hs1, hinv1, hwd1, hmem1, hget1⟩ := remove_any s x h hx
      have hop1 : ∀ o ∈ os, o.ok s1 := by
        intro o' ho'
        have hne : x ≠ o'.key := hk1 o' ho'
        have := hop o' (by simp [ho'])
        cases o' with
        | ins _ _ => exact this
        | upd x' w' =>
          refine ⟨?_, by rw [hwd1]; exact this.2.1, this.2.2⟩
          rw [hmem1]; exact fun h1 => this.1 h1.1
        | rem x' => exact (hmem1 x').2 ⟨this, fun hc => hne hc.symm⟩
      obtain ⟨s', hs', hinv', hwd', hmem', hgw', hgo'⟩ := ih s1 hinv1 hk2 hop1
      refine ⟨s', ?_, hinv', hwd'.trans hwd1, ?_, ?_, ?_⟩
      · simp only [applyOps, applyOp, hs1]; exact hs'
      · intro y
        rw [hmem', hmem1]
        constructor
        · rintro (⟨⟨h1, h2⟩, h3⟩ | ⟨w', h1⟩)
          · refine Or.inl ⟨h1, ?_⟩
            intro hc
            rcases List.mem_cons.1 hc with hc | hc
            · injection hc with hc; exact h2 hc
            · exact h3 hc
          · exact Or.inr ⟨w', by simp [h1]⟩
        · rintro (⟨h1, h2⟩ | ⟨w', h1⟩)
          · exact Or.inl ⟨⟨h1, fun hc => h2 (by simp [hc])⟩, fun hc => h2 (by simp [hc])⟩
          · rcases List.mem_cons.1 h1 with h1 | h1
            · cases h1
            · exact Or.inr ⟨w', h1⟩
      · intro y v hy
        rcases List.mem_cons.1 hy with hy | hy
        · cases hy
        · exact hgw' y v hy
      · intro y hy
        rw [hgo' y (fun o' ho' => hy o' (by simp [ho'])), hget1 y]
        exact fun hc => hy (Op.rem x) List.mem_cons_self hc.symm

/-- the batch specification with the "unchanged weight" clause stated for surviving candidates -/
theorem applyOps_spec' (ops : List (Op α)) (s : LD α) (h : Inv s)
    (hk : ops.Pairwise fun a b => a.key ≠ b.key) (hop : ∀ o ∈ ops, o.ok s) :
    ∃ s', s.applyOps ops = some s' ∧ Inv s' ∧ s'.weighted = s.weighted ∧
      (∀ y, y ∈ s'.items ↔ ((y ∈ s.items ∧ Op.rem y ∉ ops) ∨ ∃ w, Op.upd y w ∈ ops)) ∧
      (∀ y w, Op.upd y (some w) ∈ ops → s'.getW y = w) ∧
      (∀ y ∈ s'.items, (¬ ∃ w, Op.upd y w ∈ ops) → y ∈ s.items ∧ s'.getW y = s.getW y) := by
  obtain ⟨s', hs', hinv', hwd', hmem', hgw', hgo'⟩ := applyOps_spec ops s h hk hop
  refine ⟨s', hs', hinv', hwd', hmem', hgw', ?_⟩
  intro y hy hnu
  rcases (hmem' y).1 hy with ⟨h1, h2⟩ | h1
  · refine ⟨h1, hgo' y ?_⟩
    intro o ho hkey
    have hok := hop o ho
    cases o with
    | ins _ _ => exact hok
    | upd x w => exact hnu ⟨w, by rw [← show x = y from hkey]; exact ho⟩
    | rem x => exact h2 (by rw [← show x = y from hkey]; exact ho)
  · exact absurd h1 hnu

end LD

namespace Gillespie

/-- well-formed undirected simple contact network with non-negative symmetric weights -/
structure WF (P : GParams) : Prop where
  nodup : P.nodes.Nodup
  nbr_nodup : ∀ u ∈ P.nodes, (P.nbrs u).Nodup
  nbr_mem : ∀ u ∈ P.nodes, ∀ v ∈ P.nbrs u, v ∈ P.nodes
  nbr_out : ∀ u, u ∉ P.nodes → P.nbrs u = []
  symm : ∀ u v, v ∈ P.nbrs u → u ∈ P.nbrs v
  noloop : ∀ u, u ∉ P.nbrs u
  ew_nonneg : ∀ f, P.ew = some f → ∀ u v, 0 ≤ f u v
  ew_symm : ∀ f, P.ew = some f → ∀ u v, f u v = f v u
  nw_nonneg : ∀ f, P.nw = some f → ∀ u, 0 ≤ f u
  tau_nonneg : 0 ≤ P.tau
  gamma_nonneg : 0 ≤ P.gamma

/-- The bookkeeping invariant: the two candidate structures equal the sets implied by the statuses. -/
structure Inv (P : GParams) (s : GState) : Prop where
  infInv : LD.Inv s.inf
  linkInv : LD.Inv s.links
  infW : s.inf.weighted = P.nw.isSome
  linkW : s.links.weighted = P.ew.isSome
  inf_items : ∀ u, u ∈ s.inf.items ↔ (u ∈ P.nodes ∧ s.status u = St.I)
  link_items : ∀ u v, (u, v) ∈ s.links.items ↔ (u ∈ P.nodes ∧ s.status u = St.I ∧ v ∈ P.nbrs u ∧ s.status v = St.S)
  inf_w : ∀ f, P.nw = some f → ∀ u ∈ s.inf.items, s.inf.getW u = f u
  link_w : ∀ f, P.ew = some f → ∀ p ∈ s.links.items, s.links.getW p = f p.1 p.2
  sis_noR : P.sis = true → ∀ u, s.status u ≠ St.R

/-! ### the neighbour loops as batches of operations -/

abbrev LOp := LD.Op (Node × Node)

def initLinksOps (P : GParams) (status : Node → St) (node : Node) (l : List Node) : List LOp :=
  l.filterMap fun nbr => if status nbr = St.S then some (.upd (node, nbr) (edgeW P node nbr)) else none

def recSIROps (status : Node → St) (u : Node) (l : List Node) : List LOp :=
  l.filterMap fun nbr => if status nbr = St.S then some (.rem (u, nbr)) else none

def recSISOps (P : GParams) (status : Node → St) (u : Node) (l : List Node) : List LOp :=
  l.filterMap fun nbr =>
    if nbr = u then none
    else if status nbr = St.S then some (.rem (u, nbr))
    else some (.upd (nbr, u) (edgeW P u nbr))

def transOps (P : GParams) (status : Node → St) (v : Node) (l : List Node) : List LOp :=
  l.filterMap fun nbr =>
    if status nbr = St.S then some (.upd (v, nbr) (edgeW P v nbr))
    else if (P.sis ∨ status nbr = St.I) ∧ nbr ≠ v then some (.rem (nbr, v))
    else none

theorem initLinks_eq (P : GParams) (status : Node → St) (node : Node) (l : List Node)
    (links : LD (Node × Node)) :
    initLinks P status node links l = links.applyOps (initLinksOps P status node l) := by
  induction l generalizing links with
  | nil => rfl
  | cons nbr rest ih =>
    unfold initLinks initLinksOps
    by_cases h1 : status nbr = St.S
    · simp only [List.filterMap_cons, h1, if_true, LD.applyOps, LD.applyOp]
      cases links.update (node, nbr) (edgeW P node nbr) with
      | none => rfl
      | some l1 => exact ih l1
    · simp only [List.filterMap_cons, h1, if_false]
      exact ih links

theorem recLoopSIR_eq (status : Node → St) (u : Node) (l : List Node) (links : LD (Node × Node)) :
    recLoopSIR status u links l = links.applyOps (recSIROps status u l) := by
  induction l generalizing links with
  | nil => rfl
  | cons nbr rest ih =>
    unfold recLoopSIR recSIROps
    by_cases h1 : status nbr = St.S
    · simp only [List.filterMap_cons, h1, if_true, LD.applyOps, LD.applyOp]
      cases links.remove (u, nbr) with
      | none => rfl
      | some l1 => exact ih l1
    · simp only [List.filterMap_cons, h1, if_false]
      exact ih links

theorem recLoopSIS_eq (P : GParams) (status : Node → St) (u : Node) (l : List Node)
    (links : LD (Node × Node)) :
    recLoopSIS P status u links l = links.applyOps (recSISOps P status u l) := by
  induction l generalizing links with
  | nil => rfl
  | cons nbr rest ih =>
    unfold recLoopSIS recSISOps
    by_cases h0 : nbr = u
    · simp only [List.filterMap_cons, h0, if_true]
      exact ih links
    · by_cases h1 : status nbr = St.S
      · simp only [List.filterMap_cons, h0, h1, if_true, if_false, LD.applyOps, LD.applyOp]
        cases links.remove (u, nbr) with
        | none => rfl
        | some l1 => exact ih l1
      · simp only [List.filterMap_cons, h0, h1, if_false, LD.applyOps, LD.applyOp]
        cases links.update (nbr, u) (edgeW P u nbr) with
        | none => rfl
        | some l1 => exact ih l1

theorem transLoop_eq (P : GParams) (status : Node → St) (v : Node) (l : List Node)
    (links : LD (Node × Node)) :
    transLoop P status v links l = links.applyOps (transOps P status v l) := by
  induction l generalizing links with
  | nil => rfl
  | cons nbr rest ih =>
    unfold transLoop transOps
    by_cases h1 : status nbr = St.S
    · simp only [List.filterMap_cons, h1, if_true, LD.applyOps, LD.applyOp]
      cases links.update (v, nbr) (edgeW P v nbr) with
      | none => rfl
      | some l1 => exact ih l1
    · by_cases h2 : (P.sis ∨ status nbr = St.I) ∧ nbr ≠ v
      · simp only [List.filterMap_cons, h1, if_false]
        rw [if_pos h2, if_pos h2]
        simp only [LD.applyOps, LD.applyOp]
        cases links.remove (nbr, v) with
        | none => rfl
        | some l1 => exact ih l1
      · simp only [List.filterMap_cons, h1, if_false]
        rw [if_neg h2, if_neg h2]
        exact ih links

/-! membership in the batches -/

theorem mem_initLinksOps_upd (P : GParams) (st : Node → St) (node : Node) (l : List Node) (p : Node × Node)
    (w : Option Rat) :
    LD.Op.upd p w ∈ initLinksOps P st node l ↔
      (p.1 = node ∧ p.2 ∈ l ∧ st p.2 = St.S ∧ w = edgeW P node p.2) := by
  obtain ⟨a, b⟩ := p
  simp only [initLinksOps, List.mem_filterMap]
  constructor
  · rintro ⟨n, hn, hg⟩
    split at hg
    · cases hg; simp_all
    · cases hg
  · rintro ⟨rfl, h2, h3, rfl⟩
    exact ⟨b, h2, by simp [h3]⟩

theorem mem_initLinksOps_rem (P : GParams) (st : Node → St) (node : Node) (l : List Node) (p : Node × Node) :
    LD.Op.rem p ∉ initLinksOps P st node l := by
  simp only [initLinksOps, List.mem_filterMap]
  rintro ⟨n, hn, hg⟩
  split at hg <;> cases hg

theorem mem_recSIROps_upd (st : Node → St) (u : Node) (l : List Node) (p : Node × Node) (w : Option Rat) :
    LD.Op.upd p w ∉ recSIROps st u l := by
  simp only [recSIROps, List.mem_filterMap]
  rintro ⟨n, hn, hg⟩
  split at hg <;> cases hg

theorem mem_recSIROps_rem (st : Node → St) (u : Node) (l : List Node) (p : Node × Node) :
    LD.Op.rem p ∈ recSIROps st u l ↔ (p.1 = u ∧ p.2 ∈ l ∧ st p.2 = St.S) := by
  obtain ⟨a, b⟩ := p
  simp only [recSIROps, List.mem_filterMap]
  constructor
  · rintro ⟨n, hn, hg⟩
    split at hg
    · cases hg; simp_all
    · cases hg
  · rintro ⟨rfl, h2, h3⟩
    exact ⟨b, h2, by simp [h3]⟩

theorem mem_recSISOps_upd (P : GParams) (st : Node → St) (u : Node) (l : List Node) (p : Node × Node)
    (w : Option Rat) :
    LD.Op.upd p w ∈ recSISOps P st u l ↔
      (p.2 = u ∧ p.1 ∈ l ∧ p.1 ≠ u ∧ st p.1 ≠ St.S ∧ w = edgeW P u p.1) := by
  obtain ⟨a, b⟩ := p
  simp only [recSISOps, List.mem_filterMap]
  constructor
  · rintro ⟨n, hn, hg⟩
    split at hg
    · cases hg
    · split at hg
      · cases hg
      · cases hg; simp_all
  · rintro ⟨rfl, h2, h3, h4, rfl⟩
    exact ⟨a, h2, by simp [h3, h4]⟩

theorem mem_recSISOps_rem (P : GParams) (st : Node → St) (u : Node) (l : List Node) (p : Node × Node) :
    LD.Op.rem p ∈ recSISOps P st u l ↔ (p.1 = u ∧ p.2 ∈ l ∧ p.2 ≠ u ∧ st p.2 = St.S) := by
  obtain ⟨a, b⟩ := p
  simp only [recSISOps, List.mem_filterMap]
  constructor
  · rintro ⟨n, hn, hg⟩
    split at hg
    · cases hg
    · split at hg
      · cases hg; simp_all
      · cases hg
  · rintro ⟨rfl, h2, h3, h4⟩
    exact ⟨b, h2, by simp [h3, h4]⟩

theorem mem_transOps_upd (P : GParams) (st : Node → St) (v : Node) (l : List Node) (p : Node × Node)
    (w : Option Rat) :
    LD.Op.upd p w ∈ transOps P st v l ↔ (p.1 = v ∧ p.2 ∈ l ∧ st p.2 = St.S ∧ w = edgeW P v p.2) := by
  obtain ⟨a, b⟩ := p
  simp only [transOps, List.mem_filterMap]
  constructor
  · rintro ⟨n, hn, hg⟩
    split at hg
    · cases hg; simp_all
    · split at hg <;> cases hg
  · rintro ⟨rfl, h2, h3, rfl⟩
    exact ⟨b, h2, by simp [h3]⟩

theorem mem_transOps_rem (P : GParams) (st : Node → St) (v : Node) (l : List Node) (p : Node × Node) :
    LD.Op.rem p ∈ transOps P st v l ↔
      (p.2 = v ∧ p.1 ∈ l ∧ st p.1 ≠ St.S ∧ (P.sis = true ∨ st p.1 = St.I) ∧ p.1 ≠ v) := by
  obtain ⟨a, b⟩ := p
  simp only [transOps, List.mem_filterMap]
  constructor
  · rintro ⟨n, hn, hg⟩
    split at hg
    · cases hg
    · split at hg
      · cases hg; simp_all
      · cases hg
  · rintro ⟨rfl, h2, h3, h4, h5⟩
    exact ⟨a, h2, by simp [h3, h4, h5]⟩

/-! distinct keys -/

theorem initLinksOps_keys (P : GParams) (st : Node → St) (node : Node) (l : List Node) (hl : l.Nodup) :
    (initLinksOps P st node l).Pairwise fun a b => a.key ≠ b.key := by
  refine List.Pairwise.filterMap (R := (· ≠ ·)) _ ?_ hl
  intro a a' hne b hb b' hb'
  split at hb <;> split at hb' <;> cases hb <;> cases hb'
  simp [LD.Op.key, hne]

theorem recSIROps_keys (st : Node → St) (u : Node) (l : List Node) (hl : l.Nodup) :
    (recSIROps st u l).Pairwise fun a b => a.key ≠ b.key := by
  refine List.Pairwise.filterMap (R := (· ≠ ·)) _ ?_ hl
  intro a a' hne b hb b' hb'
  split at hb <;> split at hb' <;> cases hb <;> cases hb'
  simp [LD.Op.key, hne]

theorem recSISOps_keys (P : GParams) (st : Node → St) (u : Node) (l : List Node) (hl : l.Nodup) :
    (recSISOps P st u l).Pairwise fun a b => a.key ≠ b.key := by
  refine List.Pairwise.filterMap (R := (· ≠ ·)) _ ?_ hl
  intro a a' hne b hb b' hb'
  split at hb
  · cases hb
  · split at hb' 
    · cases hb'
    · split at hb <;> split at hb' <;> cases hb <;> cases hb' <;> simp_all [LD.Op.key]

theorem transOps_keys (P : GParams) (st : Node → St) (v : Node) (l : List Node) (hl : l.Nodup) :
    (transOps P st v l).Pairwise fun a b => a.key ≠ b.key := by
  refine List.Pairwise.filterMap (R := (· ≠ ·)) _ ?_ hl
  intro a a' hne b hb b' hb'
  split at hb
  · split at hb'
    · cases hb; cases hb'; simp [LD.Op.key, hne]
    · split at hb'
      · cases hb; cases hb'; simp_all [LD.Op.key]
      · cases hb'
  · split at hb
    · split at hb'
      · cases hb; cases hb'; simp_all [LD.Op.key]
      · split at hb'
        · cases hb; cases hb'; simp [LD.Op.key, hne]
        · cases hb'
    · cases hb

/-! weights handed to `update` -/

theorem edgeW_isSome (P : GParams) (a b : Node) : (edgeW P a b).isSome = P.ew.isSome := by
  unfold edgeW; cases P.ew <;> rfl

theorem nodeW_isSome (P : GParams) (a : Node) : (nodeW P a).isSome = P.nw.isSome := by
  unfold nodeW; cases P.nw <;> rfl

theorem edgeW_some (P : GParams) (f : Node → Node → Rat) (hf : P.ew = some f) (a b : Node) :
    edgeW P a b = some (f a b) := by
  unfold edgeW; rw [hf]; rfl

theorem nodeW_some (P : GParams) (f : Node → Rat) (hf : P.nw = some f) (a : Node) :
    nodeW P a = some (f a) := by
  unfold nodeW; rw [hf]; rfl

theorem edgeW_nonneg (P : GParams) (h : WF P) (a b : Node) (x : Rat) (hx : edgeW P a b = some x) : 0 ≤ x := by
  cases hf : P.ew with
  | none => simp [edgeW, hf] at hx
  | some f =>
    rw [edgeW_some P f hf] at hx
    obtain rfl := Option.some.inj hx
    exact h.ew_nonneg f hf a b

theorem nodeW_nonneg (P : GParams) (h : WF P) (a : Node) (x : Rat) (hx : nodeW P a = some x) : 0 ≤ x := by
  cases hf : P.nw with
  | none => simp [nodeW, hf] at hx
  | some f =>
    rw [nodeW_some P f hf] at hx
    obtain rfl := Option.some.inj hx
    exact h.nw_nonneg f hf a

theorem fset_self {α β : Type} [DecidableEq α] (f : α → β) (x : α) (v : β) : fset f x v x = v := by
  simp [fset]

theorem fset_ne {α β : Type} [DecidableEq α] (f : α → β) (x y : α) (v : β) (h : y ≠ x) :
    fset f x v y = f y := by
  simp [fset, h]

theorem St.eq_I_of (x : St) (h1 : x ≠ St.S) (h2 : x ≠ St.R) : x = St.I := by
  cases x <;> simp_all

/-- the links part of a transmission to `v` -/
theorem trans_links (P : GParams) (h : WF P) (s : GState) (hs : Inv P s) (u v : Node)
    (huv : (u, v) ∈ s.links.items) :
    ∃ links', transLoop P (fset s.status v St.I) v s.links (P.nbrs v) = some links' ∧ LD.Inv links' ∧
      links'.weighted = s.links.weighted ∧
      (∀ a b, (a, b) ∈ links'.items ↔
        (a ∈ P.nodes ∧ fset s.status v St.I a = St.I ∧ b ∈ P.nbrs a ∧ fset s.status v St.I b = St.S)) ∧
      (∀ f, P.ew = some f → ∀ p ∈ links'.items, links'.getW p = f p.1 p.2) := by
  obtain ⟨hu, hsu, hvu, hsv⟩ := (hs.link_items u v).1 huv
  have hvn : v ∈ P.nodes := h.nbr_mem u hu v hvu
  have hok : ∀ o ∈ transOps P (fset s.status v St.I) v (P.nbrs v), o.ok s.links := by
    intro o ho
    obtain ⟨n, hn, hg⟩ := List.mem_filterMap.1 ho
    split at hg
    · cases hg
      refine ⟨?_, ?_, edgeW_nonneg P h v n⟩
      · rw [hs.link_items]; rintro ⟨-, h2, -⟩; rw [hsv] at h2; cases h2
      · rw [edgeW_isSome, hs.linkW]
    · split at hg
      · cases hg
        rename_i h1 h2
        obtain ⟨h2, h3⟩ := h2
        rw [fset_ne _ _ _ _ h3] at h1 h2
        show (n, v) ∈ s.links.items
        rw [hs.link_items]
        refine ⟨h.nbr_mem v hvn n hn, ?_, h.symm v n hn, hsv⟩
        rcases h2 with h2 | h2
        · exact St.eq_I_of _ h1 (hs.sis_noR h2 n)
        · exact h2
      · cases hg
  obtain ⟨links', hl, hinv, hwd, hmem, hgw, hgo⟩ :=
    LD.applyOps_spec' _ s.links hs.linkInv (transOps_keys P (fset s.status v St.I) v (P.nbrs v)
      (h.nbr_nodup v hvn)) hok
  simp only [mem_transOps_upd, mem_transOps_rem] at hmem hgw hgo
  refine ⟨links', by rw [transLoop_eq]; exact hl, hinv, hwd, ?_, ?_⟩
  · intro a b
    rw [hmem (a, b), hs.link_items]
    have hsym := h.symm
    have hnoR := hs.sis_noR
    simp only [fset]
    grind
  · intro f hf p hp
    by_cases hup : ∃ w, p.1 = v ∧ p.2 ∈ P.nbrs v ∧ fset s.status v St.I p.2 = St.S ∧ w = edgeW P v p.2
    · obtain ⟨w, h1, h2, h3, h4⟩ := hup
      rw [hgw p (f v p.2) ⟨h1, h2, h3, (edgeW_some P f hf v p.2).symm⟩, h1]
    · obtain ⟨h1, h2⟩ := hgo p hp hup
      rw [h2]; exact hs.link_w f hf p h1

/-- the links part of an SIR recovery of `u` -/
theorem recSIR_links (P : GParams) (h : WF P) (s : GState) (hs : Inv P s) (u : Node)
    (hu : u ∈ s.inf.items) :
    ∃ links', recLoopSIR (fset s.status u St.R) u s.links (P.nbrs u) = some links' ∧ LD.Inv links' ∧
      links'.weighted = s.links.weighted ∧
      (∀ a b, (a, b) ∈ links'.items ↔
        (a ∈ P.nodes ∧ fset s.status u St.R a = St.I ∧ b ∈ P.nbrs a ∧ fset s.status u St.R b = St.S)) ∧
      (∀ f, P.ew = some f → ∀ p ∈ links'.items, links'.getW p = f p.1 p.2) := by
  obtain ⟨hun, hsu⟩ := (hs.inf_items u).1 hu
  have hok : ∀ o ∈ recSIROps (fset s.status u St.R) u (P.nbrs u), o.ok s.links := by
    intro o ho
    obtain ⟨n, hn, hg⟩ := List.mem_filterMap.1 ho
    split at hg
    · cases hg
      rename_i h1
      show (u, n) ∈ s.links.items
      rw [hs.link_items]
      refine ⟨hun, hsu, hn, ?_⟩
      have hne : n ≠ u := by
        rintro rfl; rw [fset_self] at h1; cases h1
      rwa [fset_ne _ _ _ _ hne] at h1
    · cases hg
  obtain ⟨links', hl, hinv, hwd, hmem, hgw, hgo⟩ :=
    LD.applyOps_spec' _ s.links hs.linkInv (recSIROps_keys (fset s.status u St.R) u (P.nbrs u)
      (h.nbr_nodup u hun)) hok
  simp only [mem_recSIROps_upd, mem_recSIROps_rem, exists_false, or_false, not_false_eq_true,
    forall_true_left] at hmem hgw hgo
  refine ⟨links', by rw [recLoopSIR_eq]; exact hl, hinv, hwd, ?_, ?_⟩
  · intro a b
    rw [hmem (a, b), hs.link_items]
    simp only [fset]
    grind
  · intro f hf p hp
    obtain ⟨h1, h2⟩ := hgo p hp
    rw [h2]; exact hs.link_w f hf p h1

/-- the links part of an SIS recovery of `u` -/
theorem recSIS_links (P : GParams) (h : WF P) (s : GState) (hs : Inv P s) (u : Node)
    (hu : u ∈ s.inf.items) (hsis : P.sis = true) :
    ∃ links', recLoopSIS P (fset s.status u St.S) u s.links (P.nbrs u) = some links' ∧ LD.Inv links' ∧
      links'.weighted = s.links.weighted ∧
      (∀ a b, (a, b) ∈ links'.items ↔
        (a ∈ P.nodes ∧ fset s.status u St.S a = St.I ∧ b ∈ P.nbrs a ∧ fset s.status u St.S b = St.S)) ∧
      (∀ f, P.ew = some f → ∀ p ∈ links'.items, links'.getW p = f p.1 p.2) := by
  obtain ⟨hun, hsu⟩ := (hs.inf_items u).1 hu
  have hok : ∀ o ∈ recSISOps P (fset s.status u St.S) u (P.nbrs u), o.ok s.links := by
    intro o ho
    obtain ⟨n, hn, hg⟩ := List.mem_filterMap.1 ho
    split at hg
    · cases hg
    · rename_i hne
      split at hg
      · cases hg
        rename_i h1
        show (u, n) ∈ s.links.items
        rw [hs.link_items]
        rw [fset_ne _ _ _ _ hne] at h1
        exact ⟨hun, hsu, hn, h1⟩
      · cases hg
        refine ⟨?_, ?_, edgeW_nonneg P h u n⟩
        · rw [hs.link_items]; rintro ⟨-, -, -, h2⟩; rw [hsu] at h2; cases h2
        · rw [edgeW_isSome, hs.linkW]
  obtain ⟨links', hl, hinv, hwd, hmem, hgw, hgo⟩ :=
    LD.applyOps_spec' _ s.links hs.linkInv (recSISOps_keys P (fset s.status u St.S) u (P.nbrs u)
      (h.nbr_nodup u hun)) hok
  simp only [mem_recSISOps_upd, mem_recSISOps_rem] at hmem hgw hgo
  refine ⟨links', by rw [recLoopSIS_eq]; exact hl, hinv, hwd, ?_, ?_⟩
  · intro a b
    rw [hmem (a, b), hs.link_items]
    have hsym := h.symm
    have hI : ∀ x, s.status x ≠ St.S → s.status x = St.I :=
      fun x hx => St.eq_I_of _ hx (hs.sis_noR hsis x)
    have hnl := h.noloop
    have hnm := h.nbr_mem u hun
    simp only [fset]
    grind
  · intro f hf p hp
    by_cases hup : ∃ w, p.2 = u ∧ p.1 ∈ P.nbrs u ∧ p.1 ≠ u ∧ fset s.status u St.S p.1 ≠ St.S ∧
        w = edgeW P u p.1
    · obtain ⟨w, h1, h2, h3, h4, h5⟩ := hup
      rw [hgw p (f u p.1) ⟨h1, h2, h3, h4, (edgeW_some P f hf u p.1).symm⟩, h1]
      exact h.ew_symm f hf u p.1
    · obtain ⟨h1, h2⟩ := hgo p hp hup
      rw [h2]; exact hs.link_w f hf p h1

/-! ### event applications preserve the invariant -/

theorem applyRec_inv' (P : GParams) (h : WF P) (s : GState) (hs : Inv P s) (u : Node) (t : Rat)
    (hu : u ∈ s.inf.items) :
    ∃ s', applyRec P s u t = some s' ∧ Inv P s' ∧ s'.status = Chain.apply P s.status (.recover u) := by
  obtain ⟨hun, hsu⟩ := (hs.inf_items u).1 hu
  obtain ⟨inf', hinf', hinvI, hwdI, hmemI, hgetI⟩ := LD.remove_any s.inf u hs.infInv hu
  have key : ∀ (x : St) (links' : LD (Node × Node)), x ≠ St.I → (P.sis = true → x = St.S) →
      LD.Inv links' → links'.weighted = s.links.weighted →
      (∀ a b, (a, b) ∈ links'.items ↔
        (a ∈ P.nodes ∧ fset s.status u x a = St.I ∧ b ∈ P.nbrs a ∧ fset s.status u x b = St.S)) →
      (∀ f, P.ew = some f → ∀ p ∈ links'.items, links'.getW p = f p.1 p.2) →
      ∀ (tm : List Rat) (S I R : List Int) (lg : List (Rat × GEvent)),
      Inv P { status := fset s.status u x, inf := inf', links := links', times := tm, S := S, I := I,
              R := R, log := lg } := by
    intro x links' hxI hxS hinvL hwdL hmemL hgetL tm S I R lg
    refine ⟨hinvI, hinvL, hwdI.trans hs.infW, hwdL.trans hs.linkW, ?_, hmemL, ?_, hgetL, ?_⟩
    · intro a
      show a ∈ inf'.items ↔ (a ∈ P.nodes ∧ fset s.status u x a = St.I)
      rw [hmemI, hs.inf_items]
      by_cases ha : a = u
      · subst ha; rw [fset_self]; simp [hxI]
      · rw [fset_ne _ _ _ _ ha]; simp [ha]
    · intro f hf a ha
      have ha' := (hmemI a).1 ha
      show inf'.getW a = f a
      rw [hgetI a ha'.2]; exact hs.inf_w f hf a ha'.1
    · intro hsis a
      show fset s.status u x a ≠ St.R
      by_cases ha : a = u
      · subst ha; rw [fset_self, hxS hsis]; simp
      · rw [fset_ne _ _ _ _ ha]; exact hs.sis_noR hsis a
  cases hsis : P.sis with
  | true =>
    obtain ⟨links', hl, hinvL, hwdL, hmemL, hgetL⟩ := recSIS_links P h s hs u hu hsis
    have e : applyRec P s u t = some { status := fset s.status u St.S, inf := inf', links := links',
        times := t :: s.times, S := (hd s.S + 1) :: s.S, I := (hd s.I - 1) :: s.I, R := s.R,
        log := (t, GEvent.recover u) :: s.log } := by
      simp only [applyRec, hinf', hsis, if_true, hl]; rfl
    exact ⟨_, e, key St.S links' (by simp) (fun _ => rfl) hinvL hwdL hmemL hgetL _ _ _ _ _,
      by simp [Chain.apply, hsis]⟩
  | false =>
    obtain ⟨links', hl, hinvL, hwdL, hmemL, hgetL⟩ := recSIR_links P h s hs u hu
    have e : applyRec P s u t = some { status := fset s.status u St.R, inf := inf', links := links',
        times := t :: s.times, S := hd s.S :: s.S, I := (hd s.I - 1) :: s.I, R := (hd s.R + 1) :: s.R,
        log := (t, GEvent.recover u) :: s.log } := by
      simp only [applyRec, hinf', hsis, Bool.false_eq_true, if_false, hl]; rfl
    exact ⟨_, e, key St.R links' (by simp) (fun hc => by simp at hc) hinvL hwdL hmemL hgetL _ _ _ _ _,
      by simp [Chain.apply, hsis]⟩

theorem applyTrans_inv' (P : GParams) (h : WF P) (s : GState) (hs : Inv P s) (u v : Node) (t : Rat)
    (huv : (u, v) ∈ s.links.items) :
    ∃ s', applyTrans P s u v t = some s' ∧ Inv P s' ∧
      s'.status = Chain.apply P s.status (.transmit u v) := by
  obtain ⟨hu, hsu, hvu, hsv⟩ := (hs.link_items u v).1 huv
  have hvn : v ∈ P.nodes := h.nbr_mem u hu v hvu
  have hvinf : v ∉ s.inf.items := by
    rw [hs.inf_items]; rintro ⟨-, h2⟩; rw [hsv] at h2; cases h2
  obtain ⟨inf', hinf'⟩ := LD.update_exists s.inf v (nodeW P v) (by rw [nodeW_isSome, hs.infW])
  obtain ⟨hwdI, hmemI, hgetI⟩ := LD.update_any s.inf inf' v (nodeW P v) hinf'
  have hinvI : LD.Inv inf' := LD.inv_update s.inf inf' v (nodeW P v) hs.infInv (nodeW_nonneg P h v) hinf'
  obtain ⟨links', hl, hinvL, hwdL, hmemL, hgetL⟩ := trans_links P h s hs u v huv
  have e : applyTrans P s u v t = some { status := fset s.status v St.I, inf := inf', links := links',
      times := t :: s.times, S := (hd s.S - 1) :: s.S, I := (hd s.I + 1) :: s.I,
      R := (if P.sis then s.R else hd s.R :: s.R), log := (t, GEvent.transmit u v) :: s.log } := by
    simp only [applyTrans, hinf', hl]; rfl
  refine ⟨_, e, ?_, ?_⟩
  · refine ⟨hinvI, hinvL, hwdI.trans hs.infW, hwdL.trans hs.linkW, ?_, hmemL, ?_, hgetL, ?_⟩
    · intro a
      show a ∈ inf'.items ↔ (a ∈ P.nodes ∧ fset s.status v St.I a = St.I)
      rw [hmemI, hs.inf_items]
      by_cases ha : a = v
      · subst ha; rw [fset_self]; simp [hvn]
      · rw [fset_ne _ _ _ _ ha]; simp [ha]
    · intro f hf a ha
      show inf'.getW a = f a
      by_cases hav : a = v
      · subst hav
        rw [nodeW_some P f hf] at hinf'
        rw [LD.update_getW_self s.inf inf' a (f a) hinf',
          LD.getW_of_not_mem s.inf hs.infInv (by rw [hs.infW, hf]; rfl) a hvinf]
        ring
      · rw [hgetI a hav]
        rcases (hmemI a).1 ha with h1 | h1
        · exact hs.inf_w f hf a h1
        · exact absurd h1 hav
    · intro hsis a
      show fset s.status v St.I a ≠ St.R
      by_cases ha : a = v
      · subst ha; rw [fset_self]; simp
      · rw [fset_ne _ _ _ _ ha]; exact hs.sis_noR hsis a
  · simp [Chain.apply]

end Gillespie
