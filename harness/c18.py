"""C18 — simulations are reproducible from the random seeds.
(a) real generators seeded identically -> identical output on repeated calls in one process (and the generator states
afterwards are identical: the same amount of randomness was consumed); (b) randomness is consumed only through the five
primitives of `random` / `numpy.random` (the tape proxies of every other check raise on anything else); (c) for the
continuous-time simulators the arrays equal the summary of the full-data run with the same seeds; (d) identical output
across interpreter hash seeds (subprocesses with PYTHONHASHSEED=0..3) with string node names and string statuses."""
import json, os, subprocess, sys
from fractions import Fraction as F
import common, allsims, sims, gen
from predchecks import strip
import c18_worker

CONT = ["Gillespie_SIR", "Gillespie_SIS", "fast_SIR", "fast_SIS", "Gillespie_simple_contagion", "Gillespie_complex_contagion",
        "fast_nonMarkov_SIR", "fast_nonMarkov_SIS"]


def string_labels(c, rng):
    names = ["n%s%s" % (chr(97 + (7 * i) % 26), i) for i in range(c["n"])]
    rng.shuffle(names)
    c["labels"] = names


def run(ctx):
    # (a) + (c) in-process
    for sim in allsims.SIMS:
        for _ in range(ctx.scale(25, 150)):
            c = allsims.gen_case(ctx.rng, sim)
            if ctx.rng.random() < 0.5:
                string_labels(c, ctx.rng)
                c["container"] = "list"
            seed = ctx.rng.randrange(10 ** 6)
            rep = dict(entry=sim, case=strip(c), seed=seed)
            r1 = c18_worker.run_case(c, seed, c["full"])
            r2 = c18_worker.run_case(c, seed, c["full"])
            ctx.case(rep, nontrivial=r1["ok"], sample=rep)
            ctx.count("inproc:" + sim)
            if not r1["ok"]:
                ctx.violation("%s raised %s with the real generators" % (sim, r1["err"]), rep)
                continue
            if r1 != r2:
                ctx.violation("%s: two calls with identically seeded random / numpy.random differ" % sim, rep)
                continue
            if sim in CONT[:6]:
                f = c18_worker.run_case(c, seed, True)
                a = c18_worker.run_case(c, seed, False)
                if f["ok"] and a["ok"]:
                    s = f["out"]["summary"]
                    ft = [repr(float(F(x))) for x in s["times"]]
                    at = a["out"]["times"]
                    # arrays may contain simultaneous rows; compare as sets of distinct times and final counts
                    if sorted(set(ft), key=float) != sorted(set(at), key=float) or \
                       [float(col[-1]) for col in s["cols"]] != [float(col[-1]) for col in a["out"]["cols"]]:
                        ctx.violation("%s: result depends on return_full_data although the draws do not" % sim, rep)
    # (d) cross-process, hash seeds
    jobs = []
    for sim in CONT:
        generic = sim == "Gillespie_simple_contagion"
        for k_ in range(ctx.scale(48 if generic else 16, 160 if generic else 48)):
            c = allsims.gen_case(ctx.rng, sim, nmax=10 if generic else 8)
            if generic and k_ % 2 == 0:
                # directed contact graph with many two-way and converging edges: the order in which the edges at a
                # changing node are re-filed must not be a hash order of (string, string) tuples
                while not (c.get("directed") and len(c["edges"]) >= 2 * c["n"]):
                    c = allsims.gen_case(ctx.rng, sim, nmax=10)
                    c["directed"] = True
                    n_ = c["n"]
                    c["edges"] = [[u, v] for u in range(n_) for v in range(n_) if u != v and ctx.rng.random() < 0.55]
                    c["edgew"] = [str(ctx.rng.choice([1, 2])) for _ in c["edges"]]
                    c["edgew_rev"] = list(c["edgew"])
                    if n_ < 4:
                        c["directed"] = False
                c["tmax"] = str(F(c["tmin"]) + 8)
            if k_ % 2 == 0 and sim in ("Gillespie_SIR", "fast_SIR", "fast_nonMarkov_SIR", "Gillespie_SIS", "fast_SIS", "fast_nonMarkov_SIS") and c["n"] >= 5:
                # several string-named initial infecteds (+ initially recovered nodes for SIR): the order in which they
                # enter the candidate structures must be the caller's, not a hash order
                nodes = list(range(c["n"]))
                ctx.rng.shuffle(nodes)
                c["init"] = dict(kind="list", nodes=nodes[:3])
                c["recs"] = nodes[3:5] if sim in allsims.HAS_RECS else []
            string_labels(c, ctx.rng)
            c["container"] = ctx.rng.choice(["list", "set"]) if c.get("init", {}).get("kind") == "list" else "list"
            if c.get("container") == "set":
                c["container"] = "list"          # a caller-supplied set is iterated in hash order: the caller's choice, not the library's
            jobs.append([strip(c), ctx.rng.randrange(10 ** 6), True])
    outs = []
    for hs in range(4):
        env = dict(os.environ, PYTHONHASHSEED=str(hs))
        p = subprocess.run([sys.executable, os.path.join(os.path.dirname(os.path.abspath(__file__)), "c18_worker.py")],
                           input=json.dumps(jobs), capture_output=True, text=True, env=env)
        if p.returncode != 0:
            raise RuntimeError("c18 worker failed: " + p.stderr[-800:])
        outs.append(json.loads(p.stdout.strip().splitlines()[-1]))
    for i, (c, seed, full) in enumerate(jobs):
        rep = dict(entry=c["sim"], stream="hashseed", case=c, seed=seed)
        ctx.case(rep, nontrivial=True)
        ctx.count("hashseed:" + c["sim"])
        rs_ = [o[i] for o in outs]
        if any(r != rs_[0] for r in rs_[1:]):
            k = next(k for k in range(1, 4) if rs_[k] != rs_[0])
            ctx.violation("%s: output differs between PYTHONHASHSEED=0 and %d (string node names / statuses)" % (c["sim"], k), rep)
