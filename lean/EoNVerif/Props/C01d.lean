import EoNVerif.Proofs.CompetingExp
/-!
C01d — competing exponential clocks and memorylessness, in the uniform-draw model of C01c.

The verification of the event-driven simulators `fast_SIR` / `fast_SIS` (`/repo/EoN/simulation.py`) *cites* two
classical facts:

* "first-passage percolation with independent exponential delays has the law of the continuous-time Markov chain":
  when several independent exponential clocks (rates `r_1, …, r_n`) are started together, the time of the first ring
  is Exp(`Σ r_j`), the ringing clock is `i` with probability `r_i / Σ r_j`, and the two are independent — this is
  exactly the jump law of the Gillespie / CTMC description (`first_and_when`, `nary_first_and_when`);
* "re-drawing an exponential delay after the target recovers (`fast_SIS`) is harmless": an exponential clock that
  has not rung by time `s` is, from `s` on, a fresh exponential clock (`memoryless`, `memoryless_cond`,
  `memoryless_residual`).

They are mechanised here in the SAME model as C01c (`Props/C01c.lean`, `Proofs/FastSIRLaw2.lean`):
`random.expovariate(r)` is `expovariate r u = -log(1-u)/r` with `u = random.random() ∈ [0,1)`; a probability is the
Lebesgue measure (`volume`) of the set of uniform draws; independent draws are modelled by the product measure on
the unit square `[0,1)²` (`volume` on `ℝ × ℝ` is `volume.prod volume`, see the first `example`) or on the unit
cube `[0,1)^n` (`volume` on `Fin n → ℝ` is `Measure.pi fun _ => volume`).  The restriction to the unit square/cube
is the conjunct `… ∈ Set.Ico 0 1` inside the set, as in C01c.  Real numbers stand for the floats.

Like C01c, this file imports nothing from the project besides `Proofs/FastSIRLaw2.lean` (via
`Proofs/CompetingExp.lean`): Mathlib's `Dist` clashes with the project's.  Check it on its own with
`lake build EoNVerif.Props.C01d`; do not add it to `EoNVerif/Props.lean`.
-/
namespace FastSIRLaw
open MeasureTheory

/-! ### one clock: survival function and memorylessness -/

/-- **1.** `P(X > t) = exp(-a t)` for `X = random.expovariate(a)`, `t ≥ 0` -/
theorem exp_survival {a : ℝ} (ha : 0 < a) {t : ℝ} (ht : 0 ≤ t) :
    volume {u : ℝ | u ∈ Set.Ico (0 : ℝ) 1 ∧ t < expovariate a u} = ENNReal.ofReal (Real.exp (-a * t)) :=
  survival_volume ha ht

/-- **2.** memorylessness: `P(X > s + t) = P(X > s) · P(X > t)` -/
theorem memoryless {a : ℝ} (ha : 0 < a) {s t : ℝ} (hs : 0 ≤ s) (ht : 0 ≤ t) :
    volume {u : ℝ | u ∈ Set.Ico (0 : ℝ) 1 ∧ s + t < expovariate a u}
      = volume {u : ℝ | u ∈ Set.Ico (0 : ℝ) 1 ∧ s < expovariate a u}
        * volume {u : ℝ | u ∈ Set.Ico (0 : ℝ) 1 ∧ t < expovariate a u} := by
  rw [survival_volume ha (add_nonneg hs ht), survival_volume ha hs, survival_volume ha ht,
    ← ENNReal.ofReal_mul (Real.exp_pos _).le, ← Real.exp_add]
  congr 2; ring

/-- memorylessness in conditional form: `P(X > s + t | X > s) = P(X > t)`
(`{X > s+t} ⊆ {X > s}`, so the conditional probability is the quotient of the two measures) -/
theorem memoryless_cond {a : ℝ} (ha : 0 < a) {s t : ℝ} (hs : 0 ≤ s) (ht : 0 ≤ t) :
    volume {u : ℝ | u ∈ Set.Ico (0 : ℝ) 1 ∧ s + t < expovariate a u}
        / volume {u : ℝ | u ∈ Set.Ico (0 : ℝ) 1 ∧ s < expovariate a u}
      = volume {u : ℝ | u ∈ Set.Ico (0 : ℝ) 1 ∧ t < expovariate a u} := by
  rw [memoryless ha hs ht, survival_volume ha hs, mul_comm]
  exact ENNReal.mul_div_cancel_right (by simp [Real.exp_pos]) ENNReal.ofReal_ne_top

/-- the form used for the re-draw in `fast_SIS`: the residual delay `X - s` of a clock that has not rung by time `s`
has the law of a fresh draw: `P(X > s, X - s > t) = P(X > s) · P(X > t)` -/
theorem memoryless_residual {a : ℝ} (ha : 0 < a) {s t : ℝ} (hs : 0 ≤ s) (ht : 0 ≤ t) :
    volume {u : ℝ | u ∈ Set.Ico (0 : ℝ) 1 ∧ s < expovariate a u ∧ t < expovariate a u - s}
      = volume {u : ℝ | u ∈ Set.Ico (0 : ℝ) 1 ∧ s < expovariate a u}
        * volume {u : ℝ | u ∈ Set.Ico (0 : ℝ) 1 ∧ t < expovariate a u} := by
  rw [← memoryless ha hs ht]
  congr 1
  ext u
  simp only [Set.mem_ofPred_eq]
  constructor
  · rintro ⟨h, _, h2⟩; exact ⟨h, by linarith⟩
  · rintro ⟨h, h2⟩; exact ⟨h, by linarith, by linarith⟩

/-! ### two competing clocks `X = expovariate a u`, `Y = expovariate b v`, `(u,v)` uniform on `[0,1)²` -/

/-- **3.** the first of two competing clocks is Exp(`a+b`): `P(min(X,Y) > t) = exp(-(a+b) t)` -/
theorem min_survival {a b : ℝ} (ha : 0 < a) (hb : 0 < b) {t : ℝ} (ht : 0 ≤ t) :
    (volume : Measure (ℝ × ℝ))
      {p : ℝ × ℝ | p.1 ∈ Set.Ico (0 : ℝ) 1 ∧ p.2 ∈ Set.Ico (0 : ℝ) 1 ∧
        t < min (expovariate a p.1) (expovariate b p.2)}
      = ENNReal.ofReal (Real.exp (-(a + b) * t)) :=
  min_survival_volume ha hb ht

/-- **4.** which clock fires first: `P(X < Y) = a / (a+b)` -/
theorem first_is_a {a b : ℝ} (ha : 0 < a) (hb : 0 < b) :
    (volume : Measure (ℝ × ℝ))
      {p : ℝ × ℝ | p.1 ∈ Set.Ico (0 : ℝ) 1 ∧ p.2 ∈ Set.Ico (0 : ℝ) 1 ∧ expovariate a p.1 < expovariate b p.2}
      = ENNReal.ofReal (a / (a + b)) :=
  first_volume ha hb

/-- **5.** the Gillespie jump law: `P(X < Y, X > t) = a/(a+b) · exp(-(a+b) t)` — rate share × Exp(total rate)
waiting time -/
theorem first_and_when {a b : ℝ} (ha : 0 < a) (hb : 0 < b) {t : ℝ} (ht : 0 ≤ t) :
    (volume : Measure (ℝ × ℝ))
      {p : ℝ × ℝ | p.1 ∈ Set.Ico (0 : ℝ) 1 ∧ p.2 ∈ Set.Ico (0 : ℝ) 1 ∧
        expovariate a p.1 < expovariate b p.2 ∧ t < expovariate a p.1}
      = ENNReal.ofReal (a / (a + b) * Real.exp (-(a + b) * t)) :=
  first_and_when_volume ha hb ht

/-- "who" and "when" are independent: `P(X < Y, min(X,Y) > t) = P(X < Y) · P(min(X,Y) > t)` -/
theorem first_and_when_indep {a b : ℝ} (ha : 0 < a) (hb : 0 < b) {t : ℝ} (ht : 0 ≤ t) :
    (volume : Measure (ℝ × ℝ))
      {p : ℝ × ℝ | p.1 ∈ Set.Ico (0 : ℝ) 1 ∧ p.2 ∈ Set.Ico (0 : ℝ) 1 ∧
        expovariate a p.1 < expovariate b p.2 ∧ t < min (expovariate a p.1) (expovariate b p.2)}
      = (volume : Measure (ℝ × ℝ))
          {p : ℝ × ℝ | p.1 ∈ Set.Ico (0 : ℝ) 1 ∧ p.2 ∈ Set.Ico (0 : ℝ) 1 ∧
            expovariate a p.1 < expovariate b p.2}
        * (volume : Measure (ℝ × ℝ))
          {p : ℝ × ℝ | p.1 ∈ Set.Ico (0 : ℝ) 1 ∧ p.2 ∈ Set.Ico (0 : ℝ) 1 ∧
            t < min (expovariate a p.1) (expovariate b p.2)} := by
  have hab : 0 < a + b := by linarith
  rw [first_volume ha hb, min_survival_volume ha hb ht, ← ENNReal.ofReal_mul (div_pos ha hab).le,
    ← first_and_when_volume ha hb ht]
  congr 1
  ext p
  simp only [Set.mem_ofPred_eq, lt_min_iff]
  constructor
  · rintro ⟨h1, h2, h3, h4, _⟩; exact ⟨h1, h2, h3, h4⟩
  · rintro ⟨h1, h2, h3, h4⟩; exact ⟨h1, h2, h3, h4, lt_trans h4 h3⟩

/-! ### `n` competing clocks `X_j = expovariate (r j) (w j)`, `w` uniform on `[0,1)^n` -/

/-- **6a.** all of finitely many independent clocks exceed `t` (i.e. their minimum does) with probability
`exp(-(Σ r_j) t)` -/
theorem nary_min_survival {ι : Type*} [Fintype ι] {r : ι → ℝ} (hr : ∀ i, 0 < r i) {t : ℝ} (ht : 0 ≤ t) :
    (volume : Measure (ι → ℝ)) {w : ι → ℝ | ∀ i, w i ∈ Set.Ico (0 : ℝ) 1 ∧ t < expovariate (r i) (w i)}
      = ENNReal.ofReal (Real.exp (-(∑ i, r i) * t)) :=
  pi_min_survival_volume hr ht

/-- the same with the minimum written out (`Finset.inf'` over the `n+1` clocks) -/
theorem nary_min_survival' {n : ℕ} {r : Fin (n + 1) → ℝ} (hr : ∀ i, 0 < r i) {t : ℝ} (ht : 0 ≤ t) :
    (volume : Measure (Fin (n + 1) → ℝ))
      {w : Fin (n + 1) → ℝ | (∀ i, w i ∈ Set.Ico (0 : ℝ) 1) ∧
        t < Finset.univ.inf' Finset.univ_nonempty (fun i => expovariate (r i) (w i))}
      = ENNReal.ofReal (Real.exp (-(∑ i, r i) * t)) := by
  rw [← pi_min_survival_volume hr ht]
  congr 1
  ext w
  simp only [Set.mem_ofPred_eq, Finset.lt_inf'_iff, Finset.mem_univ, true_implies, forall_and]

/-- **6b.** clock `i` is the first of `n+1` clocks with probability `r_i / Σ r_j` -/
theorem nary_first_is_i {n : ℕ} {r : Fin (n + 1) → ℝ} (hr : ∀ j, 0 < r j) (i : Fin (n + 1)) :
    (volume : Measure (Fin (n + 1) → ℝ))
      {w : Fin (n + 1) → ℝ | (∀ j, w j ∈ Set.Ico (0 : ℝ) 1) ∧
        (∀ j, j ≠ i → expovariate (r i) (w i) < expovariate (r j) (w j))}
      = ENNReal.ofReal (r i / (∑ j, r j)) :=
  pi_first_volume hr i

/-- **6c.** the `n`-ary Gillespie jump law: clock `i` is the first and fires after `t` with probability
`r_i / Σ r_j · exp(-(Σ r_j) t)` -/
theorem nary_first_and_when {n : ℕ} {r : Fin (n + 1) → ℝ} (hr : ∀ j, 0 < r j) (i : Fin (n + 1))
    {t : ℝ} (ht : 0 ≤ t) :
    (volume : Measure (Fin (n + 1) → ℝ))
      {w : Fin (n + 1) → ℝ | (∀ j, w j ∈ Set.Ico (0 : ℝ) 1) ∧
        (∀ j, j ≠ i → expovariate (r i) (w i) < expovariate (r j) (w j)) ∧ t < expovariate (r i) (w i)}
      = ENNReal.ofReal (r i / (∑ j, r j) * Real.exp (-(∑ j, r j) * t)) :=
  pi_first_and_when_volume hr i ht

/-! ### concrete instances -/

/-- `volume` on `ℝ × ℝ` is the product of the two Lebesgue measures: two independent uniform draws -/
example : (volume : Measure (ℝ × ℝ)) = (volume : Measure ℝ).prod (volume : Measure ℝ) := rfl
/-- `volume` on `Fin 3 → ℝ` is the product of three Lebesgue measures -/
example : (volume : Measure (Fin 3 → ℝ)) = Measure.pi fun _ => (volume : Measure ℝ) := rfl

example : volume {u : ℝ | u ∈ Set.Ico (0 : ℝ) 1 ∧ 3 < expovariate 2 u} = ENNReal.ofReal (Real.exp (-2 * 3)) :=
  exp_survival (by norm_num) (by norm_num)
example : volume {u : ℝ | u ∈ Set.Ico (0 : ℝ) 1 ∧ 1 + 2 < expovariate 5 u}
    = volume {u : ℝ | u ∈ Set.Ico (0 : ℝ) 1 ∧ 1 < expovariate 5 u}
      * volume {u : ℝ | u ∈ Set.Ico (0 : ℝ) 1 ∧ 2 < expovariate 5 u} :=
  memoryless (by norm_num) (by norm_num) (by norm_num)
example : volume {u : ℝ | u ∈ Set.Ico (0 : ℝ) 1 ∧ 1 + 2 < expovariate 5 u}
      / volume {u : ℝ | u ∈ Set.Ico (0 : ℝ) 1 ∧ 1 < expovariate 5 u}
    = ENNReal.ofReal (Real.exp (-5 * 2)) := by
  rw [memoryless_cond (by norm_num) (by norm_num) (by norm_num), exp_survival (by norm_num) (by norm_num)]
example : (volume : Measure (ℝ × ℝ))
    {p : ℝ × ℝ | p.1 ∈ Set.Ico (0 : ℝ) 1 ∧ p.2 ∈ Set.Ico (0 : ℝ) 1 ∧ 4 < min (expovariate 1 p.1) (expovariate 3 p.2)}
    = ENNReal.ofReal (Real.exp (-(1 + 3) * 4)) :=
  min_survival (by norm_num) (by norm_num) (by norm_num)
/-- transmission at rate `1` against recovery at rate `3`: the transmission comes first with probability `1/4` -/
example : ((volume : Measure ℝ).prod (volume : Measure ℝ))
    {p : ℝ × ℝ | p.1 ∈ Set.Ico (0 : ℝ) 1 ∧ p.2 ∈ Set.Ico (0 : ℝ) 1 ∧ expovariate 1 p.1 < expovariate 3 p.2}
    = ENNReal.ofReal (1 / 4) := by
  have h := first_is_a (a := 1) (b := 3) (by norm_num) (by norm_num)
  norm_num at h
  exact h
example : (volume : Measure (ℝ × ℝ))
    {p : ℝ × ℝ | p.1 ∈ Set.Ico (0 : ℝ) 1 ∧ p.2 ∈ Set.Ico (0 : ℝ) 1 ∧
      expovariate 1 p.1 < expovariate 3 p.2 ∧ 2 < expovariate 1 p.1}
    = ENNReal.ofReal (1 / (1 + 3) * Real.exp (-(1 + 3) * 2)) :=
  first_and_when (by norm_num) (by norm_num) (by norm_num)
/-- at `t = 0` the jump law gives back the rate share -/
example : (volume : Measure (ℝ × ℝ))
    {p : ℝ × ℝ | p.1 ∈ Set.Ico (0 : ℝ) 1 ∧ p.2 ∈ Set.Ico (0 : ℝ) 1 ∧
      expovariate 2 p.1 < expovariate 3 p.2 ∧ 0 < expovariate 2 p.1}
    = ENNReal.ofReal (2 / (2 + 3)) := by
  rw [first_and_when (by norm_num) (by norm_num) (le_refl _)]
  simp
/-- three clocks with rates `1, 2, 3`: the middle one is the first with probability `2/6` -/
example : (volume : Measure (Fin 3 → ℝ))
    {w : Fin 3 → ℝ | (∀ j, w j ∈ Set.Ico (0 : ℝ) 1) ∧
      (∀ j, j ≠ 1 → expovariate (![1, 2, 3] 1) (w 1) < expovariate (![1, 2, 3] j) (w j))}
    = ENNReal.ofReal (2 / (1 + 2 + 3)) := by
  have h := nary_first_is_i (r := ![1, 2, 3]) (by intro j; fin_cases j <;> simp) 1
  rw [h, Fin.sum_univ_three]
  simp
example : (volume : Measure (Fin 3 → ℝ))
    {w : Fin 3 → ℝ | ∀ i, w i ∈ Set.Ico (0 : ℝ) 1 ∧ 5 < expovariate (![1, 2, 3] i) (w i)}
    = ENNReal.ofReal (Real.exp (-(1 + 2 + 3) * 5)) := by
  have h := nary_min_survival (r := ![1, 2, 3]) (by intro j; fin_cases j <;> simp) (t := 5) (by norm_num)
  rw [h, Fin.sum_univ_three]
  simp

end FastSIRLaw
