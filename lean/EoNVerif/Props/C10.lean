import EoNVerif.Proofs.Investigation
import EoNVerif.Props.C05b
/-!
C10 — target statements: the full-data object and the plain arrays describe the same epidemic.
`Invest.histOf/histories` = node histories built from an event log; `Invest.arraysOf` = the arrays built from the same
log; `Pred.statusAt`, `Pred.summarySpec`, `Pred.arraysMatch`, `Pred.histWFg`, `Pred.nodeStatusImpl` are the executable
predicates that the harness evaluates on the implementation's own histories.
-/
namespace Invest
open Pred

/-- **node_status / get_statuses**: for any query time at or after tmin, the status of the latest change at or
before that time is the status after all events with time ≤ T -/
theorem statusAt_histOf (tmin : Rat) (init : Node → String) (nodes : List Node) (log : Log)
    (h : ValidLog tmin nodes log) (v : Node) (T : Rat) (hT : tmin ≤ T) :
    statusAt (histOf tmin init log v) T = some (statusAfter init log (upTo log T) v) :=
  statusAt_histOf' tmin init nodes log h v T hT

/-- the implementation's count-based lookup (`len([t for t in changetimes if t <= time]) - 1`) agrees with the
specification on time-ordered histories, for every query time at or after tmin -/
theorem nodeStatusImpl_eq_statusAt (tmin : Rat) (init : Node → String) (nodes : List Node) (log : Log)
    (h : ValidLog tmin nodes log) (v : Node) (T : Rat) (hT : tmin ≤ T) :
    nodeStatusImpl (histOf tmin init log v) T = statusAt (histOf tmin init log v) T :=
  nodeStatusImpl_eq_statusAt' tmin init nodes log h v T hT

/-- each node history starts at tmin, is time-ordered and only makes legal moves, provided every event of the log is
a legal move of its node's status at that moment -/
theorem histWF_histOf (tmin : Rat) (init : Node → String) (nodes : List Node) (log : Log)
    (h : ValidLog tmin nodes log) (legal : List (String × String))
    (hl : ∀ k, k < log.length → ∀ e, log[k]? = some e → (statusAfter init log k e.2.1, e.2.2) ∈ legal)
    (v : Node) : histWFg legal tmin (histOf tmin init log v) = true :=
  histWF_histOf' tmin init nodes log h legal hl v

set_option linter.unusedVariables false in -- `hn` (Nodup) is not needed by the proof
/-- **summary == arrays**: the counts implied by the node histories at each distinct change time equal the array
rows with equal-time rows collapsed to the last -/
theorem summary_eq_arrays (tmin : Rat) (init : Node → String) (nodes : List Node) (log : Log)
    (h : ValidLog tmin nodes log) (hn : nodes.Nodup) (hne : nodes ≠ []) (statuses : List String) :
    arraysMatch true (arraysOf tmin init log nodes statuses) (histories tmin init log nodes) statuses = true :=
  summary_eq_arrays' tmin init nodes log h hne statuses

set_option linter.unusedVariables false in -- `hn` (Nodup) is not needed by the proof
/-- `summary()` itself is the collapsed arrays -/
theorem summarySpec_eq_collapse (tmin : Rat) (init : Node → String) (nodes : List Node) (log : Log)
    (h : ValidLog tmin nodes log) (hn : nodes.Nodup) (hne : nodes ≠ []) (statuses : List String) :
    trajEq (summarySpec (histories tmin init log nodes) statuses)
           (collapse (arraysOf tmin init log nodes statuses)) = true :=
  summarySpec_eq_collapse' tmin init nodes log h hne statuses

/-- summary over a node subset counts exactly the nodes of that subset -/
theorem summary_subset (tmin : Rat) (init : Node → String) (log : Log) (sub : List Node) (s : String) (T : Rat) :
    countAt (histories tmin init log sub) T s =
      ((sub.filter fun v => statusAt (histOf tmin init log v) T == some s).length : Int) :=
  countAt_histories tmin init log sub s T

end Invest

/-! non-vacuity: three nodes, two simultaneous events, a reinfection -/
def exLog : Invest.Log := [(1, 0, "I"), (1, 1, "I"), (2, 0, "S"), (5/2, 0, "I")]
def exInit (v : Node) : String := if v = 2 then "I" else "S"
example : Pred.arraysMatch true (Invest.arraysOf 0 exInit exLog [0, 1, 2] ["S", "I"])
    (Invest.histories 0 exInit exLog [0, 1, 2]) ["S", "I"] = true := by decide +kernel
example : (Pred.summarySpec (Invest.histories 0 exInit exLog [0, 1, 2]) ["S", "I"]).cols =
    [[2, 0, 1, 0], [1, 3, 2, 3]] := by decide +kernel
example : (Pred.summarySpec (Invest.histories 0 exInit exLog [0, 1, 2]) ["S", "I"]).times = [0, 1, 2, 5/2] := by
  decide +kernel
example : Invest.ValidLog 0 [0, 1, 2] exLog := by
  refine ⟨by decide +kernel, ?_⟩
  intro e he
  simp only [exLog, List.mem_cons, List.not_mem_nil, or_false] at he
  rcases he with rfl | rfl | rfl | rfl <;> decide
