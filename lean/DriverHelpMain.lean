import DriverHelp
partial def loopHelp (h : IO.FS.Stream) (out : IO.FS.Stream) : IO Unit := do
  let line ← h.getLine
  if line.isEmpty then return ()
  out.putStrLn (DrvGenHelp.handle line)
  loopHelp h out
def main : IO Unit := do loopHelp (← IO.getStdin) (← IO.getStdout)
