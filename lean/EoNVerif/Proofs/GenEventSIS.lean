import EoNVerif.Gen.EventSISGen
import EoNVerif.Model.EventSIS
import EoNVerif.Proofs.EventSIS2
/-!
The code generated from `fast_nonMarkov_SIS` / `_process_trans_SIS_nonMarkov_` / `_process_rec_SIS_` / `myQueue`
(`Gen/EventSISGen.lean`, namespace `GenNMSIS`) refines the hand-written lazy-queue model `EventSIS`
(`Model/EventSIS.lean`): a lock-step simulation between `GenNMSIS.pop_and_run` and `EventSIS.step`.
-/
open PyTM

namespace GenNMSIS

/-! ### the tape monad -/

theorem tm_pure {α : Type} (a : α) (ts : TapeSt) : (pure a : TM α) ts = .ok (a, ts) := rfl

theorem tm_bind_ok {α β : Type} {x : TM α} {f : α → TM β} {ts ts' : TapeSt} {a : α}
    (h : x ts = .ok (a, ts')) : (x >>= f) ts = f a ts' := by
  simp only [bind, StateT.bind, Except.bind, h]

theorem tm_bind_err {α β : Type} {x : TM α} {f : α → TM β} {ts : TapeSt} {e : String}
    (h : x ts = .error e) : (x >>= f) ts = .error e := by
  simp only [bind, StateT.bind, Except.bind, h]

theorem liftE_pure {α : Type} (a : α) : liftE (pure a : Except String α) = (pure a : TM α) := rfl

theorem listLast_eq {α : Type} {l : List α} {a : α} (h : l.getLast? = some a) :
    liftE (listLast l) = (pure a : TM α) := by
  simp only [listLast, h]; rfl

theorem listGet_zero_cons {α : Type} (a : α) (l : List α) : liftE (listGet (a :: l) 0) = (pure a : TM α) := rfl

/-! ### association lists -/

theorem alGet_alSet {α β : Type} [DecidableEq α] (l : List (α × β)) (d : β) (k : α) (v : β) (x : α) :
    alGet (alSet l k v) d x = if x = k then v else alGet l d x := by
  induction l with
  | nil =>
    simp only [alSet, alGet]
    by_cases h : x = k
    · subst h; simp
    · have : ¬ k = x := fun h' => h h'.symm
      simp [h, this]
  | cons p t ih =>
    obtain ⟨k', w⟩ := p
    simp only [alSet]
    by_cases h1 : k' = k
    · subst h1
      simp only [if_true, alGet]
      by_cases h2 : k' = x
      · subst h2; simp
      · have : ¬ x = k' := fun h' => h2 h'.symm
        simp [h2, this]
    · simp only [h1, if_false, alGet, ih]
      by_cases h2 : k' = x
      · subst h2; simp [h1]
      · simp [h2]

theorem alGet_ddAppend {κ ν : Type} [DecidableEq κ] (d : List (κ × List ν)) (k : κ) (x : ν) (u : κ) :
    alGet (ddAppend d k x) [] u = if u = k then alGet d [] k ++ [x] else alGet d [] u := by
  unfold ddAppend; exact alGet_alSet _ _ _ _ _

theorem alFind_map {ν : Type} (f : Node → ν) (l : List Node) (v : Node) (hv : v ∈ l) :
    PyRT.alFind? (l.map fun w => (w, f w)) v = some (f v) := by
  induction l with
  | nil => simp at hv
  | cons w l ih =>
    simp only [List.map_cons, PyRT.alFind?]
    by_cases h : w = v
    · subst h; simp
    · simp only [h, if_false]
      rcases List.mem_cons.1 hv with rfl | hv
      · exact absurd rfl h
      · exact ih hv

theorem dictGet_map {ν : Type} (f : Node → ν) (l : List Node) (v : Node) (hv : v ∈ l) :
    liftE (PyRT.dictGet (l.map fun w => (w, f w)) v) = (pure (f v) : TM ν) := by
  simp only [PyRT.dictGet, alFind_map f l v hv]; rfl

/-! ### the queue -/

/-- the generated tag of a model event -/
def conc : SEv → Ev
  | .trans s t fut => .trans s t (fut.map some)
  | .recov u => .recov u

/-- the generated `(time, tag)` of a model queue item -/
def concItem (x : SItem) : ERat × Ev := (some x.time, conc x.ev)

/-- the generated queue `q` represents the model queue `l`: same entries in insertion order, strictly increasing
counters below `q.counter`, same `tmax` -/
structure QRel (P : SSParams) (q : MyQueue) (l : List SItem) : Prop where
  tmax : q.tmax = some P.tmax
  ents : q.q.map (fun e => (e.1, e.2.2)) = l.map concItem
  sorted : (q.q.map (fun e => e.2.1)).Pairwise (· < ·)
  below : ∀ e ∈ q.q, e.2.1 < q.counter

theorem QRel.length {P : SSParams} {q : MyQueue} {l : List SItem} (h : QRel P q l) : q.q.length = l.length := by
  have := congrArg List.length h.ents
  simpa using this

theorem ERat.lt_some (a b : Rat) : ERat.lt (some a) (some b) = decide (a < b) := rfl

theorem QRel.add {P : SSParams} {q : MyQueue} {l : List SItem} (h : QRel P q l) (t : Rat) (e : SEv) :
    QRel P (q.add (some t) (conc e)) (EventSIS.qadd P.tmax l t e) := by
  unfold MyQueue.add EventSIS.qadd
  rw [h.tmax, ERat.lt_some]
  by_cases ht : t < P.tmax
  · simp only [ht, decide_true, if_true]
    refine ⟨by simp, ?_, ?_, ?_⟩
    · simp [h.ents, concItem]
    · simp only [List.map_append, List.map_cons, List.map_nil]
      rw [List.pairwise_append]
      refine ⟨h.sorted, by simp, ?_⟩
      intro a ha b hb
      simp at hb; subst hb
      obtain ⟨e', he', rfl⟩ := List.mem_map.1 ha
      exact h.below e' he'
    · intro e' he'
      rcases List.mem_append.1 he' with he' | he'
      · exact Nat.lt_succ_of_lt (h.below e' he')
      · simp at he'; subst he'; simp
  · simp only [ht, decide_false, if_false]
    exact h
    
/-- the finite time of a stored entry -/
def tmE (e : ERat × Nat × Ev) : Rat := e.1.getD 0

theorem before_later {a b : ERat × Nat × Ev} (ha : a.1 = some (tmE a)) (hb : b.1 = some (tmE b))
    (hc : b.2.1 < a.2.1) : MyQueue.before a b = decide (tmE a < tmE b) := by
  unfold MyQueue.before
  rw [ha, hb, ERat.lt_some]
  have : ¬ a.2.1 < b.2.1 := by omega
  simp [this]

/-- the fold of `popMin` returns the first entry of minimal time -/
theorem foldl_min_spec (xs : List (ERat × Nat × Ev)) :
    ∀ (pre post : List (ERat × Nat × Ev)) (m : ERat × Nat × Ev),
      (∀ y ∈ pre, tmE m < tmE y) → (∀ y ∈ post, tmE m ≤ tmE y) →
      m.1 = some (tmE m) → (∀ y ∈ xs, y.1 = some (tmE y)) →
      (∀ y ∈ xs, m.2.1 < y.2.1) → (xs.map (fun e => e.2.1)).Pairwise (· < ·) →
      ∃ a b, pre ++ m :: post ++ xs = a ++ (xs.foldl (fun m y => if MyQueue.before y m then y else m) m) :: b ∧
        (∀ y ∈ a, tmE (xs.foldl (fun m y => if MyQueue.before y m then y else m) m) < tmE y) ∧
        (∀ y ∈ b, tmE (xs.foldl (fun m y => if MyQueue.before y m then y else m) m) ≤ tmE y) := by
  induction xs with
  | nil =>
    intro pre post m h1 h2 _ _ _ _
    exact ⟨pre, post, by simp, h1, h2⟩
  | cons y xs ih =>
    intro pre post m h1 h2 hm hfin hc hs
    simp only [List.foldl_cons]
    have hy : y.1 = some (tmE y) := hfin y (by simp)
    rw [before_later hy hm (hc y (by simp))]
    simp only [List.map_cons, List.pairwise_cons] at hs
    have hfin' : ∀ z ∈ xs, z.1 = some (tmE z) := fun z hz => hfin z (by simp [hz])
    by_cases hlt : tmE y < tmE m
    · simp only [hlt, decide_true, if_true]
      obtain ⟨a, b, e1, e2, e3⟩ := ih (pre ++ m :: post) [] y
        (by
          intro z hz
          rcases List.mem_append.1 hz with hz | hz
          · exact lt_trans hlt (h1 z hz)
          · rcases List.mem_cons.1 hz with rfl | hz
            · exact hlt
            · exact lt_of_lt_of_le hlt (h2 z hz))
        (by simp) hy hfin'
        (by intro z hz; exact hs.1 _ (List.mem_map.2 ⟨z, hz, rfl⟩)) hs.2
      refine ⟨a, b, ?_, e2, e3⟩
      rw [← e1]; simp
    · simp only [hlt, decide_false, Bool.false_eq_true, if_false]
      obtain ⟨a, b, e1, e2, e3⟩ := ih pre (post ++ [y]) m h1
        (by
          intro z hz
          rcases List.mem_append.1 hz with hz | hz
          · exact h2 z hz
          · simp at hz; subst hz; exact not_lt.1 hlt)
        hm hfin' (by intro z hz; exact hc z (by simp [hz])) hs.2
      refine ⟨a, b, ?_, e2, e3⟩
      rw [← e1]; simp

theorem QRel.fin {P : SSParams} {q : MyQueue} {l : List SItem} (h : QRel P q l) :
    ∀ e ∈ q.q, e.1 = some (tmE e) := by
  intro e he
  have : (e.1, e.2.2) ∈ l.map concItem := by
    rw [← h.ents]; exact List.mem_map.2 ⟨e, he, rfl⟩
  obtain ⟨x, _, hx⟩ := List.mem_map.1 this
  simp only [concItem, Prod.mk.injEq] at hx
  unfold tmE; rw [← hx.1]; rfl

/-- `heappop` on a related queue pops the first entry of minimal time, as `EventSIS.pop` does -/
theorem popMin_spec {P : SSParams} {q : MyQueue} {l : List SItem} (h : QRel P q l) (hne : q.q ≠ []) :
    ∃ m q' x l1 l2, MyQueue.popMin q = .ok (m, q') ∧ l = l1 ++ x :: l2 ∧
      (∀ y ∈ l1, x.time < y.time) ∧ (∀ y ∈ l2, x.time ≤ y.time) ∧
      m.1 = some x.time ∧ m.2.2 = conc x.ev ∧ QRel P q' (l1 ++ l2) := by
  cases hq : q.q with
  | nil => exact absurd hq hne
  | cons e0 es =>
    have hfin := h.fin
    have hs := h.sorted
    rw [hq] at hfin hs
    simp only [List.map_cons, List.pairwise_cons] at hs
    obtain ⟨a, b, e1, e2, e3⟩ := foldl_min_spec es [] [] e0 (by simp) (by simp) (hfin e0 (by simp))
      (fun y hy => hfin y (by simp [hy])) (fun y hy => hs.1 _ (List.mem_map.2 ⟨y, hy, rfl⟩)) hs.2
    replace e1 : e0 :: es = a ++ (es.foldl (fun m y => if MyQueue.before y m then y else m) e0) :: b := by
      simpa using e1
    generalize hm : es.foldl (fun m y => if MyQueue.before y m then y else m) e0 = m at e1 e2 e3
    have hpop : MyQueue.popMin q = .ok (m, { q with q := q.q.erase m }) := by
      unfold MyQueue.popMin
      split
      · rename_i h0; rw [hq] at h0; cases h0
      · rename_i x xs h0
        rw [hq] at h0
        injection h0 with h1 h2
        subst h1 h2
        rw [hm]; rfl
    have hsorted := h.sorted
    rw [hq, e1] at hsorted
    simp only [List.map_append, List.map_cons, List.pairwise_append, List.pairwise_cons] at hsorted
    have hma : m ∉ a := by
      intro hma
      have := hsorted.2.2 _ (List.mem_map.2 ⟨m, hma, rfl⟩) m.2.1 (by simp)
      exact absurd this (lt_irrefl _)
    have herase : q.q.erase m = a ++ b := by
      rw [hq, e1, List.erase_append_right _ hma, List.erase_cons_head]
    have hents := h.ents
    rw [hq, e1, List.map_append, List.map_cons] at hents
    obtain ⟨l1, l2', hl, hl1, hl2⟩ := List.append_eq_map_iff.1 hents
    obtain ⟨x, l2, hl2', hx, hl2b⟩ := List.map_eq_cons_iff.1 hl2
    subst hl2' hl
    simp only [concItem, Prod.mk.injEq] at hx
    have htm : tmE m = x.time := by unfold tmE; rw [← hx.1]; rfl
    have hta : ∀ y ∈ l1, ∃ e ∈ a, tmE e = y.time := by
      intro y hy
      have : concItem y ∈ a.map (fun e => (e.1, e.2.2)) := by rw [← hl1]; exact List.mem_map.2 ⟨y, hy, rfl⟩
      obtain ⟨e, he, hey⟩ := List.mem_map.1 this
      simp only [concItem, Prod.mk.injEq] at hey
      exact ⟨e, he, by unfold tmE; rw [hey.1]; rfl⟩
    have htb : ∀ y ∈ l2, ∃ e ∈ b, tmE e = y.time := by
      intro y hy
      have : concItem y ∈ b.map (fun e => (e.1, e.2.2)) := by rw [← hl2b]; exact List.mem_map.2 ⟨y, hy, rfl⟩
      obtain ⟨e, he, hey⟩ := List.mem_map.1 this
      simp only [concItem, Prod.mk.injEq] at hey
      exact ⟨e, he, by unfold tmE; rw [hey.1]; rfl⟩
    refine ⟨m, { q with q := q.q.erase m }, x, l1, l2, hpop, rfl, ?_, ?_, hx.1.symm, hx.2.symm, ?_⟩
    · intro y hy
      obtain ⟨e, he, hey⟩ := hta y hy
      rw [← hey, ← htm]; exact e2 e he
    · intro y hy
      obtain ⟨e, he, hey⟩ := htb y hy
      rw [← hey, ← htm]; exact e3 e he
    · refine ⟨h.tmax, ?_, ?_, ?_⟩
      · show (q.q.erase m).map _ = _
        rw [herase, List.map_append, List.map_append, hl1, hl2b]
      · show ((q.q.erase m).map _).Pairwise _
        rw [herase, List.map_append, List.pairwise_append]
        refine ⟨hsorted.1, hsorted.2.1.2, ?_⟩
        intro c hc d hd
        exact hsorted.2.2 c hc d (by simp [hd])
      · intro e he
        have he' : e ∈ q.q.erase m := he
        exact h.below e (List.mem_of_mem_erase he')

/-! ### the output columns as functions of the model's (reversed) log -/

/-- current number of infected nodes -/
def lastI : List Change → Int
  | [] => 0
  | c :: l => if c.2.2 then lastI l + 1 else lastI l - 1

/-- the `I` column (one row per status change, after the initial row) -/
def colI : List Change → List Int
  | [] => [0]
  | c :: l => colI l ++ [lastI (c :: l)]

/-- current number of susceptible nodes -/
def lastS (N : Int) : List Change → Int
  | [] => N
  | c :: l => if c.2.2 then lastS N l - 1 else lastS N l + 1

/-- the `S` column -/
def colS (N : Int) : List Change → List Int
  | [] => [N]
  | c :: l => colS N l ++ [lastS N (c :: l)]

/-- the `times` column -/
def colT (tmin : Rat) : List Change → List ERat
  | [] => [some tmin]
  | c :: l => colT tmin l ++ [some c.1]

/-- the times at which `u` became infected (`b = true`) / recovered (`b = false`), oldest first -/
def evTimes (b : Bool) : List Change → Node → List ERat
  | [], _ => []
  | c :: l, u => if c.2.1 = u ∧ c.2.2 = b then evTimes b l u ++ [some c.1] else evTimes b l u

theorem colI_last (l : List Change) : (colI l).getLast? = some (lastI l) := by
  cases l with
  | nil => rfl
  | cons c l => simp [colI]

theorem colS_last (N : Int) (l : List Change) : (colS N l).getLast? = some (lastS N l) := by
  cases l with
  | nil => rfl
  | cons c l => simp [colS]

/-! ### the simulation relation -/

/-- the user rule of the generated code is the model's pair of tables -/
structure Agree (A : NArgs) (P : SSParams) : Prop where
  nbrs : A.nbrs = P.nbrs
  order : A.order = P.nodes.length
  tmin : A.tmin = P.tmin
  tmax : A.tmax = some P.tmax
  rule : ∀ k u nbrs, A.transRec k u nbrs =
    pure (nbrs.map (fun v => (v, (P.delays u v k).map some)), some (P.dur u k))

/-- everything except the queue -/
structure RelCore (P : SSParams) (σ : Loc) (s : SSState) : Prop where
  status : ∀ u, σ.status u = if s.inf u then St.I else St.S
  rec_time : ∀ u, σ.rec_time u = some (s.recTime u)
  count : ∀ u, (alGet σ.infection_times [] u).length = s.count u
  trans : σ.transmissions = s.trans.reverse.map (fun e => (some e.1, e.2.1, e.2.2))
  times : σ.times = colT P.tmin s.log
  colS : σ.S = colS (P.nodes.length : Int) s.log
  colI : σ.I = colI s.log
  itimes : ∀ u, alGet σ.infection_times [] u = evTimes true s.log u
  rtimes : ∀ u, alGet σ.recovery_times [] u = evTimes false s.log u

/-- an initial-infection entry (`source = None`) never carries future attempts -/
def NoneNil (l : List SItem) : Prop := ∀ x ∈ l, ∀ v fut, x.ev = SEv.trans none v fut → fut = []

structure Rel (P : SSParams) (σ : Loc) (s : SSState) : Prop where
  core : RelCore P σ s
  queue : QRel P σ.Q s.queue
  noneNil : NoneNil s.queue

/-- `_process_rec_SIS_` -/
theorem process_rec_sim (A : NArgs) {P : SSParams} {σ : Loc} {s : SSState} (h : RelCore P σ s) (t : Rat) (u : Node)
    (ts : TapeSt) :
    ∃ σ', process_rec A (some t) u σ ts = .ok (σ', ts) ∧ RelCore P σ' (EventSIS.processRec s t u) ∧ σ'.Q = σ.Q := by
  unfold process_rec
  have hS : (σ.S).getLast? = some (lastS (P.nodes.length : Int) s.log) := by rw [h.colS]; exact colS_last _ _
  have hI : (σ.I).getLast? = some (lastI s.log) := by rw [h.colI]; exact colI_last _
  simp only [listLast_eq hS, listLast_eq hI, pure_bind]
  refine ⟨_, rfl, ?_, rfl⟩
  refine ⟨?_, ?_, ?_, ?_, ?_, ?_, ?_, ?_, ?_⟩
  · intro v
    simp only [EventSIS.processRec, fset]
    by_cases hv : v = u
    · simp [hv]
    · simp [hv, h.status v]
  · exact h.rec_time
  · exact h.count
  · exact h.trans
  · simp only [EventSIS.processRec, colT, h.times]
  · simp [EventSIS.processRec, colS, lastS, h.colS]
  · simp [EventSIS.processRec, colI, lastI, h.colI]
  · intro v; simp [EventSIS.processRec, evTimes, h.itimes v]
  · intro v
    simp only [EventSIS.processRec, evTimes, alGet_ddAppend]
    by_cases hv : v = u
    · subst hv; simp [h.rtimes v]
    · have : ¬ u = v := fun h' => hv h'.symm
      simp [hv, this, h.rtimes v]

/-! ### a small Hoare logic for tape-preserving computations -/

/-- `x` succeeds from tape state `ts`, leaves the tape untouched and its result satisfies `R` -/
def Ok {α : Type} (x : TM α) (ts : TapeSt) (R : α → Prop) : Prop := ∃ a, x ts = .ok (a, ts) ∧ R a

theorem Ok.pure {α : Type} {a : α} {ts : TapeSt} {R : α → Prop} (h : R a) : Ok (pure a : TM α) ts R := ⟨a, rfl, h⟩

theorem Ok.bind {α β : Type} {x : TM α} {f : α → TM β} {ts : TapeSt} {Q : α → Prop} {R : β → Prop}
    (hx : Ok x ts Q) (hf : ∀ a, Q a → Ok (f a) ts R) : Ok (x >>= f) ts R := by
  obtain ⟨a, ha, hq⟩ := hx
  obtain ⟨b, hb, hr⟩ := hf a hq
  exact ⟨b, by rw [tm_bind_ok ha]; exact hb, hr⟩

theorem Ok.mono {α : Type} {x : TM α} {ts : TapeSt} {Q R : α → Prop} (hx : Ok x ts Q) (h : ∀ a, Q a → R a) :
    Ok x ts R := by
  obtain ⟨a, ha, hq⟩ := hx; exact ⟨a, ha, h a hq⟩

theorem Ok.ite {α : Type} {c : Prop} [Decidable c] {x y : TM α} {ts : TapeSt} {R : α → Prop}
    (hx : c → Ok x ts R) (hy : ¬ c → Ok y ts R) : Ok (if c then x else y) ts R := by
  by_cases h : c
  · simp only [h, if_true]; exact hx h
  · simp only [h, if_false]; exact hy h

theorem Ok.foldlM {β γ : Type} {body : Loc → β → TM Loc} {ts : TapeSt} (Inv : Loc → γ → Prop) (stepq : γ → β → γ)
    (l : List β) (hbody : ∀ σ q v, v ∈ l → Inv σ q → Ok (body σ v) ts (fun σ' => Inv σ' (stepq q v))) :
    ∀ σ q, Inv σ q → Ok (l.foldlM body σ) ts (fun σ' => Inv σ' (l.foldl stepq q)) := by
  induction l with
  | nil => intro σ q h; exact Ok.pure h
  | cons v l ih =>
    intro σ q h
    rw [List.foldlM_cons, List.foldl_cons]
    exact Ok.bind (hbody σ q v (by simp) h) (fun σ' h' => ih (fun σ q w hw => hbody σ q w (by simp [hw])) σ' _ h')

/-! ### helper facts about the list expressions of the handler -/

theorem fset_self {α β : Type} [DecidableEq α] (f : α → β) (x : α) (v : β) : fset f x v x = v := by simp [fset]

theorem map_add_some (t : Rat) (ds : List Rat) :
    List.map (fun td => ERat.add (some t) td) (List.map some ds) = List.map some (ds.map fun d => t + d) := by
  simp [ERat.add]

theorem filter_lt_some (r : Rat) (l : List Rat) :
    List.filter (fun x => ERat.lt (some r) x) (List.map some l) = List.map some (l.filter fun x => x > r) := by
  rw [List.filter_map]
  congr 1

theorem QRel.add_chain {P : SSParams} {q : MyQueue} {l : List SItem} (h : QRel P q l) (src : Option Node) (v : Node)
    (tt : List Rat) :
    QRel P (match tt with
      | [] => q
      | t0 :: fol => q.add (some t0) (Ev.trans src v (fol.map some)))
     (l ++ (match tt with
      | [] => []
      | t0 :: fol => if t0 < P.tmax then [⟨t0, SEv.trans src v fol⟩] else [])) := by
  cases tt with
  | nil => simpa using h
  | cons t0 fol =>
    have := h.add t0 (SEv.trans src v fol)
    rw [EventSIS.qadd_eq] at this
    exact this

/-- all fields except the queue and the two scratch locals agree -/
structure Frame (σ σ' : Loc) : Prop where
  status : σ'.status = σ.status
  rec_time : σ'.rec_time = σ.rec_time
  times : σ'.times = σ.times
  S : σ'.S = σ.S
  I : σ'.I = σ.I
  infection_times : σ'.infection_times = σ.infection_times
  recovery_times : σ'.recovery_times = σ.recovery_times
  transmissions : σ'.transmissions = σ.transmissions

theorem RelCore.frame {P : SSParams} {σ σ' : Loc} {s : SSState} (h : RelCore P σ s) (hf : Frame σ σ')
    (q : List SItem) : RelCore P σ' { s with queue := q } :=
  ⟨by rw [hf.status]; exact h.status, by rw [hf.rec_time]; exact h.rec_time,
   by rw [hf.infection_times]; exact h.count, by rw [hf.transmissions]; exact h.trans,
   by rw [hf.times]; exact h.times, by rw [hf.S]; exact h.colS, by rw [hf.I]; exact h.colI,
   by rw [hf.infection_times]; exact h.itimes, by rw [hf.recovery_times]; exact h.rtimes⟩

theorem RelCore.requeue {P : SSParams} {σ : Loc} {s : SSState} (h : RelCore P σ s)
    (q : List SItem) : RelCore P σ { s with queue := q } :=
  h.frame ⟨rfl, rfl, rfl, rfl, rfl, rfl, rfl, rfl⟩ q

/-- the end of one iteration of the neighbour loop: queue the first surviving attempt -/
theorem nbr_last {P : SSParams} {σ2 : Loc} {q : List SItem} (tgt v : Node) (L : List Rat)
    (ts : TapeSt) (hq : QRel P σ2.Q q) (R : Loc → Prop)
    (hR : ∀ σ', Frame σ2 σ' → QRel P σ'.Q (q ++ EventSIS.chainOf P.tmax tgt v L) → R σ') :
    Ok (if (!(List.map some L).isEmpty) = true then do
          let v_6 ← liftE (listGet (List.map some L) 0)
          (pure { σ2 with trans_times := List.map some L, Q := σ2.Q.add v_6 (Ev.trans (some tgt) v (List.drop 1 (List.map some L))), following_transmissions := List.drop 1 (List.map some L) } : TM Loc)
        else
          pure { σ2 with trans_times := List.map some L, following_transmissions := List.drop 1 (List.map some L) }) ts R := by
  cases L with
  | nil =>
    simp only [List.map_nil, List.isEmpty_nil, Bool.not_true, Bool.false_eq_true, if_false]
    refine Ok.pure (hR _ ⟨rfl, rfl, rfl, rfl, rfl, rfl, rfl, rfl⟩ ?_)
    simp only [EventSIS.chainOf, List.append_nil]
    exact hq
  | cons t0 fol =>
    simp only [List.map_cons, List.isEmpty_cons, Bool.not_false, if_true, listGet_zero_cons, pure_bind,
      List.drop_succ_cons, List.drop_zero]
    refine Ok.pure (hR _ ⟨rfl, rfl, rfl, rfl, rfl, rfl, rfl, rfl⟩ ?_)
    have := hq.add t0 (SEv.trans (some tgt) v fol)
    rw [EventSIS.qadd_eq] at this
    exact this

/-- the neighbour loop of `_process_trans_SIS_nonMarkov_` (one iteration) -/
theorem nbr_body_sim {P : SSParams} {sI : SSState} {σ2 : Loc} {q : List SItem} (t : Rat) (tgt v : Node) (k : Nat)
    (ts : TapeSt) (hc : RelCore P σ2 sI) (hq : QRel P σ2.Q q) (R : Loc → Prop)
    (hR : ∀ σ', Frame σ2 σ' → QRel P σ'.Q (q ++ EventSIS.chainOf P.tmax tgt v
        (EventSIS.liveTimes sI.inf sI.recTime v ((P.delays tgt v k).map fun d => t + d))) → R σ') :
    Ok (if (!(List.map some (P.delays tgt v k)).isEmpty) = true then do
          let σ ←
            (if decide (σ2.status v = St.I) = true then
                (pure
                  { σ2 with trans_times := List.filter (fun time => (σ2.rec_time v).lt time) (List.map (fun td => ERat.add (some t) td) (List.map some (P.delays tgt v k))) } : TM Loc)
              else
                pure
                  { σ2 with trans_times := List.map (fun td => ERat.add (some t) td) (List.map some (P.delays tgt v k)) })
          if (!σ.trans_times.isEmpty) = true then do
              let v_6 ← liftE (listGet σ.trans_times 0)
              pure
                  { σ with Q := σ.Q.add v_6 (Ev.trans (some tgt) v (List.drop 1 σ.trans_times)),
                           following_transmissions := List.drop 1 σ.trans_times }
            else
              pure { σ with following_transmissions := List.drop 1 σ.trans_times }
        else pure σ2) ts R := by
  cases hds : P.delays tgt v k with
  | nil =>
    simp only [List.map_nil, List.isEmpty_nil, Bool.not_true, Bool.false_eq_true, if_false]
    refine Ok.pure (hR _ ⟨rfl, rfl, rfl, rfl, rfl, rfl, rfl, rfl⟩ ?_)
    rw [hds]
    simp only [EventSIS.liveTimes, List.map_nil, List.filter_nil, ite_self, EventSIS.chainOf, List.append_nil]
    exact hq
  | cons d0 ds =>
    rw [← hds]
    have hne : (!(List.map some (P.delays tgt v k)).isEmpty) = true := by rw [hds]; rfl
    by_cases hi : sI.inf v = true
    · have hst : σ2.status v = St.I := by rw [hc.status v]; simp [hi]
      have hL : EventSIS.liveTimes sI.inf sI.recTime v ((P.delays tgt v k).map fun d => t + d) =
          ((P.delays tgt v k).map fun d => t + d).filter fun x => x > sI.recTime v := by
        simp [EventSIS.liveTimes, hi]
      simp only [hne, if_true, map_add_some, hc.rec_time v, filter_lt_some, hst, decide_true, pure_bind]
      rw [hL] at hR
      exact nbr_last tgt v _ ts hq R hR
    · have hst : ¬ σ2.status v = St.I := by rw [hc.status v]; simp [hi]
      have hL : EventSIS.liveTimes sI.inf sI.recTime v ((P.delays tgt v k).map fun d => t + d) =
          ((P.delays tgt v k).map fun d => t + d) := by
        simp [EventSIS.liveTimes, hi]
      simp only [hne, if_true, map_add_some, hst, decide_false, Bool.false_eq_true, if_false, pure_bind]
      rw [hL] at hR
      exact nbr_last tgt v _ ts hq R hR

theorem foldl_append_flatMap {α β : Type} (g : β → List α) (l : List β) (q : List α) :
    l.foldl (fun q v => q ++ g v) q = q ++ l.flatMap g := by
  induction l generalizing q with
  | nil => simp
  | cons v l ih => simp [ih, List.append_assoc]

theorem ERat.add_some (a b : Rat) : ERat.add (some a) (some b) = some (a + b) := rfl

/-- the bookkeeping of an infection (everything but the queue) -/
theorem infect_core {P : SSParams} {σ σ1 : Loc} {s : SSState} (hc : RelCore P σ s) (t : Rat) (src : Option Node)
    (tgt : Node) (h1 : σ1.status = fset σ.status tgt St.I)
    (h2 : σ1.rec_time = fset σ.rec_time tgt (some (t + P.dur tgt (s.count tgt))))
    (h3 : σ1.times = σ.times ++ [some t])
    (h4 : σ1.S = σ.S ++ [lastS (P.nodes.length : Int) s.log - 1])
    (h5 : σ1.I = σ.I ++ [lastI s.log + 1])
    (h6 : σ1.infection_times = ddAppend σ.infection_times tgt (some t))
    (h7 : σ1.recovery_times = σ.recovery_times)
    (h8 : σ1.transmissions = σ.transmissions ++ [(some t, src, tgt)]) :
    RelCore P σ1 (EventSIS.infectS P s t src tgt) := by
  refine ⟨?_, ?_, ?_, ?_, ?_, ?_, ?_, ?_, ?_⟩
  · intro v
    simp only [h1, EventSIS.infectS, fset]
    by_cases hv : v = tgt
    · simp [hv]
    · simp [hv, hc.status v]
  · intro v
    simp only [h2, EventSIS.infectS, fset]
    by_cases hv : v = tgt
    · simp [hv]
    · simp [hv, hc.rec_time v]
  · intro v
    simp only [h6, EventSIS.infectS, fset, alGet_ddAppend]
    by_cases hv : v = tgt
    · subst hv; simp [hc.count v]
    · simp [hv, hc.count v]
  · simp [h8, EventSIS.infectS, hc.trans]
  · simp only [h3, EventSIS.infectS, colT, hc.times]
  · simp [h4, EventSIS.infectS, colS, lastS, hc.colS]
  · simp [h5, EventSIS.infectS, colI, lastI, hc.colI]
  · intro v
    simp only [h6, EventSIS.infectS, evTimes, alGet_ddAppend]
    by_cases hv : v = tgt
    · subst hv; simp [hc.itimes v]
    · have : ¬ tgt = v := fun h' => hv h'.symm
      simp [hv, this, hc.itimes v]
  · intro v; simp [h7, EventSIS.infectS, evTimes, hc.rtimes v]

/-- `_process_trans_SIS_nonMarkov_` -/
theorem process_trans_sim {A : NArgs} {P : SSParams} (hA : Agree A P) {σ : Loc} {s : SSState}
    (hc : RelCore P σ s) (hq : QRel P σ.Q s.queue) (t : Rat) (src : Option Node) (tgt : Node) (fut : List Rat)
    (hnn : src = none → fut = []) (ts : TapeSt) :
    Ok (process_trans A (some t) src tgt (fut.map some) σ) ts
      (fun σ' => RelCore P σ' (EventSIS.processTrans P s t src tgt fut) ∧
        QRel P σ'.Q (EventSIS.processTrans P s t src tgt fut).queue) := by
  rw [EventSIS.processTrans_eq]
  unfold process_trans
  refine Ok.bind (Q := fun σ2 =>
    RelCore P σ2 (if s.inf tgt then s else EventSIS.infectS P s t src tgt) ∧
    QRel P σ2.Q (if s.inf tgt then s else EventSIS.infectS P s t src tgt).queue) ?_ ?_
  · by_cases hi : s.inf tgt = true
    · have hst : ¬ σ.status tgt = St.S := by rw [hc.status tgt]; simp [hi]
      simp only [hst, decide_false, Bool.false_eq_true, if_false, hi, if_true]
      exact Ok.pure ⟨hc, hq⟩
    · have hst : σ.status tgt = St.S := by rw [hc.status tgt]; simp [hi]
      have hS : (σ.S).getLast? = some (lastS (P.nodes.length : Int) s.log) := by rw [hc.colS]; exact colS_last _ _
      have hI : (σ.I).getLast? = some (lastI s.log) := by rw [hc.colI]; exact colI_last _
      have hk : (alGet (ddAppend σ.infection_times tgt (some t)) [] tgt).length - 1 = s.count tgt := by
        rw [alGet_ddAppend]; simp [hc.count tgt]
      simp only [hst, decide_true, if_true, listLast_eq hS, listLast_eq hI, pure_bind, hA.rule, fset_self, hk,
        ERat.add_some, hi, Bool.false_eq_true, if_false, hA.nbrs]
      refine Ok.bind (Q := fun σ1 => RelCore P σ1 (EventSIS.infectS P s t src tgt) ∧
        QRel P σ1.Q (EventSIS.qadd P.tmax s.queue (t + P.dur tgt (s.count tgt)) (SEv.recov tgt))) ?_ ?_
      · have hadd := hq.add (t + P.dur tgt (s.count tgt)) (SEv.recov tgt)
        refine Ok.ite (fun hlt => Ok.pure ⟨?_, ?_⟩) (fun hlt => Ok.pure ⟨?_, ?_⟩)
        · exact infect_core hc t src tgt rfl rfl rfl rfl rfl rfl rfl rfl
        · exact hadd
        · exact infect_core hc t src tgt rfl rfl rfl rfl rfl rfl rfl rfl
        · unfold MyQueue.add at hadd
          simp only [hlt] at hadd
          exact hadd
      · rintro σ1 ⟨hc1, hq1⟩
        refine Ok.mono (Ok.foldlM
          (fun σ' q => RelCore P σ' (EventSIS.infectS P s t src tgt) ∧ QRel P σ'.Q q)
          (fun q v => q ++ EventSIS.chainOf P.tmax tgt v
            (EventSIS.liveTimes (EventSIS.infectS P s t src tgt).inf (EventSIS.infectS P s t src tgt).recTime v
              ((P.delays tgt v (s.count tgt)).map fun d => t + d)))
          (P.nbrs tgt) ?_ σ1 _ ⟨hc1, hq1⟩) ?_
        · rintro σ2 q v hv ⟨hc2, hq2⟩
          simp only [dictGet_map _ _ _ hv, pure_bind]
          exact nbr_body_sim t tgt v (s.count tgt) ts hc2 hq2 _ (fun σ' hf hq' => ⟨hc2.frame hf _, hq'⟩)
        · rintro σ3 ⟨hc3, hq3⟩
          refine ⟨hc3, ?_⟩
          rw [foldl_append_flatMap, EventSIS.qadd_eq] at hq3
          exact hq3
  · generalize (if s.inf tgt then s else EventSIS.infectS P s t src tgt) = s1
    rintro σ2 ⟨hc2, hq2⟩
    simp only [hc2.rec_time tgt, filter_lt_some]
    cases hL : fut.filter (fun x => x > s1.recTime tgt) with
    | nil =>
      simp only [List.map_nil, List.isEmpty_nil, Bool.not_true, Bool.false_eq_true, if_false]
      refine Ok.pure ⟨hc2.frame (by exact ⟨rfl, rfl, rfl, rfl, rfl, rfl, rfl, rfl⟩) _, ?_⟩
      have : EventSIS.reQ P.tmax src tgt [] = [] := by cases src <;> rfl
      simp only [this, List.append_nil]
      exact hq2
    | cons t0 fol =>
      simp only [List.map_cons, List.isEmpty_cons, Bool.not_false, if_true, listGet_zero_cons, pure_bind,
        List.drop_succ_cons, List.drop_zero]
      refine Ok.pure ⟨hc2.frame (by exact ⟨rfl, rfl, rfl, rfl, rfl, rfl, rfl, rfl⟩) _, ?_⟩
      cases src with
      | none => rw [hnn rfl] at hL; simp at hL
      | some u =>
        have := hq2.add t0 (SEv.trans (some u) tgt fol)
        rw [EventSIS.qadd_eq] at this
        exact this

/-! ### one event -/

theorem NoneNil_step {P : SSParams} {s s' : SSState} (h : NoneNil s.queue) (hs : EventSIS.step P s = some s') :
    NoneNil s'.queue := by
  obtain ⟨x, l1, l2, hq, _, _, hc⟩ := EventSIS.step_cases hs
  have hold : ∀ y ∈ l1 ++ l2, ∀ v fut, y.ev = SEv.trans none v fut → fut = [] := by
    intro y hy; exact h y (by rw [hq]; exact EventSIS.mem_mid hy)
  have hreQ : ∀ (src : Option Node) (w : Node) (tt : List Rat), ∀ y ∈ EventSIS.reQ P.tmax src w tt,
      ∀ v fut, y.ev = SEv.trans none v fut → fut = [] := by
    intro src w tt y hy v fut he
    obtain ⟨u, _, hy⟩ := EventSIS.mem_reQ hy
    obtain ⟨t0, fol, _, _, rfl⟩ := EventSIS.mem_chainOf hy
    simp at he
  have hnew : ∀ (t : Rat) (w : Node), ∀ y ∈ EventSIS.newItems P s t w,
      ∀ v fut, y.ev = SEv.trans none v fut → fut = [] := by
    intro t w y hy v fut he
    rcases EventSIS.mem_newItems hy with ⟨rfl, _⟩ | ⟨z, _, hy⟩
    · simp at he
    · obtain ⟨t0, fol, _, _, rfl⟩ := EventSIS.mem_chainOf hy
      simp at he
  rcases hc with ⟨u, _, rfl⟩ | ⟨src, w, fut, _, _, rfl⟩ | ⟨src, w, fut, _, _, rfl⟩
  · exact hold
  · intro y hy
    rcases List.mem_append.1 hy with hy | hy
    · exact hold y hy
    · exact hreQ _ _ _ y hy
  · intro y hy
    rcases List.mem_append.1 hy with hy | hy
    · rcases List.mem_append.1 hy with hy | hy
      · exact hold y hy
      · exact hnew _ _ y hy
    · exact hreQ _ _ _ y hy

/-- `myQueue.pop_and_run` on related states: the model takes the corresponding step -/
theorem pop_and_run_sim {A : NArgs} {P : SSParams} (hA : Agree A P) {σ : Loc} {s : SSState} (h : Rel P σ s)
    (hne : σ.Q.q ≠ []) (ts : TapeSt) :
    ∃ s', EventSIS.step P s = some s' ∧ Ok (pop_and_run A σ) ts (fun σ' => Rel P σ' s') := by
  obtain ⟨m, q', x, l1, l2, hpop, hl, h1, h2, hm1, hm2, hq'⟩ := popMin_spec h.queue hne
  have hmodel : EventSIS.pop s.queue = some (x, l1 ++ l2) := by
    rw [EventSIS.pop_eq]; exact EventSIS.gpop_of_min _ hl h1 h2
  have hxq : x ∈ s.queue := by rw [hl]; simp
  obtain ⟨mt, mc, me⟩ := m
  simp only at hm1 hm2
  subst hm1 hm2
  have hstep : EventSIS.step P s = some (EventSIS.exec P { s with queue := l1 ++ l2 } x) := by
    unfold EventSIS.step EventSIS.exec
    rw [hmodel]
    simp only
    cases x.ev <;> rfl
  refine ⟨_, hstep, ?_⟩
  have hnn := NoneNil_step h.noneNil hstep
  unfold pop_and_run
  have hlift : liftE (MyQueue.popMin σ.Q) = (pure ((some x.time, mc, conc x.ev), q') : TM _) := by
    rw [hpop]; rfl
  simp only [hlift, pure_bind]
  unfold EventSIS.exec at hnn ⊢
  cases hev : x.ev with
  | trans src tgt fut =>
    simp only [hev] at hnn ⊢
    simp only [conc]
    have hc : RelCore P { σ with Q := q' } { s with queue := l1 ++ l2 } :=
      h.core.frame (by exact ⟨rfl, rfl, rfl, rfl, rfl, rfl, rfl, rfl⟩) _
    refine Ok.mono (process_trans_sim hA hc hq' x.time src tgt fut ?_ ts) ?_
    · intro hsrc; subst hsrc; exact h.noneNil x hxq tgt fut hev
    · rintro σ' ⟨hc', hq''⟩
      exact ⟨hc', hq'', hnn⟩
  | recov u =>
    simp only [hev] at hnn ⊢
    simp only [conc]
    have hc : RelCore P { σ with Q := q' } { s with queue := l1 ++ l2 } :=
      h.core.frame (by exact ⟨rfl, rfl, rfl, rfl, rfl, rfl, rfl, rfl⟩) _
    obtain ⟨σ', hσ', hc', hQ⟩ := process_rec_sim A hc x.time u ts
    refine ⟨σ', hσ', hc', ?_, hnn⟩
    rw [hQ]; exact hq'

/-! ### the event loop -/

theorem loop_sim {A : NArgs} {P : SSParams} (hA : Agree A P) (ts : TapeSt) :
    ∀ (fuel : Nat) (σ : Loc) (s : SSState), Rel P σ s →
      (loop A fuel σ ts = .error "fuel" ∧ ∀ k, k < fuel → (EventSIS.loop P k s).queue ≠ []) ∨
      (∃ σ', loop A fuel σ ts = .ok (σ', ts) ∧ Rel P σ' (EventSIS.loop P fuel s) ∧
        (EventSIS.loop P fuel s).queue = [] ∧ ∃ k, k < fuel ∧ (EventSIS.loop P k s).queue = []) := by
  intro fuel
  induction fuel with
  | zero =>
    intro σ s _
    left
    exact ⟨rfl, fun k hk => absurd hk (Nat.not_lt_zero _)⟩
  | succ n ih =>
    intro σ s h
    unfold loop
    by_cases hne : σ.Q.q = []
    · have hlen : ¬ MyQueue.len σ.Q > 0 := by simp [MyQueue.len, hne]
      have hsq : s.queue = [] := by
        have := h.queue.length; rw [hne] at this
        exact List.eq_nil_of_length_eq_zero this.symm
      simp only [hlen, decide_false, Bool.false_eq_true, if_false]
      right
      refine ⟨σ, rfl, ?_, ?_, 0, Nat.succ_pos _, ?_⟩
      · rw [EventSIS.loop_of_empty hsq]; exact h
      · rw [EventSIS.loop_of_empty hsq]; exact hsq
      · exact hsq
    · have hlen : MyQueue.len σ.Q > 0 := by
        simp only [MyQueue.len]; exact List.length_pos_iff.2 hne
      simp only [hlen, decide_true, if_true]
      obtain ⟨s', hstep, σ1, hσ1, hrel⟩ := pop_and_run_sim hA h hne ts
      rw [tm_bind_ok hσ1]
      have hsq : s.queue ≠ [] := by
        intro h0
        have := h.queue.length; rw [h0] at this
        exact hne (List.eq_nil_of_length_eq_zero this)
      have hloop : ∀ j, EventSIS.loop P (j + 1) s = EventSIS.loop P j s' := by
        intro j; simp only [EventSIS.loop, hstep]
      rcases ih σ1 s' hrel with ⟨he, hk⟩ | ⟨σ', hσ', hr, hq, k, hk, hkq⟩
      · left
        refine ⟨he, ?_⟩
        intro k hk'
        cases k with
        | zero => exact hsq
        | succ j => rw [hloop]; exact hk j (by omega)
      · right
        refine ⟨σ', hσ', ?_, ?_, k + 1, by omega, ?_⟩
        · rw [hloop]; exact hr
        · rw [hloop]; exact hq
        · rw [hloop]; exact hkq

/-! ### the whole run -/

theorem NoneNil_init (P : SSParams) (infs : List Node) : NoneNil (EventSIS.init P infs).queue := by
  rw [EventSIS.init_queue]
  intro x hx v fut he
  split at hx
  · simp only [List.mem_map] at hx
    obtain ⟨u, _, rfl⟩ := hx
    simp only [SEv.trans.injEq] at he
    exact he.2.2.symm
  · simp at hx

/-- what `fast_nonMarkov_SIS` returns, in terms of the final model state: the three columns without the rows of
the initial infections, the transmission list, the per-node infection / recovery times -/
structure Out (P : SSParams) (infs : List Node) (σ : Loc) (s : SSState) : Prop where
  times : σ.times = (colT P.tmin s.log).drop infs.length
  S : σ.S = (colS (P.nodes.length : Int) s.log).drop infs.length
  I : σ.I = (colI s.log).drop infs.length
  transmissions : σ.transmissions = s.trans.reverse.map (fun e => (some e.1, e.2.1, e.2.2))
  infection_times : ∀ u, alGet σ.infection_times [] u = evTimes true s.log u
  recovery_times : ∀ u, alGet σ.recovery_times [] u = evTimes false s.log u
  status : ∀ u, σ.status u = if s.inf u then St.I else St.S
  rec_time : ∀ u, σ.rec_time u = some (s.recTime u)
  queue : σ.Q.q = []

theorem tm_bind_elim {α β : Type} {x : TM α} {f : α → TM β} {ts : TapeSt} {Q : α → Prop}
    {G : Except String (β × TapeSt) → Prop} (hx : Ok x ts Q) (h : ∀ a, Q a → G (f a ts)) : G ((x >>= f) ts) := by
  obtain ⟨a, ha, hq⟩ := hx
  rw [tm_bind_ok ha]; exact h a hq

/-- the two possible outcomes of the generated `run` -/
def RunSpec (P : SSParams) (infs : List Node) (fuel : Nat) (ts : TapeSt) (r : Except String (Loc × TapeSt)) : Prop :=
  (r = .error "fuel" ∧ ∀ k, k < fuel → (EventSIS.run P infs k).queue ≠ []) ∨
  (∃ σ, r = .ok (σ, ts) ∧ Out P infs σ (EventSIS.run P infs fuel) ∧
    (EventSIS.run P infs fuel).queue = [] ∧ ∃ k, k < fuel ∧ (EventSIS.run P infs k).queue = [])

theorem run_sim {A : NArgs} {P : SSParams} (hA : Agree A P) (infs : List Node) (fuel : Nat) (ts : TapeSt) :
    RunSpec P infs fuel ts (run A infs fuel ts) := by
  unfold run
  refine tm_bind_elim (G := RunSpec P infs fuel ts) (Q := fun σ1 => Rel P σ1 (EventSIS.init P infs)) ?_ ?_
  · refine Ok.mono (Ok.foldlM
      (fun σ q => RelCore P σ (EventSIS.init P infs) ∧ QRel P σ.Q q)
      (fun q u => EventSIS.qadd P.tmax q P.tmin (SEv.trans none u [])) infs ?_ _ [] ⟨?_, ?_⟩) ?_
    · rintro σ q u _ ⟨hc, hq⟩
      refine Ok.pure ⟨hc.frame (by exact ⟨rfl, rfl, rfl, rfl, rfl, rfl, rfl, rfl⟩) _, ?_⟩
      rw [hA.tmin]
      exact hq.add P.tmin (SEv.trans none u [])
    · refine ⟨?_, ?_, ?_, ?_, ?_, ?_, ?_, ?_, ?_⟩
      · intro u; rfl
      · intro u; simp only [hA.tmin]; rfl
      · intro u; rfl
      · rfl
      · simp only [hA.tmin]; rfl
      · simp only [hA.order]; rfl
      · rfl
      · intro u; rfl
      · intro u; rfl
    · exact ⟨hA.tmax, rfl, List.Pairwise.nil, by intro e he; cases he⟩
    · rintro σ1 ⟨hc, hq⟩
      exact ⟨hc, hq, NoneNil_init P infs⟩
  · intro σ1 hrel
    rcases loop_sim hA ts fuel σ1 _ hrel with ⟨he, hk⟩ | ⟨σ', hσ', hr, hq, hk⟩
    · left
      exact ⟨tm_bind_err he, hk⟩
    · right
      refine ⟨_, tm_bind_ok hσ', ?_, hq, hk⟩
      have hlen : σ'.Q.q = [] := by
        have := hr.queue.length
        rw [hq] at this
        exact List.eq_nil_of_length_eq_zero this
      exact ⟨by simp only [hr.core.times]; rfl, by simp only [hr.core.colS]; rfl, by simp only [hr.core.colI]; rfl,
        hr.core.trans, hr.core.itimes, hr.core.rtimes, hr.core.status, hr.core.rec_time, hlen⟩

/-- **forward refinement**: a successful run of the generated code leaves the tape untouched, the model's queue is
empty after the same number of steps, and the returned objects are those of the model's final state -/
theorem gen_run_refines {A : NArgs} {P : SSParams} (hA : Agree A P) (infs : List Node) (fuel : Nat)
    (ts ts' : TapeSt) (σ : Loc) (h : run A infs fuel ts = .ok (σ, ts')) :
    ts' = ts ∧ (EventSIS.run P infs fuel).queue = [] ∧ (∃ k, k < fuel ∧ (EventSIS.run P infs k).queue = []) ∧
      Out P infs σ (EventSIS.run P infs fuel) := by
  rcases run_sim hA infs fuel ts with ⟨he, _⟩ | ⟨σ', hσ', hout, hq, hk⟩
  · rw [he] at h; cases h
  · rw [hσ'] at h
    injection h with h
    injection h with h1 h2
    subst h1 h2
    exact ⟨rfl, hq, hk, hout⟩

/-- **backward refinement**: if the model's queue is empty after fewer than `fuel` steps, the generated code
returns (no `IndexError` / `KeyError` / "fuel"), with the objects of the model's final state -/
theorem gen_run_refines_back {A : NArgs} {P : SSParams} (hA : Agree A P) (infs : List Node) (fuel : Nat)
    (ts : TapeSt) (k : Nat) (hk : k < fuel) (hq : (EventSIS.run P infs k).queue = []) :
    ∃ σ, run A infs fuel ts = .ok (σ, ts) ∧ Out P infs σ (EventSIS.run P infs fuel) ∧
      EventSIS.run P infs fuel = EventSIS.run P infs k := by
  have hst : EventSIS.run P infs fuel = EventSIS.run P infs k := by
    have := EventSIS.loop_stable (P := P) k (fuel - k) (EventSIS.init P infs) hq
    have hfk : k + (fuel - k) = fuel := by omega
    rw [hfk] at this
    exact this
  rcases run_sim hA infs fuel ts with ⟨_, hne⟩ | ⟨σ', hσ', hout, _, _⟩
  · exact absurd hq (hne k hk)
  · exact ⟨σ', hσ', hout, hst⟩

/-- the only exception the generated code can raise (under `Agree`) is the harness's "fuel", and then the model's
queue is non-empty after every smaller number of steps -/
theorem gen_run_error {A : NArgs} {P : SSParams} (hA : Agree A P) (infs : List Node) (fuel : Nat)
    (ts : TapeSt) (e : String) (h : run A infs fuel ts = .error e) :
    e = "fuel" ∧ ∀ k, k < fuel → (EventSIS.run P infs k).queue ≠ [] := by
  rcases run_sim hA infs fuel ts with ⟨he, hne⟩ | ⟨σ', hσ', _⟩
  · rw [he] at h; injection h with h; exact ⟨h.symm, hne⟩
  · rw [hσ'] at h; cases h

/-! ### closed forms of the columns -/

theorem colT_eq (tmin : Rat) (log : List Change) :
    colT tmin log = some tmin :: log.reverse.map (fun c => some c.1) := by
  induction log with
  | nil => rfl
  | cons c l ih => simp [colT, ih]

theorem lastI_eq (l : List Change) :
    lastI l = (l.countP (fun c => c.2.2) : Int) - (l.countP (fun c => !c.2.2) : Int) := by
  induction l with
  | nil => rfl
  | cons c l ih =>
    simp only [lastI, ih, List.countP_cons]
    cases c.2.2 <;> simp <;> omega

theorem lastS_eq (N : Int) (l : List Change) : lastS N l = N - lastI l := by
  induction l with
  | nil => simp [lastS, lastI]
  | cons c l ih =>
    simp only [lastS, lastI, ih]
    cases c.2.2 <;> simp <;> omega

theorem colS_eq (N : Int) (l : List Change) : colS N l = (colI l).map (fun i => N - i) := by
  induction l with
  | nil => simp [colS, colI]
  | cons c l ih => simp [colS, colI, ih, lastS_eq]

theorem colI_length (l : List Change) : (colI l).length = l.length + 1 := by
  induction l with
  | nil => rfl
  | cons c l ih => simp [colI, ih]

/-- row `i` of the `I` column is the balance of the first `i` status changes -/
theorem colI_getElem (l : List Change) (i : Nat) (hi : i ≤ l.length) :
    (colI l)[i]? = some (lastI (l.drop (l.length - i))) := by
  induction l with
  | nil =>
    have : i = 0 := by simpa using hi
    subst this; rfl
  | cons c l ih =>
    simp only [colI]
    by_cases h : i ≤ l.length
    · rw [List.getElem?_append_left (by rw [colI_length]; omega), ih h]
      have : (c :: l).length - i = (l.length - i) + 1 := by simp; omega
      rw [this, List.drop_succ_cons]
    · have : i = l.length + 1 := by simp at hi; omega
      subst this
      rw [List.getElem?_append_right (by rw [colI_length]), colI_length]
      simp

theorem evTimes_eq (b : Bool) (log : List Change) (u : Node) :
    evTimes b log u = (log.reverse.filter (fun c => c.2.1 == u && c.2.2 == b)).map (fun c => some c.1) := by
  induction log with
  | nil => rfl
  | cons c l ih =>
    simp only [evTimes, ih, List.reverse_cons, List.filter_append, List.map_append]
    by_cases h : c.2.1 = u ∧ c.2.2 = b
    · simp [h]
    · simp only [h, if_false]
      have : (c.2.1 == u && c.2.2 == b) = false := by
        simp only [Bool.and_eq_false_iff, beq_eq_false_iff_ne]
        by_cases h1 : c.2.1 = u
        · right; exact fun h2 => h ⟨h1, h2⟩
        · left; exact h1
      simp [this]

theorem evTimes_nlog (b : Bool) (log : List Change) (u : Node) :
    evTimes b log u = ((EventSIS.nlog log u).filter (fun c => c.2.2 == b)).map (fun c => some c.1) := by
  rw [evTimes_eq, EventSIS.nlog, List.filter_filter]
  congr 1
  apply List.filter_congr
  intro c _
  exact Bool.and_comm _ _

/-- in an alternating list the infections are the even and the recoveries the odd positions -/
theorem alt_filter : ∀ (l : List Change), (∀ i c, l[i]? = some c → c.2.2 = (i % 2 == 0)) → ∀ i,
    (l.filter (fun c => c.2.2 == true))[i]? = l[2 * i]? ∧ (l.filter (fun c => c.2.2 == false))[i]? = l[2 * i + 1]?
  | [], _, i => by simp
  | [a], h, i => by
    have ha : a.2.2 = true := h 0 a rfl
    cases i with
    | zero => simp [ha]
    | succ j =>
      simp [ha]
  | a :: b :: rest, h, i => by
    have ha : a.2.2 = true := h 0 a rfl
    have hb : b.2.2 = false := h 1 b rfl
    have hrest : ∀ i c, rest[i]? = some c → c.2.2 = (i % 2 == 0) := by
      intro j c hj
      have := h (j + 2) c (by simpa using hj)
      rw [this]; simp
    have ih := alt_filter rest hrest
    cases i with
    | zero => simp [ha, hb]
    | succ j =>
      have h1 : 2 * (j + 1) = (2 * j) + 1 + 1 := by omega
      rw [h1]
      have ihj := ih j
      simp only [beq_true, beq_false] at ihj
      simp [ha, hb]
      exact ihj

end GenNMSIS
