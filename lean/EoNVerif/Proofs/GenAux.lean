import EoNVerif.Gen.InvestGen
import EoNVerif.Proofs.Helpers
import EoNVerif.Proofs.GenInvest
import Mathlib.Tactic.Linarith
/-!
C20b — lemmas: the Lean code GENERATED from `EoN.auxiliary.subsample` / `get_time_shift` (end of Gen/InvestGen.lean:
`GenInvest.subsample_inner / subsample_outer / subsample`, `get_time_shift_loop / get_time_shift`) equals the hand-written
models `Helpers.subsample` / `Helpers.timeShift` (Model/Helpers.lean).

The generated code walks the two grids by index (two-pointer loops with fuel, the possibly unbound Python local
`candidate` as an `Option`); the model walks the zipped list of observations.  The bridge is
`List.drop k (times.zip status)`: "the observations from index `k` on".
-/

namespace GenAux
open PyRT GenInvest GenInvestProofs

/-- reading the results of the model as Python does: an unbound `candidate` raises -/
def unwrapAll {α : Type} : List (Option α) → Except String (List α)
  | [] => .ok []
  | some c :: t => (unwrapAll t).map (c :: ·)
  | none :: _ => .error "UnboundLocalError"

@[simp] theorem unwrapAll_map_some {α : Type} (l : List α) : unwrapAll (l.map some) = .ok l := by
  induction l with
  | nil => rfl
  | cons a t ih => simp [unwrapAll, ih, Except.map]

theorem pyIndex_zero_cons {α : Type} (a : α) (l : List α) : pyIndex (a :: l) 0 = .ok a := by
  have := pyIndex_nat (a :: l) 0 (by simp)
  simpa using this

theorem pyIndex_zero_nil {α : Type} : pyIndex ([] : List α) 0 = .error "IndexError" := rfl

/-! ### the inner loop = `advance` -/

theorem zip_length_of_le {α : Type} (times : List Rat) (status : List α) (hlen : times.length ≤ status.length) :
    (times.zip status).length = times.length := by
  simp [List.length_zip, hlen]

theorem drop_zip_cons {α : Type} (times : List Rat) (status : List α) (k : Nat)
    (hk : k < times.length) (hk' : k < status.length) :
    (times.zip status).drop k = (times[k], status[k]) :: (times.zip status).drop (k + 1) := by
  have h : k < (times.zip status).length := by simp [List.length_zip]; omega
  rw [List.drop_eq_getElem_cons h]
  simp

/-- with fuel `> times.length - k` the inner loop started at observation index `k` stops at some index `k'` with the
same candidate as `advance` on the observations from `k` on, the remaining observations being those from `k'` on -/
theorem inner_eq_advance {α : Type} (times : List Rat) (status : List α) (hlen : times.length ≤ status.length)
    (r : Rat) (fuel k : Nat) (cand : Option α) (hk : k ≤ times.length) (hf : times.length - k < fuel) :
    ∃ k' c', k ≤ k' ∧ k' ≤ times.length ∧
      subsample_inner times status r fuel k cand = .ok (k', c') ∧
      Helpers.advance ((times.zip status).drop k) r cand = ((times.zip status).drop k', c') := by
  induction fuel generalizing k cand with
  | zero => omega
  | succ fuel ih =>
    by_cases hk1 : k < times.length
    · have hk2 : k < status.length := by omega
      rw [drop_zip_cons times status k hk1 hk2]
      by_cases hle : times[k] ≤ r
      · obtain ⟨k', c', h1, h2, h3, h4⟩ := ih (k + 1) (some status[k]) (by omega) (by omega)
        refine ⟨k', c', by omega, h2, ?_, ?_⟩
        · rw [subsample_inner]
          simp only [hk1, if_true, pyIndex_nat times k hk1, pyIndex_nat status k hk2]
          simpa [bind, Except.bind, hle] using h3
        · simpa [Helpers.advance, hle] using h4
      · refine ⟨k, cand, le_refl _, hk, ?_, ?_⟩
        · rw [subsample_inner]
          simp only [hk1, if_true, pyIndex_nat times k hk1]
          simp [bind, Except.bind, hle, pure, Except.pure]
        · rw [← drop_zip_cons times status k hk1 hk2]
          simp [drop_zip_cons times status k hk1 hk2, Helpers.advance, hle]
    · have hk0 : k = times.length := by omega
      refine ⟨k, cand, le_refl _, hk, ?_, ?_⟩
      · rw [subsample_inner]
        simp [hk1, pure, Except.pure]
      · have : (times.zip status).drop k = [] := by
          rw [List.drop_eq_nil_iff, zip_length_of_le times status hlen]
          omega
        simp [this, Helpers.advance]

/-! ### the outer loop = `scan` -/

theorem outer_eq_scan {α : Type} (report times : List Rat) (status : List α) (hlen : times.length ≤ status.length)
    (fuel i k : Nat) (cand : Option α) (acc : List α)
    (hi : i ≤ report.length) (hk : k ≤ times.length) (hf : report.length - i < fuel) :
    subsample_outer report times status fuel i k cand acc
      = (unwrapAll (Helpers.scan ((times.zip status).drop k) cand (report.drop i))).map (acc ++ ·) := by
  induction fuel generalizing i k cand acc with
  | zero => omega
  | succ fuel ih =>
    by_cases hi1 : i < report.length
    · rw [List.drop_eq_getElem_cons hi1]
      obtain ⟨k', c', h1, h2, h3, h4⟩ :=
        inner_eq_advance times status hlen report[i] (times.length + 1) k cand hk (by omega)
      rw [subsample_outer]
      simp only [hi1, if_true, pyIndex_nat report i hi1, Helpers.scan, h4]
      cases c' with
      | none => simp [bind, Except.bind, h3, unwrapAll, Except.map, throw, throwThe, MonadExceptOf.throw]
      | some c =>
        have := ih (i + 1) k' (some c) (acc ++ [c]) (by omega) h2 (by omega)
        simp only [bind, Except.bind, h3, pure, Except.pure, this, unwrapAll]
        cases unwrapAll (Helpers.scan ((times.zip status).drop k') (some c) (report.drop (i + 1))) <;>
          simp [Except.map]
    · have : report.drop i = [] := by
        rw [List.drop_eq_nil_iff]
        omega
      rw [subsample_outer]
      simp [hi1, this, Helpers.scan, unwrapAll, Except.map, pure, Except.pure]

/-! ### the candidate is bound from the first report on -/

theorem advance_isSome {α : Type} (obs : List (Rat × α)) (r : Rat) (cand : Option α) (h : cand.isSome) :
    (Helpers.advance obs r cand).2.isSome := by
  induction obs generalizing cand with
  | nil => simpa [Helpers.advance] using h
  | cons o rest ih =>
    obtain ⟨t, s⟩ := o
    by_cases hle : t ≤ r
    · simpa [Helpers.advance, hle] using ih (some s) rfl
    · simpa [Helpers.advance, hle] using h

theorem scan_some {α : Type} (obs : List (Rat × α)) (cand : Option α) (h : cand.isSome) (rs : List Rat) :
    ∃ l : List α, Helpers.scan obs cand rs = l.map some := by
  induction rs generalizing obs cand with
  | nil => exact ⟨[], rfl⟩
  | cons r rs ih =>
    have h1 := advance_isSome obs r cand h
    obtain ⟨l, hl⟩ := ih (Helpers.advance obs r cand).1 (Helpers.advance obs r cand).2 h1
    obtain ⟨c, hc⟩ := Option.isSome_iff_exists.1 h1
    rw [hc] at hl
    refine ⟨c :: l, ?_⟩
    simp only [Helpers.scan, hc, hl, List.map_cons]

/-- the first report time is not before the first observation: every entry of the model's output is bound -/
theorem scan_first_some {α : Type} (t : Rat) (s : α) (obs : List (Rat × α)) (r : Rat) (rs : List Rat) (h : t ≤ r) :
    ∃ l : List α, Helpers.scan ((t, s) :: obs) none (r :: rs) = l.map some := by
  have h1 : (Helpers.advance ((t, s) :: obs) r none).2.isSome := by
    simpa [Helpers.advance, h] using advance_isSome obs r (some s) rfl
  obtain ⟨l, hl⟩ := scan_some (Helpers.advance ((t, s) :: obs) r none).1 _ h1 rs
  obtain ⟨c, hc⟩ := Option.isSome_iff_exists.1 h1
  rw [hc] at hl
  refine ⟨c :: l, ?_⟩
  simp only [Helpers.scan, hc, hl, List.map_cons]

/-! ### error behaviour of the loops for ALL inputs (no hypothesis on the lengths): never "fuel" -/

theorem inner_errors {α : Type} (times : List Rat) (status : List α) (r : Rat) (fuel k : Nat) (cand : Option α)
    (hf : times.length - k < fuel) (e : String)
    (h : subsample_inner times status r fuel k cand = .error e) : e = "IndexError" := by
  induction fuel generalizing k cand with
  | zero => omega
  | succ fuel ih =>
    rw [subsample_inner] at h
    by_cases hk1 : k < times.length
    · simp only [hk1, if_true, pyIndex_nat times k hk1] at h
      by_cases hle : times[k] ≤ r
      · by_cases hk2 : k < status.length
        · simp only [bind, Except.bind, hle, if_true, pyIndex_nat status k hk2] at h
          exact ih (k + 1) (some status[k]) (by omega) h
        · simp only [bind, Except.bind, hle, if_true, pyIndex_nat_err status k (by omega)] at h
          injection h with h
          exact h.symm
      · simp [bind, Except.bind, hle, pure, Except.pure] at h
    · simp [hk1, pure, Except.pure] at h

theorem outer_errors {α : Type} (report times : List Rat) (status : List α)
    (fuel i k : Nat) (cand : Option α) (acc : List α) (hf : report.length - i < fuel) (e : String)
    (h : subsample_outer report times status fuel i k cand acc = .error e) :
    e = "IndexError" ∨ e = "UnboundLocalError" := by
  induction fuel generalizing i k cand acc with
  | zero => omega
  | succ fuel ih =>
    rw [subsample_outer] at h
    by_cases hi1 : i < report.length
    · simp only [hi1, if_true, pyIndex_nat report i hi1] at h
      cases hin : subsample_inner times status report[i] (times.length + 1) k cand with
      | error e' =>
        have he' := inner_errors times status report[i] (times.length + 1) k cand (by omega) e' hin
        simp only [bind, Except.bind, hin] at h
        injection h with h
        left
        rw [← h, he']
      | ok p =>
        obtain ⟨k', c'⟩ := p
        cases c' with
        | none =>
          simp only [bind, Except.bind, hin, throw, throwThe, MonadExceptOf.throw] at h
          injection h with h
          right
          exact h.symm
        | some c =>
          simp only [bind, Except.bind, hin, pure, Except.pure] at h
          exact ih (i + 1) k' (some c) (acc ++ [c]) (by omega) h
    · simp [hi1, pure, Except.pure] at h

/-! ### get_time_shift -/

/-- the `for index, t in enumerate(times)` loop started at index `k` with `t` bound to `prev` -/
theorem time_shift_loop_eq (L : List Rat) (thr : Rat) (ts : List Rat) (k : Nat) (prev : Option Rat) :
    get_time_shift_loop L thr ((List.range' k ts.length).zip ts) prev =
      match (ts.zip (L.drop k)).find? (fun p => p.2 ≥ thr) with
      | some p => .ok (some p.1)
      | none => if L.length - k < ts.length then .error "IndexError" else .ok (ts.getLast?.or prev) := by
  induction ts generalizing k prev with
  | nil => simp [get_time_shift_loop, pure, Except.pure]
  | cons t ts ih =>
    simp only [List.length_cons, List.range'_succ, List.zip_cons_cons, get_time_shift_loop]
    by_cases hk : k < L.length
    · rw [pyIndex_nat L k hk, List.drop_eq_getElem_cons hk]
      by_cases hge : L[k] ≥ thr
      · simp only [bind, Except.bind, hge, pure, Except.pure, if_true, List.zip_cons_cons, List.find?_cons,
          decide_true]
      · have hstep : L.length - (k + 1) < ts.length ↔ L.length - k < ts.length + 1 := by omega
        have hlast : ts.getLast?.or (some t) = (t :: ts).getLast?.or prev := by
          cases ts with
          | nil => simp
          | cons a ts' =>
            rw [List.getLast?_cons_cons, List.getLast?_eq_some_getLast (List.cons_ne_nil a ts')]
            simp
        simp only [bind, Except.bind, hge, if_false, ih (k + 1) (some t), List.zip_cons_cons,
          List.find?_cons, decide_false, hstep, hlast]
    · have hd : L.drop k = [] := by
        rw [List.drop_eq_nil_iff]
        omega
      have hlt : L.length - k < ts.length + 1 := by omega
      simp [pyIndex_nat_err L k (by omega), bind, Except.bind, hd, hlt]

end GenAux
