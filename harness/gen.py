"""Input generators: contact graphs, weights, initial sets.  All randomness from the rng passed in."""
import itertools
from fractions import Fraction
import networkx as nx

WEIGHTS = [Fraction(1, 4), Fraction(1, 2), Fraction(1), Fraction(2), Fraction(3)]
RATES = [Fraction(0), Fraction(1, 4), Fraction(1, 2), Fraction(1), Fraction(2)]


def all_graphs(n):
    """every labelled simple graph on nodes 0..n-1"""
    pairs = list(itertools.combinations(range(n), 2))
    for mask in range(2 ** len(pairs)):
        G = nx.Graph()
        G.add_nodes_from(range(n))
        G.add_edges_from(p for i, p in enumerate(pairs) if mask >> i & 1)
        yield G


def random_graph(rng, nmin=1, nmax=9, directed=False):
    n = rng.randint(nmin, nmax)
    kind = rng.choice(["gnp", "gnp", "tree", "path", "star", "complete", "sparse", "cycle"])
    G = nx.DiGraph() if directed else nx.Graph()
    order = list(range(n))
    rng.shuffle(order)
    G.add_nodes_from(order)
    if kind == "gnp":
        p = rng.choice([0.2, 0.4, 0.6, 0.8])
        edges = [(u, v) for u in range(n) for v in range(n) if (u < v or (directed and u != v)) and rng.random() < p]
    elif kind == "sparse":
        edges = [(u, v) for u in range(n) for v in range(n) if (u < v or (directed and u != v)) and rng.random() < 0.15]
    elif kind == "tree":
        edges = [(rng.randrange(i), i) for i in range(1, n)]
    elif kind == "path":
        edges = [(i, i + 1) for i in range(n - 1)]
    elif kind == "cycle":
        edges = [(i, (i + 1) % n) for i in range(n)] if n >= 3 else [(i, i + 1) for i in range(n - 1)]
    elif kind == "star":
        edges = [(0, i) for i in range(1, n)]
    else:
        edges = [(u, v) for u in range(n) for v in range(u + 1, n)]
    rng.shuffle(edges)
    if directed and kind in ("tree", "path", "star", "cycle", "complete"):
        edges = [(u, v) if rng.random() < 0.5 else (v, u) for u, v in edges]
        if rng.random() < 0.5:
            edges += [(v, u) for u, v in edges if rng.random() < 0.5]
    G.add_edges_from(edges)
    return G


def add_weights(rng, G, edge_attr="w", node_attr="r", zero_ok=False):
    ws = WEIGHTS + ([Fraction(0)] if zero_ok else [])
    for u, v in G.edges():
        G.edges[u, v][edge_attr] = float(rng.choice(ws))
    for u in G.nodes():
        G.nodes[u][node_attr] = float(rng.choice(ws))


def index_of(G):
    return {u: i for i, u in enumerate(G)}


def adj_lists(G, idx=None):
    idx = idx or index_of(G)
    return [[idx[v] for v in G.neighbors(u)] for u in G]


def pred_lists(G, idx=None):
    idx = idx or index_of(G)
    if G.is_directed():
        return [[idx[v] for v in G.predecessors(u)] for u in G]
    return adj_lists(G, idx)


def initial_sets(rng, G, with_recovered=True, allow_empty=False):
    nodes = list(G)
    n = len(nodes)
    k = rng.randint(0 if allow_empty else 1, max(1, min(n, 3)))
    k = min(k, n)
    infs = rng.sample(nodes, k)
    rest = [u for u in nodes if u not in infs]
    recs = []
    if with_recovered and rest and rng.random() < 0.4:
        recs = rng.sample(rest, rng.randint(1, min(len(rest), 2)))
    return infs, recs


def relabel(rng, G, kind):
    """bijective relabelling + reshuffled insertion order; returns (H, mapping old->new)"""
    nodes = list(G)
    if kind == "str":
        m = {u: "n%s" % (i * 7 % 13) + chr(97 + i) for i, u in enumerate(nodes)}
    elif kind == "tuple":
        m = {u: (i % 2, "x", i) for i, u in enumerate(nodes)}
    elif kind == "frozenset":
        m = {u: frozenset([i, -i - 1]) for i, u in enumerate(nodes)}
    elif kind == "perm":
        p = list(range(len(nodes)))
        rng.shuffle(p)
        m = {u: p[i] for i, u in enumerate(nodes)}
    elif kind == "offset":
        m = {u: 100 + 3 * i for i, u in enumerate(nodes)}
    elif kind == "negint":
        # negative integers, among them -1 and 0 — values a library is tempted to use as sentinels
        m = {u: -i for i, u in enumerate(nodes)} if rng.random() < 0.5 else {u: -1 - i for i, u in enumerate(nodes)}
    elif kind == "fresh-tuple":
        m = {u: (i, "y") for i, u in enumerate(nodes)}
    elif kind == "fresh-int":
        m = {u: 10 ** 6 + 17 * i for i, u in enumerate(nodes)}
    elif kind == "fresh-str":
        m = {u: "node-%d" % i for i, u in enumerate(nodes)}
    else:
        raise ValueError(kind)
    # "fresh-*": every mention of a node (add_node, each end of each add_edge) uses a NEWLY CONSTRUCTED object that is equal
    # to, but not identical with, the other mentions — what reading an edge list from a file produces.  networkx keeps the
    # first object as the node key and the per-edge objects as neighbour keys, so `w is u` is False where `w == u` is True.
    fresh = (lambda x: x)
    if kind == "fresh-tuple":
        fresh = lambda x: tuple(list(x))
    elif kind == "fresh-int":
        fresh = lambda x: int(str(x))
    elif kind == "fresh-str":
        fresh = lambda x: "".join(list(x))
    H = G.__class__()
    order = list(nodes)
    rng.shuffle(order)
    for u in order:
        H.add_node(fresh(m[u]), **G.nodes[u])
    edges = list(G.edges(data=True))
    rng.shuffle(edges)
    for u, v, d in edges:
        if not G.is_directed() and rng.random() < 0.5:
            u, v = v, u
        H.add_edge(fresh(m[u]), fresh(m[v]), **d)
    return H, m
