import EoNVerif.Proofs.Relabel
/-!
C14 — the models depend on the network only through its structure.
(1) insertion order: permuting the order of the adjacency lists changes nothing;
(2) node names: relabelling the nodes by a bijection σ maps every per-node quantity through σ and leaves every
    aggregate quantity unchanged.
The definition `Discrete.relabel` lives in `EoNVerif.Proofs.Relabel`.
Only the left-inverse law `σ' ∘ σ = id` (injectivity of σ) is used by the proofs; the right-inverse hypothesis `hr` is
kept in the statements so that they read "σ is a bijection".
-/
set_option linter.unusedVariables false

/-! ## insertion order of the neighbours -/
namespace InitCond
/-- degree-class and pair counts are invariant under reordering each adjacency list -/
theorem counts_adj_perm (adj adj' : List (List Nat)) (hl : adj.length = adj'.length)
    (hp : ∀ u, u < adj.length → (adj.getD u []).Perm (adj'.getD u [])) (st : Nat → St) (x y : St) (k : Nat) :
    Nk adj k = Nk adj' k ∧ classCount adj st x k = classCount adj' st x k ∧
    pairCount adj st x y = pairCount adj' st x y ∧ twoM adj = twoM adj' :=
  counts_adj_perm' adj adj' hl hp st x y k
end InitCond

namespace ODE
/-- the individual-based right-hand sides do not depend on the order of the neighbour lists -/
theorem sisIndividual_nbr_perm (nbrs nbrs' : Nat → List Nat) (hp : ∀ i, (nbrs i).Perm (nbrs' i))
    (tr : Nat → Nat → Rat) (rr : Nat → Rat) (Y : Nat → Rat) (i : Nat) :
    sisIndividual nbrs tr rr Y i = sisIndividual nbrs' tr rr Y i :=
  sisIndividual_nbr_perm' nbrs nbrs' hp tr rr Y i
theorem sirIndividual_nbr_perm (nbrs nbrs' : Nat → List Nat) (hp : ∀ i, (nbrs i).Perm (nbrs' i))
    (tr : Nat → Nat → Rat) (rr : Nat → Rat) (X Y : Nat → Rat) (i : Nat) :
    (sirIndividual nbrs tr rr X Y).1 i = (sirIndividual nbrs' tr rr X Y).1 i ∧
    (sirIndividual nbrs tr rr X Y).2 i = (sirIndividual nbrs' tr rr X Y).2 i :=
  sirIndividual_nbr_perm' nbrs nbrs' hp tr rr X Y i

/-- **relabelling**: if σ is a bijection with inverse σ' and the relabelled graph has neighbours
`nbrs' (σ i) = (nbrs i).map σ`, rates and state transported along σ, then the right-hand side is transported too -/
theorem sisIndividual_relabel (σ σ' : Nat → Nat) (hl : ∀ i, σ' (σ i) = i) (hr : ∀ j, σ (σ' j) = j)
    (nbrs nbrs' : Nat → List Nat) (hn : ∀ i, nbrs' (σ i) = (nbrs i).map σ)
    (tr : Nat → Nat → Rat) (rr Y : Nat → Rat) (i : Nat) :
    sisIndividual nbrs' (fun a b => tr (σ' a) (σ' b)) (fun a => rr (σ' a)) (fun a => Y (σ' a)) (σ i)
      = sisIndividual nbrs tr rr Y i :=
  sisIndividual_relabel' σ σ' hl nbrs nbrs' hn tr rr Y i
theorem sirIndividual_relabel (σ σ' : Nat → Nat) (hl : ∀ i, σ' (σ i) = i) (hr : ∀ j, σ (σ' j) = j)
    (nbrs nbrs' : Nat → List Nat) (hn : ∀ i, nbrs' (σ i) = (nbrs i).map σ)
    (tr : Nat → Nat → Rat) (rr X Y : Nat → Rat) (i : Nat) :
    let a := sirIndividual nbrs' (fun a b => tr (σ' a) (σ' b)) (fun a => rr (σ' a)) (fun a => X (σ' a)) (fun a => Y (σ' a))
    let b := sirIndividual nbrs tr rr X Y
    a.1 (σ i) = b.1 i ∧ a.2 (σ i) = b.2 i :=
  sirIndividual_relabel' σ σ' hl nbrs nbrs' hn tr rr X Y i
end ODE

/-! ## node names: relabelling the discrete-time simulator and the reachability model -/
namespace Discrete

/-- the BFS balls of the relabelled network are the images of the balls -/
theorem ball_relabel (σ σ' : Node → Node) (hl : ∀ i, σ' (σ i) = i) (hr : ∀ j, σ (σ' j) = j)
    (P : DParams) (infs recs : List Node) (k : Nat) :
    ball (relabel σ σ' P) (infs.map σ) (recs.map σ) k = (ball P infs recs k).map σ :=
  ball_relabel' σ σ' hl P infs recs k

/-- … hence BFS distances (= infection steps, `bfs_correct`) are the same up to relabelling -/
theorem bfs_relabel (σ σ' : Node → Node) (hl : ∀ i, σ' (σ i) = i) (hr : ∀ j, σ (σ' j) = j)
    (P : DParams) (infs recs : List Node) (v : Node) :
    bfs (relabel σ σ' P) (infs.map σ) (recs.map σ) (σ v) = bfs P infs recs v :=
  bfs_relabel' σ σ' hl P infs recs v

/-- one generation commutes with relabelling: counts equal, infectious set mapped -/
theorem step_relabel (σ σ' : Node → Node) (hl : ∀ i, σ' (σ i) = i) (hr : ∀ j, σ (σ' j) = j)
    (P : DParams) (s : DState) :
    let s' : DState := { s with sus := fun a => s.sus (σ' a), inf := s.inf.map σ, age := fun a => s.age (σ' a),
                                infTime := s.infTime.map fun e => (σ e.1, e.2),
                                infectors := s.infectors.map fun e => (σ e.1, e.2.1, e.2.2.map σ) }
    (step (relabel σ σ' P) s').inf = (step P s).inf.map σ ∧
    (step (relabel σ σ' P) s').S = (step P s).S ∧ (step (relabel σ σ' P) s').I = (step P s).I ∧
    (step (relabel σ σ' P) s').R = (step P s).R ∧
    (step (relabel σ σ' P) s').infTime = (step P s).infTime.map fun e => (σ e.1, e.2) :=
  step_relabel' σ σ' hl P s
end Discrete

namespace Perc
theorem reachFrom_relabel (σ σ' : Node → Node) (hl : ∀ i, σ' (σ i) = i) (hr : ∀ j, σ (σ' j) = j)
    (nodes : List Node) (succ : Node → List Node) (src : List Node) :
    reachFrom (nodes.map σ) (fun a => (succ (σ' a)).map σ) (src.map σ) = (reachFrom nodes succ src).map σ :=
  reachFrom_relabel' σ σ' hl nodes succ src

/-- the estimator's allowed values (fractions of nodes) do not depend on node names -/
theorem allowed_relabel (σ σ' : Node → Node) (hl : ∀ i, σ' (σ i) = i) (hr : ∀ j, σ (σ' j) = j)
    (nodes : List Node) (succ : Node → List Node) :
    allowed (nodes.map σ) (fun a => (succ (σ' a)).map σ) = allowed nodes succ :=
  allowed_relabel' σ σ' hl nodes succ
end Perc

/-! non-vacuity: the transposition of nodes 0 and 2 on the directed path 0 → 1 → 2 (plus the 2-cycle 1 ⇄ 2) is its
own inverse; the relabelled instance is a genuinely different labelled graph, the BFS distance of the image of node 2
is unchanged, and the estimator's allowed values coincide -/
namespace C14Ex
def σ (i : Node) : Node := if i = 0 then 2 else if i = 2 then 0 else i
theorem σσ (i : Node) : σ (σ i) = i := by unfold σ; grind
def succ (u : Node) : List Node := match u with | 0 => [1] | 1 => [2] | 2 => [1] | _ => []
def P : DParams := { nodes := [0, 1, 2], nbrs := succ, rule := fun _ _ _ => true, recSteps := none, tmin := 0, tmax := none }

example : (Discrete.relabel σ σ P).nodes = [2, 1, 0] ∧ (Discrete.relabel σ σ P).nbrs 2 = [1] ∧
    (Discrete.relabel σ σ P).nbrs 0 = [1] ∧ (Discrete.relabel σ σ P).nbrs 1 = [0] := by decide +kernel
example : Discrete.bfs P [0] [] 2 = some 2 ∧
    Discrete.bfs (Discrete.relabel σ σ P) ([0].map σ) ([].map σ) (σ 2) = some 2 := by decide +kernel
example : Discrete.ball (Discrete.relabel σ σ P) ([0].map σ) ([].map σ) 1 = [2, 1] ∧
    Discrete.ball P [0] [] 1 = [0, 1] := by decide +kernel
example : Perc.allowed [0, 1, 2] succ = [(1, 2/3), (1, 2/3)] ∧
    Perc.allowed ([0, 1, 2].map σ) (fun a => (succ (σ a)).map σ) = [(1, 2/3), (1, 2/3)] := by decide +kernel
example : Discrete.ball (Discrete.relabel σ σ P) ([0].map σ) ([].map σ) 1 = (Discrete.ball P [0] [] 1).map σ :=
  Discrete.ball_relabel σ σ σσ σσ P [0] [] 1
end C14Ex
