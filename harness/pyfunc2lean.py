#!/usr/bin/env python3
"""pyfunc2lean — translator from the imperative Python of `EoN.simulation.Gillespie_SIR` / `Gillespie_SIS` to Lean 4.

On every run the two function bodies are read from /repo's working tree (ast) and translated statement by statement
into lean/EoNVerif/Gen/GillespieGen.lean.  Translated slice of each function: the nested `edgeweight` / `nodeweight`
definitions and everything from the first assignment of the count lists (`I = [len(initial_infecteds)]`) to the end of
the main `while` loop — the initial bookkeeping loops, the event selection, the incremental update of the two
`_ListDict_`s and the clock.  Outside the slice (covered by other checks, not translated): argument normalisation
(rho / single node / None, C05), the conversion of the lists to arrays and the construction of the full-data object
(C10).

Shape of the output: all mutable locals of the slice form a record `Loc`; every statement is a step `Loc -> TM Loc` in
the tape monad (a `random.*` call pops a scripted draw and logs its argument, a Python exception is `throw`);
`for` loops are `List.foldlM`, the `while` loop is a recursion on a fuel argument; method calls on the two
`_ListDict_` objects call the code generated from the class (`Gen/ListDictGen.lean`, `Gen/ListDictTM.lean`).
The only hand-supplied inputs are the kinds of the locals (FIELDS) and of the arguments (`PyTM.GArgs`).
Anything outside the supported subset raises Unsupported — a failed translation is an undischarged obligation.

`Proofs/GenGillespie.lean` proves that the generated functions refine the hand-written model `Model/Gillespie.lean`
that the C01/C02 theorems are stated about.
"""
import ast, os, sys, hashlib

REPO = os.environ.get("EON_REPO", "/repo")


class Unsupported(Exception):
    pass


# kinds: int, rat, erat (float that may be inf), bool, node, link, st, orat, list:int, list:erat, ld:node, ld:link,
#        status (defaultdict(lambda:'S')), trans (list of (time, source|None, target)), ddlist (defaultdict(list) node -> [times])
FIELDS_SIR = [("status", "status"), ("infecteds", "ld:node"), ("IS_links", "ld:link"), ("times", "list:erat"),
              ("S", "list:int"), ("I", "list:int"), ("R", "list:int"), ("t", "erat"), ("delay", "erat"),
              ("total_recovery_rate", "rat"), ("total_transmission_rate", "rat"), ("total_rate", "rat"),
              ("transmissions", "trans"), ("infection_times", "ddlist"), ("recovery_times", "ddlist")]
FIELDS_SIS = [f for f in FIELDS_SIR if f[0] != "R"]
LEAN_TY = {"int": "Int", "rat": "Rat", "erat": "ERat", "bool": "Bool", "node": "Node", "link": "Node × Node", "st": "St",
           "orat": "Option Rat", "list:int": "List Int", "list:erat": "List ERat", "ld:node": "GenLD.PyLD Node",
           "ld:link": "GenLD.PyLD (Node × Node)", "status": "Node → St", "trans": "List (ERat × Option Node × Node)",
           "ddlist": "List (Node × List ERat)", "statusσ": "Node → τ", "counts": "List (τ × List Int)",
           "hist": "List (Node × (List ERat × List τ))"}
DEFAULT = {"int": "0", "rat": "0", "erat": "none", "list:int": "[]", "list:erat": "[]", "ld:node": "GenLD.init false",
           "ld:link": "GenLD.init false", "status": "fun _ => St.S", "trans": "[]", "ddlist": "[]", "statusσ": "P.ic", "counts": "[]", "hist": "[]"}
FIELDS_CC = [("status", "statusσ"), ("times", "list:erat"), ("t", "erat"), ("delay", "erat"), ("data", "counts"),
             ("nodes_by_rate", "ld:node"), ("node_history", "hist")]
PARAMS_CC = {"tmin": ("P.tmin", "rat"), "tmax": ("P.tmax", "erat"), "return_full_data": ("P.full", "bool"),
             "return_statuses": ("P.ret", "sigmas")}
PARAMS = {"tau": ("P.tau", "rat"), "gamma": ("P.gamma", "rat"), "tmin": ("P.tmin", "rat"), "tmax": ("P.tmax", "erat"),
          "return_full_data": ("P.full", "bool"), "initial_infecteds": ("initial_infecteds", "nodes"),
          "initial_recovereds": ("initial_recovereds", "nodes")}
STATUS = {"S": "St.S", "I": "St.I", "R": "St.R"}


class Fn:
    def __init__(self, node, fields, ns, params=None, profile="gillespie"):
        self.node, self.fields, self.ns = node, dict(fields), ns
        self.params = params if params is not None else PARAMS
        self.profile = profile
        self.loc_ty = "Loc τ" if profile == "complex" else "Loc"
        self.field_order = [f for f, _ in fields]
        self.temps = {}          # let-bound names -> kind
        self.n = 0
        self.loop_lines = None

    def tmp(self, base="v"):
        self.n += 1
        return f"{base}_{self.n}"

    # ------------------------------------------------------------------ expressions: (pre-lines, term, kind)
    def expr(self, e, ind):
        if isinstance(e, ast.Constant):
            v = e.value
            if v is None:
                return [], "none", "none"
            if isinstance(v, bool):
                return [], ("true" if v else "false"), "bool"
            if isinstance(v, int):
                return [], str(v), "num"
            if isinstance(v, str) and v in STATUS:
                return [], STATUS[v], "st"
            raise Unsupported(f"constant {v!r}")
        if isinstance(e, ast.Name):
            if e.id in self.temps:
                return [], e.id, self.temps[e.id]
            if e.id in self.fields:
                return [], f"σ.{e.id}", self.fields[e.id]
            if e.id in self.params:
                return [], self.params[e.id][0], self.params[e.id][1]
            raise Unsupported(f"unknown name {e.id}")
        if isinstance(e, ast.Tuple):
            parts = [self.expr(x, ind) for x in e.elts]
            pre = sum((p for p, _, _ in parts), [])
            if len(parts) == 2 and all(k == "node" for _, _, k in parts):
                return pre, f"({parts[0][1]}, {parts[1][1]})", "link"
            if len(parts) == 3 and parts[0][2] == "erat" and parts[2][2] == "node" and parts[1][2] in ("node", "none"):
                mid = "none" if parts[1][2] == "none" else f"some {parts[1][1]}"
                return pre, f"({parts[0][1]}, {mid}, {parts[2][1]})", "transrow"
            raise Unsupported("tuple " + ast.unparse(e))
        if isinstance(e, ast.List) and len(e.elts) == 1:
            p, t, k = self.expr(e.elts[0], ind)
            if k == "rat":
                return p, f"[some {t}]", "list:erat"
            if k == "erat":
                return p, f"[{t}]", "list:erat"
            if k in ("int", "num"):
                return p, f"[{t}]", "list:int"
            raise Unsupported("list literal of " + k)
        if isinstance(e, ast.List) and not e.elts:
            return [], "[]", "list:empty"
        if isinstance(e, ast.Subscript):
            pv, v, kv = self.expr(e.value, ind)
            if kv == "status":
                pk, key, _ = self.expr(e.slice, ind)
                return pv + pk, f"({v} {key})", "st"          # defaultdict(lambda:'S') read: the default is the function's value
            if kv == "statusσ":
                pk, key, _ = self.expr(e.slice, ind)
                return pv + pk, f"({v} {key})", "sigma"
            if kv == "counter":
                pk, key, kk = self.expr(e.slice, ind)
                if kk != "sigma":
                    raise Unsupported("Counter key")
                return pv + pk, f"(PyTM.countSt P.nodes {v} {key})", "int"
            if kv == "counts":
                pk, key, kk = self.expr(e.slice, ind)
                if kk != "sigma":
                    raise Unsupported("data key")
                t = self.tmp("col")
                return pv + pk + [f"{ind}let {t} ← PyTM.liftE (PyRT.dictGet {v} {key})"], t, "list:int"
            if kv in ("list:int", "list:erat"):
                idx = e.slice
                ek = "int" if kv == "list:int" else "erat"
                t = self.tmp()
                if isinstance(idx, ast.Constant) and isinstance(idx.value, int) and idx.value >= 0:
                    return pv + [f"{ind}let {t} ← PyTM.liftE (PyTM.listGet {v} {idx.value})"], t, ek
                if isinstance(idx, ast.UnaryOp) and isinstance(idx.op, ast.USub) and isinstance(idx.operand, ast.Constant) and idx.operand.value == 1:
                    return pv + [f"{ind}let {t} ← PyTM.liftE (PyTM.listLast {v})"], t, ek
            raise Unsupported("subscript " + ast.unparse(e))
        if isinstance(e, ast.BinOp):
            pa, a, ka = self.expr(e.left, ind)
            pb, b, kb = self.expr(e.right, ind)
            pre = pa + pb
            op = type(e.op)
            if op is ast.Div:
                if {ka, kb} <= {"rat", "num"}:
                    t = self.tmp("q")
                    return pre + [f"{ind}let {t} ← PyTM.liftE (PyTM.fdiv {a} {b})"], t, "rat"
                raise Unsupported("division of " + ka + "/" + kb)
            sym = {ast.Add: "+", ast.Sub: "-", ast.Mult: "*"}.get(op)
            if sym is None:
                raise Unsupported("operator")
            if {ka, kb} <= {"int", "num"}:
                return pre, f"({a} {sym} {b})", "int"
            if {ka, kb} <= {"rat", "num"}:
                return pre, f"({a} {sym} {b})", "rat"
            if sym == "+" and "erat" in (ka, kb) and {ka, kb} <= {"erat", "rat"}:
                a2 = a if ka == "erat" else f"(some {a})"
                b2 = b if kb == "erat" else f"(some {b})"
                return pre, f"(ERat.add {a2} {b2})", "erat"
            raise Unsupported(f"arithmetic {ka} {sym} {kb}")
        if isinstance(e, ast.Compare) and len(e.ops) == 1:
            pa, a, ka = self.expr(e.left, ind)
            pb, b, kb = self.expr(e.comparators[0], ind)
            pre = pa + pb
            o = type(e.ops[0])
            if o is ast.In and ka == "sigma" and kb == "sigmas":
                return pre, f"(decide ({a} ∈ {b}))", "bool"
            if "erat" in (ka, kb):
                a2 = a if ka == "erat" else f"(some {a})"
                b2 = b if kb == "erat" else f"(some {b})"
                if o is ast.Lt:
                    return pre, f"(ERat.lt {a2} {b2})", "bool"
                raise Unsupported("comparison of extended reals other than <")
            sym = {ast.Eq: "=", ast.NotEq: "≠", ast.Gt: ">", ast.Lt: "<", ast.GtE: "≥", ast.LtE: "≤"}.get(o)
            if sym is None:
                raise Unsupported("comparison")
            if kb == "num" and ka == "rat":
                b = f"({b} : Rat)"
            return pre, f"(decide ({a} {sym} {b}))", "bool"
        if isinstance(e, ast.BoolOp) and isinstance(e.op, ast.And):
            parts = [self.truth(v, ind) for v in e.values]
            if any(p for p, _ in parts[1:]):
                raise Unsupported("effectful right operand of `and`")
            return parts[0][0], "(" + " && ".join(t for _, t in parts) + ")", "bool"
        if isinstance(e, ast.Call):
            return self.call(e, ind)
        raise Unsupported("expression " + ast.unparse(e)[:60])

    def truth(self, e, ind):
        p, t, k = self.expr(e, ind)
        if k == "bool":
            return p, t
        if k.startswith("ld:"):
            return p, f"(decide (GenLD.len__ {t} > 0))"          # truth value of an object with __len__
        raise Unsupported("truth value of " + k)

    def call(self, e, ind):
        f = e.func
        src = ast.unparse(e)
        if src == "float('Inf')":
            return [], "none", "erat"
        if src == "random.random()":
            t = self.tmp("u")
            return [f"{ind}let {t} ← TM.popUnif"], t, "rat"
        if isinstance(f, ast.Attribute) and ast.unparse(f) == "random.expovariate" and len(e.args) == 1:
            p, a, k = self.expr(e.args[0], ind)
            t = self.tmp("d")
            return p + [f"{ind}let {t} ← TM.popExpo {a}"], t, "rat"
        if src == "G.order()":
            return [], "(P.order : Int)", "int"
        if self.profile == "complex":
            if src == "G.nodes()":
                return [], "P.nodes", "nodes"
            if src == "Counter(status.values())":
                return [], "σ.status", "counter"
            if src == "data.keys()":
                return [], "(σ.data.map (·.1))", "sigmas"
            if isinstance(f, ast.Name) and f.id in ("rate_function", "transition_choice", "get_influence_set"):
                if [ast.unparse(a) for a in e.args[:1] + e.args[2:]] != ["G", "status", "parameters"] or e.keywords or len(e.args) != 4:
                    raise Unsupported("callback arguments " + src)
                p1, a, ka = self.expr(e.args[1], ind)
                if ka != "node":
                    raise Unsupported("callback node argument")
                fld, kind = {"rate_function": ("rate", "rat"), "transition_choice": ("choose", "sigma"),
                             "get_influence_set": ("infl", "nodes")}[f.id]
                return p1, f"(P.{fld} σ.status {a})", kind
        if isinstance(f, ast.Name) and f.id == "len" and len(e.args) == 1:
            p, a, k = self.expr(e.args[0], ind)
            if k == "nodes":
                return p, f"({a}.length : Int)", "int"
            raise Unsupported("len of " + k)
        if isinstance(f, ast.Name) and f.id in ("edgeweight", "nodeweight"):
            parts = [self.expr(a, ind) for a in e.args]
            return sum((p for p, _, _ in parts), []), f"({f.id} P " + " ".join(t for _, t, _ in parts) + ")", "orat"
        if isinstance(f, ast.Name) and f.id == "defaultdict" and ast.unparse(e) == "defaultdict(lambda: 'S')":
            return [], "(fun _ => St.S)", "status"
        if isinstance(f, ast.Name) and f.id == "_ListDict_":
            if not e.args and not e.keywords:
                return [], "(GenLD.init false)", "ld:new"
            if not e.args and len(e.keywords) == 1 and e.keywords[0].arg == "weighted" and ast.unparse(e.keywords[0].value) == "True":
                return [], "(GenLD.init true)", "ld:new"
            raise Unsupported(src)
        if isinstance(f, ast.Attribute) and isinstance(f.value, ast.Name) and self.fields.get(f.value.id, "").startswith("ld:"):
            obj, kind = f.value.id, self.fields[f.value.id]
            enc = "PyTM.encNode" if kind == "ld:node" else "PyTM.encLink"
            item = "node" if kind == "ld:node" else "link"
            if f.attr == "total_weight" and not e.args:
                t, l = self.tmp("w"), self.tmp("l")
                return [f"{ind}let ({l}, {t}) ← PyTM.liftE (GenLD.total_weight σ.{obj})", f"{ind}let σ := {{ σ with {obj} := {l} }}"], t, "rat"
            if f.attr in ("random_removal", "choose_random") and not e.args:
                t, l = self.tmp("c"), self.tmp("l")
                return [f"{ind}let ({l}, {t}) ← GenLD.{f.attr}_tm {enc} σ.{obj} P.cfuel", f"{ind}let σ := {{ σ with {obj} := {l} }}"], t, item
            if f.attr == "update" and len(e.args) == 1 and len(e.keywords) == 1 and e.keywords[0].arg == "weight_increment":
                p1, a, ka = self.expr(e.args[0], ind)
                p2, w, kw = self.expr(e.keywords[0].value, ind)
                if ka != item or kw != "orat":
                    raise Unsupported("update argument kinds")
                l = self.tmp("l")
                return p1 + p2 + [f"{ind}let {l} ← PyTM.liftE (GenLD.update σ.{obj} {a} {w})", f"{ind}let σ := {{ σ with {obj} := {l} }}"], "()", "unit"
            if f.attr == "insert" and len(e.args) == 1 and len(e.keywords) == 1 and e.keywords[0].arg == "weight":
                p1, a, ka = self.expr(e.args[0], ind)
                p2, w, kw = self.expr(e.keywords[0].value, ind)
                if ka != item or kw != "rat":
                    raise Unsupported("insert argument kinds")
                l = self.tmp("l")
                return p1 + p2 + [f"{ind}let {l} ← PyTM.liftE (GenLD.insert σ.{obj} {a} (some {w}))", f"{ind}let σ := {{ σ with {obj} := {l} }}"], "()", "unit"
            if f.attr == "remove" and len(e.args) == 1 and not e.keywords:
                p1, a, ka = self.expr(e.args[0], ind)
                if ka != item:
                    raise Unsupported("remove argument kind")
                l = self.tmp("l")
                return p1 + [f"{ind}let {l} ← PyTM.liftE (GenLD.remove σ.{obj} {a})", f"{ind}let σ := {{ σ with {obj} := {l} }}"], "()", "unit"
            raise Unsupported("method call " + src)
        if isinstance(f, ast.Attribute) and f.attr == "append" and len(e.args) == 1:
            tgt = f.value
            p, a, ka = self.expr(e.args[0], ind)
            if isinstance(tgt, ast.Name) and tgt.id in self.fields:
                k = self.fields[tgt.id]
                if (k, ka) in (("list:int", "int"), ("list:erat", "erat"), ("trans", "transrow")):
                    return p + [f"{ind}let σ := {{ σ with {tgt.id} := σ.{tgt.id} ++ [{a}] }}"], "()", "unit"
            if isinstance(tgt, ast.Subscript) and isinstance(tgt.value, ast.Name) and self.fields.get(tgt.value.id) == "counts" and ka == "int":
                pk, key, kk = self.expr(tgt.slice, ind)
                d, c = tgt.value.id, self.tmp("col")
                return p + pk + [f"{ind}let {c} ← PyTM.liftE (PyRT.dictGet σ.{d} {key})",
                                 f"{ind}let σ := {{ σ with {d} := alSet σ.{d} {key} ({c} ++ [{a}]) }}"], "()", "unit"
            if isinstance(tgt, ast.Subscript) and isinstance(tgt.value, ast.Subscript) and isinstance(tgt.value.value, ast.Name) \
                    and self.fields.get(tgt.value.value.id) == "hist" and isinstance(tgt.slice, ast.Constant) and tgt.slice.value in (0, 1):
                pk, key, kk = self.expr(tgt.value.slice, ind)
                d, h = tgt.value.value.id, self.tmp("h")
                if (tgt.slice.value, ka) not in ((0, "erat"), (1, "sigma")):
                    raise Unsupported("history append kinds")
                new = f"({h}.1 ++ [{a}], {h}.2)" if tgt.slice.value == 0 else f"({h}.1, {h}.2 ++ [{a}])"
                return p + pk + [f"{ind}let {h} ← PyTM.liftE (PyRT.dictGet σ.{d} {key})",
                                 f"{ind}let σ := {{ σ with {d} := alSet σ.{d} {key} {new} }}"], "()", "unit"
            if isinstance(tgt, ast.Subscript) and isinstance(tgt.value, ast.Name) and self.fields.get(tgt.value.id) == "ddlist" and ka == "erat":
                pk, key, kk = self.expr(tgt.slice, ind)
                d = tgt.value.id
                return p + pk + [f"{ind}let σ := {{ σ with {d} := PyTM.ddAppend σ.{d} {key} {a} }}"], "()", "unit"
            raise Unsupported("append " + src)
        raise Unsupported("call " + src[:60])

    # ------------------------------------------------------------------ statements
    def assign_field(self, name, val_term, val_kind, ind):
        k = self.fields[name]
        if k == "erat" and val_kind == "rat":
            val_term = f"(some {val_term})"
        elif k == "int" and val_kind == "num":
            pass
        elif k.startswith("ld:") and val_kind == "ld:new":
            pass
        elif k in ("trans", "ddlist") and val_kind == "list:empty":
            pass
        elif k != val_kind:
            raise Unsupported(f"assignment of {val_kind} to {name} : {k}")
        return [f"{ind}let σ := {{ σ with {name} := {val_term} }}"]

    def block(self, stmts, ind, in_loop=False):
        out = []
        for i, st in enumerate(stmts):
            last = i == len(stmts) - 1
            if isinstance(st, ast.Expr) and isinstance(st.value, ast.Constant):
                continue
            if isinstance(st, ast.Expr) and isinstance(st.value, ast.Call):
                p, t, k = self.expr(st.value, ind)
                out += p
                continue
            if isinstance(st, ast.Assign) and len(st.targets) == 1:
                tgt = st.targets[0]
                if isinstance(tgt, ast.Tuple) and all(isinstance(x, ast.Name) for x in tgt.elts) and len(tgt.elts) == 2:
                    p, t, k = self.expr(st.value, ind)
                    if k != "link":
                        raise Unsupported("tuple unpacking of " + k)
                    a, b = (x.id for x in tgt.elts)
                    self.temps[a] = self.temps[b] = "node"
                    out += p + [f"{ind}let ({a}, {b}) := {t}"]
                    continue
                if self.profile == "complex":
                    src_st = ast.unparse(st)
                    if src_st == "status = {node: IC[node] for node in G.nodes()}":
                        out.append(f"{ind}let σ := {{ σ with status := P.ic }}")
                        continue
                    if src_st == "node_history = {node: ([tmin], [status[node]]) for node in G.nodes()}":
                        out.append(f"{ind}let σ := {{ σ with node_history := P.nodes.map (fun node => (node, ([some P.tmin], [σ.status node]))) }}")
                        continue
                    if src_st == "data = {}":
                        out.append(f"{ind}let σ := {{ σ with data := [] }}")
                        continue
                    if isinstance(tgt, ast.Subscript) and isinstance(tgt.value, ast.Name) and self.fields.get(tgt.value.id) == "statusσ":
                        pk, key, _ = self.expr(tgt.slice, ind)
                        p, t, k = self.expr(st.value, ind)
                        if k != "sigma":
                            raise Unsupported("status value")
                        out += pk + p + [f"{ind}let σ := {{ σ with status := fset σ.status {key} {t} }}"]
                        continue
                    if isinstance(tgt, ast.Subscript) and isinstance(tgt.value, ast.Name) and self.fields.get(tgt.value.id) == "counts":
                        pk, key, kk = self.expr(tgt.slice, ind)
                        p, t, k = self.expr(st.value, ind)
                        if kk != "sigma" or k != "list:int":
                            raise Unsupported("data[...] assignment kinds")
                        out += pk + p + [f"{ind}let σ := {{ σ with data := alSet σ.data {key} {t} }}"]
                        continue
                if isinstance(tgt, ast.Subscript) and isinstance(tgt.value, ast.Name) and self.fields.get(tgt.value.id) == "status":
                    pk, key, _ = self.expr(tgt.slice, ind)
                    p, t, k = self.expr(st.value, ind)
                    if k != "st":
                        raise Unsupported("status value")
                    out += pk + p + [f"{ind}let σ := {{ σ with status := fset σ.status {key} {t} }}"]
                    continue
                if isinstance(tgt, ast.Name):
                    p, t, k = self.expr(st.value, ind)
                    if tgt.id in self.fields:
                        out += p + self.assign_field(tgt.id, t, k, ind)
                    else:
                        if k not in ("node", "link", "rat", "sigma", "nodes", "counter"):
                            raise Unsupported(f"local {tgt.id} of kind {k} is not declared")
                        self.temps[tgt.id] = k
                        out += p + [f"{ind}let {tgt.id} := {t}"]
                    continue
                raise Unsupported("assignment target " + ast.unparse(tgt))
            if isinstance(st, ast.AugAssign) and isinstance(st.target, ast.Name) and isinstance(st.op, ast.Add) and st.target.id in self.fields:
                p, t, k = self.expr(ast.BinOp(left=ast.Name(id=st.target.id, ctx=ast.Load()), op=ast.Add(), right=st.value), ind)
                out += p + self.assign_field(st.target.id, t, k, ind)
                continue
            if isinstance(st, ast.AugAssign) and isinstance(st.op, (ast.Add, ast.Sub)) and isinstance(st.target, ast.Subscript) \
                    and ast.unparse(st.target.slice) == "-1" and isinstance(st.target.value, ast.Subscript) \
                    and isinstance(st.target.value.value, ast.Name) and self.fields.get(st.target.value.value.id) == "counts":
                d = st.target.value.value.id
                pk, key, kk = self.expr(st.target.value.slice, ind)
                pv, v, kv = self.expr(st.value, ind)
                if kk != "sigma" or kv not in ("num", "int"):
                    raise Unsupported("data[k][-1] update kinds")
                c, x = self.tmp("col"), self.tmp("x")
                sym = "+" if isinstance(st.op, ast.Add) else "-"
                out += pk + pv + [f"{ind}let {c} ← PyTM.liftE (PyRT.dictGet σ.{d} {key})",
                                  f"{ind}let {x} ← PyTM.liftE (PyTM.listLast {c})",
                                  f"{ind}let σ := {{ σ with {d} := alSet σ.{d} {key} ({c}.dropLast ++ [({x} {sym} {v})]) }}"]
                continue
            if isinstance(st, ast.If):
                out += self.ifstmt(st, ind, in_loop and last)
                continue
            if isinstance(st, ast.For):
                out += self.forstmt(st, ind)
                continue
            if isinstance(st, ast.Continue):
                if in_loop and last:
                    continue              # last statement of the loop body (or of a branch that ends it): falls off the end
                raise Unsupported("continue that is not the last statement on its path")
            raise Unsupported("statement " + type(st).__name__ + ": " + ast.unparse(st)[:50])
        return out

    def ifstmt(self, st, ind, tail_of_loop):
        test = st.test
        src = ast.unparse(test)
        if src == "return_full_data":
            p, c = [], "P.full"
        elif src in ("recovery_weight is not None", "transmission_weight is not None"):
            p, c = [], ("P.hasRW" if src.startswith("recovery") else "P.hasTW")
        elif src in ("recovery_weight is None", "transmission_weight is None"):
            p, c = [], ("(!P.hasRW)" if src.startswith("recovery") else "(!P.hasTW)")
        else:
            p, c = self.truth(test, ind)
        saved = dict(self.temps)
        b1 = self.block(st.body, ind + "  ", tail_of_loop)
        self.temps = dict(saved)
        b2 = self.block(st.orelse, ind + "  ", tail_of_loop) if st.orelse else []
        self.temps = saved
        return p + [f"{ind}let σ ← (if {c} then do"] + b1 + [f"{ind}  pure σ", f"{ind}else do"] + b2 + [f"{ind}  pure σ)"]

    def forstmt(self, st, ind):
        if st.orelse or not isinstance(st.target, ast.Name):
            raise Unsupported("for shape")
        it = ast.unparse(st.iter)
        if it in ("initial_infecteds", "initial_recovereds"):
            seq = it
        elif isinstance(st.iter, ast.Call) and ast.unparse(st.iter.func) == "G.neighbors" and len(st.iter.args) == 1:
            p, a, k = self.expr(st.iter.args[0], ind)
            if p or k != "node":
                raise Unsupported("G.neighbors argument")
            seq = f"(P.nbrs {a})"
        else:
            p, a, k = self.expr(st.iter, ind)
            if p or k not in ("nodes", "sigmas"):
                raise Unsupported("iteration over " + it)
            seq = a
            if k == "sigmas":
                v = st.target.id
                saved = dict(self.temps)
                self.temps[v] = "sigma"
                body = self.block(st.body, ind + "  ", in_loop=True)
                self.temps = saved
                return [f"{ind}let σ ← {seq}.foldlM (fun (σ : {self.loc_ty}) ({v} : τ) => do"] + body + [f"{ind}  pure σ) σ"]
        v = st.target.id
        saved = dict(self.temps)
        self.temps[v] = "node"
        body = self.block(st.body, ind + "  ", in_loop=True)
        self.temps = saved
        return [f"{ind}let σ ← {seq}.foldlM (fun (σ : {self.loc_ty}) ({v} : Node) => do"] + body + [f"{ind}  pure σ) σ"]

    # ------------------------------------------------------------------ whole function
    def nested_defs(self, body):
        """if transmission_weight is not None: def edgeweight(u,v): return G.adj[u][v][transmission_weight] else: ... return None"""
        want_e = ("if transmission_weight is not None:\n\n    def edgeweight(u, v):\n        return G.adj[u][v][transmission_weight]\nelse:\n\n"
                  "    def edgeweight(u, v):\n        return None")
        want_n = ("if recovery_weight is not None:\n\n    def nodeweight(u):\n        return G.nodes[u][recovery_weight]\nelse:\n\n"
                  "    def nodeweight(u):\n        return None")
        got = [ast.unparse(s) for s in body if isinstance(s, ast.If)]
        if want_e not in got:
            raise Unsupported("edgeweight definition changed")
        if want_n not in got:
            raise Unsupported("nodeweight definition changed")
        return ("/-- generated from the nested `edgeweight` definitions -/\n"
                "def edgeweight (P : PyTM.GArgs) (u v : Node) : Option Rat := if P.hasTW then some (P.adjw u v) else none\n\n"
                "/-- generated from the nested `nodeweight` definitions -/\n"
                "def nodeweight (P : PyTM.GArgs) (u : Node) : Option Rat := if P.hasRW then some (P.nodew u) else none\n")

    def emit(self):
        body = self.node.body
        start = next((i for i, s in enumerate(body) if isinstance(s, ast.Assign) and ast.unparse(s.targets[0]) == "I"), None)
        wi = next((i for i, s in enumerate(body) if isinstance(s, ast.While)), None)
        if start is None or wi is None or wi < start:
            raise Unsupported("slice markers (I = [...] ... while) not found")
        wh = body[wi]
        if wh.orelse:
            raise Unsupported("while-else")
        # the full-data dictionaries are created before the slice
        pro = [ast.unparse(s) for s in body[:start]]
        if not any("infection_times = defaultdict(lambda: [])" in s and "recovery_times = defaultdict(lambda: [])" in s for s in pro):
            raise Unsupported("infection_times / recovery_times are no longer defaultdict(lambda: [])")
        defs = self.nested_defs(body[:start])
        loc = "structure Loc where\n" + "\n".join(f"  {f} : {LEAN_TY[k]}" for f, k in self.fields.items()) + "\n"
        init = "def Loc.init : Loc :=\n  { " + ", ".join(f"{f} := {DEFAULT[k]}" for f, k in self.fields.items()) + " }\n"
        pre = self.block(body[start:wi], "  ")
        pc, cond = self.truth(wh.test, "    ")
        if pc:
            raise Unsupported("effectful loop condition")
        wbody = self.block(wh.body, "      ")
        name = self.node.name
        loop = (f"/-- generated from the `while` loop of `{name}` (EoN/simulation.py:{wh.lineno}); `fuel` bounds the number of events -/\n"
                f"def loop (P : PyTM.GArgs) : Nat → Loc → TM Loc\n"
                f'  | 0, _ => TM.fail "fuel"\n'
                f"  | fuel + 1, σ => do\n"
                f"    if {cond} then do\n" + "\n".join(wbody) + "\n      loop P fuel σ\n    else pure σ\n")
        hasrec = "initial_recovereds" in ast.unparse(ast.Module(body=body[start:wi], type_ignores=[]))
        args = "(initial_infecteds initial_recovereds : List Node)" if hasrec else "(initial_infecteds : List Node)"
        run = (f"/-- generated from `{name}` (EoN/simulation.py:{body[start].lineno}-{wh.lineno}): set-up, first clock draw, main loop -/\n"
               f"def run (P : PyTM.GArgs) {args} (fuel : Nat) : TM Loc := do\n"
               f"  let σ : Loc := Loc.init\n" + "\n".join(pre) + "\n  loop P fuel σ\n")
        src = ast.unparse(ast.Module(body=body[start:wi + 1], type_ignores=[]))
        return f"namespace {self.ns}\n\n{defs}\n/-- the mutable locals of `{name}` -/\n{loc}\n{init}\n{loop}\n{run}\nend {self.ns}\n", src


    def emit_complex(self):
        body = self.node.body
        start = next((i for i, s in enumerate(body) if ast.unparse(s).startswith("status = {node: IC[node]")), None)
        wi = next((i for i, s in enumerate(body) if isinstance(s, ast.While)), None)
        if start is None or wi is None or wi < start:
            raise Unsupported("slice markers (status = {...} ... while) not found")
        wh = body[wi]
        if wh.orelse:
            raise Unsupported("while-else")
        loc = "structure Loc (τ : Type) where\n" + "\n".join(f"  {f} : {LEAN_TY[k]}" for f, k in self.fields.items()) + "\n"
        init = ("def Loc.init (P : PyTM.CArgs τ) : Loc τ :=\n  { " +
                ", ".join(f"{f} := {DEFAULT[k]}" for f, k in self.fields.items()) + " }\n")
        pre = self.block(body[start:wi], "  ")
        pc, cond = self.truth(wh.test, "    ")
        wbody = self.block(wh.body, "      ")
        name = self.node.name
        loop = (f"/-- generated from the `while` loop of `{name}` (EoN/simulation.py:{wh.lineno}); `fuel` bounds the number of events -/\n"
                f"def loop (P : PyTM.CArgs τ) : Nat → Loc τ → TM (Loc τ)\n"
                f'  | 0, _ => TM.fail "fuel"\n'
                f"  | fuel + 1, σ => do\n" + "\n".join(pc) + ("\n" if pc else "") +
                f"    if {cond} then do\n" + "\n".join(wbody) + "\n      loop P fuel σ\n    else pure σ\n")
        run = (f"/-- generated from `{name}` (EoN/simulation.py:{body[start].lineno}-{wh.lineno}): set-up, first clock draw, main loop -/\n"
               f"def run (P : PyTM.CArgs τ) (fuel : Nat) : TM (Loc τ) := do\n"
               f"  let σ : Loc τ := Loc.init P\n" + "\n".join(pre) + "\n  loop P fuel σ\n")
        src = ast.unparse(ast.Module(body=body[start:wi + 1], type_ignores=[]))
        return (f"namespace {self.ns}\nvariable {{τ : Type}} [DecidableEq τ]\n\n/-- the mutable locals of `{name}` -/\n{loc}\n{init}\n{loop}\n{run}\n"
                f"end {self.ns}\n"), src


HEADER = '''import EoNVerif.Gen.ListDictTM
/-!
GENERATED by harness/pyfunc2lean.py from `Gillespie_SIR` and `Gillespie_SIS` of EoN/simulation.py — do not edit;
regenerated on every check run.   source sha1: {sha}
-/
open PyTM

'''


def translate(repo=REPO):
    src = open(os.path.join(repo, "EoN", "simulation.py")).read()
    tree = ast.parse(src)
    fns = {n.name: n for n in tree.body if isinstance(n, ast.FunctionDef)}
    errors, out, sources = {}, [], []
    for name, fields, ns in (("Gillespie_SIR", FIELDS_SIR, "GenGSIR"), ("Gillespie_SIS", FIELDS_SIS, "GenGSIS")):
        if name not in fns:
            errors[name] = "function not found"
            continue
        try:
            text, s = Fn(fns[name], fields, ns).emit()
            out.append(text)
            sources.append(s)
        except Unsupported as ex:
            errors[name] = f"unsupported: {ex}"
    sha = hashlib.sha1("\n".join(sources).encode()).hexdigest()
    # Gillespie_complex_contagion goes to its own file (Gen/ComplexGen.lean): a failed translation of one function must
    # not take the other properties' generated code down
    translate.complex_text = ""
    name = "Gillespie_complex_contagion"
    if name not in fns:
        errors[name] = "function not found"
    else:
        try:
            text, s2 = Fn(fns[name], FIELDS_CC, "GenCC", params=PARAMS_CC, profile="complex").emit_complex()
            sha2 = hashlib.sha1(s2.encode()).hexdigest()
            translate.complex_text = HEADER.format(sha=sha2).replace("`Gillespie_SIR` and `Gillespie_SIS`", "`Gillespie_complex_contagion`") + text
        except Unsupported as ex:
            errors[name] = f"unsupported: {ex}"
    return HEADER.format(sha=sha) + "\n".join(out), errors


def regenerate():
    import warnings
    target = os.path.join(os.path.dirname(os.path.abspath(__file__)), "..", "lean", "EoNVerif", "Gen", "GillespieGen.lean")
    with warnings.catch_warnings():
        warnings.simplefilter("ignore")
        text, errors = translate()
    old = open(target).read() if os.path.exists(target) else None
    gill_ok = not any(k in errors for k in ("Gillespie_SIR", "Gillespie_SIS"))
    if text and gill_ok and old != text:
        tmp = target + ".tmp%d" % os.getpid()
        with open(tmp, "w") as f:
            f.write(text)
        os.replace(tmp, target)
    ctext = getattr(translate, "complex_text", "")
    ctarget = os.path.join(os.path.dirname(target), "ComplexGen.lean")
    cold = open(ctarget).read() if os.path.exists(ctarget) else None
    if ctext and cold != ctext:
        tmp = ctarget + ".tmp%d" % os.getpid()
        with open(tmp, "w") as f:
            f.write(ctext)
        os.replace(tmp, ctarget)
    return old != text or (bool(ctext) and cold != ctext), errors


def main():
    changed, errors = regenerate()
    print("pyfunc2lean: Gen/GillespieGen.lean, Gen/ComplexGen.lean %s (%d functions)" % ("rewritten" if changed else "up to date", 3 - len(errors)))
    for n, e in errors.items():
        print(f"pyfunc2lean: {n}: {e}")
    return 1 if errors else 0


if __name__ == "__main__":
    sys.exit(main())
