import EoNVerif.Gen.PyTM
/-!
Runtime of the code generated from the degree-distribution helpers / final-size functions (`harness/pyhelp2lean.py`).
-/
namespace PyHelp

/-- `max(d.keys())`: ValueError on an empty dict -/
def maxKey {ν : Type} (d : List (Nat × ν)) : Except String Nat :=
  match d with
  | [] => throw "ValueError"
  | x :: xs => pure (xs.foldl (fun m kv => max m kv.1) x.1)

/-- `Counter(values)`: key = value, count = multiplicity, keys in order of first occurrence -/
def counter (l : List Nat) : List (Nat × Nat) :=
  l.foldl (fun acc k => alSet acc k (alGet acc 0 k + 1)) []

end PyHelp
