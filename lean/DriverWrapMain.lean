import DriverWrap
partial def loopWrap (h : IO.FS.Stream) (out : IO.FS.Stream) : IO Unit := do
  let line ← h.getLine
  if line.isEmpty then return ()
  out.putStrLn (DrvGenWrap.handle line)
  loopWrap h out
def main : IO Unit := do loopWrap (← IO.getStdin) (← IO.getStdout)
