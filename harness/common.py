"""Shared machinery of the EoN verification harness.

* LeanDriver  : builds /verif/lean and pipes JSON lines through the compiled model driver
* ProofAudit  : builds the property module, `#print axioms` on every registered theorem, source grep
* Ctx         : per-check context: seeded PRNG, counters, samples, violation / disagreement bookkeeping,
                known-findings matching, evidence writer
Everything random derives from one `random.Random(VERIF_SEED)`.
"""
import hashlib, json, os, random as _pyrandom, re, subprocess, sys, time, warnings
from fractions import Fraction

warnings.filterwarnings("ignore")
VERIF = os.path.dirname(os.path.dirname(os.path.abspath(__file__)))
REPO = os.environ.get("EON_REPO", "/repo")
LEAN = os.path.join(VERIF, "lean")
if REPO not in sys.path:
    sys.path.insert(0, REPO)

ALLOWED_AXIOMS = {"propext", "Classical.choice", "Quot.sound"}
FORBIDDEN = re.compile(r"\bsorry\b|\badmit\b|^axiom |native_decide|bv_decide|implemented_by|\bunsafe |maxHeartbeats 0")

TRUSTED_BASE = [
    "Lean 4.33 kernel; axioms allowed: propext, Classical.choice, Quot.sound (audited by #print axioms each run)",
    "hand-written Lean model tied to /repo only by this correspondence harness (generators bound its reach)",
    "RNG primitives (random.random/expovariate/choice/sample, numpy.random.binomial) behave as documented",
    "IEEE arithmetic is exact on the dyadic values the generators use; float rounding otherwise not modelled",
    "networkx graph classes, numpy, scipy integrators are exercised, not modelled",
]


# ----------------------------------------------------------------------------------------- rationals
def fr(x):
    """exact Fraction of a float/int/Fraction/numpy scalar"""
    if isinstance(x, Fraction):
        return x
    if isinstance(x, bool):
        return Fraction(int(x))
    if isinstance(x, int):
        return Fraction(x)
    try:
        import numpy as np
        if isinstance(x, np.integer):
            return Fraction(int(x))
        if isinstance(x, np.floating):
            x = float(x)
    except Exception:
        pass
    if isinstance(x, float):
        if x != x or x in (float("inf"), float("-inf")):
            raise ValueError("non-finite")
        return Fraction(x)
    return Fraction(x)


def rs(x):
    """rational → wire string; +inf → 'inf'"""
    if isinstance(x, float) and x == float("inf"):
        return "inf"
    f = fr(x)
    return str(f.numerator) if f.denominator == 1 else "%d/%d" % (f.numerator, f.denominator)


def unrs(s):
    if isinstance(s, (int,)):
        return Fraction(s)
    if s == "inf":
        return float("inf")
    return Fraction(s)


# ----------------------------------------------------------------------------------------- Lean side
_built = False


def lake(args):
    """run `lake <args>` in lean/ under a global file lock: checks run in parallel and share one build directory"""
    import fcntl
    os.makedirs(os.path.join(LEAN, ".audit"), exist_ok=True)
    with open(os.path.join(LEAN, ".audit", "lake.lock"), "w") as lock:
        fcntl.flock(lock, fcntl.LOCK_EX)
        return subprocess.run(["lake", *args], cwd=LEAN, capture_output=True, text=True)


def lake_build(targets=("EoNVerif", "driver")):
    global _built
    if _built:
        return
    t0 = time.time()
    p = lake(["build", *targets])
    if p.returncode != 0:
        sys.stderr.write(p.stdout[-4000:] + p.stderr[-4000:])
        raise BuildError("lake build failed")
    _built = True
    return time.time() - t0


class BuildError(Exception):
    pass


class LeanDriver:
    exe = os.path.join(LEAN, ".lake", "build", "bin", "driver")

    def __init__(self):
        lake_build()

    def batch(self, reqs):
        """reqs: list of dicts → list of dicts"""
        if not reqs:
            return []
        data = "\n".join(json.dumps(r, separators=(",", ":")) for r in reqs) + "\n"
        p = subprocess.run([self.exe], input=data, capture_output=True, text=True)
        if p.returncode != 0:
            raise RuntimeError("driver crashed: " + p.stderr[-2000:])
        lines = p.stdout.splitlines()
        if len(lines) != len(reqs):
            raise RuntimeError("driver returned %d lines for %d requests" % (len(lines), len(reqs)))
        return [json.loads(l) for l in lines]


def registered_theorems():
    with open(os.path.join(VERIF, "harness", "theorems.json")) as f:
        return json.load(f)


def registered_extra():
    with open(os.path.join(VERIF, "harness", "theorems_extra.json")) as f:
        return json.load(f)


def translation_audit(pid, extra, failures, results):
    """extra = {"module": ..., "theorems": [...]}.  One obligation for the translation itself (every listed source
    function is inside the supported subset) and one per gen_* theorem (generated function = hand-written model)."""
    import fcntl, importlib
    # "generator": name of the translator module (default py2lean), a list of names (all are run), or None for a
    # companion module shared between properties that is not generated code (only built and audited)
    gname = extra.get("generator", "py2lean")
    gnames = [] if gname is None else ([gname] if isinstance(gname, str) else list(gname))
    os.makedirs(os.path.join(LEAN, ".audit"), exist_ok=True)
    obligations, discharged = (1 if gnames else 0) + len(extra["theorems"]), 0
    with open(os.path.join(LEAN, ".audit", "gen_%s.lock" % ("-".join(gnames) or "none")), "w") as lock:
        fcntl.flock(lock, fcntl.LOCK_EX)          # C06/C07/C08 run in parallel and share the generated file
        errors = {}
        for g in gnames:
            try:
                changed, errs = importlib.import_module(g).regenerate()
                errors.update(errs)
            except Exception as e:
                errors[g] = "crashed: %r" % e
        errors = {k: v for k, v in errors.items() if k not in extra.get("ignore_errors", [])}   # functions other properties own
        for fn, e in errors.items():
            failures.append("translation of %s: %s" % (fn, e))
        if gnames and not errors:
            discharged += 1
        p = lake(["build", extra["module"]])
    mod = extra["module"]
    af = os.path.join(LEAN, ".audit", "AuditGen_%s_%s.lean" % (pid, mod.split(".")[-1]))
    with open(af, "w") as f:
        f.write("import %s\n" % mod)
        for t in extra["theorems"]:
            f.write("#print axioms %s\n" % t)
    if p.returncode != 0:
        # the module as a whole does not build: find out which theorems still elaborate by checking the proof file alone
        failures.append("lake build %s failed (generated code no longer provably equal to the model): %s"
                        % (mod, "\n".join(l for l in (p.stdout + p.stderr).splitlines() if "error" in l)[:1200]))
        return obligations, discharged
    q = subprocess.run(["lake", "env", "lean", af], cwd=LEAN, capture_output=True, text=True)
    out = q.stdout + q.stderr
    for t in extra["theorems"]:
        m = re.search(r"'%s' depends on axioms: \[([^\]]*)\]" % re.escape(t), out, re.S)
        if m:
            axs = {a.strip() for a in m.group(1).replace("\n", " ").split(",") if a.strip()}
        elif re.search(r"'%s' does not depend on any axioms" % re.escape(t), out):
            axs = set()
        else:
            failures.append("theorem %s missing or not elaborating" % t)
            continue
        results[t] = axs
        if axs - ALLOWED_AXIOMS:
            failures.append("theorem %s depends on disallowed axioms %s" % (t, sorted(axs - ALLOWED_AXIOMS)))
        else:
            discharged += 1
    for path in import_closure(mod):
        src = re.sub(r"/-.*?-/", "", open(path).read(), flags=re.S)
        for ln in src.splitlines():
            if FORBIDDEN.search(ln.split("--")[0]):
                failures.append("forbidden token in %s: %s" % (os.path.basename(path), ln.strip()[:80]))
    return obligations, discharged


def import_closure(mod):
    """paths of the project files transitively imported by module `mod` (including itself)"""
    seen, todo, out = set(), [mod], []
    while todo:
        m = todo.pop()
        if m in seen:
            continue
        seen.add(m)
        path = os.path.join(LEAN, *m.split(".")) + ".lean"
        if not os.path.exists(path):
            continue
        out.append(path)
        for ln in open(path):
            mm = re.match(r"\s*import\s+(EoNVerif[\w.]*)", ln)
            if mm:
                todo.append(mm.group(1))
    return out


def proof_audit(pid, thorough=False):
    """Returns dict(obligations, discharged, failures[list of str], theorems[list]).
    obligation = one registered property theorem of Props/<pid>.lean; discharged = it exists, elaborates, and
    depends only on allowed axioms; plus one obligation for the forbidden-token grep."""
    reg = registered_theorems().get(pid, [])
    failures = []
    mod = "EoNVerif.Props.%s" % pid
    # companion modules Props/<pid>b.lean, <pid>c.lean, ... belong to the same property
    extras = registered_extra().get(pid) or []
    if isinstance(extras, dict):
        extras = [extras]
    mods = [mod] + sorted("EoNVerif.Props." + f[:-5] for f in os.listdir(os.path.join(LEAN, "EoNVerif", "Props"))
                          if re.fullmatch(re.escape(pid) + r"[a-z]\.lean", f)
                          and not any(x["module"] == "EoNVerif.Props." + f[:-5] for x in extras))
    p = lake(["build", *mods])
    built = p.returncode == 0
    if not built:
        failures.append("lake build %s failed: %s" % (" ".join(mods), (p.stdout + p.stderr)[-1500:]))
    results = {}
    if built and reg:
        os.makedirs(os.path.join(LEAN, ".audit"), exist_ok=True)
        # one audit file per module (companion modules need not be importable together: Props/C01c uses Mathlib's
        # analysis library, whose class `Dist` clashes with the project's `Dist`); a theorem is looked up in every
        # module and must be found in at least one
        out = ""
        for m_ in mods:
            af = os.path.join(LEAN, ".audit", "Audit_%s.lean" % m_.split(".")[-1])
            with open(af, "w") as f:
                f.write("import %s\n" % m_)
                for t in reg:
                    f.write("#print axioms %s\n" % t)
            p = subprocess.run(["lake", "env", "lean", af], cwd=LEAN, capture_output=True, text=True)
            out += p.stdout + p.stderr
        for t in reg:
            m = re.search(r"'%s' depends on axioms: \[([^\]]*)\]" % re.escape(t), out, re.S)
            if m:
                axs = {a.strip() for a in m.group(1).replace("\n", " ").split(",") if a.strip()}
                results[t] = axs
                bad = axs - ALLOWED_AXIOMS
                if bad:
                    failures.append("theorem %s depends on disallowed axioms %s" % (t, sorted(bad)))
            elif re.search(r"'%s' does not depend on any axioms" % re.escape(t), out):
                results[t] = set()
            else:
                failures.append("theorem %s missing or not elaborating" % t)
    # forbidden tokens (outside comments) in every file the property module transitively imports
    grep_bad = []
    for path in sorted({q for m_ in mods for q in import_closure(m_)}):
        fn = os.path.basename(path)
        src = open(path).read()
        src = re.sub(r"/-.*?-/", "", src, flags=re.S)
        for ln in src.splitlines():
            code = ln.split("--")[0]
            if FORBIDDEN.search(code):
                grep_bad.append("%s: %s" % (fn, ln.strip()[:80]))
    if grep_bad:
        failures.append("forbidden tokens: " + "; ".join(grep_bad[:5]))
    obligations = len(reg) + 1
    discharged = sum(1 for t in reg if t in results and not (results[t] - ALLOWED_AXIOMS)) + (0 if grep_bad else 1)
    # tie by translation: regenerate the generated model from /repo's source, rebuild and audit the gen_* theorems
    # (the modules are independent; regeneration and `lake build` serialise on their file locks, the `#print axioms` runs do not)
    from concurrent.futures import ThreadPoolExecutor
    with ThreadPoolExecutor(max_workers=4) as pool:
        for o, d in pool.map(lambda extra: translation_audit(pid, extra, failures, results), extras):
            obligations += o
            discharged += d
    if thorough and built:
        # (companion modules that could be built in this run, generated-code refinement modules included)
        xmods = [x["module"] for x in extras if os.path.exists(os.path.join(LEAN, ".lake", "build", "lib", "lean", *x["module"].split(".")) + ".olean")]
        p = subprocess.run(["lake", "env", "leanchecker", *mods, *xmods], cwd=LEAN, capture_output=True, text=True)
        obligations += 1
        if p.returncode == 0:
            discharged += 1
        else:
            failures.append("leanchecker %s failed: %s" % (mod, (p.stdout + p.stderr)[-500:]))
    return dict(obligations=obligations, discharged=discharged, failures=failures,
                theorems={t: sorted(a) for t, a in results.items()})


def trace_violation(impl, model):
    """First difference between the implementation's RNG-call trace and the model's, classified.  Up to that call both
    made the same calls with the same arguments and received the same draws, so they are in the same state.  The model's
    clock rate is *proved* equal to the total rate of the specified chain and its candidate lists to the sets implied
    by the statuses (clock_eq / run_inv theorems), hence:
      * both draw a waiting time but with different rates  -> the implementation's clock is not the chain's total rate;
      * both choose from a candidate list but the lists differ as multisets -> the implementation's candidate set is
        not the set implied by the statuses (a mere reordering is not a violation of the law);
      * one side stops / draws a different kind -> no verdict here (returned None; reported as a disagreement).
    Returns a message or None."""
    n = min(len(impl), len(model))
    i = next((k for k in range(n) if impl[k] != model[k]), None)
    if i is None:
        return None
    a, b = impl[i], model[i]
    if a[0] == "e" and b[0] == "e" and a[1] != b[1]:
        return "at RNG call %d the waiting time is drawn with rate %s; the total rate of the specified chain in that state is %s" % (i, a[1], b[1])
    if a[0] == "c" and b[0] == "c":
        ka, kb = sorted(map(repr, a[1])), sorted(map(repr, b[1]))
        if ka != kb:
            return "at RNG call %d the candidates are %s; the set implied by the statuses is %s" % (i, a[1][:12], b[1][:12])
    return None


# ----------------------------------------------------------------------------------------- context
class Ctx:
    def __init__(self, pid, tier, seed):
        self.pid, self.tier, self.seed = pid, tier, seed
        self.rng = _pyrandom.Random(seed * 1000003 + int(pid[1:]))
        self.t0 = time.time()
        self.evaluations = 0
        self.nontrivial = set()
        self.samples = []
        self.hist = {}
        self.violations = []       # (what, replay_obj)  — implementation contradicts the property
        self.disagreements = []    # (stream, replay_obj) — model and implementation differ, property not shown violated
        self.known = []            # KNOWN-FINDING lines
        self.traces = 0
        self.notes = []
        self.thorough = tier == "thorough"
        with open(os.path.join(VERIF, "known_findings.json")) as f:
            self.known_findings = json.load(f)

    def scale(self, quick, thorough):
        return thorough if self.thorough else quick

    def count(self, key, n=1):
        self.hist[key] = self.hist.get(key, 0) + n

    def case(self, canon, nontrivial=True, sample=None):
        """register one evaluated case; canon: any json-able canonical description used for distinctness"""
        self.evaluations += 1
        if nontrivial:
            h = hashlib.sha1(json.dumps(canon, sort_keys=True, default=str).encode()).hexdigest()
            self.nontrivial.add(h)
        if sample is not None and len(self.samples) < 3:
            self.samples.append(sample)

    # ---- findings
    def match_known(self, what, replay):
        for k in self.known_findings.get("known", []):
            if k["property"] != self.pid:
                continue
            m = k["match"]
            if all(replay.get(a) == b for a, b in m.items()):
                return k
        return None

    def violation(self, what, replay):
        # an exception raised by the harness's own RNG proxy (the code called an RNG primitive the tape does not model,
        # e.g. numpy.random.random) is a limit of the correspondence, not a failure of the property
        if "TapeError" in what or "TapeError" in str(replay.get("error", "")):
            self.disagreement("rng-proxy", dict(what=what, detail=replay))
            return
        k = self.match_known(what, replay)
        if k is not None:
            line = "KNOWN-FINDING: property=%s %s" % (self.pid, k["what"])
            if line not in self.known:
                self.known.append(line)
            return
        self.violations.append((what, replay))

    def disagreement(self, stream, replay):
        self.disagreements.append((stream, replay))

    # ---- finish
    def finish(self, audit, extra_cov=None, assumptions=None):
        os.makedirs(os.path.join(VERIF, "replays"), exist_ok=True)
        os.makedirs(os.path.join(VERIF, "evidence"), exist_ok=True)
        lines = []
        exit_code = 0
        try:
            import symu
            if symu.foreign_events:
                self.disagreement("law-enumeration", dict(what="the enumerated code drew from numpy.random (%s, %d times); the exact-law "
                                                               "enumeration controls only the module-level `random`"
                                                               % (sorted(set(symu.foreign_events))[:3], len(symu.foreign_events))))
        except ImportError:
            pass
        for what, rep in self.violations[:5]:
            path = self._write_replay(dict(property=self.pid, kind="violation", what=what, replay=rep))
            lines.append("VIOLATION property=%s replay=%s" % (self.pid, path))
            exit_code = 1
        if not self.violations:
            broken = []
            if audit["failures"]:
                broken.append(("proof-obligations", dict(failures=audit["failures"])))
            for stream, rep in self.disagreements[:3]:
                broken.append(("correspondence:" + stream, rep))
            if broken:
                path = self._write_replay(dict(property=self.pid, kind="unverified",
                                               what="proof obligation or model/implementation correspondence no longer checks; "
                                                    "the failing-input search on the implementation found no input violating the property",
                                               broken=[dict(name=n, detail=r) for n, r in broken]))
                lines.append("VIOLATION property=%s replay=%s no-failing-input-found" % (self.pid, path))
                exit_code = 1
        for l in self.known:
            print(l)
        for l in lines:
            print(l)
        cov = dict(
            obligations=audit["obligations"], discharged=audit["discharged"],
            checker_cmd="cd /verif/lean && lake build EoNVerif.Props.%s && lake env lean .audit/Audit_%s.lean  (#print axioms)%s"
                        % (self.pid, self.pid, " && lake env leanchecker EoNVerif.Props.%s" % self.pid if self.thorough else ""),
            trusted_base=TRUSTED_BASE,
            theorems=audit["theorems"],
            evaluations=self.evaluations, distinct_nontrivial=len(self.nontrivial),
            rule="cases generated from the seeded PRNG; a case counts when the implementation run has at least one event/"
                 "non-trivial branch beyond the initial state; distinct = distinct sha1 of the canonical input",
            samples=self.samples or ["(none)"],
            traces_validated_against_impl=self.traces,
            input_distribution=self.hist,
            disagreements=len(self.disagreements),
            known_findings=self.known,
            notes=self.notes,
        )
        if extra_cov:
            cov.update(extra_cov)
        ev = dict(property_id=self.pid, tier=self.tier, seed=self.seed, level="proof", coverage=cov,
                  assumptions=(assumptions or []) + TRUSTED_BASE, wall_s=round(time.time() - self.t0, 2),
                  violations=len(self.violations) + (1 if exit_code and not self.violations else 0))
        with open(os.path.join(VERIF, "evidence", "%s.json" % self.pid), "w") as f:
            json.dump(ev, f, indent=1, default=str)
        print("%s %s: evaluations=%d distinct_nontrivial=%d obligations=%d/%d disagreements=%d violations=%d wall=%.1fs"
              % (self.pid, self.tier, self.evaluations, len(self.nontrivial), audit["discharged"], audit["obligations"],
                 len(self.disagreements), len(self.violations), time.time() - self.t0))
        return exit_code

    def _write_replay(self, obj):
        h = hashlib.sha1(json.dumps(obj, sort_keys=True, default=str).encode()).hexdigest()[:12]
        path = os.path.join(VERIF, "replays", "%s-%s.json" % (self.pid, h))
        with open(path, "w") as f:
            json.dump(obj, f, indent=1, default=str)
        return path
