"""C08 — ODE models are exact where theory says so (end-to-end comparison on the real solvers; limit identities of the
right-hand sides are in Props/C08.lean).
* SIR_pair_based_pure_IC vs the exact master equation (3^N-state chain, matrix exponential) on trees, with edge and
  node weights;
* Attack_rate_cts_time == t->inf limit of EBCM; Attack_rate_discrete == limit of EBCM_discrete; EBCM_discrete has
  R(t+1) = R(t) + I(t);
* tau = 0: I(t) = I(0) exp(-gamma t), S constant, for every model; gamma = 0: SIS and SIR versions share S(t)."""
import itertools
import numpy as np, networkx as nx
from scipy.linalg import expm
import common, odes


def master_equation(G, nodes, tau, gamma, ew, nw, infs, recs, times):
    """expected S, I, R of the exact SIR chain on graph G (N small)"""
    N = len(nodes)
    idx = {u: i for i, u in enumerate(nodes)}
    states = list(itertools.product((0, 1, 2), repeat=N))
    sid = {s: i for i, s in enumerate(states)}
    Q = np.zeros((len(states), len(states)))
    for s in states:
        a = sid[s]
        for i, u in enumerate(nodes):
            if s[i] == 1:
                r = gamma * nw(u)
                t = list(s); t[i] = 2
                Q[a, sid[tuple(t)]] += r; Q[a, a] -= r
                for v in G.neighbors(u):
                    j = idx[v]
                    if s[j] == 0:
                        r = tau * ew(u, v)
                        t = list(s); t[j] = 1
                        Q[a, sid[tuple(t)]] += r; Q[a, a] -= r
    s0 = tuple(1 if u in infs else (2 if u in recs else 0) for u in nodes)
    p0 = np.zeros(len(states)); p0[sid[s0]] = 1
    cnt = np.array([[s.count(x) for x in (0, 1, 2)] for s in states], dtype=float)
    out = []
    for t in times:
        p = p0 @ expm(Q * t)
        out.append(p @ cnt)
    return np.array(out).T


def trees(ctx):
    import EoN
    for k in range(ctx.scale(60, 300)):
        n = ctx.rng.randint(2, ctx.scale(5, 6))
        # node names: integers, permuted integers or strings; insertion order independent of the names
        labkind = ["int", "perm", "str"][k % 3]
        names = list(range(n))
        if labkind == "perm":
            ctx.rng.shuffle(names)
        elif labkind == "str":
            names = ["n%d" % ((7 * i + 3) % 11) for i in range(n)]
        G = nx.Graph()
        G.add_nodes_from(names)
        for i in range(1, n):
            G.add_edge(names[ctx.rng.randrange(i)], names[i])
        weighted = ctx.rng.random() < 0.65
        kw = {}
        if weighted:
            for u, v in G.edges():
                G.edges[u, v]["w"] = ctx.rng.choice([0.5, 1.0, 2.0])
            for u in G:
                G.nodes[u]["r"] = ctx.rng.choice([0.5, 1.0, 2.0])
            kw = dict(transmission_weight="w", recovery_weight="r")
        nodes = list(G)
        infs = ctx.rng.sample(nodes, ctx.rng.randint(1, min(3, n)))       # several seeds: a susceptible node flanked by infectious ones
        rest = [u for u in nodes if u not in infs]
        recs = ctx.rng.sample(rest, 1) if (rest and ctx.rng.random() < 0.3) else []
        tau, gamma = ctx.rng.choice([(1.0, 1.0), (2.0, 0.5), (0.5, 1.0)])
        times = np.linspace(0, 3, 7)
        # caller-supplied nodelist: absent, graph order, or an arbitrary order of the same nodes
        nlkind = ["none", "shuffled", "graph", "shuffled"][(k // 3) % 4]
        if nlkind == "shuffled":
            kw["nodelist"] = ctx.rng.sample(nodes, len(nodes))
        elif nlkind == "graph":
            kw["nodelist"] = list(nodes)
        ctx.count("trees:labels=%s,nodelist=%s" % (labkind, nlkind))
        rep = dict(entry="SIR_pair_based_pure_IC", stream="tree-exactness", n=n, edges=list(map(list, G.edges())), weighted=weighted,
                   nodelist=kw.get("nodelist"),
                   weights=dict(edge=[G.edges[e].get("w") for e in G.edges()], node=[G.nodes[u].get("r") for u in G]),
                   infs=infs, recs=recs, tau=tau, gamma=gamma)
        ctx.case(rep, nontrivial=n > 2, sample=rep)
        ctx.count("trees:n=%d" % n)
        try:
            res = EoN.SIR_pair_based_pure_IC(G, tau, gamma, infs, initial_recovereds=recs or None, tmin=0, tmax=3, tcount=7, **kw)
        except Exception as e:
            ctx.violation("SIR_pair_based_pure_IC raised %s on a tree" % type(e).__name__, dict(rep, error=type(e).__name__))
            continue
        ew = (lambda u, v: G.edges[u, v]["w"]) if weighted else (lambda u, v: 1.0)
        nw = (lambda u: G.nodes[u]["r"]) if weighted else (lambda u: 1.0)
        exact = master_equation(G, nodes, tau, gamma, ew, nw, set(infs), set(recs), times)
        got = np.array([np.asarray(x, dtype=float) for x in res[1:4]])
        d = float(np.max(np.abs(got - exact)))
        if not np.isfinite(d) or d > 2e-5 * max(1, n):
            ctx.violation("SIR_pair_based_pure_IC differs from the exact master-equation expectation on a tree: max |diff| = %.3g" % d,
                          dict(rep, maxdiff=d))
            continue
        # the same graph object again after its weights were edited in place through the networkx views (item assignment
        # does not go through add_edge / set_*_attributes): exactness is a statement about the graph as it is now
        if weighted and k % 2 == 0:
            edits = []
            for u, v in G.edges():
                if ctx.rng.random() < 0.6:
                    G[u][v]["w"] = ctx.rng.choice([0.25, 1.5, 4.0]); edits.append(["edge", u, v, G[u][v]["w"]])
            for u in G:
                if ctx.rng.random() < 0.4:
                    G.nodes[u]["r"] = ctx.rng.choice([0.25, 1.5, 4.0]); edits.append(["node", u, G.nodes[u]["r"]])
            if not edits:
                e0 = next(iter(G.edges()))
                G.edges[e0]["w"] = 4.0; edits.append(["edge", e0[0], e0[1], 4.0])
            rep2 = dict(rep, stream="tree-exactness:same-object-after-in-place-weight-edit", edits=edits,
                        weights=dict(edge=[G.edges[e].get("w") for e in G.edges()], node=[G.nodes[u].get("r") for u in G]))
            ctx.case(rep2, nontrivial=True)
            ctx.count("trees:in-place-edit")
            try:
                res = EoN.SIR_pair_based_pure_IC(G, tau, gamma, infs, initial_recovereds=recs or None, tmin=0, tmax=3, tcount=7, **kw)
            except Exception as e:
                ctx.violation("SIR_pair_based_pure_IC raised %s on a tree (second call on the same object)" % type(e).__name__,
                              dict(rep2, error=type(e).__name__))
                continue
            exact = master_equation(G, nodes, tau, gamma, ew, nw, set(infs), set(recs), times)
            got = np.array([np.asarray(x, dtype=float) for x in res[1:4]])
            d = float(np.max(np.abs(got - exact)))
            if not np.isfinite(d) or d > 2e-5 * max(1, n):
                ctx.violation("SIR_pair_based_pure_IC differs from the exact master-equation expectation on a tree whose weights "
                              "were edited in place after an earlier call: max |diff| = %.3g" % d, dict(rep2, maxdiff=d))


def final_sizes(ctx):
    import EoN
    for k in range(ctx.scale(8, 60)):
        seed = ctx.rng.randrange(10 ** 6)
        n = ctx.rng.randint(20, 50)
        G = nx.gnp_random_graph(n, 5.0 / n, seed=seed) if ctx.rng.random() < 0.6 else nx.barabasi_albert_graph(n, 2, seed=seed)
        N = G.order()
        rho = ctx.rng.choice([0.05, 0.1, 0.2])
        tau, gamma = ctx.rng.choice([(0.6, 1.0), (1.0, 1.0), (2.0, 0.5)])
        p = ctx.rng.choice([0.3, 0.5, 0.8])
        rep = dict(entry="final-size", graph=dict(n=N, seed=seed), rho=rho, tau=tau, gamma=gamma, p=p)
        ctx.case(rep, nontrivial=True)
        ctx.count("final-size")
        try:
            A = EoN.Attack_rate_cts_time_from_graph(G, tau, gamma, rho=rho, number_its=400)
            t, S, I, R = EoN.EBCM_from_graph(G, tau, gamma, rho=rho, tmax=150, tcount=4)
            lim = (N - S[-1]) / N
            if abs(A - lim) > 1e-5:
                ctx.violation("Attack_rate_cts_time (%.8f) differs from the t->inf limit of EBCM (%.8f)" % (A, lim), dict(rep, attack=A, ebcm=lim))
            Ad = EoN.Attack_rate_discrete_from_graph(G, p, rho=rho, number_its=400)
            td, Sd, Id, Rd = EoN.EBCM_discrete_from_graph(G, p, rho=rho, tmax=150)
            limd = (N - Sd[-1]) / N
            if abs(Ad - limd) > 1e-6:
                ctx.violation("Attack_rate_discrete (%.8f) differs from the limit of EBCM_discrete (%.8f)" % (Ad, limd), dict(rep, attack=Ad, ebcm=limd))
            if np.max(np.abs(Rd[1:] - (Rd[:-1] + Id[:-1]))) > 1e-9 * N:
                ctx.violation("EBCM_discrete: R(t+1) != R(t) + I(t)", rep)
            # the same graph OBJECT after its edges have been moved in place (node and edge counts unchanged, degree
            # distribution changed): the final sizes are those of the graph as it is now = those of a fresh copy
            es, moved = list(G.edges()), 0
            ctx.rng.shuffle(es)
            hub = max(G, key=G.degree)
            for (u, v) in es[:max(3, len(es) // 3)]:
                w = u if u != hub else v
                if w != hub and not G.has_edge(hub, w) and G.degree(w) > 1:
                    G.remove_edge(u, v)
                    G.add_edge(hub, w)
                    moved += 1
            if moved:
                H = nx.Graph(G)
                ctx.count("final-size:rewired in place")
                A2, A2c = EoN.Attack_rate_cts_time_from_graph(G, tau, gamma, rho=rho, number_its=400), EoN.Attack_rate_cts_time_from_graph(H, tau, gamma, rho=rho, number_its=400)
                D2, D2c = EoN.Attack_rate_discrete_from_graph(G, p, rho=rho, number_its=400), EoN.Attack_rate_discrete_from_graph(H, p, rho=rho, number_its=400)
                S2, S2c = EoN.EBCM_discrete_from_graph(G, p, rho=rho, tmax=60)[1][-1], EoN.EBCM_discrete_from_graph(H, p, rho=rho, tmax=60)[1][-1]
                if abs(A2 - A2c) > 1e-9 or abs(D2 - D2c) > 1e-9 or abs(S2 - S2c) > 1e-9 * N:
                    ctx.violation("final sizes of a graph object whose edges were moved in place differ from those of a fresh copy of the same graph "
                                  "(cts %.8f vs %.8f, discrete %.8f vs %.8f)" % (A2, A2c, D2, D2c), dict(rep, moved=moved, edges=[list(e) for e in G.edges()]))
        except Exception as e:
            ctx.violation("final-size relations: %s raised" % type(e).__name__, dict(rep, error=type(e).__name__ + ":" + str(e)[:80]))
    # the same relations when the initial condition is given as node sets (the wrappers then compute Sk0, phiS0, phiR0
    # from the graph), including structured cases where NO susceptible node has a susceptible neighbour (phiS0 = 0
    # exactly: star with the centre infected, one side of a complete bipartite graph infected / recovered, a cycle whose
    # susceptibles sit between infected and recovered nodes) or where every neighbour of a susceptible is recovered
    for k in range(ctx.scale(10, 80)):
        kind = ["star-centre", "bipartite-side", "bipartite-mixed", "cycle-alternating", "star-leaf", "random", "random+recs"][k % 7]
        seed = ctx.rng.randrange(10 ** 6)
        recs = []
        if kind in ("star-centre", "star-leaf"):
            m = ctx.rng.randint(4, 12)
            G = nx.star_graph(m)
            infs = [0] if kind == "star-centre" else [1]
        elif kind.startswith("bipartite"):
            a, b = ctx.rng.randint(2, 5), ctx.rng.randint(3, 9)
            G = nx.complete_bipartite_graph(a, b)
            side = list(range(a))
            if kind == "bipartite-side":
                infs = side
            else:
                cut = ctx.rng.randint(1, a - 1)
                infs, recs = side[:cut], side[cut:]
        elif kind == "cycle-alternating":
            m = ctx.rng.randint(3, 8)
            G = nx.cycle_graph(2 * m)
            odd = list(range(1, 2 * m, 2))
            infs, recs = odd[::2], odd[1::2]
        else:
            n = ctx.rng.randint(20, 40)
            G = nx.gnp_random_graph(n, 5.0 / n, seed=seed)
            nodes = list(G)
            ctx.rng.shuffle(nodes)
            infs = nodes[:ctx.rng.randint(1, 4)]
            if kind == "random+recs":
                recs = nodes[4:4 + ctx.rng.randint(1, 4)]
            if ctx.rng.random() < 0.6:
                # isolated nodes that stay susceptible for ever: they count in N and in S(t) of the dynamic model exactly as in
                # the final-size relation (a degree-0 class in both)
                extra = ctx.rng.randint(1, 6)
                G.add_nodes_from(range(n, n + extra))
                ctx.count("final-size:isolated susceptible nodes")
        N = G.order()
        tau, gamma = ctx.rng.choice([(0.6, 1.0), (1.0, 1.0), (2.0, 0.5)])
        p = ctx.rng.choice([0.3, 0.5, 0.8])
        rep = dict(entry="final-size", ic=kind, graph=dict(n=N, seed=seed, edges=[list(e) for e in G.edges()]), infs=infs, recs=recs, tau=tau, gamma=gamma, p=p)
        ctx.case(rep, nontrivial=True)
        ctx.count("final-size:" + kind)
        kw = dict(initial_infecteds=infs)
        if recs:
            kw["initial_recovereds"] = recs
        try:
            A = EoN.Attack_rate_cts_time_from_graph(G, tau, gamma, number_its=600, **kw)
            t, S, I, R = EoN.EBCM_from_graph(G, tau, gamma, tmax=200, tcount=4, **kw)
            lim = (N - S[-1]) / N
            if abs(A - lim) > 1e-5:
                ctx.violation("Attack_rate_cts_time_from_graph (%.8f) differs from the t->inf limit of EBCM_from_graph (%.8f) for the same initial sets" % (A, lim), dict(rep, attack=A, ebcm=lim))
            Ad = EoN.Attack_rate_discrete_from_graph(G, p, number_its=600, **kw)
            td, Sd, Id, Rd = EoN.EBCM_discrete_from_graph(G, p, tmax=200, **kw)
            limd = (N - Sd[-1]) / N
            if abs(Ad - limd) > 1e-6:
                ctx.violation("Attack_rate_discrete_from_graph (%.8f) differs from the limit of EBCM_discrete_from_graph (%.8f) for the same initial sets" % (Ad, limd), dict(rep, attack=Ad, ebcm=limd))
        except Exception as e:
            ctx.violation("final-size relations (initial sets): %s raised" % type(e).__name__, dict(rep, error=type(e).__name__ + ":" + str(e)[:80]))


def limits(ctx):
    families = ["homogeneous_meanfield_from_graph", "homogeneous_pairwise_from_graph", "heterogeneous_meanfield_from_graph",
                "compact_pairwise_from_graph", "effective_degree_from_graph", "individual_based", "pair_based",
                "heterogeneous_pairwise_from_graph"]
    for name, e in odes.E.items():
        if e["scalar"] or e["discrete"]:
            continue
        for k in range(ctx.scale(2, 10)):
            G, gkind = odes.graph(ctx.rng, small=e["small"])
            N = G.order()
            if name.startswith("SIS_super_compact") and len(set(dict(G.degree()).values())) == 1:
                continue
            style = e["ic"][k % len(e["ic"])]
            kw, desc = odes.ic_kwargs(name, style, G, ctx.rng)
            gamma = ctx.rng.choice([0.5, 1.0, 2.0])
            rep = dict(entry=name, stream="tau=0", graph=dict(kind=gkind, n=N), ic=style, gamma=gamma)
            ctx.case(rep, nontrivial=True)
            ctx.count("tau0")
            # the report window starts at 0, after 0 or before 0: the limit is I(tmin) exp(-gamma (t - tmin))
            t0 = ([0, 0, 2, -1] if e["discrete"] else [0.0, 1.5, -2.0, 0.0])[k % 4]
            rep["tmin"] = t0
            try:
                res = odes.call(name, G, kw, 0.0, gamma, t0, t0 + (3 if e["discrete"] else 3.0), 7, False)
                t, S, I, R, d = odes.sir_curves(name, res, False)
            except Exception as ex:
                ctx.violation("%s raised %s with tau=0" % (name, type(ex).__name__), dict(rep, error=type(ex).__name__))
                continue
            want = I[0] * np.exp(-gamma * (t - t[0]))
            # SIR: S constant.  SIS: recovering nodes return to S, so the matching statement is S = N - I.
            Swant = S[0] * np.ones_like(S) if e["sir"] else (S[0] + I[0]) - want
            # (odeint's default rtol/atol of 1.5e-8 apply per component and per step; the sum over N node-level components
            # was seen 5.1e-6 off on a thorough run with N = 5: 1e-5 N is "to solver tolerance", a wrong rate is >= 1e-2 off)
            if np.max(np.abs(I - want)) > 1e-5 * N or np.max(np.abs(S - Swant)) > 1e-5 * N:
                ctx.violation("%s with tau=0: I(t) is not I(0)exp(-gamma t) with S constant (max dev %.3g / %.3g)" % (
                    name, float(np.max(np.abs(I - want))), float(np.max(np.abs(S - S[0])))), rep)
    for fam in families:
        for k in range(ctx.scale(2, 10)):
            small = fam == "pair_based"
            G, gkind = odes.graph(ctx.rng, small=small)
            N = G.order()
            rho = ctx.rng.choice([0.1, 0.25])
            tau = ctx.rng.choice([0.5, 1.0])
            tmax = 1.0 if fam.startswith("heterogeneous_pairwise") else 3.0    # known finding: het. pairwise is unstable as S->0 with gamma=0
            rep = dict(entry=fam, stream="gamma=0", graph=dict(kind=gkind, n=N), rho=rho, tau=tau)
            ctx.case(rep, nontrivial=True)
            ctx.count("gamma0")
            t0 = [0.0, 1.5, -2.0][k % 3]
            rep["tmin"] = t0
            try:
                a = odes.call("SIS_" + fam, G, dict(rho=rho), tau, 0.0, t0, t0 + tmax, 7, False)
                b = odes.call("SIR_" + fam, G, dict(rho=rho), tau, 0.0, t0, t0 + tmax, 7, False)
                Sa = odes.sir_curves("SIS_" + fam, a, False)[1]
                Sb = odes.sir_curves("SIR_" + fam, b, False)[1]
            except Exception as ex:
                ctx.violation("%s raised %s with gamma=0" % (fam, type(ex).__name__), dict(rep, error=type(ex).__name__))
                continue
            dmax = float(np.max(np.abs(Sa - Sb)))
            if not np.isfinite(dmax) or dmax > 1e-4 * N:
                ctx.violation("gamma=0: SIS_%s and SIR_%s give different S(t) (max diff %.3g)" % (fam, fam, dmax), dict(rep, maxdiff=dmax))


def run(ctx):
    trees(ctx)
    final_sizes(ctx)
    limits(ctx)
    import genhelp
    genhelp.run_stream(ctx, "final")
