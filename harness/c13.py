"""C13 — fast_nonMarkov_SIS follows the plain reference semantics.
The real simulator is run with table rules (durations and ascending delay lists per (node, k-th infection)); its
status-change log (from node histories) and transmissions are compared with (a) the Lean *reference* agenda semantics
evaluated on the same tables — the property; cases with simultaneous events are skipped as the property excludes
them — and (b) the Lean model of the lazy chained-attempt queue (correspondence)."""
from fractions import Fraction as F
import json
import common, allsims, gen
from predchecks import strip


def changes_from_history(hist, tmin):
    """[(t, node, becomes_infected)] sorted by time; the initial 'I' entries count as infections at tmin"""
    ch = []
    for v, h in enumerate(hist):
        for i, (t, s) in enumerate(h):
            if i == 0 and s == "S":
                continue
            ch.append([t, v, s == "I"])
    ch.sort(key=lambda e: (F(e[0]),))
    return ch


def canon(log, tmin):
    """time-ordered; simultaneous entries in a canonical order (the histories do not record their relative order)"""
    return sorted(log, key=lambda e: (F(e[0]), json.dumps(e[1:])))


def run(ctx):
    drv = common.LeanDriver()
    reqs, metas = [], []
    for k in range(ctx.scale(1000, 6000)):
        c = allsims.gen_case(ctx.rng, "fast_nonMarkov_SIS", nmax=ctx.scale(7, 8))
        if c["init"]["kind"] not in ("list", "single"):
            c["init"] = dict(kind="list", nodes=[0])
        if k % 5 == 0:
            # contract-violating but allowed by the reference semantics: delays beyond the duration
            c["delay"] = [[u, v, [[str(F(x) * 3) for x in l] for l in per]] for u, v, per in c["delay"]]
        full, G, idx = allsims.run_impl(c, rng=ctx.rng, full=True)
        plain, _, _ = allsims.run_impl(c, rng=ctx.rng, full=False)
        rep = dict(entry="fast_nonMarkov_SIS", case=strip(c))
        if not (full["ok"] and plain["ok"]):
            ctx.case(rep, nontrivial=False)
            ctx.violation("fast_nonMarkov_SIS raised %s" % (full.get("err") or plain.get("err")), dict(rep, tb=full.get("tb") or plain.get("tb")))
            continue
        li = full["lab_index"]
        infs, _ = allsims.requested_init(c, full)
        dur = [None] * c["n"]
        for i, d in enumerate(c["dur"]):
            dur[li[i]] = d
        reqs.append(dict(op="esis", n=c["n"], adj=gen.adj_lists(G, idx), tmin=c["tmin"], tmax=c["tmax"], infs=infs, dur=dur,
                         delay=[[li[u], li[v], per] for u, v, per in c["delay"]], fuel=20000))
        metas.append((rep, full, plain, c))
        ctx.count("joint" if c["joint"] else "separate")
    for (rep, full, plain, c), m in zip(metas, drv.batch(reqs)):
        ctx.traces += 1
        if not m.get("ok"):
            ctx.disagreement("esis-driver", dict(rep, model=m))
            continue
        impl_log = changes_from_history(full["history"], c["tmin"])
        nontriv = len(impl_log) > len(full["transmissions"]) and len(full["transmissions"]) > 1
        ctx.case(rep, nontrivial=nontriv and m["distinct"], sample=dict(rep, log=impl_log[:6]))
        ctx.count("events", len(impl_log))
        ctx.count("reinfections", sum(1 for v, h in enumerate(full["history"]) if sum(1 for t, s in h if s == "I") > 1))
        if m["ref_left"] != 0 or m["queue_left"] != 0:
            ctx.disagreement("esis-fuel", rep)
            continue
        if not m["distinct"]:
            ctx.count("skipped:simultaneous-events")
        else:
            if canon(impl_log, c["tmin"]) != canon(m["ref_log"], c["tmin"]) or \
               canon(full["transmissions"], c["tmin"]) != canon(m["ref_trans"], c["tmin"]):
                ctx.violation("fast_nonMarkov_SIS history differs from the reference semantics (every listed attempt is made; it infects iff the target is susceptible)",
                              dict(rep, impl_log=impl_log, ref_log=m["ref_log"], impl_trans=full["transmissions"], ref_trans=m["ref_trans"]))
                continue
            # arrays: one row per change after the initial row
            S0 = c["n"] - len([e for e in impl_log if F(e[0]) == F(c["tmin"])])
        if canon(impl_log, c["tmin"]) != canon(m["log"], c["tmin"]) or canon(full["transmissions"], c["tmin"]) != canon(m["trans"], c["tmin"]):
            ctx.disagreement("esis-lazy-queue-model", dict(rep, impl_log=impl_log[:30], model_log=m["log"][:30]))
        # arrays vs log (C10-style, cheap here): I column follows the log
        I = [col for col in plain["cols"]][1]
        if len(plain["times"]) != len(I):
            ctx.violation("fast_nonMarkov_SIS arrays of different lengths", dict(rep, arrays=plain))
