import EoNVerif.Proofs.EventSIS
import Mathlib.Data.List.Perm.Basic
import Mathlib.Data.List.Count
/-!
Helper lemmas for C13, part 2: the reference semantics (`refStep`), the expansion of a lazy queue entry into the
agenda entries it stands for, and the stuttering simulation between the lazy queue and the reference agenda.
-/
namespace EventSIS

/-! ### more about `gpop` -/

/-- converse of `gpop_some`: the first element of minimal time is popped -/
theorem gpop_of_min {α : Type} (tm : α → Rat) {q l1 l2 : List α} {x : α} (hq : q = l1 ++ x :: l2)
    (h1 : ∀ y ∈ l1, tm x < tm y) (h2 : ∀ y ∈ l2, tm x ≤ tm y) : gpop tm q = some (x, l1 ++ l2) := by
  cases h0 : gpop tm q with
  | none => have := gpop_none tm h0; subst this; simp at hq
  | some p =>
    obtain ⟨x', q'⟩ := p
    obtain ⟨l1', l2', g0, g1, g2, g3⟩ := gpop_some tm h0
    have heq : l1 ++ x :: l2 = l1' ++ x' :: l2' := by rw [← hq, ← g0]
    rcases List.append_eq_append_iff.1 heq with ⟨a', ha1, ha2⟩ | ⟨c', hc1, hc2⟩
    · -- l1' = l1 ++ a'
      cases a' with
      | nil =>
        simp at ha1 ha2
        obtain ⟨rfl, rfl⟩ := ha2
        subst ha1 g1; rfl
      | cons z a' =>
        simp at ha2
        obtain ⟨rfl, rfl⟩ := ha2
        have ha := g2 x (by rw [ha1]; simp)
        have hb := h2 x' (by simp)
        linarith
    · cases c' with
      | nil =>
        simp at hc1 hc2
        obtain ⟨rfl, rfl⟩ := hc2
        subst hc1 g1; rfl
      | cons z c' =>
        simp at hc2
        obtain ⟨rfl, rfl⟩ := hc2
        have ha := h1 x' (by rw [hc1]; simp)
        have hb := g3 x (by simp)
        linarith

/-! ### the reference semantics, explicitly -/

def attemptsOf (tmax : Rat) (src : Option Node) (v : Node) (tt : List Rat) : List AItem :=
  (tt.filter (fun t => t < tmax)).map (fun t => ⟨t, AEv.attempt src v⟩)

/-- agenda entries created by infecting `v` at `t` for the `k`-th time -/
def refNew (P : SSParams) (k : Nat) (t : Rat) (v : Node) : List AItem :=
  (if t + P.dur v k < P.tmax then [⟨t + P.dur v k, AEv.recov v⟩] else []) ++
    (P.nbrs v).flatMap (fun w => attemptsOf P.tmax (some v) w ((P.delays v w k).map fun d => t + d))

theorem fold_aadd (tmax t : Rat) (src : Option Node) (w : Node) (ds : List Rat) (q : List AItem) :
    ds.foldl (fun q d => aadd tmax q (t + d) (AEv.attempt src w)) q =
      q ++ attemptsOf tmax src w (ds.map fun d => t + d) := by
  induction ds generalizing q with
  | nil => simp [attemptsOf]
  | cons d ds ih =>
    rw [List.foldl_cons, ih, aadd_eq]
    simp only [attemptsOf, List.map_cons, List.filter_cons]
    by_cases hlt : t + d < tmax <;> simp [hlt]

theorem refInfect_agenda (P : SSParams) (s : RefState) (t : Rat) (src : Option Node) (v : Node) :
    (refInfect P s t src v).agenda = s.agenda ++ refNew P (s.count v) t v := by
  simp only [refInfect, refNew]
  have : ∀ (l : List Node) (q : List AItem),
      l.foldl (fun q w => (P.delays v w (s.count v)).foldl
          (fun q d => aadd P.tmax q (t + d) (AEv.attempt (some v) w)) q) q =
        q ++ l.flatMap (fun w => attemptsOf P.tmax (some v) w ((P.delays v w (s.count v)).map fun d => t + d)) := by
    intro l
    induction l with
    | nil => intro q; simp
    | cons w l ih => intro q; rw [List.foldl_cons, ih, fold_aadd]; simp
  rw [this, aadd_eq, List.append_assoc]

theorem refStep_cases {P : SSParams} {r r' : RefState} (h : refStep P r = some r') :
    ∃ x a1 a2, r.agenda = a1 ++ x :: a2 ∧ (∀ y ∈ a1, x.time < y.time) ∧ (∀ y ∈ a2, x.time ≤ y.time) ∧
      ((∃ u, x.ev = AEv.recov u ∧
          r' = { inf := fset r.inf u false, count := r.count, agenda := a1 ++ a2,
                 log := (x.time, u, false) :: r.log, trans := r.trans, seen := x.time :: r.seen }) ∨
       (∃ src v, x.ev = AEv.attempt src v ∧ r.inf v = true ∧
          r' = { inf := r.inf, count := r.count, agenda := a1 ++ a2, log := r.log, trans := r.trans,
                 seen := x.time :: r.seen }) ∨
       (∃ src v, x.ev = AEv.attempt src v ∧ r.inf v = false ∧
          r' = { inf := fset r.inf v true, count := fset r.count v (r.count v + 1),
                 agenda := a1 ++ a2 ++ refNew P (r.count v) x.time v,
                 log := (x.time, v, true) :: r.log, trans := (x.time, src, v) :: r.trans,
                 seen := x.time :: r.seen })) := by
  unfold refStep at h
  split at h
  · simp at h
  · rename_i x q hp
    rw [apop_eq] at hp
    obtain ⟨a1, a2, h1, h2, h3, h4⟩ := gpop_some _ hp
    subst h2
    refine ⟨x, a1, a2, h1, h3, h4, ?_⟩
    split at h
    · rename_i src v hev
      right
      simp only at h
      split at h
      · rename_i hi
        left
        refine ⟨src, v, hev, hi, ?_⟩
        simp at h; rw [← h]
      · rename_i hi
        right
        refine ⟨src, v, hev, by simpa using hi, ?_⟩
        simp at h; rw [← h]
        have := refInfect_agenda P { r with agenda := a1 ++ a2, seen := x.time :: r.seen } x.time src v
        simp only at this
        simp only [refInfect] at this ⊢
        rw [this]
    · rename_i u hev
      left
      refine ⟨u, hev, ?_⟩
      simp at h; rw [← h]

theorem refStep_none {P : SSParams} {r : RefState} (h : refStep P r = none) : r.agenda = [] := by
  unfold refStep at h
  split at h
  · rename_i hp; rw [apop_eq] at hp; exact gpop_none _ hp
  · split at h
    · simp only at h; split at h <;> simp at h
    · simp at h

/-! ### distinct event times -/

/-- times of all executed and all pending agenda entries -/
def timesOf (r : RefState) : List Rat := r.seen ++ r.agenda.map (fun a => a.time)

/-- no two (executed or pending) agenda entries after `tmin` share a time -/
def Dst (P : SSParams) (r : RefState) : Prop := ∀ t, t ≠ P.tmin → (timesOf r).count t ≤ 1

theorem refStep_count_mono {P : SSParams} {r r' : RefState} (h : refStep P r = some r') (t : Rat) :
    (timesOf r).count t ≤ (timesOf r').count t := by
  obtain ⟨x, a1, a2, hq, _, _, hc⟩ := refStep_cases h
  rcases hc with ⟨u, _, rfl⟩ | ⟨src, v, _, _, rfl⟩ | ⟨src, v, _, _, rfl⟩ <;>
    simp only [timesOf, hq, List.map_append, List.map_cons, List.count_append, List.count_cons] <;> omega

theorem refLoop_count {P : SSParams} (n : Nat) (r : RefState) (hfin : (refLoop P n r).agenda = []) (t : Rat) :
    (timesOf r).count t ≤ (refLoop P n r).seen.count t := by
  induction n generalizing r with
  | zero =>
    simp only [refLoop] at hfin ⊢
    simp [timesOf, hfin]
  | succ n ih =>
    simp only [refLoop] at hfin ⊢
    split
    · rename_i h0
      have := refStep_none h0
      simp [timesOf, this]
    · rename_i r' h0
      rw [h0] at hfin
      exact le_trans (refStep_count_mono h0 t) (ih r' hfin)

theorem distinct_count {tmin : Rat} {seen : List Rat} (h : distinctTimes tmin seen = true) {t : Rat} (ht : t ≠ tmin) :
    seen.count t ≤ 1 := by
  unfold distinctTimes at h
  simp only [List.all_eq_true] at h
  have h1 : (seen.filter (· != tmin)).count t = seen.count t := List.count_filter (by simpa using ht)
  rw [← h1]
  by_cases hm : t ∈ seen.filter (· != tmin)
  · have := h t hm
    rw [List.count_eq_length_filter]
    have h2 : ((seen.filter (· != tmin)).filter (· == t)).length = 1 := by simpa using this
    omega
  · rw [List.count_eq_zero.2 hm]; omega

theorem Dst_of_final {P : SSParams} {n : Nat} {r : RefState} (hfin : (refLoop P n r).agenda = [])
    (hd : distinctTimes P.tmin (refLoop P n r).seen = true) : Dst P r :=
  fun t ht => le_trans (refLoop_count n r hfin t) (distinct_count hd ht)

/-- two different positions of a list with the same key -/
theorem count_two {α : Type} (f : α → Rat) {l l1 l2 : List α} {a b : α} {t : Rat} (hl : l = l1 ++ a :: l2)
    (hb : b ∈ l1 ++ l2) (ha : f a = t) (hb' : f b = t) : 2 ≤ (l.map f).count t := by
  subst hl
  simp only [List.map_append, List.map_cons, List.count_append, List.count_cons, ha, beq_self_eq_true, if_true]
  rcases List.mem_append.1 hb with hb | hb
  · have : 1 ≤ (l1.map f).count t := List.one_le_count_iff.2 (List.mem_map.2 ⟨b, hb, hb'⟩)
    omega
  · have : 1 ≤ (l2.map f).count t := List.one_le_count_iff.2 (List.mem_map.2 ⟨b, hb, hb'⟩)
    omega

/-- two members of a split list with the same key -/
theorem count_two_append {α : Type} (f : α → Rat) {l1 l2 : List α} {a b : α} {t : Rat}
    (ha : a ∈ l1) (hb : b ∈ l2) (ha' : f a = t) (hb' : f b = t) : 2 ≤ ((l1 ++ l2).map f).count t := by
  simp only [List.map_append, List.count_append]
  have : 1 ≤ (l1.map f).count t := List.one_le_count_iff.2 (List.mem_map.2 ⟨a, ha, ha'⟩)
  have : 1 ≤ (l2.map f).count t := List.one_le_count_iff.2 (List.mem_map.2 ⟨b, hb, hb'⟩)
  omega

/-- members of the images of two different positions with the same key -/
theorem count_two_flatMap {α β : Type} (g : α → List β) (f : β → Rat) {l l1 l2 : List α} {y z : α} {a b : β}
    {t : Rat} (hl : l = l1 ++ y :: l2) (hz : z ∈ l1 ++ l2) (ha : a ∈ g y) (hb : b ∈ g z)
    (ha' : f a = t) (hb' : f b = t) : 2 ≤ ((l.flatMap g).map f).count t := by
  subst hl
  simp only [List.flatMap_append, List.flatMap_cons, List.map_append, List.count_append]
  have h1 : 1 ≤ ((g y).map f).count t := List.one_le_count_iff.2 (List.mem_map.2 ⟨a, ha, ha'⟩)
  rcases List.mem_append.1 hz with hz | hz
  · have : 1 ≤ ((l1.flatMap g).map f).count t :=
      List.one_le_count_iff.2 (List.mem_map.2 ⟨b, List.mem_flatMap.2 ⟨z, hz, hb⟩, hb'⟩)
    omega
  · have : 1 ≤ ((l2.flatMap g).map f).count t :=
      List.one_le_count_iff.2 (List.mem_map.2 ⟨b, List.mem_flatMap.2 ⟨z, hz, hb⟩, hb'⟩)
    omega

/-! ### the agenda entries a lazy queue entry stands for -/

def futA (tmax : Rat) (src : Option Node) (v : Node) (tt : List Rat) : List AItem :=
  match src with
  | none => []
  | some u => attemptsOf tmax (some u) v tt

def headA (x : SItem) : AItem :=
  match x.ev with
  | .trans src v _ => ⟨x.time, AEv.attempt src v⟩
  | .recov u => ⟨x.time, AEv.recov u⟩

def tailA (tmax : Rat) (x : SItem) : List AItem :=
  match x.ev with
  | .trans src v fut => futA tmax src v fut
  | .recov _ => []

def expand (tmax : Rat) (x : SItem) : List AItem := headA x :: tailA tmax x

@[simp] theorem headA_time (x : SItem) : (headA x).time = x.time := by
  unfold headA; split <;> rfl

theorem mem_attemptsOf {tmax : Rat} {src : Option Node} {v : Node} {tt : List Rat} {a : AItem} :
    a ∈ attemptsOf tmax src v tt ↔ ∃ t ∈ tt, t < tmax ∧ a = ⟨t, AEv.attempt src v⟩ := by
  simp only [attemptsOf, List.mem_map, List.mem_filter, decide_eq_true_eq]
  constructor
  · rintro ⟨t, ⟨h1, h2⟩, rfl⟩; exact ⟨t, h1, h2, rfl⟩
  · rintro ⟨t, h1, h2, rfl⟩; exact ⟨t, ⟨h1, h2⟩, rfl⟩

theorem mem_futA {tmax : Rat} {src : Option Node} {v : Node} {tt : List Rat} {a : AItem} (h : a ∈ futA tmax src v tt) :
    ∃ t ∈ tt, t < tmax ∧ a = ⟨t, AEv.attempt src v⟩ := by
  cases src with
  | none => simp [futA] at h
  | some u => exact mem_attemptsOf.1 h

theorem attemptsOf_nil_of_ge {tmax : Rat} (src : Option Node) (v : Node) {tt : List Rat} (h : ∀ t ∈ tt, tmax ≤ t) :
    attemptsOf tmax src v tt = [] := by
  simp only [attemptsOf, List.map_eq_nil_iff, List.filter_eq_nil_iff, decide_eq_true_eq, not_lt]
  exact h

theorem chainOf_expand {tmax : Rat} (u v : Node) {tt : List Rat} (hs : tt.Pairwise (· < ·)) :
    (chainOf tmax u v tt).flatMap (expand tmax) = attemptsOf tmax (some u) v tt := by
  cases tt with
  | nil => simp [chainOf, attemptsOf]
  | cons t0 fol =>
    simp only [chainOf]
    split
    · rename_i h
      simp [expand, headA, tailA, futA, attemptsOf, h]
    · rename_i h
      rw [attemptsOf_nil_of_ge]
      · simp
      · intro t ht
        rcases List.mem_cons.1 ht with rfl | ht
        · exact not_lt.1 h
        · have := List.rel_of_pairwise_cons hs ht
          have := not_lt.1 h
          linarith

theorem reQ_expand {tmax : Rat} (src : Option Node) (v : Node) {tt : List Rat} (hs : tt.Pairwise (· < ·)) :
    (reQ tmax src v tt).flatMap (expand tmax) = futA tmax src v tt := by
  cases src with
  | none => simp [reQ, futA]
  | some u => exact chainOf_expand u v hs

theorem attemptsOf_filter_perm (tmax : Rat) (src : Option Node) (v : Node) (tt : List Rat) (p : Rat → Bool) :
    (attemptsOf tmax src v tt).Perm
      (attemptsOf tmax src v (tt.filter p) ++ attemptsOf tmax src v (tt.filter (fun t => !p t))) := by
  unfold attemptsOf
  rw [← List.map_append, ← List.filter_append]
  exact ((List.filter_append_perm p tt).symm.filter _).map _

theorem futA_filter_perm (tmax : Rat) (src : Option Node) (v : Node) (tt : List Rat) (p : Rat → Bool) :
    (futA tmax src v tt).Perm
      (futA tmax src v (tt.filter p) ++ futA tmax src v (tt.filter (fun t => !p t))) := by
  cases src with
  | none => simp [futA]
  | some u => exact attemptsOf_filter_perm _ _ _ _ _

/-- the attempt times dropped by the filter against the target's current infectious period -/
def deadTimes (inf : Node → Bool) (recTime : Node → Rat) (v : Node) (tt : List Rat) : List Rat :=
  if inf v then tt.filter (fun t => !decide (t > recTime v)) else []

theorem attemptsOf_live_dead_perm (tmax : Rat) (src : Option Node) (v : Node) (inf : Node → Bool) (recTime : Node → Rat)
    (tt : List Rat) :
    (attemptsOf tmax src v tt).Perm
      (attemptsOf tmax src v (liveTimes inf recTime v tt) ++ attemptsOf tmax src v (deadTimes inf recTime v tt)) := by
  unfold liveTimes deadTimes
  split
  · exact attemptsOf_filter_perm _ _ _ _ _
  · simp [attemptsOf]

theorem liveTimes_sorted {inf : Node → Bool} {recTime : Node → Rat} {v : Node} {tt : List Rat}
    (h : tt.Pairwise (· < ·)) : (liveTimes inf recTime v tt).Pairwise (· < ·) := by
  unfold liveTimes; split
  · exact h.filter _
  · exact h

theorem map_add_sorted {ds : List Rat} (t : Rat) (h : ds.Pairwise (· < ·)) :
    (ds.map fun d => t + d).Pairwise (· < ·) := by
  rw [List.pairwise_map]
  exact h.imp (fun hab => by linarith)

theorem newItems_expand {P : SSParams} {infs : List Node} (hW : WF P infs) (s : SSState) (t : Rat) (v : Node) :
    (newItems P s t v).flatMap (expand P.tmax) =
      (if t + P.dur v (s.count v) < P.tmax then [⟨t + P.dur v (s.count v), AEv.recov v⟩] else []) ++
        (P.nbrs v).flatMap (fun w => attemptsOf P.tmax (some v) w
          (liveTimes (fset s.inf v true) (fset s.recTime v (t + P.dur v (s.count v))) w
            ((P.delays v w (s.count v)).map fun d => t + d))) := by
  unfold newItems
  rw [List.flatMap_append]
  congr 1
  · split <;> simp [expand, headA, tailA]
  · rw [List.flatMap_assoc]
    apply List.flatMap_congr
    intro w _
    exact chainOf_expand v w (liveTimes_sorted (map_add_sorted t (hW.delay_sorted v w _)))

/-! ### the simulation relation -/

/-- an agenda entry that the lazy queue has dropped: an attempt on a node that is infectious until after it -/
def Dead (s : SSState) (a : AItem) : Prop :=
  ∃ src v, a.ev = AEv.attempt src v ∧ s.inf v = true ∧ a.time < s.recTime v

structure Core (P : SSParams) (s : SSState) (r : RefState) : Prop where
  inf_eq : s.inf = r.inf
  count_eq : s.count = r.count
  log_eq : s.log = r.log
  trans_eq : s.trans = r.trans
  invA : InvA P s
  invB : ∀ v, InvB P s v
  sorted : ∀ x ∈ s.queue, ∀ src v fut, x.ev = SEv.trans src v fut → (x.time :: fut).Pairwise (· < ·)
  ge_tmin : ∀ x ∈ s.queue, P.tmin ≤ x.time
  rec_in : ∀ u, s.inf u = true → s.recTime u < P.tmax → (⟨s.recTime u, SEv.recov u⟩ : SItem) ∈ s.queue
  perm : ∃ dead, r.agenda.Perm (s.queue.flatMap (expand P.tmax) ++ dead) ∧ ∀ a ∈ dead, Dead s a

theorem perm_pop {tmax : Rat} {A a1 a2 dead tl : List AItem} {Q l1 l2 : List SItem} {x : AItem} {y : SItem}
    (hA : A = a1 ++ x :: a2) (hQ : Q = l1 ++ y :: l2) (hp : A.Perm (Q.flatMap (expand tmax) ++ dead))
    (he : expand tmax y = x :: tl) :
    (a1 ++ a2).Perm ((l1 ++ l2).flatMap (expand tmax) ++ (tl ++ dead)) := by
  subst hA hQ
  rw [List.flatMap_append, List.flatMap_cons, he] at hp
  have h1 : (x :: (a1 ++ a2)).Perm (x :: ((l1 ++ l2).flatMap (expand tmax) ++ (tl ++ dead))) := by
    refine List.perm_middle.symm.trans (hp.trans ?_)
    rw [List.flatMap_append]
    apply List.perm_iff_count.2
    intro a
    simp only [List.count_append, List.count_cons]
    omega
  exact h1.cons_inv

/-- an upper bound for the multiplicity of a time among the pending agenda entries -/
theorem Dst.agenda {P : SSParams} {r : RefState} (h : Dst P r) {t : Rat} (ht : t ≠ P.tmin) :
    (r.agenda.map fun a => a.time).count t ≤ 1 := by
  have := h t ht
  simp only [timesOf, List.count_append] at this
  omega

theorem mid_of_ne {α : Type} {l1 l2 : List α} {x z : α} (hz : z ∈ l1 ++ x :: l2) (hne : z ≠ x) : z ∈ l1 ++ l2 := by
  simp only [List.mem_append, List.mem_cons] at hz ⊢
  rcases hz with h | h | h
  · exact Or.inl h
  · exact absurd h hne
  · exact Or.inr h

/-- the reference executes a dropped attempt: nothing happens -/
theorem core_stutter {P : SSParams} {s : SSState} {r : RefState} (hC : Core P s r) {x : AItem} {a1 a2 : List AItem}
    (hqa : r.agenda = a1 ++ x :: a2) {dead : List AItem}
    (hp : r.agenda.Perm (s.queue.flatMap (expand P.tmax) ++ dead)) (hdead : ∀ a ∈ dead, Dead s a) (hx : x ∈ dead) :
    Core P s { inf := r.inf, count := r.count, agenda := a1 ++ a2, log := r.log, trans := r.trans,
               seen := x.time :: r.seen } := by
  refine ⟨hC.inf_eq, hC.count_eq, hC.log_eq, hC.trans_eq, hC.invA, hC.invB, hC.sorted, hC.ge_tmin, hC.rec_in, ?_⟩
  refine ⟨dead.erase x, ?_, fun a ha => hdead a (List.mem_of_mem_erase ha)⟩
  show (a1 ++ a2).Perm _
  have h1 : (x :: (a1 ++ a2)).Perm (x :: (s.queue.flatMap (expand P.tmax) ++ dead.erase x)) := by
    rw [hqa] at hp
    refine List.perm_middle.symm.trans (hp.trans ?_)
    refine ((List.perm_cons_erase hx).append_left _).trans ?_
    exact List.perm_middle
  exact h1.cons_inv

theorem Dst_contra {P : SSParams} {r : RefState} {L dead : List AItem} (hD : Dst P r)
    (hp : r.agenda.Perm (L ++ dead)) {t : Rat} (ht : t ≠ P.tmin)
    (h2 : 2 ≤ (L.map fun a => a.time).count t) : False := by
  have h1 := hD.agenda ht
  have h3 := (hp.map (fun a => a.time)).count_eq t
  rw [List.map_append, List.count_append] at h3
  omega

theorem futA_mono {tmax : Rat} {src : Option Node} {v : Node} {tt : List Rat} {p : Rat → Bool} {a : AItem}
    (h : a ∈ futA tmax src v (tt.filter p)) : a ∈ futA tmax src v tt := by
  cases src with
  | none => simp [futA] at h
  | some u =>
    obtain ⟨t, h1, h2, rfl⟩ := mem_attemptsOf.1 h
    exact mem_attemptsOf.2 ⟨t, (List.mem_filter.1 h1).1, h2, rfl⟩

theorem expand_recov {tmax : Rat} {y : SItem} {u : Node} (h : y.ev = SEv.recov u) :
    expand tmax y = [⟨y.time, AEv.recov u⟩] := by
  simp [expand, headA, tailA, h]

theorem expand_trans {tmax : Rat} {y : SItem} {src : Option Node} {v : Node} {fut : List Rat}
    (h : y.ev = SEv.trans src v fut) :
    expand tmax y = ⟨y.time, AEv.attempt src v⟩ :: futA tmax src v fut := by
  simp [expand, headA, tailA, h]

theorem headA_recov {y : SItem} {u : Node} (h : y.ev = SEv.recov u) : headA y = ⟨y.time, AEv.recov u⟩ := by
  simp [headA, h]

theorem headA_trans {y : SItem} {src : Option Node} {v : Node} {fut : List Rat} (h : y.ev = SEv.trans src v fut) :
    headA y = ⟨y.time, AEv.attempt src v⟩ := by
  simp [headA, h]

/-- both sides execute the same recovery -/
theorem core_recov {P : SSParams} {s s' : SSState} {r : RefState} (hC : Core P s r) (hstep : step P s = some s')
    {y : SItem} {l1 l2 : List SItem} {a1 a2 : List AItem} {u : Node}
    (hqs : s.queue = l1 ++ y :: l2) (hqa : r.agenda = a1 ++ headA y :: a2)
    (hmin : ∀ a ∈ a1 ++ a2, y.time ≤ a.time) (hev : y.ev = SEv.recov u)
    (hs' : s' = { inf := fset s.inf u false, recTime := s.recTime, count := s.count, queue := l1 ++ l2,
                  log := (y.time, u, false) :: s.log, trans := s.trans }) :
    Core P s' { inf := fset r.inf u false, count := r.count, agenda := a1 ++ a2,
                log := (y.time, u, false) :: r.log, trans := r.trans, seen := y.time :: r.seen } := by
  have hA := InvA_step hC.invA hstep
  have hB := InvB_step hC.invB hstep
  have hyq : y ∈ s.queue := by simp [hqs]
  have hold : ∀ z ∈ l1 ++ l2, z ∈ s.queue := fun z hz => by rw [hqs]; exact mem_mid hz
  obtain ⟨dead, hp, hdead⟩ := hC.perm
  subst hs'
  refine ⟨?_, hC.count_eq, ?_, hC.trans_eq, hA, hB, ?_, ?_, ?_, ?_⟩
  · simp only [hC.inf_eq]
  · simp only [hC.log_eq]
  · exact fun z hz => hC.sorted z (hold z hz)
  · exact fun z hz => hC.ge_tmin z (hold z hz)
  · intro u' hi hr
    simp only [fset] at hi
    have hne : u' ≠ u := by intro h; simp [h] at hi
    simp only [hne, if_false] at hi
    have hz := hC.rec_in u' hi hr
    rw [hqs] at hz
    apply mid_of_ne hz
    intro h; rw [← h] at hev; simp at hev; exact hne hev
  · refine ⟨dead, ?_, ?_⟩
    · have := perm_pop hqa hqs hp (tl := []) (by rw [expand_recov hev, headA_recov hev])
      simpa using this
    · intro a ha
      obtain ⟨src, v, he, hi, ht⟩ := hdead a ha
      refine ⟨src, v, he, ?_, ht⟩
      have hne : v ≠ u := by
        rintro rfl
        have h1 : y.time = s.recTime v := (hC.invB v).rt y hyq hev
        have h2 : a ∈ r.agenda := hp.mem_iff.2 (List.mem_append_right _ ha)
        rw [hqa] at h2
        simp only [List.mem_append, List.mem_cons] at h2
        rcases h2 with h2 | h2 | h2
        · have := hmin a (List.mem_append_left _ h2); linarith
        · rw [h2] at ht; simp at ht; linarith
        · have := hmin a (List.mem_append_right _ h2); linarith
      simp [fset, hne, hi]

/-- the popped attempt hits an infectious node: nothing happens, the chain is filtered and re-queued -/
theorem core_noop {P : SSParams} {s s' : SSState} {r : RefState} (hC : Core P s r) (hstep : step P s = some s')
    (hD : Dst P r) {y : SItem} {l1 l2 : List SItem} {a1 a2 : List AItem} {src : Option Node} {v : Node}
    {fut : List Rat}
    (hqs : s.queue = l1 ++ y :: l2) (hqa : r.agenda = a1 ++ headA y :: a2)
    (hev : y.ev = SEv.trans src v fut) (hinf : s.inf v = true)
    (hs' : s' = { inf := s.inf, recTime := s.recTime, count := s.count,
                  queue := l1 ++ l2 ++ reQ P.tmax src v (fut.filter (fun t => t > s.recTime v)),
                  log := s.log, trans := s.trans }) :
    Core P s' { inf := r.inf, count := r.count, agenda := a1 ++ a2, log := r.log, trans := r.trans,
                seen := y.time :: r.seen } := by
  have hA := InvA_step hC.invA hstep
  have hB := InvB_step hC.invB hstep
  have hyq : y ∈ s.queue := by simp [hqs]
  have hold : ∀ z ∈ l1 ++ l2, z ∈ s.queue := fun z hz => by rw [hqs]; exact mem_mid hz
  have hsort := hC.sorted y hyq src v fut hev
  have hfs : fut.Pairwise (· < ·) := hsort.of_cons
  have hyt := hC.ge_tmin y hyq
  obtain ⟨dead, hp, hdead⟩ := hC.perm
  subst hs'
  have hnew : ∀ z ∈ reQ P.tmax src v (fut.filter (fun t => t > s.recTime v)),
      ∃ u t0 fol, z = ⟨t0, SEv.trans (some u) v fol⟩ ∧ t0 :: fol = fut.filter (fun t => t > s.recTime v) := by
    intro z hz
    obtain ⟨u, _, hz⟩ := mem_reQ hz
    obtain ⟨t0, fol, h1, _, rfl⟩ := mem_chainOf hz
    exact ⟨u, t0, fol, rfl, h1.symm⟩
  refine ⟨hC.inf_eq, hC.count_eq, hC.log_eq, hC.trans_eq, hA, hB, ?_, ?_, ?_, ?_⟩
  · intro z hz
    rcases List.mem_append.1 hz with hz | hz
    · exact hC.sorted z (hold z hz)
    · obtain ⟨u, t0, fol, rfl, h1⟩ := hnew z hz
      intro src' v' fut' he
      simp at he
      obtain ⟨_, _, rfl⟩ := he
      show (t0 :: fol).Pairwise (· < ·)
      rw [h1]; exact hfs.filter _
  · intro z hz
    rcases List.mem_append.1 hz with hz | hz
    · exact hC.ge_tmin z (hold z hz)
    · obtain ⟨u, t0, fol, rfl, h1⟩ := hnew z hz
      have : t0 ∈ fut := (List.mem_filter.1 (by rw [← h1]; simp)).1
      have := List.rel_of_pairwise_cons hsort this
      show P.tmin ≤ t0
      linarith
  · intro u' hi hr
    have hz := hC.rec_in u' hi hr
    rw [hqs] at hz
    apply List.mem_append_left
    apply mid_of_ne hz
    intro h; rw [← h] at hev; simp at hev
  · refine ⟨futA P.tmax src v (fut.filter (fun t => !decide (t > s.recTime v))) ++ dead, ?_, ?_⟩
    · have h1 := perm_pop hqa hqs hp (tl := futA P.tmax src v fut) (by rw [expand_trans hev, headA_trans hev])
      have h2 := futA_filter_perm P.tmax src v fut (fun t => t > s.recTime v)
      show (a1 ++ a2).Perm _
      rw [List.flatMap_append, reQ_expand src v (hfs.filter _)]
      apply List.perm_iff_count.2
      intro a
      have e1 := h1.count_eq a
      have e2 := h2.count_eq a
      simp only [List.count_append] at e1 e2 ⊢
      omega
    · intro a ha
      rcases List.mem_append.1 ha with ha | ha
      · obtain ⟨t, h1, h2, rfl⟩ := mem_futA ha
        have h3 := List.mem_filter.1 h1
        have h4 : t ≤ s.recTime v := by simpa using h3.2
        refine ⟨src, v, rfl, hinf, ?_⟩
        show t < s.recTime v
        rcases lt_or_eq_of_le h4 with h5 | h5
        · exact h5
        · exfalso
          have hr : s.recTime v < P.tmax := by rw [← h5]; exact h2
          have hz := hC.rec_in v hinf hr
          have hz' : (⟨s.recTime v, SEv.recov v⟩ : SItem) ∈ l1 ++ l2 := by
            rw [hqs] at hz
            apply mid_of_ne hz
            intro h; rw [← h] at hev; simp at hev
          have hty : y.time < t := List.rel_of_pairwise_cons hsort h3.1
          apply Dst_contra hD hp (t := t) (by intro h; linarith)
          apply count_two_flatMap (expand P.tmax) (fun a => a.time) hqs hz'
            (a := ⟨t, AEv.attempt src v⟩) (b := ⟨s.recTime v, AEv.recov v⟩)
          · rw [expand_trans hev]; exact List.mem_cons_of_mem _ (futA_mono ha)
          · simp [expand, headA]
          · rfl
          · exact h5.symm
      · exact hdead a ha

/-! new entries lie strictly after the event that created them -/

theorem newItems_gt {P : SSParams} {infs : List Node} (hW : WF P infs) (s : SSState) (t : Rat) (v : Node) :
    ∀ z ∈ newItems P s t v, t < z.time := by
  intro z hz
  rcases mem_newItems hz with ⟨rfl, _⟩ | ⟨w, _, hz⟩
  · have := hW.dur_pos v (s.count v); simp only; linarith
  · obtain ⟨t0, fol, h1, _, rfl⟩ := mem_chainOf hz
    have : t0 ∈ (P.delays v w (s.count v)).map fun d => t + d := by
      apply liveTimes_subset; rw [h1]; simp
    obtain ⟨d, hd, rfl⟩ := List.mem_map.1 this
    have := hW.delay_pos v w _ d hd
    simp only; linarith

theorem reQ_gt {tmax : Rat} {src : Option Node} {v : Node} {t : Rat} {fut : List Rat}
    (hs : (t :: fut).Pairwise (· < ·)) (p : Rat → Bool) : ∀ z ∈ reQ tmax src v (fut.filter p), t < z.time := by
  intro z hz
  obtain ⟨u, _, hz⟩ := mem_reQ hz
  obtain ⟨t0, fol, h1, _, rfl⟩ := mem_chainOf hz
  have : t0 ∈ fut := (List.mem_filter.1 (by rw [h1]; simp)).1
  exact List.rel_of_pairwise_cons hs this

theorem refNew_gt {P : SSParams} {infs : List Node} (hW : WF P infs) (k : Nat) (t : Rat) (v : Node) :
    ∀ a ∈ refNew P k t v, t < a.time := by
  intro a ha
  unfold refNew at ha
  rcases List.mem_append.1 ha with ha | ha
  · split at ha
    · simp at ha; subst ha
      have := hW.dur_pos v k; simp only; linarith
    · simp at ha
  · obtain ⟨w, _, ha⟩ := List.mem_flatMap.1 ha
    obtain ⟨t', h1, _, rfl⟩ := mem_attemptsOf.1 ha
    obtain ⟨d, hd, rfl⟩ := List.mem_map.1 h1
    have := hW.delay_pos v w _ d hd
    simp only; linarith

/-- both sides execute the same infection -/
theorem core_infect {P : SSParams} {infs : List Node} (hW : WF P infs) {s s' : SSState} {r r' : RefState}
    (hC : Core P s r) (hstep : step P s = some s')
    {y : SItem} {l1 l2 : List SItem} {a1 a2 : List AItem} {src : Option Node} {v : Node} {fut : List Rat}
    (hqs : s.queue = l1 ++ y :: l2) (hqa : r.agenda = a1 ++ headA y :: a2)
    (hev : y.ev = SEv.trans src v fut) (hinf : s.inf v = false)
    (hs' : s' = { inf := fset s.inf v true, recTime := fset s.recTime v (y.time + P.dur v (s.count v)),
                  count := fset s.count v (s.count v + 1),
                  queue := l1 ++ l2 ++ newItems P s y.time v ++
                    reQ P.tmax src v (fut.filter (fun t => t > y.time + P.dur v (s.count v))),
                  log := (y.time, v, true) :: s.log, trans := (y.time, src, v) :: s.trans })
    (hr' : r' = { inf := fset r.inf v true, count := fset r.count v (r.count v + 1),
                  agenda := a1 ++ a2 ++ refNew P (r.count v) y.time v,
                  log := (y.time, v, true) :: r.log, trans := (y.time, src, v) :: r.trans,
                  seen := y.time :: r.seen })
    (hD' : Dst P r') : Core P s' r' := by
  have hA := InvA_step hC.invA hstep
  have hB := InvB_step hC.invB hstep
  have hyq : y ∈ s.queue := by simp [hqs]
  have hold : ∀ z ∈ l1 ++ l2, z ∈ s.queue := fun z hz => by rw [hqs]; exact mem_mid hz
  have hsort := hC.sorted y hyq src v fut hev
  have hfs : fut.Pairwise (· < ·) := hsort.of_cons
  have hyt := hC.ge_tmin y hyq
  have hcnt : r.count v = s.count v := by rw [hC.count_eq]
  obtain ⟨dead, hp, hdead⟩ := hC.perm
  have h1 := perm_pop hqa hqs hp (tl := futA P.tmax src v fut) (by rw [expand_trans hev, headA_trans hev])
  have hD2 : ∀ {t : Rat}, t ≠ P.tmin → (r'.agenda.map fun a => a.time).count t ≤ 1 := fun ht => hD'.agenda ht
  subst hs' hr'
  simp only at hD2
  rw [hcnt] at hD2 ⊢
  refine ⟨?_, ?_, ?_, ?_, hA, hB, ?_, ?_, ?_, ?_⟩
  · simp only [hC.inf_eq]
  · simp only [hC.count_eq]
  · simp only [hC.log_eq]
  · simp only [hC.trans_eq]
  · -- sorted
    intro z hz
    rcases List.mem_append.1 hz with hz | hz
    · rcases List.mem_append.1 hz with hz | hz
      · exact hC.sorted z (hold z hz)
      · rcases mem_newItems hz with ⟨rfl, _⟩ | ⟨w, _, hz⟩
        · intro src' v' fut' he; simp at he
        · obtain ⟨t0, fol, h2, _, rfl⟩ := mem_chainOf hz
          intro src' v' fut' he
          simp at he
          obtain ⟨_, _, rfl⟩ := he
          show (t0 :: fol).Pairwise (· < ·)
          rw [← h2]
          exact liveTimes_sorted (map_add_sorted _ (hW.delay_sorted v w _))
    · obtain ⟨u, _, hz⟩ := mem_reQ hz
      obtain ⟨t0, fol, h2, _, rfl⟩ := mem_chainOf hz
      intro src' v' fut' he
      simp at he
      obtain ⟨_, _, rfl⟩ := he
      show (t0 :: fol).Pairwise (· < ·)
      rw [← h2]; exact hfs.filter _
  · -- ge_tmin
    intro z hz
    rcases List.mem_append.1 hz with hz | hz
    · rcases List.mem_append.1 hz with hz | hz
      · exact hC.ge_tmin z (hold z hz)
      · have := newItems_gt hW s y.time v z hz; linarith
    · have := reQ_gt hsort _ z hz; linarith
  · -- rec_in
    intro u' hi hr
    by_cases hu : u' = v
    · subst hu
      simp only [fset, if_true] at hr ⊢
      apply List.mem_append_left
      apply List.mem_append_right
      unfold newItems
      apply List.mem_append_left
      simp [hr]
    · simp only [fset, hu, if_false] at hi hr ⊢
      have hz := hC.rec_in u' hi hr
      rw [hqs] at hz
      apply List.mem_append_left
      apply List.mem_append_left
      apply mid_of_ne hz
      intro h; rw [← h] at hev; simp at hev
  · -- perm
    refine ⟨dead ++ futA P.tmax src v (fut.filter (fun t => !decide (t > y.time + P.dur v (s.count v)))) ++
      (P.nbrs v).flatMap (fun w => attemptsOf P.tmax (some v) w
        (deadTimes (fset s.inf v true) (fset s.recTime v (y.time + P.dur v (s.count v))) w
          ((P.delays v w (s.count v)).map fun d => y.time + d))), ?_, ?_⟩
    · have h2 := futA_filter_perm P.tmax src v fut (fun t => t > y.time + P.dur v (s.count v))
      have h3 : ((P.nbrs v).flatMap (fun w => attemptsOf P.tmax (some v) w
            ((P.delays v w (s.count v)).map fun d => y.time + d))).Perm
          ((P.nbrs v).flatMap (fun w => attemptsOf P.tmax (some v) w
            (liveTimes (fset s.inf v true) (fset s.recTime v (y.time + P.dur v (s.count v))) w
              ((P.delays v w (s.count v)).map fun d => y.time + d))) ++
           (P.nbrs v).flatMap (fun w => attemptsOf P.tmax (some v) w
            (deadTimes (fset s.inf v true) (fset s.recTime v (y.time + P.dur v (s.count v))) w
              ((P.delays v w (s.count v)).map fun d => y.time + d)))) :=
        (List.Perm.flatMap_left _ (fun w _ => attemptsOf_live_dead_perm P.tmax (some v) w _ _ _)).trans
          (List.flatMap_append_perm _ _ _).symm
      show (a1 ++ a2 ++ refNew P (s.count v) y.time v).Perm _
      rw [List.flatMap_append, List.flatMap_append, newItems_expand hW, reQ_expand src v (hfs.filter _)]
      unfold refNew
      apply List.perm_iff_count.2
      intro a
      have e1 := h1.count_eq a
      have e2 := h2.count_eq a
      have e3 := h3.count_eq a
      simp only [List.count_append] at e1 e2 e3 ⊢
      omega
    · intro a ha
      rcases List.mem_append.1 ha with ha | ha
      · rcases List.mem_append.1 ha with ha | ha
        · -- old dead entries
          obtain ⟨src0, z, he, hi, ht⟩ := hdead a ha
          have hne : z ≠ v := by rintro rfl; rw [hinf] at hi; exact Bool.false_ne_true hi
          exact ⟨src0, z, he, by simp [fset, hne, hi], by simpa [fset, hne] using ht⟩
        · -- the rest of this chain that falls into the new infectious period
          obtain ⟨t, h4, h5, rfl⟩ := mem_futA ha
          have h6 := List.mem_filter.1 h4
          have h7 : t ≤ y.time + P.dur v (s.count v) := by simpa using h6.2
          refine ⟨src, v, rfl, by simp [fset], ?_⟩
          show t < fset s.recTime v (y.time + P.dur v (s.count v)) v
          simp only [fset, if_true]
          rcases lt_or_eq_of_le h7 with h8 | h8
          · exact h8
          · exfalso
            have hty : y.time < t := List.rel_of_pairwise_cons hsort h6.1
            have hin1 : (⟨t, AEv.attempt src v⟩ : AItem) ∈ a1 ++ a2 := by
              apply h1.mem_iff.2
              apply List.mem_append_right
              apply List.mem_append_left
              exact futA_mono ha
            have hin2 : (⟨t, AEv.recov v⟩ : AItem) ∈ refNew P (s.count v) y.time v := by
              unfold refNew
              apply List.mem_append_left
              rw [← h8]; simp [h5]
            have := count_two_append (fun a : AItem => a.time) hin1 hin2 (t := t) rfl rfl
            have := hD2 (t := t) (by intro h; linarith)
            omega
      · -- attempts of the new infection that fall into a neighbour's current infectious period
        obtain ⟨w, hw, ha⟩ := List.mem_flatMap.1 ha
        have hne : w ≠ v := by rintro rfl; exact hW.noloop _ hw
        obtain ⟨t, h4, h5, rfl⟩ := mem_attemptsOf.1 ha
        unfold deadTimes at h4
        simp only [fset, hne, if_false] at h4
        split at h4
        · rename_i hiw
          have h6 := List.mem_filter.1 h4
          have h7 : t ≤ s.recTime w := by simpa using h6.2
          obtain ⟨d, hd, hdt⟩ := List.mem_map.1 h6.1
          have hdpos := hW.delay_pos v w _ d hd
          refine ⟨some v, w, rfl, by simp [fset, hne, hiw], ?_⟩
          show t < fset s.recTime v (y.time + P.dur v (s.count v)) w
          simp only [fset, hne, if_false]
          rcases lt_or_eq_of_le h7 with h8 | h8
          · exact h8
          · exfalso
            have hr : s.recTime w < P.tmax := by rw [← h8]; exact h5
            have hz := hC.rec_in w hiw hr
            have hz' : (⟨s.recTime w, SEv.recov w⟩ : SItem) ∈ l1 ++ l2 := by
              rw [hqs] at hz
              apply mid_of_ne hz
              intro h; rw [← h] at hev; simp at hev
            have hin1 : (⟨s.recTime w, AEv.recov w⟩ : AItem) ∈ a1 ++ a2 := by
              apply h1.mem_iff.2
              apply List.mem_append_left
              apply List.mem_flatMap.2
              exact ⟨_, hz', by simp [expand, headA]⟩
            have hin2 : (⟨t, AEv.attempt (some v) w⟩ : AItem) ∈ refNew P (s.count v) y.time v := by
              unfold refNew
              apply List.mem_append_right
              apply List.mem_flatMap.2
              exact ⟨w, hw, mem_attemptsOf.2 ⟨t, h6.1, h5, rfl⟩⟩
            have := count_two_append (fun a : AItem => a.time) hin1 hin2 (t := t) h8.symm rfl
            have := hD2 (t := t) (by intro h; linarith)
            omega
        · simp at h4

/-! ### one simulated step -/

/-- if the lazy queue pops `y` and the agenda pops the head entry of `y`, both sides do the same thing -/
theorem sim_exec {P : SSParams} {infs : List Node} (hW : WF P infs) {s : SSState} {r r' : RefState}
    (hC : Core P s r) (hD : Dst P r) (hD' : Dst P r') (href : refStep P r = some r')
    {y : SItem} {qr : List SItem} (hpop : gpop SItem.time s.queue = some (y, qr))
    {ar : List AItem} (hapop : gpop AItem.time r.agenda = some (headA y, ar)) :
    ∃ s' nq na, step P s = some s' ∧ Core P s' r' ∧ s'.queue = qr ++ nq ∧ r'.agenda = ar ++ na ∧
      (∀ z ∈ nq, y.time < z.time) ∧ (∀ a ∈ na, y.time < a.time) := by
  cases hs : step P s with
  | none =>
    have := step_none hs
    rw [this] at hpop
    simp [gpop, gminTime] at hpop
  | some s' =>
    obtain ⟨x', l1, l2, hq, hl1, hl2, hc⟩ := step_cases hs
    have h1 := gpop_of_min SItem.time hq hl1 hl2
    rw [hpop] at h1
    simp only [Option.some.injEq, Prod.mk.injEq] at h1
    obtain ⟨rfl, rfl⟩ := h1
    obtain ⟨x, a1, a2, hqa, ha1, ha2, hrc⟩ := refStep_cases href
    have h2 := gpop_of_min AItem.time hqa ha1 ha2
    rw [hapop] at h2
    simp only [Option.some.injEq, Prod.mk.injEq] at h2
    obtain ⟨rfl, rfl⟩ := h2
    have hyq : y ∈ s.queue := by simp [hq]
    have hmin : ∀ a ∈ a1 ++ a2, y.time ≤ a.time := by
      intro a ha
      rcases List.mem_append.1 ha with ha | ha
      · have := ha1 a ha; simp at this; linarith
      · have := ha2 a ha; simpa using this
    simp only [headA_time] at hrc
    refine ⟨s', ?_⟩
    rcases hc with ⟨u, hev, hs'⟩ | ⟨src, v, fut, hev, hinf, hs'⟩ | ⟨src, v, fut, hev, hinf, hs'⟩
    · -- recovery
      have hx : (headA y).ev = AEv.recov u := by rw [headA_recov hev]
      rcases hrc with ⟨u', hev', hr'⟩ | ⟨src', v', hev', _, _⟩ | ⟨src', v', hev', _, _⟩
      · rw [hx] at hev'; simp at hev'; subst hev'
        refine ⟨[], [], rfl, ?_, by rw [hs']; simp, by rw [hr']; simp, by simp, by simp⟩
        rw [hr']
        exact core_recov hC hs hq hqa hmin hev hs'
      · rw [hx] at hev'; simp at hev'
      · rw [hx] at hev'; simp at hev'
    · -- attempt on an infectious node
      have hx : (headA y).ev = AEv.attempt src v := by rw [headA_trans hev]
      rcases hrc with ⟨u', hev', _⟩ | ⟨src', v', hev', _, hr'⟩ | ⟨src', v', hev', hinf', _⟩
      · rw [hx] at hev'; simp at hev'
      · rw [hx] at hev'; simp at hev'; obtain ⟨rfl, rfl⟩ := hev'
        refine ⟨reQ P.tmax src v (fut.filter (fun t => t > s.recTime v)), [], rfl, ?_, by rw [hs'], by rw [hr']; simp,
          reQ_gt (hC.sorted y hyq src v fut hev) _, by simp⟩
        rw [hr']
        exact core_noop hC hs hD hq hqa hev hinf hs'
      · rw [hx] at hev'; simp at hev'; obtain ⟨rfl, rfl⟩ := hev'
        rw [← hC.inf_eq, hinf] at hinf'; simp at hinf'
    · -- infection
      have hx : (headA y).ev = AEv.attempt src v := by rw [headA_trans hev]
      rcases hrc with ⟨u', hev', _⟩ | ⟨src', v', hev', hinf', _⟩ | ⟨src', v', hev', _, hr'⟩
      · rw [hx] at hev'; simp at hev'
      · rw [hx] at hev'; simp at hev'; obtain ⟨rfl, rfl⟩ := hev'
        rw [← hC.inf_eq, hinf] at hinf'; simp at hinf'
      · rw [hx] at hev'; simp at hev'; obtain ⟨rfl, rfl⟩ := hev'
        refine ⟨newItems P s y.time v ++ reQ P.tmax src v (fut.filter (fun t => t > y.time + P.dur v (s.count v))),
          refNew P (r.count v) y.time v, rfl, core_infect hW hC hs hq hqa hev hinf hs' hr' hD',
          by rw [hs']; simp [List.append_assoc], by rw [hr'], ?_, refNew_gt hW _ _ _⟩
        intro z hz
        rcases List.mem_append.1 hz with hz | hz
        · exact newItems_gt hW s y.time v z hz
        · exact reQ_gt (hC.sorted y hyq src v fut hev) _ z hz

def mkQ (tmin : Rat) (u : Node) : SItem := ⟨tmin, SEv.trans none u []⟩
def mkA (tmin : Rat) (u : Node) : AItem := ⟨tmin, AEv.attempt none u⟩

/-- the not yet executed initial infections are a common prefix; everything else is after `tmin` -/
def Split (P : SSParams) (s : SSState) (r : RefState) : Prop :=
  ∃ (l : List Node) (Q' : List SItem) (A' : List AItem), s.queue = l.map (mkQ P.tmin) ++ Q' ∧ r.agenda = l.map (mkA P.tmin) ++ A' ∧
    (∀ x ∈ Q', P.tmin < x.time) ∧ (∀ a ∈ A', P.tmin < a.time)

theorem sim_step {P : SSParams} {infs : List Node} (hW : WF P infs) {s : SSState} {r r' : RefState}
    (hC : Core P s r) (hS : Split P s r) (hD : Dst P r) (hD' : Dst P r') (href : refStep P r = some r') :
    (Core P s r' ∧ Split P s r') ∨ ∃ s', step P s = some s' ∧ Core P s' r' ∧ Split P s' r' := by
  obtain ⟨l, Q', A', hq, ha, hQ', hA'⟩ := hS
  cases l with
  | cons u0 rest =>
    right
    simp only [List.map_cons, List.cons_append] at hq ha
    have hpop : gpop SItem.time s.queue = some (mkQ P.tmin u0, rest.map (mkQ P.tmin) ++ Q') := by
      rw [hq]; apply gpop_head
      intro z hz
      rcases List.mem_append.1 hz with hz | hz
      · obtain ⟨u, _, rfl⟩ := List.mem_map.1 hz; exact le_refl _
      · exact le_of_lt (hQ' z hz)
    have hapop : gpop AItem.time r.agenda = some (headA (mkQ P.tmin u0), rest.map (mkA P.tmin) ++ A') := by
      rw [ha]; apply gpop_head
      intro z hz
      rcases List.mem_append.1 hz with hz | hz
      · obtain ⟨u, _, rfl⟩ := List.mem_map.1 hz; exact le_refl _
      · exact le_of_lt (hA' z hz)
    obtain ⟨s', nq, na, hs, hC', hq', ha', hnq, hna⟩ := sim_exec hW hC hD hD' href hpop hapop
    refine ⟨s', hs, hC', rest, Q' ++ nq, A' ++ na, by rw [hq', List.append_assoc], by rw [ha', List.append_assoc], ?_, ?_⟩
    · intro z hz
      rcases List.mem_append.1 hz with hz | hz
      · exact hQ' z hz
      · exact hnq z hz
    · intro z hz
      rcases List.mem_append.1 hz with hz | hz
      · exact hA' z hz
      · exact hna z hz
  | nil =>
    simp only [List.map_nil, List.nil_append] at hq ha
    obtain ⟨x, a1, a2, hqa, ha1, ha2, hrc⟩ := refStep_cases href
    obtain ⟨dead, hp, hdead⟩ := hC.perm
    have hxA : x ∈ r.agenda := by simp [hqa]
    have hsub : ∀ a ∈ a1 ++ a2, a ∈ r.agenda := fun a h => by rw [hqa]; exact mem_mid h
    have hxmin : ∀ a ∈ r.agenda, x.time ≤ a.time := by
      intro a h
      rw [hqa] at h
      simp only [List.mem_append, List.mem_cons] at h
      rcases h with h | h | h
      · exact le_of_lt (ha1 a h)
      · rw [h]
      · exact ha2 a h
    by_cases hxd : x ∈ dead
    · left
      obtain ⟨src, v, he, hi, ht⟩ := hdead x hxd
      have hsplit : ∀ sn, Split P s
          { inf := r.inf, count := r.count, agenda := a1 ++ a2, log := r.log, trans := r.trans, seen := sn } :=
        fun sn => ⟨[], Q', a1 ++ a2, by simpa using hq, by simp, hQ', fun a h => hA' a (by rw [← ha]; exact hsub a h)⟩
      rcases hrc with ⟨u', hev', _⟩ | ⟨src', v', hev', _, hr'⟩ | ⟨src', v', hev', hinf', _⟩
      · rw [he] at hev'; simp at hev'
      · rw [hr']
        exact ⟨core_stutter hC hqa hp hdead hxd, hsplit _⟩
      · rw [he] at hev'; simp at hev'; obtain ⟨rfl, rfl⟩ := hev'
        rw [← hC.inf_eq, hi] at hinf'; simp at hinf'
    · right
      have hxL : x ∈ s.queue.flatMap (expand P.tmax) := by
        rcases List.mem_append.1 (hp.mem_iff.1 hxA) with h | h
        · exact h
        · exact absurd h hxd
      obtain ⟨y, hyq, hxy⟩ := List.mem_flatMap.1 hxL
      have hhead : ∀ z ∈ s.queue, headA z ∈ r.agenda := by
        intro z hz
        apply hp.mem_iff.2
        apply List.mem_append_left
        exact List.mem_flatMap.2 ⟨z, hz, by simp [expand]⟩
      have hxy' : x = headA y := by
        simp only [expand, List.mem_cons] at hxy
        rcases hxy with h | h
        · exact h
        · exfalso
          have h1 := hxmin _ (hhead y hyq)
          simp only [headA_time] at h1
          unfold tailA at h
          split at h
          · rename_i src v fut hev
            obtain ⟨t, h2, _, rfl⟩ := mem_futA h
            have := List.rel_of_pairwise_cons (hC.sorted y hyq src v fut hev) h2
            simp only at h1
            linarith
          · simp at h
      subst hxy'
      obtain ⟨q1, q2, hq12⟩ := List.append_of_mem hyq
      have hytm : P.tmin < y.time := hQ' y (by rw [← hq]; exact hyq)
      have hstrict : ∀ z ∈ q1 ++ q2, y.time < z.time := by
        intro z hz
        have hzq : z ∈ s.queue := by rw [hq12]; exact mem_mid hz
        have h1 := hxmin _ (hhead z hzq)
        simp only [headA_time] at h1
        rcases lt_or_eq_of_le h1 with h2 | h2
        · exact h2
        · exfalso
          apply Dst_contra hD hp (t := y.time) (ne_of_gt hytm)
          exact count_two_flatMap (expand P.tmax) (fun a => a.time) hq12 hz
            (a := headA y) (b := headA z) (by simp [expand]) (by simp [expand]) (by simp) (by simp [h2])
      have hpop := gpop_of_min SItem.time hq12 (fun z hz => hstrict z (List.mem_append_left _ hz))
        (fun z hz => le_of_lt (hstrict z (List.mem_append_right _ hz)))
      have hapop := gpop_of_min AItem.time hqa ha1 ha2
      obtain ⟨s', nq, na, hs, hC', hq', ha', hnq, hna⟩ := sim_exec hW hC hD hD' href hpop hapop
      refine ⟨s', hs, hC', [], q1 ++ q2 ++ nq, a1 ++ a2 ++ na, by simpa using hq', by simpa using ha', ?_, ?_⟩
      · intro z hz
        rcases List.mem_append.1 hz with hz | hz
        · exact lt_trans hytm (hstrict z hz)
        · exact lt_trans hytm (hnq z hz)
      · intro z hz
        rcases List.mem_append.1 hz with hz | hz
        · exact hA' z (by rw [← ha]; exact hsub z hz)
        · exact lt_trans hytm (hna z hz)

/-! ### the whole run -/

theorem step_of_empty {P : SSParams} {s : SSState} (h : s.queue = []) : step P s = none := by
  unfold step; rw [h]; rfl

theorem loop_of_empty {P : SSParams} {s : SSState} (h : s.queue = []) (k : Nat) : loop P k s = s := by
  cases k with
  | zero => rfl
  | succ k => simp only [loop, step_of_empty h]

theorem loop_stable {P : SSParams} (m k : Nat) (s : SSState) (h : (loop P m s).queue = []) :
    loop P (m + k) s = loop P m s := by
  induction m generalizing s with
  | zero => simp only [loop] at h; simp [loop, loop_of_empty h]
  | succ m ih =>
    have : m + 1 + k = (m + k) + 1 := by omega
    rw [this]
    simp only [loop] at h ⊢
    cases hs : step P s with
    | none => rfl
    | some s' => simp only [hs] at h ⊢; exact ih s' h

theorem queue_nil_of_agenda_nil {P : SSParams} {s : SSState} {r : RefState} (hC : Core P s r) (h : r.agenda = []) :
    s.queue = [] := by
  obtain ⟨dead, hp, _⟩ := hC.perm
  rw [h] at hp
  have := hp.symm.eq_nil
  cases hq : s.queue with
  | nil => rfl
  | cons y q => rw [hq] at this; simp [expand] at this

theorem sim_run {P : SSParams} {infs : List Node} (hW : WF P infs) (n : Nat) :
    ∀ (s : SSState) (r : RefState), Core P s r → Split P s r → (refLoop P n r).agenda = [] →
      distinctTimes P.tmin (refLoop P n r).seen = true →
      ∃ m, m ≤ n ∧ (loop P m s).queue = [] ∧ (loop P m s).log = (refLoop P n r).log ∧
        (loop P m s).trans = (refLoop P n r).trans := by
  induction n with
  | zero =>
    intro s r hC _ hfin _
    simp only [refLoop] at hfin ⊢
    exact ⟨0, le_refl _, queue_nil_of_agenda_nil hC hfin, hC.log_eq, hC.trans_eq⟩
  | succ n ih =>
    intro s r hC hS hfin hd
    have hD : Dst P r := Dst_of_final hfin hd
    simp only [refLoop] at hfin hd ⊢
    cases href : refStep P r with
    | none =>
      simp only [href] at hfin hd ⊢
      exact ⟨0, Nat.zero_le _, queue_nil_of_agenda_nil hC hfin, hC.log_eq, hC.trans_eq⟩
    | some r' =>
      simp only [href] at hfin hd ⊢
      have hD' : Dst P r' := Dst_of_final hfin hd
      rcases sim_step hW hC hS hD hD' href with ⟨hC', hS'⟩ | ⟨s', hs, hC', hS'⟩
      · obtain ⟨m, hm, h1, h2, h3⟩ := ih s r' hC' hS' hfin hd
        exact ⟨m, Nat.le_succ_of_le hm, h1, h2, h3⟩
      · obtain ⟨m, hm, h1, h2, h3⟩ := ih s' r' hC' hS' hfin hd
        refine ⟨m + 1, Nat.succ_le_succ hm, ?_⟩
        simp only [loop, hs]
        exact ⟨h1, h2, h3⟩

/-- the initial state of the reference run -/
def refInit (P : SSParams) (infs : List Node) : RefState :=
  { inf := fun _ => false, count := fun _ => 0,
    agenda := infs.foldl (fun q u => aadd P.tmax q P.tmin (AEv.attempt none u)) [],
    log := [], trans := [], seen := [] }

theorem refInit_agenda (P : SSParams) (infs : List Node) :
    (refInit P infs).agenda = if P.tmin < P.tmax then infs.map (mkA P.tmin) else [] := by
  simp only [refInit]
  have : ∀ (l : List Node) (q : List AItem),
      l.foldl (fun q u => aadd P.tmax q P.tmin (AEv.attempt none u)) q =
        q ++ (if P.tmin < P.tmax then l.map (mkA P.tmin) else []) := by
    intro l
    induction l with
    | nil => intro q; simp
    | cons u l ih =>
      intro q
      rw [List.foldl_cons, ih, aadd_eq]
      split <;> simp [mkA]
  rw [this]; simp

theorem Core_init {P : SSParams} (infs : List Node) : Core P (init P infs) (refInit P infs) := by
  have hq : (init P infs).queue = if P.tmin < P.tmax then infs.map (mkQ P.tmin) else [] := init_queue P infs
  have hmem : ∀ x ∈ (init P infs).queue, ∃ u, x = mkQ P.tmin u := by
    intro x hx; rw [hq] at hx
    split at hx
    · obtain ⟨u, _, rfl⟩ := List.mem_map.1 hx; exact ⟨u, rfl⟩
    · simp at hx
  refine ⟨rfl, rfl, rfl, rfl, InvA_init P infs, InvB_init P infs, ?_, ?_, ?_, ?_⟩
  · intro x hx src v fut he
    obtain ⟨u, rfl⟩ := hmem x hx
    simp [mkQ] at he
    obtain ⟨_, _, rfl⟩ := he
    simp
  · intro x hx
    obtain ⟨u, rfl⟩ := hmem x hx
    exact le_refl _
  · intro u hi; simp [init] at hi
  · refine ⟨[], ?_, by simp⟩
    rw [refInit_agenda, hq]
    split
    · simp only [List.append_nil]
      rw [List.flatMap_map]
      have : ∀ l : List Node, l.flatMap (fun u => expand P.tmax (mkQ P.tmin u)) = l.map (mkA P.tmin) := by
        intro l
        induction l with
        | nil => rfl
        | cons u l ih =>
          rw [List.flatMap_cons, ih]
          simp [expand, headA, tailA, futA, mkQ, mkA]
      rw [this]
    · simp

theorem Split_init {P : SSParams} (infs : List Node) : Split P (init P infs) (refInit P infs) := by
  by_cases h : P.tmin < P.tmax
  · exact ⟨infs, [], [], by rw [init_queue]; simp [h, mkQ], by rw [refInit_agenda]; simp [h], by simp, by simp⟩
  · exact ⟨[], [], [], by rw [init_queue]; simp [h], by rw [refInit_agenda]; simp [h], by simp, by simp⟩

theorem refines_main {P : SSParams} {infs : List Node} (hW : WF P infs) (fuel : Nat)
    (ha : (refRun P infs fuel).agenda = [])
    (hd : distinctTimes P.tmin (refRun P infs fuel).seen = true) :
    (run P infs fuel).log = (refRun P infs fuel).log ∧ (run P infs fuel).trans = (refRun P infs fuel).trans := by
  have hrun : refRun P infs fuel = refLoop P fuel (refInit P infs) := rfl
  rw [hrun] at ha hd ⊢
  obtain ⟨m, hm, h1, h2, h3⟩ := sim_run hW fuel _ _ (Core_init infs) (Split_init infs) ha hd
  have : run P infs fuel = loop P m (init P infs) := by
    obtain ⟨k, rfl⟩ := Nat.exists_eq_add_of_le hm
    exact loop_stable m k _ h1
  rw [this]
  exact ⟨h2, h3⟩

end EventSIS
