import EoNVerif.Proofs.EventSIR
/-!
Helper lemmas for C11, part 2: the priority queue (`pop`), the scheduling loop (`schedule`) and a
component-wise description of one `step` of the event loop.
-/
namespace ERat
theorem le_of_lt {a b : ERat} (h : ERat.lt a b = true) : ERat.le a b = true := by
  cases a <;> cases b <;> simp_all
  linarith
theorem add_le_add_left_iff (x : Rat) (a b : ERat) :
    ERat.le (ERat.add (some x) a) (ERat.add (some x) b) = ERat.le a b := by
  cases a <;> cases b <;> simp
end ERat

namespace EventSIR

/-! ### pop -/

theorem minTime_spec (q : List QItem) :
    (minTime q = none ∧ q = []) ∨ ∃ m, minTime q = some m ∧ (∀ y ∈ q, m ≤ y.time) ∧ ∃ y ∈ q, y.time = m := by
  induction q with
  | nil => left; exact ⟨rfl, rfl⟩
  | cons x xs ih =>
    right
    rcases ih with ⟨h, rfl⟩ | ⟨m, h, h1, y, hy, h2⟩
    · exact ⟨x.time, by simp [minTime], by simp, x, by simp, rfl⟩
    · simp only [minTime, h]
      by_cases hx : x.time ≤ m
      · refine ⟨x.time, by simp [hx], ?_, x, by simp, rfl⟩
        intro z hz; rcases List.mem_cons.1 hz with rfl | hz
        · exact le_refl _
        · exact le_trans hx (h1 z hz)
      · refine ⟨m, by simp [hx], ?_, y, List.mem_cons_of_mem _ hy, h2⟩
        intro z hz; rcases List.mem_cons.1 hz with rfl | hz
        · exact le_of_lt (not_le.1 hx)
        · exact h1 z hz

theorem pop_some {sel : Nat} {q : List QItem} {x : QItem} {q' : List QItem} (h : pop sel q = some (x, q')) :
    ∃ l1 l2, q = l1 ++ x :: l2 ∧ q' = l1 ++ l2 ∧ ∀ y ∈ q, x.time ≤ y.time := by
  unfold pop at h
  simp only at h
  split at h
  · cases h
  · rename_i i hi
    split at h
    · cases h
    · rename_i x' hx
      simp only [Option.some.injEq, Prod.mk.injEq] at h
      obtain ⟨h1, h2⟩ := h
      subst h1 h2
      have him : i ∈ minIdxs q := List.mem_of_getElem? hi
      unfold minIdxs at him
      rcases minTime_spec q with ⟨h0, _⟩ | ⟨m, h0, h1, _⟩
      · rw [h0] at him; simp at him
      · rw [h0] at him
        simp only [List.mem_filter, List.mem_range] at him
        obtain ⟨hlt, hm⟩ := him
        rw [hx] at hm
        simp only [Option.map_some, beq_iff_eq, Option.some.injEq] at hm
        obtain ⟨_, hxi⟩ := List.getElem?_eq_some_iff.1 hx
        refine ⟨q.take i, q.drop (i + 1), ?_, List.eraseIdx_eq_take_drop_succ .., ?_⟩
        · rw [← hxi, ← List.drop_eq_getElem_cons hlt, List.take_append_drop]
        · intro y hy; rw [hm]; exact h1 y hy

theorem mem_minIdxs_lt {q : List QItem} {i : Nat} (h : i ∈ minIdxs q) : i < q.length := by
  unfold minIdxs at h
  split at h
  · simp at h
  · simp only [List.mem_filter, List.mem_range] at h; exact h.1

theorem pop_none {sel : Nat} {q : List QItem} (h : pop sel q = none) : q = [] := by
  rcases minTime_spec q with ⟨_, h0⟩ | ⟨m, h0, _, y, hy, hym⟩
  · exact h0
  · exfalso
    obtain ⟨j, hj, hjy⟩ := List.getElem_of_mem hy
    have hjm : j ∈ minIdxs q := by
      unfold minIdxs; rw [h0]
      simp only [List.mem_filter, List.mem_range]
      refine ⟨hj, ?_⟩
      rw [List.getElem?_eq_getElem hj, hjy]; simp [hym]
    have hpos : 0 < (minIdxs q).length := List.length_pos_of_mem hjm
    have hlt : sel % (minIdxs q).length < (minIdxs q).length := Nat.mod_lt _ hpos
    unfold pop at h
    simp only at h
    rw [List.getElem?_eq_getElem hlt] at h
    simp only at h
    have hi : (minIdxs q)[sel % (minIdxs q).length] ∈ minIdxs q := List.getElem_mem hlt
    have hi2 : (minIdxs q)[sel % (minIdxs q).length] < q.length := mem_minIdxs_lt hi
    rw [List.getElem?_eq_getElem hi2] at h
    simp at h

/-! ### qadd / schedule -/

theorem qadd_eq (tmax : ERat) (q : List QItem) (t : Rat) (e : QEv) :
    qadd tmax q t e = q ++ (if ERat.lt (some t) tmax = true then [⟨t, e⟩] else []) := by
  unfold qadd; split <;> simp

theorem schedule_struct (tmax : ERat) (time : Rat) (src : Node) (recT : ERat) (l : List (Node × ERat))
    (pred : Node → ERat) (q : List QItem) :
    ∃ ex, (schedule tmax time src recT l pred q).2 = q ++ ex ∧ ex.length ≤ l.length ∧
      ∀ x ∈ ex, ∃ v d t, (v, d) ∈ l ∧ x = ⟨t, QEv.trans (some src) v⟩ ∧ ERat.add (some time) d = some t ∧
        ERat.lt (some t) tmax = true ∧ ERat.le (some t) recT = true := by
  induction l generalizing pred q with
  | nil => exact ⟨[], by simp [schedule], by simp, by simp⟩
  | cons a rest ih =>
    obtain ⟨v, d⟩ := a
    unfold schedule
    simp only
    split
    · rename_i hc
      split
      · rename_i t ht
        obtain ⟨ex, h1, h2, h3⟩ := ih (fset pred v (ERat.add (some time) d)) (qadd tmax q t (QEv.trans (some src) v))
        rw [h1, qadd_eq, List.append_assoc]
        refine ⟨_, rfl, ?_, ?_⟩
        · split <;> simp <;> omega
        · intro x hx
          rcases List.mem_append.1 hx with hx | hx
          · split at hx
            · rename_i hlt
              simp only [List.mem_singleton] at hx
              rw [ht] at hc
              exact ⟨v, d, t, List.mem_cons_self .., hx, ht, hlt, hc.1⟩
            · simp at hx
          · obtain ⟨v', d', t', g1, g2⟩ := h3 x hx
            exact ⟨v', d', t', List.mem_cons_of_mem _ g1, g2⟩
      · obtain ⟨ex, h1, h2, h3⟩ := ih (fset pred v (ERat.add (some time) d)) q
        refine ⟨ex, h1, by simp; omega, ?_⟩
        intro x hx
        obtain ⟨v', d', t', g1, g2⟩ := h3 x hx
        exact ⟨v', d', t', List.mem_cons_of_mem _ g1, g2⟩
    · obtain ⟨ex, h1, h2, h3⟩ := ih pred q
      refine ⟨ex, h1, by simp; omega, ?_⟩
      intro x hx
      obtain ⟨v', d', t', g1, g2⟩ := h3 x hx
      exact ⟨v', d', t', List.mem_cons_of_mem _ g1, g2⟩

theorem schedule_mono (tmax : ERat) (time : Rat) (src : Node) (recT : ERat) (l : List (Node × ERat))
    (pred : Node → ERat) (q : List QItem) (w : Node) :
    ERat.le ((schedule tmax time src recT l pred q).1 w) (pred w) = true := by
  induction l generalizing pred q with
  | nil => simp [schedule, ERat.le_refl]
  | cons a rest ih =>
    obtain ⟨v, d⟩ := a
    unfold schedule
    simp only
    have key : ∀ (q' : List QItem) (t : ERat), ERat.lt t (pred v) = true →
        ERat.le ((schedule tmax time src recT rest (fset pred v t) q').1 w) (pred w) = true := by
      intro q' t ht
      refine ERat.le_trans (ih _ _) ?_
      unfold fset
      split
      · rename_i hw; subst hw; exact ERat.le_of_lt ht
      · exact ERat.le_refl _
    split
    · rename_i hc
      split
      · exact key _ _ hc.2.1
      · rename_i ht; rw [ht] at hc; simp at hc
    · exact ih _ _

theorem schedule_le (tmax : ERat) (time : Rat) (src : Node) (recT : ERat) (l : List (Node × ERat))
    (pred : Node → ERat) (q : List QItem) (v : Node) (d : ERat) (t : Rat) (hm : (v, d) ∈ l)
    (ht : ERat.add (some time) d = some t) (h1 : ERat.le (some t) recT = true) (h2 : ERat.le (some t) tmax = true) :
    ERat.le ((schedule tmax time src recT l pred q).1 v) (some t) = true := by
  induction l generalizing pred q with
  | nil => simp at hm
  | cons a rest ih =>
    obtain ⟨v', d'⟩ := a
    rcases List.mem_cons.1 hm with heq | hm'
    · simp only [Prod.mk.injEq] at heq
      obtain ⟨rfl, rfl⟩ := heq
      unfold schedule
      simp only [ht]
      split
      · refine ERat.le_trans (schedule_mono ..) ?_
        simp [fset]
      · rename_i hc
        have : ERat.lt (some t) (pred v) = false := by
          cases hl : ERat.lt (some t) (pred v)
          · rfl
          · exact absurd ⟨h1, hl, h2⟩ hc
        exact ERat.le_trans (schedule_mono ..) (ERat.le_of_not_lt this)
    · unfold schedule
      simp only
      split
      · split
        · exact ih _ _ hm'
        · exact ih _ _ hm'
      · exact ih _ _ hm'

/-- the queue contains, for every still-susceptible node with a finite `pred` before `tmax`, an event at that time -/
def QJ (tmax : ERat) (Sset : Node → Prop) (pred : Node → ERat) (q : List QItem) : Prop :=
  ∀ v p, Sset v → pred v = some p → ERat.lt (some p) tmax = true →
    ∃ x ∈ q, x.time = p ∧ ∃ src, x.ev = QEv.trans src v

theorem schedule_QJ (tmax : ERat) (Sset : Node → Prop) (time : Rat) (src : Node) (recT : ERat)
    (l : List (Node × ERat)) (pred : Node → ERat) (q : List QItem) (h : QJ tmax Sset pred q) :
    QJ tmax Sset (schedule tmax time src recT l pred q).1 (schedule tmax time src recT l pred q).2 := by
  induction l generalizing pred q with
  | nil => exact h
  | cons a rest ih =>
    obtain ⟨v, d⟩ := a
    unfold schedule
    simp only
    split
    · rename_i hc
      split
      · rename_i t ht
        apply ih
        intro w p hw hp hlt
        unfold fset at hp
        split at hp
        · rename_i hwv
          subst hwv
          rw [ht] at hp
          injection hp with hp; subst hp
          refine ⟨⟨t, QEv.trans (some src) w⟩, ?_, rfl, some src, rfl⟩
          rw [qadd_eq, if_pos hlt]; simp
        · obtain ⟨x, hx, g⟩ := h w p hw hp hlt
          refine ⟨x, ?_, g⟩
          rw [qadd_eq]; exact List.mem_append_left _ hx
      · rename_i ht; rw [ht] at hc; simp at hc
    · exact ih _ _ h

/-! ### one step, component-wise -/

section StepC
variable (nodes : List Node) (nbrs : Node → List Node) (delay : Node → Node → ERat) (dur : Node → ERat)
  (tmin : Rat) (tmax : ERat)

/-- neighbours still susceptible when `tgt` is infected -/
def susB (st : Node → St) (tgt : Node) : List Node := (nbrs tgt).filter fun v => fset st tgt St.I v = St.S

/-- queue after the recovery of `tgt` has been scheduled -/
def q1B (q : List QItem) (time : Rat) (tgt : Node) : List QItem :=
  if ERat.le (ERat.add (some time) (dur tgt)) tmax then
    (match ERat.add (some time) (dur tgt) with
     | some t => qadd tmax q t (QEv.recov tgt)
     | none => q)
  else q

def schB (st : Node → St) (pr : Node → ERat) (q : List QItem) (time : Rat) (tgt : Node) :
    (Node → ERat) × List QItem :=
  schedule tmax time tgt (ERat.add (some time) (dur tgt)) ((susB nbrs st tgt).map fun v => (v, delay tgt v)) pr
    (q1B dur tmax q time tgt)

theorem q1B_spec (q : List QItem) (time : Rat) (tgt : Node) :
    ∃ r, q1B dur tmax q time tgt = q ++ r ∧ r.length ≤ 1 ∧
      (∀ x ∈ r, ∃ t, x = ⟨t, QEv.recov tgt⟩ ∧ ERat.add (some time) (dur tgt) = some t ∧ ERat.lt (some t) tmax = true) ∧
      (∀ t, ERat.add (some time) (dur tgt) = some t → ERat.lt (some t) tmax = true → (⟨t, QEv.recov tgt⟩ : QItem) ∈ r) := by
  unfold q1B
  cases hr : ERat.add (some time) (dur tgt) with
  | none => exact ⟨[], by simp, by simp, by simp, by simp⟩
  | some t =>
    by_cases hlt : ERat.lt (some t) tmax = true
    · have hle : ERat.le (some t) tmax = true := ERat.le_of_lt hlt
      refine ⟨[⟨t, QEv.recov tgt⟩], ?_, by simp, ?_, ?_⟩
      · rw [if_pos hle]; simp only; rw [qadd_eq, if_pos hlt]
      · intro x hx; simp only [List.mem_singleton] at hx; exact ⟨t, hx, rfl, hlt⟩
      · intro t' ht' _; injection ht' with ht'; subst ht'; simp
    · refine ⟨[], ?_, by simp, by simp, ?_⟩
      · split
        · simp only; rw [qadd_eq, if_neg hlt]
        · simp
      · intro t' ht' h'; injection ht' with ht'; subst ht'; exact absurd h' hlt

theorem processTrans_S (s : ESState) (time : Rat) (src : Option Node) (tgt : Node) (h : s.status tgt = St.S) :
    let s' := processTrans (tableParams nodes nbrs delay dur tmin tmax) s time src tgt
    s'.status = fset s.status tgt St.I ∧ s'.recTime = fset s.recTime tgt (ERat.add (some time) (dur tgt)) ∧
    s'.predInf = (schB nbrs delay dur tmax s.status s.predInf s.queue time tgt).1 ∧
    s'.queue = (schB nbrs delay dur tmax s.status s.predInf s.queue time tgt).2 ∧
    s'.trans = (time, src, tgt) :: s.trans := by
  unfold processTrans
  rw [if_pos h]
  exact ⟨rfl, rfl, rfl, rfl, rfl⟩

theorem processTrans_notS (P : ESParams) (s : ESState) (time : Rat) (src : Option Node) (tgt : Node)
    (h : s.status tgt ≠ St.S) : processTrans P s time src tgt = s := by
  simp only [processTrans, if_neg h]

/-- the three kinds of step -/
theorem step_some {sel : Nat} {s s' : ESState}
    (h : step (tableParams nodes nbrs delay dur tmin tmax) sel s = some s') :
    ∃ x l1 l2, s.queue = l1 ++ x :: l2 ∧ (∀ y ∈ s.queue, x.time ≤ y.time) ∧
      ((∃ src tgt, x.ev = QEv.trans src tgt ∧ s.status tgt ≠ St.S ∧ s'.status = s.status ∧ s'.recTime = s.recTime ∧
          s'.predInf = s.predInf ∧ s'.queue = l1 ++ l2 ∧ s'.trans = s.trans) ∨
       (∃ src tgt, x.ev = QEv.trans src tgt ∧ s.status tgt = St.S ∧ s'.status = fset s.status tgt St.I ∧
          s'.recTime = fset s.recTime tgt (ERat.add (some x.time) (dur tgt)) ∧
          s'.predInf = (schB nbrs delay dur tmax s.status s.predInf (l1 ++ l2) x.time tgt).1 ∧
          s'.queue = (schB nbrs delay dur tmax s.status s.predInf (l1 ++ l2) x.time tgt).2 ∧
          s'.trans = (x.time, src, tgt) :: s.trans) ∨
       (∃ u, x.ev = QEv.recov u ∧ s'.status = fset s.status u St.R ∧ s'.recTime = s.recTime ∧
          s'.predInf = s.predInf ∧ s'.queue = l1 ++ l2 ∧ s'.trans = s.trans)) := by
  unfold step at h
  split at h
  · cases h
  · rename_i x q hp
    obtain ⟨l1, l2, h1, h2, h3⟩ := pop_some hp
    refine ⟨x, l1, l2, h1, h3, ?_⟩
    subst h2
    simp only at h
    split at h
    · rename_i src tgt hev
      injection h with h
      by_cases hs : s.status tgt = St.S
      · right; left
        have := processTrans_S nodes nbrs delay dur tmin tmax { s with queue := l1 ++ l2 } x.time src tgt hs
        rw [h] at this
        exact ⟨src, tgt, hev, hs, this⟩
      · left
        rw [processTrans_notS _ { s with queue := l1 ++ l2 } _ _ _ hs] at h
        subst h
        exact ⟨src, tgt, hev, hs, rfl, rfl, rfl, rfl, rfl⟩
    · rename_i u hev
      injection h with h
      right; right
      subst h
      exact ⟨u, hev, rfl, rfl, rfl, rfl, rfl⟩

theorem step_none {P : ESParams} {sel : Nat} {s : ESState} (h : step P sel s = none) : s.queue = [] := by
  unfold step at h
  split at h
  · rename_i hp; exact pop_none hp
  · simp only at h
    split at h <;> cases h

end StepC

end EventSIR
