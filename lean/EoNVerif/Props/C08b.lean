import EoNVerif.Proofs.TreeExact
/-!
C08 (`SIR_pair_based` with a pure initial condition equals the exact master-equation expectation of S, I, R on every
tree) — mechanised for the two smallest trees, against an explicit master equation, over ℚ.

* `ODE.sirPairBased nbrs tr rr X Y XY XX` (`Model/ODE2.lean`) is the right-hand side `_dSIR_pair_based_`
  (`EoN/analytic.py` 1037–1113); it is tied to the source by `ODE.sir_pair_based_generated_eq_model`
  (`Props/GenLoops2.lean`).
* Index convention of that model, confirmed here both by proof and by evaluation (`example`s below):
  `XY i j = P(i susceptible ∧ j infectious)`, and `tr i j` is the rate at which infectious `j` infects susceptible `i`
  (the term `-(tr i j + rr j) * XY i j` of `dXY i j`); `rr i` is the recovery rate of `i`.  With the transposed
  convention the identities below are false (last `example` of Part A).
* `TreeExact.me2` / `TreeExact.me3` (`Proofs/TreeExact.lean`) are the Kolmogorov forward equations of the node-level
  SIR Markov chain on the edge `0 – 1` (9 joint states) and on the path `0 – 1 – 2` (27 joint states):
  `d/dt p(σ)` = inflow − outflow, a node moves `S → I` at rate `Σ_{infectious neighbours j} tr i j` and `I → R` at
  rate `rr i`.  `mX, mY, mXY, mXX` are the marginals the pair-based system tracks, as linear functionals of `p`; the
  time derivative of a marginal is the same functional applied to `me p`.

Results.
* Part A (`edge_exact`): on a single edge the pair-based system IS the marginal system of the master equation, for
  every `p` whatsoever (no closure enters, the triple sums are empty).
* Part B (`path_exact_given_closure`): on the path the same holds at every `p` with `P(1 = S) ≠ 0` for which the
  statuses of 0 and 2 are conditionally independent given that the middle node is susceptible (`TreeExact.Closure`).
  Exactly three instances of the relation are used (`(a,b) = (S,I), (I,I), (I,S)`), see `path_dXY`, `path_dXX`;
  `dX`, `dY` need nothing.
* The relation holds for every pure initial condition (`closure_holds_pure`), and it is propagated by the master
  equation: its defect `F a b = p a S b · P(1=S) − PA a · PB b` satisfies a homogeneous linear system
  `d/dt F = C(p) F` (`closure_invariant`, `closure_invariant_coeff`), and the 2×2 minors of the slice `p · S ·`
  (whose vanishing is equivalent to the relation, `closure_iff_minors`) satisfy a closed linear system with CONSTANT
  coefficients (`minors_invariant`).
* NOT mechanised (cited): uniqueness of solutions of linear ODE systems, which turns `minors_invariant` +
  `minors_pure` into "the relation holds along the whole solution of the master equation started at a pure state", and
  then `path_exact_given_closure` + uniqueness for the (locally Lipschitz where `X_1 ≠ 0`) pair-based system into
  "the pair-based solution equals the marginals of the master-equation solution".  Trees with more than three nodes
  are not covered.
-/
namespace TreeExact
open St

/-! ## Part A: single edge -/

/-- probability is conserved by the edge master equation: `Σ_{a,b} d/dt p(a,b) = 0`, for every `p` -/
theorem me2_conserves (tr : Nat → Nat → Rat) (rr : Nat → Rat) (p : St → St → Rat) :
    sumSt (fun a => sumSt fun b => me2 tr rr p a b) = 0 :=
  me2_conserves_aux tr rr p

/-- **C08, single edge.**  For arbitrary rates `tr 0 1`, `tr 1 0`, `rr 0`, `rr 1` and EVERY `p : St → St → ℚ` (no
positivity, no normalisation), the derivative under the master equation `me2` of each marginal
`X_i, Y_i, XY_{ij}, XX_{ij}` equals the corresponding component of `_dSIR_pair_based_` evaluated at the marginals of
`p` — as an equality of the whole output tuples (all `i`, `j`; off-edge cells and nodes `≥ 2` are `0` on both sides). -/
theorem edge_exact (tr : Nat → Nat → Rat) (rr : Nat → Rat) (p : St → St → Rat) :
    (mX2 (me2 tr rr p), mY2 (me2 tr rr p), mXY2 (me2 tr rr p), mXX2 (me2 tr rr p))
      = ODE.sirPairBased nbrs2 tr rr (mX2 p) (mY2 p) (mXY2 p) (mXX2 p) :=
  edge_exact_aux tr rr p

/-- the eight live components of `edge_exact`, written out -/
theorem edge_exact_components (tr : Nat → Nat → Rat) (rr : Nat → Rat) (p : St → St → Rat) :
    let m := ODE.sirPairBased nbrs2 tr rr (mX2 p) (mY2 p) (mXY2 p) (mXX2 p)
    mX2 (me2 tr rr p) 0 = m.1 0 ∧ mX2 (me2 tr rr p) 1 = m.1 1 ∧
    mY2 (me2 tr rr p) 0 = m.2.1 0 ∧ mY2 (me2 tr rr p) 1 = m.2.1 1 ∧
    mXY2 (me2 tr rr p) 0 1 = m.2.2.1 0 1 ∧ mXY2 (me2 tr rr p) 1 0 = m.2.2.1 1 0 ∧
    mXX2 (me2 tr rr p) 0 1 = m.2.2.2 0 1 ∧ mXX2 (me2 tr rr p) 1 0 = m.2.2.2 1 0 :=
  ⟨edge_dX tr rr p 0, edge_dX tr rr p 1, edge_dY tr rr p 0, edge_dY tr rr p 1,
   edge_dXY tr rr p 0 1, edge_dXY tr rr p 1 0, edge_dXX tr rr p 0 1, edge_dXX tr rr p 1 0⟩

/-! ### concrete evaluation (also fixes the index convention) -/
/-- asymmetric rates: `tr i j` = rate at which `j` infects `i` -/
def exTr : Nat → Nat → Rat := fun i j =>
  match i, j with
  | 0, 1 => 2 | 1, 0 => 3 | 1, 2 => 5 | 2, 1 => 7 | _, _ => 0
def exRr : Nat → Rat := fun i => (i + 1 : Rat) / 2
/-- a (non-product) probability vector on the 9 edge states -/
def exP2 : St → St → Rat
  | S, S => 1/10 | S, I => 2/10 | S, R => 1/20
  | I, S => 3/20 | I, I => 1/10 | I, R => 1/20
  | R, S => 1/10 | R, I => 3/20 | R, R => 1/10

example : sumSt (fun a => sumSt fun b => exP2 a b) = 1 := by
  simp [sumSt, exP2]; norm_num
/-- master-equation side: `d/dt P(0 = S, 1 = I) = −(tr 0 1 + rr 1)·p(S,I) = −(2 + 1)·(1/5)` -/
example : mXY2 (me2 exTr exRr exP2) 0 1 = -3/5 := by
  simp [mXY2, me2, leave2_0, leave2_1, ind, exTr, exRr, exP2]; norm_num
/-- code side: the same number -/
example : (ODE.sirPairBased nbrs2 exTr exRr (mX2 exP2) (mY2 exP2) (mXY2 exP2) (mXX2 exP2)).2.2.1 0 1 = -3/5 := by
  simp [ODE.sirPairBased, nbrs2, mXY2, exTr, exRr, exP2]; norm_num
/-- with the transposed reading of `tr` (`tr i j` = rate at which `i` infects `j`) the master equation gives a
different number (`−(3 + 1)/5`): the convention used in `me2` is the one of the code -/
example : mXY2 (me2 (fun i j => exTr j i) exRr exP2) 0 1 = -4/5 := by
  simp [mXY2, me2, leave2_0, leave2_1, ind, exTr, exRr, exP2]; norm_num

/-! ## Part B: path 0 – 1 – 2 -/

theorem me3_conserves (tr : Nat → Nat → Rat) (rr : Nat → Rat) (p : St → St → St → Rat) :
    sumSt (fun a => sumSt fun b => sumSt fun c => me3 tr rr p a b c) = 0 :=
  me3_conserves_aux tr rr p

/-- **C08, path of three nodes, given the closure relation.**  For arbitrary rates and every `p : St → St → St → ℚ`
with `X_1 = P(1 = S) ≠ 0` that satisfies `p a S b · X_1 = PA a · PB b` for all `a b`
(`PA a = Σ_b p a S b = P(0 = a, 1 = S)`, `PB b = Σ_a p a S b = P(1 = S, 2 = b)`), the derivative under the master
equation `me3` of every marginal equals the corresponding component of `_dSIR_pair_based_` at the marginals of `p`
(equality of the whole output tuples). -/
theorem path_exact_given_closure (tr : Nat → Nat → Rat) (rr : Nat → Rat) (p : St → St → St → Rat)
    (hx : mX3 p 1 ≠ 0)
    (hcl : ∀ a b : St, p a S b * mX3 p 1 = PA p a * PB p b) :
    (mX3 (me3 tr rr p), mY3 (me3 tr rr p), mXY3 (me3 tr rr p), mXX3 (me3 tr rr p))
      = ODE.sirPairBased nbrs3 tr rr (mX3 p) (mY3 p) (mXY3 p) (mXX3 p) :=
  path_exact_given_closure_aux tr rr p hx hcl

/-- which components need which instance of the relation: `dX`, `dY` none; `dXY 0 1`, `dXX 0 1`, `dXX 1 0` the
instance `(S, I)` (triple `S_0 S_1 I_2`); `dXY 1 0`, `dXY 1 2` the instance `(I, I)` (triple `I_0 S_1 I_2`);
`dXY 2 1`, `dXX 1 2`, `dXX 2 1` the instance `(I, S)` (triple `I_0 S_1 S_2`) -/
theorem path_exact_components (tr : Nat → Nat → Rat) (rr : Nat → Rat) (p : St → St → St → Rat) :
    let m := ODE.sirPairBased nbrs3 tr rr (mX3 p) (mY3 p) (mXY3 p) (mXX3 p)
    (∀ i, mX3 (me3 tr rr p) i = m.1 i) ∧ (∀ i, mY3 (me3 tr rr p) i = m.2.1 i) ∧
    (PS p ≠ 0 → p S S I * PS p = PA p S * PB p I →
      mXY3 (me3 tr rr p) 0 1 = m.2.2.1 0 1 ∧ mXX3 (me3 tr rr p) 0 1 = m.2.2.2 0 1 ∧
      mXX3 (me3 tr rr p) 1 0 = m.2.2.2 1 0) ∧
    (PS p ≠ 0 → p I S I * PS p = PA p I * PB p I →
      mXY3 (me3 tr rr p) 1 0 = m.2.2.1 1 0 ∧ mXY3 (me3 tr rr p) 1 2 = m.2.2.1 1 2) ∧
    (PS p ≠ 0 → p I S S * PS p = PA p I * PB p S →
      mXY3 (me3 tr rr p) 2 1 = m.2.2.1 2 1 ∧ mXX3 (me3 tr rr p) 1 2 = m.2.2.2 1 2 ∧
      mXX3 (me3 tr rr p) 2 1 = m.2.2.2 2 1) :=
  ⟨path_dX tr rr p, path_dY tr rr p,
   fun hx h => ⟨path_dXY_01 tr rr p hx h, path_dXX_01 tr rr p hx h, path_dXX_10 tr rr p hx h⟩,
   fun hx h => ⟨path_dXY_10 tr rr p hx h, path_dXY_12 tr rr p hx h⟩,
   fun hx h => ⟨path_dXY_21 tr rr p hx h, path_dXX_12 tr rr p hx h, path_dXX_21 tr rr p hx h⟩⟩

/-- the relation holds whenever the slice `1 = S` of `p` has product form -/
theorem closure_holds_prod (p : St → St → St → Rat) (u v : St → Rat) (h : ∀ a b, p a S b = u a * v b) :
    ∀ a b : St, p a S b * PS p = PA p a * PB p b :=
  closure_holds_prod_aux p u v h

/-- **a pure (point-mass) initial condition satisfies the closure relation** -/
theorem closure_holds_pure (a0 b0 c0 : St) :
    ∀ a b : St, pure3 a0 b0 c0 a S b * PS (pure3 a0 b0 c0) = PA (pure3 a0 b0 c0) a * PB (pure3 a0 b0 c0) b :=
  closure_holds_pure_aux a0 b0 c0

/-- `dFcl p v` is the derivative of the defect `Fcl` at `p` in direction `v`: the first-order coefficient of the
(exact, quadratic) expansion of `Fcl (p + e·v)` -/
theorem Fcl_derivative (p v : St → St → St → Rat) (e : Rat) (a b : St) :
    Fcl (fun x y z => p x y z + e * v x y z) a b = Fcl p a b + e * dFcl p v a b + e ^ 2 * Fcl v a b :=
  Fcl_expand p v e a b

/-- **The closure relation is infinitesimally invariant under the master equation.**  With
`F a b = p a S b · P(1=S) − PA a · PB b` and `d/dt F = dFcl p (me3 tr rr p)`, for EVERY `p`:
`P(1=S) · d/dt F a b` is the displayed linear combination of the `F a' b'`, coefficients polynomial in `p` and the
rates.  (`M0`, `M2`: nodes 0 and 2 can only recover while 1 is susceptible, and the slice loses mass at rate
`tr 1 0·[0 = I] + tr 1 2·[2 = I]`.)  The factor `P(1=S)` cannot be dropped with polynomial coefficients. -/
theorem closure_invariant (tr : Nat → Nat → Rat) (rr : Nat → Rat) (p : St → St → St → Rat) (a b : St) :
    PS p * dFcl p (me3 tr rr p) a b =
      PS p * (sumSt (fun x => M0 tr rr a x * Fcl p x b) + sumSt (fun y => M2 tr rr b y * Fcl p a y))
      - tr 1 0 * (PA p I * Fcl p a b - PA p a * Fcl p I b)
      - tr 1 2 * (PB p I * Fcl p a b - PB p b * Fcl p a I) :=
  closure_invariant_aux tr rr p a b

/-- the same with explicit coefficient functions `cF` (rational in `p`): wherever `P(1 = S) ≠ 0`,
`d/dt F a b = Σ_{a',b'} cF a b a' b' · F a' b'` -/
theorem closure_invariant_coeff (tr : Nat → Nat → Rat) (rr : Nat → Rat) (p : St → St → St → Rat) (hx : PS p ≠ 0)
    (a b : St) :
    dFcl p (me3 tr rr p) a b = sumSt fun a' => sumSt fun b' => cF tr rr p a b a' b' * Fcl p a' b' :=
  closure_invariant_coeff_aux tr rr p hx a b

/-- the relation is equivalent to the vanishing of all 2×2 minors of the slice `(a,b) ↦ p a S b` (where
`P(1=S) ≠ 0`) -/
theorem closure_iff_minors (p : St → St → St → Rat) (hx : PS p ≠ 0) :
    (∀ a b : St, p a S b * PS p = PA p a * PB p b) ↔ ∀ a b a' b', Gm p a b a' b' = 0 :=
  ⟨fun h => minors_of_closure_aux p hx h, closure_of_minors_aux p⟩

/-- **The minors obey a closed linear system with constant coefficients** (`dGm p v` = derivative of the minor in
direction `v`, `Gm_expand`): with linear-ODE uniqueness, minors that vanish initially vanish forever, with no
condition on `P(1=S)`. -/
theorem minors_invariant (tr : Nat → Nat → Rat) (rr : Nat → Rat) (p : St → St → St → Rat) (a b a' b' : St) :
    dGm p (me3 tr rr p) a b a' b' =
      sumSt (fun x => M0 tr rr a x * Gm p x b a' b') + sumSt (fun x => M0 tr rr a' x * Gm p a b x b')
      + sumSt (fun y => M2 tr rr b y * Gm p a y a' b') + sumSt (fun y => M2 tr rr b' y * Gm p a b a' y) :=
  minors_invariant_aux tr rr p a b a' b'

theorem minors_pure (a0 b0 c0 a b a' b' : St) : Gm (pure3 a0 b0 c0) a b a' b' = 0 :=
  minors_pure_aux a0 b0 c0 a b a' b'

/-! ### concrete instances -/

/-- pure initial condition "node 0 infectious, nodes 1, 2 susceptible": hypotheses of `path_exact_given_closure` hold -/
example : mX3 (pure3 I S S) 1 ≠ 0 := by
  simp [mX3, pure3, sumSt, ind]
example :
    (mX3 (me3 exTr exRr (pure3 I S S)), mY3 (me3 exTr exRr (pure3 I S S)), mXY3 (me3 exTr exRr (pure3 I S S)),
      mXX3 (me3 exTr exRr (pure3 I S S)))
    = ODE.sirPairBased nbrs3 exTr exRr (mX3 (pure3 I S S)) (mY3 (pure3 I S S)) (mXY3 (pure3 I S S))
        (mXX3 (pure3 I S S)) :=
  path_exact_given_closure exTr exRr _ (by simp [mX3, pure3, sumSt, ind]) (closure_holds_pure I S S)
/-- at that state node 1 is being infected by node 0 at rate `tr 1 0 = 3`: `d/dt P(1 = S, 0 = I) = −(tr 1 0 + rr 0) = −7/2` -/
example : mXY3 (me3 exTr exRr (pure3 I S S)) 1 0 = -7/2 := by
  simp [mXY3, me3, leave3_0, leave3_1, leave3_2, pure3, sumSt, ind, exTr, exRr]; norm_num
example : (ODE.sirPairBased nbrs3 exTr exRr (mX3 (pure3 I S S)) (mY3 (pure3 I S S)) (mXY3 (pure3 I S S))
        (mXX3 (pure3 I S S))).2.2.1 1 0 = -7/2 := by
  simp [ODE.sirPairBased, ODE.xinv, nbrs3, mX3, mXY3, pure3, sumSt, ind, exTr, exRr]; norm_num

/-- a mixed state with a genuinely used closure term: `p a b c = u a · m b · v c` on the slice `b = S`, arbitrary
(here: zero) elsewhere -/
def exU : St → Rat | S => 1/2 | I => 1/3 | R => 1/6
def exV : St → Rat | S => 1/4 | I => 1/2 | R => 1/4
def exP3 : St → St → St → Rat := fun a b c => if b = S then exU a * exV c else 0

example : mX3 exP3 1 = 1 := by
  simp [mX3, exP3, exU, exV, sumSt]; norm_num
/-- master equation: `d/dt P(0 = S, 1 = I) = tr 1 2 · p(S,S,I) = 5 · (1/2 · 1/2)` (no `S_0 I_1` mass yet) -/
example : mXY3 (me3 exTr exRr exP3) 0 1 = 5/4 := by
  simp [mXY3, me3, leave3_0, leave3_1, leave3_2, exP3, exU, exV, sumSt, ind, exTr, exRr]; norm_num
/-- code: `tr 1 2 · XX 0 1 · XY 1 2 / X 1 = 5 · (1/2) · (1/2) / 1` -/
example : (ODE.sirPairBased nbrs3 exTr exRr (mX3 exP3) (mY3 exP3) (mXY3 exP3) (mXX3 exP3)).2.2.1 0 1 = 5/4 := by
  simp [ODE.sirPairBased, ODE.xinv, nbrs3, mX3, mXY3, mXX3, exP3, exU, exV, sumSt, exTr, exRr]; norm_num
example : ∀ a b : St, exP3 a S b * mX3 exP3 1 = PA exP3 a * PB exP3 b :=
  closure_holds_prod exP3 exU exV (fun a b => by simp [exP3])

/-- the hypothesis cannot be dropped: for the anticorrelated state `½ δ_{(S,S,I)} + ½ δ_{(I,S,S)}` the relation fails and
the pair-based right-hand side differs from the master equation (`5/2` against `5/4`) -/
def exBad : St → St → St → Rat := fun a b c => (pure3 S S I a b c + pure3 I S S a b c) / 2
example : mXY3 (me3 exTr exRr exBad) 0 1 = 5/2 := by
  simp [mXY3, me3, leave3_0, leave3_1, leave3_2, exBad, pure3, sumSt, ind, exTr, exRr]; norm_num
example : (ODE.sirPairBased nbrs3 exTr exRr (mX3 exBad) (mY3 exBad) (mXY3 exBad) (mXX3 exBad)).2.2.1 0 1 = 5/4 := by
  simp [ODE.sirPairBased, ODE.xinv, nbrs3, mX3, mXY3, mXX3, exBad, pure3, sumSt, ind, exTr, exRr]; norm_num
example : ¬ (exBad S S I * PS exBad = PA exBad S * PB exBad I) := by
  simp [PS, PA, PB, exBad, pure3, sumSt, ind]

end TreeExact
