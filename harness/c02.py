"""C02 — Markovian SIS simulators sample the exact SIS chain."""
import common, gillcheck, fastsis


def run(ctx):
    drv = common.LeanDriver()
    gillcheck.correspondence(ctx, drv, True, ctx.scale(1500, 6000), "Gillespie_SIS")
    cases = gillcheck.law_cases(ctx, True, ctx.scale(3, 4), ctx.scale(30, 300))
    if not ctx.thorough:
        cases = ctx.rng.sample(cases, min(len(cases), 150))
    gillcheck.law_check(ctx, drv, True, cases, "Gillespie_SIS")
    fastsis.correspondence(ctx, drv, ctx.scale(600, 3000))
    if any(st.startswith("fast_SIS") for st, _ in ctx.disagreements) and not ctx.violations:
        # correspondence broke without a property-level failure so far: search for a concrete failing input
        fastsis.law_search(ctx)
