import EoNVerif.Basic
/-!
Right-hand sides of the ODE models of `EoN.analytic`, as coded (not as in the book).  Scalars are `Rat`; degree-class
vectors are functions `Nat → Rat` used on indices `0..K-1`; node vectors likewise on `0..N-1`.  Lean's `x / 0 = 0`
differs from NumPy's `nan/inf`: theorems that involve a quotient carry the hypothesis that the denominator is
non-zero; the correspondence harness only evaluates at states with non-zero denominators.
-/
namespace ODE

def sumTo (K : Nat) (f : Nat → Rat) : Rat := sumRat ((List.range K).map f)
def kf (k : Nat) : Rat := (k : Rat)

/-! ### homogeneous mean-field (1688–1700) -/
/-- `_dSIS_homogeneous_meanfield_`: state (S, I) -/
def sisHomMF (nN tau gamma S I : Rat) : Rat × Rat :=
  let dS := gamma * I - tau * nN * S * I
  (dS, -dS)
/-- `_dSIR_homogeneous_meanfield_`: state (S, I); R = N - S - I afterwards -/
def sirHomMF (nN tau gamma S I : Rat) : Rat × Rat :=
  (-tau * nN * S * I, tau * nN * S * I - gamma * I)

/-! ### homogeneous pairwise (1933–1969) -/
/-- `_dSIS_homogeneous_pairwise_`: state (S, SI, SS) -/
def sisHomPW (N n tau gamma S SI SS : Rat) : Rat × Rat × Rat :=
  let I := N - S
  let II := N * n - SS - 2 * SI
  let c := (n - 1) / n
  (gamma * I - tau * SI,
   gamma * (II - SI) + tau * c * SI * (SS - SI) / S - tau * SI,
   2 * gamma * SI - 2 * tau * c * SI * SS / S)
/-- `_dSIR_homogeneous_pairwise_`: state (S, I, SI, SS) -/
def sirHomPW (n tau gamma S I SI SS : Rat) : Rat × Rat × Rat × Rat :=
  let c := (n - 1) / n
  (-tau * SI, tau * SI - gamma * I,
   -gamma * SI + tau * c * SI * (SS - SI) / S - tau * SI,
   -2 * tau * c * SI * SS / S)

/-! ### heterogeneous mean-field (2330–2352) -/
/-- `_dSIS_heterogeneous_meanfield_`: state (S_k, I_k) -/
def piI (K : Nat) (S I : Nat → Rat) : Rat :=
  sumTo K (fun k => kf k * I k) / sumTo K (fun k => kf k * (I k + S k))
def sisHetMF (K : Nat) (tau gamma : Rat) (S I : Nat → Rat) : (Nat → Rat) × (Nat → Rat) :=
  let p := piI K S I
  (fun k => gamma * I k - tau * kf k * S k * p, fun k => tau * kf k * S k * p - gamma * I k)
/-- `_dSIR_heterogeneous_meanfield_`: state (theta, R_k) with parameters S0_k, N_k -/
def sirHetMF (K : Nat) (tau gamma : Rat) (S0 Nk : Nat → Rat) (theta : Rat) (R : Nat → Rat) : Rat × (Nat → Rat) :=
  let Sk := fun k => S0 k * theta ^ k
  let Ik := fun k => Nk k - Sk k - R k
  let p := sumTo K (fun k => kf k * Ik k) / sumTo K (fun k => kf k * Nk k)
  (-tau * p * theta, fun k => gamma * Ik k)

/-! ### compact pairwise (3215–3247) -/
/-- `_dSIS_compact_pairwise_`: state (S_k, SI, SS) with parameters N_k, twoM -/
def sisCompactPW (K : Nat) (tau gamma twoM : Rat) (Nk S : Nat → Rat) (SI SS : Rat) : (Nat → Rat) × Rat × Rat :=
  let II := twoM - SS - 2 * SI
  let SX := sumTo K (fun k => kf k * S k)
  let Q := (1 / SX ^ 2) * sumTo K (fun k => kf k * (kf k - 1) * S k)
  (fun k => gamma * (Nk k - S k) - tau * kf k * S k * SI / SX,
   gamma * (II - SI) + tau * (SS - SI) * SI * Q - tau * SI,
   2 * gamma * SI - 2 * tau * SS * SI * Q)
/-- `_dSIR_compact_pairwise_`: state (S_k, SS, SI, R) with parameter N -/
def sirCompactPW (K : Nat) (tau gamma N : Rat) (S : Nat → Rat) (SS SI R : Rat) : (Nat → Rat) × Rat × Rat × Rat :=
  let SX := sumTo K (fun k => kf k * S k)
  let Q := sumTo K (fun k => kf k * (kf k - 1) * S k) / SX ^ 2
  let I := N - sumTo K S - R
  (fun k => -tau * kf k * S k * SI / SX,
   -2 * tau * SS * SI * Q,
   -gamma * SI + tau * (SS - SI) * SI * Q - tau * SI,
   gamma * I)

/-! ### generating functions with explicit coefficients: psihat(x) = Σ_k c_k x^k -/
def psiH (K : Nat) (c : Nat → Rat) (x : Rat) : Rat := sumTo K (fun k => c k * x ^ k)
def psiHP (K : Nat) (c : Nat → Rat) (x : Rat) : Rat := sumTo K (fun k => kf k * c k * x ^ (k - 1))
def psiHDP (K : Nat) (c : Nat → Rat) (x : Rat) : Rat := sumTo K (fun k => kf k * (kf k - 1) * c k * x ^ (k - 2))

/-! ### super-compact pairwise (3557–3603) -/
/-- `_dSIR_super_compact_pairwise_`: state (theta, SS, SI, R) -/
def sirSuperCompactPW (K : Nat) (c : Nat → Rat) (tau gamma N theta SS SI R : Rat) : Rat × Rat × Rat × Rat :=
  let S := N * psiH K c theta
  let I := N - S - R
  let Q := psiHDP K c theta / (N * psiHP K c theta ^ 2)
  (-tau * SI / (N * psiHP K c theta),
   -2 * tau * SS * SI * Q,
   -gamma * SI + tau * (SS - SI) * SI * Q - tau * SI,
   gamma * I)
/-- `_dSIS_super_compact_pairwise_`: state (I, SS, SI, II) -/
def sisSuperCompactPW (tau gamma N k1 k2 k3 I SS SI II : Rat) : Rat × Rat × Rat × Rat :=
  let S := N - I
  let nS := (SS + SI) / S
  let Q := ((k2 * (k2 - nS * k1) + k3 * (nS - k1)) / (nS * (k2 - k1 ^ 2)) - 1) / (S * nS)
  (tau * SI - gamma * I,
   2 * gamma * SI - 2 * tau * SI * SS * Q,
   gamma * (II - SI) + tau * SI * (SS - SI) * Q - tau * SI,
   -2 * gamma * II + 2 * tau * SI ^ 2 * Q + 2 * tau * SI)

/-! ### EBCM (5162–5172) -/
/-- `_dEBCM_`: state (theta, R) -/
def ebcm (K : Nat) (c : Nat → Rat) (N tau gamma phiS0 phiR0 theta R : Rat) : Rat × Rat :=
  let S := N * psiH K c theta
  (-tau * theta + tau * phiS0 * psiHP K c theta / psiHP K c 1 + gamma * (1 - theta) + tau * phiR0,
   gamma * (N - S - R))

/-- one step of `EBCM_discrete` (4998–5007): (theta, S, I, R) ↦ next -/
def ebcmDiscreteStep (K : Nat) (c : Nat → Rat) (N p phiS0 phiR0 theta I R : Rat) : Rat × Rat × Rat × Rat :=
  let th' := (1 - p) + p * (phiR0 + phiS0 * psiHP K c theta / psiHP K c 1)
  let R' := R + I
  let S' := N * psiH K c th'
  (th', S', N - R' - S', R')

/-- the iteration map of `Attack_rate_cts_time` (4862–4865) -/
def attackCtsMap (K : Nat) (c : Nat → Rat) (tau gamma phiS0 phiR0 omega : Rat) : Rat :=
  gamma / (gamma + tau) + tau * phiS0 * psiHP K c omega / (psiHP K c 1 * (gamma + tau)) + tau * phiR0 / (gamma + tau)
/-- the iteration map of `Attack_rate_discrete` (4748) -/
def attackDiscMap (K : Nat) (c : Nat → Rat) (p phiS0 phiR0 theta : Rat) : Rat :=
  1 - p + p * (phiR0 + phiS0 * psiHP K c theta / psiHP K c 1)

/-! ### individual-based (471–510): node vectors, `nbrs i` = neighbour indices, rates as functions -/
def sisIndividual (nbrs : Nat → List Nat) (tr : Nat → Nat → Rat) (rr : Nat → Rat) (Y : Nat → Rat) : Nat → Rat :=
  fun i => sumRat ((nbrs i).map fun j => tr i j * (1 - Y i) * Y j) - rr i * Y i
def sirIndividual (nbrs : Nat → List Nat) (tr : Nat → Nat → Rat) (rr : Nat → Rat) (X Y : Nat → Rat) :
    (Nat → Rat) × (Nat → Rat) :=
  let dX := fun i => -X i * sumRat ((nbrs i).map fun j => tr i j * Y j)
  (dX, fun i => -dX i - rr i * Y i)

/-! ### compact effective degree SIR (4345–4358) -/
def sirCompactED (K : Nat) (tau gamma N : Rat) (Sk : Nat → Rat) (R SI : Rat) : (Nat → Rat) × Rat × Rat :=
  let I := N - R - sumTo K Sk
  let eff := SI / sumTo K (fun k => Sk k * kf k)
  (fun k => eff * (-(tau + gamma) * kf k * Sk k + gamma * (if k + 1 < K then kf (k + 1) * Sk (k + 1) else 0)),
   gamma * I,
   -(tau + gamma) * SI + tau * (eff - 2 * eff ^ 2) * sumTo K (fun k => kf k * (kf k - 1) * Sk k))

end ODE
