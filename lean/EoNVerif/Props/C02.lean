import EoNVerif.Props.C01
import EoNVerif.Props.C02b
/-!
C02 — `Gillespie_SIS`.  The model is the same parametrised one (`P.sis = true`); the theorems of `Props/C01` are
stated for both variants.  This file instantiates them for SIS and adds the SIS-specific facts: a recovering node
returns to `S` (and can be reinfected by the same or another neighbour: it re-enters the candidate link list for each
infectious neighbour), and no node is ever `R`.
-/
namespace Gillespie

/-- SIS: invariant for every tape prefix -/
theorem gSIS_run_inv (P : GParams) (hsis : P.sis = true) (h : WF P) (infs : List Node) (tmin : Rat) (tmax : ERat)
    (fuel cfuel : Nat) (hi : infs.Nodup) (him : ∀ u ∈ infs, u ∈ P.nodes) (ts ts' : TapeSt) (s' : GState)
    (hrun : run P infs [] tmin tmax fuel cfuel ts = .ok (s', ts')) : Inv P s' :=
  run_inv P h infs [] tmin tmax fuel cfuel hi him (by simp) (by simp) (fun _ => rfl) ts ts' s' hrun

/-- SIS: a recovering node becomes susceptible again and is immediately a candidate target of each of its
infectious neighbours (reinfection by the same or other neighbours) -/
theorem gSIS_recover_reenters (P : GParams) (hsis : P.sis = true) (h : WF P) (s : GState) (hs : Inv P s)
    (u : Node) (t : Rat) (hu : u ∈ s.inf.items) :
    ∃ s', applyRec P s u t = some s' ∧ s'.status u = St.S ∧
      ∀ v, v ∈ P.nodes → s.status v = St.I → v ≠ u → u ∈ P.nbrs v → (v, u) ∈ s'.links.items := by
  obtain ⟨s', h1, h2, h3⟩ := applyRec_inv P h s hs u t hu
  refine ⟨s', h1, ?_, ?_⟩
  · rw [h3]; simp [Chain.apply, fset, hsis]
  · intro v hv hvI hne hnb
    rw [h2.link_items]
    refine ⟨hv, ?_, hnb, ?_⟩
    · rw [h3]; simp [Chain.apply, fset, hne, hvI]
    · rw [h3]; simp [Chain.apply, fset, hsis]

/-- SIS: clock and jump law (instances of the general theorems) -/
theorem gSIS_clock (P : GParams) (_hsis : P.sis = true) (h : WF P) (s : GState) (hs : Inv P s) :
    totalRate P s = Chain.totalRate P s.status := clock_eq P h s hs

theorem gSIS_jump_law_trans (P : GParams) (_hsis : P.sis = true) (h : WF P) (s : GState) (hs : Inv P s)
    (hpos : 0 < totalRate P s) (u v : Node) (huv : (u, v) ∈ s.links.items) (k : Nat) (hk : 0 < k) :
    Dist.mass (pickDist P s k) (fun o => o == some (GEvent.transmit u v)) =
      Chain.edgeRate P u v / Chain.totalRate P s.status *
        (if s.links.weighted then 1 - s.links.rejProb ^ k else 1) := jump_law_trans P h s hs hpos u v huv k hk

theorem gSIS_jump_law_rec (P : GParams) (_hsis : P.sis = true) (h : WF P) (s : GState) (hs : Inv P s)
    (hpos : 0 < totalRate P s) (u : Node) (hu : u ∈ s.inf.items) (k : Nat) (hk : 0 < k) :
    Dist.mass (pickDist P s k) (fun o => o == some (GEvent.recover u)) =
      Chain.nodeRate P u / Chain.totalRate P s.status *
        (if s.inf.weighted then 1 - s.inf.rejProb ^ k else 1) := jump_law_rec P h s hs hpos u hu k hk

/-- SIS never produces a recovered node -/
theorem gSIS_no_R (P : GParams) (hsis : P.sis = true) (s : GState) (hs : Inv P s) (u : Node) : s.status u ≠ St.R :=
  hs.sis_noR hsis u

end Gillespie
