import DriverCC
partial def loopCC (h : IO.FS.Stream) (out : IO.FS.Stream) : IO Unit := do
  let line ← h.getLine
  if line.isEmpty then return ()
  out.putStrLn (DrvGenCC.handle line)
  loopCC h out
def main : IO Unit := do loopCC (← IO.getStdin) (← IO.getStdout)
