"""Generated-code stream for the `*_from_graph` wrappers of EoN/analytic.py (harness/pywrap2lean.py -> Gen/WrapGen.lean,
driver `driverwrap`).  The real wrapper is called with its base function replaced by a recorder, so the positional and
keyword arguments it passes are observed exactly (bound to the base function's own signature, defaults applied); the Lean
function regenerated from the wrapper's source computes the same record on the same graph and the same calling convention
(explicit infected / recovered lists, rho, neither, both, a foreign node, overlapping sets, duplicates).  Numbers are
compared to 1e-10 relative (the generated code computes in exact rationals), arrays entrywise, dicts with their key
order, function-valued arguments (psihat, …) by their values / exceptions at a few points, exceptions by class name.
For the wrappers whose base function also has generated code without an ODE solver (final size, discrete-time EBCM) the
composed generated function is run against the real, unpatched wrapper as well; the keyword defaults of every wrapper
are compared once."""
import ast, inspect, json, os, subprocess, fcntl
from fractions import Fraction as F
import numpy as np, networkx as nx
import common, gen, genhelp
from common import rs
from genhelp import close, attempt, q

XS = [F(0), F(1, 4), F(1, 2), F(1)]


def base_of(fns, name):
    """the base function a wrapper ends in (followed through wrapper-to-wrapper forwarding)"""
    seen = set()
    while name.endswith("_from_graph") and name not in seen:
        seen.add(name)
        last = fns[name].body[-1]
        if not (isinstance(last, ast.Return) and isinstance(last.value, ast.Call) and isinstance(last.value.func, ast.Name)):
            return None
        name = last.value.func.id
    return name


def conv(v):
    """captured Python value -> comparable form"""
    if callable(v):
        return ("fn", [attempt(lambda x=x: v(float(x))) for x in XS])
    if v is None:
        return ("none", None)
    if isinstance(v, (bool, np.bool_)):
        return ("bool", bool(v))
    if isinstance(v, dict):
        if any(isinstance(x, dict) for x in v.values()):
            return ("ddict", {int(k): {int(a): float(b) for a, b in row.items()} for k, row in v.items()})
        return ("dict", [(int(k), float(x)) for k, x in v.items()])
    if isinstance(v, np.ndarray) and v.ndim == 2:
        return ("mat", [[float(x) for x in row] for row in v])
    if isinstance(v, (np.ndarray, list, tuple)):
        return ("vec", [float(x) for x in v])
    return ("num", float(v))


def differ(kind, a, g):
    """a: converted implementation value, g: the driver's JSON value -> None or a description"""
    try:
        if kind == "none":
            return None if g is None else "expected None"
        if g is None:
            return "generated None"
        if kind == "bool":
            return None if g is a else "bool"
        if kind == "num":
            return None if not isinstance(g, (list, dict, bool)) and close(F(g), a) else "value %r vs %s" % (a, g)
        if kind == "vec":
            return None if isinstance(g, list) and len(g) == len(a) and all(close(F(x), y) for x, y in zip(g, a)) else "array %r vs %s" % (a, g)
        if kind == "mat":
            ok = isinstance(g, list) and len(g) == len(a) and all(len(r1) == len(r2) and all(close(F(x), y) for x, y in zip(r1, r2)) for r1, r2 in zip(g, a))
            return None if ok else "2-d array"
        if kind == "dict":
            ok = isinstance(g, list) and [k for k, _ in g] == [k for k, _ in a] and all(close(F(x), y) for (_, x), (_, y) in zip(g, a))
            return None if ok else "dict %r vs %s" % (a, g)
        if kind == "ddict":
            gd = {k: {b: F(x) for b, x in row} for k, row in g}
            ok = set(gd) == set(a) and all(set(gd[k]) == set(a[k]) and all(close(gd[k][b], a[k][b]) for b in a[k]) for k in a)
            return None if ok else "dict of dicts"
        if kind == "fn":
            for x, ai, gi in zip(XS, a, g):
                if ai["ok"] != bool(gi.get("ok")) or (not ai["ok"] and ai["err"] != gi.get("err")) or (ai["ok"] and not close(F(gi["value"]), ai["val"])):
                    return "f(%s): impl %s generated %s" % (x, ai.get("err", ai.get("val")), gi.get("err", gi.get("value")))
            return None
    except (TypeError, ValueError, KeyError, AttributeError) as e:
        return "shape (%s)" % type(e).__name__
    return "kind " + kind


def calling_convention(r, G, params):
    nodes = list(G)
    has_rec = "initial_recovereds" in params
    has_inf = "initial_infecteds" in params
    styles = ["rho", "neither", "neither"]
    if has_inf:
        styles += ["infs", "infs", "infs", "dups", "foreign", "empty-infs", "both"]
    if has_rec:
        styles += ["infs+recs", "infs+recs", "recs-only", "rho+recs", "overlap", "foreign-rec", "dup-recs"]
    style = r.choice(styles)
    kw = {}
    pick = lambda lo=0: r.sample(nodes, r.randint(min(lo, len(nodes)), len(nodes))) if nodes else []
    far = max(nodes, default=0) + 3
    if style in ("rho", "both", "rho+recs"):
        kw["rho"] = r.choice([F(0), F(1, 4), F(1, 2), F(1)])
    if style in ("infs", "both", "infs+recs"):
        kw["initial_infecteds"] = pick()
    if style == "empty-infs":
        kw["initial_infecteds"] = []
    if style == "dups":
        l = pick(1)
        kw["initial_infecteds"] = l + l[:1] if l else []
    if style == "foreign":
        l = pick()
        l.insert(r.randint(0, len(l)), far)
        kw["initial_infecteds"] = l
    if style in ("infs+recs", "recs-only", "rho+recs"):
        rest = [u for u in nodes if u not in kw.get("initial_infecteds", [])]
        kw["initial_recovereds"] = r.sample(rest, r.randint(0, len(rest)))
    if style == "overlap":
        l = pick(1)
        kw["initial_infecteds"] = l
        kw["initial_recovereds"] = (l[:1] + r.sample(nodes, r.randint(0, len(nodes)))) if l else []
    if style == "foreign-rec":
        kw["initial_infecteds"] = pick()
        kw["initial_recovereds"] = [far]
    if style == "dup-recs":
        l = pick(1)
        kw["initial_infecteds"] = [u for u in nodes if u not in l][:2]
        kw["initial_recovereds"] = l + l[:1]
    return style, kw


def run_stream(ctx):
    import pywrap2lean, EoN.analytic as an
    lean = common.LEAN
    os.makedirs(os.path.join(lean, ".audit"), exist_ok=True)
    # the wrappers call the code generated from the initial-condition builders, the degree helpers and the ODE entry points:
    # bring those files up to date first (each under its owner's lock)
    dep = {}
    for lockname, mods in (("geninit.lock", ["pyinit2lean"]), ("genhelp.lock", ["pyhelp2lean"]), ("gen_py2lean.lock", ["py2lean", "pyglue2lean"])):
        with open(os.path.join(lean, ".audit", lockname), "w") as lock:
            fcntl.flock(lock, fcntl.LOCK_EX)
            for m in mods:
                try:
                    dep.update({m + ":" + k: v for k, v in __import__(m).regenerate()[1].items()})
                except Exception as e:
                    dep[m] = "crashed: %r" % e
    with open(os.path.join(lean, ".audit", "genwrap.lock"), "w") as lock:
        fcntl.flock(lock, fcntl.LOCK_EX)
        try:
            _, errors = pywrap2lean.regenerate()
        except Exception as e:
            errors = {"translator": "crashed: %r" % e}
        errors.update(dep)
        if errors:
            ctx.disagreement("generated-wrappers:translation", dict(entry="from_graph wrappers", errors=errors))
            return
        p = common.lake(["build", "driverwrap"])
    if p.returncode != 0:
        ctx.disagreement("generated-wrappers:build", dict(entry="from_graph wrappers", log="\n".join(
            l for l in (p.stdout + p.stderr).splitlines() if "error" in l)[:1500]))
        return
    src = open(os.path.join(common.REPO, "EoN", "analytic.py")).read()
    import warnings
    with warnings.catch_warnings():
        warnings.simplefilter("ignore")
        fns = {n.name: n for n in ast.parse(src).body if isinstance(n, ast.FunctionDef)}
    names = [w for w in pywrap2lean.WRAPPERS if w in fns]
    r = ctx.rng
    reqs, metas = [], []
    for w in names:                                                     # keyword defaults, once per wrapper
        d = {k: v.default for k, v in inspect.signature(getattr(an, w)).parameters.items() if v.default is not inspect.Parameter.empty and v.default is not None}
        reqs.append(dict(fn=w, mode="defaults", nodes=[], deg=[], nbrs=[], edges=[]))
        metas.append((dict(entry=w, stream="generated-model", what="defaults"), "defaults", d))
    for case in range(ctx.scale(300, 2000)):
        w = names[case % len(names)]
        base = base_of(fns, w)
        G = gen.random_graph(r, 1, 7) if r.random() < 0.6 else genhelp.small_graph(r)[0]
        if r.random() < 0.04:
            G = nx.empty_graph(0)                                   # max() of nothing, 1/0
        params = list(inspect.signature(getattr(an, w)).parameters)
        style, kw = calling_convention(r, G, params)
        tau, gamma, p_ = r.choice([F(1, 2), F(1), F(2)]), r.choice([F(0), F(1, 2), F(1)]), r.choice([F(1, 4), F(1, 2), F(1)])
        tmin = r.choice([0, 0, 1])
        extra = dict(tmin=tmin, tmax=tmin + r.randint(0, 3), tcount=r.choice([2, 3, 5]), number_its=r.randint(0, 3), return_full_data=r.random() < 0.5)
        # sometimes the wrapper's own default; the exact iterations of the final-size functions need small counts
        extra = {k: v for k, v in extra.items() if k in params and (r.random() < 0.8 or base in pywrap2lean.HELP_SIGS)}
        dfl = {k: v.default for k, v in inspect.signature(getattr(an, w)).parameters.items()}
        allkw = dict(kw, **extra)
        pos = [float(p_)] if "p" in params else [float(tau), float(gamma)]
        nodes = list(G)
        rq = dict(fn=w, nodes=nodes, deg=[G.degree(u) for u in nodes], nbrs=[list(G.neighbors(u)) for u in nodes], edges=[list(e) for e in G.edges()],
                  tau=rs(tau), gamma=rs(gamma), p=rs(p_), infs=kw.get("initial_infecteds"), recs=kw.get("initial_recovereds"),
                  rho=None if kw.get("rho") is None else rs(kw["rho"]), tmin=allkw.get("tmin", dfl.get("tmin", 0)), tmax=allkw.get("tmax", dfl.get("tmax", 0)),
                  tcount=allkw.get("tcount", dfl.get("tcount", 0)), its=allkw.get("number_its", dfl.get("number_its", 0)),
                  full=bool(allkw.get("return_full_data", False)), xs=[rs(x) for x in XS])
        call_kw = {k: (float(v) if k == "rho" else v) for k, v in allkw.items()}
        rep = dict(entry=w, stream="generated-model", style=style, nodes=nodes, edges=rq["edges"], args=[float(x) for x in pos],
                   kwargs={k: (str(v) if isinstance(v, F) else v) for k, v in allkw.items()})
        captured = []
        orig = getattr(an, base)
        sg = inspect.signature(orig)

        def recorder(*a, **k):
            ba = sg.bind(*a, **k)
            ba.apply_defaults()
            captured.append({n: conv(v) for n, v in ba.arguments.items()})
        setattr(an, base, recorder)
        try:
            out = attempt(lambda: getattr(an, w)(G, *pos, **call_kw))
        finally:
            setattr(an, base, orig)
        if out["ok"] and len(captured) != 1:
            out = dict(ok=False, err="base function called %d times" % len(captured))
        reqs.append(dict(rq, mode="args"))
        metas.append((rep, "args", dict(out, val=captured[0]) if out["ok"] else out))
        ctx.count("generated-model:wrappers:" + style)
        small = max((d for _, d in G.degree()), default=0) <= 4
        if base in pywrap2lean.HELP_SIGS and small and r.random() < 0.5:
            reqs.append(dict(rq, mode="run"))
            metas.append((dict(rep, what="composed"), "run", attempt(lambda: getattr(an, w)(G, *pos, **call_kw))))
    exe = os.path.join(lean, ".lake", "build", "bin", "driverwrap")
    data = "\n".join(json.dumps(x, separators=(",", ":")) for x in reqs) + "\n"
    pr = subprocess.run([exe], input=data, capture_output=True, text=True)
    lines = pr.stdout.splitlines()
    if pr.returncode != 0 or len(lines) != len(reqs):
        raise RuntimeError("driverwrap crashed: " + pr.stderr[-1000:])
    for (rep, kind, out), line in zip(metas, lines):
        g = json.loads(line)
        ctx.traces += 1
        d = None
        if kind == "defaults":
            ctx.case(rep, nontrivial=True)
            want = dict(tmin=out.get("tmin", 0), tmax=out.get("tmax", 0), tcount=out.get("tcount", 0), its=out.get("number_its", 0), full=out.get("return_full_data", False))
            if not g.get("ok") or any(F(g[k]) != F(v) if k != "full" else g[k] is not v for k, v in want.items()):
                d = "defaults: impl %s generated %s" % (want, g)
        else:
            ctx.case(rep, nontrivial=bool(out["ok"]))
            if out["ok"] != bool(g.get("ok")):
                d = "outcome: impl %s generated %s" % (out.get("err", "ok"), g.get("err", "ok"))
            elif not out["ok"]:
                if out["err"] != g.get("err"):
                    d = "exception: impl %s generated %s" % (out["err"], g.get("err"))
            elif kind == "args":
                if list(out["val"]) != list(g["args"]) and set(out["val"]) != set(g["args"]):
                    d = "argument names: impl %s generated %s" % (list(out["val"]), list(g["args"]))
                else:
                    for n, (k_, v) in out["val"].items():
                        e = differ(k_, v, g["args"][n])
                        if e:
                            d = "%s: %s" % (n, e)
                            break
            else:
                v = out["val"]
                e = differ("mat", [[float(x) for x in row] for row in v], g["value"]) if isinstance(v, tuple) else differ("num", float(v), g["value"])
                if e:
                    d = "composed result: " + e
        if d:
            ctx.disagreement("generated-wrappers:" + d[:200], dict(rep, generated={k: g.get(k) for k in ("args", "value", "err")}))
