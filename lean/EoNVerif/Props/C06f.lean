import EoNVerif.Proofs.GenGlue2
/-!
C06f — the sixteen further ODE entry points GENERATED from `EoN/analytic.py` into `Gen/OdeGlue2.lean`
(namespace `GenGlue2`), translated whole with the ODE solver as a parameter.  Every theorem is for ALL inputs and for
EVERY pair of solvers `odeint myodeint : Solver` (`(V → V) → V → Nat → V`: right-hand side, initial vector ↦ row `i` of
the solution at time index `i`); theorems named `…_init…` assume `RowZero` (`odeint rhs X0 0 = X0`, the documented
contract of `scipy.integrate.odeint`) of the solver that the entry point actually calls.

For each entry point `f` (result: `Except String (X0 × returned arrays)`):
* `f_call`      — which generated right-hand side is solved from which `X0`; the returned arrays as a closed form
                  `out… (odeint rhs X0)` (closed forms in `Proofs/GenGlue2.lean`);
* `f_error…` / `f_ok_iff` — exactly when which exception is raised, in the order of the generated code;
* `f_conserve…` — `S + I (+ R) = N` at every time index (compartments obtained by subtraction);
* `f_init…`     — the returned arrays at time index 0 are the requested initial state.
Accessors (`Proofs/GenGlue2.lean`): `get l j i` = value at time index `i` of the `j`-th returned array (a series);
`getM l j i k` = entry of class `k`; `getN l j` = its declared number of classes; `getX l j` = a 1-D array.
-/
set_option linter.unusedSimpArgs false
set_option maxHeartbeats 1000000
namespace GenGlue2Props
open Gen PyGlue PyGlue2 GenGlue2Proofs
open ODE (sumTo)
open GenGlueProofs (Solver RowZero linspace_zero)

/-! ## 1. `SIS_individual_based` (`Ss = 1 − Is`) -/

/-- **call**: the guards on `(nodelist, rho, Y0)` in the generated order, then `Gen.dSIS_individual_based` (with the
length of the node list) is solved by `odeint` from `X0 = Y0` (`rho·ones` when `rho` is given) -/
theorem SIS_individual_based_call (odeint myodeint : Solver) (GN : Nat) (nbrs : Nat → List Nat) (tr : Nat → Nat → Rat)
    (rr : Nat → Rat) (rho : Option Rat) (Y0 : Option V) (nodelist : Option (List Nat)) (tmin tmax : Rat) (tcount : Nat)
    (full : Bool) :
    GenGlue2.SIS_individual_based odeint myodeint GN nbrs tr rr rho Y0 nodelist tmin tmax tcount full =
      match nodelist, rho, Y0 with
      | none, _, some _ => .error "EoNError"
      | none, none, none => .error "EoNError"
      | none, some r, none => runSISInd odeint GN nbrs tr rr (vrep r GN) (linspace tmin tmax tcount) full
      | some _, none, none => .error "EoNError"
      | some _, some _, some _ => .error "EoNError"
      | some nl, none, some y => runSISInd odeint nl.length nbrs tr rr y (linspace tmin tmax tcount) full
      | some nl, some r, none =>
          runSISInd odeint nl.length nbrs tr rr (vrep r nl.length) (linspace tmin tmax tcount) full := by
  have hv : ∀ (r : Rat) (n : Nat), (⟨n, fun _ => r⟩ : V) = vrep r n := fun _ _ => rfl
  unfold GenGlue2.SIS_individual_based
  cases nodelist <;> cases rho <;> cases Y0 <;> cases full <;>
    simp [hv, runSISInd, outSISInd, vsum]

/-- the node list actually used: `nodelist`, by default `list(G.nodes())` -/
def nodesOf (GN : Nat) (nodelist : Option (List Nat)) : List Nat := nodelist.getD (List.range GN)

/-- the `X0 = Y0` handed to the solver by `SIS_individual_based` -/
def sisIndX0 (GN : Nat) (rho : Option Rat) (Y0 : Option V) (nodelist : Option (List Nat)) : V :=
  match Y0, rho with
  | some y, _ => y
  | none, some r => vrep r (nodesOf GN nodelist).length
  | none, none => PyGlue2.V0

/-- the accepted argument combinations: `rho` without `Y0`, or `Y0` with `nodelist` and without `rho` -/
def sisIndOk (rho : Option Rat) (Y0 : Option V) (nodelist : Option (List Nat)) : Prop :=
  (rho.isSome ∧ Y0.isNone) ∨ (rho.isNone ∧ Y0.isSome ∧ nodelist.isSome)

/-- **exact error condition**: every rejected combination raises `EoNError` (`Y0` without `nodelist`; neither `rho` nor
`Y0`; both), and nothing else is ever raised — in particular no length check of `Y0` against the node list -/
theorem SIS_individual_based_error (odeint myodeint : Solver) (GN : Nat) (nbrs : Nat → List Nat) (tr : Nat → Nat → Rat)
    (rr : Nat → Rat) (rho : Option Rat) (Y0 : Option V) (nodelist : Option (List Nat)) (tmin tmax : Rat) (tcount : Nat)
    (full : Bool) (h : ¬ sisIndOk rho Y0 nodelist) :
    GenGlue2.SIS_individual_based odeint myodeint GN nbrs tr rr rho Y0 nodelist tmin tmax tcount full
      = .error "EoNError" := by
  rw [SIS_individual_based_call]
  cases nodelist <;> cases rho <;> cases Y0 <;> simp [sisIndOk] at h ⊢

/-- **normal return**: for an accepted combination the result is the closed form `outSISInd` of the solution of
`Gen.dSIS_individual_based` (node count = length of the node list) started from `sisIndX0` -/
theorem SIS_individual_based_ok (odeint myodeint : Solver) (GN : Nat) (nbrs : Nat → List Nat) (tr : Nat → Nat → Rat)
    (rr : Nat → Rat) (rho : Option Rat) (Y0 : Option V) (nodelist : Option (List Nat)) (tmin tmax : Rat) (tcount : Nat)
    (full : Bool) (h : sisIndOk rho Y0 nodelist) :
    GenGlue2.SIS_individual_based odeint myodeint GN nbrs tr rr rho Y0 nodelist tmin tmax tcount full
      = runSISInd odeint (nodesOf GN nodelist).length nbrs tr rr (sisIndX0 GN rho Y0 nodelist)
          (linspace tmin tmax tcount) full := by
  rw [SIS_individual_based_call]
  cases nodelist <;> cases rho <;> cases Y0 <;> simp [sisIndOk] at h ⊢ <;> simp [nodesOf, sisIndX0]

theorem SIS_individual_based_ok_iff (odeint myodeint : Solver) (GN : Nat) (nbrs : Nat → List Nat) (tr : Nat → Nat → Rat)
    (rr : Nat → Rat) (rho : Option Rat) (Y0 : Option V) (nodelist : Option (List Nat)) (tmin tmax : Rat) (tcount : Nat)
    (full : Bool) :
    (∃ r, GenGlue2.SIS_individual_based odeint myodeint GN nbrs tr rr rho Y0 nodelist tmin tmax tcount full = .ok r)
      ↔ sisIndOk rho Y0 nodelist := by
  by_cases h : sisIndOk rho Y0 nodelist
  · rw [SIS_individual_based_ok _ _ _ _ _ _ _ _ _ _ _ _ _ h]
    exact ⟨fun _ => h, fun _ => ⟨_, rfl⟩⟩
  · rw [SIS_individual_based_error _ _ _ _ _ _ _ _ _ _ _ _ _ h]
    exact ⟨fun ⟨_, e⟩ => (nomatch e), fun h' => absurd h' h⟩

/-- what a normal return consists of -/
theorem SIS_individual_based_form {odeint myodeint : Solver} {GN : Nat} {nbrs : Nat → List Nat} {tr : Nat → Nat → Rat}
    {rr : Nat → Rat} {rho : Option Rat} {Y0 : Option V} {nodelist : Option (List Nat)} {tmin tmax : Rat} {tcount : Nat}
    {full : Bool} {x0 : V} {l : List Out}
    (h : GenGlue2.SIS_individual_based odeint myodeint GN nbrs tr rr rho Y0 nodelist tmin tmax tcount full = .ok (x0, l)) :
    sisIndOk rho Y0 nodelist ∧ x0 = sisIndX0 GN rho Y0 nodelist ∧
    l = outSISInd (linspace tmin tmax tcount) x0.n full
      (odeint (fun st => Gen.dSIS_individual_based st (nodesOf GN nodelist).length nbrs tr rr) x0) := by
  have hok : sisIndOk rho Y0 nodelist :=
    (SIS_individual_based_ok_iff odeint myodeint GN nbrs tr rr rho Y0 nodelist tmin tmax tcount full).mp ⟨_, h⟩
  rw [SIS_individual_based_ok _ _ _ _ _ _ _ _ _ _ _ _ _ hok] at h
  obtain ⟨h1, h2⟩ := runSISInd_ok h
  subst h1
  exact ⟨hok, rfl, h2⟩

/-- the number of returned arrays is 3; the first one is the time grid `linspace(tmin, tmax, tcount)` -/
theorem SIS_individual_based_shape {odeint myodeint : Solver} {GN : Nat} {nbrs : Nat → List Nat} {tr : Nat → Nat → Rat}
    {rr : Nat → Rat} {rho : Option Rat} {Y0 : Option V} {nodelist : Option (List Nat)} {tmin tmax : Rat} {tcount : Nat}
    {full : Bool} {x0 : V} {l : List Out}
    (h : GenGlue2.SIS_individual_based odeint myodeint GN nbrs tr rr rho Y0 nodelist tmin tmax tcount full = .ok (x0, l)) :
    l.length = 3 ∧ (∀ i, get l 0 i = linspace tmin tmax tcount i) := by
  obtain ⟨-, -, rfl⟩ := SIS_individual_based_form h
  cases full <;> exact ⟨rfl, fun _ => rfl⟩

/-- **conservation**: `S + I =` number of entries of `Y0` at EVERY time index, for every solver -/
theorem SIS_individual_based_conserve {odeint myodeint : Solver} {GN : Nat} {nbrs : Nat → List Nat}
    {tr : Nat → Nat → Rat} {rr : Nat → Rat} {rho : Option Rat} {Y0 : Option V} {nodelist : Option (List Nat)}
    {tmin tmax : Rat} {tcount : Nat} {x0 : V} {l : List Out}
    (h : GenGlue2.SIS_individual_based odeint myodeint GN nbrs tr rr rho Y0 nodelist tmin tmax tcount false = .ok (x0, l))
    (i : Nat) : get l 1 i + get l 2 i = (x0.n : Rat) := by
  obtain ⟨-, -, rfl⟩ := SIS_individual_based_form h
  exact outSISInd_conserve _ _ _ i

/-- **conservation, full data**: `Ss` and `Is` have `N` rows, `S_k + I_k = 1` for every node `k` and
`Σ_k (S_k + I_k) = N` at every time index, for every solver; `Is` is the solver's row -/
theorem SIS_individual_based_conserve_full {odeint myodeint : Solver} {GN : Nat} {nbrs : Nat → List Nat}
    {tr : Nat → Nat → Rat} {rr : Nat → Rat} {rho : Option Rat} {Y0 : Option V} {nodelist : Option (List Nat)}
    {tmin tmax : Rat} {tcount : Nat} {x0 : V} {l : List Out}
    (h : GenGlue2.SIS_individual_based odeint myodeint GN nbrs tr rr rho Y0 nodelist tmin tmax tcount true = .ok (x0, l))
    (i : Nat) :
    getN l 1 = x0.n ∧ getN l 2 = x0.n ∧ (∀ k, k < x0.n → getM l 1 i k + getM l 2 i k = 1) ∧
    sumTo x0.n (getM l 1 i) + sumTo x0.n (getM l 2 i) = (x0.n : Rat) ∧
    (∀ k, getM l 2 i k =
      (odeint (fun st => Gen.dSIS_individual_based st (nodesOf GN nodelist).length nbrs tr rr) x0 i).f k) := by
  obtain ⟨-, -, rfl⟩ := SIS_individual_based_form h
  exact outSISInd_conserve_full _ _ _ i

/-- the population size in the `rho` form is the length of the node list (`G.order()` by default) -/
theorem SIS_individual_based_N_rho {odeint myodeint : Solver} {GN : Nat} {nbrs : Nat → List Nat}
    {tr : Nat → Nat → Rat} {rr : Nat → Rat} {r : Rat} {nodelist : Option (List Nat)}
    {tmin tmax : Rat} {tcount : Nat} {full : Bool} {x0 : V} {l : List Out}
    (h : GenGlue2.SIS_individual_based odeint myodeint GN nbrs tr rr (some r) none nodelist tmin tmax tcount full
      = .ok (x0, l)) : x0 = vrep r (nodesOf GN nodelist).length := by
  obtain ⟨-, rfl, -⟩ := SIS_individual_based_form h
  rfl

/-- **initial state, `rho` form**: `I(0) = rho·N`, `S(0) = (1 − rho)·N` with `N` the number of nodes -/
theorem SIS_individual_based_init_rho {odeint myodeint : Solver} (h0 : RowZero odeint) {GN : Nat}
    {nbrs : Nat → List Nat} {tr : Nat → Nat → Rat} {rr : Nat → Rat} {r : Rat} {nodelist : Option (List Nat)}
    {tmin tmax : Rat} {tcount : Nat} {x0 : V} {l : List Out}
    (h : GenGlue2.SIS_individual_based odeint myodeint GN nbrs tr rr (some r) none nodelist tmin tmax tcount false
      = .ok (x0, l)) :
    get l 2 0 = r * ((nodesOf GN nodelist).length : Rat) ∧
    get l 1 0 = (1 - r) * ((nodesOf GN nodelist).length : Rat) := by
  obtain ⟨-, rfl, rfl⟩ := SIS_individual_based_form h
  obtain ⟨h1, h2⟩ := outSISInd_init (linspace tmin tmax tcount) _ _ (h0 _ _)
  rw [h1, h2]
  simp only [sisIndX0, vrep_n]
  have : sumTo (nodesOf GN nodelist).length (vrep r (nodesOf GN nodelist).length).f
      = ((nodesOf GN nodelist).length : Rat) * r := sumTo_const _ r
  rw [this]
  constructor <;> ring

/-- **initial state, explicit `Y0`**: `I(0) = Σ Y0`, `S(0) = N − Σ Y0` (`N` = number of entries of `Y0`) -/
theorem SIS_individual_based_init_Y0 {odeint myodeint : Solver} (h0 : RowZero odeint) {GN : Nat}
    {nbrs : Nat → List Nat} {tr : Nat → Nat → Rat} {rr : Nat → Rat} {rho : Option Rat} {y : V}
    {nodelist : Option (List Nat)} {tmin tmax : Rat} {tcount : Nat} {x0 : V} {l : List Out}
    (h : GenGlue2.SIS_individual_based odeint myodeint GN nbrs tr rr rho (some y) nodelist tmin tmax tcount false
      = .ok (x0, l)) :
    x0 = y ∧ get l 2 0 = sumTo y.n y.f ∧ get l 1 0 = (y.n : Rat) - sumTo y.n y.f := by
  obtain ⟨-, rfl, rfl⟩ := SIS_individual_based_form h
  exact ⟨rfl, outSISInd_init (linspace tmin tmax tcount) _ _ (h0 _ _)⟩

/-- **initial state, full data**: node by node `I_k(0) = X0_k`, `S_k(0) = 1 − X0_k` (any accepted argument form) -/
theorem SIS_individual_based_init_full {odeint myodeint : Solver} (h0 : RowZero odeint) {GN : Nat}
    {nbrs : Nat → List Nat} {tr : Nat → Nat → Rat} {rr : Nat → Rat} {rho : Option Rat} {Y0 : Option V}
    {nodelist : Option (List Nat)} {tmin tmax : Rat} {tcount : Nat} {x0 : V} {l : List Out}
    (h : GenGlue2.SIS_individual_based odeint myodeint GN nbrs tr rr rho Y0 nodelist tmin tmax tcount true = .ok (x0, l))
    (k : Nat) (hk : k < x0.n) : getM l 2 0 k = x0.f k ∧ getM l 1 0 k = 1 - x0.f k := by
  obtain ⟨-, -, rfl⟩ := SIS_individual_based_form h
  exact outSISInd_init_full _ _ _ (h0 _ _) k hk

/-! ## 2. `SIR_individual_based` (`Rs = 1 − Ss − Is`) -/

/-- accepted argument combinations: `rho` alone, or `Y0` (optionally `X0`) with `nodelist` and without `rho` -/
def sirIndOk (rho : Option Rat) (Y0 X0 : Option V) (nodelist : Option (List Nat)) : Prop :=
  (rho.isSome ∧ Y0.isNone ∧ X0.isNone) ∨ (rho.isNone ∧ Y0.isSome ∧ nodelist.isSome)

/-- the `X0` (susceptible probabilities) used: the given one, by default `1 − Y0` -/
def sirIndX0 (GN : Nat) (rho : Option Rat) (Y0 X0 : Option V) (nodelist : Option (List Nat)) : V :=
  X0.getD (vcompl (sisIndX0 GN rho Y0 nodelist))

/-- **call**: every rejected argument combination is an `EoNError`; otherwise `Gen.dSIR_individual_based` (node count =
length of the node list) is solved by `odeint` from `concatenate((X0, Y0))`, with `Y0 = rho·ones` / `X0 = 1 − Y0` by
default; the only other exception is the broadcasting `ValueError` inside `runSIRInd` -/
theorem SIR_individual_based_call (odeint myodeint : Solver) (GN : Nat) (nbrs : Nat → List Nat) (tr : Nat → Nat → Rat)
    (rr : Nat → Rat) (rho : Option Rat) (Y0 X0 : Option V) (nodelist : Option (List Nat)) (tmin tmax : Rat) (tcount : Nat)
    (full : Bool) :
    GenGlue2.SIR_individual_based odeint myodeint GN nbrs tr rr rho Y0 X0 nodelist tmin tmax tcount full =
      match nodelist, rho, Y0, X0 with
      | none, some r, none, none =>
          runSIRInd odeint GN nbrs tr rr (vcompl (vrep r GN)) (vrep r GN) (linspace tmin tmax tcount) full
      | some nl, some r, none, none =>
          runSIRInd odeint nl.length nbrs tr rr (vcompl (vrep r nl.length)) (vrep r nl.length)
            (linspace tmin tmax tcount) full
      | some nl, none, some y, none => runSIRInd odeint nl.length nbrs tr rr (vcompl y) y (linspace tmin tmax tcount) full
      | some nl, none, some y, some x => runSIRInd odeint nl.length nbrs tr rr x y (linspace tmin tmax tcount) full
      | _, _, _, _ => .error "EoNError" := by
  have hv : ∀ (r : Rat) (n : Nat), (⟨n, fun _ => r⟩ : V) = vrep r n := fun _ _ => rfl
  have hc : ∀ (y : V), (⟨y.n, fun k => 1 - y.f k⟩ : V) = vcompl y := fun _ => rfl
  unfold GenGlue2.SIR_individual_based
  cases nodelist <;> cases rho <;> cases Y0 <;> cases X0 <;> cases full <;>
    simp [hv, hc, runSIRInd, outSIRInd, vsum, vslice]
  all_goals (rename_i nl y x; cases bdim x.n y.n <;> rfl)

theorem SIR_individual_based_error (odeint myodeint : Solver) (GN : Nat) (nbrs : Nat → List Nat) (tr : Nat → Nat → Rat)
    (rr : Nat → Rat) (rho : Option Rat) (Y0 X0 : Option V) (nodelist : Option (List Nat)) (tmin tmax : Rat) (tcount : Nat)
    (full : Bool) (h : ¬ sirIndOk rho Y0 X0 nodelist) :
    GenGlue2.SIR_individual_based odeint myodeint GN nbrs tr rr rho Y0 X0 nodelist tmin tmax tcount full
      = .error "EoNError" := by
  rw [SIR_individual_based_call]
  cases nodelist <;> cases rho <;> cases Y0 <;> cases X0 <;> simp [sirIndOk] at h ⊢

theorem SIR_individual_based_ok (odeint myodeint : Solver) (GN : Nat) (nbrs : Nat → List Nat) (tr : Nat → Nat → Rat)
    (rr : Nat → Rat) (rho : Option Rat) (Y0 X0 : Option V) (nodelist : Option (List Nat)) (tmin tmax : Rat) (tcount : Nat)
    (full : Bool) (h : sirIndOk rho Y0 X0 nodelist) :
    GenGlue2.SIR_individual_based odeint myodeint GN nbrs tr rr rho Y0 X0 nodelist tmin tmax tcount full
      = runSIRInd odeint (nodesOf GN nodelist).length nbrs tr rr (sirIndX0 GN rho Y0 X0 nodelist)
          (sisIndX0 GN rho Y0 nodelist) (linspace tmin tmax tcount) full := by
  rw [SIR_individual_based_call]
  cases nodelist <;> cases rho <;> cases Y0 <;> cases X0 <;> simp [sirIndOk] at h ⊢ <;>
    simp [nodesOf, sisIndX0, sirIndX0]

/-- **exact success condition**: an accepted combination and broadcastable lengths of `X0`, `Y0` -/
theorem SIR_individual_based_ok_iff (odeint myodeint : Solver) (GN : Nat) (nbrs : Nat → List Nat) (tr : Nat → Nat → Rat)
    (rr : Nat → Rat) (rho : Option Rat) (Y0 X0 : Option V) (nodelist : Option (List Nat)) (tmin tmax : Rat) (tcount : Nat)
    (full : Bool) :
    (∃ r, GenGlue2.SIR_individual_based odeint myodeint GN nbrs tr rr rho Y0 X0 nodelist tmin tmax tcount full = .ok r)
      ↔ sirIndOk rho Y0 X0 nodelist ∧
        ((sirIndX0 GN rho Y0 X0 nodelist).n = (sisIndX0 GN rho Y0 nodelist).n ∨
          (sirIndX0 GN rho Y0 X0 nodelist).n = 1 ∨ (sisIndX0 GN rho Y0 nodelist).n = 1) := by
  by_cases h : sirIndOk rho Y0 X0 nodelist
  · rw [SIR_individual_based_ok _ _ _ _ _ _ _ _ _ _ _ _ _ _ h, ← bdim_ok_iff]
    unfold runSIRInd
    cases bdim (sirIndX0 GN rho Y0 X0 nodelist).n (sisIndX0 GN rho Y0 nodelist).n <;> simp [h]
  · rw [SIR_individual_based_error _ _ _ _ _ _ _ _ _ _ _ _ _ _ h]
    exact ⟨fun ⟨_, e⟩ => (nomatch e), fun h' => absurd h'.1 h⟩

/-- **`ValueError`**: explicit `X0`, `Y0` of different lengths, none of length 1 (NumPy broadcasting of
`ones(N) − Ss − Is`), raised after the solver has run -/
theorem SIR_individual_based_valueError (odeint myodeint : Solver) (GN : Nat) (nbrs : Nat → List Nat)
    (tr : Nat → Nat → Rat) (rr : Nat → Rat) (x y : V) (nl : List Nat) (tmin tmax : Rat) (tcount : Nat) (full : Bool)
    (h1 : x.n ≠ y.n) (h2 : x.n ≠ 1) (h3 : y.n ≠ 1) :
    GenGlue2.SIR_individual_based odeint myodeint GN nbrs tr rr none (some y) (some x) (some nl) tmin tmax tcount full
      = .error "ValueError" := by
  rw [SIR_individual_based_call]
  exact runSIRInd_error h1 h2 h3

/-- what a normal return consists of -/
theorem SIR_individual_based_form {odeint myodeint : Solver} {GN : Nat} {nbrs : Nat → List Nat} {tr : Nat → Nat → Rat}
    {rr : Nat → Rat} {rho : Option Rat} {Y0 X0 : Option V} {nodelist : Option (List Nat)} {tmin tmax : Rat}
    {tcount : Nat} {full : Bool} {x0 : V} {l : List Out}
    (h : GenGlue2.SIR_individual_based odeint myodeint GN nbrs tr rr rho Y0 X0 nodelist tmin tmax tcount full
      = .ok (x0, l)) :
    sirIndOk rho Y0 X0 nodelist ∧ x0 = V.append (sirIndX0 GN rho Y0 X0 nodelist) (sisIndX0 GN rho Y0 nodelist) ∧
    ∃ m, bdim (sirIndX0 GN rho Y0 X0 nodelist).n (sisIndX0 GN rho Y0 nodelist).n = .ok m ∧
    l = outSIRInd (linspace tmin tmax tcount) (sirIndX0 GN rho Y0 X0 nodelist).n (sisIndX0 GN rho Y0 nodelist).n m full
      (odeint (fun st => Gen.dSIR_individual_based st (nodesOf GN nodelist).length nbrs tr rr) x0) := by
  have hok : sirIndOk rho Y0 X0 nodelist :=
    ((SIR_individual_based_ok_iff odeint myodeint GN nbrs tr rr rho Y0 X0 nodelist tmin tmax tcount full).mp ⟨_, h⟩).1
  rw [SIR_individual_based_ok _ _ _ _ _ _ _ _ _ _ _ _ _ _ hok] at h
  obtain ⟨h1, m, hm, h2⟩ := runSIRInd_ok h
  subst h1
  exact ⟨hok, rfl, m, hm, h2⟩

/-- the form of a normal return when `X0` and `Y0` have the same length `N` -/
theorem SIR_individual_based_form_eq {odeint myodeint : Solver} {GN : Nat} {nbrs : Nat → List Nat}
    {tr : Nat → Nat → Rat} {rr : Nat → Rat} {rho : Option Rat} {Y0 X0 : Option V} {nodelist : Option (List Nat)}
    {tmin tmax : Rat} {tcount : Nat} {full : Bool} {x0 : V} {l : List Out}
    (h : GenGlue2.SIR_individual_based odeint myodeint GN nbrs tr rr rho Y0 X0 nodelist tmin tmax tcount full
      = .ok (x0, l))
    (hn : (sirIndX0 GN rho Y0 X0 nodelist).n = (sisIndX0 GN rho Y0 nodelist).n) :
    x0 = V.append (sirIndX0 GN rho Y0 X0 nodelist) (sisIndX0 GN rho Y0 nodelist) ∧
    l = outSIRInd (linspace tmin tmax tcount) (sirIndX0 GN rho Y0 X0 nodelist).n (sirIndX0 GN rho Y0 X0 nodelist).n
      (sirIndX0 GN rho Y0 X0 nodelist).n full
      (odeint (fun st => Gen.dSIR_individual_based st (nodesOf GN nodelist).length nbrs tr rr) x0) := by
  obtain ⟨-, h1, m, hm, h2⟩ := SIR_individual_based_form h
  rw [← hn, bdim_self] at hm
  obtain rfl : (sirIndX0 GN rho Y0 X0 nodelist).n = m := by injection hm
  rw [← hn] at h2
  exact ⟨h1, h2⟩

/-- the default `X0 = 1 − Y0` has the length of `Y0` -/
theorem sirIndX0_n_none (GN : Nat) (rho : Option Rat) (Y0 : Option V) (nodelist : Option (List Nat)) :
    (sirIndX0 GN rho Y0 none nodelist).n = (sisIndX0 GN rho Y0 nodelist).n := rfl

/-- **conservation**: `S + I + R = N` (`N` = common length of `X0`, `Y0`) at EVERY time index, for every solver.  The
hypothesis `hn` is needed only for explicit `X0`: with lengths `(N, 1)` NumPy broadcasts `Is` in `Rs` (see the closed
example at the end of the section) -/
theorem SIR_individual_based_conserve {odeint myodeint : Solver} {GN : Nat} {nbrs : Nat → List Nat}
    {tr : Nat → Nat → Rat} {rr : Nat → Rat} {rho : Option Rat} {Y0 X0 : Option V} {nodelist : Option (List Nat)}
    {tmin tmax : Rat} {tcount : Nat} {full : Bool} {x0 : V} {l : List Out}
    (h : GenGlue2.SIR_individual_based odeint myodeint GN nbrs tr rr rho Y0 X0 nodelist tmin tmax tcount full
      = .ok (x0, l))
    (hn : (sirIndX0 GN rho Y0 X0 nodelist).n = (sisIndX0 GN rho Y0 nodelist).n) (i : Nat) :
    get l 1 i + get l 2 i + get l 3 i = ((sirIndX0 GN rho Y0 X0 nodelist).n : Rat) := by
  obtain ⟨-, rfl⟩ := SIR_individual_based_form_eq h hn
  exact outSIRInd_conserve _ _ _ _ i

/-- conservation without explicit `X0` (no hypothesis): `N` = length of `Y0` -/
theorem SIR_individual_based_conserve_default {odeint myodeint : Solver} {GN : Nat} {nbrs : Nat → List Nat}
    {tr : Nat → Nat → Rat} {rr : Nat → Rat} {rho : Option Rat} {Y0 : Option V} {nodelist : Option (List Nat)}
    {tmin tmax : Rat} {tcount : Nat} {full : Bool} {x0 : V} {l : List Out}
    (h : GenGlue2.SIR_individual_based odeint myodeint GN nbrs tr rr rho Y0 none nodelist tmin tmax tcount full
      = .ok (x0, l)) (i : Nat) :
    get l 1 i + get l 2 i + get l 3 i = ((sisIndX0 GN rho Y0 nodelist).n : Rat) :=
  SIR_individual_based_conserve h rfl i

/-- **conservation, full data**: per node `S_k + I_k + R_k = 1`; the three arrays have `N` rows and `S, I, R` are their
sums, at every time index -/
theorem SIR_individual_based_conserve_full {odeint myodeint : Solver} {GN : Nat} {nbrs : Nat → List Nat}
    {tr : Nat → Nat → Rat} {rr : Nat → Rat} {rho : Option Rat} {Y0 X0 : Option V} {nodelist : Option (List Nat)}
    {tmin tmax : Rat} {tcount : Nat} {x0 : V} {l : List Out}
    (h : GenGlue2.SIR_individual_based odeint myodeint GN nbrs tr rr rho Y0 X0 nodelist tmin tmax tcount true
      = .ok (x0, l))
    (hn : (sirIndX0 GN rho Y0 X0 nodelist).n = (sisIndX0 GN rho Y0 nodelist).n) (i : Nat) :
    let N := (sirIndX0 GN rho Y0 X0 nodelist).n
    getN l 4 = N ∧ getN l 5 = N ∧ getN l 6 = N ∧
    (∀ k, k < N → getM l 4 i k + getM l 5 i k + getM l 6 i k = 1) ∧
    get l 1 i = sumTo N (getM l 4 i) ∧ get l 2 i = sumTo N (getM l 5 i) ∧ get l 3 i = sumTo N (getM l 6 i) := by
  obtain ⟨-, rfl⟩ := SIR_individual_based_form_eq h hn
  exact outSIRInd_conserve_full _ _ _ i

/-- **initial state**: `S(0) = Σ X0`, `I(0) = Σ Y0`, `R(0) = N − Σ X0 − Σ Y0` -/
theorem SIR_individual_based_init {odeint myodeint : Solver} (h0 : RowZero odeint) {GN : Nat} {nbrs : Nat → List Nat}
    {tr : Nat → Nat → Rat} {rr : Nat → Rat} {rho : Option Rat} {Y0 X0 : Option V} {nodelist : Option (List Nat)}
    {tmin tmax : Rat} {tcount : Nat} {full : Bool} {x0 : V} {l : List Out}
    (h : GenGlue2.SIR_individual_based odeint myodeint GN nbrs tr rr rho Y0 X0 nodelist tmin tmax tcount full
      = .ok (x0, l))
    (hn : (sirIndX0 GN rho Y0 X0 nodelist).n = (sisIndX0 GN rho Y0 nodelist).n) :
    let N := (sirIndX0 GN rho Y0 X0 nodelist).n
    get l 1 0 = sumTo N (sirIndX0 GN rho Y0 X0 nodelist).f ∧ get l 2 0 = sumTo N (sisIndX0 GN rho Y0 nodelist).f ∧
    get l 3 0 = (N : Rat) - sumTo N (sirIndX0 GN rho Y0 X0 nodelist).f - sumTo N (sisIndX0 GN rho Y0 nodelist).f := by
  obtain ⟨rfl, rfl⟩ := SIR_individual_based_form_eq h hn
  exact outSIRInd_init _ _ _ hn.symm full _ (h0 _ _)

/-- **initial state, `rho` form**: `S(0) = (1 − rho)·N`, `I(0) = rho·N`, `R(0) = 0`, `N` = number of nodes -/
theorem SIR_individual_based_init_rho {odeint myodeint : Solver} (h0 : RowZero odeint) {GN : Nat}
    {nbrs : Nat → List Nat} {tr : Nat → Nat → Rat} {rr : Nat → Rat} {r : Rat} {nodelist : Option (List Nat)}
    {tmin tmax : Rat} {tcount : Nat} {full : Bool} {x0 : V} {l : List Out}
    (h : GenGlue2.SIR_individual_based odeint myodeint GN nbrs tr rr (some r) none none nodelist tmin tmax tcount full
      = .ok (x0, l)) :
    get l 1 0 = (1 - r) * ((nodesOf GN nodelist).length : Rat) ∧
    get l 2 0 = r * ((nodesOf GN nodelist).length : Rat) ∧ get l 3 0 = 0 := by
  obtain ⟨h1, h2, h3⟩ := SIR_individual_based_init h0 h rfl
  have e1 : sumTo (nodesOf GN nodelist).length (vcompl (vrep r (nodesOf GN nodelist).length)).f
      = ((nodesOf GN nodelist).length : Rat) * (1 - r) := sumTo_const _ (1 - r)
  have e2 : sumTo (nodesOf GN nodelist).length (vrep r (nodesOf GN nodelist).length).f
      = ((nodesOf GN nodelist).length : Rat) * r := sumTo_const _ r
  simp only [sirIndX0, sisIndX0, Option.getD_none, vcompl_n, vrep_n] at h1 h2 h3
  rw [e1] at h1 h3
  rw [e2] at h2 h3
  refine ⟨by rw [h1]; ring, by rw [h2]; ring, by rw [h3]; ring⟩

/-- **initial state, full data**: per node `S_k(0) = X0_k`, `I_k(0) = Y0_k`, `R_k(0) = 1 − X0_k − Y0_k` -/
theorem SIR_individual_based_init_full {odeint myodeint : Solver} (h0 : RowZero odeint) {GN : Nat}
    {nbrs : Nat → List Nat} {tr : Nat → Nat → Rat} {rr : Nat → Rat} {rho : Option Rat} {Y0 X0 : Option V}
    {nodelist : Option (List Nat)} {tmin tmax : Rat} {tcount : Nat} {x0 : V} {l : List Out}
    (h : GenGlue2.SIR_individual_based odeint myodeint GN nbrs tr rr rho Y0 X0 nodelist tmin tmax tcount true
      = .ok (x0, l))
    (hn : (sirIndX0 GN rho Y0 X0 nodelist).n = (sisIndX0 GN rho Y0 nodelist).n) (k : Nat)
    (hk : k < (sirIndX0 GN rho Y0 X0 nodelist).n) :
    getM l 4 0 k = (sirIndX0 GN rho Y0 X0 nodelist).f k ∧ getM l 5 0 k = (sisIndX0 GN rho Y0 nodelist).f k ∧
    getM l 6 0 k = 1 - (sirIndX0 GN rho Y0 X0 nodelist).f k - (sisIndX0 GN rho Y0 nodelist).f k := by
  obtain ⟨rfl, rfl⟩ := SIR_individual_based_form_eq h hn
  exact outSIRInd_init_full _ _ _ _ (h0 _ _) k hk

/-! ## 3. `SIS_individual_based_pure_IC`, `SIR_individual_based_pure_IC` (initial sets of nodes) -/

/-- membership test as the generated code performs it (`u in initial_infecteds`) -/
def memB (s : List Nat) : Nat → Bool := fun u => s.contains u

/-- number of nodes of the node list `nl` that satisfy `p` -/
def countIn (nl : List Nat) (p : Nat → Bool) : Nat := (nl.filter p).length

/-- for duplicate-free lists and `s ⊆ nl` the number of nodes of `nl` in `s` is the size of `s` -/
theorem countIn_memB (nl s : List Nat) (h1 : nl.Nodup) (h2 : s.Nodup) (h3 : ∀ u ∈ s, u ∈ nl) :
    countIn nl (memB s) = s.length := by
  apply List.Perm.length_eq
  rw [List.perm_ext_iff_of_nodup (h1.filter _) h2]
  intro a
  simp [memB]
  exact fun h => h3 a h

/-- **call**: never raises; `Y0` is the indicator of `initial_infecteds` along the node list and the run is that of
`SIS_individual_based` -/
theorem SIS_individual_based_pure_IC_call (odeint myodeint : Solver) (GN : Nat) (nbrs : Nat → List Nat)
    (tr : Nat → Nat → Rat) (rr : Nat → Rat) (inf : List Nat) (nodelist : Option (List Nat)) (tmin tmax : Rat)
    (tcount : Nat) (full : Bool) :
    GenGlue2.SIS_individual_based_pure_IC odeint myodeint GN nbrs tr rr inf nodelist tmin tmax tcount full =
      runSISInd odeint (nodesOf GN nodelist).length nbrs tr rr (indV (nodesOf GN nodelist) (memB inf) 1 0)
        (linspace tmin tmax tcount) full := by
  unfold GenGlue2.SIS_individual_based_pure_IC
  cases nodelist <;>
    simp only [Option.isNone_none, Option.isNone_some, if_true, if_false, Bool.false_eq_true, need_some, ok_bind,
      SIS_individual_based_call, nodesOf, Option.getD, bind_pure, pure_bind] <;> rfl

theorem SIS_individual_based_pure_IC_no_error (odeint myodeint : Solver) (GN : Nat) (nbrs : Nat → List Nat)
    (tr : Nat → Nat → Rat) (rr : Nat → Rat) (inf : List Nat) (nodelist : Option (List Nat)) (tmin tmax : Rat)
    (tcount : Nat) (full : Bool) :
    ∃ r, GenGlue2.SIS_individual_based_pure_IC odeint myodeint GN nbrs tr rr inf nodelist tmin tmax tcount full = .ok r :=
  ⟨_, SIS_individual_based_pure_IC_call ..⟩

theorem SIS_individual_based_pure_IC_form {odeint myodeint : Solver} {GN : Nat} {nbrs : Nat → List Nat}
    {tr : Nat → Nat → Rat} {rr : Nat → Rat} {inf : List Nat} {nodelist : Option (List Nat)} {tmin tmax : Rat}
    {tcount : Nat} {full : Bool} {x0 : V} {l : List Out}
    (h : GenGlue2.SIS_individual_based_pure_IC odeint myodeint GN nbrs tr rr inf nodelist tmin tmax tcount full
      = .ok (x0, l)) :
    x0 = indV (nodesOf GN nodelist) (memB inf) 1 0 ∧
    l = outSISInd (linspace tmin tmax tcount) (nodesOf GN nodelist).length full
      (odeint (fun st => Gen.dSIS_individual_based st (nodesOf GN nodelist).length nbrs tr rr) x0) := by
  rw [SIS_individual_based_pure_IC_call] at h
  obtain ⟨h1, h2⟩ := runSISInd_ok h
  subst h1
  rw [indV_n] at h2
  exact ⟨rfl, h2⟩

/-- **conservation**: `S + I = N` (number of nodes) at every time index, for every solver -/
theorem SIS_individual_based_pure_IC_conserve {odeint myodeint : Solver} {GN : Nat} {nbrs : Nat → List Nat}
    {tr : Nat → Nat → Rat} {rr : Nat → Rat} {inf : List Nat} {nodelist : Option (List Nat)} {tmin tmax : Rat}
    {tcount : Nat} {x0 : V} {l : List Out}
    (h : GenGlue2.SIS_individual_based_pure_IC odeint myodeint GN nbrs tr rr inf nodelist tmin tmax tcount false
      = .ok (x0, l)) (i : Nat) :
    get l 1 i + get l 2 i = ((nodesOf GN nodelist).length : Rat) := by
  obtain ⟨-, rfl⟩ := SIS_individual_based_pure_IC_form h
  exact outSISInd_conserve _ _ _ i

/-- conservation, full data: per node `S_k + I_k = 1`, and the sum over the nodes is `N` -/
theorem SIS_individual_based_pure_IC_conserve_full {odeint myodeint : Solver} {GN : Nat} {nbrs : Nat → List Nat}
    {tr : Nat → Nat → Rat} {rr : Nat → Rat} {inf : List Nat} {nodelist : Option (List Nat)} {tmin tmax : Rat}
    {tcount : Nat} {x0 : V} {l : List Out}
    (h : GenGlue2.SIS_individual_based_pure_IC odeint myodeint GN nbrs tr rr inf nodelist tmin tmax tcount true
      = .ok (x0, l)) (i : Nat) :
    let N := (nodesOf GN nodelist).length
    getN l 1 = N ∧ getN l 2 = N ∧ (∀ k, k < N → getM l 1 i k + getM l 2 i k = 1) ∧
    sumTo N (getM l 1 i) + sumTo N (getM l 2 i) = (N : Rat) := by
  obtain ⟨-, rfl⟩ := SIS_individual_based_pure_IC_form h
  obtain ⟨a, b, c, d, -⟩ := outSISInd_conserve_full (linspace tmin tmax tcount) (nodesOf GN nodelist).length
    (odeint (fun st => Gen.dSIS_individual_based st (nodesOf GN nodelist).length nbrs tr rr) x0) i
  exact ⟨a, b, c, d⟩

/-- **initial state**: `I(0)` = number of nodes of the node list in `initial_infecteds`, `S(0) = N − I(0)` -/
theorem SIS_individual_based_pure_IC_init {odeint myodeint : Solver} (h0 : RowZero odeint) {GN : Nat}
    {nbrs : Nat → List Nat} {tr : Nat → Nat → Rat} {rr : Nat → Rat} {inf : List Nat} {nodelist : Option (List Nat)}
    {tmin tmax : Rat} {tcount : Nat} {x0 : V} {l : List Out}
    (h : GenGlue2.SIS_individual_based_pure_IC odeint myodeint GN nbrs tr rr inf nodelist tmin tmax tcount false
      = .ok (x0, l)) :
    get l 2 0 = (countIn (nodesOf GN nodelist) (memB inf) : Rat) ∧
    get l 1 0 = ((nodesOf GN nodelist).length : Rat) - (countIn (nodesOf GN nodelist) (memB inf) : Rat) := by
  obtain ⟨rfl, rfl⟩ := SIS_individual_based_pure_IC_form h
  have := outSISInd_init (linspace tmin tmax tcount) (indV (nodesOf GN nodelist) (memB inf) 1 0)
    (odeint (fun st => Gen.dSIS_individual_based st (nodesOf GN nodelist).length nbrs tr rr) _) (h0 _ _)
  rw [indV_n, sumTo_indV] at this
  exact this

/-- initial state when the sets are duplicate-free subsets of a duplicate-free node list: `I(0) = |initial_infecteds|` -/
theorem SIS_individual_based_pure_IC_init_card {odeint myodeint : Solver} (h0 : RowZero odeint) {GN : Nat}
    {nbrs : Nat → List Nat} {tr : Nat → Nat → Rat} {rr : Nat → Rat} {inf : List Nat} {nodelist : Option (List Nat)}
    {tmin tmax : Rat} {tcount : Nat} {x0 : V} {l : List Out}
    (h : GenGlue2.SIS_individual_based_pure_IC odeint myodeint GN nbrs tr rr inf nodelist tmin tmax tcount false
      = .ok (x0, l))
    (h1 : (nodesOf GN nodelist).Nodup) (h2 : inf.Nodup) (h3 : ∀ u ∈ inf, u ∈ nodesOf GN nodelist) :
    get l 2 0 = (inf.length : Rat) ∧ get l 1 0 = ((nodesOf GN nodelist).length : Rat) - (inf.length : Rat) := by
  have := SIS_individual_based_pure_IC_init h0 h
  rwa [countIn_memB _ _ h1 h2 h3] at this

/-- **initial state, per node**: `Y_k(0) = 1` iff the `k`-th node of the node list is in `initial_infecteds`
(otherwise `0`), and `S_k(0) = 1 − Y_k(0)` -/
theorem SIS_individual_based_pure_IC_init_full {odeint myodeint : Solver} (h0 : RowZero odeint) {GN : Nat}
    {nbrs : Nat → List Nat} {tr : Nat → Nat → Rat} {rr : Nat → Rat} {inf : List Nat} {nodelist : Option (List Nat)}
    {tmin tmax : Rat} {tcount : Nat} {x0 : V} {l : List Out}
    (h : GenGlue2.SIS_individual_based_pure_IC odeint myodeint GN nbrs tr rr inf nodelist tmin tmax tcount true
      = .ok (x0, l)) (k : Nat) (hk : k < (nodesOf GN nodelist).length) :
    getM l 2 0 k = (if (nodesOf GN nodelist).getD k 0 ∈ inf then 1 else 0) ∧
    (getM l 2 0 k = 1 ↔ (nodesOf GN nodelist).getD k 0 ∈ inf) ∧
    getM l 1 0 k = 1 - getM l 2 0 k := by
  obtain ⟨rfl, rfl⟩ := SIS_individual_based_pure_IC_form h
  have := outSISInd_init_full (linspace tmin tmax tcount) (indV (nodesOf GN nodelist) (memB inf) 1 0)
    (odeint (fun st => Gen.dSIS_individual_based st (nodesOf GN nodelist).length nbrs tr rr) _) (h0 _ _) k
    (by rw [indV_n]; exact hk)
  rw [indV_n, indV_f _ _ _ _ _ hk] at this
  obtain ⟨e1, e2⟩ := this
  rw [e1, e2]
  generalize (nodesOf GN nodelist).getD k 0 = u
  by_cases hm : u ∈ inf <;> simp [memB, hm]

/-- the `X0` of `SIR_individual_based_pure_IC`: `1 − Y0` without `initial_recovereds`, else the indicator of the nodes
in neither set -/
def pureX0 (nl inf : List Nat) (rc : Option (List Nat)) : V :=
  match rc with
  | none => vcompl (indV nl (memB inf) 1 0)
  | some rc => indV nl (memB (rc ++ inf)) 0 1

@[simp] theorem pureX0_n (nl inf : List Nat) (rc : Option (List Nat)) : (pureX0 nl inf rc).n = nl.length := by
  cases rc <;> simp [pureX0]

/-- **call**: never raises an argument error; `X0`, `Y0` are the indicator vectors and the run is that of
`SIR_individual_based` -/
theorem SIR_individual_based_pure_IC_call (odeint myodeint : Solver) (GN : Nat) (nbrs : Nat → List Nat)
    (tr : Nat → Nat → Rat) (rr : Nat → Rat) (inf : List Nat) (rc : Option (List Nat)) (nodelist : Option (List Nat))
    (tmin tmax : Rat) (tcount : Nat) (full : Bool) :
    GenGlue2.SIR_individual_based_pure_IC odeint myodeint GN nbrs tr rr inf rc nodelist tmin tmax tcount full =
      .ok (V.append (pureX0 (nodesOf GN nodelist) inf rc) (indV (nodesOf GN nodelist) (memB inf) 1 0),
        outSIRInd (linspace tmin tmax tcount) (nodesOf GN nodelist).length (nodesOf GN nodelist).length
          (nodesOf GN nodelist).length full
          (odeint (fun st => Gen.dSIR_individual_based st (nodesOf GN nodelist).length nbrs tr rr)
            (V.append (pureX0 (nodesOf GN nodelist) inf rc) (indV (nodesOf GN nodelist) (memB inf) 1 0)))) := by
  have key : GenGlue2.SIR_individual_based_pure_IC odeint myodeint GN nbrs tr rr inf rc nodelist tmin tmax tcount full =
      runSIRInd odeint (nodesOf GN nodelist).length nbrs tr rr (pureX0 (nodesOf GN nodelist) inf rc)
        (indV (nodesOf GN nodelist) (memB inf) 1 0) (linspace tmin tmax tcount) full := by
    unfold GenGlue2.SIR_individual_based_pure_IC
    cases nodelist <;> cases rc <;>
      simp only [Option.isNone_none, Option.isNone_some, if_true, if_false, Bool.false_eq_true, need_some, ok_bind,
        SIR_individual_based_call, nodesOf, Option.getD, bind_pure, pure_bind] <;> rfl
  rw [key, runSIRInd_eq_length (by rw [pureX0_n, indV_n]), pureX0_n]

theorem SIR_individual_based_pure_IC_no_error (odeint myodeint : Solver) (GN : Nat) (nbrs : Nat → List Nat)
    (tr : Nat → Nat → Rat) (rr : Nat → Rat) (inf : List Nat) (rc : Option (List Nat)) (nodelist : Option (List Nat))
    (tmin tmax : Rat) (tcount : Nat) (full : Bool) :
    ∃ r, GenGlue2.SIR_individual_based_pure_IC odeint myodeint GN nbrs tr rr inf rc nodelist tmin tmax tcount full
      = .ok r := ⟨_, SIR_individual_based_pure_IC_call ..⟩

theorem SIR_individual_based_pure_IC_form {odeint myodeint : Solver} {GN : Nat} {nbrs : Nat → List Nat}
    {tr : Nat → Nat → Rat} {rr : Nat → Rat} {inf : List Nat} {rc : Option (List Nat)} {nodelist : Option (List Nat)}
    {tmin tmax : Rat} {tcount : Nat} {full : Bool} {x0 : V} {l : List Out}
    (h : GenGlue2.SIR_individual_based_pure_IC odeint myodeint GN nbrs tr rr inf rc nodelist tmin tmax tcount full
      = .ok (x0, l)) :
    x0 = V.append (pureX0 (nodesOf GN nodelist) inf rc) (indV (nodesOf GN nodelist) (memB inf) 1 0) ∧
    l = outSIRInd (linspace tmin tmax tcount) (nodesOf GN nodelist).length (nodesOf GN nodelist).length
          (nodesOf GN nodelist).length full
          (odeint (fun st => Gen.dSIR_individual_based st (nodesOf GN nodelist).length nbrs tr rr) x0) := by
  rw [SIR_individual_based_pure_IC_call] at h
  have := ok_inj h
  obtain rfl := (congrArg Prod.fst this).symm
  exact ⟨rfl, (congrArg Prod.snd this).symm⟩

/-- **conservation**: `S + I + R = N` (number of nodes) at every time index, for every solver -/
theorem SIR_individual_based_pure_IC_conserve {odeint myodeint : Solver} {GN : Nat} {nbrs : Nat → List Nat}
    {tr : Nat → Nat → Rat} {rr : Nat → Rat} {inf : List Nat} {rc : Option (List Nat)} {nodelist : Option (List Nat)}
    {tmin tmax : Rat} {tcount : Nat} {full : Bool} {x0 : V} {l : List Out}
    (h : GenGlue2.SIR_individual_based_pure_IC odeint myodeint GN nbrs tr rr inf rc nodelist tmin tmax tcount full
      = .ok (x0, l)) (i : Nat) :
    get l 1 i + get l 2 i + get l 3 i = ((nodesOf GN nodelist).length : Rat) := by
  obtain ⟨-, rfl⟩ := SIR_individual_based_pure_IC_form h
  exact outSIRInd_conserve _ _ _ _ i

/-- conservation, full data: per node `S_k + I_k + R_k = 1` -/
theorem SIR_individual_based_pure_IC_conserve_full {odeint myodeint : Solver} {GN : Nat} {nbrs : Nat → List Nat}
    {tr : Nat → Nat → Rat} {rr : Nat → Rat} {inf : List Nat} {rc : Option (List Nat)} {nodelist : Option (List Nat)}
    {tmin tmax : Rat} {tcount : Nat} {x0 : V} {l : List Out}
    (h : GenGlue2.SIR_individual_based_pure_IC odeint myodeint GN nbrs tr rr inf rc nodelist tmin tmax tcount true
      = .ok (x0, l)) (i : Nat) :
    let N := (nodesOf GN nodelist).length
    getN l 4 = N ∧ getN l 5 = N ∧ getN l 6 = N ∧
    (∀ k, k < N → getM l 4 i k + getM l 5 i k + getM l 6 i k = 1) ∧
    get l 1 i = sumTo N (getM l 4 i) ∧ get l 2 i = sumTo N (getM l 5 i) ∧ get l 3 i = sumTo N (getM l 6 i) := by
  obtain ⟨-, rfl⟩ := SIR_individual_based_pure_IC_form h
  exact outSIRInd_conserve_full _ _ _ i

/-- the three indicator counts partition the node list -/
theorem pure_counts (nl inf rc : List Nat) :
    (nl.length : Rat) - (countIn nl (fun u => !memB (rc ++ inf) u) : Rat) - (countIn nl (memB inf) : Rat)
      = (countIn nl (fun u => memB rc u && !memB inf u) : Rat) := by
  have hN : (nl.length : Rat) = sumTo nl.length (fun _ => (1 : Rat)) := by rw [sumTo_const]; ring
  unfold countIn
  rw [← sumTo_indV', ← sumTo_indV, ← sumTo_indV nl (fun u => memB rc u && !memB inf u), hN, ← GenGlueProofs.sumTo_sub3]
  apply ODE.sumTo_congr
  intro k hk
  rw [indV_f _ _ _ _ _ hk, indV_f _ _ _ _ _ hk, indV_f _ _ _ _ _ hk]
  have : memB (rc ++ inf) (nl.getD k 0) = (memB rc (nl.getD k 0) || memB inf (nl.getD k 0)) := by simp [memB]
  rw [this]
  cases memB rc (nl.getD k 0) <;> cases memB inf (nl.getD k 0) <;> simp

/-- **initial state** (`initial_recovereds` given): `I(0)` = number of listed nodes in `initial_infecteds`, `S(0)` =
number in neither set, `R(0)` = number in `initial_recovereds` and not in `initial_infecteds` (a node in both sets starts
infected) -/
theorem SIR_individual_based_pure_IC_init {odeint myodeint : Solver} (h0 : RowZero odeint) {GN : Nat}
    {nbrs : Nat → List Nat} {tr : Nat → Nat → Rat} {rr : Nat → Rat} {inf rc : List Nat} {nodelist : Option (List Nat)}
    {tmin tmax : Rat} {tcount : Nat} {full : Bool} {x0 : V} {l : List Out}
    (h : GenGlue2.SIR_individual_based_pure_IC odeint myodeint GN nbrs tr rr inf (some rc) nodelist tmin tmax tcount full
      = .ok (x0, l)) :
    get l 1 0 = (countIn (nodesOf GN nodelist) (fun u => !memB (rc ++ inf) u) : Rat) ∧
    get l 2 0 = (countIn (nodesOf GN nodelist) (memB inf) : Rat) ∧
    get l 3 0 = (countIn (nodesOf GN nodelist) (fun u => memB rc u && !memB inf u) : Rat) := by
  obtain ⟨rfl, rfl⟩ := SIR_individual_based_pure_IC_form h
  have := outSIRInd_init (linspace tmin tmax tcount) (pureX0 (nodesOf GN nodelist) inf (some rc))
    (indV (nodesOf GN nodelist) (memB inf) 1 0) (by rw [pureX0_n, indV_n]) full
    (odeint (fun st => Gen.dSIR_individual_based st (nodesOf GN nodelist).length nbrs tr rr) _) (h0 _ _)
  rw [pureX0_n] at this
  simp only [pureX0] at this
  rw [sumTo_indV, sumTo_indV'] at this
  obtain ⟨a, b, c⟩ := this
  exact ⟨a, b, c.trans (pure_counts _ _ _)⟩

/-- **initial state** (`initial_recovereds=None`): `I(0)` = number of listed nodes in `initial_infecteds`,
`S(0) = N − I(0)`, `R(0) = 0` -/
theorem SIR_individual_based_pure_IC_init_none {odeint myodeint : Solver} (h0 : RowZero odeint) {GN : Nat}
    {nbrs : Nat → List Nat} {tr : Nat → Nat → Rat} {rr : Nat → Rat} {inf : List Nat} {nodelist : Option (List Nat)}
    {tmin tmax : Rat} {tcount : Nat} {full : Bool} {x0 : V} {l : List Out}
    (h : GenGlue2.SIR_individual_based_pure_IC odeint myodeint GN nbrs tr rr inf none nodelist tmin tmax tcount full
      = .ok (x0, l)) :
    get l 1 0 = ((nodesOf GN nodelist).length : Rat) - (countIn (nodesOf GN nodelist) (memB inf) : Rat) ∧
    get l 2 0 = (countIn (nodesOf GN nodelist) (memB inf) : Rat) ∧ get l 3 0 = 0 := by
  obtain ⟨rfl, rfl⟩ := SIR_individual_based_pure_IC_form h
  have := outSIRInd_init (linspace tmin tmax tcount) (pureX0 (nodesOf GN nodelist) inf none)
    (indV (nodesOf GN nodelist) (memB inf) 1 0) (by rw [pureX0_n, indV_n]) full
    (odeint (fun st => Gen.dSIR_individual_based st (nodesOf GN nodelist).length nbrs tr rr) _) (h0 _ _)
  rw [pureX0_n] at this
  simp only [pureX0] at this
  have e : sumTo (nodesOf GN nodelist).length (vcompl (indV (nodesOf GN nodelist) (memB inf) 1 0)).f
      = ((nodesOf GN nodelist).length : Rat) - (countIn (nodesOf GN nodelist) (memB inf) : Rat) := by
    have : (vcompl (indV (nodesOf GN nodelist) (memB inf) 1 0)).f
        = fun k => (1 : Rat) - (indV (nodesOf GN nodelist) (memB inf) 1 0).f k := rfl
    rw [this, GenGlueProofs.sumTo_sub, sumTo_const, sumTo_indV]; unfold countIn; ring
  rw [e, sumTo_indV] at this
  obtain ⟨a, b, c⟩ := this
  exact ⟨a, b, c.trans (by unfold countIn; ring)⟩

/-- **initial state, per node**: `Y_k(0) = 1` iff node `k` of the node list is in `initial_infecteds`; `X_k(0) = 0` iff
it is in `initial_recovereds ∪ initial_infecteds`; `R_k(0) = 1 − X_k(0) − Y_k(0)` -/
theorem SIR_individual_based_pure_IC_init_full {odeint myodeint : Solver} (h0 : RowZero odeint) {GN : Nat}
    {nbrs : Nat → List Nat} {tr : Nat → Nat → Rat} {rr : Nat → Rat} {inf rc : List Nat} {nodelist : Option (List Nat)}
    {tmin tmax : Rat} {tcount : Nat} {x0 : V} {l : List Out}
    (h : GenGlue2.SIR_individual_based_pure_IC odeint myodeint GN nbrs tr rr inf (some rc) nodelist tmin tmax tcount true
      = .ok (x0, l)) (k : Nat) (hk : k < (nodesOf GN nodelist).length) :
    getM l 5 0 k = (if (nodesOf GN nodelist).getD k 0 ∈ inf then 1 else 0) ∧
    getM l 4 0 k = (if (nodesOf GN nodelist).getD k 0 ∈ rc ∨ (nodesOf GN nodelist).getD k 0 ∈ inf then 0 else 1) ∧
    getM l 6 0 k = 1 - getM l 4 0 k - getM l 5 0 k := by
  obtain ⟨rfl, rfl⟩ := SIR_individual_based_pure_IC_form h
  have := outSIRInd_init_full (linspace tmin tmax tcount) (pureX0 (nodesOf GN nodelist) inf (some rc))
    (indV (nodesOf GN nodelist) (memB inf) 1 0)
    (odeint (fun st => Gen.dSIR_individual_based st (nodesOf GN nodelist).length nbrs tr rr) _) (h0 _ _) k (by rw [pureX0_n]; exact hk)
  rw [pureX0_n] at this
  simp only [pureX0] at this
  rw [indV_f _ _ _ _ _ hk, indV_f _ _ _ _ _ hk] at this
  obtain ⟨e1, e2, e3⟩ := this
  simp only [pureX0]
  rw [e1, e2, e3]
  generalize (nodesOf GN nodelist).getD k 0 = u
  simp [memB]

/-! ## 4. `SIS_pair_based` (`Xs = 1 − Ys`; solved by `myodeint`) -/

/-- guard 1: neither `Y0` nor `rho` on a graph without nodes: `rho = 1.0/N` is a `ZeroDivisionError` -/
theorem SIS_pair_based_error_zeroDiv (odeint myodeint : Solver) (nbrs : Nat → List Nat) (tr : Nat → Nat → Rat)
    (rr : Nat → Rat) (nodelist : Option (List Nat)) (XY0 XX0 : Option Mx) (tmin tmax : Rat) (tcount : Nat) (full : Bool) :
    GenGlue2.SIS_pair_based odeint myodeint 0 nbrs tr rr none nodelist none XY0 XX0 tmin tmax tcount full
      = .error "ZeroDivisionError" := by
  simp [GenGlue2.SIS_pair_based]

/-- guard 2: `Y0` together with `rho` -/
theorem SIS_pair_based_error_both (odeint myodeint : Solver) (GN : Nat) (nbrs : Nat → List Nat) (tr : Nat → Nat → Rat)
    (rr : Nat → Rat) (r : Rat) (y : V) (nodelist : Option (List Nat)) (XY0 XX0 : Option Mx) (tmin tmax : Rat)
    (tcount : Nat) (full : Bool) :
    GenGlue2.SIS_pair_based odeint myodeint GN nbrs tr rr (some r) nodelist (some y) XY0 XX0 tmin tmax tcount full
      = .error "EoNError" := by
  simp [GenGlue2.SIS_pair_based]

/-- guard 3: `Y0` without `nodelist` -/
theorem SIS_pair_based_error_nodelist (odeint myodeint : Solver) (GN : Nat) (nbrs : Nat → List Nat)
    (tr : Nat → Nat → Rat) (rr : Nat → Rat) (rho : Option Rat) (y : V) (XY0 XX0 : Option Mx) (tmin tmax : Rat)
    (tcount : Nat) (full : Bool) :
    GenGlue2.SIS_pair_based odeint myodeint GN nbrs tr rr rho none (some y) XY0 XX0 tmin tmax tcount full
      = .error "EoNError" := by
  cases rho <;> simp [GenGlue2.SIS_pair_based]

/-- guard 4: `Y0` of the wrong length -/
theorem SIS_pair_based_error_length (odeint myodeint : Solver) (GN : Nat) (nbrs : Nat → List Nat)
    (tr : Nat → Nat → Rat) (rr : Nat → Rat) (nl : List Nat) (y : V) (XY0 XX0 : Option Mx) (tmin tmax : Rat)
    (tcount : Nat) (full : Bool) (hy : y.n ≠ GN) :
    GenGlue2.SIS_pair_based odeint myodeint GN nbrs tr rr none (some nl) (some y) XY0 XX0 tmin tmax tcount full
      = .error "EoNError" := by
  simp [GenGlue2.SIS_pair_based, hy]

/-- guard 5: `XY0` of the wrong shape (after the guards on `Y0`) -/
theorem SIS_pair_based_error_XY0 (odeint myodeint : Solver) (GN : Nat) (nbrs : Nat → List Nat)
    (tr : Nat → Nat → Rat) (rr : Nat → Rat) (nl : List Nat) (y : V) (xy : Mx) (XX0 : Option Mx) (tmin tmax : Rat)
    (tcount : Nat) (full : Bool) (hy : y.n = GN) (hs : ¬ (xy.r = GN ∧ xy.c = GN)) :
    GenGlue2.SIS_pair_based odeint myodeint GN nbrs tr rr none (some nl) (some y) (some xy) XX0 tmin tmax tcount full
      = .error "EoNError" := by
  simp [GenGlue2.SIS_pair_based, hy, hs]


/-- guard 6: `XX0` of the wrong shape (after the guards on `Y0` and `XY0`) -/
theorem SIS_pair_based_error_XX0 (odeint myodeint : Solver) (GN : Nat) (nbrs : Nat → List Nat)
    (tr : Nat → Nat → Rat) (rr : Nat → Rat) (nl : List Nat) (y : V) (xy xx : Mx) (tmin tmax : Rat)
    (tcount : Nat) (full : Bool) (hy : y.n = GN) (hs : xy.r = GN ∧ xy.c = GN) (hx : ¬ (xx.r = GN ∧ xx.c = GN)) :
    GenGlue2.SIS_pair_based odeint myodeint GN nbrs tr rr none (some nl) (some y) (some xy) (some xx) tmin tmax tcount full
      = .error "EoNError" := by
  simp [GenGlue2.SIS_pair_based, hy, hs, hx]

/-- **`rho` form, with or without `nodelist`** (node list of `GN` nodes): the function does not raise; `myodeint`
solves `Gen.dSIS_pair_based` from an `X0` of length `N + 2N²` whose first `N` entries (`Y0`) are all `rho`; the
returned arrays are `outSISPair` of that solution.  (In the regenerated text `Y0` is built from `rho` under its own
`if Y0 is None`, also when `nodelist` is given.) -/
theorem SIS_pair_based_rho_form (odeint myodeint : Solver) (GN : Nat) (nbrs : Nat → List Nat) (tr : Nat → Nat → Rat)
    (rr : Nat → Rat) (r : Rat) (nodelist : Option (List Nat)) (tmin tmax : Rat) (tcount : Nat) (full : Bool)
    (hl : (nodesOf GN nodelist).length = GN) :
    ∃ x0, GenGlue2.SIS_pair_based odeint myodeint GN nbrs tr rr (some r) nodelist none none none tmin tmax tcount full
      = .ok (x0, outSISPair (linspace tmin tmax tcount) GN full
          (myodeint (fun st => Gen.dSIS_pair_based st GN nbrs tr rr) x0)) ∧
      x0.n = GN + GN ^ 2 + GN ^ 2 ∧ (∀ k, k < GN → x0.f k = r) := by
  have hsq : GN * GN = GN ^ 2 := by ring
  unfold GenGlue2.SIS_pair_based
  cases nodelist <;> cases full <;>
    simp [nodesOf] at hl <;>
    simp [Mx.op, Mx.col, Mx.row, adj, hl, Mx.reshape, Mx.vcat, Mx.getRow, Mx.T, hsq, vslice, vsum, sl3_0, sl3_1, sl3_2,
      so3_1, so3_2, outSISPair]
  all_goals (intro k hk; rw [if_pos (by omega), if_pos hk])

/-- neither `rho` nor `Y0` on a graph with nodes: `rho = 1/N` -/
theorem SIS_pair_based_default_form (odeint myodeint : Solver) (GN : Nat) (nbrs : Nat → List Nat)
    (tr : Nat → Nat → Rat) (rr : Nat → Rat) (nodelist : Option (List Nat)) (tmin tmax : Rat) (tcount : Nat) (full : Bool)
    (hN : GN ≠ 0) :
    GenGlue2.SIS_pair_based odeint myodeint GN nbrs tr rr none nodelist none none none tmin tmax tcount full
      = GenGlue2.SIS_pair_based odeint myodeint GN nbrs tr rr (some (1 / (GN : Rat))) nodelist none none none tmin tmax
          tcount full := by
  unfold GenGlue2.SIS_pair_based
  simp [hN]

/-- **explicit `Y0`** (with `nodelist`, both of `GN` entries): no exception; the first `N` entries of `X0` are `Y0` -/
theorem SIS_pair_based_Y0_form (odeint myodeint : Solver) (GN : Nat) (nbrs : Nat → List Nat) (tr : Nat → Nat → Rat)
    (rr : Nat → Rat) (y : V) (nl : List Nat) (tmin tmax : Rat) (tcount : Nat) (full : Bool)
    (hy : y.n = GN) (hl : nl.length = GN) :
    ∃ x0, GenGlue2.SIS_pair_based odeint myodeint GN nbrs tr rr none (some nl) (some y) none none tmin tmax tcount full
      = .ok (x0, outSISPair (linspace tmin tmax tcount) GN full
          (myodeint (fun st => Gen.dSIS_pair_based st GN nbrs tr rr) x0)) ∧
      x0.n = GN + GN ^ 2 + GN ^ 2 ∧ (∀ k, k < GN → x0.f k = y.f k) := by
  have hsq : GN * GN = GN ^ 2 := by ring
  unfold GenGlue2.SIS_pair_based
  cases full <;>
    simp [Mx.op, Mx.col, Mx.row, adj, hl, hy, Mx.reshape, Mx.vcat, Mx.getRow, Mx.T, hsq, vslice, vsum, sl3_0, sl3_1,
      sl3_2, so3_1, so3_2, outSISPair]
  all_goals (intro k hk; rw [if_pos (by omega), if_pos hk])

/-- **`rho` form: conservation and initial state**: `S + I = N` at EVERY time index for every solver; with
`RowZero myodeint`, `I(0) = rho·N` and `S(0) = (1 − rho)·N` — with or without `nodelist` -/
theorem SIS_pair_based_rho {odeint myodeint : Solver} {GN : Nat} {nbrs : Nat → List Nat} {tr : Nat → Nat → Rat}
    {rr : Nat → Rat} {r : Rat} {nodelist : Option (List Nat)} {tmin tmax : Rat} {tcount : Nat} {full : Bool}
    (hl : (nodesOf GN nodelist).length = GN) :
    ∃ x0 l, GenGlue2.SIS_pair_based odeint myodeint GN nbrs tr rr (some r) nodelist none none none tmin tmax tcount full
      = .ok (x0, l) ∧ (∀ i, get l 1 i + get l 2 i = (GN : Rat)) ∧
      (RowZero myodeint → get l 2 0 = r * (GN : Rat) ∧ get l 1 0 = (1 - r) * (GN : Rat)) := by
  obtain ⟨x0, h, -, hf⟩ := SIS_pair_based_rho_form odeint myodeint GN nbrs tr rr r nodelist tmin tmax tcount full hl
  refine ⟨x0, _, h, fun i => outSISPair_conserve _ _ _ _ i, fun h0 => ?_⟩
  obtain ⟨a, b⟩ := outSISPair_init (linspace tmin tmax tcount) GN full
    (myodeint (fun st => Gen.dSIS_pair_based st GN nbrs tr rr) x0) x0 (fun _ => r) (h0 _ _) hf
  rw [a, b, sumTo_const]
  constructor <;> ring

/-- **explicit `Y0`: conservation and initial state**: `S + I = N` at every time index; `I(0) = Σ Y0`,
`S(0) = N − Σ Y0` -/
theorem SIS_pair_based_Y0 {odeint myodeint : Solver} {GN : Nat} {nbrs : Nat → List Nat} {tr : Nat → Nat → Rat}
    {rr : Nat → Rat} {y : V} {nl : List Nat} {tmin tmax : Rat} {tcount : Nat} {full : Bool}
    (hy : y.n = GN) (hl : nl.length = GN) :
    ∃ x0 l, GenGlue2.SIS_pair_based odeint myodeint GN nbrs tr rr none (some nl) (some y) none none tmin tmax tcount full
      = .ok (x0, l) ∧ (∀ i, get l 1 i + get l 2 i = (GN : Rat)) ∧
      (RowZero myodeint → get l 2 0 = sumTo GN y.f ∧ get l 1 0 = (GN : Rat) - sumTo GN y.f) := by
  obtain ⟨x0, h, -, hf⟩ := SIS_pair_based_Y0_form odeint myodeint GN nbrs tr rr y nl tmin tmax tcount full hy hl
  exact ⟨x0, _, h, fun i => outSISPair_conserve _ _ _ _ i, fun h0 =>
    outSISPair_init (linspace tmin tmax tcount) GN full _ x0 y.f (h0 _ _) hf⟩

/-- full data: per node `X_k + Y_k = 1`, the declared shapes, `S`, `I` are the sums (any normal return of the forms
above has this list) -/
theorem SIS_pair_based_full (T : Nat → Rat) (N : Nat) (X : Nat → V) (i : Nat) :
    let l := outSISPair T N true X
    getN l 3 = N ∧ getN l 4 = N ∧ getN l 5 = N * N ∧ getN l 6 = N * N ∧
    (∀ k, k < N → getM l 3 i k + getM l 4 i k = 1) ∧
    get l 1 i = sumTo N (getM l 3 i) ∧ get l 2 i = sumTo N (getM l 4 i) := outSISPair_full T N X i

/-! ## 5. `SIS_pair_based_pure_IC` -/

/-- **pure initial condition** (node list of `GN` nodes): no exception; `S + I = N` at every time index; `I(0)` = number
of listed nodes in `initial_infecteds`, `S(0) = N − I(0)` -/
theorem SIS_pair_based_pure_IC_spec {odeint myodeint : Solver} {GN : Nat} {nbrs : Nat → List Nat}
    {tr : Nat → Nat → Rat} {rr : Nat → Rat} {inf : List Nat} {nodelist : Option (List Nat)} {tmin tmax : Rat}
    {tcount : Nat} {full : Bool} (hl : (nodesOf GN nodelist).length = GN) :
    ∃ x0 l, GenGlue2.SIS_pair_based_pure_IC odeint myodeint GN nbrs tr rr inf nodelist tmin tmax tcount full
      = .ok (x0, l) ∧ (∀ i, get l 1 i + get l 2 i = (GN : Rat)) ∧
      (RowZero myodeint → get l 2 0 = (countIn (nodesOf GN nodelist) (memB inf) : Rat) ∧
        get l 1 0 = (GN : Rat) - (countIn (nodesOf GN nodelist) (memB inf) : Rat)) := by
  obtain ⟨x0, l, h, hc, hi⟩ := SIS_pair_based_Y0 (odeint := odeint) (myodeint := myodeint) (nbrs := nbrs) (tr := tr)
    (rr := rr) (tmin := tmin) (tmax := tmax) (tcount := tcount) (full := full)
    (y := indV (nodesOf GN nodelist) (memB inf) 1 0) (nl := nodesOf GN nodelist) (by rw [indV_n, hl]) hl
  refine ⟨x0, l, ?_, hc, fun h0 => ?_⟩
  · unfold GenGlue2.SIS_pair_based_pure_IC
    cases nodelist <;>
      simp only [Option.isNone_none, Option.isNone_some, if_true, if_false, Bool.false_eq_true, need_some, ok_bind,
        nodesOf, Option.getD, bind_pure, pure_bind] at h ⊢ <;>
      exact h
  · have e : sumTo GN (indV (nodesOf GN nodelist) (memB inf) 1 0).f = (countIn (nodesOf GN nodelist) (memB inf) : Rat) := by
      have := sumTo_indV (nodesOf GN nodelist) (memB inf)
      rw [hl] at this
      exact this
    have := hi h0
    rw [e] at this
    exact this

/-- a node list whose length differs from `G.order()` is rejected with `EoNError` (`len(Y0) != N`) -/
theorem SIS_pair_based_pure_IC_error (odeint myodeint : Solver) (GN : Nat) (nbrs : Nat → List Nat)
    (tr : Nat → Nat → Rat) (rr : Nat → Rat) (inf nl : List Nat) (tmin tmax : Rat) (tcount : Nat) (full : Bool)
    (hl : nl.length ≠ GN) :
    GenGlue2.SIS_pair_based_pure_IC odeint myodeint GN nbrs tr rr inf (some nl) tmin tmax tcount full
      = .error "EoNError" := by
  unfold GenGlue2.SIS_pair_based_pure_IC
  simp only [Option.isNone_some, if_false, Bool.false_eq_true, need_some, ok_bind]
  rw [SIS_pair_based_error_length _ _ _ _ _ _ _ _ _ _ _ _ _ _ (by simpa using hl)]


/-! ## 6. `SIR_pair_based` (`Zs = 1 − Xs − Ys`; solved by `odeint`) -/

theorem SIR_pair_based_error_zeroDiv (odeint myodeint : Solver) (nbrs : Nat → List Nat) (tr : Nat → Nat → Rat)
    (rr : Nat → Rat) (nodelist : Option (List Nat)) (X0 : Option V) (XY0 XX0 : Option Mx) (tmin tmax : Rat)
    (tcount : Nat) (full : Bool) :
    GenGlue2.SIR_pair_based odeint myodeint 0 nbrs tr rr none nodelist none X0 XY0 XX0 tmin tmax tcount full
      = .error "ZeroDivisionError" := by
  simp [GenGlue2.SIR_pair_based]

theorem SIR_pair_based_error_both (odeint myodeint : Solver) (GN : Nat) (nbrs : Nat → List Nat) (tr : Nat → Nat → Rat)
    (rr : Nat → Rat) (r : Rat) (y : V) (nodelist : Option (List Nat)) (X0 : Option V) (XY0 XX0 : Option Mx)
    (tmin tmax : Rat) (tcount : Nat) (full : Bool) :
    GenGlue2.SIR_pair_based odeint myodeint GN nbrs tr rr (some r) nodelist (some y) X0 XY0 XX0 tmin tmax tcount full
      = .error "EoNError" := by
  simp [GenGlue2.SIR_pair_based]

theorem SIR_pair_based_error_nodelist (odeint myodeint : Solver) (GN : Nat) (nbrs : Nat → List Nat)
    (tr : Nat → Nat → Rat) (rr : Nat → Rat) (rho : Option Rat) (y : V) (X0 : Option V) (XY0 XX0 : Option Mx)
    (tmin tmax : Rat) (tcount : Nat) (full : Bool) :
    GenGlue2.SIR_pair_based odeint myodeint GN nbrs tr rr rho none (some y) X0 XY0 XX0 tmin tmax tcount full
      = .error "EoNError" := by
  cases rho <;> simp [GenGlue2.SIR_pair_based]

theorem SIR_pair_based_error_length (odeint myodeint : Solver) (GN : Nat) (nbrs : Nat → List Nat)
    (tr : Nat → Nat → Rat) (rr : Nat → Rat) (nl : List Nat) (y : V) (X0 : Option V) (XY0 XX0 : Option Mx)
    (tmin tmax : Rat) (tcount : Nat) (full : Bool) (hy : y.n ≠ GN) :
    GenGlue2.SIR_pair_based odeint myodeint GN nbrs tr rr none (some nl) (some y) X0 XY0 XX0 tmin tmax tcount full
      = .error "EoNError" := by
  simp [GenGlue2.SIR_pair_based, hy]

/-- `XY0` of the wrong shape (after the guards on `Y0`; `X0` given so that no earlier step can fail) -/
theorem SIR_pair_based_error_XY0 (odeint myodeint : Solver) (GN : Nat) (nbrs : Nat → List Nat)
    (tr : Nat → Nat → Rat) (rr : Nat → Rat) (nl : List Nat) (y x : V) (xy : Mx) (XX0 : Option Mx) (tmin tmax : Rat)
    (tcount : Nat) (full : Bool) (hy : y.n = GN) (hs : ¬ (xy.r = GN ∧ xy.c = GN)) :
    GenGlue2.SIR_pair_based odeint myodeint GN nbrs tr rr none (some nl) (some y) (some x) (some xy) XX0 tmin tmax tcount
      full = .error "EoNError" := by
  simp [GenGlue2.SIR_pair_based, hy, hs]

/-- **`rho` form, with or without `nodelist`** (node list of `GN` nodes): no exception; `odeint` solves
`Gen.dSIR_pair_based` from an `X0` of length `2N + 2N²` with `X = 1 − rho`, `Y = rho` on every node -/
theorem SIR_pair_based_rho_form (odeint myodeint : Solver) (GN : Nat) (nbrs : Nat → List Nat) (tr : Nat → Nat → Rat)
    (rr : Nat → Rat) (r : Rat) (nodelist : Option (List Nat)) (tmin tmax : Rat) (tcount : Nat) (full : Bool)
    (hl : (nodesOf GN nodelist).length = GN) :
    ∃ x0, GenGlue2.SIR_pair_based odeint myodeint GN nbrs tr rr (some r) nodelist none none none none tmin tmax tcount
        full = .ok (x0, outSIRPair (linspace tmin tmax tcount) GN full
          (odeint (fun st => Gen.dSIR_pair_based st GN nbrs tr rr) x0)) ∧
      x0.n = GN + GN + GN ^ 2 + GN ^ 2 ∧ (∀ k, k < GN → x0.f k = 1 - r) ∧ (∀ k, k < GN → x0.f (GN + k) = r) := by
  have hsq : GN * GN = GN ^ 2 := by ring
  unfold GenGlue2.SIR_pair_based
  cases nodelist <;> cases full <;>
    simp [nodesOf] at hl <;>
    simp [Mx.op, Mx.col, Mx.row, adj, hl, Mx.reshape, Mx.vcat, Mx.getRow, Mx.T, hsq, vslice, vsum, sl4_0, sl4_1,
      sl4_2, sl4_3, so4_1, so4_2, so4_3, outSIRPair]
  all_goals (
    refine ⟨fun k hk => ?_, fun k hk => ?_⟩
    · have h1 : k < GN + GN + GN ^ 2 := by omega
      have h2 : k < GN + GN := by omega
      simp [h1, h2, hk]
    · have h1 : GN + k < GN + GN + GN ^ 2 := by omega
      simp [h1, hk])

/-- **explicit `Y0`, default `X0 = 1 − Y0`** -/
theorem SIR_pair_based_Y0_form (odeint myodeint : Solver) (GN : Nat) (nbrs : Nat → List Nat) (tr : Nat → Nat → Rat)
    (rr : Nat → Rat) (y : V) (nl : List Nat) (tmin tmax : Rat) (tcount : Nat) (full : Bool)
    (hy : y.n = GN) (hl : nl.length = GN) :
    ∃ x0, GenGlue2.SIR_pair_based odeint myodeint GN nbrs tr rr none (some nl) (some y) none none none tmin tmax tcount
        full = .ok (x0, outSIRPair (linspace tmin tmax tcount) GN full
          (odeint (fun st => Gen.dSIR_pair_based st GN nbrs tr rr) x0)) ∧
      x0.n = GN + GN + GN ^ 2 + GN ^ 2 ∧ (∀ k, k < GN → x0.f k = 1 - y.f k) ∧
      (∀ k, k < GN → x0.f (GN + k) = y.f k) := by
  have hsq : GN * GN = GN ^ 2 := by ring
  unfold GenGlue2.SIR_pair_based
  cases full <;>
    simp [Mx.op, Mx.col, Mx.row, adj, hl, hy, Mx.reshape, Mx.vcat, Mx.getRow, Mx.T, hsq, vslice, vsum, sl4_0, sl4_1,
      sl4_2, sl4_3, so4_1, so4_2, so4_3, outSIRPair]
  all_goals (
    refine ⟨fun k hk => ?_, fun k hk => ?_⟩
    · have h1 : k < GN + GN + GN ^ 2 := by omega
      have h2 : k < GN + GN := by omega
      simp [h1, h2, hk]
    · have h1 : GN + k < GN + GN + GN ^ 2 := by omega
      simp [h1, hk])

/-- **explicit `Y0` and `X0`** (both of `GN` entries) -/
theorem SIR_pair_based_X0_form (odeint myodeint : Solver) (GN : Nat) (nbrs : Nat → List Nat) (tr : Nat → Nat → Rat)
    (rr : Nat → Rat) (y x : V) (nl : List Nat) (tmin tmax : Rat) (tcount : Nat) (full : Bool)
    (hy : y.n = GN) (hx : x.n = GN) (hl : nl.length = GN) :
    ∃ x0, GenGlue2.SIR_pair_based odeint myodeint GN nbrs tr rr none (some nl) (some y) (some x) none none tmin tmax
        tcount full = .ok (x0, outSIRPair (linspace tmin tmax tcount) GN full
          (odeint (fun st => Gen.dSIR_pair_based st GN nbrs tr rr) x0)) ∧
      x0.n = GN + GN + GN ^ 2 + GN ^ 2 ∧ (∀ k, k < GN → x0.f k = x.f k) ∧
      (∀ k, k < GN → x0.f (GN + k) = y.f k) := by
  have hsq : GN * GN = GN ^ 2 := by ring
  unfold GenGlue2.SIR_pair_based
  cases full <;>
    simp [Mx.op, Mx.col, Mx.row, adj, hl, hy, hx, Mx.reshape, Mx.vcat, Mx.getRow, Mx.T, hsq, vslice, vsum, sl4_0, sl4_1,
      sl4_2, sl4_3, so4_1, so4_2, so4_3, outSIRPair]
  all_goals (
    refine ⟨fun k hk => ?_, fun k hk => ?_⟩
    · have h1 : k < GN + GN + GN ^ 2 := by omega
      have h2 : k < GN + GN := by omega
      simp [h1, h2, hk]
    · have h1 : GN + k < GN + GN + GN ^ 2 := by omega
      simp [h1, hk])

/-- **`rho` form: conservation and initial state**: `S + I + R = N` at EVERY time index for every solver; with
`RowZero odeint`, `S(0) = (1 − rho)·N`, `I(0) = rho·N`, `R(0) = 0` — with or without `nodelist` -/
theorem SIR_pair_based_rho {odeint myodeint : Solver} {GN : Nat} {nbrs : Nat → List Nat} {tr : Nat → Nat → Rat}
    {rr : Nat → Rat} {r : Rat} {nodelist : Option (List Nat)} {tmin tmax : Rat} {tcount : Nat} {full : Bool}
    (hl : (nodesOf GN nodelist).length = GN) :
    ∃ x0 l, GenGlue2.SIR_pair_based odeint myodeint GN nbrs tr rr (some r) nodelist none none none none tmin tmax tcount
        full = .ok (x0, l) ∧ (∀ i, get l 1 i + get l 2 i + get l 3 i = (GN : Rat)) ∧
      (RowZero odeint → get l 1 0 = (1 - r) * (GN : Rat) ∧ get l 2 0 = r * (GN : Rat) ∧ get l 3 0 = 0) := by
  obtain ⟨x0, h, -, hx, hy⟩ := SIR_pair_based_rho_form odeint myodeint GN nbrs tr rr r nodelist tmin tmax tcount full hl
  refine ⟨x0, _, h, fun i => outSIRPair_conserve _ _ _ _ i, fun h0 => ?_⟩
  obtain ⟨a, b, c⟩ := outSIRPair_init (linspace tmin tmax tcount) GN full
    (odeint (fun st => Gen.dSIR_pair_based st GN nbrs tr rr) x0) x0 (fun _ => 1 - r) (fun _ => r) (h0 _ _) hx hy
  rw [a, b, c, sumTo_const, sumTo_const]
  refine ⟨by ring, by ring, by ring⟩

/-- **explicit `Y0` (and optionally `X0`): conservation and initial state**: `S + I + R = N` at every time index;
`S(0) = Σ X0`, `I(0) = Σ Y0`, `R(0) = N − Σ X0 − Σ Y0` with `X0 = 1 − Y0` by default -/
theorem SIR_pair_based_Y0 {odeint myodeint : Solver} {GN : Nat} {nbrs : Nat → List Nat} {tr : Nat → Nat → Rat}
    {rr : Nat → Rat} {y : V} {X0 : Option V} {nl : List Nat} {tmin tmax : Rat} {tcount : Nat} {full : Bool}
    (hy : y.n = GN) (hx : ∀ x, X0 = some x → x.n = GN) (hl : nl.length = GN) :
    ∃ x0 l, GenGlue2.SIR_pair_based odeint myodeint GN nbrs tr rr none (some nl) (some y) X0 none none tmin tmax tcount
        full = .ok (x0, l) ∧ (∀ i, get l 1 i + get l 2 i + get l 3 i = (GN : Rat)) ∧
      (RowZero odeint → get l 1 0 = sumTo GN (X0.getD (vcompl y)).f ∧ get l 2 0 = sumTo GN y.f ∧
        get l 3 0 = (GN : Rat) - sumTo GN (X0.getD (vcompl y)).f - sumTo GN y.f) := by
  cases X0 with
  | none =>
    obtain ⟨x0, h, -, hx', hy'⟩ := SIR_pair_based_Y0_form odeint myodeint GN nbrs tr rr y nl tmin tmax tcount full hy hl
    exact ⟨x0, _, h, fun i => outSIRPair_conserve _ _ _ _ i, fun h0 =>
      outSIRPair_init (linspace tmin tmax tcount) GN full _ x0 (vcompl y).f y.f (h0 _ _) hx' hy'⟩
  | some x =>
    obtain ⟨x0, h, -, hx', hy'⟩ := SIR_pair_based_X0_form odeint myodeint GN nbrs tr rr y x nl tmin tmax tcount full hy
      (hx x rfl) hl
    exact ⟨x0, _, h, fun i => outSIRPair_conserve _ _ _ _ i, fun h0 =>
      outSIRPair_init (linspace tmin tmax tcount) GN full _ x0 x.f y.f (h0 _ _) hx' hy'⟩

/-- full data: per node `X_k + Y_k + Z_k = 1`, the declared shapes, `S, I, R` are the sums -/
theorem SIR_pair_based_full (T : Nat → Rat) (N : Nat) (X : Nat → V) (i : Nat) :
    let l := outSIRPair T N true X
    getN l 4 = N ∧ getN l 5 = N ∧ getN l 6 = N ∧ getN l 7 = N * N ∧ getN l 8 = N * N ∧
    (∀ k, k < N → getM l 4 i k + getM l 5 i k + getM l 6 i k = 1) ∧
    get l 1 i = sumTo N (getM l 4 i) ∧ get l 2 i = sumTo N (getM l 5 i) ∧ get l 3 i = sumTo N (getM l 6 i) :=
  outSIRPair_full T N X i

/-! ## 7. `SIR_pair_based_pure_IC` -/

/-- **pure initial condition** (node list of `GN` nodes, `initial_recovereds` given): no exception; `S + I + R = N` at
every time index; `S(0), I(0), R(0)` are the numbers of listed nodes in neither set / in `initial_infecteds` / in
`initial_recovereds` only -/
theorem SIR_pair_based_pure_IC_spec {odeint myodeint : Solver} {GN : Nat} {nbrs : Nat → List Nat}
    {tr : Nat → Nat → Rat} {rr : Nat → Rat} {inf rc : List Nat} {nodelist : Option (List Nat)} {tmin tmax : Rat}
    {tcount : Nat} {full : Bool} (hl : (nodesOf GN nodelist).length = GN) :
    ∃ x0 l, GenGlue2.SIR_pair_based_pure_IC odeint myodeint GN nbrs tr rr inf (some rc) nodelist tmin tmax tcount full
      = .ok (x0, l) ∧ (∀ i, get l 1 i + get l 2 i + get l 3 i = (GN : Rat)) ∧
      (RowZero odeint →
        get l 1 0 = (countIn (nodesOf GN nodelist) (fun u => !memB (rc ++ inf) u) : Rat) ∧
        get l 2 0 = (countIn (nodesOf GN nodelist) (memB inf) : Rat) ∧
        get l 3 0 = (countIn (nodesOf GN nodelist) (fun u => memB rc u && !memB inf u) : Rat)) := by
  obtain ⟨x0, l, h, hc, hi⟩ := SIR_pair_based_Y0 (odeint := odeint) (myodeint := myodeint) (nbrs := nbrs) (tr := tr)
    (rr := rr) (tmin := tmin) (tmax := tmax) (tcount := tcount) (full := full)
    (y := indV (nodesOf GN nodelist) (memB inf) 1 0) (X0 := some (indV (nodesOf GN nodelist) (memB (rc ++ inf)) 0 1))
    (nl := nodesOf GN nodelist) (by rw [indV_n, hl]) (by intro x hx; cases hx; rw [indV_n, hl]) hl
  refine ⟨x0, l, ?_, hc, fun h0 => ?_⟩
  · unfold GenGlue2.SIR_pair_based_pure_IC
    cases nodelist <;>
      simp only [Option.isNone_none, Option.isNone_some, if_true, if_false, Bool.false_eq_true, need_some, ok_bind,
        nodesOf, Option.getD, bind_pure, pure_bind] at h ⊢ <;>
      exact h
  · have e1 := sumTo_indV' (nodesOf GN nodelist) (memB (rc ++ inf))
    have e2 := sumTo_indV (nodesOf GN nodelist) (memB inf)
    have e3 := pure_counts (nodesOf GN nodelist) inf rc
    rw [hl] at e1 e2 e3
    obtain ⟨a, b, c⟩ := hi h0
    simp only [Option.getD_some] at a c
    rw [e1] at a c
    rw [e2] at b c
    exact ⟨a, b, c.trans e3⟩

/-! ## 8. `SIS_compact_effective_degree`, `EBCM_uniform_introduction` (thin wrappers), `EBCM` -/

/-- `SIS_compact_effective_degree` IS `SIS_compact_pairwise` (same arguments, same exceptions, same arrays) -/
theorem SIS_compact_effective_degree_eq (odeint myodeint : Solver) (Sk0 Ik0 : V) (SI0 SS0 II0 tau gamma tmin tmax : Rat)
    (tcount : Nat) (full : Bool) :
    GenGlue2.SIS_compact_effective_degree odeint myodeint Sk0 Ik0 SI0 SS0 II0 tau gamma tmin tmax tcount full =
      GenGlue2.SIS_compact_pairwise odeint myodeint Sk0 Ik0 SI0 SS0 II0 tau gamma tmin tmax tcount full := by
  unfold GenGlue2.SIS_compact_effective_degree
  simp only [bind_pure]

/-- `EBCM`: `theta = X[:,0]`, `R = X[:,1]`, `S = N ψ̂(theta)`, `I = N − S − R` -/
def outEBCM2 (T : Nat → Rat) (N : Rat) (psihat : Rat → Rat) (full : Bool) (X : Nat → V) : List Out :=
  if full then
    [Out.s T, Out.s (fun i => N * psihat ((X i).f 0)), Out.s (fun i => N - N * psihat ((X i).f 0) - (X i).f 1),
     Out.s (fun i => (X i).f 1), Out.s (fun i => (X i).f 0)]
  else
    [Out.s T, Out.s (fun i => N * psihat ((X i).f 0)), Out.s (fun i => N - N * psihat ((X i).f 0) - (X i).f 1),
     Out.s (fun i => (X i).f 1)]

/-- **call**: never raises; `odeint` solves `Gen.dEBCM` from `X0 = [1, R0]` -/
theorem EBCM_call (odeint myodeint : Solver) (N : Rat) (psihat psihatPrime : Rat → Rat)
    (tau gamma phiS0 phiR0 R0 tmin tmax : Rat) (tcount : Nat) (full : Bool) :
    GenGlue2.EBCM odeint myodeint N psihat psihatPrime tau gamma phiS0 phiR0 R0 tmin tmax tcount full =
      .ok (V.ofList [1, R0], outEBCM2 (linspace tmin tmax tcount) N psihat full
        (odeint (fun st => Gen.dEBCM st N tau gamma psihat psihatPrime phiS0 phiR0) (V.ofList [1, R0]))) := by
  cases full <;> rfl

/-- **call**: `EBCM_uniform_introduction` is `EBCM` with `ψ̂ = (1 − rho) ψ`, `ψ̂' = (1 − rho) ψ'`, `phiS0 = 1 − rho`,
`phiR0 = 0`, `R0 = 0` -/
theorem EBCM_uniform_introduction_call (odeint myodeint : Solver) (N : Rat) (psi psiPrime : Rat → Rat)
    (tau gamma rho tmin tmax : Rat) (tcount : Nat) (full : Bool) :
    GenGlue2.EBCM_uniform_introduction odeint myodeint N psi psiPrime tau gamma rho tmin tmax tcount full =
      .ok (V.ofList [1, 0], outEBCM2 (linspace tmin tmax tcount) N (fun x => (1 - rho) * psi x) full
        (odeint (fun st => Gen.dEBCM st N tau gamma (fun x => (1 - rho) * psi x) (fun x => (1 - rho) * psiPrime x)
          (1 - rho) 0) (V.ofList [1, 0]))) := by
  unfold GenGlue2.EBCM_uniform_introduction
  rw [EBCM_call]

/-- **conservation** `S + I + R = N` at every time index for every solver, and with `RowZero odeint` the initial state
`S(0) = N (1 − rho) ψ(1)`, `R(0) = 0`, `I(0) = N − S(0)` -/
theorem EBCM_uniform_introduction_spec (odeint myodeint : Solver) (N : Rat) (psi psiPrime : Rat → Rat)
    (tau gamma rho tmin tmax : Rat) (tcount : Nat) (full : Bool) :
    ∃ x0 l, GenGlue2.EBCM_uniform_introduction odeint myodeint N psi psiPrime tau gamma rho tmin tmax tcount full
      = .ok (x0, l) ∧ l.length = (if full then 5 else 4) ∧
      (∀ i, get l 1 i + get l 2 i + get l 3 i = N) ∧
      (RowZero odeint → get l 1 0 = N * ((1 - rho) * psi 1) ∧ get l 3 0 = 0 ∧
        get l 2 0 = N - N * ((1 - rho) * psi 1)) := by
  refine ⟨_, _, EBCM_uniform_introduction_call .., ?_, fun i => ?_, fun h0 => ?_⟩
  · cases full <;> rfl
  · cases full <;> simp [outEBCM2] <;> ring
  · cases full <;> simp [outEBCM2, h0 _ _, V.ofList]


/-! ## 9. `EBCM_pref_mix_discrete` (no solver call): the cases without loop passes -/

theorem mapM_ok_eq {α β : Type} (g : α → β) (l : List α) :
    l.mapM (fun a => (Except.ok (g a) : Except String β)) = .ok (l.map g) := by
  induction l with
  | nil => rfl
  | cons a t ih => rw [List.mapM_cons, ih]; rfl

/-- `rho = None` on an empty population: `rho = 1.0/N` is a `ZeroDivisionError` (first statement) -/
theorem EBCM_pref_mix_discrete_error_zeroDiv (odeint myodeint : Solver) (Pk : List (Nat × Rat))
    (Pnk : List (Nat × List (Nat × Rat))) (p : Rat) (tmin tmax : Int) (full : Bool) :
    GenGlue2.EBCM_pref_mix_discrete odeint myodeint 0 Pk Pnk p none tmin tmax full = .error "ZeroDivisionError" := by
  simp [GenGlue2.EBCM_pref_mix_discrete]

/-- `tmax ≤ tmin`: the loop is empty; one row `times = [tmin]`, `S = N(1 − rho)`, `I = N rho`, `R = 0` — no `KeyError`
whatever `Pnk` is -/
theorem EBCM_pref_mix_discrete_empty (odeint myodeint : Solver) (N : Rat) (Pk : List (Nat × Rat))
    (Pnk : List (Nat × List (Nat × Rat))) (p r : Rat) (tmin tmax : Int) (h : tmax ≤ tmin) :
    GenGlue2.EBCM_pref_mix_discrete odeint myodeint N Pk Pnk p (some r) tmin tmax false =
      .ok (PyGlue2.V0, [Out.v (V.ofList [(tmin : Rat)]), Out.v (V.ofList [N * (1 - r)]), Out.v (V.ofList [N * r]),
        Out.v (V.ofList [0])]) := by
  have hr : irange (tmin + 1) (tmax + 1) = [] := by
    have : (tmax + 1 - (tmin + 1)).toNat = 0 := by omega
    unfold irange
    rw [this]; rfl
  unfold GenGlue2.EBCM_pref_mix_discrete
  simp [hr]
  simp only [Function.comp_def, mapM_ok_eq, ok_bind]


/-! ## 10. closed examples (kernel-checked): the constant solver `constOdeint` (`RowZero`), the drifting solver
`driftOdeint` (row `i` = `X0 + i`), a path graph `0 — 1 — 2`; `rowAt r i` = the exception, or (`X0`, the returned arrays
read at time index `i`) -/

def exNbrs : Nat → List Nat := fun u => if u = 0 then [1] else if u = 1 then [0, 2] else [1]
def exTr : Nat → Nat → Rat := fun _ _ => 1
def exRr : Nat → Rat := fun _ => 1

example : RowZero constOdeint := constOdeint_zero
/-- `rho` form: `X0 = [1/4, 1/4, 1/4]`, `[t, S, I] = [5, 9/4, 3/4]` -/
example : rowAt (GenGlue2.SIS_individual_based constOdeint constOdeint 3 exNbrs exTr exRr (some (1/4)) none none
    0 10 11 false) 5 = .inr ([1/4, 1/4, 1/4], [[5], [9/4], [3/4]]) := by decide +kernel
/-- a solver that does not preserve anything: still `S_k + I_k = 1` per node (full data, time index 2) -/
example : rowAt (GenGlue2.SIS_individual_based driftOdeint constOdeint 3 exNbrs exTr exRr (some (1/4)) none none
    0 10 11 true) 2 = .inr ([1/4, 1/4, 1/4], [[2], [-5/4, -5/4, -5/4], [9/4, 9/4, 9/4]]) := by decide +kernel
/-- error case: `Y0` without `nodelist` -/
example : rowAt (GenGlue2.SIS_individual_based constOdeint constOdeint 3 exNbrs exTr exRr none
    (some (V.ofList [1, 0, 0])) none 0 10 11 false) 5 = .inl "EoNError" := by decide +kernel
/-- **counter-example to conservation without `hn`**: `X0` of length 3 and `Y0` of length 1 are accepted (NumPy
broadcasting in `Rs`), and `S + I + R = 3/2 + 1/2 + 0 = 2 ≠ 3` -/
example : rowAt (GenGlue2.SIR_individual_based constOdeint constOdeint 3 exNbrs exTr exRr none (some (V.ofList [1/2]))
    (some (V.ofList [1/2, 1/2, 1/2])) (some [0, 1, 2]) 0 10 11 false) 0
    = .inr ([1/2, 1/2, 1/2, 1/2], [[0], [3/2], [1/2], [0]]) := by decide +kernel
/-- lengths 3 and 2: `ValueError` -/
example : rowAt (GenGlue2.SIR_individual_based constOdeint constOdeint 3 exNbrs exTr exRr none
    (some (V.ofList [1/2, 1/2])) (some (V.ofList [1/2, 1/2, 1/2])) (some [0, 1, 2]) 0 10 11 false) 0
    = .inl "ValueError" := by decide +kernel
/-- pure initial condition, node 0 infected and also listed as recovered (with node 2): node 0 starts infected;
`X0 = [0,1,0]`, `Y0 = [1,0,0]`, `S, I, R = 1, 1, 1` -/
example : rowAt (GenGlue2.SIR_individual_based_pure_IC driftOdeint constOdeint 3 exNbrs exTr exRr [0] (some [2, 0]) none
    0 10 11 true) 0 = .inr ([0, 1, 0, 1, 0, 0], [[0], [1], [1], [1], [0, 1, 0], [1, 0, 0], [0, 0, 1]]) := by
  decide +kernel
/-- `SIS_pair_based` with `rho` AND `nodelist` returns normally (`myodeint` is the solver used: the drift shows) -/
example : rowAt (GenGlue2.SIS_pair_based constOdeint driftOdeint 2 exNbrs exTr exRr (some (1/4)) (some [1, 0]) none none
    none 0 10 11 false) 3
    = .inr ([1/4, 1/4, 0, 3/16, 3/16, 0, 0, 9/16, 9/16, 0], [[3], [-9/2], [13/2]]) := by decide +kernel
/-- **surprise**: a node list of length 1 on a graph with 2 nodes is accepted (the 1×1 adjacency matrix is broadcast:
all pair variables are multiplied by "node 0 has a self-loop" = 0) -/
example : rowAt (GenGlue2.SIS_pair_based constOdeint constOdeint 2 exNbrs exTr exRr (some (1/4)) (some [0]) none none
    none 0 10 11 true) 0
    = .inr ([1/4, 1/4, 0, 0, 0, 0, 0, 0, 0, 0],
        [[0], [3/2], [1/2], [3/4, 3/4], [1/4, 1/4], [0, 0, 0, 0], [0, 0, 0, 0]]) := by decide +kernel
/-- a node list of length 3 on a graph with 2 nodes: `ValueError` (broadcasting of `XY0 * A`) -/
example : rowAt (GenGlue2.SIS_pair_based constOdeint constOdeint 2 exNbrs exTr exRr (some (1/4)) (some [0, 1, 2]) none
    none none 0 10 11 true) 0 = .inl "ValueError" := by decide +kernel
/-- `SIR_pair_based`, `rho` and `nodelist`; and neither `rho` nor `Y0` (`rho = 1/N = 1/2`) -/
example : rowAt (GenGlue2.SIR_pair_based constOdeint constOdeint 2 exNbrs exTr exRr (some (1/4)) (some [1, 0]) none none
    none none 0 10 11 false) 3
    = .inr ([3/4, 3/4, 1/4, 1/4, 0, 3/16, 3/16, 0, 0, 9/16, 9/16, 0], [[3], [3/2], [1/2], [0]]) := by decide +kernel
example : rowAt (GenGlue2.SIR_pair_based constOdeint constOdeint 2 exNbrs exTr exRr none (some [1, 0]) none none
    none none 0 10 11 false) 3
    = .inr ([1/2, 1/2, 1/2, 1/2, 0, 1/4, 1/4, 0, 0, 1/4, 1/4, 0], [[3], [1], [1], [0]]) := by decide +kernel
/-- `EBCM_pref_mix_discrete`, two passes: `times = 0,1,2`; `S + I + R = 100` in every column; `R(n+1) = R(n) + I(n)` -/
example : rowAt (GenGlue2.EBCM_pref_mix_discrete constOdeint constOdeint 100 [(1, 1/2), (2, 1/2)]
    [(1, [(1, 1/3), (2, 2/3)]), (2, [(1, 1/3), (2, 2/3)])] (1/2) (some (1/10)) 0 2 false) 0
    = .inr ([], [[0, 1, 2], [90, 6669/80, 651321/8000], [10, 531/80, 15579/8000], [0, 10, 1331/80]]) := by
  decide +kernel
/-- a key (3) of `Pnk[1]` that is not a key of `Pk`: `KeyError` (`theta[k2]`) — but only once the loop runs -/
example : rowAt (GenGlue2.EBCM_pref_mix_discrete constOdeint constOdeint 100 [(1, 1/2), (2, 1/2)]
    [(1, [(1, 1/3), (3, 2/3)]), (2, [(1, 1/3), (2, 2/3)])] (1/2) (some (1/10)) 0 2 false) 0 = .inl "KeyError" := by
  decide +kernel
example : rowAt (GenGlue2.EBCM_pref_mix_discrete constOdeint constOdeint 100 [(1, 1/2), (2, 1/2)]
    [(1, [(1, 1/3), (3, 2/3)]), (2, [(1, 1/3), (2, 2/3)])] (1/2) (some (1/10)) 0 0 false) 0
    = .inr ([], [[0], [90], [10], [0]]) := by decide +kernel
/-- the hypotheses of the pair-based theorems are satisfiable -/
example : ∃ x0 l, GenGlue2.SIR_pair_based constOdeint constOdeint 2 exNbrs exTr exRr (some (1/4)) (some [1, 0]) none none
    none none 0 10 11 false = .ok (x0, l) ∧ (∀ i, get l 1 i + get l 2 i + get l 3 i = ((2 : Nat) : Rat)) ∧
    (RowZero constOdeint → get l 1 0 = (1 - 1/4) * ((2 : Nat) : Rat) ∧ get l 2 0 = 1/4 * ((2 : Nat) : Rat) ∧ get l 3 0 = 0) :=
  SIR_pair_based_rho (nodelist := some [1, 0]) rfl

end GenGlue2Props
