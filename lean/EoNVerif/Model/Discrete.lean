import EoNVerif.Basic
/-!
Model of `discrete_SIR` (simulation.py 556–665) under a deterministic transmission rule (a table; with a recovery rule
that keeps nodes infectious for several steps the outcome of a contact may depend on how many steps the source has
already been infectious — a stateful user rule) and an optional recovery rule ("recover at the k-th test"), of `basic_discrete_SIS` and of the Reed–Frost one-step law the `basic_*`
functions are supposed to sample.

Python iterates `set`s of nodes; the model keeps node collections as sublists of `nodes` (filter order).  Everything
the property mentions (counts, infection steps, the *set* of possible infectors) is independent of that order.
-/

structure DParams where
  nodes : List Node
  nbrs : Node → List Node
  rule : Nat → Node → Node → Bool      -- test_transmission(u, v) at the (a+1)-th step `u` is infectious (a = `age u`);
                                       -- a stateless rule ignores `a`
  recSteps : Option (Node → Nat)       -- test_recovery(u) answers True at its k-th call (k ≥ 1); none = default rule
  tmin : Rat
  tmax : ERat

structure DState where
  sus : Node → Bool                    -- `susceptible`
  inf : List Node                      -- `infecteds`
  age : Node → Nat                     -- number of recovery tests already failed
  t : List Rat                         -- reversed
  S : List Int
  I : List Int
  R : List Int
  infTime : List (Node × Rat)          -- node, time of the 'I' entry (next_time)
  infectors : List (Node × Rat × List Node)  -- node, contact step, all infectious neighbours whose contact succeeded
  totR : Int
  nS : Int

namespace Discrete

def init (P : DParams) (infs recs : List Node) : DState :=
  let nr : Int := recs.length
  let ni : Int := infs.length
  { sus := fun v => !(infs.contains v || recs.contains v),
    inf := P.nodes.filter fun v => infs.contains v,
    age := fun _ => 0,
    t := [P.tmin], S := [(P.nodes.length : Int) - ni - nr], I := [ni], R := [nr],
    infTime := [], infectors := [], totR := nr, nS := (P.nodes.length : Int) - ni - nr }

/-- one generation -/
def step (P : DParams) (s : DState) : DState :=
  let tnow := s.t.headD P.tmin
  let newInf := P.nodes.filter fun v => s.sus v && s.inf.any fun u => (P.nbrs u).contains v && P.rule (s.age u) u v
  let sus' := fun v => s.sus v && !newInf.contains v
  let infectors := newInf.map fun v => (v, tnow, s.inf.filter fun u => (P.nbrs u).contains v && P.rule (s.age u) u v)
  let (stay, recovered, age') : List Node × Int × (Node → Nat) :=
    match P.recSteps with
    | none => ([], (s.inf.length : Int), s.age)
    | some k =>
      let stay := s.inf.filter fun u => s.age u + 1 < k u
      (stay, ((s.inf.length - stay.length : Nat) : Int), fun u => if s.inf.contains u then s.age u + 1 else s.age u)
  let inf' := P.nodes.filter fun v => newInf.contains v || stay.contains v
  let nS' := s.nS - (newInf.length : Int)
  let totR' := s.totR + recovered
  { s with sus := sus', inf := inf', age := age', t := (tnow + 1) :: s.t,
           S := nS' :: s.S, I := (inf'.length : Int) :: s.I, R := totR' :: s.R,
           infTime := s.infTime ++ newInf.map (fun v => (v, tnow + 1)),
           infectors := s.infectors ++ infectors, totR := totR', nS := nS' }

/-- `while infecteds and t[-1] < tmax` -/
def loop (P : DParams) : Nat → DState → DState
  | 0, s => s
  | fuel + 1, s =>
    if s.inf.isEmpty ∨ !(ERat.lt (some (s.t.headD P.tmin)) P.tmax) then s else loop P fuel (step P s)

def run (P : DParams) (infs recs : List Node) (fuel : Nat) : DState := loop P fuel (init P infs recs)

/-! ### specification: breadth-first distance in the digraph of successful contacts -/

/-- the rule does not depend on how long the source has been infectious (any stateless `test_transmission`) -/
def Ageless (P : DParams) : Prop := ∀ a u v, P.rule a u v = P.rule 0 u v

/-- nodes at distance ≤ k from the initial set, initially recovered nodes removed -/
def ball (P : DParams) (infs recs : List Node) : Nat → List Node
  | 0 => P.nodes.filter fun v => infs.contains v && !recs.contains v
  | k + 1 =>
    let b := ball P infs recs k
    P.nodes.filter fun v => !recs.contains v &&
      (b.contains v || b.any fun u => (P.nbrs u).contains v && P.rule 0 u v)

/-- BFS distance (`none` if unreachable within `N` steps) -/
def bfs (P : DParams) (infs recs : List Node) (v : Node) : Option Nat :=
  (List.range (P.nodes.length + 1)).find? fun k => (ball P infs recs k).contains v

/-- C12 predicate on an output `(node, infection time)` list (times of the 'I' entries), default recovery rule:
a node is infected exactly at `tmin + d` where `d ≥ 1` is its BFS distance, provided the step `tmin + d - 1` was
still simulated (`< tmax`); initial nodes and unreachable nodes have no infection entry. -/
def isBFS (P : DParams) (infs recs : List Node) (infTime : List (Node × Rat)) : Bool :=
  P.nodes.all fun v =>
    let rep := (infTime.filter fun e => e.1 == v).map (·.2)
    match bfs P infs recs v with
    | some 0 => rep == []
    | none => rep == []
    | some (d + 1) =>
      if ERat.lt (some (P.tmin + (d : Rat))) P.tmax then rep == [P.tmin + (d : Rat) + 1] else rep == []

/-! ### Reed–Frost one-step law -/

/-- probability that susceptible `v` with `k` infectious neighbours is infected in one step: `1-(1-p)^k` -/
def infProb (p : Rat) (k : Nat) : Rat := 1 - (1 - p) ^ k

/-- number of infectious neighbours of `v` (contacts `u → v` with `v ∈ nbrs u`) -/
def infNbrs (nodes : List Node) (nbrs : Node → List Node) (inf : List Node) (v : Node) : Nat :=
  (inf.filter fun u => (nbrs u).contains v).length

end Discrete
