import EoNVerif.Proofs.GenAux
import EoNVerif.Props.C20
/-!
C20b — the C20 statements about `subsample` / `get_time_shift` for the Lean code GENERATED from `EoN/auxiliary.py`
(`GenInvest.subsample`, `GenInvest.get_time_shift`, end of Gen/InvestGen.lean), obtained by proving the generated code
equal to the hand-written models `Helpers.subsample` / `Helpers.timeShift` of C20.  Lemmas: Proofs/GenAux.lean.

Domain of the `subsample` equality: `times.length ≤ status.length`.  Python indexes `status[k]` for `k < len(times)`,
the model zips; with a shorter `status` the generated code (like Python) raises IndexError as soon as it needs a missing
entry, whereas the model silently truncates (kernel-checked examples at the end).  A longer `status` is harmless.
`get_time_shift` equals its model for all inputs.
-/
namespace GenAux
open PyRT GenInvest GenInvestProofs Helpers

/-! ### subsample: generated code = model -/

/-- the generated code is the model followed by Python's reading of the candidate (unbound ⇒ UnboundLocalError);
in particular the fuel `report.length + 1` / `times.length + 1` is always sufficient -/
theorem gen_subsample_eq_model_unwrap {α : Type} (report times : List Rat) (status : List α)
    (hlen : times.length ≤ status.length) :
    GenInvest.subsample report times status = Helpers.subsample report times status >>= unwrapAll := by
  cases report with
  | nil => rfl
  | cons r rs =>
    cases times with
    | nil => simp [GenInvest.subsample, Helpers.subsample, pyIndex_zero_cons, pyIndex_zero_nil, bind, Except.bind]
    | cons t ts =>
      by_cases h0 : r < t
      · simp [GenInvest.subsample, Helpers.subsample, pyIndex_zero_cons, bind, Except.bind, h0, throw, throwThe,
          MonadExceptOf.throw]
      · have := outer_eq_scan (r :: rs) (t :: ts) status hlen ((r :: rs).length + 1) 0 0 none []
          (Nat.zero_le _) (Nat.zero_le _) (by omega)
        simp only [GenInvest.subsample, Helpers.subsample, pyIndex_zero_cons, bind, Except.bind, h0, if_false, this,
          List.drop_zero, List.nil_append]
        cases unwrapAll (scan ((t :: ts).zip status) none (r :: rs)) <;> rfl

/-- **generated subsample = model**, for all inputs with `times.length ≤ status.length`: the same errors
("IndexError" for empty `report` / `times`, "EoNError" when `report[0] < times[0]`) and otherwise the same values,
every entry of the model's output being bound (the generated code never raises "UnboundLocalError") -/
theorem gen_subsample_eq_model {α : Type} (report times : List Rat) (status : List α)
    (hlen : times.length ≤ status.length) :
    (GenInvest.subsample report times status).map (·.map some) = Helpers.subsample report times status := by
  rw [gen_subsample_eq_model_unwrap report times status hlen]
  cases report with
  | nil => rfl
  | cons r rs =>
    cases times with
    | nil => rfl
    | cons t ts =>
      cases status with
      | nil => simp at hlen
      | cons s ss =>
        by_cases h0 : r < t
        · simp [Helpers.subsample, h0, bind, Except.bind, Except.map]
        · obtain ⟨l, hl⟩ := scan_first_some t s (ts.zip ss) r rs (not_lt.1 h0)
          simp [Helpers.subsample, h0, bind, Except.bind, Except.map, hl]

/-- the errors of the generated `subsample`, for ALL inputs (no hypothesis on the lengths) -/
theorem gen_subsample_errors {α : Type} (report times : List Rat) (status : List α) (e : String)
    (h : GenInvest.subsample report times status = .error e) :
    e = "IndexError" ∨ e = "EoNError" ∨ e = "UnboundLocalError" := by
  cases report with
  | nil =>
    simp only [GenInvest.subsample, pyIndex_zero_nil, bind, Except.bind] at h
    injection h with h
    exact Or.inl h.symm
  | cons r rs =>
    cases times with
    | nil =>
      simp only [GenInvest.subsample, pyIndex_zero_cons, pyIndex_zero_nil, bind, Except.bind] at h
      injection h with h
      exact Or.inl h.symm
    | cons t ts =>
      by_cases h0 : r < t
      · simp only [GenInvest.subsample, pyIndex_zero_cons, bind, Except.bind, h0, if_true, throw, throwThe,
          MonadExceptOf.throw] at h
        injection h with h
        exact Or.inr (Or.inl h.symm)
      · simp only [GenInvest.subsample, pyIndex_zero_cons, bind, Except.bind, h0, if_false] at h
        rcases outer_errors _ _ _ _ _ _ _ _ (by omega) e h with h | h
        · exact Or.inl h
        · exact Or.inr (Or.inr h)

/-- the fuel is always sufficient: the generated `subsample` never returns "fuel" (all inputs) -/
theorem gen_subsample_never_fuel {α : Type} (report times : List Rat) (status : List α) :
    GenInvest.subsample report times status ≠ .error "fuel" := by
  intro h
  rcases gen_subsample_errors report times status "fuel" h with h | h | h <;> exact absurd h (by decide)

/-- with `times.length ≤ status.length` the local `candidate` is never read unbound -/
theorem gen_subsample_never_unbound {α : Type} (report times : List Rat) (status : List α)
    (hlen : times.length ≤ status.length) :
    GenInvest.subsample report times status ≠ .error "UnboundLocalError" := by
  intro h
  have h1 := gen_subsample_eq_model report times status hlen
  rw [h] at h1
  cases report with
  | nil => exact absurd h1 (by simp [Helpers.subsample, Except.map])
  | cons r rs =>
    cases times with
    | nil => exact absurd h1 (by simp [Helpers.subsample, Except.map])
    | cons t ts =>
      by_cases h0 : r < t
      · exact absurd h1 (by simp [Helpers.subsample, Except.map, h0])
      · exact absurd h1 (by simp [Helpers.subsample, Except.map, h0])

/-- IndexError for an empty grid (all `status`) -/
theorem gen_subsample_index_error {α : Type} (report times : List Rat) (status : List α)
    (h : report = [] ∨ times = []) : GenInvest.subsample report times status = .error "IndexError" := by
  rcases h with rfl | rfl
  · rfl
  · cases report with
    | nil => rfl
    | cons r rs => simp [GenInvest.subsample, pyIndex_zero_cons, pyIndex_zero_nil, bind, Except.bind]

/-- EoNError when the first report time is before the first observation (all `status`) -/
theorem gen_subsample_error {α : Type} (report times : List Rat) (status : List α)
    (r0 t0 : Rat) (hr0 : report.head? = some r0) (ht0 : times.head? = some t0) (h0 : r0 < t0) :
    GenInvest.subsample report times status = .error "EoNError" := by
  cases report with
  | nil => simp at hr0
  | cons r rs =>
    cases times with
    | nil => simp at ht0
    | cons t ts =>
      simp only [List.head?_cons, Option.some.injEq] at hr0 ht0
      subst hr0 ht0
      simp [GenInvest.subsample, pyIndex_zero_cons, bind, Except.bind, h0, throw, throwThe, MonadExceptOf.throw]

/-! ### subsample: the C20 statement for the generated code -/

/-- **generated subsample**: for ordered report times not before the first observation (observation times ordered,
ties allowed) the generated code returns, for each report time, the value of the last observation at or before it -/
theorem gen_subsample_spec {α : Type} (report times : List Rat) (status : List α)
    (hr : Sorted report) (ht : Sorted times) (hlen : status.length = times.length)
    (r0 t0 : Rat) (hr0 : report.head? = some r0) (ht0 : times.head? = some t0) (h0 : t0 ≤ r0) :
    (GenInvest.subsample report times status).map (·.map some)
      = .ok (report.map (lastLE (times.zip status))) := by
  rw [gen_subsample_eq_model report times status (le_of_eq hlen.symm)]
  exact subsample_spec report times status hr ht hlen r0 t0 hr0 ht0 h0

/-- the same, entry by entry: the generated code succeeds, returns one value per report time, and the `i`-th value
is the value of the last observation at or before `report[i]` -/
theorem gen_subsample_spec_values {α : Type} (report times : List Rat) (status : List α)
    (hr : Sorted report) (ht : Sorted times) (hlen : status.length = times.length)
    (r0 t0 : Rat) (hr0 : report.head? = some r0) (ht0 : times.head? = some t0) (h0 : t0 ≤ r0) :
    ∃ vs : List α, GenInvest.subsample report times status = .ok vs ∧ vs.length = report.length ∧
      ∀ (i : Nat) (hi : i < report.length) (hi' : i < vs.length),
        lastLE (times.zip status) report[i] = some vs[i] := by
  have h := gen_subsample_spec report times status hr ht hlen r0 t0 hr0 ht0 h0
  cases hg : GenInvest.subsample report times status with
  | error e => rw [hg] at h; simp [Except.map] at h
  | ok vs =>
    rw [hg] at h
    simp only [Except.map, Except.ok.injEq] at h
    have hl : vs.length = report.length := by simpa using congrArg List.length h
    refine ⟨vs, rfl, hl, ?_⟩
    intro i hi hi'
    have := congrArg (fun l => l[i]?) h
    simp only [List.getElem?_map, List.getElem?_eq_getElem hi, List.getElem?_eq_getElem hi', Option.map_some] at this
    exact (Option.some.inj this).symm

/-- … and holds the final value for report times at or after the last observation -/
theorem gen_subsample_holds_final {α : Type} (report times : List Rat) (status : List α)
    (hr : Sorted report) (ht : Sorted times) (hlen : status.length = times.length)
    (r0 t0 : Rat) (hr0 : report.head? = some r0) (ht0 : times.head? = some t0) (h0 : t0 ≤ r0) :
    ∃ vs : List α, GenInvest.subsample report times status = .ok vs ∧ vs.length = report.length ∧
      ∀ (i : Nat) (hi : i < report.length) (hi' : i < vs.length), (∀ t ∈ times, t ≤ report[i]) →
        status.getLast? = some vs[i] := by
  obtain ⟨vs, h1, h2, h3⟩ := gen_subsample_spec_values report times status hr ht hlen r0 t0 hr0 ht0 h0
  refine ⟨vs, h1, h2, ?_⟩
  intro i hi hi' hall
  rw [← h3 i hi hi', lastLE_after_end times status hlen report[i] hall]

/-! ### get_time_shift -/

/-- **generated get_time_shift = model**, for all inputs (including the errors: "NameError" for empty `times`,
"IndexError" when `L` is shorter than `times` and the threshold is not reached within `L`) -/
theorem gen_time_shift_eq_model (times L : List Rat) (thr : Rat) :
    GenInvest.get_time_shift times L thr = Helpers.timeShift times L thr := by
  have h := time_shift_loop_eq L thr times 0 none
  rw [← List.range_eq_range', List.drop_zero, Nat.sub_zero] at h
  cases times with
  | nil => rfl
  | cons t ts =>
    simp only [get_time_shift, h, timeShift]
    cases hf : List.find? (fun p => decide (p.2 ≥ thr)) ((t :: ts).zip L) with
    | some p => simp [bind, Except.bind, pure, Except.pure]
    | none =>
      by_cases hl : L.length < (t :: ts).length
      · have hl' : L.length ≤ ts.length := by simp only [List.length_cons] at hl; omega
        simp [bind, Except.bind, hl']
      · have hl' : ¬ L.length ≤ ts.length := by simp only [List.length_cons] at hl; omega
        simp [bind, Except.bind, hl', pure, Except.pure, List.getLast!,
          List.getLast?_eq_some_getLast (List.cons_ne_nil t ts)]

/-- the generated `get_time_shift` returns the first time at which the series reaches the threshold -/
theorem gen_time_shift_spec (times L : List Rat) (thr : Rat) (hlen : L.length = times.length)
    (i : Nat) (hi : i < times.length) (hreach : thr ≤ L.getD i 0) (hfirst : ∀ j < i, L.getD j 0 < thr) :
    GenInvest.get_time_shift times L thr = .ok (times.getD i 0) := by
  rw [gen_time_shift_eq_model]
  exact timeShift_spec times L thr hlen i hi hreach hfirst

/-- if the threshold is never reached the last time is returned -/
theorem gen_time_shift_never (times L : List Rat) (thr : Rat) (hlen : L.length = times.length) (hne : times ≠ [])
    (hnever : ∀ l ∈ L, l < thr) : GenInvest.get_time_shift times L thr = .ok (times.getLast hne) := by
  rw [gen_time_shift_eq_model]
  exact timeShift_never times L thr hlen hne hnever

/-- empty `times`: the loop variable `t` is never bound -/
theorem gen_time_shift_name_error (L : List Rat) (thr : Rat) :
    GenInvest.get_time_shift [] L thr = .error "NameError" := rfl

/-- `L` shorter than `times` and the threshold not reached within `L`: `L[index]` raises -/
theorem gen_time_shift_index_error (times L : List Rat) (thr : Rat) (hlen : L.length < times.length)
    (hnever : ∀ l ∈ L, l < thr) : GenInvest.get_time_shift times L thr = .error "IndexError" := by
  rw [gen_time_shift_eq_model]
  have hf := find_zip_none times L thr hnever
  cases times with
  | nil => simp at hlen
  | cons t ts =>
    have hl' : L.length ≤ ts.length := by simp only [List.length_cons] at hlen; omega
    simp [timeShift, hf, hl']

end GenAux

/-! ### non-vacuity (kernel-checked runs of the generated code) -/

-- ties in both grids, a report beyond the end (the inputs of the C20 example)
example : GenInvest.subsample [1, 1, 2, 9] [0, 1, 1, 3] [10, 11, 12, 13] = .ok [12, 12, 12, 13] := by
  decide +kernel
-- unsorted report times: still equal to the model (the candidate is kept)
example : GenInvest.subsample [2, 0, 5] [0, 1, 3] [10, 11, 12] = .ok [11, 11, 12] ∧
    Helpers.subsample [2, 0, 5] [0, 1, 3] [10, 11, 12] = .ok [some 11, some 11, some 12] := by
  decide +kernel
-- the three errors shared with the model
example : GenInvest.subsample [] [0] [10] = .error "IndexError" ∧
    GenInvest.subsample [1] [] ([] : List Nat) = .error "IndexError" ∧
    GenInvest.subsample [1, 2] [2, 3] [10, 11] = .error "EoNError" := by
  decide +kernel
-- a longer `status` is harmless
example : GenInvest.subsample [1, 7] [0, 1] [10, 11, 12] = .ok [11, 11] ∧
    Helpers.subsample [1, 7] [0, 1] [10, 11, 12] = .ok [some 11, some 11] := by
  decide +kernel
-- outside the domain (`status` shorter than `times`): the generated code raises IndexError, the model truncates
example : GenInvest.subsample [1] [0] ([] : List Nat) = .error "IndexError" ∧
    Helpers.subsample [1] [0] ([] : List Nat) = .ok [none] := by
  decide +kernel
example : GenInvest.subsample [5] [0, 1] [7] = .error "IndexError" ∧
    Helpers.subsample [5] [0, 1] [7] = .ok [some 7] := by
  decide +kernel
-- get_time_shift: first crossing, never reached, the two errors
example : GenInvest.get_time_shift [0, 1, 2] [1, 5, 7] 4 = .ok 1 := by decide +kernel
example : GenInvest.get_time_shift [0, 1, 2] [1, 2, 3] 4 = .ok 2 := by decide +kernel
example : GenInvest.get_time_shift [] [1, 2] 4 = .error "NameError" ∧
    GenInvest.get_time_shift [0, 1, 2] [1, 2] 4 = .error "IndexError" ∧
    GenInvest.get_time_shift [0, 1, 2] [1, 5] 4 = .ok 1 := by
  decide +kernel

#print axioms GenAux.gen_subsample_eq_model_unwrap
#print axioms GenAux.gen_subsample_eq_model
#print axioms GenAux.gen_subsample_errors
#print axioms GenAux.gen_subsample_never_fuel
#print axioms GenAux.gen_subsample_never_unbound
#print axioms GenAux.gen_subsample_index_error
#print axioms GenAux.gen_subsample_error
#print axioms GenAux.gen_subsample_spec
#print axioms GenAux.gen_subsample_spec_values
#print axioms GenAux.gen_subsample_holds_final
#print axioms GenAux.gen_time_shift_eq_model
#print axioms GenAux.gen_time_shift_spec
#print axioms GenAux.gen_time_shift_never
#print axioms GenAux.gen_time_shift_name_error
#print axioms GenAux.gen_time_shift_index_error
