import EoNVerif.Gen.AnalyticLoops
import EoNVerif.Proofs.ListDict
import Mathlib.Tactic.Ring
import Mathlib.Tactic.Linarith
/-!
The pair-based right-hand sides generated from `EoN/analytic.py` (`Gen.dSIS_pair_based`, `Gen.dSIR_pair_based`,
triple-nested `for` loops with `+=` on array cells and `continue`) equal the closed-form hand models
`ODE.sisPairBased` / `ODE.sirPairBased` of `Model/ODE2.lean`.

Structure:
0. generic accumulation lemmas for `List.foldl` over `upd1` / `upd2` steps, sum lemmas;
1. the loop nest re-stated with named step functions (`sisLoop`, `sirLoop`), definitionally equal (`rfl`) to the
   generated code, for an arbitrary state vector;
2. cell-by-cell value of the loop nest (needs only `(nbrs u).Nodup`);
3. unpacking of the flat state vector (needs only `v ∈ nbrs u → v < N`).
-/
set_option linter.unusedVariables false
set_option linter.unusedSimpArgs false
namespace GenEqLoops2
open Gen ODE

abbrev A := Nat → Rat
abbrev M := Nat → Nat → Rat

/-! ## 0. generic accumulation lemmas -/

/-- A projection `p` of the loop state that every iteration increases by a state-independent amount `f v`
accumulates the sum of the amounts. -/
theorem foldl_acc {σ α : Type} (p : σ → Rat) (step : σ → α → σ) (f : α → Rat) (l : List α)
    (h : ∀ s, ∀ v ∈ l, p (step s v) = p s + f v) (s0 : σ) :
    p (l.foldl step s0) = p s0 + sumRat (l.map f) := by
  induction l generalizing s0 with
  | nil => simp
  | cons a t ih =>
    simp only [List.foldl_cons, List.map_cons, sumRat_cons]
    rw [ih (fun s v hv => h s v (by simp [hv])), h s0 a (by simp)]; ring

/-- A projection that no iteration changes is unchanged by the loop. -/
theorem foldl_keep {σ α : Type} (p : σ → Rat) (step : σ → α → σ) (l : List α)
    (h : ∀ s, ∀ v ∈ l, p (step s v) = p s) (s0 : σ) :
    p (l.foldl step s0) = p s0 := by
  have := foldl_acc p step (fun _ => 0) l (by intro s v hv; rw [h s v hv]; ring) s0
  rw [this, sumRat_map_zero _ _ (fun _ _ => rfl)]; ring

/-! ### sums -/

theorem sumRat_map_neg {γ : Type} (l : List γ) (f : γ → Rat) :
    sumRat (l.map fun c => -f c) = -sumRat (l.map f) := by
  induction l with
  | nil => simp
  | cons a t ih => simp [ih]; ring

/-- skipping an element (`continue`) = summing over the filtered list -/
theorem sumRat_skip (l : List Nat) (s : Nat) (f : Nat → Rat) :
    sumRat (l.map fun w => if w = s then 0 else f w) = sumRat ((l.filter fun w => w ≠ s).map f) := by
  induction l with
  | nil => simp
  | cons a t ih =>
    by_cases h : a = s
    · simp [h, ih]
    · simp [h, ih]

/-- in a duplicate-free list the element `x` is met exactly once (or never) -/
theorem sumRat_pick (l : List Nat) (x : Nat) (f : Nat → Rat) (hn : l.Nodup) :
    sumRat (l.map fun v => if x = v then f v else 0) = if x ∈ l then f x else 0 := by
  induction l with
  | nil => simp
  | cons a t ih =>
    rw [List.nodup_cons] at hn
    simp only [List.map_cons, sumRat_cons, ih hn.2, List.mem_cons]
    by_cases h : x = a
    · subst h; simp [hn.1]
    · simp [h]

theorem sumRat_pick_range (N x : Nat) (f : Nat → Rat) :
    sumRat ((List.range N).map fun v => if x = v then f v else 0) = if x < N then f x else 0 := by
  rw [sumRat_pick _ _ _ List.nodup_range]; simp

/-- a double loop meets the pair `(i, j)` exactly once if `j ∈ nbrs i`, `i < N`, and never otherwise -/
theorem sumRat_pick2 (N : Nat) (nbrs : Nat → List Nat) (i j : Nat) (T : Nat → Nat → Rat) (hn : (nbrs i).Nodup) :
    sumRat ((List.range N).map fun u => sumRat ((nbrs u).map fun v => if i = u ∧ j = v then T u v else 0))
      = if i < N ∧ j ∈ nbrs i then T i j else 0 := by
  have h1 : ∀ u ∈ List.range N,
      sumRat ((nbrs u).map fun v => if i = u ∧ j = v then T u v else 0)
        = if i = u then (fun u => if j ∈ nbrs u then T u j else 0) u else 0 := by
    intro u _
    by_cases h : i = u
    · subst h; simp only [true_and, if_true]; exact sumRat_pick _ _ _ hn
    · simp only [h, false_and, if_false]; exact sumRat_map_zero _ _ (fun _ _ => rfl)
  rw [sumRat_map_congr _ _ _ h1, sumRat_pick_range]
  by_cases h1 : i < N <;> by_cases h2 : j ∈ nbrs i <;> simp [h1, h2]

/-! ### `a[i] += f v`, `a[i, j] += f v`, with and without `continue` -/

theorem foldl_upd1_acc (l : List Nat) (i : Nat) (f : Nat → Rat) (a0 : A) (k : Nat) :
    (l.foldl (fun a v => upd1 a i (a i + f v)) a0) k
      = if k = i then a0 i + sumRat (l.map f) else a0 k := by
  by_cases h : k = i
  · subst h; simp only [if_true]
    exact foldl_acc (fun a : A => a k) _ f l (fun s v _ => by simp) a0
  · simp only [h, if_false]
    exact foldl_keep (fun a : A => a k) _ l (fun s v _ => upd1_other _ _ _ _ h) a0

theorem foldl_upd2_acc (l : List Nat) (i j : Nat) (f : Nat → Rat) (a0 : M) (k m : Nat) :
    (l.foldl (fun a v => upd2 a i j (a i j + f v)) a0) k m
      = if k = i ∧ m = j then a0 i j + sumRat (l.map f) else a0 k m := by
  by_cases h : k = i ∧ m = j
  · obtain ⟨rfl, rfl⟩ := h; simp only [and_self, if_true]
    exact foldl_acc (fun a : M => a k m) _ f l (fun s v _ => by simp) a0
  · simp only [h, if_false]
    exact foldl_keep (fun a : M => a k m) _ l (fun s v _ => upd2_other _ _ _ _ _ _ h) a0

theorem foldl_upd2_skip (l : List Nat) (s i j : Nat) (f : Nat → Rat) (a0 : M) (k m : Nat) :
    (l.foldl (fun a w => if w = s then a else upd2 a i j (a i j + f w)) a0) k m
      = if k = i ∧ m = j then a0 i j + sumRat ((l.filter fun w => w ≠ s).map f) else a0 k m := by
  by_cases h : k = i ∧ m = j
  · obtain ⟨rfl, rfl⟩ := h; simp only [and_self, if_true]
    rw [← sumRat_skip]
    refine foldl_acc (fun a : M => a k m) _ _ l (fun a w _ => ?_) a0
    by_cases hw : w = s <;> simp [hw]
  · simp only [h, if_false]
    refine foldl_keep (fun a : M => a k m) _ l (fun a w _ => ?_) a0
    by_cases hw : w = s
    · simp [hw]
    · simp only [hw, if_false]; exact upd2_other _ _ _ _ _ _ h

/-- outer loop over nodes, one cell: `dY[u] += g u` for `u ∈ range N` touches cell `i` only in iteration `u = i` -/
theorem foldl_outer1 (N : Nat) (g : Nat → Rat) (a0 : A) (i : Nat) :
    ((List.range N).foldl (fun a u => upd1 a u (a u + g u)) a0) i = a0 i + if i < N then g i else 0 := by
  rw [← sumRat_pick_range]
  refine foldl_acc (fun a : A => a i) _ _ _ (fun a u _ => ?_) a0
  by_cases h : i = u
  · subst h; simp
  · simp only [h, if_false]; rw [upd1_other _ _ _ _ h]; ring

/-- outer and inner loop, one cell: `for u in range N: for v in nbrs u: dXY[u, v] += T u v` touches cell `(i, j)`
only in iteration `u = i`, `v = j`, which occurs once if `j ∈ nbrs i` (duplicate-free) and `i < N` -/
theorem foldl_outer2 (N : Nat) (nbrs : Nat → List Nat) (T : Nat → Nat → Rat) (a0 : M) (i j : Nat)
    (hn : (nbrs i).Nodup) :
    ((List.range N).foldl (fun a u => (nbrs u).foldl (fun a v => upd2 a u v (a u v + T u v)) a) a0) i j
      = a0 i j + if i < N ∧ j ∈ nbrs i then T i j else 0 := by
  rw [← sumRat_pick2 N nbrs i j T hn]
  refine foldl_acc (fun a : M => a i j) _ _ _ (fun a u _ => ?_) a0
  refine foldl_acc (fun a : M => a i j) _ _ _ (fun a v _ => ?_) a
  by_cases h : i = u ∧ j = v
  · obtain ⟨rfl, rfl⟩ := h; simp
  · simp only [h, if_false]; rw [upd2_other _ _ _ _ _ _ h]; ring

/-! ## 1. the loop nests with named step functions -/

/-- `[1/v if v != 0 else 0 for v in X]`, as coded -/
def xinvG (x : Rat) : Rat := if x ≠ (0 : Rat) then ((1 : Rat) / x) else (0 : Rat)

theorem xinvG_eq (x : Rat) : xinvG x = xinv x := by
  unfold xinvG xinv; by_cases h : x = 0 <;> simp [h]

/-- innermost loops: `for w in ...: if w == s: continue; dXY[i,j] += f w; dXX[i,j] += g w` -/
def skipStep (s i j : Nat) (f g : Nat → Rat) (st : M × M) (w : Nat) : M × M :=
  if w = s then st else (upd2 st.1 i j (st.1 i j + f w), upd2 st.2 i j (st.2 i j + g w))

/-- the two triple loops of iteration `(u, v)`: first over `w ∈ nbrs v` skipping `u`, then over `w ∈ nbrs u` skipping `v` -/
def triples (nbrs : Nat → List Nat) (u v : Nat) (f1 g1 f2 g2 : Nat → Rat) (st : M × M) : M × M :=
  (nbrs u).foldl (skipStep v u v f2 g2) ((nbrs v).foldl (skipStep u u v f1 g1) st)

section steps
variable (nbrs : Nat → List Nat) (tr : Nat → Nat → Rat) (rr : Nat → Rat) (xi : A) (xy xx : M)

/-- triple-term increments; `xi j` is the code's `Xinv[j]` -/
def f1XY (u v w : Nat) : Rat := (((tr v w) * (xx u v)) * (xy v w)) * (xi v)
def f1XX (u v w : Nat) : Rat := (((-(tr v w)) * (xx u v)) * (xy v w)) * (xi v)
def f2XY (u v w : Nat) : Rat := (((-(tr u w)) * (xy u w)) * (xy u v)) * (xi u)
def f2XX (u v w : Nat) : Rat := (((-(tr u w)) * (xy u w)) * (xx u v)) * (xi u)

/-- both triple loops of `_dSIS_pair_based_` / `_dSIR_pair_based_` (they are identical) -/
def tri (u v : Nat) (st : M × M) : M × M :=
  triples nbrs u v (f1XY tr xi xy xx u v) (f1XX tr xi xy xx u v) (f2XY tr xi xy u v) (f2XX tr xi xy xx u v) st

/-! SIS -/
def sisBXY (u v : Nat) : Rat :=
  ((-((tr u v) + (rr v))) * (xy u v)) + ((rr u) * ((((1 : Rat) - (xy u v)) - (xx u v)) - (xy v u)))
def sisBXX (u v : Nat) : Rat := ((rr u) * (xy v u)) + ((rr v) * (xy u v))

def sisStepV (u : Nat) (st : A × M × M) (v : Nat) : A × M × M :=
  let r := tri nbrs tr xi xy xx u v
    (upd2 st.2.1 u v (st.2.1 u v + sisBXY tr rr xy xx u v), upd2 st.2.2 u v (st.2.2 u v + sisBXX rr xy u v))
  (upd1 st.1 u (st.1 u + (tr u v) * (xy u v)), r.1, r.2)

def sisStepU (y : A) (st : A × M × M) (u : Nat) : A × M × M :=
  (nbrs u).foldl (sisStepV nbrs tr rr xi xy xx u) (upd1 st.1 u (st.1 u + (-(rr u)) * (y u)), st.2.1, st.2.2)

def sisLoop (N : Nat) (y : A) : A × M × M :=
  (List.range N).foldl (sisStepU nbrs tr rr xi xy xx y) (fun _ => 0, fun _ _ => 0, fun _ _ => 0)

/-! SIR; the state of the outer loop is `(dY, dX, dXY, dXX)`, that of the `v` loop `(dX, dY, dXY, dXX)` -/
def sirBXY (u v : Nat) : Rat := (-((tr u v) + (rr v))) * (xy u v)

def sirStepV (u : Nat) (st : A × A × M × M) (v : Nat) : A × A × M × M :=
  let r := tri nbrs tr xi xy xx u v
    (upd2 st.2.2.1 u v (st.2.2.1 u v + sirBXY tr rr xy u v), st.2.2.2)
  (upd1 st.1 u (st.1 u + (-(tr u v)) * (xy u v)), upd1 st.2.1 u (st.2.1 u + (tr u v) * (xy u v)), r.1, r.2)

def sirStepU (y : A) (st : A × A × M × M) (u : Nat) : A × A × M × M :=
  let r := (nbrs u).foldl (sirStepV nbrs tr rr xi xy xx u)
    (st.2.1, upd1 st.1 u (st.1 u + (-(rr u)) * (y u)), st.2.2.1, st.2.2.2)
  (r.2.1, r.1, r.2.2.1, r.2.2.2)

def sirLoop (N : Nat) (y : A) : A × A × M × M :=
  (List.range N).foldl (sirStepU nbrs tr rr xi xy xx y) (fun _ => 0, fun _ => 0, fun _ _ => 0, fun _ _ => 0)

end steps

/-- row-major packing of an `r × c` array (`M.shape = (r*c, 1)`) -/
def flat (r c : Nat) (a : M) : V := ⟨r * c, fun k => a (k / c) (k % c)⟩

/-- the generated `_dSIS_pair_based_` IS the loop nest `sisLoop` on the slices of the state vector (by unfolding) -/
theorem gen_sis_loop (Vst : V) (N : Nat) (nbrs : Nat → List Nat) (tr : Nat → Nat → Rat) (rr : Nat → Rat) :
    Gen.dSIS_pair_based Vst N nbrs tr rr =
      (let y : A := fun i => Vst.f (0 + i)
       let r := sisLoop nbrs tr rr (fun i => xinvG (1 - y i))
         (fun a b => Vst.f (N + (a * N + b))) (fun a b => Vst.f ((N + N * N) + (a * N + b))) N y
       V.append ⟨N, r.1⟩ (V.append (flat N N r.2.1) (flat N N r.2.2))) := rfl

/-- the generated `_dSIR_pair_based_` IS the loop nest `sirLoop` on the slices of the state vector (by unfolding) -/
theorem gen_sir_loop (Vst : V) (N : Nat) (nbrs : Nat → List Nat) (tr : Nat → Nat → Rat) (rr : Nat → Rat) :
    Gen.dSIR_pair_based Vst N nbrs tr rr =
      (let x : A := fun i => Vst.f (0 + i)
       let r := sirLoop nbrs tr rr (fun i => xinvG (x i))
         (fun a b => Vst.f ((2 * N) + (a * N + b))) (fun a b => Vst.f (((2 * N) + N * N) + (a * N + b))) N
         (fun i => Vst.f (N + i))
       V.append ⟨N, r.2.1⟩ (V.append ⟨N, r.1⟩ (V.append (flat N N r.2.2.1) (flat N N r.2.2.2)))) := rfl

/-! ## 2. value of every cell after the loop nest -/

theorem skip_fold_1 (s i j : Nat) (f g : Nat → Rat) (l : List Nat) (st : M × M) (k m : Nat) :
    (l.foldl (skipStep s i j f g) st).1 k m
      = st.1 k m + if k = i ∧ m = j then sumRat ((l.filter fun w => w ≠ s).map f) else 0 := by
  by_cases h : k = i ∧ m = j
  · obtain ⟨rfl, rfl⟩ := h; simp only [and_self, if_true]
    rw [← sumRat_skip]
    refine foldl_acc (fun st : M × M => st.1 k m) _ _ l (fun a w _ => ?_) st
    unfold skipStep
    by_cases hw : w = s <;> simp [hw]
  · simp only [h, if_false]
    rw [foldl_keep (fun st : M × M => st.1 k m) _ l (fun a w _ => ?_) st]; · ring
    unfold skipStep
    by_cases hw : w = s
    · simp [hw]
    · simp only [hw, if_false]; exact upd2_other _ _ _ _ _ _ h

theorem skip_fold_2 (s i j : Nat) (f g : Nat → Rat) (l : List Nat) (st : M × M) (k m : Nat) :
    (l.foldl (skipStep s i j f g) st).2 k m
      = st.2 k m + if k = i ∧ m = j then sumRat ((l.filter fun w => w ≠ s).map g) else 0 := by
  by_cases h : k = i ∧ m = j
  · obtain ⟨rfl, rfl⟩ := h; simp only [and_self, if_true]
    rw [← sumRat_skip]
    refine foldl_acc (fun st : M × M => st.2 k m) _ _ l (fun a w _ => ?_) st
    unfold skipStep
    by_cases hw : w = s <;> simp [hw]
  · simp only [h, if_false]
    rw [foldl_keep (fun st : M × M => st.2 k m) _ l (fun a w _ => ?_) st]; · ring
    unfold skipStep
    by_cases hw : w = s
    · simp [hw]
    · simp only [hw, if_false]; exact upd2_other _ _ _ _ _ _ h

theorem triples_1 (nbrs : Nat → List Nat) (u v : Nat) (f1 g1 f2 g2 : Nat → Rat) (st : M × M) (k m : Nat) :
    (triples nbrs u v f1 g1 f2 g2 st).1 k m
      = st.1 k m + if k = u ∧ m = v then
          sumRat (((nbrs v).filter fun w => w ≠ u).map f1) + sumRat (((nbrs u).filter fun w => w ≠ v).map f2) else 0 := by
  unfold triples
  rw [skip_fold_1, skip_fold_1]
  by_cases h : k = u ∧ m = v <;> simp [h]; ring

theorem triples_2 (nbrs : Nat → List Nat) (u v : Nat) (f1 g1 f2 g2 : Nat → Rat) (st : M × M) (k m : Nat) :
    (triples nbrs u v f1 g1 f2 g2 st).2 k m
      = st.2 k m + if k = u ∧ m = v then
          sumRat (((nbrs v).filter fun w => w ≠ u).map g1) + sumRat (((nbrs u).filter fun w => w ≠ v).map g2) else 0 := by
  unfold triples
  rw [skip_fold_2, skip_fold_2]
  by_cases h : k = u ∧ m = v <;> simp [h]; ring

section cells
variable (nbrs : Nat → List Nat) (tr : Nat → Nat → Rat) (rr : Nat → Rat) (xi : A) (xy xx : M)

/-- total of the triple terms added to `dXY[u, v]` / `dXX[u, v]` -/
def triXY (u v : Nat) : Rat :=
  sumRat (((nbrs v).filter fun w => w ≠ u).map (f1XY tr xi xy xx u v))
    + sumRat (((nbrs u).filter fun w => w ≠ v).map (f2XY tr xi xy u v))
def triXX (u v : Nat) : Rat :=
  sumRat (((nbrs v).filter fun w => w ≠ u).map (f1XX tr xi xy xx u v))
    + sumRat (((nbrs u).filter fun w => w ≠ v).map (f2XX tr xi xy xx u v))

theorem tri_1 (u v : Nat) (st : M × M) (k m : Nat) :
    (tri nbrs tr xi xy xx u v st).1 k m
      = st.1 k m + if k = u ∧ m = v then triXY nbrs tr xi xy xx u v else 0 := by
  unfold tri triXY; exact triples_1 ..

theorem tri_2 (u v : Nat) (st : M × M) (k m : Nat) :
    (tri nbrs tr xi xy xx u v st).2 k m
      = st.2 k m + if k = u ∧ m = v then triXX nbrs tr xi xy xx u v else 0 := by
  unfold tri triXX; exact triples_2 ..

/-- a sum whose terms all carry the same guard -/
theorem sumRat_guard (l : List Nat) (c : Prop) [Decidable c] (f : Nat → Rat) :
    sumRat (l.map fun v => if c then f v else 0) = if c then sumRat (l.map f) else 0 := by
  by_cases h : c
  · simp [h]
  · simp only [h, if_false]; exact sumRat_map_zero _ _ (fun _ _ => rfl)

/-! ### SIS -/

theorem sisStepV_Y (u : Nat) (st : A × M × M) (v k : Nat) :
    (sisStepV nbrs tr rr xi xy xx u st v).1 k = st.1 k + if k = u then tr u v * xy u v else 0 := by
  unfold sisStepV
  by_cases h : k = u
  · subst h; simp
  · simp only [h, if_false]; rw [upd1_other _ _ _ _ h]; ring

theorem sisStepV_XY (u : Nat) (st : A × M × M) (v k m : Nat) :
    (sisStepV nbrs tr rr xi xy xx u st v).2.1 k m
      = st.2.1 k m + if k = u ∧ m = v then sisBXY tr rr xy xx u v + triXY nbrs tr xi xy xx u v else 0 := by
  unfold sisStepV
  simp only [tri_1]
  by_cases h : k = u ∧ m = v
  · obtain ⟨rfl, rfl⟩ := h; simp; ring
  · simp only [h, if_false]; rw [upd2_other _ _ _ _ _ _ h]

theorem sisStepV_XX (u : Nat) (st : A × M × M) (v k m : Nat) :
    (sisStepV nbrs tr rr xi xy xx u st v).2.2 k m
      = st.2.2 k m + if k = u ∧ m = v then sisBXX rr xy u v + triXX nbrs tr xi xy xx u v else 0 := by
  unfold sisStepV
  simp only [tri_2]
  by_cases h : k = u ∧ m = v
  · obtain ⟨rfl, rfl⟩ := h; simp; ring
  · simp only [h, if_false]; rw [upd2_other _ _ _ _ _ _ h]

theorem sisStepU_Y (y : A) (st : A × M × M) (u k : Nat) :
    (sisStepU nbrs tr rr xi xy xx y st u).1 k
      = st.1 k + if k = u then (fun u => -rr u * y u + sumRat ((nbrs u).map fun v => tr u v * xy u v)) u else 0 := by
  unfold sisStepU
  rw [foldl_acc (fun st : A × M × M => st.1 k) _ _ _ (fun s v _ => sisStepV_Y nbrs tr rr xi xy xx u s v k),
    sumRat_guard]
  by_cases h : k = u
  · subst h; simp; ring
  · simp only [h, if_false]; rw [upd1_other _ _ _ _ h]

theorem sisStepU_XY (y : A) (st : A × M × M) (u k m : Nat) :
    (sisStepU nbrs tr rr xi xy xx y st u).2.1 k m
      = st.2.1 k m + sumRat ((nbrs u).map fun v =>
          if k = u ∧ m = v then sisBXY tr rr xy xx u v + triXY nbrs tr xi xy xx u v else 0) := by
  unfold sisStepU
  rw [foldl_acc (fun st : A × M × M => st.2.1 k m) _ _ _ (fun s v _ => sisStepV_XY nbrs tr rr xi xy xx u s v k m)]

theorem sisStepU_XX (y : A) (st : A × M × M) (u k m : Nat) :
    (sisStepU nbrs tr rr xi xy xx y st u).2.2 k m
      = st.2.2 k m + sumRat ((nbrs u).map fun v =>
          if k = u ∧ m = v then sisBXX rr xy u v + triXX nbrs tr xi xy xx u v else 0) := by
  unfold sisStepU
  rw [foldl_acc (fun st : A × M × M => st.2.2 k m) _ _ _ (fun s v _ => sisStepV_XX nbrs tr rr xi xy xx u s v k m)]

theorem sisLoop_Y (N : Nat) (y : A) (k : Nat) :
    (sisLoop nbrs tr rr xi xy xx N y).1 k
      = if k < N then -rr k * y k + sumRat ((nbrs k).map fun v => tr k v * xy k v) else 0 := by
  unfold sisLoop
  rw [foldl_acc (fun st : A × M × M => st.1 k) _ _ _ (fun s u _ => sisStepU_Y nbrs tr rr xi xy xx y s u k),
    sumRat_pick_range]
  simp

theorem sisLoop_XY (N : Nat) (y : A) (k m : Nat) (hn : (nbrs k).Nodup) :
    (sisLoop nbrs tr rr xi xy xx N y).2.1 k m
      = if k < N ∧ m ∈ nbrs k then sisBXY tr rr xy xx k m + triXY nbrs tr xi xy xx k m else 0 := by
  unfold sisLoop
  rw [foldl_acc (fun st : A × M × M => st.2.1 k m) _ _ _ (fun s u _ => sisStepU_XY nbrs tr rr xi xy xx y s u k m),
    sumRat_pick2 N nbrs k m _ hn]
  simp

theorem sisLoop_XX (N : Nat) (y : A) (k m : Nat) (hn : (nbrs k).Nodup) :
    (sisLoop nbrs tr rr xi xy xx N y).2.2 k m
      = if k < N ∧ m ∈ nbrs k then sisBXX rr xy k m + triXX nbrs tr xi xy xx k m else 0 := by
  unfold sisLoop
  rw [foldl_acc (fun st : A × M × M => st.2.2 k m) _ _ _ (fun s u _ => sisStepU_XX nbrs tr rr xi xy xx y s u k m),
    sumRat_pick2 N nbrs k m _ hn]
  simp

end cells

section cellsSIR
variable (nbrs : Nat → List Nat) (tr : Nat → Nat → Rat) (rr : Nat → Rat) (xi : A) (xy xx : M)

/-! ### SIR -/

theorem sirStepV_X (u : Nat) (st : A × A × M × M) (v k : Nat) :
    (sirStepV nbrs tr rr xi xy xx u st v).1 k = st.1 k + if k = u then (-(tr u v)) * xy u v else 0 := by
  unfold sirStepV
  by_cases h : k = u
  · subst h; simp
  · simp only [h, if_false]; rw [upd1_other _ _ _ _ h]; ring

theorem sirStepV_Y (u : Nat) (st : A × A × M × M) (v k : Nat) :
    (sirStepV nbrs tr rr xi xy xx u st v).2.1 k = st.2.1 k + if k = u then tr u v * xy u v else 0 := by
  unfold sirStepV
  by_cases h : k = u
  · subst h; simp
  · simp only [h, if_false]; rw [upd1_other _ _ _ _ h]; ring

theorem sirStepV_XY (u : Nat) (st : A × A × M × M) (v k m : Nat) :
    (sirStepV nbrs tr rr xi xy xx u st v).2.2.1 k m
      = st.2.2.1 k m + if k = u ∧ m = v then sirBXY tr rr xy u v + triXY nbrs tr xi xy xx u v else 0 := by
  unfold sirStepV
  simp only [tri_1]
  by_cases h : k = u ∧ m = v
  · obtain ⟨rfl, rfl⟩ := h; simp; ring
  · simp only [h, if_false]; rw [upd2_other _ _ _ _ _ _ h]

theorem sirStepV_XX (u : Nat) (st : A × A × M × M) (v k m : Nat) :
    (sirStepV nbrs tr rr xi xy xx u st v).2.2.2 k m
      = st.2.2.2 k m + if k = u ∧ m = v then triXX nbrs tr xi xy xx u v else 0 := by
  unfold sirStepV
  simp only [tri_2]

theorem sirStepU_Y (y : A) (st : A × A × M × M) (u k : Nat) :
    (sirStepU nbrs tr rr xi xy xx y st u).1 k
      = st.1 k + if k = u then (fun u => -rr u * y u + sumRat ((nbrs u).map fun v => tr u v * xy u v)) u else 0 := by
  unfold sirStepU
  simp only []
  rw [foldl_acc (fun st : A × A × M × M => st.2.1 k) _ _ _ (fun s v _ => sirStepV_Y nbrs tr rr xi xy xx u s v k),
    sumRat_guard]
  by_cases h : k = u
  · subst h; simp; ring
  · simp only [h, if_false]; rw [upd1_other _ _ _ _ h]

theorem sirStepU_X (y : A) (st : A × A × M × M) (u k : Nat) :
    (sirStepU nbrs tr rr xi xy xx y st u).2.1 k
      = st.2.1 k + if k = u then (fun u => sumRat ((nbrs u).map fun v => (-(tr u v)) * xy u v)) u else 0 := by
  unfold sirStepU
  simp only []
  rw [foldl_acc (fun st : A × A × M × M => st.1 k) _ _ _ (fun s v _ => sirStepV_X nbrs tr rr xi xy xx u s v k),
    sumRat_guard]

theorem sirStepU_XY (y : A) (st : A × A × M × M) (u k m : Nat) :
    (sirStepU nbrs tr rr xi xy xx y st u).2.2.1 k m
      = st.2.2.1 k m + sumRat ((nbrs u).map fun v =>
          if k = u ∧ m = v then sirBXY tr rr xy u v + triXY nbrs tr xi xy xx u v else 0) := by
  unfold sirStepU
  simp only []
  rw [foldl_acc (fun st : A × A × M × M => st.2.2.1 k m) _ _ _
    (fun s v _ => sirStepV_XY nbrs tr rr xi xy xx u s v k m)]

theorem sirStepU_XX (y : A) (st : A × A × M × M) (u k m : Nat) :
    (sirStepU nbrs tr rr xi xy xx y st u).2.2.2 k m
      = st.2.2.2 k m + sumRat ((nbrs u).map fun v =>
          if k = u ∧ m = v then triXX nbrs tr xi xy xx u v else 0) := by
  unfold sirStepU
  simp only []
  rw [foldl_acc (fun st : A × A × M × M => st.2.2.2 k m) _ _ _
    (fun s v _ => sirStepV_XX nbrs tr rr xi xy xx u s v k m)]

theorem sirLoop_Y (N : Nat) (y : A) (k : Nat) :
    (sirLoop nbrs tr rr xi xy xx N y).1 k
      = if k < N then -rr k * y k + sumRat ((nbrs k).map fun v => tr k v * xy k v) else 0 := by
  unfold sirLoop
  rw [foldl_acc (fun st : A × A × M × M => st.1 k) _ _ _ (fun s u _ => sirStepU_Y nbrs tr rr xi xy xx y s u k),
    sumRat_pick_range]
  simp

theorem sirLoop_X (N : Nat) (y : A) (k : Nat) :
    (sirLoop nbrs tr rr xi xy xx N y).2.1 k
      = if k < N then sumRat ((nbrs k).map fun v => (-(tr k v)) * xy k v) else 0 := by
  unfold sirLoop
  rw [foldl_acc (fun st : A × A × M × M => st.2.1 k) _ _ _ (fun s u _ => sirStepU_X nbrs tr rr xi xy xx y s u k),
    sumRat_pick_range]
  simp

theorem sirLoop_XY (N : Nat) (y : A) (k m : Nat) (hn : (nbrs k).Nodup) :
    (sirLoop nbrs tr rr xi xy xx N y).2.2.1 k m
      = if k < N ∧ m ∈ nbrs k then sirBXY tr rr xy k m + triXY nbrs tr xi xy xx k m else 0 := by
  unfold sirLoop
  rw [foldl_acc (fun st : A × A × M × M => st.2.2.1 k m) _ _ _
    (fun s u _ => sirStepU_XY nbrs tr rr xi xy xx y s u k m), sumRat_pick2 N nbrs k m _ hn]
  simp

theorem sirLoop_XX (N : Nat) (y : A) (k m : Nat) (hn : (nbrs k).Nodup) :
    (sirLoop nbrs tr rr xi xy xx N y).2.2.2 k m
      = if k < N ∧ m ∈ nbrs k then triXX nbrs tr xi xy xx k m else 0 := by
  unfold sirLoop
  rw [foldl_acc (fun st : A × A × M × M => st.2.2.2 k m) _ _ _
    (fun s u _ => sirStepU_XX nbrs tr rr xi xy xx y s u k m), sumRat_pick2 N nbrs k m _ hn]
  simp

end cellsSIR

/-! ## 3. the cell values are the hand model's closed forms -/

section model
variable (nbrs : Nat → List Nat) (tr : Nat → Nat → Rat) (rr : Nat → Rat) (X : A) (xy xx : M)

/-- the model's triple sums `t1`, `t2` (`Model/ODE2.lean`) -/
def mT1 (i j : Nat) : Rat :=
  sumRat (((nbrs j).filter fun w => w ≠ i).map fun k => tr j k * xx i j * xy j k * xinv (X j))
def mT2 (Z : M) (i j : Nat) : Rat :=
  sumRat (((nbrs i).filter fun w => w ≠ j).map fun k => tr i k * xy i k * Z i j * xinv (X i))

theorem triXY_eq (u v : Nat) :
    triXY nbrs tr (fun i => xinvG (X i)) xy xx u v = mT1 nbrs tr X xy xx u v - mT2 nbrs tr X xy xy u v := by
  unfold triXY mT1 mT2
  have h2 : sumRat (((nbrs u).filter fun w => w ≠ v).map (f2XY tr (fun i => xinvG (X i)) xy u v))
      = -sumRat (((nbrs u).filter fun w => w ≠ v).map fun k => tr u k * xy u k * xy u v * xinv (X u)) := by
    rw [← sumRat_map_neg]; apply sumRat_map_congr; intro w _; simp only [f2XY, xinvG_eq]; ring
  have h1 : sumRat (((nbrs v).filter fun w => w ≠ u).map (f1XY tr (fun i => xinvG (X i)) xy xx u v))
      = sumRat (((nbrs v).filter fun w => w ≠ u).map fun k => tr v k * xx u v * xy v k * xinv (X v)) := by
    apply sumRat_map_congr; intro w _; simp only [f1XY, xinvG_eq]
  rw [h1, h2]; ring

theorem triXX_eq (u v : Nat) :
    triXX nbrs tr (fun i => xinvG (X i)) xy xx u v = -mT1 nbrs tr X xy xx u v - mT2 nbrs tr X xy xx u v := by
  unfold triXX mT1 mT2
  have h2 : sumRat (((nbrs u).filter fun w => w ≠ v).map (f2XX tr (fun i => xinvG (X i)) xy xx u v))
      = -sumRat (((nbrs u).filter fun w => w ≠ v).map fun k => tr u k * xy u k * xx u v * xinv (X u)) := by
    rw [← sumRat_map_neg]; apply sumRat_map_congr; intro w _; simp only [f2XX, xinvG_eq]; ring
  have h1 : sumRat (((nbrs v).filter fun w => w ≠ u).map (f1XX tr (fun i => xinvG (X i)) xy xx u v))
      = -sumRat (((nbrs v).filter fun w => w ≠ u).map fun k => tr v k * xx u v * xy v k * xinv (X v)) := by
    rw [← sumRat_map_neg]; apply sumRat_map_congr; intro w _; simp only [f1XX, xinvG_eq]; ring
  rw [h1, h2]; ring

end model

section modelEq
variable (nbrs : Nat → List Nat) (tr : Nat → Nat → Rat) (rr : Nat → Rat) (xy xx : M)

theorem sisLoop_model_Y (N : Nat) (y : A) (k : Nat) (hk : k < N) :
    (sisLoop nbrs tr rr (fun i => xinvG (1 - y i)) xy xx N y).1 k = (sisPairBased nbrs tr rr y xy xx).1 k := by
  rw [sisLoop_Y]; simp only [hk, if_true, sisPairBased]

theorem sisLoop_model_XY (N : Nat) (y : A) (k m : Nat) (hk : k < N) (hn : (nbrs k).Nodup) :
    (sisLoop nbrs tr rr (fun i => xinvG (1 - y i)) xy xx N y).2.1 k m = (sisPairBased nbrs tr rr y xy xx).2.1 k m := by
  rw [sisLoop_XY _ _ _ _ _ _ _ _ _ _ hn, triXY_eq nbrs tr (fun i => 1 - y i)]
  unfold mT1 mT2 sisPairBased sisBXY
  by_cases hm : m ∈ nbrs k
  · simp only [hk, hm, and_self, if_true, List.contains_eq_mem, decide_true]; ring
  · simp only [hk, hm, and_false, if_false, List.contains_eq_mem, decide_false, Bool.false_eq_true]

theorem sisLoop_model_XX (N : Nat) (y : A) (k m : Nat) (hk : k < N) (hn : (nbrs k).Nodup) :
    (sisLoop nbrs tr rr (fun i => xinvG (1 - y i)) xy xx N y).2.2 k m = (sisPairBased nbrs tr rr y xy xx).2.2 k m := by
  rw [sisLoop_XX _ _ _ _ _ _ _ _ _ _ hn, triXX_eq nbrs tr (fun i => 1 - y i)]
  unfold mT1 mT2 sisPairBased sisBXX
  by_cases hm : m ∈ nbrs k
  · simp only [hk, hm, and_self, if_true, List.contains_eq_mem, decide_true]; ring
  · simp only [hk, hm, and_false, if_false, List.contains_eq_mem, decide_false, Bool.false_eq_true]

theorem sirLoop_model_X (N : Nat) (x y : A) (k : Nat) (hk : k < N) :
    (sirLoop nbrs tr rr (fun i => xinvG (x i)) xy xx N y).2.1 k = (sirPairBased nbrs tr rr x y xy xx).1 k := by
  rw [sirLoop_X]; simp only [hk, if_true, sirPairBased]
  rw [← sumRat_map_neg]; apply sumRat_map_congr; intro v _; ring

theorem sirLoop_model_Y (N : Nat) (x y : A) (k : Nat) (hk : k < N) :
    (sirLoop nbrs tr rr (fun i => xinvG (x i)) xy xx N y).1 k = (sirPairBased nbrs tr rr x y xy xx).2.1 k := by
  rw [sirLoop_Y]; simp only [hk, if_true, sirPairBased]

theorem sirLoop_model_XY (N : Nat) (x y : A) (k m : Nat) (hk : k < N) (hn : (nbrs k).Nodup) :
    (sirLoop nbrs tr rr (fun i => xinvG (x i)) xy xx N y).2.2.1 k m = (sirPairBased nbrs tr rr x y xy xx).2.2.1 k m := by
  rw [sirLoop_XY _ _ _ _ _ _ _ _ _ _ hn, triXY_eq nbrs tr x]
  unfold mT1 mT2 sirPairBased sirBXY
  by_cases hm : m ∈ nbrs k
  · simp only [hk, hm, and_self, if_true, List.contains_eq_mem, decide_true]; ring
  · simp only [hk, hm, and_false, if_false, List.contains_eq_mem, decide_false, Bool.false_eq_true]

theorem sirLoop_model_XX (N : Nat) (x y : A) (k m : Nat) (hk : k < N) (hn : (nbrs k).Nodup) :
    (sirLoop nbrs tr rr (fun i => xinvG (x i)) xy xx N y).2.2.2 k m = (sirPairBased nbrs tr rr x y xy xx).2.2.2 k m := by
  rw [sirLoop_XX _ _ _ _ _ _ _ _ _ _ hn, triXX_eq nbrs tr x]
  unfold mT1 mT2 sirPairBased
  by_cases hm : m ∈ nbrs k
  · simp only [hk, hm, and_self, if_true, List.contains_eq_mem, decide_true]
  · simp only [hk, hm, and_false, if_false, List.contains_eq_mem, decide_false, Bool.false_eq_true]

end modelEq

/-! ## 4. packing / unpacking of the flat state vector -/

theorem idx_lt {N a b : Nat} (ha : a < N) (hb : b < N) : a * N + b < N * N := by
  have : (a + 1) * N ≤ N * N := Nat.mul_le_mul_right N ha
  rw [Nat.add_mul, Nat.one_mul] at this; omega

theorem idx_div {N a b : Nat} (hb : b < N) : (a * N + b) / N = a := by
  have hN : 0 < N := by omega
  rw [Nat.add_comm, Nat.add_mul_div_right _ _ hN, Nat.div_eq_of_lt hb, Nat.zero_add]

theorem idx_mod {N a b : Nat} (hb : b < N) : (a * N + b) % N = b := by
  rw [Nat.add_comm, Nat.add_mul_mod_self_right, Nat.mod_eq_of_lt hb]

theorem flat_f {N a b : Nat} (m : M) (hb : b < N) : (flat N N m).f (a * N + b) = m a b := by
  show m ((a * N + b) / N) ((a * N + b) % N) = m a b
  rw [idx_div hb, idx_mod hb]

/-- reading `concatenate((a, B.flat, C.flat))` -/
theorem unpack3 (N : Nat) (a : A) (b c : M) :
    let r := V.append ⟨N, a⟩ (V.append (flat N N b) (flat N N c))
    (∀ i, i < N → r.f i = a i) ∧
    (∀ i j, i < N → j < N → r.f (N + (i * N + j)) = b i j ∧ r.f (N + (N * N + (i * N + j))) = c i j) := by
  intro r
  refine ⟨fun i hi => V.append_f_lt ⟨N, a⟩ _ i hi, fun i j hi hj => ⟨?_, ?_⟩⟩
  · show (V.append ⟨N, a⟩ _).f ((⟨N, a⟩ : V).n + (i * N + j)) = _
    rw [V.append_f_ge, V.append_f_lt _ _ _ (idx_lt hi hj), flat_f _ hj]
  · show (V.append ⟨N, a⟩ _).f ((⟨N, a⟩ : V).n + (N * N + (i * N + j))) = _
    rw [V.append_f_ge]
    show (V.append (flat N N b) _).f ((flat N N b).n + (i * N + j)) = _
    rw [V.append_f_ge, flat_f _ hj]

/-! ### the hand models only look at cells `< N` when neighbours are `< N` -/

section congr
variable (nbrs : Nat → List Nat) (tr : Nat → Nat → Rat) (rr : Nat → Rat)

theorem mT1_congr (X X' : A) (xy xx XY XX : M) (i j : Nat) (hX : X j = X' j) (hxx : xx i j = XX i j)
    (hxy : ∀ k ∈ nbrs j, xy j k = XY j k) :
    mT1 nbrs tr X xy xx i j = mT1 nbrs tr X' XY XX i j := by
  unfold mT1
  apply sumRat_map_congr; intro k hk
  rw [hX, hxx, hxy k (List.mem_filter.1 hk).1]

theorem mT2_congr (X X' : A) (xy XY Z Z' : M) (i j : Nat) (hX : X i = X' i) (hZ : Z i j = Z' i j)
    (hxy : ∀ k ∈ nbrs i, xy i k = XY i k) :
    mT2 nbrs tr X xy Z i j = mT2 nbrs tr X' XY Z' i j := by
  unfold mT2
  apply sumRat_map_congr; intro k hk
  rw [hX, hZ, hxy k (List.mem_filter.1 hk).1]

theorem sisPB_1 (y : A) (xy xx : M) (i : Nat) :
    (sisPairBased nbrs tr rr y xy xx).1 i = -rr i * y i + sumRat ((nbrs i).map fun j => tr i j * xy i j) := rfl
theorem sisPB_21 (y : A) (xy xx : M) (i j : Nat) :
    (sisPairBased nbrs tr rr y xy xx).2.1 i j = if (nbrs i).contains j then
      -(tr i j + rr j) * xy i j + rr i * (1 - xy i j - xx i j - xy j i)
        + mT1 nbrs tr (fun i => 1 - y i) xy xx i j - mT2 nbrs tr (fun i => 1 - y i) xy xy i j else 0 := rfl
theorem sisPB_22 (y : A) (xy xx : M) (i j : Nat) :
    (sisPairBased nbrs tr rr y xy xx).2.2 i j = if (nbrs i).contains j then
      rr i * xy j i + rr j * xy i j
        - mT1 nbrs tr (fun i => 1 - y i) xy xx i j - mT2 nbrs tr (fun i => 1 - y i) xy xx i j else 0 := rfl

theorem sirPB_1 (x y : A) (xy xx : M) (i : Nat) :
    (sirPairBased nbrs tr rr x y xy xx).1 i = -sumRat ((nbrs i).map fun j => tr i j * xy i j) := rfl
theorem sirPB_21 (x y : A) (xy xx : M) (i : Nat) :
    (sirPairBased nbrs tr rr x y xy xx).2.1 i = -rr i * y i + sumRat ((nbrs i).map fun j => tr i j * xy i j) := rfl
theorem sirPB_221 (x y : A) (xy xx : M) (i j : Nat) :
    (sirPairBased nbrs tr rr x y xy xx).2.2.1 i j = if (nbrs i).contains j then
      -(tr i j + rr j) * xy i j + mT1 nbrs tr x xy xx i j - mT2 nbrs tr x xy xy i j else 0 := rfl
theorem sirPB_222 (x y : A) (xy xx : M) (i j : Nat) :
    (sirPairBased nbrs tr rr x y xy xx).2.2.2 i j = if (nbrs i).contains j then
      -mT1 nbrs tr x xy xx i j - mT2 nbrs tr x xy xx i j else 0 := rfl

variable (N : Nat) (hb : ∀ u, u < N → ∀ v ∈ nbrs u, v < N)
include hb

theorem sisPB_congr (y Y : A) (xy xx XY XX : M)
    (hy : ∀ i, i < N → y i = Y i) (hxy : ∀ a b, a < N → b < N → xy a b = XY a b)
    (hxx : ∀ a b, a < N → b < N → xx a b = XX a b) :
    (∀ i, i < N → (sisPairBased nbrs tr rr y xy xx).1 i = (sisPairBased nbrs tr rr Y XY XX).1 i) ∧
    (∀ i j, i < N → j < N →
      (sisPairBased nbrs tr rr y xy xx).2.1 i j = (sisPairBased nbrs tr rr Y XY XX).2.1 i j ∧
      (sisPairBased nbrs tr rr y xy xx).2.2 i j = (sisPairBased nbrs tr rr Y XY XX).2.2 i j) := by
  refine ⟨fun i hi => ?_, fun i j hi hj => ?_⟩
  · rw [sisPB_1, sisPB_1, hy i hi]
    congr 1
    apply sumRat_map_congr; intro j hj; rw [hxy i j hi (hb i hi j hj)]
  · have hXi : (fun i => 1 - y i) i = (fun i => 1 - Y i) i := by simp only [hy i hi]
    have hXj : (fun i => 1 - y i) j = (fun i => 1 - Y i) j := by simp only [hy j hj]
    have t1 := mT1_congr nbrs tr (fun i => 1 - y i) (fun i => 1 - Y i) xy xx XY XX i j hXj (hxx i j hi hj) (fun k hk => hxy j k hj (hb j hj k hk))
    have t2 := mT2_congr nbrs tr (fun i => 1 - y i) (fun i => 1 - Y i) xy XY xy XY i j hXi (hxy i j hi hj) (fun k hk => hxy i k hi (hb i hi k hk))
    have t3 := mT2_congr nbrs tr (fun i => 1 - y i) (fun i => 1 - Y i) xy XY xx XX i j hXi (hxx i j hi hj) (fun k hk => hxy i k hi (hb i hi k hk))
    constructor
    · rw [sisPB_21, sisPB_21, t1, t2, hxy i j hi hj, hxy j i hj hi, hxx i j hi hj]
    · rw [sisPB_22, sisPB_22, t1, t3, hxy i j hi hj, hxy j i hj hi]

theorem sirPB_congr (x X y Y : A) (xy xx XY XX : M)
    (hx : ∀ i, i < N → x i = X i) (hy : ∀ i, i < N → y i = Y i)
    (hxy : ∀ a b, a < N → b < N → xy a b = XY a b) (hxx : ∀ a b, a < N → b < N → xx a b = XX a b) :
    (∀ i, i < N → (sirPairBased nbrs tr rr x y xy xx).1 i = (sirPairBased nbrs tr rr X Y XY XX).1 i ∧
      (sirPairBased nbrs tr rr x y xy xx).2.1 i = (sirPairBased nbrs tr rr X Y XY XX).2.1 i) ∧
    (∀ i j, i < N → j < N →
      (sirPairBased nbrs tr rr x y xy xx).2.2.1 i j = (sirPairBased nbrs tr rr X Y XY XX).2.2.1 i j ∧
      (sirPairBased nbrs tr rr x y xy xx).2.2.2 i j = (sirPairBased nbrs tr rr X Y XY XX).2.2.2 i j) := by
  refine ⟨fun i hi => ?_, fun i j hi hj => ?_⟩
  · have hs : sumRat ((nbrs i).map fun j => tr i j * xy i j) = sumRat ((nbrs i).map fun j => tr i j * XY i j) := by
      apply sumRat_map_congr; intro j hj; rw [hxy i j hi (hb i hi j hj)]
    constructor
    · rw [sirPB_1, sirPB_1, hs]
    · rw [sirPB_21, sirPB_21, hs, hy i hi]
  · have t1 := mT1_congr nbrs tr x X xy xx XY XX i j (hx j hj) (hxx i j hi hj) (fun k hk => hxy j k hj (hb j hj k hk))
    have t2 := mT2_congr nbrs tr x X xy XY xy XY i j (hx i hi) (hxy i j hi hj) (fun k hk => hxy i k hi (hb i hi k hk))
    have t3 := mT2_congr nbrs tr x X xy XY xx XX i j (hx i hi) (hxx i j hi hj) (fun k hk => hxy i k hi (hb i hi k hk))
    constructor
    · rw [sirPB_221, sirPB_221, t1, t2, hxy i j hi hj]
    · rw [sirPB_222, sirPB_222, t1, t3]

end congr

/-! ## 5. the generated functions and the hand models -/

/-- `_dSIS_pair_based_` on an ARBITRARY state vector: the result cells are the model's closed forms evaluated on the
slices of the vector as the code reads them.  Only duplicate-freeness of the neighbour lists is needed. -/
theorem gen_sis_cells (Vst : V) (N : Nat) (nbrs : Nat → List Nat) (tr : Nat → Nat → Rat) (rr : Nat → Rat)
    (hn : ∀ u, u < N → (nbrs u).Nodup) :
    let y : A := fun i => Vst.f (0 + i)
    let xy : M := fun a b => Vst.f (N + (a * N + b))
    let xx : M := fun a b => Vst.f ((N + N * N) + (a * N + b))
    let r := Gen.dSIS_pair_based Vst N nbrs tr rr
    let m := sisPairBased nbrs tr rr y xy xx
    r.n = N + (N * N + N * N) ∧ (∀ i, i < N → r.f i = m.1 i) ∧
    (∀ i j, i < N → j < N → r.f (N + (i * N + j)) = m.2.1 i j ∧ r.f (N + (N * N + (i * N + j))) = m.2.2 i j) := by
  intro y xy xx r m
  have hr : r = V.append ⟨N, (sisLoop nbrs tr rr (fun i => xinvG (1 - y i)) xy xx N y).1⟩
      (V.append (flat N N (sisLoop nbrs tr rr (fun i => xinvG (1 - y i)) xy xx N y).2.1)
        (flat N N (sisLoop nbrs tr rr (fun i => xinvG (1 - y i)) xy xx N y).2.2)) :=
    gen_sis_loop Vst N nbrs tr rr
  obtain ⟨o1, o2⟩ := unpack3 N (sisLoop nbrs tr rr (fun i => xinvG (1 - y i)) xy xx N y).1
    (sisLoop nbrs tr rr (fun i => xinvG (1 - y i)) xy xx N y).2.1
    (sisLoop nbrs tr rr (fun i => xinvG (1 - y i)) xy xx N y).2.2
  rw [hr]
  refine ⟨rfl, fun i hi => (o1 i hi).trans (sisLoop_model_Y nbrs tr rr xy xx N y i hi), fun i j hi hj => ⟨?_, ?_⟩⟩
  · exact (o2 i j hi hj).1.trans (sisLoop_model_XY nbrs tr rr xy xx N y i j hi (hn i hi))
  · exact (o2 i j hi hj).2.trans (sisLoop_model_XX nbrs tr rr xy xx N y i j hi (hn i hi))

/-- `_dSIR_pair_based_` on an arbitrary state vector -/
theorem gen_sir_cells (Vst : V) (N : Nat) (nbrs : Nat → List Nat) (tr : Nat → Nat → Rat) (rr : Nat → Rat)
    (hn : ∀ u, u < N → (nbrs u).Nodup) :
    let x : A := fun i => Vst.f (0 + i)
    let y : A := fun i => Vst.f (N + i)
    let xy : M := fun a b => Vst.f ((2 * N) + (a * N + b))
    let xx : M := fun a b => Vst.f (((2 * N) + N * N) + (a * N + b))
    let r := Gen.dSIR_pair_based Vst N nbrs tr rr
    let m := sirPairBased nbrs tr rr x y xy xx
    r.n = N + (N + (N * N + N * N)) ∧ (∀ i, i < N → r.f i = m.1 i ∧ r.f (N + i) = m.2.1 i) ∧
    (∀ i j, i < N → j < N → r.f (N + (N + (i * N + j))) = m.2.2.1 i j ∧
      r.f (N + (N + (N * N + (i * N + j)))) = m.2.2.2 i j) := by
  intro x y xy xx r m
  have hr : r = V.append ⟨N, (sirLoop nbrs tr rr (fun i => xinvG (x i)) xy xx N y).2.1⟩
      (V.append ⟨N, (sirLoop nbrs tr rr (fun i => xinvG (x i)) xy xx N y).1⟩
        (V.append (flat N N (sirLoop nbrs tr rr (fun i => xinvG (x i)) xy xx N y).2.2.1)
          (flat N N (sirLoop nbrs tr rr (fun i => xinvG (x i)) xy xx N y).2.2.2))) :=
    gen_sir_loop Vst N nbrs tr rr
  obtain ⟨o1, o2⟩ := unpack3 N (sirLoop nbrs tr rr (fun i => xinvG (x i)) xy xx N y).1
    (sirLoop nbrs tr rr (fun i => xinvG (x i)) xy xx N y).2.2.1
    (sirLoop nbrs tr rr (fun i => xinvG (x i)) xy xx N y).2.2.2
  rw [hr]
  refine ⟨rfl, fun i hi => ⟨?_, ?_⟩, fun i j hi hj => ⟨?_, ?_⟩⟩
  · rw [V.append_f_lt _ _ _ (show i < (⟨N, _⟩ : V).n from hi)]
    exact sirLoop_model_X nbrs tr rr xy xx N x y i hi
  · rw [show N + i = (⟨N, (sirLoop nbrs tr rr (fun i => xinvG (x i)) xy xx N y).2.1⟩ : V).n + i from rfl,
      V.append_f_ge, o1 i hi]
    exact sirLoop_model_Y nbrs tr rr xy xx N x y i hi
  · rw [show N + (N + (i * N + j))
        = (⟨N, (sirLoop nbrs tr rr (fun i => xinvG (x i)) xy xx N y).2.1⟩ : V).n + (N + (i * N + j)) from rfl,
      V.append_f_ge, (o2 i j hi hj).1]
    exact sirLoop_model_XY nbrs tr rr xy xx N x y i j hi (hn i hi)
  · rw [show N + (N + (N * N + (i * N + j)))
        = (⟨N, (sirLoop nbrs tr rr (fun i => xinvG (x i)) xy xx N y).2.1⟩ : V).n + (N + (N * N + (i * N + j)))
        from rfl,
      V.append_f_ge, (o2 i j hi hj).2]
    exact sirLoop_model_XX nbrs tr rr xy xx N x y i j hi (hn i hi)

/-- MAIN (SIS): on the packed state `concatenate((Y, XY.flat, XX.flat))` the generated `_dSIS_pair_based_` returns
the packed hand model `ODE.sisPairBased`. -/
theorem gen_sisPairBased (N : Nat) (nbrs : Nat → List Nat) (tr : Nat → Nat → Rat) (rr : Nat → Rat)
    (Y : A) (XY XX : M)
    (hn : ∀ u, u < N → (nbrs u).Nodup) (hb : ∀ u, u < N → ∀ v ∈ nbrs u, v < N) :
    let Vst := V.append ⟨N, Y⟩ (V.append (flat N N XY) (flat N N XX))
    let r := Gen.dSIS_pair_based Vst N nbrs tr rr
    let m := sisPairBased nbrs tr rr Y XY XX
    r.n = N + (N * N + N * N) ∧ (∀ i, i < N → r.f i = m.1 i) ∧
    (∀ i j, i < N → j < N → r.f (N + (i * N + j)) = m.2.1 i j ∧ r.f (N + (N * N + (i * N + j))) = m.2.2 i j) := by
  intro Vst r m
  obtain ⟨u1, u2⟩ := unpack3 N Y XY XX
  have hy : ∀ i, i < N → (fun i => Vst.f (0 + i)) i = Y i := fun i hi => by
    simp only [Nat.zero_add]; exact u1 i hi
  have hxy : ∀ a b, a < N → b < N → (fun a b => Vst.f (N + (a * N + b))) a b = XY a b :=
    fun a b ha hb' => (u2 a b ha hb').1
  have hxx : ∀ a b, a < N → b < N → (fun a b => Vst.f ((N + N * N) + (a * N + b))) a b = XX a b :=
    fun a b ha hb' => by simp only [Nat.add_assoc]; exact (u2 a b ha hb').2
  obtain ⟨c1, c2⟩ := sisPB_congr nbrs tr rr N hb _ Y _ _ XY XX hy hxy hxx
  obtain ⟨g0, g1, g2⟩ := gen_sis_cells Vst N nbrs tr rr hn
  refine ⟨g0, fun i hi => (g1 i hi).trans (c1 i hi), fun i j hi hj => ⟨?_, ?_⟩⟩
  · exact (g2 i j hi hj).1.trans (c2 i j hi hj).1
  · exact (g2 i j hi hj).2.trans (c2 i j hi hj).2

/-- reading `concatenate((a, b, C.flat, D.flat))` -/
theorem unpack4 (N : Nat) (a b : A) (c d : M) :
    let r := V.append ⟨N, a⟩ (V.append ⟨N, b⟩ (V.append (flat N N c) (flat N N d)))
    (∀ i, i < N → r.f i = a i ∧ r.f (N + i) = b i) ∧
    (∀ i j, i < N → j < N → r.f (N + (N + (i * N + j))) = c i j ∧ r.f (N + (N + (N * N + (i * N + j)))) = d i j) := by
  intro r
  obtain ⟨o1, o2⟩ := unpack3 N b c d
  refine ⟨fun i hi => ⟨V.append_f_lt ⟨N, a⟩ _ i hi, ?_⟩, fun i j hi hj => ⟨?_, ?_⟩⟩
  · show (V.append ⟨N, a⟩ _).f ((⟨N, a⟩ : V).n + i) = _
    rw [V.append_f_ge]; exact o1 i hi
  · show (V.append ⟨N, a⟩ _).f ((⟨N, a⟩ : V).n + (N + (i * N + j))) = _
    rw [V.append_f_ge]; exact (o2 i j hi hj).1
  · show (V.append ⟨N, a⟩ _).f ((⟨N, a⟩ : V).n + (N + (N * N + (i * N + j)))) = _
    rw [V.append_f_ge]; exact (o2 i j hi hj).2

/-- MAIN (SIR): on the packed state `concatenate((X, Y, XY.flat, XX.flat))` the generated `_dSIR_pair_based_`
returns the packed hand model `ODE.sirPairBased`. -/
theorem gen_sirPairBased (N : Nat) (nbrs : Nat → List Nat) (tr : Nat → Nat → Rat) (rr : Nat → Rat)
    (X Y : A) (XY XX : M)
    (hn : ∀ u, u < N → (nbrs u).Nodup) (hb : ∀ u, u < N → ∀ v ∈ nbrs u, v < N) :
    let Vst := V.append ⟨N, X⟩ (V.append ⟨N, Y⟩ (V.append (flat N N XY) (flat N N XX)))
    let r := Gen.dSIR_pair_based Vst N nbrs tr rr
    let m := sirPairBased nbrs tr rr X Y XY XX
    r.n = N + (N + (N * N + N * N)) ∧ (∀ i, i < N → r.f i = m.1 i ∧ r.f (N + i) = m.2.1 i) ∧
    (∀ i j, i < N → j < N → r.f (N + (N + (i * N + j))) = m.2.2.1 i j ∧
      r.f (N + (N + (N * N + (i * N + j)))) = m.2.2.2 i j) := by
  intro Vst r m
  obtain ⟨u1, u2⟩ := unpack4 N X Y XY XX
  have hx : ∀ i, i < N → (fun i => Vst.f (0 + i)) i = X i := fun i hi => by
    simp only [Nat.zero_add]; exact (u1 i hi).1
  have hy : ∀ i, i < N → (fun i => Vst.f (N + i)) i = Y i := fun i hi => (u1 i hi).2
  have hxy : ∀ a b, a < N → b < N → (fun a b => Vst.f ((2 * N) + (a * N + b))) a b = XY a b :=
    fun a b ha hb' => by simp only [Nat.two_mul, Nat.add_assoc]; exact (u2 a b ha hb').1
  have hxx : ∀ a b, a < N → b < N → (fun a b => Vst.f (((2 * N) + N * N) + (a * N + b))) a b = XX a b :=
    fun a b ha hb' => by simp only [Nat.two_mul, Nat.add_assoc]; exact (u2 a b ha hb').2
  obtain ⟨c1, c2⟩ := sirPB_congr nbrs tr rr N hb _ X _ Y _ _ XY XX hx hy hxy hxx
  obtain ⟨g0, g1, g2⟩ := gen_sir_cells Vst N nbrs tr rr hn
  refine ⟨g0, fun i hi => ⟨(g1 i hi).1.trans (c1 i hi).1, (g1 i hi).2.trans (c1 i hi).2⟩,
    fun i j hi hj => ⟨?_, ?_⟩⟩
  · exact (g2 i j hi hj).1.trans (c2 i j hi hj).1
  · exact (g2 i j hi hj).2.trans (c2 i j hi hj).2

end GenEqLoops2
